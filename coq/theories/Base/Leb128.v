(* Base/Leb128.v — unsigned LEB128 as automerge reads and writes it.

   Writer: the `leb128` crate's [write::unsigned] (minimal encoding).
   Reader: rust/automerge/src/storage/parse/leb128.rs [leb128_u64]: at most
   ten bytes, the tenth may only be 0 or 1, an over-long (zero final byte
   after the first) encoding is rejected.  The loop with (res, shift)
   accumulators is written here as the equivalent head recursion; [f] is the
   number of bytes still allowed (10 at entry), [first] is "shift = 0".
   In the Rust the tenth byte's payload is shifted by 63 and truncated; every
   such input with payload > 1 is rejected, so the truncation never reaches an
   [Ok] result and is not modelled. *)
From AM Require Import Base.Prelude.
Local Open Scope N_scope.

Fixpoint udec (first : bool) (f : nat) (l : bytes) : res (N * bytes) :=
  match f with
  | O => Err
  | S f' =>
    match l with
    | [] => Err
    | b :: t =>
      if b <? 128 then
        if Nat.eqb f' 0 && (1 <? b) then Err
        else if negb first && (b =? 0) then Err
        else Ok (b, t)
      else if Nat.eqb f' 0 then Err
      else let* (v, r) := udec false f' t in Ok (b - 128 + 128 * v, r)
    end
  end.

Definition uleb_dec (l : bytes) : res (N * bytes) := udec true 10 l.

Definition uleb_dec_u32 (l : bytes) : res (N * bytes) :=
  let* (v, r) := uleb_dec l in if v <=? u32_max then Ok (v, r) else Err.

Fixpoint uenc (f : nat) (n : N) : bytes :=
  match f with
  | O => []
  | S f' => if n <? 128 then [n] else (n mod 128 + 128) :: uenc f' (n / 128)
  end.

Definition uleb_enc (n : N) : bytes := uenc 10 n.

(* number of values representable in f more bytes: 2 * 128^(f-1), lim 10 = 2^64 *)
Fixpoint lim (f : nat) : N :=
  match f with
  | O => 0
  | S O => 2
  | S f' => 128 * lim f'
  end.

Lemma lim_10 : lim 10 = pow64. Proof. reflexivity. Qed.

Ltac Zify.zify_post_hook ::= Z.div_mod_to_equations.

Lemma lim_S f : (1 <= f)%nat -> lim (S f) = 128 * lim f.
Proof. destruct f; [lia|reflexivity]. Qed.

Lemma udec_uenc f : forall first n rest,
  n < lim f -> (first = false -> 1 <= n) ->
  udec first f (uenc f n ++ rest) = Ok (n, rest).
Proof.
  induction f as [|f IH]; intros first n rest Hn Hfirst; [cbn in Hn; lia|].
  cbn [udec uenc].
  destruct (n <? 128) eqn:E.
  - cbn [app]. rewrite E.
    destruct (Nat.eqb f 0) eqn:Ef.
    + apply Nat.eqb_eq in Ef. subst f. cbn in Hn.
      assert ((1 <? n) = false) as -> by lia. cbn [andb].
      destruct first; cbn [negb andb]; [reflexivity|].
      assert ((n =? 0) = false) as -> by (specialize (Hfirst eq_refl); lia). reflexivity.
    + cbn [andb]. destruct first; cbn [negb andb]; [reflexivity|].
      assert ((n =? 0) = false) as -> by (specialize (Hfirst eq_refl); lia). reflexivity.
  - cbn [app].
    assert ((n mod 128 + 128 <? 128) = false) as -> by lia.
    destruct (Nat.eqb f 0) eqn:Ef.
    + apply Nat.eqb_eq in Ef. subst f. cbn in Hn. lia.
    + apply Nat.eqb_neq in Ef.
      rewrite lim_S in Hn by lia.
      rewrite IH; [|lia|intros _; lia].
      cbn [bind]. f_equal. f_equal. lia.
Qed.

Theorem uleb_roundtrip n rest : n < pow64 -> uleb_dec (uleb_enc n ++ rest) = Ok (n, rest).
Proof.
  intros H. unfold uleb_dec, uleb_enc. apply udec_uenc; [rewrite lim_10; exact H|discriminate].
Qed.

(* The reader accepts only the writer's output: canonical form. *)
Lemma udec_canonical f : forall first l n rest,
  wf_bytes l -> udec first f l = Ok (n, rest) ->
  l = uenc f n ++ rest /\ n < lim f /\ (first = false -> 1 <= n).
Proof.
  induction f as [|f IH]; intros first l n rest Hwf H; [discriminate|].
  cbn [udec] in H. destruct l as [|b t]; [discriminate|].
  inversion Hwf as [|? ? Hb Ht]; subst. unfold wf_byte in Hb.
  destruct (b <? 128) eqn:E.
  - destruct (Nat.eqb f 0 && (1 <? b)) eqn:E1; [discriminate|].
    destruct (negb first && (b =? 0)) eqn:E2; [discriminate|].
    inversion H; subst. cbn [uenc]. rewrite E. cbn [app]. split; [reflexivity|]. split.
    + destruct f as [|f]; [cbn in *; lia|]. rewrite lim_S by lia.
      assert (1 <= lim (S f)).
      { clear. induction f as [|f IHf]; [cbn; lia|]. rewrite lim_S by lia. lia. }
      lia.
    + intros ->. cbn in E2. lia.
  - destruct (Nat.eqb f 0) eqn:Ef; [discriminate|]. apply Nat.eqb_neq in Ef.
    destruct (udec false f t) as [[v r]| |] eqn:Ed; cbn [bind] in H; try discriminate.
    inversion H; subst. apply IH in Ed; [|exact Ht]. destruct Ed as (-> & Hv & Hv1).
    specialize (Hv1 eq_refl).
    cbn [uenc].
    assert ((b - 128 + 128 * v <? 128) = false) as -> by lia.
    assert ((b - 128 + 128 * v) mod 128 + 128 = b) as -> by lia.
    assert ((b - 128 + 128 * v) / 128 = v) as -> by lia.
    cbn [app]. split; [reflexivity|]. split; [rewrite lim_S by lia; lia|intros _; lia].
Qed.

Theorem uleb_canonical l n rest :
  wf_bytes l -> uleb_dec l = Ok (n, rest) -> l = uleb_enc n ++ rest /\ n < pow64.
Proof.
  intros Hwf H. apply udec_canonical in H; [|exact Hwf].
  destruct H as (H1 & H2 & _). rewrite lim_10 in H2. auto.
Qed.

(* the reader never panics *)
Lemma udec_no_panic f : forall first l, udec first f l <> Panic.
Proof.
  induction f as [|f IH]; intros first l; cbn [udec]; [discriminate|].
  destruct l as [|b t]; [discriminate|].
  destruct (b <? 128).
  - destruct (Nat.eqb f 0 && (1 <? b)); [discriminate|].
    destruct (negb first && (b =? 0)); discriminate.
  - destruct (Nat.eqb f 0); [discriminate|].
    specialize (IH false t). destruct (udec false f t) as [[v r]| |]; cbn; congruence.
Qed.

Lemma uleb_dec_no_panic l : uleb_dec l <> Panic.
Proof. apply udec_no_panic. Qed.

Lemma uleb_dec_u32_no_panic l : uleb_dec_u32 l <> Panic.
Proof.
  unfold uleb_dec_u32. pose proof (uleb_dec_no_panic l).
  destruct (uleb_dec l) as [[v r]| |]; cbn; try congruence. destruct (v <=? u32_max); discriminate.
Qed.

(* consumed bytes: the rest is a suffix, at least one byte is consumed *)
Lemma udec_rest f : forall first l n rest,
  udec first f l = Ok (n, rest) -> exists pre, l = pre ++ rest /\ (1 <= length pre <= f)%nat.
Proof.
  induction f as [|f IH]; intros first l n rest H; [discriminate|].
  cbn [udec] in H. destruct l as [|b t]; [discriminate|].
  destruct (b <? 128).
  - destruct (Nat.eqb f 0 && (1 <? b)); [discriminate|].
    destruct (negb first && (b =? 0)); [discriminate|].
    inversion H; subst. exists [n]. cbn. split; [reflexivity|lia].
  - destruct (Nat.eqb f 0); [discriminate|].
    destruct (udec false f t) as [[v r]| |] eqn:Ed; cbn [bind] in H; try discriminate.
    inversion H; subst. apply IH in Ed. destruct Ed as (pre & -> & Hl).
    exists (b :: pre). cbn. split; [reflexivity|lia].
Qed.

Lemma uleb_dec_rest l n rest :
  uleb_dec l = Ok (n, rest) -> exists pre, l = pre ++ rest /\ (1 <= length pre <= 10)%nat.
Proof. apply udec_rest. Qed.

Lemma uenc_wf f n : wf_bytes (uenc f n).
Proof.
  revert n; induction f as [|f IH]; intros n; cbn [uenc]; [constructor|].
  destruct (n <? 128) eqn:E.
  - constructor; [unfold wf_byte; lia|constructor].
  - constructor; [unfold wf_byte; lia|apply IH].
Qed.

Lemma uleb_enc_wf n : wf_bytes (uleb_enc n).
Proof. apply uenc_wf. Qed.

Lemma uenc_length f n : (length (uenc f n) <= f)%nat.
Proof.
  revert n; induction f as [|f IH]; intros n; cbn [uenc]; [cbn; lia|].
  destruct (n <? 128); cbn [length]; [lia|]. specialize (IH (n / 128)). lia.
Qed.
