(* Base/Order.v — total orders used by the CRDT model: lexicographic order on
   byte strings (actor ids), operation ids (counter, then actor), insertion
   sort, and the fact every order-independence theorem rests on: two sorted
   lists with the same elements are equal. *)
From AM Require Import Base.Prelude.
From Coq Require Import Sorting.Sorted.

Section Cmp.
  Context {A : Type} (cmp : A -> A -> comparison).

  Record TotalCmp : Prop := {
    cmp_eq : forall a b, cmp a b = Eq <-> a = b;
    cmp_antisym : forall a b, cmp b a = CompOpp (cmp a b);
    cmp_trans : forall a b c, cmp a b = Lt -> cmp b c = Lt -> cmp a c = Lt
  }.

  Definition ltb (a b : A) : bool := match cmp a b with Lt => true | _ => false end.
  Definition leb (a b : A) : bool := match cmp a b with Gt => false | _ => true end.
  Definition eqb_of (a b : A) : bool := match cmp a b with Eq => true | _ => false end.

  Fixpoint insert_sorted (x : A) (l : list A) : list A :=
    match l with
    | [] => [x]
    | y :: t => if leb x y then x :: y :: t else y :: insert_sorted x t
    end.

  Fixpoint isort (l : list A) : list A :=
    match l with
    | [] => []
    | x :: t => insert_sorted x (isort t)
    end.

  Definition lt (a b : A) : Prop := cmp a b = Lt.

  Hypothesis T : TotalCmp.

  Lemma cmp_refl a : cmp a a = Eq.
  Proof. apply (cmp_eq T). reflexivity. Qed.

  Lemma cmp_gt_lt a b : cmp a b = Gt <-> cmp b a = Lt.
  Proof.
    rewrite (cmp_antisym T a b).
    destruct (cmp a b); cbn; split; intros H; try discriminate H; reflexivity.
  Qed.

  Lemma eqb_of_spec a b : eqb_of a b = true <-> a = b.
  Proof. unfold eqb_of. rewrite <- (cmp_eq T). destruct (cmp a b); split; congruence. Qed.

  Lemma insert_sorted_perm x l : Permutation (x :: l) (insert_sorted x l).
  Proof.
    induction l as [|y t IH]; cbn; [reflexivity|].
    destruct (leb x y); [reflexivity|].
    rewrite perm_swap. apply perm_skip, IH.
  Qed.

  Lemma isort_perm l : Permutation l (isort l).
  Proof.
    induction l as [|x t IH]; cbn; [reflexivity|].
    rewrite <- insert_sorted_perm. apply perm_skip, IH.
  Qed.

  (* sortedness as a boolean-free predicate: each element is <= all later ones *)
  Definition le (a b : A) : Prop := cmp a b <> Gt.

  Lemma le_trans a b c : le a b -> le b c -> le a c.
  Proof.
    unfold le. intros H1 H2 H3.
    destruct (cmp a b) eqn:E1; [|clear H1|congruence].
    - apply (cmp_eq T) in E1. subst. congruence.
    - destruct (cmp b c) eqn:E2; [|clear H2|congruence].
      + apply (cmp_eq T) in E2. subst. congruence.
      + pose proof (cmp_trans T _ _ _ E1 E2). congruence.
  Qed.

  Lemma le_total a b : le a b \/ le b a.
  Proof.
    unfold le. destruct (cmp a b) eqn:E; [left; congruence|left; congruence|right].
    apply cmp_gt_lt in E. congruence.
  Qed.

  Lemma le_antisym a b : le a b -> le b a -> a = b.
  Proof.
    unfold le. intros H1 H2. destruct (cmp a b) eqn:E; [apply (cmp_eq T), E| |congruence].
    exfalso. apply H2. apply cmp_gt_lt. exact E.
  Qed.

  Definition sorted (l : list A) : Prop := StronglySorted le l.

  Lemma insert_sorted_sorted x l : sorted l -> sorted (insert_sorted x l).
  Proof.
    unfold sorted. induction l as [|y t IH]; intros H; cbn.
    - constructor; constructor.
    - inversion H as [|? ? Ht Hy]; subst.
      destruct (leb x y) eqn:E.
      + constructor; [exact H|]. constructor.
        * unfold leb in E. unfold le. destruct (cmp x y); congruence.
        * assert (le x y) by (unfold leb in E; unfold le; destruct (cmp x y); congruence).
          eapply Forall_impl; [|exact Hy]. intros z Hz. eapply le_trans; eauto.
      + constructor; [apply IH, Ht|].
        assert (le y x).
        { unfold leb in E. destruct (cmp x y) eqn:E2; try discriminate. unfold le.
          apply cmp_gt_lt in E2. congruence. }
        eapply Permutation_Forall; [apply insert_sorted_perm|]. constructor; assumption.
  Qed.

  Lemma isort_sorted l : sorted (isort l).
  Proof.
    induction l as [|x t IH]; cbn; [constructor|]. apply insert_sorted_sorted, IH.
  Qed.

  (* the engine of order independence *)
  Lemma sorted_perm_unique l1 : forall l2,
    sorted l1 -> sorted l2 -> Permutation l1 l2 -> l1 = l2.
  Proof.
    unfold sorted. induction l1 as [|x t IH]; intros l2 S1 S2 P.
    - apply Permutation_nil in P. subst. reflexivity.
    - destruct l2 as [|y u]; [apply Permutation_sym, Permutation_nil in P; discriminate|].
      inversion S1 as [|? ? St Hx]; subst. inversion S2 as [|? ? Su Hy]; subst.
      assert (x = y).
      { assert (In x (y :: u)) as I1 by (eapply Permutation_in; [exact P|left; reflexivity]).
        assert (In y (x :: t)) as I2 by (eapply Permutation_in; [apply Permutation_sym, P|left; reflexivity]).
        destruct I1 as [->|I1]; [reflexivity|]. destruct I2 as [->|I2]; [reflexivity|].
        rewrite Forall_forall in Hx, Hy. apply le_antisym; auto. }
      subst y. f_equal. apply IH; auto. eapply Permutation_cons_inv, P.
  Qed.

  Theorem isort_perm_eq l1 l2 : Permutation l1 l2 -> isort l1 = isort l2.
  Proof.
    intros P. apply sorted_perm_unique; try apply isort_sorted.
    rewrite <- (isort_perm l1), <- (isort_perm l2). exact P.
  Qed.

  Lemma isort_id l : sorted l -> isort l = l.
  Proof.
    intros S. apply sorted_perm_unique; [apply isort_sorted|exact S|apply Permutation_sym, isort_perm].
  Qed.
End Cmp.
Arguments cmp_eq {A cmp} _.
Arguments cmp_antisym {A cmp} _.
Arguments cmp_trans {A cmp} _.

(* Sorting by a key: the comparison is total on keys only, so two different
   elements with one key compare [Eq].  Among elements whose keys are pairwise
   different the sorted list is still unique. *)
Section KeySort.
  Context {A K : Type} (key : A -> K) (cmpK : K -> K -> comparison).
  Hypothesis TK : TotalCmp cmpK.
  Definition kcmp (a b : A) : comparison := cmpK (key a) (key b).
  Definition kle (a b : A) : Prop := le cmpK (key a) (key b).
  Definition ksorted (l : list A) : Prop := StronglySorted kle l.

  Lemma kinsert_perm x l : Permutation (x :: l) (insert_sorted kcmp x l).
  Proof.
    induction l as [|y t IH]; cbn; [reflexivity|].
    destruct (leb kcmp x y); [reflexivity|]. rewrite perm_swap. apply perm_skip, IH.
  Qed.

  Lemma kisort_perm l : Permutation l (isort kcmp l).
  Proof.
    induction l as [|x t IH]; cbn; [reflexivity|]. rewrite <- kinsert_perm. apply perm_skip, IH.
  Qed.

  Lemma kinsert_sorted x l : ksorted l -> ksorted (insert_sorted kcmp x l).
  Proof.
    unfold ksorted. induction l as [|y t IH]; intros H; cbn.
    - constructor; constructor.
    - inversion H as [|? ? Ht Hy]; subst.
      destruct (leb kcmp x y) eqn:E.
      + assert (kle x y) by (unfold leb, kcmp in E; unfold kle, le; destruct (cmpK (key x) (key y)); congruence).
        constructor; [exact H|]. constructor; [assumption|].
        eapply Forall_impl; [|exact Hy]. intros z Hz. unfold kle in *. eapply le_trans; eauto.
      + constructor; [apply IH, Ht|].
        assert (kle y x).
        { unfold leb, kcmp in E. destruct (cmpK (key x) (key y)) eqn:E2; try discriminate.
          unfold kle, le. apply (cmp_gt_lt cmpK TK) in E2. congruence. }
        eapply Permutation_Forall; [apply kinsert_perm|]. constructor; assumption.
  Qed.

  Lemma kisort_sorted l : ksorted (isort kcmp l).
  Proof. induction l as [|x t IH]; cbn; [constructor|]. apply kinsert_sorted, IH. Qed.

  Lemma ksorted_perm_unique l1 : forall l2,
    NoDup (map key l1) -> ksorted l1 -> ksorted l2 -> Permutation l1 l2 -> l1 = l2.
  Proof.
    unfold ksorted. induction l1 as [|x t IH]; intros l2 ND S1 S2 P.
    - apply Permutation_nil in P. subst. reflexivity.
    - destruct l2 as [|y u]; [apply Permutation_sym, Permutation_nil in P; discriminate|].
      inversion S1 as [|? ? St Hx]; subst. inversion S2 as [|? ? Su Hy]; subst.
      cbn in ND. inversion ND as [|? ? Hnin NDt]; subst.
      assert (x = y).
      { assert (In x (y :: u)) as I1 by (eapply Permutation_in; [exact P|left; reflexivity]).
        assert (In y (x :: t)) as I2 by (eapply Permutation_in; [apply Permutation_sym, P|left; reflexivity]).
        destruct I1 as [->|I1]; [reflexivity|]. destruct I2 as [->|I2]; [reflexivity|].
        rewrite Forall_forall in Hx, Hy.
        assert (key x = key y) by (apply (le_antisym cmpK TK); [apply Hx, I2|apply Hy, I1]).
        exfalso. apply Hnin. rewrite H. apply in_map, I2. }
      subst y. f_equal. apply IH; auto. eapply Permutation_cons_inv, P.
  Qed.

  Theorem kisort_perm_eq l1 l2 :
    NoDup (map key l1) -> Permutation l1 l2 -> isort kcmp l1 = isort kcmp l2.
  Proof.
    intros ND P. apply ksorted_perm_unique; try apply kisort_sorted.
    - eapply Permutation_NoDup; [|exact ND]. apply Permutation_map, kisort_perm.
    - rewrite <- (kisort_perm l1), <- (kisort_perm l2). exact P.
  Qed.
End KeySort.

(* ---- instances ---- *)

Fixpoint bytes_cmp (a b : list N) : comparison :=
  match a, b with
  | [], [] => Eq
  | [], _ :: _ => Lt
  | _ :: _, [] => Gt
  | x :: a', y :: b' => match N.compare x y with Eq => bytes_cmp a' b' | c => c end
  end.

Lemma bytes_cmp_total : TotalCmp bytes_cmp.
Proof.
  split.
  - induction a as [|x a IH]; intros [|y b]; cbn; try (split; congruence).
    destruct (N.compare x y) eqn:E.
    + apply N.compare_eq in E. subst. rewrite IH. split; congruence.
    + split; [discriminate|]. intros H; inversion H; subst. rewrite N.compare_refl in E. discriminate.
    + split; [discriminate|]. intros H; inversion H; subst. rewrite N.compare_refl in E. discriminate.
  - induction a as [|x a IH]; intros [|y b]; cbn; try reflexivity.
    rewrite (N.compare_antisym x y). destruct (N.compare x y); cbn; auto.
  - induction a as [|x a IH]; intros [|y b] [|z c]; cbn; try congruence.
    destruct (N.compare x y) eqn:E1; destruct (N.compare y z) eqn:E2; try congruence.
    + apply N.compare_eq in E1, E2. subst. rewrite N.compare_refl. apply IH.
    + apply N.compare_eq in E1. subst. rewrite E2. auto.
    + apply N.compare_eq in E2. subst. rewrite E1. auto.
    + intros _ _. rewrite N.compare_lt_iff in *. assert (x < z)%N by lia.
      apply N.compare_lt_iff in H. rewrite H. reflexivity.
Qed.

Definition opid := (N * list N)%type.

Definition opid_cmp (a b : opid) : comparison :=
  match N.compare (fst a) (fst b) with Eq => bytes_cmp (snd a) (snd b) | c => c end.

Lemma opid_cmp_total : TotalCmp opid_cmp.
Proof.
  pose proof bytes_cmp_total as B. split.
  - intros [c1 a1] [c2 a2]. unfold opid_cmp. cbn.
    destruct (N.compare c1 c2) eqn:E.
    + apply N.compare_eq in E. subst. rewrite (cmp_eq B). split; congruence.
    + split; [discriminate|]. intros H; inversion H; subst. rewrite N.compare_refl in E. discriminate.
    + split; [discriminate|]. intros H; inversion H; subst. rewrite N.compare_refl in E. discriminate.
  - intros [c1 a1] [c2 a2]. unfold opid_cmp. cbn. rewrite (N.compare_antisym c1 c2).
    destruct (N.compare c1 c2); cbn; auto. apply (cmp_antisym B).
  - intros [c1 a1] [c2 a2] [c3 a3]. unfold opid_cmp. cbn.
    destruct (N.compare c1 c2) eqn:E1; destruct (N.compare c2 c3) eqn:E2; try congruence.
    + apply N.compare_eq in E1, E2. subst. rewrite N.compare_refl. apply (cmp_trans B).
    + apply N.compare_eq in E1. subst. rewrite E2. auto.
    + apply N.compare_eq in E2. subst. rewrite E1. auto.
    + intros _ _. rewrite N.compare_lt_iff in *. assert (c1 < c3)%N by lia.
      apply N.compare_lt_iff in H. rewrite H. reflexivity.
Qed.

Definition opid_eqb (a b : opid) : bool := eqb_of opid_cmp a b.
Definition opid_ltb (a b : opid) : bool := ltb opid_cmp a b.
Lemma opid_eqb_spec a b : opid_eqb a b = true <-> a = b.
Proof. apply eqb_of_spec, opid_cmp_total. Qed.

Lemma N_cmp_total : TotalCmp N.compare.
Proof.
  split.
  - intros a b. apply N.compare_eq_iff.
  - intros a b. apply N.compare_antisym.
  - intros a b c. rewrite !N.compare_lt_iff. lia.
Qed.
