(* Base/Prelude.v — shared vocabulary of the automerge model.
   Plain stdlib, one style.  No axioms. *)
From Coq Require Export List Bool Arith NArith ZArith Lia Permutation.
From Coq Require Export ZifyBool ZifyNat ZifyN.
Export ListNotations.


(* Results of partial Rust operations.  [Panic] is a value: a model function
   mirrors its Rust original including the partial operations ([%] by zero,
   slicing, [unwrap]), so "never panics" is a theorem and not an artefact of
   totality. *)
Inductive res (A : Type) : Type :=
| Ok (a : A)
| Err
| Panic.
Arguments Ok {A} a.
Arguments Err {A}.
Arguments Panic {A}.

Definition bind {A B} (r : res A) (f : A -> res B) : res B :=
  match r with Ok a => f a | Err => Err | Panic => Panic end.
Notation "'let*' x ':=' r 'in' k" := (bind r (fun x => k))
  (at level 200, x pattern, r at level 100, k at level 200).

Definition is_ok {A} (r : res A) : bool := match r with Ok _ => true | _ => false end.
Definition is_panic {A} (r : res A) : bool := match r with Panic => true | _ => false end.

Definition byte := N.            (* always < 256 where it matters: [wf_bytes] *)
Definition bytes := list N.
Definition wf_byte (b : N) : Prop := (b < 256)%N.
Definition wf_bytes (l : bytes) : Prop := Forall wf_byte l.
Definition wf_byteb (b : N) : bool := (b <? 256)%N.
Definition wf_bytesb (l : bytes) : bool := forallb wf_byteb l.

Lemma wf_bytesb_spec l : wf_bytesb l = true <-> wf_bytes l.
Proof.
  unfold wf_bytesb, wf_bytes. rewrite forallb_forall, Forall_forall.
  split; intros H x Hx; specialize (H x Hx); unfold wf_byteb, wf_byte in *; lia.
Qed.

Lemma wf_bytes_app a b : wf_bytes (a ++ b) <-> wf_bytes a /\ wf_bytes b.
Proof. unfold wf_bytes. rewrite Forall_app. tauto. Qed.

Definition u32_max : N := 4294967295.
Definition u64_max : N := 18446744073709551615.
Definition pow32 : N := 4294967296.
Definition pow64 : N := 18446744073709551616.

(* take n bytes: [None] when the input is too short (the parser's
   "not enough input" error) *)
Fixpoint take_n {A} (n : nat) (l : list A) : option (list A * list A) :=
  match n with
  | O => Some ([], l)
  | S k => match l with
           | [] => None
           | x :: t => match take_n k t with
                       | Some (a, r) => Some (x :: a, r)
                       | None => None
                       end
           end
  end.

Lemma take_n_sound {A} n (l a r : list A) :
  take_n n l = Some (a, r) -> l = a ++ r /\ length a = n.
Proof.
  revert l a r; induction n as [|n IH]; intros l a r; cbn [take_n].
  - intros H; inversion H; subst; auto.
  - destruct l as [|x t]; [discriminate|].
    destruct (take_n n t) as [[a' r']|] eqn:E; [|discriminate].
    intros H; inversion H; subst. apply IH in E. destruct E as [-> <-]. auto.
Qed.

Lemma take_n_app {A} (a r : list A) : take_n (length a) (a ++ r) = Some (a, r).
Proof. induction a as [|x a IH]; cbn; [reflexivity|]. rewrite IH. reflexivity. Qed.

Lemma take_n_spec {A} n (l a r : list A) :
  take_n n l = Some (a, r) <-> (l = a ++ r /\ length a = n).
Proof.
  split; [apply take_n_sound|]. intros [-> <-]. apply take_n_app.
Qed.

Lemma take_n_short {A} n (l : list A) : take_n n l = None <-> (length l < n)%nat.
Proof.
  revert l; induction n as [|n IH]; intros l; cbn [take_n].
  - split; [discriminate|lia].
  - destruct l as [|x t]; cbn [length].
    + split; [lia|auto].
    + specialize (IH t). destruct (take_n n t) as [[a r]|].
      * split; [discriminate|]. intros. assert (length t < n)%nat by lia.
        apply IH in H0. discriminate.
      * split; [|auto]. intros _. assert (length t < n)%nat by (apply IH; auto). lia.
Qed.

(* generic association-list and set helpers over a decidable equality *)
Section Eqb.
  Context {A : Type} (eqb : A -> A -> bool).
  Fixpoint memb (x : A) (l : list A) : bool :=
    match l with [] => false | y :: t => eqb x y || memb x t end.
  Fixpoint dedupb (l : list A) : list A :=
    match l with [] => [] | x :: t => if memb x t then dedupb t else x :: dedupb t end.
  Fixpoint list_eqb (a b : list A) : bool :=
    match a, b with
    | [], [] => true
    | x :: a', y :: b' => eqb x y && list_eqb a' b'
    | _, _ => false
    end.
End Eqb.

Lemma memb_In {A} (eqb : A -> A -> bool)
  (Heq : forall x y, eqb x y = true <-> x = y) x l :
  memb eqb x l = true <-> In x l.
Proof.
  induction l as [|y t IH]; cbn; [split; [discriminate|tauto]|].
  rewrite orb_true_iff, IH, Heq. split; intros [H|H]; auto.
Qed.

Lemma list_eqb_spec {A} (eqb : A -> A -> bool)
  (Heq : forall x y, eqb x y = true <-> x = y) a b :
  list_eqb eqb a b = true <-> a = b.
Proof.
  revert b; induction a as [|x a IH]; intros [|y b]; cbn; try (split; [discriminate|discriminate]).
  - tauto.
  - rewrite andb_true_iff, Heq, IH. split; [intros [-> ->]; auto|intros H; inversion H; auto].
Qed.

Definition bytes_eqb : bytes -> bytes -> bool := list_eqb N.eqb.
Lemma bytes_eqb_spec a b : bytes_eqb a b = true <-> a = b.
Proof. apply list_eqb_spec. intros; apply N.eqb_eq. Qed.

Definition option_eqb {A} (eqb : A -> A -> bool) (a b : option A) : bool :=
  match a, b with
  | Some x, Some y => eqb x y
  | None, None => true
  | _, _ => false
  end.

Definition res_eqb {A} (eqb : A -> A -> bool) (a b : res A) : bool :=
  match a, b with
  | Ok x, Ok y => eqb x y
  | Err, Err => true
  | Panic, Panic => true
  | _, _ => false
  end.

Arguments N.add : simpl never.
Arguments N.sub : simpl never.
Arguments N.mul : simpl never.
Arguments N.div : simpl never.
Arguments N.modulo : simpl never.
Arguments N.eqb : simpl never.
Arguments N.ltb : simpl never.
Arguments N.leb : simpl never.
Arguments N.pow : simpl never.
Arguments N.shiftl : simpl never.
Arguments N.shiftr : simpl never.
Arguments N.land : simpl never.
Arguments N.lor : simpl never.
Arguments N.testbit : simpl never.
