(* Base/Sleb128.v — signed LEB128 as automerge reads and writes an i64 (the [time] of a change).

   Writer: the `leb128` crate's [write::signed]: emit the low 7 bits; done when the remaining
   value (arithmetic shift by 6) is 0 or -1, i.e. when -64 <= val < 64; otherwise set the
   continuation bit and shift (arithmetically) by 7.
   Reader: rust/automerge/src/storage/parse/leb128.rs [leb128_i64]: at most ten bytes; the tenth
   may only be 0x00 or 0x7f; a final byte (after the first) that merely repeats the sign bit of
   the previous byte (0x00 after a byte with bit 6 clear, 0x7f after a byte with bit 6 set) is
   rejected as over-long; the value is sign-extended from bit 6 of the final byte.

   The Rust loop carries (res, shift, prev); it is written here as the equivalent head recursion:
   [f] is the number of bytes still allowed (10 at entry), [prev] the previous byte ([None] on the
   first).  In the Rust the tenth byte's payload is shifted by 63 and truncated to bit 63, and no
   sign extension happens (shift = 70 >= 64); for the only two accepted tenth bytes (0 and 0x7f)
   that is the same number as "payload - 128 when bit 6 is set", which is what [sfinal] computes.
   Values are [Z], bytes are [N]. *)
From AM Require Import Base.Prelude.
Local Open Scope Z_scope.

(* value of a final byte b < 128: sign-extend from bit 6 *)
Definition sfinal (b : N) : Z := if (b <? 64)%N then Z.of_N b else Z.of_N b - 128.

(* bit 6 of a (continuation) byte: [prev & 0x40] *)
Definition bit6 (p : N) : bool := (64 <=? p mod 128)%N.

Fixpoint sdec (prev : option N) (f : nat) (l : bytes) : res (Z * bytes) :=
  match f with
  | O => Err
  | S f' =>
    match l with
    | [] => Err
    | b :: t =>
      if (b <? 128)%N then
        if Nat.eqb f' 0 && negb (b =? 0)%N && negb (b =? 127)%N then Err
        else
          match prev with
          | Some p =>
            if ((b =? 0)%N && negb (bit6 p)) || ((b =? 127)%N && bit6 p) then Err
            else Ok (sfinal b, t)
          | None => Ok (sfinal b, t)
          end
      else if Nat.eqb f' 0 then Err
      else let* (v, r) := sdec (Some b) f' t in Ok (Z.of_N (b - 128) + 128 * v, r)
    end
  end.

Definition sleb_dec (l : bytes) : res (Z * bytes) := sdec None 10 l.

Fixpoint senc (f : nat) (z : Z) : bytes :=
  match f with
  | O => []
  | S f' =>
    if (-64 <=? z) && (z <? 64) then [Z.to_N (z mod 128)]
    else Z.to_N (z mod 128 + 128) :: senc f' (z / 128)
  end.

Definition sleb_enc (z : Z) : bytes := senc 10 z.

Definition i64_min : Z := -9223372036854775808.
Definition i64_max : Z := 9223372036854775807.
Definition in_i64 (z : Z) : Prop := i64_min <= z <= i64_max.
Definition in_i64b (z : Z) : bool := (i64_min <=? z) && (z <=? i64_max).

Arguments Z.add : simpl never.
Arguments Z.sub : simpl never.
Arguments Z.mul : simpl never.
Arguments Z.div : simpl never.
Arguments Z.modulo : simpl never.
Arguments Z.opp : simpl never.
Arguments Z.ltb : simpl never.
Arguments Z.leb : simpl never.
Arguments Z.of_N : simpl never.
Arguments Z.to_N : simpl never.
