(* Base/Sleb128Proofs.v — the signed LEB128 reader of storage/parse/leb128.rs and the writer of
   the `leb128` crate are inverse on every i64, the reader accepts ONLY the writer's output
   (canonical form), consumes 1..10 bytes and never panics. *)
From AM Require Import Base.Prelude Base.Leb128 Base.Sleb128.
Local Open Scope Z_scope.

Ltac Zify.zify_post_hook ::= Z.div_mod_to_equations.

(* values representable in f more bytes: [-slim f, slim f), slim 10 = 2^63 *)
Fixpoint slim (f : nat) : Z :=
  match f with
  | O => 0
  | S O => 1
  | S f' => 128 * slim f'
  end.

Lemma slim_10 : slim 10 = 9223372036854775808. Proof. reflexivity. Qed.

Lemma slim_S f : (1 <= f)%nat -> slim (S f) = 128 * slim f.
Proof. destruct f; [lia|reflexivity]. Qed.

Lemma slim_pos f : (1 <= f)%nat -> 1 <= slim f.
Proof.
  induction f as [|f IH]; [lia|]. intros _. destruct f as [|f]; [cbn; lia|].
  rewrite slim_S by lia. specialize (IH ltac:(lia)). lia.
Qed.

(* the previous (continuation) byte p and the value z that follows it do not form a number that
   fits the sign-extended 7 bits of p alone: exactly what the over-long test rejects *)
Definition prev_ok (prev : option N) (z : Z) : Prop :=
  match prev with
  | None => True
  | Some p => (128 <= p < 256)%N /\ ~ (-64 <= Z.of_N p - 128 + 128 * z < 64)
  end.

Lemma sdec_senc f : forall prev z rest,
  - slim f <= z < slim f -> prev_ok prev z ->
  sdec prev f (senc f z ++ rest) = Ok (z, rest).
Proof.
  induction f as [|f IH]; intros prev z rest Hz Hp; [cbn in Hz; lia|].
  cbn [sdec senc].
  destruct ((-64 <=? z) && (z <? 64)) eqn:E.
  - cbn [app].
    assert ((Z.to_N (z mod 128) <? 128)%N = true) as -> by lia.
    assert (Hv : sfinal (Z.to_N (z mod 128)) = z) by (unfold sfinal; destruct (Z.to_N (z mod 128) <? 64)%N eqn:E2; lia).
    destruct (Nat.eqb f 0) eqn:Ef.
    + apply Nat.eqb_eq in Ef. subst f. cbn in Hz.
      assert (z = 0 \/ z = -1) as [-> | ->] by lia.
      * cbn [andb negb Z.modulo Z.div_eucl Z.to_N N.eqb].
        change ((0 =? 0)%N) with true. cbn [negb andb].
        destruct prev as [p|]; [|reflexivity].
        destruct Hp as [Hp1 Hp2]. unfold bit6.
        assert ((64 <=? p mod 128)%N = true) as -> by lia. reflexivity.
      * change (Z.to_N (-1 mod 128)) with 127%N.
        change ((127 =? 0)%N) with false. change ((127 =? 127)%N) with true. cbn [negb andb].
        destruct prev as [p|]; [|reflexivity].
        destruct Hp as [Hp1 Hp2]. unfold bit6.
        assert ((64 <=? p mod 128)%N = false) as -> by lia. reflexivity.
    + cbn [andb]. destruct prev as [p|]; [|rewrite Hv; reflexivity].
      destruct Hp as [Hp1 Hp2]. unfold bit6.
      destruct ((Z.to_N (z mod 128) =? 0)%N) eqn:E0; destruct ((Z.to_N (z mod 128) =? 127)%N) eqn:E1;
        destruct ((64 <=? p mod 128)%N) eqn:E6; cbn [negb andb orb]; try (rewrite Hv; reflexivity); exfalso; lia.
  - cbn [app].
    assert ((Z.to_N (z mod 128 + 128) <? 128)%N = false) as -> by lia.
    destruct (Nat.eqb f 0) eqn:Ef.
    + apply Nat.eqb_eq in Ef. subst f. cbn in Hz. lia.
    + apply Nat.eqb_neq in Ef. rewrite slim_S in Hz by lia.
      rewrite IH; [| lia | unfold prev_ok; split; lia].
      cbn [bind]. f_equal. f_equal. lia.
Qed.

Theorem sleb_roundtrip z rest : in_i64 z -> sleb_dec (sleb_enc z ++ rest) = Ok (z, rest).
Proof.
  unfold in_i64, i64_min, i64_max. intros H. unfold sleb_dec, sleb_enc.
  apply sdec_senc; [rewrite slim_10; lia|exact I].
Qed.

(* the reader accepts only the writer's output *)
Lemma sdec_canonical f : forall prev l z rest,
  wf_bytes l -> (forall p, prev = Some p -> (128 <= p < 256)%N) ->
  sdec prev f l = Ok (z, rest) ->
  l = senc f z ++ rest /\ - slim f <= z < slim f /\ prev_ok prev z.
Proof.
  induction f as [|f IH]; intros prev l z rest Hwf Hprev H; [discriminate|].
  cbn [sdec] in H. destruct l as [|b t]; [discriminate|].
  inversion Hwf as [|? ? Hb Ht]; subst. unfold wf_byte in Hb.
  destruct (b <? 128)%N eqn:E.
  - destruct (Nat.eqb f 0 && negb (b =? 0)%N && negb (b =? 127)%N) eqn:E1; [discriminate|].
    assert (Hfin : sfinal b = z /\ rest = t /\ prev_ok prev (sfinal b)).
    { destruct prev as [p|].
      - destruct (((b =? 0)%N && negb (bit6 p)) || ((b =? 127)%N && bit6 p)) eqn:E2; [discriminate|].
        inversion H; subst. split; [reflexivity|]. split; [reflexivity|].
        specialize (Hprev p eq_refl). unfold prev_ok. split; [exact Hprev|].
        unfold bit6, sfinal in *. destruct (b <? 64)%N eqn:E3; lia.
      - inversion H; subst. unfold prev_ok. auto. }
    destruct Hfin as (Hz & -> & Hp). rewrite Hz in Hp. subst z.
    assert (Hr : -64 <= sfinal b < 64) by (unfold sfinal; destruct (b <? 64)%N eqn:E3; lia).
    cbn [senc].
    assert (((-64 <=? sfinal b) && (sfinal b <? 64)) = true) as -> by lia.
    assert (Z.to_N (sfinal b mod 128) = b) as -> by (unfold sfinal; destruct (b <? 64)%N eqn:E3; lia).
    cbn [app]. split; [reflexivity|]. split; [|exact Hp].
    destruct f as [|f].
    + cbn in E1. cbn. unfold sfinal. destruct (b <? 64)%N eqn:E3; lia.
    + rewrite slim_S by lia. pose proof (slim_pos (S f) ltac:(lia)). lia.
  - destruct (Nat.eqb f 0) eqn:Ef; [discriminate|]. apply Nat.eqb_neq in Ef.
    destruct (sdec (Some b) f t) as [[v r]| |] eqn:Ed; cbn [bind] in H; try discriminate.
    inversion H; subst.
    apply IH in Ed; [|exact Ht|intros p Hp; inversion Hp; subst; lia].
    destruct Ed as (-> & Hv & Hpv). unfold prev_ok in Hpv. destruct Hpv as [_ Hpv].
    cbn [senc].
    assert (((-64 <=? Z.of_N (b - 128) + 128 * v) && (Z.of_N (b - 128) + 128 * v <? 64)) = false) as -> by lia.
    assert (Z.to_N ((Z.of_N (b - 128) + 128 * v) mod 128 + 128) = b) as -> by lia.
    assert ((Z.of_N (b - 128) + 128 * v) / 128 = v) as -> by lia.
    cbn [app]. split; [reflexivity|]. split; [rewrite slim_S by lia; lia|].
    destruct prev as [p|]; [|exact I]. specialize (Hprev p eq_refl). unfold prev_ok. split; [exact Hprev|]. lia.
Qed.

Theorem sleb_canonical l z rest :
  wf_bytes l -> sleb_dec l = Ok (z, rest) -> l = sleb_enc z ++ rest /\ in_i64 z.
Proof.
  intros Hwf H. apply sdec_canonical in H; [|exact Hwf|discriminate].
  destruct H as (H1 & H2 & _). rewrite slim_10 in H2. split; [exact H1|].
  unfold in_i64, i64_min, i64_max. lia.
Qed.

Lemma sdec_no_panic f : forall prev l, sdec prev f l <> Panic.
Proof.
  induction f as [|f IH]; intros prev l; cbn [sdec]; [discriminate|].
  destruct l as [|b t]; [discriminate|].
  destruct (b <? 128)%N.
  - destruct (Nat.eqb f 0 && negb (b =? 0)%N && negb (b =? 127)%N); [discriminate|].
    destruct prev as [p|]; [|discriminate].
    destruct (((b =? 0)%N && negb (bit6 p)) || ((b =? 127)%N && bit6 p)); discriminate.
  - destruct (Nat.eqb f 0); [discriminate|].
    specialize (IH (Some b) t). destruct (sdec (Some b) f t) as [[v r]| |]; cbn; congruence.
Qed.

Lemma sleb_dec_no_panic l : sleb_dec l <> Panic.
Proof. apply sdec_no_panic. Qed.

Lemma senc_wf f z : wf_bytes (senc f z).
Proof.
  revert z; induction f as [|f IH]; intros z; cbn [senc]; [constructor|].
  destruct ((-64 <=? z) && (z <? 64)) eqn:E.
  - constructor; [unfold wf_byte; lia|constructor].
  - constructor; [unfold wf_byte; lia|apply IH].
Qed.

Lemma sleb_enc_wf z : wf_bytes (sleb_enc z).
Proof. apply senc_wf. Qed.
