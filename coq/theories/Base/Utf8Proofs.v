(* Base/Utf8Proofs.v — the UTF-8 validators of the model accept exactly the well-formed strings.

   - [decode_sound] / [decode_complete]: the textbook decoder [utf8_decode] of Base/Utf8Spec.v
     returns [Some cps] exactly on the encodings of scalar values, and [cps] are those values;
   - [rle_valid_decodes] / [chg_valid_decodes]: each Table 3-7 automaton (Hexane/Rle.v,
     Store/ChangeChunk.v) accepts exactly when the decoder returns [Some _]; hence they agree
     with each other ([validators_agree]) and with [well_formed] ([utf8_valid_iff_well_formed]);
   - consequences for the model decoders that call them: [str_dec], [str_load] (every string
     in a loaded column), [parse_body] (the change message).
   No hypothesis on the byte values is needed: a "byte" >= 256 is rejected by every party. *)
From AM Require Import Base.Prelude Base.Utf8Spec.
From AM Require Hexane.Rle Hexane.RleProofs Store.ChangeChunk Store.ChangeChunkProofs.
Local Open Scope N_scope.

Ltac Zify.zify_post_hook ::= Z.div_mod_to_equations.

Ltac split_ifs :=
  repeat match goal with |- context[if ?c then _ else _] => destruct c eqn:? end.

(* a boolean identity between comparisons of numbers *)
Ltac bool_arith :=
  apply Bool.eq_true_iff_eq;
  rewrite ?andb_true_iff, ?orb_true_iff, ?andb_true_iff, ?orb_true_iff,
          ?N.leb_le, ?N.ltb_lt, ?N.eqb_eq;
  lia.

(* ------------------------------------------------------------------ one scalar value *)
Lemma is_some_ocons {A} (x : A) o : is_some (ocons x o) = is_some o.
Proof. destruct o; reflexivity. Qed.

Lemma ok2_sound b0 b1 : ok2 b0 b1 = true ->
  is_scalar (cp2 b0 b1) = true /\ utf8_encode (cp2 b0 b1) = [b0; b1].
Proof.
  unfold ok2, is_cont, is_scalar, utf8_encode, cp2. intros H.
  repeat rewrite andb_true_iff in H. destruct H as [[[H0 H1] [H2 H3]] H4].
  split; [lia|].
  assert ((b0 - 192) * 64 + (b1 - 128) <? 128 = false) as -> by lia.
  assert ((b0 - 192) * 64 + (b1 - 128) <? 2048 = true) as -> by lia.
  f_equal; [|f_equal]; lia.
Qed.

Lemma ok3_sound b0 b1 b2 : ok3 b0 b1 b2 = true ->
  is_scalar (cp3 b0 b1 b2) = true /\ utf8_encode (cp3 b0 b1 b2) = [b0; b1; b2].
Proof.
  unfold ok3, is_cont. intros H.
  repeat rewrite andb_true_iff in H. destruct H as [[[[[H0 H1] [H2 H3]] [H4 H5]] H6] H7].
  split; [exact H7|]. unfold utf8_encode, cp3 in *.
  assert ((b0 - 224) * 4096 + (b1 - 128) * 64 + (b2 - 128) <? 128 = false) as -> by lia.
  assert ((b0 - 224) * 4096 + (b1 - 128) * 64 + (b2 - 128) <? 2048 = false) as -> by lia.
  assert ((b0 - 224) * 4096 + (b1 - 128) * 64 + (b2 - 128) <? 65536 = true) as -> by lia.
  f_equal; [|f_equal; [|f_equal]]; lia.
Qed.

Lemma ok4_sound b0 b1 b2 b3 : ok4 b0 b1 b2 b3 = true ->
  is_scalar (cp4 b0 b1 b2 b3) = true /\ utf8_encode (cp4 b0 b1 b2 b3) = [b0; b1; b2; b3].
Proof.
  unfold ok4, is_cont. intros H.
  repeat rewrite andb_true_iff in H.
  destruct H as [[[[[[H0 H1] [H2 H3]] [H4 H5]] [H6 H7]] H8] H9].
  split; [exact H9|]. unfold utf8_encode, cp4 in *.
  assert ((b0 - 240) * 262144 + (b1 - 128) * 4096 + (b2 - 128) * 64 + (b3 - 128) <? 128 = false) as -> by lia.
  assert ((b0 - 240) * 262144 + (b1 - 128) * 4096 + (b2 - 128) * 64 + (b3 - 128) <? 2048 = false) as -> by lia.
  assert ((b0 - 240) * 262144 + (b1 - 128) * 4096 + (b2 - 128) * 64 + (b3 - 128) <? 65536 = false) as -> by lia.
  f_equal; [|f_equal; [|f_equal; [|f_equal]]]; lia.
Qed.

(* the decoder reads back one encoded scalar value *)
Lemma decode_encode_one c r : is_scalar c = true ->
  utf8_decode (utf8_encode c ++ r) = ocons c (utf8_decode r).
Proof.
  intros Hs. unfold utf8_encode. unfold is_scalar in Hs.
  destruct (c <? 128) eqn:E1; [cbn [app utf8_decode]; rewrite E1; reflexivity|].
  destruct (c <? 2048) eqn:E2.
  { cbn [app utf8_decode].
    assert (192 + c / 64 <? 128 = false) as -> by lia.
    assert (192 + c / 64 <? 224 = true) as -> by lia.
    assert (ok2 (192 + c / 64) (128 + c mod 64) = true) as ->
      by (unfold ok2, is_cont, cp2; repeat rewrite andb_true_iff; lia).
    f_equal. unfold cp2. lia. }
  destruct (c <? 65536) eqn:E3.
  { cbn [app utf8_decode].
    assert (224 + c / 4096 <? 128 = false) as -> by lia.
    assert (224 + c / 4096 <? 224 = false) as -> by lia.
    assert (224 + c / 4096 <? 240 = true) as -> by lia.
    assert (Hc : cp3 (224 + c / 4096) (128 + (c / 64) mod 64) (128 + c mod 64) = c)
      by (unfold cp3; lia).
    assert (ok3 (224 + c / 4096) (128 + (c / 64) mod 64) (128 + c mod 64) = true) as ->
      by (unfold ok3; rewrite Hc; unfold is_cont, is_scalar; repeat rewrite andb_true_iff;
          repeat split; lia).
    rewrite Hc. reflexivity. }
  cbn [app utf8_decode].
  assert (240 + c / 262144 <? 128 = false) as -> by lia.
  assert (240 + c / 262144 <? 224 = false) as -> by lia.
  assert (240 + c / 262144 <? 240 = false) as -> by lia.
  assert (Hc : cp4 (240 + c / 262144) (128 + (c / 4096) mod 64) (128 + (c / 64) mod 64) (128 + c mod 64) = c)
    by (unfold cp4; lia).
  assert (ok4 (240 + c / 262144) (128 + (c / 4096) mod 64) (128 + (c / 64) mod 64) (128 + c mod 64) = true) as ->
    by (unfold ok4; rewrite Hc; unfold is_cont, is_scalar; repeat rewrite andb_true_iff;
        repeat split; lia).
  rewrite Hc. reflexivity.
Qed.

(* ------------------------------------------------------------------ the decoder and the spec *)
Lemma bytes_strong_ind (P : bytes -> Prop) :
  (forall l, (forall l', (length l' < length l)%nat -> P l') -> P l) -> forall l, P l.
Proof.
  intros H l. assert (G : forall n l, (length l < n)%nat -> P l).
  { induction n as [|n IH]; intros l0 Hl; [lia|]. apply H. intros l' Hl'. apply IH. lia. }
  apply (G (S (length l))). lia.
Qed.

Lemma ocons_some {A} (x : A) o l : ocons x o = Some l -> exists l', o = Some l' /\ l = x :: l'.
Proof. destruct o as [l'|]; cbn; intros H; inversion H. eauto. Qed.

(* what the decoder returns is a list of scalar values, and the input is its encoding *)
Theorem decode_sound : forall l cps,
  utf8_decode l = Some cps -> scalars cps /\ utf8_encode_all cps = l.
Proof.
  induction l as [l IH] using bytes_strong_ind. intros cps.
  destruct l as [|b0 t].
  { cbn. intros H; inversion H. split; [constructor|reflexivity]. }
  cbn [utf8_decode].
  destruct (b0 <? 128) eqn:E0.
  { intros H. apply ocons_some in H. destruct H as (cps' & H & ->).
    apply IH in H; [|cbn [length]; lia]. destruct H as [Hs He].
    split; [constructor; [unfold is_scalar; lia|exact Hs]|].
    unfold utf8_encode_all in *. cbn [map concat]. rewrite He.
    unfold utf8_encode. rewrite E0. reflexivity. }
  destruct (b0 <? 224) eqn:E1.
  { destruct t as [|b1 t1]; [discriminate|].
    destruct (ok2 b0 b1) eqn:Eo; [|discriminate].
    intros H. apply ocons_some in H. destruct H as (cps' & H & ->).
    apply IH in H; [|cbn [length]; lia]. destruct H as [Hs He].
    apply ok2_sound in Eo. destruct Eo as [Hc Hb].
    split; [constructor; assumption|].
    unfold utf8_encode_all in *. cbn [map concat]. rewrite He, Hb. reflexivity. }
  destruct (b0 <? 240) eqn:E2.
  { destruct t as [|b1 [|b2 t2]]; try discriminate.
    destruct (ok3 b0 b1 b2) eqn:Eo; [|discriminate].
    intros H. apply ocons_some in H. destruct H as (cps' & H & ->).
    apply IH in H; [|cbn [length]; lia]. destruct H as [Hs He].
    apply ok3_sound in Eo. destruct Eo as [Hc Hb].
    split; [constructor; assumption|].
    unfold utf8_encode_all in *. cbn [map concat]. rewrite He, Hb. reflexivity. }
  destruct t as [|b1 [|b2 [|b3 t3]]]; try discriminate.
  destruct (ok4 b0 b1 b2 b3) eqn:Eo; [|discriminate].
  intros H. apply ocons_some in H. destruct H as (cps' & H & ->).
  apply IH in H; [|cbn [length]; lia]. destruct H as [Hs He].
  apply ok4_sound in Eo. destruct Eo as [Hc Hb].
  split; [constructor; assumption|].
  unfold utf8_encode_all in *. cbn [map concat]. rewrite He, Hb. reflexivity.
Qed.

(* every encoding of scalar values decodes, to those values *)
Theorem decode_complete : forall cps, scalars cps -> utf8_decode (utf8_encode_all cps) = Some cps.
Proof.
  induction cps as [|c cps IH]; intros H; [reflexivity|].
  inversion H as [|? ? Hc Hr]; subst.
  unfold utf8_encode_all in *. cbn [map concat].
  rewrite decode_encode_one by exact Hc. rewrite IH by exact Hr. reflexivity.
Qed.

Theorem decode_some_iff_well_formed l : is_some (utf8_decode l) = true <-> well_formed l.
Proof.
  split.
  - destruct (utf8_decode l) as [cps|] eqn:E; [|discriminate]. intros _.
    apply decode_sound in E. destruct E as [Hs He]. exists cps. auto.
  - intros (cps & Hs & ->). rewrite decode_complete by exact Hs. reflexivity.
Qed.

(* a well-formed string has exactly one reading: the encoding is injective on scalar values,
   also under concatenation (UTF-8 is uniquely decodable) *)
Theorem encode_all_injective cps cps' :
  scalars cps -> scalars cps' -> utf8_encode_all cps = utf8_encode_all cps' -> cps = cps'.
Proof.
  intros H H' E. apply decode_complete in H. apply decode_complete in H'.
  rewrite E in H. rewrite H in H'. inversion H'. reflexivity.
Qed.

(* ------------------------------------------------------------------ the Table 3-7 automata *)
(* one step of an acceptor that looks at the decoded value *)
Definition accept_step (f : bytes -> bool) (b0 : N) (t : bytes) : bool :=
  if b0 <? 128 then f t
  else if b0 <? 224 then match t with b1 :: t1 => ok2 b0 b1 && f t1 | _ => false end
  else if b0 <? 240 then match t with b1 :: b2 :: t2 => ok3 b0 b1 b2 && f t2 | _ => false end
  else match t with b1 :: b2 :: b3 :: t3 => ok4 b0 b1 b2 b3 && f t3 | _ => false end.

Lemma accept_unique (f : bytes -> bool) :
  f [] = true -> (forall b0 t, f (b0 :: t) = accept_step f b0 t) ->
  forall l, f l = is_some (utf8_decode l).
Proof.
  intros Hnil Hstep. induction l as [l IH] using bytes_strong_ind.
  destruct l as [|b0 t]; [exact Hnil|].
  rewrite Hstep. unfold accept_step. cbn [utf8_decode].
  destruct (b0 <? 128) eqn:E0.
  { rewrite is_some_ocons. apply IH. cbn [length]. lia. }
  destruct (b0 <? 224) eqn:E1.
  { destruct t as [|b1 t1]; [reflexivity|].
    destruct (ok2 b0 b1); [|reflexivity]. rewrite is_some_ocons. apply IH. cbn [length]. lia. }
  destruct (b0 <? 240) eqn:E2.
  { destruct t as [|b1 [|b2 t2]]; try reflexivity.
    destruct (ok3 b0 b1 b2); [|reflexivity]. rewrite is_some_ocons. apply IH. cbn [length]. lia. }
  destruct t as [|b1 [|b2 [|b3 t3]]]; try reflexivity.
  destruct (ok4 b0 b1 b2 b3); [|reflexivity]. rewrite is_some_ocons. apply IH. cbn [length]. lia.
Qed.

(* both automata make exactly that step: the byte ranges of Table 3-7 are the pre-images of
   "not over-long, not a surrogate, at most 0x10FFFF" *)
Ltac unfold_ok :=
  unfold Rle.cont, ChangeChunk.cont, ChangeChunk.inr, ok2, ok3, ok4, is_cont, is_scalar, cp2, cp3, cp4.

Ltac step_leaf :=
  first
    [ reflexivity
    | exfalso; lia
    | match goal with
      | |- _ && ?v = _ && ?v => f_equal; unfold_ok; bool_arith
      | |- false = _ && _ => symmetry; apply andb_false_intro1; unfold_ok; bool_arith
      | |- _ && _ = false => apply andb_false_intro1; unfold_ok; bool_arith
      end ].

Lemma rle_valid_step b0 t :
  Rle.utf8_valid (b0 :: t) = accept_step Rle.utf8_valid b0 t.
Proof.
  change (Rle.utf8_valid (b0 :: t)) with
    (if b0 <? 128 then Rle.utf8_valid t
    else if (194 <=? b0) && (b0 <=? 223) then
      match t with b1 :: t1 => Rle.cont b1 && Rle.utf8_valid t1 | _ => false end
    else if b0 =? 224 then
      match t with b1 :: b2 :: t2 => (160 <=? b1) && (b1 <=? 191) && Rle.cont b2 && Rle.utf8_valid t2 | _ => false end
    else if ((225 <=? b0) && (b0 <=? 236)) || (b0 =? 238) || (b0 =? 239) then
      match t with b1 :: b2 :: t2 => Rle.cont b1 && Rle.cont b2 && Rle.utf8_valid t2 | _ => false end
    else if b0 =? 237 then
      match t with b1 :: b2 :: t2 => (128 <=? b1) && (b1 <=? 159) && Rle.cont b2 && Rle.utf8_valid t2 | _ => false end
    else if b0 =? 240 then
      match t with b1 :: b2 :: b3 :: t3 => (144 <=? b1) && (b1 <=? 191) && Rle.cont b2 && Rle.cont b3 && Rle.utf8_valid t3 | _ => false end
    else if (241 <=? b0) && (b0 <=? 243) then
      match t with b1 :: b2 :: b3 :: t3 => Rle.cont b1 && Rle.cont b2 && Rle.cont b3 && Rle.utf8_valid t3 | _ => false end
    else if b0 =? 244 then
      match t with b1 :: b2 :: b3 :: t3 => (128 <=? b1) && (b1 <=? 143) && Rle.cont b2 && Rle.cont b3 && Rle.utf8_valid t3 | _ => false end
    else false).
  unfold accept_step.
  destruct t as [|b1 [|b2 [|b3 t3]]]; cbv beta iota; split_ifs.
  all: step_leaf.
Qed.

Lemma chg_valid_step b0 t :
  ChangeChunk.utf8_valid (b0 :: t) = accept_step ChangeChunk.utf8_valid b0 t.
Proof.
  change (ChangeChunk.utf8_valid (b0 :: t)) with
    (if b0 <? 128 then ChangeChunk.utf8_valid t
    else if ChangeChunk.inr 194 223 b0 then
      match t with b1 :: t1 => ChangeChunk.cont b1 && ChangeChunk.utf8_valid t1 | _ => false end
    else if ChangeChunk.inr 224 239 b0 then
      match t with
      | b1 :: b2 :: t2 =>
        (if b0 =? 224 then ChangeChunk.inr 160 191 b1
         else if b0 =? 237 then ChangeChunk.inr 128 159 b1 else ChangeChunk.cont b1)
        && ChangeChunk.cont b2 && ChangeChunk.utf8_valid t2
      | _ => false
      end
    else if ChangeChunk.inr 240 244 b0 then
      match t with
      | b1 :: b2 :: b3 :: t3 =>
        (if b0 =? 240 then ChangeChunk.inr 144 191 b1
         else if b0 =? 244 then ChangeChunk.inr 128 143 b1 else ChangeChunk.cont b1)
        && ChangeChunk.cont b2 && ChangeChunk.cont b3 && ChangeChunk.utf8_valid t3
      | _ => false
      end
    else false).
  unfold accept_step.
  destruct t as [|b1 [|b2 [|b3 t3]]]; cbv beta iota; split_ifs.
  all: unfold ChangeChunk.inr in *; step_leaf.
Qed.

(* each automaton accepts exactly when the decoder returns a string *)
Theorem rle_valid_decodes l : Rle.utf8_valid l = is_some (utf8_decode l).
Proof. apply accept_unique; [reflexivity|exact rle_valid_step]. Qed.

Theorem chg_valid_decodes l : ChangeChunk.utf8_valid l = is_some (utf8_decode l).
Proof. apply accept_unique; [reflexivity|exact chg_valid_step]. Qed.

Theorem validators_agree l : Rle.utf8_valid l = ChangeChunk.utf8_valid l.
Proof. rewrite rle_valid_decodes, chg_valid_decodes. reflexivity. Qed.

(* soundness and completeness of the validators w.r.t. the encoder *)
Theorem rle_valid_iff_well_formed l : Rle.utf8_valid l = true <-> well_formed l.
Proof. rewrite rle_valid_decodes. apply decode_some_iff_well_formed. Qed.

Theorem chg_valid_iff_well_formed l : ChangeChunk.utf8_valid l = true <-> well_formed l.
Proof. rewrite chg_valid_decodes. apply decode_some_iff_well_formed. Qed.

Theorem rle_valid_complete cps : scalars cps -> Rle.utf8_valid (utf8_encode_all cps) = true.
Proof. intros H. apply rle_valid_iff_well_formed. exists cps. auto. Qed.

Theorem chg_valid_complete cps : scalars cps -> ChangeChunk.utf8_valid (utf8_encode_all cps) = true.
Proof. intros H. apply chg_valid_iff_well_formed. exists cps. auto. Qed.

(* accepted bytes decode to scalar values that re-encode to the same bytes; rejected bytes
   do not decode *)
Theorem valid_decode l : Rle.utf8_valid l = true ->
  exists cps, utf8_decode l = Some cps /\ scalars cps /\ utf8_encode_all cps = l.
Proof.
  rewrite rle_valid_decodes. destruct (utf8_decode l) as [cps|] eqn:E; [|discriminate].
  intros _. exists cps. split; [reflexivity|]. apply decode_sound. exact E.
Qed.

Theorem invalid_decode l : Rle.utf8_valid l = false -> utf8_decode l = None.
Proof. rewrite rle_valid_decodes. destruct (utf8_decode l); [discriminate|reflexivity]. Qed.

(* ------------------------------------------------------------------ the model decoders *)
(* hexane `String::try_unpack` *)
Theorem str_dec_well_formed b s r : Rle.str_dec b = Some (s, r) -> well_formed s.
Proof.
  unfold Rle.str_dec. destruct (Rle.blob_dec b) as [[s0 r0]|]; [|discriminate].
  destruct (Rle.utf8_valid s0) eqn:E; [|discriminate].
  intros H; inversion H; subst. apply rle_valid_iff_well_formed. exact E.
Qed.

(* every value of a column the loader accepts went through the value decoder *)
Section LoadedValues.
  Variable V : Type.
  Variable veqb : V -> V -> bool.
  Variable dec : bytes -> option (V * bytes).
  Variable nullable : bool.
  Variable P : V -> Prop.
  Hypothesis dec_P : forall b v r, dec b = Some (v, r) -> P v.

  Definition seg_P (s : Rle.rseg V) : Prop :=
    match s with Rle.RLit v => P v | Rle.RRun _ v => P v | _ => True end.

  Lemma raw_parse_P : forall fuel lit b ss t,
    Rle.raw_parse V dec fuel lit b = (ss, t) -> Forall seg_P ss.
  Proof.
    induction fuel as [|fuel IH]; intros lit b ss t; cbn [Rle.raw_parse].
    { intros H; inversion H. constructor. }
    destruct (0 <? lit).
    { destruct (dec b) as [[v r]|] eqn:Ed; [|intros H; inversion H; constructor].
      destruct (Rle.raw_parse V dec fuel (lit - 1) r) as [ss' t'] eqn:Er.
      intros H; inversion H; subst. constructor; [exact (dec_P _ _ _ Ed)|exact (IH _ _ _ _ Er)]. }
    destruct b as [|x b']; [intros H; inversion H; constructor|].
    destruct (Hleb.hleb_s (x :: b')) as [[n r]|]; [|intros H; inversion H; constructor].
    destruct (0 <? n)%Z.
    { destruct (dec r) as [[v r']|] eqn:Ed; [|intros H; inversion H; constructor].
      destruct (Rle.raw_parse V dec fuel 0 r') as [ss' t'] eqn:Er.
      intros H; inversion H; subst. constructor; [exact (dec_P _ _ _ Ed)|exact (IH _ _ _ _ Er)]. }
    destruct (n <? 0)%Z.
    { destruct (n =? Hleb.i64_min)%Z; [intros H; inversion H; constructor|].
      destruct (Rle.raw_parse V dec fuel (Z.to_N (- n)) r) as [ss' t'] eqn:Er.
      intros H; inversion H; subst. constructor; [exact I|exact (IH _ _ _ _ Er)]. }
    destruct (Hleb.hleb_u r) as [[c r']|]; [|intros H; inversion H; constructor].
    destruct (Rle.raw_parse V dec fuel 0 r') as [ss' t'] eqn:Er.
    intros H; inversion H; subst. constructor; [exact I|exact (IH _ _ _ _ Er)].
  Qed.

  Lemma runs_of_P ss : Forall seg_P ss ->
    forall n v, In (n, Some v) (RleProofs.runs_of V ss) -> P v.
  Proof.
    induction 1 as [|s ss Hs Hss IH]; intros n v; cbn [RleProofs.runs_of]; [intros []|].
    destruct s as [k|w|k w|k]; cbn [seg_P] in Hs; cbn [In].
    - apply IH.
    - intros [E|Hin]; [inversion E; subst; exact Hs|exact (IH _ _ Hin)].
    - intros [E|Hin]; [inversion E; subst; exact Hs|exact (IH _ _ Hin)].
    - intros [E|Hin]; [discriminate|exact (IH _ _ Hin)].
  Qed.

  Theorem rle_load_values b rs :
    Rle.rle_load V veqb dec nullable b = Ok rs -> forall n v, In (n, Some v) rs -> P v.
  Proof.
    unfold Rle.rle_load, Rle.rle_load_segs.
    destruct (Rle.raw_parse V dec (S (length b)) 0 b) as [ss t] eqn:Ep.
    destruct (Rle.check V veqb nullable (Rle.cst_init V) ss) as [st| |] eqn:Ec; cbn [bind]; try discriminate.
    destruct t; [|discriminate]. intros Hf.
    apply RleProofs.finish_inv in Hf. apply RleProofs.check_out in Ec. destruct Ec as [Eo _].
    rewrite Eo in Hf. cbn [Rle.cst_init Rle.c_out] in Hf.
    rewrite app_nil_r, rev_involutive in Hf. subst rs.
    apply runs_of_P. exact (raw_parse_P _ _ _ _ _ Ep).
  Qed.
End LoadedValues.

(* `Column::<String>::load` / `Column::<Option<String>>::load`: every string in the column *)
Theorem str_load_well_formed nullable b rs :
  Rle.str_load nullable b = Ok rs -> forall n s, In (n, Some s) rs -> well_formed s.
Proof.
  unfold Rle.str_load. apply rle_load_values. intros b0 v r. apply str_dec_well_formed.
Qed.

(* ... also seen as the list of values *)
Theorem str_load_vals_well_formed nullable b vs :
  Rle.rle_load_vals bytes bytes_eqb Rle.str_dec nullable b = Ok vs ->
  forall s, In (Some s) vs -> well_formed s.
Proof.
  unfold Rle.rle_load_vals.
  destruct (Rle.rle_load bytes bytes_eqb Rle.str_dec nullable b) as [rs| |] eqn:El; cbn [bind]; try discriminate.
  intros H; inversion H; subst vs; clear H. intros s Hin.
  assert (G : exists n, In (n, Some s) rs).
  { clear El. induction rs as [|[n x] rs IH]; cbn [Rle.expand] in Hin; [destruct Hin|].
    apply in_app_or in Hin. destruct Hin as [Hin|Hin].
    - apply repeat_spec in Hin. subst x. exists n. left. reflexivity.
    - destruct (IH Hin) as [m Hm]. exists m. right. exact Hm. }
  destruct G as [n Hn]. exact (str_load_well_formed nullable b rs El n s Hn).
Qed.

(* `Change::parse_following_header`: the message *)
Theorem parse_body_message_valid b c :
  ChangeChunk.parse_body b = Ok c -> ChangeChunk.utf8_valid (ChangeChunk.cb_message c) = true.
Proof.
  unfold ChangeChunk.parse_body. intros H.
  repeat (apply ChangeChunkProofs.res_bind_ok in H; destruct H as ([? ?] & _ & H)).
  destruct (ChangeChunk.utf8_valid _) eqn:E in H; cbn [negb] in H; [|discriminate].
  repeat (apply ChangeChunkProofs.res_bind_ok in H; destruct H as ([? ?] & _ & H)).
  apply ChangeChunkProofs.res_bind_ok in H. destruct H as (? & _ & H).
  apply ChangeChunkProofs.res_bind_ok in H. destruct H as ([? ?] & _ & H).
  destruct (existsb _ _); [discriminate|]. destruct (negb _); [discriminate|].
  inversion H; subst c. cbn [ChangeChunk.cb_message]. exact E.
Qed.

Theorem parse_body_message_well_formed b c :
  ChangeChunk.parse_body b = Ok c -> well_formed (ChangeChunk.cb_message c).
Proof. intros H. apply chg_valid_iff_well_formed. exact (parse_body_message_valid b c H). Qed.
