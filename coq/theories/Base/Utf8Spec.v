(* Base/Utf8Spec.v — what "well-formed UTF-8" means, independently of the Table 3-7 automata
   of Hexane/Rle.v and Store/ChangeChunk.v (which mirror `std::str::from_utf8`).

   The specification is the encoder: a byte string is well-formed UTF-8 iff it is the
   concatenation of the shortest-form encodings of Unicode scalar values (code points
   0 .. 0x10FFFF without the surrogates 0xD800 .. 0xDFFF)  — Unicode 15, D76, D92, Table 3-6.

   [utf8_decode] is the textbook decoder (length from the lead byte, payload bits of the
   continuation bytes, then reject over-long forms, surrogates and values above 0x10FFFF by
   looking at the decoded VALUE); it never consults Table 3-7.  Base/Utf8Proofs.v shows that
   the two automata accept exactly the strings this decoder accepts, and that those are
   exactly the well-formed ones.

   Definitions only (no proofs), so that the checkers of Exec/RobustExec.v still run when
   a proof breaks. *)
From AM Require Import Base.Prelude.
Local Open Scope N_scope.

(* Unicode scalar value: 0 .. 0xD7FF and 0xE000 .. 0x10FFFF *)
Definition is_scalar (c : N) : bool :=
  (c <? 55296) || ((57344 <=? c) && (c <? 1114112)).

(* shortest form (Table 3-6):
     0xxxxxxx                              c < 0x80
     110yyyyy 10xxxxxx                     c < 0x800
     1110zzzz 10yyyyyy 10xxxxxx            c < 0x10000
     11110uuu 10uuzzzz 10yyyyyy 10xxxxxx   otherwise *)
Definition utf8_encode (c : N) : bytes :=
  if c <? 128 then [c]
  else if c <? 2048 then [192 + c / 64; 128 + c mod 64]
  else if c <? 65536 then [224 + c / 4096; 128 + (c / 64) mod 64; 128 + c mod 64]
  else [240 + c / 262144; 128 + (c / 4096) mod 64; 128 + (c / 64) mod 64; 128 + c mod 64].

Definition utf8_encode_all (cps : list N) : bytes := concat (map utf8_encode cps).

Definition scalars (cps : list N) : Prop := Forall (fun c => is_scalar c = true) cps.

Definition well_formed (l : bytes) : Prop :=
  exists cps, scalars cps /\ l = utf8_encode_all cps.

(* ---- the decoder ---- *)
Definition is_cont (b : N) : bool := (128 <=? b) && (b <? 192).        (* 10xxxxxx *)

(* payload of a 2 / 3 / 4 byte sequence *)
Definition cp2 (b0 b1 : N) : N := (b0 - 192) * 64 + (b1 - 128).
Definition cp3 (b0 b1 b2 : N) : N := (b0 - 224) * 4096 + (b1 - 128) * 64 + (b2 - 128).
Definition cp4 (b0 b1 b2 b3 : N) : N :=
  (b0 - 240) * 262144 + (b1 - 128) * 4096 + (b2 - 128) * 64 + (b3 - 128).

(* lead byte of the right shape, continuation bytes, value not representable in fewer
   bytes, value a scalar *)
Definition ok2 (b0 b1 : N) : bool :=
  (192 <=? b0) && (b0 <? 224) && is_cont b1 && (128 <=? cp2 b0 b1).
Definition ok3 (b0 b1 b2 : N) : bool :=
  (224 <=? b0) && (b0 <? 240) && is_cont b1 && is_cont b2
  && (2048 <=? cp3 b0 b1 b2) && is_scalar (cp3 b0 b1 b2).
Definition ok4 (b0 b1 b2 b3 : N) : bool :=
  (240 <=? b0) && (b0 <? 248) && is_cont b1 && is_cont b2 && is_cont b3
  && (65536 <=? cp4 b0 b1 b2 b3) && is_scalar (cp4 b0 b1 b2 b3).

Definition ocons {A} (x : A) (o : option (list A)) : option (list A) :=
  match o with Some l => Some (x :: l) | None => None end.

Definition is_some {A} (o : option A) : bool := match o with Some _ => true | None => false end.

(* total: [None] = not UTF-8 *)
Fixpoint utf8_decode (l : bytes) : option (list N) :=
  match l with
  | [] => Some []
  | b0 :: t =>
    if b0 <? 128 then ocons b0 (utf8_decode t)
    else if b0 <? 224 then
      match t with
      | b1 :: t1 => if ok2 b0 b1 then ocons (cp2 b0 b1) (utf8_decode t1) else None
      | _ => None
      end
    else if b0 <? 240 then
      match t with
      | b1 :: b2 :: t2 => if ok3 b0 b1 b2 then ocons (cp3 b0 b1 b2) (utf8_decode t2) else None
      | _ => None
      end
    else
      match t with
      | b1 :: b2 :: b3 :: t3 =>
        if ok4 b0 b1 b2 b3 then ocons (cp4 b0 b1 b2 b3) (utf8_decode t3) else None
      | _ => None
      end
  end.
