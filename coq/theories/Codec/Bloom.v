(* Codec/Bloom.v — model of rust/automerge/src/sync/bloom.rs.

   Mirrors [BloomFilter::{to_bytes, parse, get_probes, add_hash, set_bit,
   get_bit, contains_hash, from_hashes}] and [bits_capacity], including the
   partial operations (remainder by zero, u32 overflow in debug builds) as
   [Panic].  [bits_capacity] is computed in f64 by the code; the exact ceiling
   used here agrees with it whenever entries * bits_per_entry < 2^53, and
   beyond that both exceed any input that can exist.  The parameters come from
   Gen/Consts.v, regenerated from the source on every run. *)
From AM Require Import Base.Prelude Base.Leb128 Gen.Consts.
Local Open Scope N_scope.
Ltac Zify.zify_post_hook ::= Z.div_mod_to_equations.

Record filter := mkFilter { f_entries : N; f_bpe : N; f_probes : N; f_bits : bytes }.

Definition lenN {A} (l : list A) : N := N.of_nat (length l).

Definition bits_capacity (e b : N) : N := (e * b + 7) / 8.

Definition take_N {A} (n : N) (l : list A) : option (list A * list A) :=
  if lenN l <? n then None else take_n (N.to_nat n) l.

Definition default_filter : filter := mkFilter 0 BITS_PER_ENTRY NUM_PROBES [].

Definition to_bytes (f : filter) : bytes :=
  if f_entries f =? 0 then []
  else uleb_enc (f_entries f) ++ uleb_enc (f_bpe f) ++ uleb_enc (f_probes f) ++ f_bits f.

Definition nil_b {A} (l : list A) : bool := match l with [] => true | _ => false end.

Definition parse (l : bytes) : res (filter * bytes) :=
  match l with
  | [] => Ok (default_filter, [])
  | _ =>
    let* (e, i) := uleb_dec_u32 l in
    let* (b, i) := uleb_dec_u32 i in
    let* (p, i) := uleb_dec_u32 i in
    match take_N (bits_capacity e b) i with
    | None => Err
    | Some (bits, r) =>
      if negb (nil_b bits) && (8 * lenN bits <? p) then Err   (* TooManyProbes *)
      else Ok (mkFilter e b p bits, r)
    end
  end.

Definition le32 (h : bytes) (k : nat) : N :=
  nth k h 0 + 256 * nth (k + 1) h 0 + 65536 * nth (k + 2) h 0 + 16777216 * nth (k + 3) h 0.

Definition pstate := res (N * N * list N).

Definition probe_step (m z : N) (st : pstate) : pstate :=
  let* (x, y, acc) := st in
  if (pow32 <=? x + y) || (pow32 <=? y + z) then Panic
  else Ok ((x + y) mod m, (y + z) mod m, ((x + y) mod m) :: acc).

(* [get_probes]: depends only on the bit-array length and the probe count *)
Definition probes_of (len p : N) (h : bytes) : res (list N) :=
  if pow32 <=? 8 * len then Panic                 (* `8 * len as u32` overflows *)
  else let m := 8 * len in
  if m =? 0 then Panic                            (* `% modulo` with modulo = 0 *)
  else
    let x := le32 h 0 mod m in
    let y := le32 h 4 mod m in
    let z := le32 h 8 mod m in
    let* (_, _, acc) := N.iter (p - 1) (probe_step m z) (Ok (x, y, [x])) in
    Ok (rev acc).

Definition get_probes (f : filter) (h : bytes) : res (list N) :=
  probes_of (lenN (f_bits f)) (f_probes f) h.

Fixpoint upd (l : bytes) (i : nat) (g : N -> N) : bytes :=
  match l with
  | [] => []
  | b :: t => match i with O => g b :: t | S i' => b :: upd t i' g end
  end.

Definition set_bit (bits : bytes) (p : N) : bytes :=
  upd bits (N.to_nat (p / 8)) (fun b => N.lor b (2 ^ (p mod 8))).

(* [get_bit(probe).map(|b| b != 0).unwrap_or(true)] as used by [contains_hash] *)
Definition bit_ok (bits : bytes) (p : N) : bool :=
  match nth_error bits (N.to_nat (p / 8)) with
  | Some b => N.testbit b (p mod 8)
  | None => true
  end.

Definition add_hash (f : filter) (h : bytes) : res filter :=
  let* ps := get_probes f h in
  Ok (mkFilter (f_entries f) (f_bpe f) (f_probes f) (fold_left set_bit ps (f_bits f))).

Definition contains (f : filter) (h : bytes) : res bool :=
  if (f_entries f =? 0) || nil_b (f_bits f) then Ok false
  else let* ps := get_probes f h in Ok (forallb (bit_ok (f_bits f)) ps).

Fixpoint add_all (f : filter) (hs : list bytes) : res filter :=
  match hs with
  | [] => Ok f
  | h :: t => let* f' := add_hash f h in add_all f' t
  end.

Definition from_hashes (hs : list bytes) : res filter :=
  let e := lenN hs in
  add_all (mkFilter e BITS_PER_ENTRY NUM_PROBES
             (repeat 0 (N.to_nat (bits_capacity e BITS_PER_ENTRY)))) hs.

(* loop iterations and Vec capacity of one [contains_hash] call *)
Definition query_steps (f : filter) : N :=
  if (f_entries f =? 0) || nil_b (f_bits f) then 0 else f_probes f.
