(* Codec/BloomProofs.v — theorems about the Bloom filter model (C23, C17, C15). *)
From AM Require Import Base.Prelude Base.Leb128 Gen.Consts Codec.Bloom.
Local Open Scope N_scope.
Ltac Zify.zify_post_hook ::= Z.div_mod_to_equations.

(* facts about the constants the source declares today; if a constant changes
   so that one fails, the theorems below are no longer shown *)
Lemma BPE_pos : 1 <= BITS_PER_ENTRY. Proof. vm_compute. discriminate. Qed.
Lemma BPE_u32 : BITS_PER_ENTRY <= u32_max. Proof. vm_compute. discriminate. Qed.
Lemma NP_u32 : NUM_PROBES <= u32_max. Proof. vm_compute. discriminate. Qed.
Lemma NP_fits : NUM_PROBES <= 8 * bits_capacity 1 BITS_PER_ENTRY. Proof. vm_compute. discriminate. Qed.

Lemma lenN_app {A} (a b : list A) : lenN (a ++ b) = lenN a + lenN b.
Proof. unfold lenN. rewrite app_length. lia. Qed.

Lemma take_N_app {A} (a r : list A) : take_N (lenN a) (a ++ r) = Some (a, r).
Proof.
  unfold take_N. rewrite lenN_app. assert ((lenN a + lenN r <? lenN a) = false) as -> by lia.
  unfold lenN. rewrite Nat2N.id. apply take_n_app.
Qed.

Lemma take_N_sound {A} n (l a r : list A) : take_N n l = Some (a, r) -> l = a ++ r /\ lenN a = n.
Proof.
  unfold take_N. destruct (lenN l <? n); [discriminate|]. intros H.
  apply take_n_sound in H. destruct H as [-> H]. split; [reflexivity|]. unfold lenN. lia.
Qed.

(* ---- probes ---- *)

Lemma upd_length l i g : length (upd l i g) = length l.
Proof. revert i; induction l as [|b t IH]; intros [|i]; cbn; auto. Qed.

Lemma set_bit_length bits p : length (set_bit bits p) = length bits.
Proof. apply upd_length. Qed.

Lemma fold_set_bit_length ps : forall bits, length (fold_left set_bit ps bits) = length bits.
Proof.
  induction ps as [|p ps IH]; intros bits; cbn [fold_left]; [reflexivity|].
  rewrite IH. apply set_bit_length.
Qed.

Lemma nth_error_upd l g : forall i j,
  nth_error (upd l i g) j =
  if Nat.eqb i j then option_map g (nth_error l j) else nth_error l j.
Proof.
  induction l as [|b t IH]; intros i j.
  - cbn. destruct j; destruct (Nat.eqb i _); reflexivity.
  - destruct i as [|i], j as [|j]; cbn; try reflexivity. apply IH.
Qed.

Lemma bit_ok_set_same bits p : bit_ok (set_bit bits p) p = true.
Proof.
  unfold bit_ok, set_bit. rewrite nth_error_upd, Nat.eqb_refl.
  destruct (nth_error bits (N.to_nat (p / 8))) as [b|]; cbn [option_map]; [|reflexivity].
  rewrite N.lor_spec, N.pow2_bits_true. apply orb_true_r.
Qed.

Lemma bit_ok_set_mono bits p q : bit_ok bits q = true -> bit_ok (set_bit bits p) q = true.
Proof.
  unfold bit_ok, set_bit. rewrite nth_error_upd.
  destruct (Nat.eqb (N.to_nat (p / 8)) (N.to_nat (q / 8))); [|auto].
  destruct (nth_error bits (N.to_nat (q / 8))) as [b|]; cbn [option_map]; [|auto].
  intros H. rewrite N.lor_spec, H. reflexivity.
Qed.

Lemma fold_set_mono ps : forall bits q,
  bit_ok bits q = true -> bit_ok (fold_left set_bit ps bits) q = true.
Proof.
  induction ps as [|p ps IH]; intros bits q H; cbn [fold_left]; [exact H|].
  apply IH, bit_ok_set_mono, H.
Qed.

Lemma fold_set_all ps : forall bits q, In q ps -> bit_ok (fold_left set_bit ps bits) q = true.
Proof.
  induction ps as [|p ps IH]; intros bits q Hq; [destruct Hq|].
  cbn [fold_left]. destruct Hq as [->|Hq].
  - apply fold_set_mono, bit_ok_set_same.
  - apply IH, Hq.
Qed.

(* probes are computed without panic when the modulus is positive and below 2^31 *)
Lemma probes_of_ok len p h :
  1 <= len -> 16 * len <= pow32 -> exists ps, probes_of len p h = Ok ps.
Proof.
  intros H1 H2. unfold probes_of.
  assert ((pow32 <=? 8 * len) = false) as -> by (unfold pow32 in *; lia).
  assert ((8 * len =? 0) = false) as -> by lia.
  set (m := 8 * len).
  set (z := le32 h 8 mod m).
  assert (Hinv : exists x y acc,
             N.iter (p - 1) (probe_step m z) (Ok (le32 h 0 mod m, le32 h 4 mod m, [le32 h 0 mod m]))
             = Ok (x, y, acc) /\ x < m /\ y < m).
  { apply N.iter_invariant.
    - intros st (x & y & acc & -> & Hx & Hy). unfold probe_step. cbn [bind].
      assert (z < m) by (subst z m; apply N.mod_lt; lia).
      assert ((pow32 <=? x + y) || (pow32 <=? y + z) = false) as ->.
      { apply orb_false_iff. subst m. unfold pow32 in *. split; lia. }
      do 3 eexists. split; [reflexivity|]. subst m. split; apply N.mod_lt; lia.
    - do 3 eexists. split; [reflexivity|]. subst m. split; apply N.mod_lt; lia. }
  destruct Hinv as (x & y & acc & -> & _). cbn [bind]. eauto.
Qed.

(* ---- no false negatives ---- *)

Definition keeps (f f' : filter) : Prop :=
  f_entries f' = f_entries f /\ f_probes f' = f_probes f /\
  length (f_bits f') = length (f_bits f) /\
  forall q, bit_ok (f_bits f) q = true -> bit_ok (f_bits f') q = true.

Lemma keeps_refl f : keeps f f.
Proof. repeat split; auto. Qed.

Lemma keeps_trans a b c : keeps a b -> keeps b c -> keeps a c.
Proof.
  intros (A1 & A2 & A3 & A4) (B1 & B2 & B3 & B4). repeat split; try congruence. auto.
Qed.

Lemma add_hash_keeps f h f' : add_hash f h = Ok f' -> keeps f f'.
Proof.
  unfold add_hash. destruct (get_probes f h) as [ps| |]; cbn [bind]; try discriminate.
  intros H; inversion H; subst; clear H. repeat split; cbn.
  - apply fold_set_bit_length.
  - intros q Hq. apply fold_set_mono, Hq.
Qed.

Lemma add_all_keeps hs : forall f f', add_all f hs = Ok f' -> keeps f f'.
Proof.
  induction hs as [|h t IH]; intros f f' H; cbn [add_all] in H.
  - inversion H; subst. apply keeps_refl.
  - destruct (add_hash f h) as [f1| |] eqn:E; cbn [bind] in H; try discriminate.
    eapply keeps_trans; [eapply add_hash_keeps, E|eapply IH, H].
Qed.

Lemma get_probes_keeps f f' h : keeps f f' -> get_probes f' h = get_probes f h.
Proof. intros (_ & H2 & H3 & _). unfold get_probes, lenN. rewrite H2, H3. reflexivity. Qed.

Lemma add_all_member hs : forall f f' h ps,
  add_all f hs = Ok f' -> In h hs -> get_probes f h = Ok ps ->
  forallb (bit_ok (f_bits f')) ps = true.
Proof.
  induction hs as [|h0 t IH]; intros f f' h ps H Hin Hps; [destruct Hin|].
  cbn [add_all] in H.
  destruct (add_hash f h0) as [f1| |] eqn:E; cbn [bind] in H; try discriminate.
  pose proof (add_hash_keeps _ _ _ E) as K1.
  destruct Hin as [->|Hin].
  - pose proof (add_all_keeps _ _ _ H) as K2. destruct K2 as (_ & _ & _ & K2).
    apply forallb_forall. intros q Hq. apply K2.
    unfold add_hash in E. rewrite Hps in E. cbn [bind] in E. inversion E; subst; clear E. cbn.
    apply fold_set_all, Hq.
  - eapply IH; eauto. rewrite (get_probes_keeps _ _ h K1). exact Hps.
Qed.

Lemma add_all_ok hs : forall f,
  1 <= lenN (f_bits f) -> 16 * lenN (f_bits f) <= pow32 -> exists f', add_all f hs = Ok f'.
Proof.
  induction hs as [|h t IH]; intros f H1 H2; cbn [add_all]; [eauto|].
  unfold add_hash, get_probes.
  destruct (probes_of_ok _ (f_probes f) h H1 H2) as [ps ->]. cbn [bind].
  apply IH; cbn; unfold lenN in *; rewrite fold_set_bit_length; assumption.
Qed.

Definition small (hs : list bytes) : Prop := 2 * (BITS_PER_ENTRY * lenN hs + 7) <= pow32.

Lemma cap_bounds e b :
  1 <= e -> 1 <= b -> 2 * (b * e + 7) <= pow32 ->
  1 <= bits_capacity e b /\ 16 * bits_capacity e b <= pow32.
Proof.
  intros He Hb H. unfold bits_capacity, pow32 in *.
  assert (1 <= e * b) by nia. replace (b * e) with (e * b) in H by lia.
  revert H H0. generalize (e * b). intros x H H0. split; lia.
Qed.

Lemma from_hashes_ok hs : small hs -> exists f, from_hashes hs = Ok f.
Proof.
  intros Hs. unfold from_hashes. destruct hs as [|h0 t] eqn:Ehs; [cbn; eauto|]. rewrite <- Ehs in *.
  assert (1 <= lenN hs) by (subst hs; unfold lenN; cbn [length]; lia).
  pose proof (cap_bounds _ _ H BPE_pos Hs) as [C1 C2].
  apply add_all_ok; cbn [f_bits]; unfold lenN at 1; rewrite repeat_length, N2Nat.id; assumption.
Qed.

Theorem bloom_no_false_negative hs h :
  small hs -> In h hs ->
  exists f, from_hashes hs = Ok f /\ contains f h = Ok true.
Proof.
  intros Hs Hin. destruct (from_hashes_ok _ Hs) as [f Hf]. exists f. split; [exact Hf|].
  unfold from_hashes in Hf. pose proof (add_all_keeps _ _ _ Hf) as K.
  assert (1 <= lenN hs) as Hlen.
  { destruct hs; [destruct Hin|]. unfold lenN. cbn [length]. lia. }
  pose proof BPE_pos.
  set (f0 := mkFilter (lenN hs) BITS_PER_ENTRY NUM_PROBES
                (repeat 0 (N.to_nat (bits_capacity (lenN hs) BITS_PER_ENTRY)))) in *.
  assert (L0 : lenN (f_bits f0) = bits_capacity (lenN hs) BITS_PER_ENTRY).
  { subst f0. cbn [f_bits]. unfold lenN at 1. rewrite repeat_length, N2Nat.id. reflexivity. }
  pose proof (cap_bounds _ _ Hlen BPE_pos Hs) as [C1 C2]. rewrite <- L0 in C1, C2.
  pose proof C1 as H0. pose proof C2 as H1.
  destruct (probes_of_ok _ (f_probes f0) h H0 H1) as [ps Hps].
  pose proof (add_all_member _ _ _ h _ Hf Hin Hps) as Hall.
  unfold contains. destruct K as (K1 & K2 & K3 & _).
  assert ((f_entries f =? 0) = false) as -> by (rewrite K1; subst f0; cbn; lia).
  assert (nil_b (f_bits f) = false) as ->.
  { assert (length (f_bits f) <> 0%nat) as Hn by (rewrite K3; unfold lenN in H0; lia).
    destruct (f_bits f); [cbn in Hn; congruence|reflexivity]. }
  cbn [orb]. unfold get_probes, lenN. rewrite K2, K3. fold (lenN (f_bits f0)).
  rewrite Hps. cbn [bind]. rewrite Hall. reflexivity.
Qed.

(* ---- wire round trip ---- *)

Lemma uenc_nonempty n : uleb_enc n <> [].
Proof. unfold uleb_enc. cbn [uenc]. destruct (n <? 128); discriminate. Qed.

Lemma uleb_u32_roundtrip n rest : n <= u32_max -> uleb_dec_u32 (uleb_enc n ++ rest) = Ok (n, rest).
Proof.
  intros H. unfold uleb_dec_u32. rewrite uleb_roundtrip by (unfold u32_max, pow64 in *; lia).
  cbn [bind]. assert ((n <=? u32_max) = true) as -> by lia. reflexivity.
Qed.

Definition wf_filter (f : filter) : Prop :=
  f_entries f <> 0 /\ f_entries f <= u32_max /\ f_bpe f <= u32_max /\ f_probes f <= u32_max /\
  lenN (f_bits f) = bits_capacity (f_entries f) (f_bpe f) /\
  (f_bits f <> [] -> f_probes f <= 8 * lenN (f_bits f)).

Lemma parse_to_bytes f : wf_filter f -> parse (to_bytes f) = Ok (f, []).
Proof.
  intros (H0 & He & Hb & Hp & Hlen & Hpr). unfold to_bytes.
  assert ((f_entries f =? 0) = false) as -> by lia.
  unfold parse.
  destruct (uleb_enc (f_entries f) ++ uleb_enc (f_bpe f) ++ uleb_enc (f_probes f) ++ f_bits f) eqn:E.
  { apply app_eq_nil in E. destruct E as [E _]. destruct (uenc_nonempty _ E). }
  rewrite <- E. clear E.
  rewrite uleb_u32_roundtrip by assumption. cbn [bind].
  rewrite uleb_u32_roundtrip by assumption. cbn [bind].
  rewrite uleb_u32_roundtrip by assumption. cbn [bind].
  rewrite <- Hlen. rewrite <- (app_nil_r (f_bits f)) at 2. rewrite take_N_app.
  destruct (f_bits f) as [|b0 bt] eqn:Eb.
  - cbn [nil_b negb andb]. destruct f; cbn in *; subst; reflexivity.
  - cbn [nil_b negb andb]. assert ((8 * lenN (b0 :: bt) <? f_probes f) = false) as ->.
    { specialize (Hpr ltac:(discriminate)). lia. }
    destruct f; cbn in *; subst; reflexivity.
Qed.

Lemma from_hashes_wf hs f :
  hs <> [] -> lenN hs <= u32_max -> from_hashes hs = Ok f -> wf_filter f.
Proof.
  intros Hne Hu Hf. unfold from_hashes in Hf. pose proof (add_all_keeps _ _ _ Hf) as (K1 & K2 & K3 & _).
  cbn [f_entries f_probes f_bits] in *.
  assert (1 <= lenN hs) by (destruct hs; [congruence|unfold lenN; cbn [length]; lia]).
  assert (Hbpe : f_bpe f = BITS_PER_ENTRY).
  { clear - Hf. revert Hf. generalize (repeat 0 (N.to_nat (bits_capacity (lenN hs) BITS_PER_ENTRY))).
    generalize (lenN hs). intros e bits.
    assert (G : forall hs f0 f, add_all f0 hs = Ok f -> f_bpe f = f_bpe f0).
    { clear. induction hs as [|h t IH]; intros f0 f H; cbn [add_all] in H.
      - inversion H; reflexivity.
      - unfold add_hash in H. destruct (get_probes f0 h); cbn [bind] in H; try discriminate.
        apply IH in H. exact H. }
    intros H. apply G in H. exact H. }
  assert (L : lenN (f_bits f) = bits_capacity (lenN hs) BITS_PER_ENTRY).
  { unfold lenN at 1. rewrite K3, repeat_length, N2Nat.id. reflexivity. }
  pose proof BPE_pos. pose proof BPE_u32. pose proof NP_u32. pose proof NP_fits.
  unfold wf_filter. rewrite K1, K2, Hbpe, L.
  repeat split; try assumption; try lia.
  intros _. unfold bits_capacity in *. nia.
Qed.

Theorem bloom_roundtrip hs f :
  lenN hs <= u32_max -> from_hashes hs = Ok f -> parse (to_bytes f) = Ok (f, []).
Proof.
  intros Hu Hf. destruct hs as [|h0 t] eqn:E.
  - cbn in Hf. inversion Hf; subst. reflexivity.
  - apply parse_to_bytes. eapply from_hashes_wf; eauto. discriminate.
Qed.

(* ---- queries on any decoded filter ---- *)

Lemma parse_bits_len bs f rest : parse bs = Ok (f, rest) -> lenN (f_bits f) <= lenN bs.
Proof.
  unfold parse. destruct bs as [|b0 bt] eqn:E; [intros H; inversion H; subst; cbn; lia|].
  rewrite <- E. clear E b0 bt.
  unfold uleb_dec_u32.
  destruct (uleb_dec bs) as [[e i1]| |] eqn:E1; cbn [bind]; try discriminate.
  destruct (e <=? u32_max); cbn [bind]; try discriminate.
  destruct (uleb_dec i1) as [[b i2]| |] eqn:E2; cbn [bind]; try discriminate.
  destruct (b <=? u32_max); cbn [bind]; try discriminate.
  destruct (uleb_dec i2) as [[p i3]| |] eqn:E3; cbn [bind]; try discriminate.
  destruct (p <=? u32_max); cbn [bind]; try discriminate.
  destruct (take_N (bits_capacity e b) i3) as [[bits r]|] eqn:E4; try discriminate.
  destruct (negb (nil_b bits) && (8 * lenN bits <? p)); try discriminate.
  intros H; inversion H; subst; clear H. cbn [f_bits].
  apply uleb_dec_rest in E1, E2, E3. destruct E1 as (p1 & -> & _), E2 as (p2 & -> & _), E3 as (p3 & -> & _).
  apply take_N_sound in E4. destruct E4 as [-> _]. rewrite !lenN_app. lia.
Qed.

Lemma parse_probe_bound bs f rest :
  parse bs = Ok (f, rest) -> f_bits f <> [] -> f_probes f <= 8 * lenN (f_bits f).
Proof.
  unfold parse. destruct bs as [|b0 bt] eqn:E; [intros H; inversion H; subst; cbn; congruence|].
  rewrite <- E. clear E b0 bt.
  destruct (uleb_dec_u32 bs) as [[e i1]| |]; cbn [bind]; try discriminate.
  destruct (uleb_dec_u32 i1) as [[b i2]| |]; cbn [bind]; try discriminate.
  destruct (uleb_dec_u32 i2) as [[p i3]| |]; cbn [bind]; try discriminate.
  destruct (take_N (bits_capacity e b) i3) as [[bits r]|]; try discriminate.
  destruct (negb (nil_b bits) && (8 * lenN bits <? p)) eqn:Eb; try discriminate.
  intros H; inversion H; subst; clear H. cbn [f_bits f_probes]. intros Hne.
  destruct bits; [congruence|]. cbn [nil_b negb andb] in Eb. lia.
Qed.

(* A decoded filter answers every query with a boolean.  The size bound is the
   point at which u32 arithmetic in [get_probes] could overflow in a debug
   build: a filter of 2^28 bytes (256 MiB). *)
Theorem bloom_query_total bs f rest h :
  parse bs = Ok (f, rest) -> 16 * lenN bs <= pow32 -> exists b, contains f h = Ok b.
Proof.
  intros Hp Hsz. pose proof (parse_bits_len _ _ _ Hp) as Hl. unfold contains.
  destruct ((f_entries f =? 0) || nil_b (f_bits f)) eqn:E; [eauto|].
  apply orb_false_iff in E. destruct E as [_ E].
  assert (1 <= lenN (f_bits f)) by (destruct (f_bits f); [discriminate|unfold lenN; cbn [length]; lia]).
  unfold get_probes.
  destruct (@probes_of_ok (lenN (f_bits f)) (f_probes f) h) as [ps ->]; [lia|lia|].
  cbn [bind]. eauto.
Qed.

(* C17: work per query is linear in the size of the decoded input *)
Theorem bloom_query_cost bs f rest :
  parse bs = Ok (f, rest) -> query_steps f <= 8 * lenN bs.
Proof.
  intros Hp. unfold query_steps.
  destruct ((f_entries f =? 0) || nil_b (f_bits f)) eqn:E; [lia|].
  apply orb_false_iff in E. destruct E as [_ E].
  pose proof (parse_bits_len _ _ _ Hp). pose proof (@parse_probe_bound _ _ _ Hp).
  assert (f_bits f <> []) by (destruct (f_bits f); [discriminate|congruence]). specialize (H0 H1). lia.
Qed.

Theorem bloom_parse_no_panic bs : parse bs <> Panic.
Proof.
  unfold parse. destruct bs as [|b0 bt] eqn:E; [discriminate|]. rewrite <- E. clear E.
  pose proof (@uleb_dec_u32_no_panic bs).
  destruct (uleb_dec_u32 bs) as [[e i1]| |]; cbn [bind]; try congruence.
  pose proof (@uleb_dec_u32_no_panic i1).
  destruct (uleb_dec_u32 i1) as [[b i2]| |]; cbn [bind]; try congruence.
  pose proof (@uleb_dec_u32_no_panic i2).
  destruct (uleb_dec_u32 i2) as [[p i3]| |]; cbn [bind]; try congruence.
  destruct (take_N (bits_capacity e b) i3) as [[bits r]|]; try discriminate.
  destruct (negb (nil_b bits) && (8 * lenN bits <? p)); discriminate.
Qed.

(* non-vacuity: a two-element filter, its wire form, and a hostile input *)
Definition h1 : bytes := map N.of_nat (seq 1 32).
Definition h2 : bytes := map N.of_nat (seq 101 32).
Example small_nonvacuous : small [h1; h2]. Proof. vm_compute. discriminate. Qed.
Example contains_example :
  (let* f := from_hashes [h1; h2] in contains f h2) = Ok true. Proof. vm_compute. reflexivity. Qed.
Example hostile_example :
  (let* (f, _) := parse [1; 0; 7] in contains f h1) = Ok false. Proof. vm_compute. reflexivity. Qed.
Example hostile_probes_rejected : parse [1; 8; 255; 255; 255; 127; 170] = Err.
Proof. vm_compute. reflexivity. Qed.
