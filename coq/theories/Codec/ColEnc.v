(* Codec/ColEnc.v — the OLD column codecs of rust/automerge/src/columnar/encoding/ that the op
   columns of a change chunk are written and read with (NOT the hexane crate).

   Mirrors, line by line:
     encodable_impls.rs  [Encodable for u64 / i64 / usize / SmolStr / Option<..>]  = [uleb_enc], [sleb_enc], [str_enc]
     decodable_impls.rs  [Decodable for u64 / usize / i64 / Vec<u8> / SmolStr], through the `leb128` crate's
                         [read::unsigned] / [read::signed] (leb128-0.2.x, src/lib.rs)  = [urd], [srd], [str_rd]
     raw.rs              [RawDecoder::read] / [read_bytes] / [done] / [is_empty]      (a decoder is its remaining bytes)
     rle.rs              [RleEncoder] (append_null / append_value / finish and the three flush functions), [RleDecoder::try_next]
     delta.rs            [DeltaEncoder] / [DeltaDecoder]
     boolean.rs          [BooleanEncoder] / [BooleanDecoder], [MaybeBooleanEncoder] / [MaybeBooleanDecoder]

   Quirks mirrored (not repaired):
   - the `leb128` crate readers accept OVER-LONG encodings ([0x80; 0x00] is 0) — unlike storage/parse/leb128.rs
     (Base/Leb128.v) — and at most ten bytes; the tenth byte must be 0 / 1 (unsigned) or 0 / 0x7f (signed);
   - [RleDecoder::try_next]: a literal-run header of i64::MIN is negated with [count.abs()]: overflow, a panic in a
     debug build ([Panic]); a null run of n >= 2^63 is cast [as isize] to a NEGATIVE count: the decoder then yields
     nulls without consuming input and [count -= 1] overflows when the count is isize::MIN ([Panic]);
     a zero-length null run is skipped; run / literal counts are not checked against the data;
   - [BooleanDecoder] starts with [last_value = true] and flips BEFORE the first run, zero counts are skipped;
   - [MaybeBooleanDecoder]: an EMPTY column yields nothing; a non-empty exhausted one yields [None] forever;
   - [MaybeBooleanEncoder::finish]: an all-false (or empty) column writes NOTHING (its buffer is returned with
     length 0; the runs are only written into the buffer by [BooleanEncoder::finish], which is not called; a
     pending first run of [false] is never flushed because no [true] was appended);
   - [Vec<u8>::decode] refuses lengths above MAX_ALLOCATION = 10^9.
   Debug-build arithmetic: the harness builds automerge with overflow checks, so an overflowing [abs] / [-=] is
   [Panic] here.  [len as i64] in [flush_run] / [flush_lit_run] would wrap for a run of >= 2^63 items: no Vec is
   that long, not modelled.

   A decoder is a state machine with a [next]; nothing here expands a run, so a run count of 2^62 costs nothing. *)
From AM Require Import Base.Prelude Base.Leb128 Base.Sleb128.
Local Open Scope N_scope.

Definition pow63 : N := 9223372036854775808.
Definition isize_min : Z := (-9223372036854775808)%Z.
Definition MAX_ALLOCATION : N := 1000000000.

(* ---------------------------------------------------------------- leb128 crate readers *)
(* [leb128::read::unsigned]; [f] = bytes still allowed (10 at entry; the last one is "shift == 63") *)
Fixpoint urd (f : nat) (l : bytes) : res (N * bytes) :=
  match f with
  | O => Err
  | S f' =>
    match l with
    | [] => Err                                                        (* io: UnexpectedEof *)
    | b :: t =>
      if Nat.eqb f' 0 && negb ((b =? 0) || (b =? 1)) then Err          (* Overflow *)
      else if b <? 128 then Ok (b, t)
      else let* (v, r) := urd f' t in Ok (b - 128 + 128 * v, r)
    end
  end.
Definition u64_rd (l : bytes) : res (N * bytes) := urd 10 l.

(* [leb128::read::signed]; the value is sign-extended from bit 6 of the final byte *)
Fixpoint srd (f : nat) (l : bytes) : res (Z * bytes) :=
  match f with
  | O => Err
  | S f' =>
    match l with
    | [] => Err
    | b :: t =>
      if Nat.eqb f' 0 && negb ((b =? 0) || (b =? 127)) then Err        (* Overflow *)
      else if b <? 128 then Ok (sfinal b, t)
      else let* (v, r) := srd f' t in Ok ((Z.of_N (b - 128) + 128 * v)%Z, r)
    end
  end.
Definition i64_rd (l : bytes) : res (Z * bytes) := srd 10 l.

(* [Vec<u8>::decode] followed by [str::from_utf8] ([SmolStr::decode]); [utf8] is the validity test *)
Definition col_take {A} (n : N) (l : list A) : option (list A * list A) :=
  if N.of_nat (length l) <? n then None else take_n (N.to_nat n) l.

Definition vec_rd (l : bytes) : res (bytes * bytes) :=
  let* (n, r) := u64_rd l in
  if n =? 0 then Ok ([], r)
  else if MAX_ALLOCATION <? n then Err                                 (* OverlargeAllocation *)
  else match col_take n r with Some (a, r') => Ok (a, r') | None => Err end.

Section Str.
  Variable utf8 : bytes -> bool.
  Definition str_rd (l : bytes) : res (bytes * bytes) :=
    let* (s, r) := vec_rd l in if utf8 s then Ok (s, r) else Err.      (* BadString *)
End Str.
Definition str_enc (s : bytes) : bytes := uleb_enc (N.of_nat (length s)) ++ s.

(* ---------------------------------------------------------------- RLE *)
Section Rle.
  Context {T : Type}.
  Variable enc : T -> bytes.
  Variable rd : bytes -> res (T * bytes).
  Variable eqb : T -> T -> bool.

  (* -------- encoder: [RleState] *)
  Inductive rle_est :=
  | REmpty
  | RInitialNullRun (n : N)
  | RNullRun (n : N)
  | RLiteralRun (last : T) (run : list T)
  | RLoneVal (v : T)
  | RRun (v : T) (n : N).

  Definition flush_run (v : T) (n : N) : bytes := sleb_enc (Z.of_N n) ++ enc v.
  Definition flush_null_run (n : N) : bytes := sleb_enc 0 ++ uleb_enc n.
  Definition flush_lit_run (run : list T) : bytes :=
    sleb_enc (- Z.of_nat (length run)) ++ concat (map enc run).

  (* (buffer, state) *)
  Definition rle_enc := (bytes * rle_est)%type.

  Definition rle_append_null (e : rle_enc) : rle_enc :=
    let (buf, st) := e in
    match st with
    | REmpty => (buf, RInitialNullRun 1)
    | RInitialNullRun n => (buf, RInitialNullRun (n + 1))
    | RNullRun n => (buf, RNullRun (n + 1))
    | RLoneVal o => (buf ++ flush_lit_run [o], RNullRun 1)
    | RRun o n => (buf ++ flush_run o n, RNullRun 1)
    | RLiteralRun last run => (buf ++ flush_lit_run (run ++ [last]), RNullRun 1)
    end.

  Definition rle_append_value (e : rle_enc) (v : T) : rle_enc :=
    let (buf, st) := e in
    match st with
    | REmpty => (buf, RLoneVal v)
    | RLoneVal o => if eqb o v then (buf, RRun v 2) else (buf, RLiteralRun v [o])
    | RRun o n => if eqb o v then (buf, RRun o (n + 1)) else (buf ++ flush_run o n, RLoneVal v)
    | RLiteralRun last run =>
        if eqb last v then (buf ++ flush_lit_run run, RRun v 2)
        else (buf, RLiteralRun v (run ++ [last]))
    | RNullRun n | RInitialNullRun n => (buf ++ flush_null_run n, RLoneVal v)
    end.

  Definition rle_append (e : rle_enc) (x : option T) : rle_enc :=
    match x with Some v => rle_append_value e v | None => rle_append_null e end.

  Definition rle_finish (e : rle_enc) : bytes :=
    let (buf, st) := e in
    match st with
    | RInitialNullRun _ => buf
    | RNullRun n => buf ++ flush_null_run n
    | RLoneVal v => buf ++ flush_lit_run [v]
    | RRun v n => buf ++ flush_run v n
    | RLiteralRun last run => buf ++ flush_lit_run (run ++ [last])
    | REmpty => buf
    end.

  (* [RleRange::encode] *)
  Definition rle_encode (xs : list (option T)) : bytes :=
    rle_finish (fold_left rle_append xs ([], REmpty)).

  (* -------- decoder *)
  Record rle_st := mkRle { rl_data : bytes; rl_last : option T; rl_count : Z; rl_lit : bool }.
  Definition rle_init (d : bytes) : rle_st := mkRle d None 0 false.

  (* [RleDecoder::done] *)
  Definition rle_done (s : rle_st) : bool :=
    match rl_data s with [] => (rl_count s =? 0)%Z | _ => false end.

  (* the [while self.count == 0] loop of [try_next]; every turn that comes round again has consumed at
     least two bytes, so [S (length data)] turns are enough: [fuel] never runs out ([Err] if it did).
     [Ok None] = the iterator is exhausted *)
  Fixpoint rle_fill (fuel : nat) (s : rle_st) : res (option rle_st) :=
    if negb (rl_count s =? 0)%Z then Ok (Some s) else
    match fuel with
    | O => Err
    | S fuel' =>
      match rl_data s with
      | [] => Ok None
      | _ =>
        let* (c, d1) := i64_rd (rl_data s) in
        if (0 <? c)%Z then
          let* (v, d2) := rd d1 in
          rle_fill fuel' (mkRle d2 (Some v) c false)
        else if (c <? 0)%Z then
          if (c =? isize_min)%Z then Panic                             (* count.abs() overflows *)
          else rle_fill fuel' (mkRle d1 (rl_last s) (- c) true)
        else
          let* (n, d2) := u64_rd d1 in
          let c' := if n <? pow63 then Z.of_N n else (Z.of_N n - Z.of_N pow64)%Z in   (* as isize *)
          rle_fill fuel' (mkRle d2 None c' false)
      end
    end.

  (* [try_next]: [Ok (None, _)] = end of the iterator, [Ok (Some None, _)] = a null *)
  Definition rle_next (s : rle_st) : res (option (option T) * rle_st) :=
    let* r := rle_fill (S (length (rl_data s))) s in
    match r with
    | None => Ok (None, mkRle [] (rl_last s) 0 (rl_lit s))
    | Some s1 =>
      if (rl_count s1 =? isize_min)%Z then Panic                       (* self.count -= 1 overflows *)
      else
        let c := (rl_count s1 - 1)%Z in
        if rl_lit s1 then
          let* (v, d) := rd (rl_data s1) in
          Ok (Some (Some v), mkRle d (rl_last s1) c true)
        else Ok (Some (rl_last s1), mkRle (rl_data s1) (rl_last s1) c false)
    end.
End Rle.

Arguments REmpty {T}.
Arguments rle_init {T} d.

(* ---------------------------------------------------------------- delta *)
Definition sat_i64 (z : Z) : Z := Z.max i64_min (Z.min i64_max z).

(* [DeltaEncoder]: (rle encoder over i64, absolute_value) *)
Definition delta_enc := (rle_enc (T:=Z) * Z)%type.
Definition delta_append (e : delta_enc) (x : option Z) : delta_enc :=
  let (r, a) := e in
  match x with
  | Some v => (rle_append_value sleb_enc Z.eqb r (sat_i64 (v - a)), v)   (* value.saturating_sub(abs) *)
  | None => (rle_append_null sleb_enc r, a)
  end.
Definition delta_encode (xs : list (option Z)) : bytes :=
  rle_finish sleb_enc (fst (fold_left delta_append xs (([], REmpty), 0%Z))).

(* [DeltaDecoder] *)
Definition delta_st := (rle_st (T:=Z) * Z)%type.
Definition delta_init (d : bytes) : delta_st := (rle_init d, 0%Z).
Definition delta_next (s : delta_st) : res (option (option Z) * delta_st) :=
  let (r, a) := s in
  let* (x, r1) := rle_next i64_rd r in
  match x with
  | Some (Some d) => let a1 := sat_i64 (a + d) in Ok (Some (Some a1), (r1, a1))   (* saturating_add *)
  | Some None => Ok (Some None, (r1, a))
  | None => Ok (None, (r1, a))
  end.

(* ---------------------------------------------------------------- booleans *)
(* [BooleanEncoder]: (buffer, last, count) *)
Definition bool_enc := (bytes * bool * N)%type.
Definition bool_enc_init : bool_enc := ([], false, 0).
Definition bool_append (e : bool_enc) (v : bool) : bool_enc :=
  let '(buf, last, count) := e in
  if Bool.eqb v last then (buf, last, count + 1)
  else (buf ++ uleb_enc count, v, 1).
Definition bool_finish (e : bool_enc) : bytes :=
  let '(buf, last, count) := e in
  if 0 <? count then buf ++ uleb_enc count else buf.
Definition bool_encode (xs : list bool) : bytes := bool_finish (fold_left bool_append xs bool_enc_init).

(* [MaybeBooleanEncoder]: all_false is "no true was appended" *)
Definition maybe_bool_encode (xs : list bool) : bytes :=
  if existsb (fun b => b) xs then bool_encode xs else [].

(* [BooleanDecoder]: (remaining data, last_value, count) *)
Definition bool_st := (bytes * bool * N)%type.
Definition bool_init (d : bytes) : bool_st := (d, true, 0).

Fixpoint bool_fill (fuel : nat) (s : bool_st) : res (option bool_st) :=
  let '(d, last, count) := s in
  if negb (count =? 0) then Ok (Some s) else
  match fuel with
  | O => Err
  | S fuel' =>
    match d with
    | [] => Ok None
    | _ => let* (c, d1) := u64_rd d in bool_fill fuel' (d1, negb last, c)
    end
  end.

(* [Ok (None, _)] = the iterator is exhausted *)
Definition bool_next (s : bool_st) : res (option bool * bool_st) :=
  let* r := bool_fill (S (length (fst (fst s)))) s in
  match r with
  | None => Ok (None, ([], snd (fst s), 0))
  | Some (d, last, count) => Ok (Some last, (d, last, count - 1))
  end.

(* [MaybeBooleanDecoder::next] followed by [maybe_next_in_col]: [orig_empty] is [decoder.is_empty()], a
   property of the WHOLE column; the result is the flattened [Option<bool>] *)
Definition maybe_bool_next (orig_empty : bool) (s : bool_st) : res (option bool * bool_st) :=
  if orig_empty then Ok (None, s) else bool_next s.

(* ---------------------------------------------------------------- a lazy bounded loop *)
(* [loop_pos step p s]: apply [step] up to [p] times, stopping at the first [inr]; cost is the number of
   steps actually taken (plus log p), so the bound may be astronomically large *)
Fixpoint loop_pos {S R} (step : S -> S + R) (p : positive) (s : S) : S + R :=
  match p with
  | xH => step s
  | xO p' => match loop_pos step p' s with inl s1 => loop_pos step p' s1 | inr r => inr r end
  | xI p' =>
    match step s with
    | inl s0 => match loop_pos step p' s0 with inl s1 => loop_pos step p' s1 | inr r => inr r end
    | inr r => inr r
    end
  end.
