(* Codec/ColEncProofs.v — proofs about the legacy column codecs of Codec/ColEnc.v. *)
From AM Require Import Base.Prelude Base.Leb128 Base.Sleb128 Base.Sleb128Proofs Codec.ColEnc.
Local Open Scope N_scope.

(* ---------------------------------------------------------------- the lax LEB readers *)
(* whatever the strict reader of storage/parse/leb128.rs accepts, the `leb128` crate reader accepts with the
   same value *)
Lemma udec_urd f : forall first l x, udec first f l = Ok x -> urd f l = Ok x.
Proof.
  induction f as [|f IH]; intros first l x H; [discriminate|].
  cbn [udec] in H. cbn [urd]. destruct l as [|b t]; [discriminate|].
  destruct (b <? 128) eqn:E.
  - destruct (Nat.eqb f 0 && (1 <? b)) eqn:E1; [discriminate|].
    destruct (negb first && (b =? 0)) eqn:E2; [discriminate|].
    assert (Nat.eqb f 0 && negb ((b =? 0) || (b =? 1)) = false) as ->.
    { destruct (Nat.eqb f 0); cbn in *; [|reflexivity]. lia. }
    exact H.
  - destruct (Nat.eqb f 0) eqn:Ef; [discriminate|]. cbn [andb].
    destruct (udec false f t) as [[v r]| |] eqn:Ed; cbn [bind] in H; try discriminate.
    rewrite (IH _ _ _ Ed). exact H.
Qed.

Theorem u64_rd_roundtrip n rest : n < pow64 -> u64_rd (uleb_enc n ++ rest) = Ok (n, rest).
Proof. intros H. apply (udec_urd 10 true). apply uleb_roundtrip. exact H. Qed.

Lemma sdec_srd f : forall prev l x, sdec prev f l = Ok x -> srd f l = Ok x.
Proof.
  induction f as [|f IH]; intros prev l x H; [discriminate|].
  cbn [sdec] in H. cbn [srd]. destruct l as [|b t]; [discriminate|].
  destruct (b <? 128) eqn:E.
  - destruct (Nat.eqb f 0 && negb (b =? 0) && negb (b =? 127)) eqn:E1; [discriminate|].
    assert (Nat.eqb f 0 && negb ((b =? 0) || (b =? 127)) = false) as ->.
    { destruct (Nat.eqb f 0); cbn in *; [|reflexivity]. destruct (b =? 0); destruct (b =? 127); cbn in *; congruence. }
    destruct prev as [p|].
    + destruct ((b =? 0) && negb (bit6 p) || (b =? 127) && bit6 p); [discriminate|exact H].
    + exact H.
  - destruct (Nat.eqb f 0) eqn:Ef; [discriminate|]. cbn [andb].
    destruct (sdec (Some b) f t) as [[v r]| |] eqn:Ed; cbn [bind] in H; try discriminate.
    rewrite (IH _ _ _ Ed). exact H.
Qed.

Theorem i64_rd_roundtrip z rest : in_i64 z -> i64_rd (sleb_enc z ++ rest) = Ok (z, rest).
Proof. intros H. apply (sdec_srd 10 None). apply sleb_roundtrip. exact H. Qed.

Lemma urd_no_panic f : forall l, urd f l <> Panic.
Proof.
  induction f as [|f IH]; intros l; cbn [urd]; [discriminate|].
  destruct l as [|b t]; [discriminate|].
  destruct (Nat.eqb f 0 && negb ((b =? 0) || (b =? 1))); [discriminate|].
  destruct (b <? 128); [discriminate|].
  specialize (IH t). destruct (urd f t) as [[v r]| |]; cbn; congruence.
Qed.
Lemma u64_rd_no_panic l : u64_rd l <> Panic.
Proof. apply urd_no_panic. Qed.

Lemma srd_no_panic f : forall l, srd f l <> Panic.
Proof.
  induction f as [|f IH]; intros l; cbn [srd]; [discriminate|].
  destruct l as [|b t]; [discriminate|].
  destruct (Nat.eqb f 0 && negb ((b =? 0) || (b =? 127))); [discriminate|].
  destruct (b <? 128); [discriminate|].
  specialize (IH t). destruct (srd f t) as [[v r]| |]; cbn; congruence.
Qed.
Lemma i64_rd_no_panic l : i64_rd l <> Panic.
Proof. apply srd_no_panic. Qed.

Lemma vec_rd_no_panic l : vec_rd l <> Panic.
Proof.
  unfold vec_rd. pose proof (u64_rd_no_panic l) as H.
  destruct (u64_rd l) as [[n r]| |]; cbn [bind]; try congruence.
  destruct (n =? 0); [discriminate|]. destruct (MAX_ALLOCATION <? n); [discriminate|].
  destruct (col_take n r) as [[a r']|]; discriminate.
Qed.
Lemma str_rd_no_panic utf8 l : str_rd utf8 l <> Panic.
Proof.
  unfold str_rd. pose proof (vec_rd_no_panic l) as H.
  destruct (vec_rd l) as [[s r]| |]; cbn [bind]; try congruence. destruct (utf8 s); discriminate.
Qed.

(* the readers consume at least one byte *)
Lemma urd_shorter f : forall l v r, urd f l = Ok (v, r) -> (length r < length l)%nat.
Proof.
  induction f as [|f IH]; intros l v r H; [discriminate|]. cbn [urd] in H.
  destruct l as [|b t]; [discriminate|].
  destruct (Nat.eqb f 0 && negb ((b =? 0) || (b =? 1))); [discriminate|].
  destruct (b <? 128).
  - inversion H; subst. cbn. lia.
  - destruct (urd f t) as [[v' r']| |] eqn:E; cbn [bind] in H; try discriminate.
    inversion H; subst. apply IH in E. cbn. lia.
Qed.

Lemma col_take_app {A} (a r : list A) : col_take (N.of_nat (length a)) (a ++ r) = Some (a, r).
Proof.
  unfold col_take. rewrite app_length.
  assert ((N.of_nat (length a + length r) <? N.of_nat (length a)) = false) as -> by lia.
  rewrite Nat2N.id. apply take_n_app.
Qed.

(* strings *)
Theorem str_rd_roundtrip utf8 s rest :
  utf8 s = true -> N.of_nat (length s) <= MAX_ALLOCATION ->
  str_rd utf8 (str_enc s ++ rest) = Ok (s, rest).
Proof.
  intros Hu Hl. unfold str_rd, vec_rd, str_enc. rewrite <- app_assoc.
  rewrite u64_rd_roundtrip by (unfold MAX_ALLOCATION, pow64 in *; lia). cbn [bind].
  destruct (N.of_nat (length s) =? 0) eqn:E0.
  - assert (s = []) as Hs by (destruct s; [reflexivity|cbn in E0; lia]). subst s. cbn [app bind]. now rewrite Hu.
  - assert ((MAX_ALLOCATION <? N.of_nat (length s)) = false) as -> by lia.
    rewrite col_take_app. cbn [bind]. rewrite Hu. reflexivity.
Qed.

(* ---------------------------------------------------------------- booleans *)
(* the decoder never panics *)
Lemma bool_fill_no_panic fuel : forall s, bool_fill fuel s <> Panic.
Proof.
  induction fuel as [|fuel IH]; intros [[d last] count]; cbn [bool_fill].
  - destruct (negb (count =? 0)); discriminate.
  - destruct (negb (count =? 0)); [discriminate|]. destruct d as [|b t]; [discriminate|].
    pose proof (u64_rd_no_panic (b :: t)) as H.
    destruct (u64_rd (b :: t)) as [[c d1]| |]; cbn [bind]; [apply IH|discriminate|congruence].
Qed.
Theorem bool_next_no_panic s : bool_next s <> Panic.
Proof.
  unfold bool_next. pose proof (bool_fill_no_panic (S (length (fst (fst s)))) s) as H.
  destruct (bool_fill _ s) as [[[[d last] count]|]| |]; cbn [bind]; congruence.
Qed.
Theorem maybe_bool_next_no_panic e s : maybe_bool_next e s <> Panic.
Proof. unfold maybe_bool_next. destruct e; [discriminate|apply bool_next_no_panic]. Qed.

(* ---------------------------------------------------------------- RLE: the decoder CAN panic *)
(* a literal run of i64::MIN items; a null run of 2^63 items (the count, cast to isize, is isize::MIN) *)
Theorem rle_decoder_panics :
  rle_next u64_rd (rle_init [128; 128; 128; 128; 128; 128; 128; 128; 128; 127; 1]) = Panic
  /\ rle_next u64_rd (rle_init [0; 128; 128; 128; 128; 128; 128; 128; 128; 128; 1]) = Panic.
Proof. split; vm_compute; reflexivity. Qed.

