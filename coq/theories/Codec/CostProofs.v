(* Codec/CostProofs.v — cost bounds of the modelled decoders (C17).

   Wherever a number read from the wire sizes an allocation or a loop in a MODELLED decoder, the
   size of what is decoded (list lengths, byte lengths: what the Rust allocates) and the number of
   loop iterations are bounded by the number of input bytes; a declared count or length larger
   than the remaining input is rejected.

   a. LEB128 readers (Base/Leb128.v, Base/Sleb128.v, Hexane/Hleb.v) consume 1..10 bytes
   b. [length_prefixed_bytes]              (storage/parse.rs)
   c. [read_many] / [length_prefixed item] (storage/parse.rs, the [for _ in 0..count] loop)
   d. sync message / state                 (sync.rs, sync/state.rs)
   e. Bloom filter                         (sync/bloom.rs)
   f. ExId / Cursor from bytes             (exid.rs, cursor.rs)
   g. change chunk body                    (storage/change.rs)
   h. chunk header                         (storage/chunk.rs)

   Lengths are [nat] ([length]); [Bloom.lenN] / [Chunk.lenN] are [N.of_nat (length _)].
   Two [take_N] / [lenN] exist (Codec/Bloom.v, Store/Chunk.v): they are qualified below. *)
From AM Require Import Base.Prelude Base.Leb128 Base.Sleb128 Base.Sleb128Proofs Gen.Consts.
From AM Require Import Hexane.Hleb Hexane.HlebProofs.
From AM Require Import Store.Chunk Store.ChunkProofs Store.ChangeChunk Store.ChangeChunkProofs.
From AM Require Import Codec.Bloom Codec.BloomProofs Codec.Hex Codec.SyncCodec Codec.SyncProofs
  Codec.ExId Codec.CursorCodec.

Ltac Zify.zify_post_hook ::= Z.div_mod_to_equations.

(* ================================================================ generic *)
Lemma firstn_pre {A} (pre r : list A) : firstn (length pre) (pre ++ r) = pre.
Proof. rewrite firstn_app, Nat.sub_diag, firstn_all. cbn [firstn]. apply app_nil_r. Qed.

Lemma rest_to_k (l r : bytes) (m : nat) :
  (exists pre, l = pre ++ r /\ 1 <= length pre <= m) ->
  exists k, 1 <= k <= m /\ length l = k + length r /\ l = firstn k l ++ r.
Proof.
  intros (pre & -> & H). exists (length pre). rewrite app_length, firstn_pre. auto.
Qed.

(* sum of the weights of the elements of a list *)
Fixpoint wsum {A} (w : A -> nat) (xs : list A) : nat :=
  match xs with
  | [] => 0
  | x :: t => w x + wsum w t
  end.

Lemma wsum_const {A} (c : nat) (xs : list A) : wsum (fun _ => c) xs = c * length xs.
Proof. induction xs as [|x t IH]; cbn [wsum length]; lia. Qed.

Lemma wsum_S {A} (w : A -> nat) (xs : list A) :
  wsum (fun x => S (w x)) xs = length xs + wsum w xs.
Proof. induction xs as [|x t IH]; cbn [wsum length]; lia. Qed.

Lemma wsum_length_concat (xs : list bytes) : wsum (@length N) xs = length (concat xs).
Proof. induction xs as [|x t IH]; cbn [wsum concat]; [reflexivity|]. rewrite app_length. lia. Qed.

Lemma wsum_app {A} (w : A -> nat) (a b : list A) : wsum w (a ++ b) = wsum w a + wsum w b.
Proof. induction a as [|x t IH]; cbn [wsum app]; lia. Qed.

(* ================================================================ a. LEB128 readers *)
(* storage/parse/leb128.rs [leb128_u64] *)
Lemma uleb_dec_cost l v r :
  uleb_dec l = Ok (v, r) ->
  exists k, 1 <= k <= 10 /\ length l = k + length r /\ l = firstn k l ++ r.
Proof. intros H. apply rest_to_k. eapply uleb_dec_rest. exact H. Qed.

Lemma uleb_dec_value l v r : wf_bytes l -> uleb_dec l = Ok (v, r) -> (v < pow64)%N.
Proof. intros Hwf H. apply uleb_canonical in H; [|exact Hwf]. tauto. Qed.

Lemma uleb_dec_u32_cost l v r :
  uleb_dec_u32 l = Ok (v, r) ->
  (v <= u32_max)%N /\ exists k, 1 <= k <= 10 /\ length l = k + length r /\ l = firstn k l ++ r.
Proof.
  unfold uleb_dec_u32. intros H.
  destruct (uleb_dec l) as [[v' r']| |] eqn:E; cbn [bind] in H; try discriminate.
  destruct (v' <=? u32_max)%N eqn:Ev; [|discriminate]. inversion H; subst.
  split; [lia|]. eapply uleb_dec_cost. exact E.
Qed.

(* storage/parse/leb128.rs [leb128_i64] *)
Lemma sdec_rest f : forall prev l n rest,
  sdec prev f l = Ok (n, rest) -> exists pre, l = pre ++ rest /\ 1 <= length pre <= f.
Proof.
  induction f as [|f IH]; intros prev l n rest H; [discriminate|].
  cbn [sdec] in H. destruct l as [|b t]; [discriminate|].
  destruct (b <? 128)%N.
  - destruct (Nat.eqb f 0 && negb (b =? 0)%N && negb (b =? 127)%N); [discriminate|].
    assert (rest = t) as ->.
    { destruct prev as [p|].
      - destruct (((b =? 0)%N && negb (bit6 p)) || ((b =? 127)%N && bit6 p)); [discriminate|].
        inversion H; reflexivity.
      - inversion H; reflexivity. }
    exists [b]. cbn [app length]. split; [reflexivity|lia].
  - destruct (Nat.eqb f 0); [discriminate|].
    destruct (sdec (Some b) f t) as [[v r]| |] eqn:Ed; cbn [bind] in H; try discriminate.
    inversion H; subst. apply IH in Ed. destruct Ed as (pre & -> & Hl).
    exists (b :: pre). cbn [app length]. split; [reflexivity|lia].
Qed.

Lemma sleb_dec_cost l v r :
  sleb_dec l = Ok (v, r) ->
  exists k, 1 <= k <= 10 /\ length l = k + length r /\ l = firstn k l ++ r.
Proof. intros H. apply rest_to_k. eapply sdec_rest. exact H. Qed.

Lemma sleb_dec_value l v r : wf_bytes l -> sleb_dec l = Ok (v, r) -> Sleb128.in_i64 v.
Proof. intros Hwf H. apply sleb_canonical in H; [|exact Hwf]. tauto. Qed.

(* hexane: the `leb128` crate's readers.  They accept over-long encodings but the loop still
   stops at the tenth byte (shift = 63): the same 1..10 bound holds *)
Lemma hudec_rest_le f : forall l n rest,
  hudec f l = Some (n, rest) -> exists pre, l = pre ++ rest /\ 1 <= length pre <= f.
Proof.
  induction f as [|f IH]; intros l n rest H; [discriminate|].
  cbn [hudec] in H. destruct l as [|b t]; [discriminate|].
  destruct (Nat.eqb f 0).
  - destruct ((b =? 0)%N || (b =? 1)%N); [|discriminate]. inversion H; subst.
    exists [n]. cbn [app length]. split; [reflexivity|lia].
  - destruct (b <? 128)%N.
    + inversion H; subst. exists [n]. cbn [app length]. split; [reflexivity|lia].
    + destruct (hudec f t) as [[v r]|] eqn:Ed; [|discriminate]. inversion H; subst.
      apply IH in Ed. destruct Ed as (pre & -> & Hl). exists (b :: pre). cbn [app length].
      split; [reflexivity|lia].
Qed.

Lemma hleb_u_cost l v r :
  hleb_u l = Some (v, r) ->
  exists k, 1 <= k <= 10 /\ length l = k + length r /\ l = firstn k l ++ r.
Proof. intros H. apply rest_to_k. eapply hudec_rest_le. exact H. Qed.

Lemma hsdec_rest_le f : forall l n rest,
  hsdec f l = Some (n, rest) -> exists pre, l = pre ++ rest /\ 1 <= length pre <= f.
Proof.
  induction f as [|f IH]; intros l n rest H; [discriminate|].
  cbn [hsdec] in H. destruct l as [|b t]; [discriminate|].
  destruct (Nat.eqb f 0).
  - destruct (b =? 0)%N.
    { inversion H; subst. exists [b]. cbn [app length]. split; [reflexivity|lia]. }
    destruct (b =? 127)%N; [|discriminate].
    inversion H; subst. exists [b]. cbn [app length]. split; [reflexivity|lia].
  - destruct (b <? 128)%N.
    + inversion H; subst. exists [b]. cbn [app length]. split; [reflexivity|lia].
    + destruct (hsdec f t) as [[v r]|] eqn:Ed; [|discriminate]. inversion H; subst.
      apply IH in Ed. destruct Ed as (pre & -> & Hl). exists (b :: pre). cbn [app length].
      split; [reflexivity|lia].
Qed.

Lemma hleb_s_cost l v r :
  hleb_s l = Some (v, r) ->
  exists k, 1 <= k <= 10 /\ length l = k + length r /\ l = firstn k l ++ r.
Proof. intros H. apply rest_to_k. eapply hsdec_rest_le. exact H. Qed.

Lemma hleb_u_value l v r : wf_bytes l -> hleb_u l = Some (v, r) -> (v < pow64)%N.
Proof. apply hleb_u_range. Qed.

Lemma hleb_s_value l v r : wf_bytes l -> hleb_s l = Some (v, r) -> Hleb.in_i64 v.
Proof. apply hleb_s_range. Qed.

(* ================================================================ b. length_prefixed_bytes *)
Lemma btake_len {A} n (l a r : list A) :
  Bloom.take_N n l = Some (a, r) -> l = a ++ r /\ N.of_nat (length a) = n.
Proof. apply BloomProofs.take_N_sound. Qed.

Lemma ctake_len n (l a r : bytes) :
  Chunk.take_N n l = Some (a, r) -> l = a ++ r /\ N.of_nat (length a) = n.
Proof. intros H. apply ChunkProofs.take_N_spec in H. exact H. Qed.

(* the bytes handed out are present in the input, besides the (at least one byte of) prefix *)
Lemma lpb_cost i b r :
  length_prefixed_bytes i = Ok (b, r) -> length b + length r + 1 <= length i.
Proof.
  unfold length_prefixed_bytes. intros H.
  destruct (uleb_dec i) as [[len i1]| |] eqn:E; cbn [bind] in H; try discriminate.
  destruct (Bloom.take_N len i1) as [[b' i2]|] eqn:T; [|discriminate]. inversion H; subst.
  apply uleb_dec_rest in E. destruct E as (pre & -> & Hp).
  apply btake_len in T. destruct T as [-> _]. rewrite !app_length. lia.
Qed.

(* a declared length beyond the remaining input is an error *)
Lemma lpb_overlong i n i' :
  uleb_dec i = Ok (n, i') -> (Bloom.lenN i' < n)%N -> length_prefixed_bytes i = Err.
Proof.
  intros E H. unfold length_prefixed_bytes. rewrite E. cbn [bind]. unfold Bloom.take_N.
  assert ((Bloom.lenN i' <? n)%N = true) as -> by lia. reflexivity.
Qed.

(* ================================================================ c. read_many / length_prefixed *)
Section ManyCost.
  Context {A : Type} (item : bytes -> res (A * bytes)) (w : A -> nat).
  Hypothesis Hw : forall i x r, item i = Ok (x, r) -> w x + length r <= length i.

  Lemma read_many_cost : forall fuel count i xs r,
    read_many item fuel count i = Ok (xs, r) ->
    wsum w xs + length r <= length i /\ N.of_nat (length xs) = count.
  Proof.
    induction fuel as [|f IH]; intros count i xs r H; cbn [read_many] in H;
      destruct (count =? 0)%N eqn:Ec.
    - inversion H; subst. cbn [wsum length]. lia.
    - discriminate.
    - inversion H; subst. cbn [wsum length]. lia.
    - destruct (item i) as [[y s]| |] eqn:E; cbn [bind] in H; try discriminate.
      destruct (read_many item f (count - 1) s) as [[ys s2]| |] eqn:E2; cbn [bind] in H; try discriminate.
      inversion H; subst. apply IH in E2. apply Hw in E. cbn [wsum length]. lia.
  Qed.

  Lemma length_prefixed_cost i xs r :
    length_prefixed item i = Ok (xs, r) -> wsum w xs + length r + 1 <= length i.
  Proof.
    unfold length_prefixed. intros H.
    destruct (uleb_dec i) as [[count i1]| |] eqn:E; cbn [bind] in H; try discriminate.
    apply uleb_dec_rest in E. destruct E as (pre & -> & Hp). rewrite app_length.
    apply read_many_cost in H. lia.
  Qed.
End ManyCost.

Section ManyIters.
  Context {A : Type} (item : bytes -> res (A * bytes)).
  Hypothesis Hc : consumes item.

  (* [consumes] is [Hw] for the weight 1 *)
  Lemma consumes_w1 : forall i x r, item i = Ok (x, r) -> (fun _ : A => 1) x + length r <= length i.
  Proof. intros i x r H. apply Hc in H. cbn beta. lia. Qed.

  (* elements pushed + bytes left <= bytes given, whatever count the wire declares *)
  Lemma read_many_len fuel count i xs r :
    read_many item fuel count i = Ok (xs, r) -> length xs + length r <= length i.
  Proof.
    intros H. apply (read_many_cost item _ consumes_w1) in H. rewrite wsum_const in H. lia.
  Qed.

  Lemma length_prefixed_len i xs r :
    length_prefixed item i = Ok (xs, r) -> length xs + length r + 1 <= length i.
  Proof.
    intros H. apply (length_prefixed_cost item _ consumes_w1) in H. rewrite wsum_const in H. lia.
  Qed.

  (* a declared count above the number of remaining bytes never succeeds *)
  Lemma read_many_overcount fuel count i xs r :
    (Bloom.lenN i < count)%N -> read_many item fuel count i <> Ok (xs, r).
  Proof.
    intros Hn H. pose proof (read_many_len _ _ _ _ _ H) as Hl.
    apply (read_many_cost item _ consumes_w1) in H. unfold Bloom.lenN in Hn. lia.
  Qed.

  (* the loop itself: number of calls of [item] made by [read_many], successful or not
     (an instrumented copy of [read_many]: same tests, same recursion) *)
  Fixpoint read_many_iters (fuel : nat) (count : N) (i : bytes) : nat :=
    if (count =? 0)%N then 0
    else match fuel with
         | O => 0
         | S f =>
           match item i with
           | Ok (_, i') => S (read_many_iters f (count - 1) i')
           | _ => 1
           end
         end.

  (* at most one iteration per input byte, plus the failing one: a count of 2^64-1 declared in
     ten bytes is rejected after at most |input| + 1 calls of [item] *)
  Lemma read_many_iters_bound : forall fuel count i,
    read_many_iters fuel count i <= S (length i) /\ (N.of_nat (read_many_iters fuel count i) <= count)%N.
  Proof.
    induction fuel as [|f IH]; intros count i; cbn [read_many_iters];
      destruct (count =? 0)%N eqn:Ec; try (split; lia).
    destruct (item i) as [[x i']| |] eqn:E; try (split; lia).
    apply Hc in E. specialize (IH (count - 1)%N i'). split; lia.
  Qed.

  (* a successful run made exactly one call per element *)
  Lemma read_many_iters_ok : forall fuel count i xs r,
    read_many item fuel count i = Ok (xs, r) -> read_many_iters fuel count i = length xs.
  Proof.
    induction fuel as [|f IH]; intros count i xs r H; cbn [read_many read_many_iters] in *;
      destruct (count =? 0)%N eqn:Ec; try (inversion H; subst; reflexivity); try discriminate.
    destruct (item i) as [[y s]| |] eqn:E; cbn [bind] in H; try discriminate.
    destruct (read_many item f (count - 1) s) as [[ys s2]| |] eqn:E2; cbn [bind] in H; try discriminate.
    inversion H; subst. cbn [length]. f_equal. eapply IH. exact E2.
  Qed.
End ManyIters.

Lemma read_many_forall {A} (item : bytes -> res (A * bytes)) (P : A -> Prop) :
  (forall i x r, item i = Ok (x, r) -> P x) ->
  forall fuel count i xs r, read_many item fuel count i = Ok (xs, r) -> Forall P xs.
Proof.
  intros HP. induction fuel as [|f IH]; intros count i xs r H; cbn [read_many] in H;
    destruct (count =? 0)%N; try (inversion H; subst; constructor); try discriminate.
  destruct (item i) as [[y s]| |] eqn:E; cbn [bind] in H; try discriminate.
  destruct (read_many item f (count - 1) s) as [[ys s2]| |] eqn:E2; cbn [bind] in H; try discriminate.
  inversion H; subst. constructor; [eapply HP; exact E|eapply IH; exact E2].
Qed.

Lemma length_prefixed_forall {A} (item : bytes -> res (A * bytes)) (P : A -> Prop) :
  (forall i x r, item i = Ok (x, r) -> P x) ->
  forall i xs r, length_prefixed item i = Ok (xs, r) -> Forall P xs.
Proof.
  intros HP i xs r H. unfold length_prefixed in H.
  destruct (uleb_dec i) as [[count i1]| |]; cbn [bind] in H; try discriminate.
  eapply read_many_forall; eauto.
Qed.

(* ---- the three item parsers of the sync codec ---- *)
(* a hash is exactly 32 bytes of the input *)
Lemma change_hash_cost i h r :
  change_hash i = Ok (h, r) -> length h = 32 /\ length i = 32 + length r.
Proof.
  unfold change_hash. intros H.
  destruct (Bloom.take_N Consts.HASH_SIZE i) as [[h' r']|] eqn:E; [|discriminate].
  destruct (Bloom.lenN h' =? Consts.HASH_SIZE)%N; [|discriminate]. inversion H; subst.
  apply btake_len in E. destruct E as [-> E]. rewrite app_length.
  change Consts.HASH_SIZE with 32%N in E. lia.
Qed.

Lemma change_hash_w32 : forall i x r, change_hash i = Ok (x, r) -> (fun _ : bytes => 32) x + length r <= length i.
Proof. intros i x r H. apply change_hash_cost in H. cbn beta. lia. Qed.

Lemma lpb_wlen : forall i x r,
  length_prefixed_bytes i = Ok (x, r) -> (fun c : bytes => S (length c)) x + length r <= length i.
Proof. intros i x r H. apply lpb_cost in H. cbn beta. lia. Qed.

(* hashes: 32 bytes each *)
Lemma parse_hashes_cost i hs r :
  parse_hashes i = Ok (hs, r) ->
  32 * length hs + length r + 1 <= length i /\ Forall (fun h => length h = 32) hs.
Proof.
  intros H. split.
  - apply (length_prefixed_cost change_hash _ change_hash_w32) in H. rewrite wsum_const in H. lia.
  - eapply (length_prefixed_forall change_hash); [|exact H].
    intros j x s Hj. apply change_hash_cost in Hj. tauto.
Qed.

(* a count of hashes that the remaining input cannot hold is rejected *)
Lemma parse_hashes_overcount i n i' :
  uleb_dec i = Ok (n, i') -> (Bloom.lenN i' < 32 * n)%N -> forall hs r, parse_hashes i <> Ok (hs, r).
Proof.
  intros E Hn hs r H. unfold parse_hashes, length_prefixed in H. rewrite E in H. cbn [bind] in H.
  apply (read_many_cost change_hash _ change_hash_w32) in H. rewrite wsum_const in H.
  unfold Bloom.lenN in Hn. lia.
Qed.

(* ================================================================ e. Bloom filter *)
(* [BloomFilter::parse]: the bit array is [bits_capacity entries bits_per_entry] bytes TAKEN from
   the input, so entries * bits_per_entry is bounded by the bytes present; the probe count is at
   most the number of bits (fix 6de6d80cd), so a query costs at most 8 * |input| steps *)
Lemma bloom_parse_shape bs f rest :
  Bloom.parse bs = Ok (f, rest) ->
  length (f_bits f) + length rest <= length bs
  /\ bits_capacity (f_entries f) (f_bpe f) = Bloom.lenN (f_bits f)
  /\ (f_bits f = [] \/ (f_probes f <= 8 * Bloom.lenN (f_bits f))%N).
Proof.
  unfold Bloom.parse. destruct bs as [|b0 bt] eqn:Eb.
  { intros H; inversion H; subst. cbn. split; [lia|]. split; [reflexivity|auto]. }
  rewrite <- Eb. clear Eb b0 bt. unfold uleb_dec_u32.
  destruct (uleb_dec bs) as [[e i1]| |] eqn:E1; cbn [bind]; try discriminate.
  destruct (e <=? u32_max)%N; cbn [bind]; try discriminate.
  destruct (uleb_dec i1) as [[b i2]| |] eqn:E2; cbn [bind]; try discriminate.
  destruct (b <=? u32_max)%N; cbn [bind]; try discriminate.
  destruct (uleb_dec i2) as [[p i3]| |] eqn:E3; cbn [bind]; try discriminate.
  destruct (p <=? u32_max)%N; cbn [bind]; try discriminate.
  destruct (Bloom.take_N (bits_capacity e b) i3) as [[bits r]|] eqn:E4; try discriminate.
  destruct (negb (nil_b bits) && (8 * Bloom.lenN bits <? p)%N) eqn:E5; try discriminate.
  intros H; inversion H; subst; clear H. cbn [f_bits f_entries f_bpe f_probes].
  apply uleb_dec_rest in E1, E2, E3.
  destruct E1 as (p1 & -> & _), E2 as (p2 & -> & _), E3 as (p3 & -> & _).
  apply btake_len in E4. destruct E4 as [-> E4]. rewrite !app_length.
  split; [lia|]. split; [unfold Bloom.lenN; lia|].
  destruct bits as [|x t]; [left; reflexivity|right]. cbn [nil_b negb andb] in E5. lia.
Qed.

Lemma bloom_parse_cost bs f rest :
  Bloom.parse bs = Ok (f, rest) ->
  (Bloom.lenN (f_bits f) + Bloom.lenN rest <= Bloom.lenN bs)%N
  /\ (f_bits f = [] \/ (f_probes f <= 8 * Bloom.lenN (f_bits f))%N)
  /\ (query_steps f <= 8 * Bloom.lenN bs)%N.
Proof.
  intros H. pose proof (bloom_query_cost _ _ _ H) as Hq.
  apply bloom_parse_shape in H. destruct H as (H1 & _ & H3).
  split; [unfold Bloom.lenN; lia|]. split; [exact H3|exact Hq].
Qed.

Lemma bloom_parse_capacity bs f rest :
  Bloom.parse bs = Ok (f, rest) ->
  bits_capacity (f_entries f) (f_bpe f) = Bloom.lenN (f_bits f)
  /\ (f_entries f * f_bpe f <= 8 * Bloom.lenN bs)%N.
Proof.
  intros H. apply bloom_parse_shape in H. destruct H as (H1 & H2 & _).
  split; [exact H2|]. unfold bits_capacity in H2. unfold Bloom.lenN in *.
  assert (N.of_nat (length (f_bits f)) <= N.of_nat (length bs))%N by lia.
  set (eb := (f_entries f * f_bpe f)%N) in *. lia.
Qed.

(* declared sizes that the input cannot hold are rejected before anything is built: a bit array
   longer than the remaining input, or more probes than bits *)
Lemma bloom_parse_overdeclared bs e b p i1 i2 i3 :
  bs <> [] ->
  uleb_dec_u32 bs = Ok (e, i1) -> uleb_dec_u32 i1 = Ok (b, i2) -> uleb_dec_u32 i2 = Ok (p, i3) ->
  (Bloom.lenN i3 < bits_capacity e b)%N
  \/ (bits_capacity e b <> 0 /\ 8 * bits_capacity e b < p)%N ->
  Bloom.parse bs = Err.
Proof.
  intros Hne E1 E2 E3 Hbad. unfold Bloom.parse. destruct bs as [|b0 bt]; [congruence|].
  rewrite E1. cbn [bind]. rewrite E2. cbn [bind]. rewrite E3. cbn [bind].
  destruct (Bloom.take_N (bits_capacity e b) i3) as [[bits r]|] eqn:E4; [|reflexivity].
  apply btake_len in E4. destruct E4 as [-> E4].
  destruct Hbad as [Hbad|(Hc & Hp)].
  - exfalso. unfold Bloom.lenN in Hbad. rewrite app_length in Hbad. lia.
  - destruct bits as [|x t]; [cbn [length] in E4; lia|]. cbn [nil_b negb andb].
    assert ((8 * Bloom.lenN (x :: t) <? p)%N = true) as -> by (unfold Bloom.lenN; lia).
    reflexivity.
Qed.

(* [get_probes]: the Vec of probes has max(probes, 1) elements *)
Lemma probes_of_length len p h ps :
  probes_of len p h = Ok ps -> Bloom.lenN ps = N.max p 1.
Proof.
  unfold probes_of. destruct (pow32 <=? 8 * len)%N; [discriminate|].
  destruct (8 * len =? 0)%N; [discriminate|].
  set (m := (8 * len)%N). set (z := (le32 h 8 mod m)%N).
  set (init := Ok ((le32 h 0 mod m)%N, (le32 h 4 mod m)%N, [(le32 h 0 mod m)%N])).
  assert (Hinv : forall n x y acc,
            N.iter n (probe_step m z) init = Ok (x, y, acc) -> Bloom.lenN acc = (n + 1)%N).
  { intros n. induction n as [|n IH] using N.peano_ind; intros x y acc Hn.
    - cbn in Hn. unfold init in Hn. inversion Hn; subst. reflexivity.
    - rewrite N.iter_succ in Hn. unfold probe_step in Hn at 1.
      destruct (N.iter n (probe_step m z) init) as [[[x' y'] acc']| |] eqn:En; cbn [bind] in Hn; try discriminate.
      destruct ((pow32 <=? x' + y')%N || (pow32 <=? y' + z)%N); [discriminate|].
      inversion Hn; subst. specialize (IH _ _ _ eq_refl). unfold Bloom.lenN in *. cbn [length]. lia. }
  destruct (N.iter (p - 1) (probe_step m z) init) as [[[x y] acc]| |] eqn:En; cbn [bind]; try discriminate.
  intros H; inversion H; subst. apply Hinv in En. unfold Bloom.lenN in *. rewrite rev_length. lia.
Qed.

(* the probe list built by one [contains_hash] on a decoded filter is at most 8 * |input| long *)
Lemma bloom_contains_probes bs f rest h ps :
  Bloom.parse bs = Ok (f, rest) -> f_bits f <> [] -> get_probes f h = Ok ps ->
  Bloom.lenN ps = N.max (f_probes f) 1 /\ (Bloom.lenN ps <= 8 * Bloom.lenN bs)%N.
Proof.
  intros Hp Hne Hg. unfold get_probes in Hg. apply probes_of_length in Hg. split; [exact Hg|].
  apply bloom_parse_shape in Hp. destruct Hp as (H1 & _ & [H3|H3]); [congruence|].
  destruct (f_bits f) as [|x t]; [congruence|]. unfold Bloom.lenN in *. cbn [length] in *. lia.
Qed.

(* ================================================================ d. sync message / state *)
(* bytes held by a decoded Have: its hashes and the bit array of its Bloom filter *)
Definition have_size (h : have) : nat :=
  32 * length (h_last_sync h) + length (f_bits (h_bloom h)).

Lemma parse_have_cost i h r :
  parse_have i = Ok (h, r) -> have_size h + length r + 2 <= length i.
Proof.
  unfold parse_have. intros H.
  destruct (parse_hashes i) as [[ls i1]| |] eqn:E1; cbn [bind] in H; try discriminate.
  destruct (length_prefixed_bytes i1) as [[bb i2]| |] eqn:E2; cbn [bind] in H; try discriminate.
  destruct (Bloom.parse bb) as [[f y]| |] eqn:E3; cbn [bind] in H; try discriminate.
  inversion H; subst. unfold have_size. cbn [h_last_sync h_bloom].
  apply parse_hashes_cost in E1. destruct E1 as [E1 _]. apply lpb_cost in E2.
  apply bloom_parse_shape in E3. destruct E3 as (E3 & _). lia.
Qed.

Lemma parse_have_w : forall i x r,
  parse_have i = Ok (x, r) -> (fun h : have => S (have_size h)) x + length r <= length i.
Proof. intros i x r H. apply parse_have_cost in H. cbn beta. lia. Qed.

(* what a decoded message holds: one unit per element of the four Vecs, 32 bytes per hash, the
   Bloom bit arrays, the bytes of the changes *)
Definition haves_size (hs : list have) : nat := wsum (fun h => S (have_size h)) hs.
Definition changes_size (cs : list bytes) : nat := wsum (fun c : bytes => S (length c)) cs.
Definition msg_size (m : message) : nat :=
  32 * length (m_heads m) + 32 * length (m_need m) + haves_size (m_have m) + changes_size (m_changes m).

Lemma haves_size_eq hs : haves_size hs = length hs + wsum have_size hs.
Proof. apply wsum_S. Qed.

Lemma changes_size_eq cs : changes_size cs = length cs + length (concat cs).
Proof. unfold changes_size. rewrite wsum_S, wsum_length_concat. reflexivity. Qed.

Lemma message_parse_cost i m r :
  message_parse i = Ok (m, r) -> msg_size m + length r + 5 <= length i.
Proof.
  unfold message_parse. intros H.
  destruct (version_parse i) as [[v i0]| |] eqn:E0; cbn [bind] in H; try discriminate.
  destruct (parse_hashes i0) as [[heads i1]| |] eqn:E1; cbn [bind] in H; try discriminate.
  destruct (parse_hashes i1) as [[need i2]| |] eqn:E2; cbn [bind] in H; try discriminate.
  destruct (length_prefixed parse_have i2) as [[hv i3]| |] eqn:E3; cbn [bind] in H; try discriminate.
  destruct (length_prefixed length_prefixed_bytes i3) as [[chs i4]| |] eqn:E4; cbn [bind] in H; try discriminate.
  assert (Hfl : length r <= length i4 /\ m = mkMsg heads need hv chs (m_flags m) v).
  { destruct i4 as [|c i4'].
    - cbn [bind] in H. inversion H; subst. cbn [m_flags]. split; [lia|reflexivity].
    - destruct (length_prefixed_bytes (c :: i4')) as [[raw i5]| |] eqn:E5; cbn [bind] in H; try discriminate.
      inversion H; subst. cbn [m_flags]. apply lpb_cost in E5. split; [lia|reflexivity]. }
  destruct Hfl as [Hr ->]. unfold msg_size, haves_size, changes_size. cbn [m_heads m_need m_have m_changes].
  assert (length i = 1 + length i0).
  { unfold version_parse in E0. destruct i as [|b t]; [discriminate|].
    destruct (b =? MESSAGE_TYPE_SYNC)%N; [inversion E0; subst; reflexivity|].
    destruct (b =? MESSAGE_TYPE_SYNC_V2)%N; [inversion E0; subst; reflexivity|discriminate]. }
  apply parse_hashes_cost in E1, E2. destruct E1 as [E1 _], E2 as [E2 _].
  apply (length_prefixed_cost parse_have _ parse_have_w) in E3.
  apply (length_prefixed_cost length_prefixed_bytes _ lpb_wlen) in E4. lia.
Qed.

Lemma message_decode_cost i m : message_decode i = Ok m -> msg_size m + 5 <= length i.
Proof.
  unfold message_decode. intros H.
  destruct (message_parse i) as [[m' r]| |] eqn:E; cbn [bind] in H; try discriminate.
  inversion H; subst. apply message_parse_cost in E. lia.
Qed.

(* the four Vecs together have at most |input| elements; the bytes of the changes and of the
   Bloom bit arrays are at most |input| *)
Lemma message_decode_counts i m :
  message_decode i = Ok m ->
  length (m_heads m) + length (m_need m) + length (m_have m) + length (m_changes m) <= length i
  /\ length (concat (m_changes m)) + wsum have_size (m_have m) <= length i.
Proof.
  intros H. apply message_decode_cost in H. unfold msg_size in H.
  rewrite haves_size_eq, changes_size_eq in H. lia.
Qed.

(* a decoded sync state holds the shared heads only, 32 bytes each *)
Lemma state_decode_cost i s :
  state_decode i = Ok s ->
  32 * length (s_shared_heads s) + 2 <= length i /\ s = state_persisted (s_shared_heads s).
Proof.
  unfold state_decode. intros H. destruct i as [|b t]; [discriminate|].
  destruct (negb (b =? SYNC_STATE_TYPE)%N); [discriminate|].
  destruct (parse_hashes t) as [[hs r]| |] eqn:E; cbn [bind] in H; try discriminate.
  inversion H; subst. cbn [s_shared_heads state_persisted]. apply parse_hashes_cost in E.
  destruct E as [E _]. cbn [length]. split; [lia|reflexivity].
Qed.

(* ================================================================ g. change chunk body *)
Lemma p_take_cost n i a r :
  p_take n i = Ok (a, r) -> N.of_nat (length a) = n /\ length i = length a + length r.
Proof.
  intros H. apply p_take_spec in H. destruct H as [-> H]. rewrite app_length.
  unfold Chunk.lenN in H. split; [exact H|reflexivity].
Qed.

(* a length the input does not hold is an error *)
Lemma p_take_overlong n i : (Chunk.lenN i < n)%N -> p_take n i = Err.
Proof.
  intros H. unfold p_take, Chunk.take_N. assert ((Chunk.lenN i <? n)%N = true) as -> by lia. reflexivity.
Qed.

Lemma p_hash_cost i h r : p_hash i = Ok (h, r) -> length h = 32 /\ length i = 32 + length r.
Proof.
  unfold p_hash. intros H. apply p_take_cost in H. change ChangeChunk.HASH_SIZE with 32%N in H. lia.
Qed.

Lemma p_lpbytes_cost i a r : p_lpbytes i = Ok (a, r) -> length a + length r + 1 <= length i.
Proof.
  unfold p_lpbytes. intros H.
  destruct (uleb_dec i) as [[n i1]| |] eqn:E; cbn [bind] in H; try discriminate.
  apply uleb_dec_rest in E. destruct E as (pre & -> & Hp). apply p_take_cost in H.
  rewrite app_length. lia.
Qed.

Lemma p_lpbytes_overlong i n i' :
  uleb_dec i = Ok (n, i') -> (Chunk.lenN i' < n)%N -> p_lpbytes i = Err.
Proof. intros E H. unfold p_lpbytes. rewrite E. cbn [bind]. apply p_take_overlong, H. Qed.

Lemma p_nonzero_cost i n r : p_nonzero i = Ok (n, r) -> length r + 1 <= length i.
Proof.
  unfold p_nonzero. intros H.
  destruct (uleb_dec i) as [[n' i1]| |] eqn:E; cbn [bind] in H; try discriminate.
  destruct (n' =? 0)%N; [discriminate|]. inversion H; subst.
  apply uleb_dec_rest in E. destruct E as (pre & -> & Hp). rewrite app_length. lia.
Qed.

Lemma p_colpair_cost i c r : p_colpair i = Ok (c, r) -> length r + 2 <= length i.
Proof.
  unfold p_colpair, uleb_dec_u32. intros H.
  destruct (uleb_dec i) as [[s i1]| |] eqn:E1; cbn [bind] in H; try discriminate.
  destruct (s <=? u32_max)%N; cbn [bind] in H; try discriminate.
  destruct (uleb_dec i1) as [[l i2]| |] eqn:E2; cbn [bind] in H; try discriminate.
  inversion H; subst. apply uleb_dec_rest in E1, E2.
  destruct E1 as (p1 & -> & H1), E2 as (p2 & -> & H2). rewrite !app_length. lia.
Qed.

Section RepCost.
  Context {A : Type} (p : bytes -> res (A * bytes)) (w : A -> nat).
  Hypothesis Hw : forall i x r, p i = Ok (x, r) -> w x + length r <= length i.

  Lemma rep_nat_cost n : forall i xs r,
    rep_nat p n i = Ok (xs, r) -> wsum w xs + length r <= length i /\ length xs = n.
  Proof.
    induction n as [|n IH]; intros i xs r H; cbn [rep_nat] in H.
    - inversion H; subst. cbn [wsum length]. lia.
    - destruct (p i) as [[x i1]| |] eqn:E; cbn [bind] in H; try discriminate.
      destruct (rep_nat p n i1) as [[t i2]| |] eqn:E2; cbn [bind] in H; try discriminate.
      inversion H; subst. apply IH in E2. apply Hw in E. cbn [wsum length]. lia.
  Qed.

  Lemma p_counted_cost i xs r :
    p_counted p i = Ok (xs, r) -> wsum w xs + length r + 1 <= length i.
  Proof.
    unfold p_counted. intros H.
    destruct (uleb_dec i) as [[n i1]| |] eqn:E; cbn [bind] in H; try discriminate.
    apply uleb_dec_rest in E. destruct E as (pre & -> & Hp). rewrite app_length.
    unfold p_rep in H. destruct (Chunk.lenN i1 <? n)%N; [discriminate|].
    apply rep_nat_cost in H. lia.
  Qed.
End RepCost.

(* The model's [p_rep] rejects a count above the number of remaining bytes at once, where the Rust
   [apply_n] loops.  The loop cannot succeed either: every element consumes a byte, so it ends in
   an error after at most |input| + 1 iterations — the shortcut changes no result. *)
Lemma rep_nat_overcount {A} (p : bytes -> res (A * bytes)) :
  (forall i x r, p i = Ok (x, r) -> length r < length i) -> (forall l, p l <> Panic) ->
  forall n i, length i < n -> rep_nat p n i = Err.
Proof.
  intros Hc Hnp n. induction n as [|n IH]; intros i Hn; [lia|]. cbn [rep_nat].
  pose proof (Hnp i) as Hp. destruct (p i) as [[x i1]| |] eqn:E; cbn [bind]; try congruence.
  apply Hc in E. rewrite IH by lia. reflexivity.
Qed.

Lemma p_hash_w32 : forall i x r, p_hash i = Ok (x, r) -> (fun _ : bytes => 32) x + length r <= length i.
Proof. intros i x r H. apply p_hash_cost in H. cbn beta. lia. Qed.

Lemma p_lpbytes_w : forall i x r,
  p_lpbytes i = Ok (x, r) -> (fun a : bytes => S (length a)) x + length r <= length i.
Proof. intros i x r H. apply p_lpbytes_cost in H. cbn beta. lia. Qed.

Lemma p_colpair_w2 : forall i x r,
  p_colpair i = Ok (x, r) -> (fun _ : N * N => 2) x + length r <= length i.
Proof. intros i x r H. apply p_colpair_cost in H. cbn beta. lia. Qed.

(* column metadata: every declared column is two bytes of input at least *)
Lemma p_columns_cost i cols r :
  p_columns i = Ok (cols, r) -> 2 * length cols + length r + 1 <= length i.
Proof.
  unfold p_columns. intros H.
  destruct (p_counted p_colpair i) as [[raw i1]| |] eqn:E; cbn [bind] in H; try discriminate.
  destruct (negb (normal_sorted (map fst (col_ranges 0 raw)))); [discriminate|].
  inversion H; subst. rewrite col_ranges_length.
  apply (p_counted_cost p_colpair _ p_colpair_w2) in E. rewrite wsum_const in E. lia.
Qed.

Lemma sum_checked_sum : forall ls acc t, sum_checked ls acc = Ok t -> t = (acc + sumN ls)%N.
Proof.
  induction ls as [|l ls IH]; intros acc t H; cbn [sum_checked sumN fold_right] in *.
  - inversion H; subst. lia.
  - destruct (u64_max <? acc + l)%N; [discriminate|]. apply IH in H. fold (sumN ls). lia.
Qed.

(* bytes held by a decoded change body *)
Definition body_size (c : change_body) : nat :=
  32 * length (cb_deps c) + length (cb_actor c) + length (cb_message c)
  + wsum (fun a : bytes => S (length a)) (cb_others c)
  + 2 * length (cb_cols c) + length (cb_data c) + length (cb_extra c).

Lemma parse_body_cost b c :
  parse_body b = Ok c ->
  body_size c + 8 <= length b
  /\ N.of_nat (length (cb_data c)) = sumN (map snd (cb_cols c)).
Proof.
  unfold parse_body. intros H.
  destruct (p_counted p_hash b) as [[deps i1]| |] eqn:E1; cbn [bind] in H; try discriminate.
  destruct (p_lpbytes i1) as [[actor i2]| |] eqn:E2; cbn [bind] in H; try discriminate.
  destruct (uleb_dec i2) as [[seq i3]| |] eqn:E3; cbn [bind] in H; try discriminate.
  destruct (p_nonzero i3) as [[start i4]| |] eqn:E4; cbn [bind] in H; try discriminate.
  destruct (sleb_dec i4) as [[time i5]| |] eqn:E5; cbn [bind] in H; try discriminate.
  destruct (p_lpbytes i5) as [[msg i6]| |] eqn:E6; cbn [bind] in H; try discriminate.
  destruct (negb (utf8_valid msg)); [discriminate|].
  destruct (p_counted p_lpbytes i6) as [[others i7]| |] eqn:E7; cbn [bind] in H; try discriminate.
  destruct (p_columns i7) as [[cols i8]| |] eqn:E8; cbn [bind] in H; try discriminate.
  destruct (sum_checked (map snd cols) 0) as [total| |] eqn:E9; cbn [bind] in H; try discriminate.
  destruct (p_take total i8) as [[data extra]| |] eqn:E10; cbn [bind] in H; try discriminate.
  destruct (existsb spec_deflate (map fst cols)); [discriminate|].
  destruct (negb (layout_ok (map fst cols))); [discriminate|].
  inversion H; subst; clear H. unfold body_size.
  cbn [cb_deps cb_actor cb_message cb_others cb_cols cb_data cb_extra].
  apply (p_counted_cost p_hash _ p_hash_w32) in E1. rewrite wsum_const in E1.
  apply p_lpbytes_cost in E2, E6.
  apply uleb_dec_rest in E3. destruct E3 as (p3 & -> & H3). rewrite app_length in E2.
  apply p_nonzero_cost in E4.
  apply sdec_rest in E5. destruct E5 as (p5 & -> & H5). rewrite app_length in E4.
  apply (p_counted_cost p_lpbytes _ p_lpbytes_w) in E7.
  apply p_columns_cost in E8. apply sum_checked_sum in E9. apply p_take_cost in E10.
  split; [lia|]. lia.
Qed.

(* the counts and lengths individually *)
Lemma parse_body_counts b c :
  parse_body b = Ok c ->
  32 * length (cb_deps c) <= length b /\ length (cb_actor c) <= length b
  /\ length (cb_message c) <= length b
  /\ length (cb_others c) + length (concat (cb_others c)) <= length b
  /\ 2 * length (cb_cols c) <= length b
  /\ (sumN (map snd (cb_cols c)) <= N.of_nat (length b))%N.
Proof.
  intros H. apply parse_body_cost in H. destruct H as [H1 H2]. unfold body_size in H1.
  rewrite wsum_S, wsum_length_concat in H1. repeat split; lia.
Qed.

(* ================================================================ f. ExId / Cursor from bytes *)
Definition exid_size (e : exid) : nat :=
  match e with ERoot => 0 | EId _ a _ => length a end.

(* the actor bytes are taken from the input: tag, length, hint and counter are four more bytes *)
Lemma exid_of_bytes_cost l e :
  exid_of_bytes l = Ok e ->
  exid_size e + 1 <= length l /\ (e <> ERoot -> exid_size e + 4 <= length l).
Proof.
  unfold exid_of_bytes. intros H. destruct l as [|tag i]; [discriminate|].
  destruct (negb (N.land tag 15 =? EXID_VERSION_TAG)%N); [discriminate|].
  destruct (N.shiftr tag 4 =? EXID_TYPE_ROOT)%N.
  { inversion H; subst. cbn [exid_size length]. split; [lia|congruence]. }
  destruct (N.shiftr tag 4 =? EXID_TYPE_ID)%N; [|discriminate].
  destruct (uleb_dec i) as [[len i1]| |] eqn:E1; cbn [bind] in H; try discriminate.
  destruct (Bloom.take_N len i1) as [[a i2]|] eqn:E2; [|discriminate].
  destruct (uleb_dec i2) as [[h i3]| |] eqn:E3; cbn [bind] in H; try discriminate.
  destruct (uleb_dec i3) as [[c i4]| |] eqn:E4; cbn [bind] in H; try discriminate.
  inversion H; subst. cbn [exid_size length].
  apply uleb_dec_rest in E1, E3, E4.
  destruct E1 as (p1 & -> & H1), E3 as (p3 & -> & H3), E4 as (p4 & -> & H4).
  apply btake_len in E2. destruct E2 as [E2 _]. rewrite E2. rewrite !app_length. split; [lia|intros _; lia].
Qed.

Definition cursor_size (c : cursor) : nat :=
  match c with COp _ a _ => length a | _ => 0 end.

Lemma cursor_parse_0_cost i c : cursor_parse_0 i = Ok c -> cursor_size c + 2 <= length i.
Proof.
  unfold cursor_parse_0. intros H.
  destruct (uleb_dec i) as [[len i1]| |] eqn:E1; cbn [bind] in H; try discriminate.
  destruct (Bloom.take_N len i1) as [[a i2]|] eqn:E2; [|discriminate].
  destruct (uleb_dec i2) as [[ctr i3]| |] eqn:E3; cbn [bind] in H; try discriminate.
  inversion H; subst. cbn [cursor_size].
  apply uleb_dec_rest in E1, E3. destruct E1 as (p1 & -> & H1), E3 as (p3 & -> & H3).
  apply btake_len in E2. destruct E2 as [E2 _]. rewrite E2. rewrite !app_length. lia.
Qed.

Lemma cursor_of_bytes_cost l c : cursor_of_bytes l = Ok c -> cursor_size c + 2 <= length l.
Proof.
  unfold cursor_of_bytes. intros H. destruct l as [|version i]; [discriminate|].
  destruct (version =? 0)%N.
  { apply cursor_parse_0_cost in H. cbn [length]. lia. }
  destruct (negb (version =? CURSOR_VERSION_TAG)%N); [discriminate|].
  destruct i as [|ty i]; [discriminate|].
  destruct (ty =? CURSOR_START_TAG)%N; [inversion H; subst; cbn [cursor_size length]; lia|].
  destruct (ty =? CURSOR_END_TAG)%N; [inversion H; subst; cbn [cursor_size length]; lia|].
  destruct (ty =? CURSOR_OP_TAG)%N; [|discriminate].
  destruct (uleb_dec i) as [[len i1]| |] eqn:E1; cbn [bind] in H; try discriminate.
  destruct (Bloom.take_N len i1) as [[a i2]|] eqn:E2; [|discriminate].
  destruct (uleb_dec i2) as [[ctr i3]| |] eqn:E3; cbn [bind] in H; try discriminate.
  destruct i3 as [|mt i4]; [discriminate|].
  assert (Hc : cursor_size c = length a).
  { destruct (mt =? CURSOR_MOVE_AFTER_TAG)%N; [inversion H; subst; reflexivity|].
    destruct (mt =? CURSOR_MOVE_BEFORE_TAG)%N; [inversion H; subst; reflexivity|discriminate]. }
  rewrite Hc. apply uleb_dec_rest in E1, E3. destruct E1 as (p1 & -> & H1), E3 as (p3 & E3 & H3).
  apply btake_len in E2. destruct E2 as [E2 _]. rewrite E2, E3. cbn [length]. rewrite !app_length. lia.
Qed.

(* ================================================================ h. chunk header *)
(* [Header::parse]: the declared data length is present in the input, after the ten bytes of
   magic, checksum, type and (at least one byte of) length *)
Lemma parse_header_cost bs h rest :
  parse_header bs = Ok (h, rest) ->
  length (h_data h) + length rest + 10 <= length bs /\ length (h_checksum h) = 4.
Proof.
  unfold parse_header. intros H.
  destruct (take_n 4 bs) as [[magic i]|] eqn:E1; [|discriminate].
  destruct (negb (bytes_eqb magic MAGIC_BYTES)); [discriminate|].
  destruct (take_n 4 i) as [[ck i2]|] eqn:E2; [|discriminate].
  destruct i2 as [|ty i3]; [discriminate|].
  destruct (negb (valid_type ty)); [discriminate|].
  destruct (uleb_dec i3) as [[len i4]| |] eqn:E3; cbn [bind] in H; try discriminate.
  destruct (Chunk.take_N len i4) as [[data r]|] eqn:E4; [|discriminate].
  inversion H; subst. cbn [h_data h_checksum].
  apply take_n_sound in E1, E2. destruct E1 as [-> L1], E2 as [E2 L2].
  apply uleb_dec_rest in E3. destruct E3 as (p3 & -> & H3).
  apply ctake_len in E4. destruct E4 as [-> _].
  rewrite app_length, E2. rewrite !app_length. cbn [length]. rewrite !app_length. split; [lia|exact L2].
Qed.

(* a declared chunk length beyond the input is an error *)
Lemma parse_header_overlong magic ck ty len i i' :
  length magic = 4 -> length ck = 4 ->
  uleb_dec i = Ok (len, i') -> (Chunk.lenN i' < len)%N ->
  parse_header (magic ++ ck ++ ty :: i) = Err.
Proof.
  intros L1 L2 E Hn. unfold parse_header.
  assert (take_n 4 (magic ++ ck ++ ty :: i) = Some (magic, ck ++ ty :: i)) as ->
    by (apply take_n_spec; auto).
  destruct (negb (bytes_eqb magic MAGIC_BYTES)); [reflexivity|].
  assert (take_n 4 (ck ++ ty :: i) = Some (ck, ty :: i)) as -> by (apply take_n_spec; auto).
  destruct (negb (valid_type ty)); [reflexivity|].
  rewrite E. cbn [bind]. unfold Chunk.take_N.
  assert ((Chunk.lenN i' <? len)%N = true) as -> by lia. reflexivity.
Qed.

(* [Chunk::parse] + checksum test: a chunk that parses consumed at least ten bytes, so the chunk
   loops of [load] / [load_changes] run at most |input| / 10 times *)
Lemma parse_chunk_cost (Hsh : bytes -> bytes) (C : Type) (body : N -> bytes -> option (list C))
  (inflate : bytes -> option bytes) bs ty cs rest :
  parse_chunk Hsh C body inflate bs = Ok (ty, cs, rest) -> length rest + 10 <= length bs.
Proof.
  unfold parse_chunk. intros H.
  destruct (parse_header bs) as [[h r]| |] eqn:E; cbn [bind] in H; try discriminate.
  apply parse_header_cost in E. destruct E as [E _].
  assert (rest = r) as ->; [|lia].
  destruct (h_type h =? CHUNK_COMPRESSED)%N.
  - destruct (inflate (h_data h)) as [plain|]; [|discriminate].
    destruct (body CHUNK_CHANGE plain) as [cs'|]; [|discriminate].
    destruct (bytes_eqb (checksum_of Hsh CHUNK_CHANGE plain) (h_checksum h)); [|discriminate].
    inversion H; reflexivity.
  - destruct (body (h_type h) (h_data h)) as [cs'|]; [|discriminate].
    destruct (bytes_eqb (checksum_of Hsh (h_type h) (h_data h)) (h_checksum h)); [|discriminate].
    inversion H; reflexivity.
Qed.
