(* Codec/CursorCodec.v — cursors: bytes and text.

   Mirrors rust/automerge/src/cursor.rs: [Cursor::to_bytes], [TryFrom<&[u8]> for Cursor]
   (version 1, and the version-0 form read by [parse_0]), [Display for Cursor / OpCursor],
   [Cursor::from_str] behind [TryFrom<&str>], [OpCursor::new] (the actor of the internal id is
   looked up by index: [op_set.actors[id.actor()]]).  Trailing bytes are ignored by the byte
   reader, as in the code. *)
From AM Require Import Base.Prelude Base.Leb128 Gen.Consts Codec.Bloom Codec.Hex Codec.ExId.
Local Open Scope N_scope.

Inductive move_cursor := MBefore | MAfter.

Inductive cursor :=
| CStart
| CEnd
| COp (ctr : N) (actor : bytes) (mv : move_cursor).

Definition move_eqb (a b : move_cursor) : bool :=
  match a, b with MBefore, MBefore => true | MAfter, MAfter => true | _, _ => false end.

Definition cursor_eqb (a b : cursor) : bool :=
  match a, b with
  | CStart, CStart => true
  | CEnd, CEnd => true
  | COp c1 a1 m1, COp c2 a2 m2 => (c1 =? c2) && bytes_eqb a1 a2 && move_eqb m1 m2
  | _, _ => false
  end.

Definition move_tag (m : move_cursor) : N :=
  match m with MBefore => CURSOR_MOVE_BEFORE_TAG | MAfter => CURSOR_MOVE_AFTER_TAG end.

Definition cursor_to_bytes (c : cursor) : bytes :=
  match c with
  | CStart => [CURSOR_VERSION_TAG; CURSOR_START_TAG]
  | CEnd => [CURSOR_VERSION_TAG; CURSOR_END_TAG]
  | COp ctr a m =>
    CURSOR_VERSION_TAG :: CURSOR_OP_TAG :: uleb_enc (lenN a) ++ a ++ uleb_enc ctr ++ [move_tag m]
  end.

Definition cursor_parse_0 (i : bytes) : res cursor :=
  let* (len, i) := uleb_dec i in
  match take_N len i with
  | None => Err
  | Some (a, i) =>
    let* (ctr, _) := uleb_dec i in
    Ok (COp ctr a MAfter)
  end.

Definition cursor_of_bytes (l : bytes) : res cursor :=
  match l with
  | [] => Err
  | version :: i =>
    if version =? 0 then cursor_parse_0 i
    else if negb (version =? CURSOR_VERSION_TAG) then Err
    else
      match i with
      | [] => Err
      | ty :: i =>
        if ty =? CURSOR_START_TAG then Ok CStart
        else if ty =? CURSOR_END_TAG then Ok CEnd
        else if ty =? CURSOR_OP_TAG then
          let* (len, i) := uleb_dec i in
          match take_N len i with
          | None => Err
          | Some (a, i) =>
            let* (ctr, i) := uleb_dec i in
            match i with
            | [] => Err
            | mt :: _ =>
              if mt =? CURSOR_MOVE_AFTER_TAG then Ok (COp ctr a MAfter)
              else if mt =? CURSOR_MOVE_BEFORE_TAG then Ok (COp ctr a MBefore)
              else Err
            end
          end
        else Err
      end
  end.

Definition wf_cursorb (c : cursor) : bool :=
  match c with
  | COp ctr a _ => (ctr <? pow64) && wf_bytesb a && (lenN a <? pow64)
  | _ => true
  end.

(* ---- text ---- *)
Definition cursor_to_str (c : cursor) : str :=
  match c with
  | CStart => STR_S
  | CEnd => STR_E
  | COp ctr a m =>
    (match m with MBefore => [CH_MINUS] | MAfter => [] end) ++ dec_encode ctr ++ CH_AT :: hex_encode a
  end.

(* the branch of [Cursor::from_str] for strings whose length is not 1 *)
Definition cursor_op_of_str (s : str) : res cursor :=
  let '(m, rest) := match s with
                    | c :: t => if c =? CH_MINUS then (MBefore, t) else (MAfter, s)   (* strip_prefix('-') *)
                    | [] => (MAfter, s)
                    end in
  match split_on CH_AT rest with
  | None => Err
  | Some (a, b) =>
    let* ctr := parse_u64 a in
    let* actor := hex_decode b in
    Ok (COp ctr actor m)
  end.

Definition cursor_of_str (s : str) : res cursor :=
  match s with
  | [c] =>                                   (* s.len() == 1 *)
    if c =? 115 then Ok CStart               (* "s" *)
    else if c =? 101 then Ok CEnd            (* "e" *)
    else Err
  | _ => cursor_op_of_str s
  end.

(* OpCursor::new(id, op_set, move_cursor): the cursor of an element with internal id (ctr, idx) *)
Definition cursor_new (t : table) (o : N * N) (m : move_cursor) : res cursor :=
  match get_actor_safe t (snd o) with
  | Some a => Ok (COp (fst o) a m)
  | None => Panic                              (* op_set.actors[id.actor()] *)
  end.
