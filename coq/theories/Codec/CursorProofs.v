(* Codec/CursorProofs.v — cursors: byte and text round trips, decoders never panic. *)
From AM Require Import Base.Prelude Base.Leb128 Gen.Consts Codec.Bloom Codec.BloomProofs
  Codec.Hex Codec.HexProofs Codec.ExId Codec.ExIdProofs Codec.CursorCodec.
Local Open Scope N_scope.

(* closed facts about the generated tags *)
Lemma ver_not_0 : (CURSOR_VERSION_TAG =? 0) = false. Proof. reflexivity. Qed.
Lemma start_is_start : (CURSOR_START_TAG =? CURSOR_START_TAG) = true. Proof. reflexivity. Qed.
Lemma end_not_start : (CURSOR_END_TAG =? CURSOR_START_TAG) = false. Proof. reflexivity. Qed.
Lemma op_not_start : (CURSOR_OP_TAG =? CURSOR_START_TAG) = false. Proof. reflexivity. Qed.
Lemma op_not_end : (CURSOR_OP_TAG =? CURSOR_END_TAG) = false. Proof. reflexivity. Qed.
Lemma before_not_after : (CURSOR_MOVE_BEFORE_TAG =? CURSOR_MOVE_AFTER_TAG) = false. Proof. reflexivity. Qed.

Lemma cursor_bytes_roundtrip_rest c rest :
  wf_cursorb c = true -> cursor_of_bytes (cursor_to_bytes c ++ rest) = Ok c.
Proof.
  destruct c as [| |ctr a m]; intros Hwf.
  - cbn [cursor_to_bytes app cursor_of_bytes]. rewrite ver_not_0, !N.eqb_refl. reflexivity.
  - cbn [cursor_to_bytes app cursor_of_bytes].
    rewrite ver_not_0, N.eqb_refl, end_not_start, N.eqb_refl. reflexivity.
  - cbn [wf_cursorb] in Hwf. repeat (apply andb_true_iff in Hwf; destruct Hwf as [Hwf ?]).
    cbn [cursor_to_bytes app cursor_of_bytes].
    rewrite ver_not_0, N.eqb_refl, op_not_start, op_not_end, N.eqb_refl. cbn [negb].
    rewrite <- !app_assoc.
    rewrite uleb_roundtrip by lia. cbn [bind].
    rewrite take_N_app.
    rewrite uleb_roundtrip by lia. cbn [bind app].
    destruct m; cbn [move_tag].
    + rewrite before_not_after, N.eqb_refl. reflexivity.
    + rewrite N.eqb_refl. reflexivity.
Qed.

Theorem cursor_bytes_roundtrip c : wf_cursorb c = true -> cursor_of_bytes (cursor_to_bytes c) = Ok c.
Proof. intros H. rewrite <- (app_nil_r (cursor_to_bytes c)). apply cursor_bytes_roundtrip_rest, H. Qed.

Lemma cursor_parse_0_no_panic i : cursor_parse_0 i <> Panic.
Proof.
  unfold cursor_parse_0. pose proof (uleb_dec_no_panic i) as P1.
  destruct (uleb_dec i) as [[len i1]| |]; cbn [bind]; try congruence.
  destruct (take_N len i1) as [[a i2]|]; [|discriminate].
  pose proof (uleb_dec_no_panic i2) as P2.
  destruct (uleb_dec i2) as [[c i3]| |]; cbn [bind]; congruence.
Qed.

Lemma cursor_of_bytes_no_panic l : cursor_of_bytes l <> Panic.
Proof.
  unfold cursor_of_bytes. destruct l as [|v i]; [discriminate|].
  destruct (v =? 0); [apply cursor_parse_0_no_panic|].
  destruct (negb (v =? CURSOR_VERSION_TAG)); [discriminate|].
  destruct i as [|ty i]; [discriminate|].
  destruct (ty =? CURSOR_START_TAG); [discriminate|].
  destruct (ty =? CURSOR_END_TAG); [discriminate|].
  destruct (ty =? CURSOR_OP_TAG); [|discriminate].
  pose proof (uleb_dec_no_panic i) as P1.
  destruct (uleb_dec i) as [[len i1]| |]; cbn [bind]; try congruence.
  destruct (take_N len i1) as [[a i2]|]; [|discriminate].
  pose proof (uleb_dec_no_panic i2) as P2.
  destruct (uleb_dec i2) as [[c i3]| |]; cbn [bind]; try congruence.
  destruct i3 as [|mt i3]; [discriminate|].
  destruct (mt =? CURSOR_MOVE_AFTER_TAG); [discriminate|].
  destruct (mt =? CURSOR_MOVE_BEFORE_TAG); discriminate.
Qed.

(* ---- text ---- *)
Lemma cursor_of_str_long s : length s <> 1%nat -> cursor_of_str s = cursor_op_of_str s.
Proof. destruct s as [|a [|b t]]; cbn [length]; intros H; [reflexivity|congruence|reflexivity]. Qed.

Lemma cursor_op_digits ctr a :
  ctr < pow64 -> wf_bytes a ->
  cursor_op_of_str (dec_encode ctr ++ CH_AT :: hex_encode a) = Ok (COp ctr a MAfter).
Proof.
  intros Hc Hwa. unfold cursor_op_of_str.
  pose proof (dec_encode_nonempty ctr) as Hne. pose proof (dec_encode_digits ctr) as F.
  destruct (dec_encode ctr) as [|d r] eqn:Hd; [congruence|].
  inversion F as [|? ? Hdig _]; subst. unfold is_digit in Hdig.
  cbn [app]. assert ((d =? CH_MINUS) = false) as -> by (unfold CH_MINUS; lia).
  change (d :: r ++ CH_AT :: hex_encode a) with ((d :: r) ++ CH_AT :: hex_encode a).
  rewrite <- Hd. rewrite split_on_app by (apply digits_no_at, dec_encode_digits).
  rewrite dec_roundtrip by assumption. cbn [bind].
  rewrite hex_roundtrip by assumption. reflexivity.
Qed.

Theorem cursor_str_roundtrip c : wf_cursorb c = true -> cursor_of_str (cursor_to_str c) = Ok c.
Proof.
  destruct c as [| |ctr a m]; intros Hwf; [reflexivity|reflexivity|].
  cbn [wf_cursorb] in Hwf. repeat (apply andb_true_iff in Hwf; destruct Hwf as [Hwf ?]).
  assert (Hc : ctr < pow64) by lia.
  assert (Hwa : wf_bytes a) by (apply wf_bytesb_spec; assumption).
  pose proof (dec_encode_nonempty ctr) as Hne.
  cbn [cursor_to_str]. rewrite cursor_of_str_long.
  2:{ destruct m; cbn [app length]; rewrite ?app_length; cbn [length];
      destruct (dec_encode ctr); cbn [length]; try congruence; lia. }
  destruct m; cbn [app].
  - unfold cursor_op_of_str. unfold CH_MINUS at 1. rewrite N.eqb_refl.
    pose proof (cursor_op_digits ctr a Hc Hwa) as G. unfold cursor_op_of_str in G.
    destruct (dec_encode ctr) as [|d r] eqn:Hd; [congruence|].
    pose proof (dec_encode_digits ctr) as F. rewrite Hd in F.
    inversion F as [|? ? Hdig _]; subst. unfold is_digit in Hdig.
    cbn [app] in G. assert (E : (d =? CH_MINUS) = false) by (unfold CH_MINUS; lia).
    rewrite E in G. cbn [app].
    destruct (split_on CH_AT (d :: r ++ CH_AT :: hex_encode a)) as [[x y]|]; [|discriminate].
    destruct (parse_u64 x); cbn [bind] in *; try discriminate.
    destruct (hex_decode y); cbn [bind] in *; try discriminate.
    inversion G; subst. reflexivity.
  - apply cursor_op_digits; assumption.
Qed.

Lemma cursor_op_of_str_no_panic s : cursor_op_of_str s <> Panic.
Proof.
  unfold cursor_op_of_str.
  destruct (match s with
            | [] => (MAfter, s)
            | c :: t => if c =? CH_MINUS then (MBefore, t) else (MAfter, s)
            end) as [m rest].
  destruct (split_on CH_AT rest) as [[a b]|]; [|discriminate].
  pose proof (parse_u64_no_panic a). destruct (parse_u64 a); cbn [bind]; try congruence.
  pose proof (hex_decode_no_panic b). destruct (hex_decode b); cbn [bind]; congruence.
Qed.

Lemma cursor_of_str_no_panic s : cursor_of_str s <> Panic.
Proof.
  destruct s as [|c [|d t]]; cbn [cursor_of_str]; try apply cursor_op_of_str_no_panic.
  destruct (c =? 115); [discriminate|]. destruct (c =? 101); discriminate.
Qed.

(* a cursor made by one replica for its element (c, i), sent as bytes or as text, decoded and
   resolved by a replica with another actor table that knows the actor, denotes the same op *)
Theorem cursor_transport tp tq c i a m :
  get_actor_safe tp i = Some a -> c <= u32_max -> wf_bytesb a = true -> lenN a < pow64 ->
  lenN tq <= pow32 -> In a tq ->
  exists cur o, cursor_new tp (c, i) m = Ok cur /\
                cursor_of_bytes (cursor_to_bytes cur) = Ok cur /\
                cursor_of_str (cursor_to_str cur) = Ok cur /\
                cursor_to_opid tq c a = Ok o /\ denote tq o = denote tp (c, i).
Proof.
  intros Hga Hc Hwa Hla Lq Hin.
  destruct (cursor_resolve_denotes tq c a Hc Lq Hin) as (o & Ro & Do).
  assert (Hwf : wf_cursorb (COp c a m) = true).
  { cbn [wf_cursorb]. rewrite Hwa. unfold u32_max, pow64 in *.
    assert ((c <? 18446744073709551616) = true) as -> by lia.
    assert ((lenN a <? 18446744073709551616) = true) as -> by lia. reflexivity. }
  exists (COp c a m), o. split; [|split; [|split; [|split]]].
  - unfold cursor_new. cbn [fst snd]. rewrite Hga. reflexivity.
  - apply cursor_bytes_roundtrip, Hwf.
  - apply cursor_str_roundtrip, Hwf.
  - exact Ro.
  - rewrite Do. unfold denote. cbn [fst snd]. rewrite Hga. reflexivity.
Qed.
