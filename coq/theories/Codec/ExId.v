(* Codec/ExId.v — object ids: bytes, text, resolution against an actor table.

   Mirrors
   * rust/automerge/src/exid.rs [ExId::to_bytes], [TryFrom<&[u8]> for ExId], [Display for ExId],
     [PartialEq for ExId] (the actor-index hint is not compared);
   * rust/automerge/src/automerge.rs [Automerge::import_obj] (text -> ExId against the document's
     actor table), [Automerge::exid_to_opid] (the hint is trusted only if [actors[hint] == actor],
     otherwise the actor is searched), [Automerge::op_cursor_to_opid] without a clock;
   * rust/automerge/src/op_set2/op_set.rs [get_actor_safe] ([actors.get(idx)]), [get_actor]
     ([actors[idx]], a panic when out of range), [lookup_actor] ([actors.binary_search(a).ok()]);
   * rust/automerge/src/types.rs [OpId::new] ([try_into().unwrap()] of counter and actor index
     into u32: [Panic] above u32::MAX).

   An [ExId::Id(ctr, actor, hint)] is [EId ctr actor hint]: note that the wire order is
   actor, HINT, COUNTER (the local variable names in exid.rs are swapped, the order is not).
   [lookup_actor] is modelled by the contract of [slice::binary_search] on the strictly sorted,
   duplicate-free actor table of an OpSet: the index of the element equal to the actor, if any
   ([find_actor]; on a duplicate-free table there is exactly one candidate). *)
From AM Require Import Base.Prelude Base.Leb128 Base.Order Gen.Consts Codec.Bloom Codec.Hex.
Local Open Scope N_scope.

Inductive exid :=
| ERoot
| EId (ctr : N) (actor : bytes) (hint : N).

(* ExId's PartialEq / Eq / Hash / Ord ignore the hint *)
Definition exid_eqb (a b : exid) : bool :=
  match a, b with
  | ERoot, ERoot => true
  | EId c1 a1 _, EId c2 a2 _ => (c1 =? c2) && bytes_eqb a1 a2
  | _, _ => false
  end.

(* exact equality, hint included (what the decoder must reproduce) *)
Definition exid_same (a b : exid) : bool :=
  match a, b with
  | ERoot, ERoot => true
  | EId c1 a1 h1, EId c2 a2 h2 => (c1 =? c2) && bytes_eqb a1 a2 && (h1 =? h2)
  | _, _ => false
  end.

Definition exid_tag (ty : N) : N := N.lor EXID_VERSION_TAG (N.shiftl ty 4).

Definition exid_to_bytes (e : exid) : bytes :=
  match e with
  | ERoot => [exid_tag EXID_TYPE_ROOT]
  | EId c a h => exid_tag EXID_TYPE_ID :: uleb_enc (lenN a) ++ a ++ uleb_enc h ++ uleb_enc c
  end.

Definition exid_of_bytes (l : bytes) : res exid :=
  match l with
  | [] => Err                                            (* NoVersion *)
  | tag :: i =>
    if negb (N.land tag 15 =? EXID_VERSION_TAG) then Err  (* InvalidVersion *)
    else
      let ty := N.shiftr tag 4 in
      if ty =? EXID_TYPE_ROOT then Ok ERoot
      else if ty =? EXID_TYPE_ID then
        let* (len, i) := uleb_dec i in
        match take_N len i with
        | None => Err                                    (* ParseActor *)
        | Some (a, i) =>
          let* (h, i) := uleb_dec i in
          let* (c, _) := uleb_dec i in
          Ok (EId c a h)
        end
      else Err                                           (* InvalidType *)
  end.

(* the values the Rust type can hold: u64 counter, usize hint, Vec<u8> actor *)
Definition wf_exidb (e : exid) : bool :=
  match e with
  | ERoot => true
  | EId c a h => (c <? pow64) && (h <? pow64) && wf_bytesb a && (lenN a <? pow64)
  end.

(* ---- text form ---- *)
Definition exid_to_str (e : exid) : str :=
  match e with
  | ERoot => STR_ROOT
  | EId c a _ => dec_encode c ++ CH_AT :: hex_encode a
  end.

(* ---- the actor table of a replica ---- *)
Definition table := list bytes.

Definition get_actor_safe (t : table) (i : N) : option bytes :=
  if lenN t <=? i then None else nth_error t (N.to_nat i).

Fixpoint find_actor (t : table) (a : bytes) : option nat :=
  match t with
  | [] => None
  | x :: r => if bytes_eqb x a then Some O
              else match find_actor r a with Some i => Some (S i) | None => None end
  end.

Definition lookup_actor (t : table) (a : bytes) : option nat := find_actor t a.

(* OpId::new *)
Definition opid_new (c i : N) : res (N * N) :=
  if (u32_max <? c) || (u32_max <? i) then Panic else Ok (c, i).

Definition exid_to_opid (t : table) (e : exid) : res (N * N) :=
  match e with
  | ERoot => opid_new 0 0
  | EId c a h =>
    if u32_max <? c then Err
    else if option_eqb bytes_eqb (get_actor_safe t h) (Some a) then opid_new c h
    else match lookup_actor t a with
         | Some i => opid_new c (N.of_nat i)
         | None => Err
         end
  end.

(* op_cursor_to_opid with clock = None: the cursor carries no hint *)
Definition cursor_to_opid (t : table) (c : N) (a : bytes) : res (N * N) :=
  if u32_max <? c then Err
  else match lookup_actor t a with
       | Some i => opid_new c (N.of_nat i)
       | None => Err
       end.

(* what a resolved internal id denotes, independently of the numbering: counter and actor BYTES *)
Definition denote (t : table) (o : N * N) : option (N * bytes) :=
  match get_actor_safe t (snd o) with
  | Some a => Some (fst o, a)
  | None => None
  end.

(* id_to_exid: internal id -> ExId of this replica *)
Definition id_to_exid (t : table) (o : N * N) : res exid :=
  if (fst o =? 0) && (snd o =? 0) then Ok ERoot
  else match get_actor_safe t (snd o) with
       | Some a => Ok (EId (fst o) a (snd o))
       | None => Panic                                    (* self.actors[id.actor()] *)
       end.

Definition import_obj (t : table) (s : str) : res exid :=
  if str_eqb s STR_ROOT then Ok ERoot
  else
    match split_on CH_AT s with
    | None => Err                                         (* InvalidObjIdFormat *)
    | Some (a, b) =>
      let* c := parse_u64 a in
      let* actor := hex_decode b in
      match lookup_actor t actor with
      | None => Err                                       (* InvalidObjId *)
      | Some i =>
        match nth_error t i with
        | Some a' => Ok (EId c a' (N.of_nat i))
        | None => Panic                                   (* get_actor: actors[idx] *)
        end
      end
    end.

(* strictly sorted actor table (the OpSet invariant: binary-search insertion, no duplicates) *)
Fixpoint sorted_table (t : table) : bool :=
  match t with
  | [] => true
  | x :: r => match r with
              | [] => true
              | y :: _ => ltb bytes_cmp x y && sorted_table r
              end
  end.
