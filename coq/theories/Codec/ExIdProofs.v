(* Codec/ExIdProofs.v — object ids: byte and text round trips, decoders never panic, resolution
   is independent of the actor-index hint and of the replica's numbering of actors. *)
From AM Require Import Base.Prelude Base.Leb128 Base.Order Gen.Consts Codec.Bloom Codec.BloomProofs
  Codec.Hex Codec.HexProofs Codec.ExId.
Local Open Scope N_scope.

(* ---- tags (closed computations over the generated constants) ---- *)
Lemma tag_root_version : (N.land (exid_tag EXID_TYPE_ROOT) 15 =? EXID_VERSION_TAG) = true.
Proof. reflexivity. Qed.
Lemma tag_root_type : (N.shiftr (exid_tag EXID_TYPE_ROOT) 4 =? EXID_TYPE_ROOT) = true.
Proof. reflexivity. Qed.
Lemma tag_id_version : (N.land (exid_tag EXID_TYPE_ID) 15 =? EXID_VERSION_TAG) = true.
Proof. reflexivity. Qed.
Lemma tag_id_not_root : (N.shiftr (exid_tag EXID_TYPE_ID) 4 =? EXID_TYPE_ROOT) = false.
Proof. reflexivity. Qed.
Lemma tag_id_type : (N.shiftr (exid_tag EXID_TYPE_ID) 4 =? EXID_TYPE_ID) = true.
Proof. reflexivity. Qed.

(* ---- bytes ---- *)
Lemma exid_bytes_roundtrip_rest e rest :
  wf_exidb e = true -> exid_of_bytes (exid_to_bytes e ++ rest) = Ok e.
Proof.
  destruct e as [|c a h]; intros Hwf.
  - cbn [exid_to_bytes app exid_of_bytes]. rewrite tag_root_version, tag_root_type. reflexivity.
  - cbn [wf_exidb] in Hwf. repeat (apply andb_true_iff in Hwf; destruct Hwf as [Hwf ?]).
    cbn [exid_to_bytes app exid_of_bytes].
    rewrite tag_id_version, tag_id_not_root, tag_id_type. cbn [negb].
    rewrite <- !app_assoc.
    rewrite uleb_roundtrip by lia. cbn [bind].
    rewrite take_N_app.
    rewrite uleb_roundtrip by lia. cbn [bind].
    rewrite uleb_roundtrip by lia. cbn [bind]. reflexivity.
Qed.

Theorem exid_bytes_roundtrip e : wf_exidb e = true -> exid_of_bytes (exid_to_bytes e) = Ok e.
Proof. intros H. rewrite <- (app_nil_r (exid_to_bytes e)). apply exid_bytes_roundtrip_rest, H. Qed.

Lemma exid_of_bytes_no_panic l : exid_of_bytes l <> Panic.
Proof.
  unfold exid_of_bytes. destruct l as [|tag i]; [discriminate|].
  destruct (negb (N.land tag 15 =? EXID_VERSION_TAG)); [discriminate|].
  destruct (N.shiftr tag 4 =? EXID_TYPE_ROOT); [discriminate|].
  destruct (N.shiftr tag 4 =? EXID_TYPE_ID); [|discriminate].
  pose proof (uleb_dec_no_panic i) as P1.
  destruct (uleb_dec i) as [[len i1]| |]; cbn [bind]; try congruence.
  destruct (take_N len i1) as [[a i2]|]; [|discriminate].
  pose proof (uleb_dec_no_panic i2) as P2.
  destruct (uleb_dec i2) as [[h i3]| |]; cbn [bind]; try congruence.
  pose proof (uleb_dec_no_panic i3) as P3.
  destruct (uleb_dec i3) as [[c i4]| |]; cbn [bind]; congruence.
Qed.

(* ---- the actor table ---- *)
Lemma find_actor_nth t a : forall i, find_actor t a = Some i -> nth_error t i = Some a.
Proof.
  induction t as [|x r IH]; intros i H; cbn [find_actor] in H; [discriminate|].
  destruct (bytes_eqb x a) eqn:E.
  - inversion H; subst. apply bytes_eqb_spec in E. subst. reflexivity.
  - destruct (find_actor r a) as [j|] eqn:F; [|discriminate]. inversion H; subst.
    cbn [nth_error]. apply IH. reflexivity.
Qed.

Lemma find_actor_in t a : In a t -> exists i, find_actor t a = Some i.
Proof.
  induction t as [|x r IH]; intros H; [destruct H|]. cbn [find_actor].
  destruct (bytes_eqb x a) eqn:E; [eexists; reflexivity|].
  destruct H as [H|H]; [subst; rewrite (proj2 (bytes_eqb_spec a a) eq_refl) in E; discriminate|].
  destruct (IH H) as [i Hi]. rewrite Hi. eexists; reflexivity.
Qed.

Lemma find_actor_none t a : find_actor t a = None -> ~ In a t.
Proof.
  intros H Hin. destruct (find_actor_in t a Hin) as [i Hi]. congruence.
Qed.

Lemma nth_error_lenN {A} (t : list A) i x : nth_error t i = Some x -> N.of_nat i < lenN t.
Proof.
  intros H. assert (i < length t)%nat by (apply nth_error_Some; congruence). unfold lenN. lia.
Qed.

Lemma get_actor_safe_some t h a :
  get_actor_safe t h = Some a -> h < lenN t /\ nth_error t (N.to_nat h) = Some a.
Proof.
  unfold get_actor_safe. destruct (lenN t <=? h) eqn:E; [discriminate|]. intros H. split; [lia|exact H].
Qed.

Lemma get_actor_safe_nat t i : get_actor_safe t (N.of_nat i) = nth_error t i.
Proof.
  unfold get_actor_safe. rewrite Nat2N.id. destruct (lenN t <=? N.of_nat i) eqn:E; [|reflexivity].
  symmetry. apply nth_error_None. unfold lenN in E. lia.
Qed.

Lemma option_eqb_some x a : option_eqb bytes_eqb x (Some a) = true <-> x = Some a.
Proof.
  destruct x as [b|]; cbn [option_eqb]; [|split; discriminate].
  rewrite bytes_eqb_spec. split; [intros ->; reflexivity|intros H; inversion H; reflexivity].
Qed.

Lemma opid_new_ok c i : c <= u32_max -> i <= u32_max -> opid_new c i = Ok (c, i).
Proof.
  intros Hc Hi. unfold opid_new.
  assert ((u32_max <? c) || (u32_max <? i) = false) as -> by lia. reflexivity.
Qed.

Lemma pow32_u32 n : n < pow32 -> n <= u32_max.
Proof. unfold pow32, u32_max. lia. Qed.

(* strictly sorted tables have no duplicates *)
Lemma sorted_lt_all : forall t x, sorted_table (x :: t) = true -> Forall (fun y => bytes_cmp x y = Lt) t.
Proof.
  induction t as [|y r IH]; intros x H; [constructor|].
  cbn [sorted_table] in H. apply andb_true_iff in H. destruct H as [Hxy Hs].
  assert (Lxy : bytes_cmp x y = Lt) by (unfold ltb in Hxy; destruct (bytes_cmp x y); congruence).
  constructor; [exact Lxy|].
  specialize (IH y Hs). eapply Forall_impl; [|exact IH].
  intros z Hz. exact (cmp_trans bytes_cmp_total _ _ _ Lxy Hz).
Qed.

Lemma sorted_table_tail x t : sorted_table (x :: t) = true -> sorted_table t = true.
Proof.
  cbn [sorted_table]. destruct t as [|y r]; [reflexivity|]. intros H. apply andb_true_iff in H. apply H.
Qed.

Lemma sorted_table_nodup t : sorted_table t = true -> NoDup t.
Proof.
  induction t as [|x r IH]; intros H; [constructor|].
  constructor; [|apply IH; eapply sorted_table_tail; exact H].
  intros Hin. pose proof (sorted_lt_all r x H) as F. rewrite Forall_forall in F.
  specialize (F x Hin). rewrite (cmp_refl _ bytes_cmp_total) in F. discriminate.
Qed.

(* ---- resolution ---- *)

(* under the table invariant the result is a function of (counter, actor) only *)
Lemma resolve_canonical t c a h :
  NoDup t -> lenN t <= pow32 ->
  exid_to_opid t (EId c a h) =
    if u32_max <? c then Err
    else match find_actor t a with Some i => Ok (c, N.of_nat i) | None => Err end.
Proof.
  intros Hnd Hlen. cbn [exid_to_opid]. destruct (u32_max <? c) eqn:Ec; [reflexivity|].
  destruct (option_eqb bytes_eqb (get_actor_safe t h) (Some a)) eqn:Eh.
  - apply option_eqb_some in Eh. apply get_actor_safe_some in Eh. destruct Eh as [Hh Hn].
    destruct (find_actor_in t a) as [i Hi]; [eapply nth_error_In; exact Hn|].
    rewrite Hi. pose proof (find_actor_nth _ _ _ Hi) as Hni.
    assert (i = N.to_nat h).
    { apply (proj1 (NoDup_nth_error t) Hnd).
      - apply nth_error_Some. congruence.
      - congruence. }
    subst i. rewrite N2Nat.id. apply opid_new_ok; [lia|apply pow32_u32; lia].
  - unfold lookup_actor. destruct (find_actor t a) as [i|] eqn:Hi; [|reflexivity].
    apply opid_new_ok; [lia|].
    apply pow32_u32. pose proof (nth_error_lenN _ _ _ (find_actor_nth _ _ _ Hi)). lia.
Qed.

Theorem resolve_hint_irrelevant t c a h1 h2 :
  NoDup t -> lenN t <= pow32 ->
  exid_to_opid t (EId c a h1) = exid_to_opid t (EId c a h2).
Proof. intros Hnd Hlen. rewrite !resolve_canonical by assumption. reflexivity. Qed.

(* whatever the hint and whatever the table looks like: an id whose actor the replica knows
   resolves, and to an internal id that denotes the same (counter, actor) *)
Theorem resolve_denotes t c a h :
  c <= u32_max -> lenN t <= pow32 -> In a t ->
  exists o, exid_to_opid t (EId c a h) = Ok o /\ denote t o = Some (c, a).
Proof.
  intros Hc Hlen Hin. cbn [exid_to_opid].
  assert ((u32_max <? c) = false) as -> by lia.
  destruct (option_eqb bytes_eqb (get_actor_safe t h) (Some a)) eqn:Eh.
  - apply option_eqb_some in Eh. pose proof (get_actor_safe_some _ _ _ Eh) as [Hh _].
    exists (c, h). split; [apply opid_new_ok; [lia|apply pow32_u32; lia]|].
    unfold denote. cbn [fst snd]. rewrite Eh. reflexivity.
  - unfold lookup_actor. destruct (find_actor_in t a Hin) as [i Hi]. rewrite Hi.
    pose proof (find_actor_nth _ _ _ Hi) as Hn. pose proof (nth_error_lenN _ _ _ Hn).
    exists (c, N.of_nat i). split; [apply opid_new_ok; [lia|apply pow32_u32; lia]|].
    unfold denote. cbn [fst snd]. rewrite get_actor_safe_nat, Hn. reflexivity.
Qed.

Theorem resolve_unknown_actor t c a h : ~ In a t -> exid_to_opid t (EId c a h) = Err.
Proof.
  intros Hn. cbn [exid_to_opid]. destruct (u32_max <? c); [reflexivity|].
  destruct (option_eqb bytes_eqb (get_actor_safe t h) (Some a)) eqn:Eh.
  - apply option_eqb_some in Eh. apply get_actor_safe_some in Eh. destruct Eh as [_ Hnth].
    exfalso. apply Hn. eapply nth_error_In; exact Hnth.
  - unfold lookup_actor. destruct (find_actor t a) as [i|] eqn:Hi; [|reflexivity].
    exfalso. apply Hn. eapply nth_error_In. eapply find_actor_nth; exact Hi.
Qed.

Theorem resolve_numbering_irrelevant t1 t2 c a h1 h2 :
  c <= u32_max -> lenN t1 <= pow32 -> lenN t2 <= pow32 -> In a t1 -> In a t2 ->
  exists o1 o2, exid_to_opid t1 (EId c a h1) = Ok o1 /\ exid_to_opid t2 (EId c a h2) = Ok o2 /\
                denote t1 o1 = Some (c, a) /\ denote t2 o2 = Some (c, a).
Proof.
  intros Hc L1 L2 I1 I2.
  destruct (resolve_denotes t1 c a h1 Hc L1 I1) as (o1 & R1 & D1).
  destruct (resolve_denotes t2 c a h2 Hc L2 I2) as (o2 & R2 & D2).
  exists o1, o2. auto.
Qed.

Lemma exid_to_opid_no_panic t e : lenN t <= pow32 -> exid_to_opid t e <> Panic.
Proof.
  intros Hlen. destruct e as [|c a h]; [cbn; discriminate|].
  cbn [exid_to_opid]. destruct (u32_max <? c) eqn:Ec; [discriminate|].
  destruct (option_eqb bytes_eqb (get_actor_safe t h) (Some a)) eqn:Eh.
  - apply option_eqb_some in Eh. apply get_actor_safe_some in Eh. destruct Eh as [Hh _].
    rewrite opid_new_ok; [discriminate|lia|apply pow32_u32; lia].
  - unfold lookup_actor. destruct (find_actor t a) as [i|] eqn:Hi; [|discriminate].
    pose proof (nth_error_lenN _ _ _ (find_actor_nth _ _ _ Hi)).
    rewrite opid_new_ok; [discriminate|lia|apply pow32_u32; lia].
Qed.

(* an id handed out by one replica, serialised, decoded, resolved by another *)
Theorem exid_transport tp tq c i a :
  get_actor_safe tp i = Some a -> negb ((c =? 0) && (i =? 0)) = true ->
  c <= u32_max -> wf_bytesb a = true -> lenN a < pow64 ->
  lenN tp <= pow32 -> lenN tq <= pow32 -> In a tq ->
  exists e o, id_to_exid tp (c, i) = Ok e /\ exid_of_bytes (exid_to_bytes e) = Ok e /\
              exid_to_opid tq e = Ok o /\ denote tq o = denote tp (c, i).
Proof.
  intros Hga Hnz Hc Hwa Hla Lp Lq Hin.
  pose proof (get_actor_safe_some _ _ _ Hga) as [Hi _].
  destruct (resolve_denotes tq c a i Hc Lq Hin) as (o & Ro & Do).
  exists (EId c a i), o. split; [|split; [|split]].
  - unfold id_to_exid. cbn [fst snd]. apply negb_true_iff in Hnz. rewrite Hnz, Hga. reflexivity.
  - apply exid_bytes_roundtrip. cbn [wf_exidb]. rewrite Hwa.
    unfold u32_max, pow32, pow64 in *.
    assert ((c <? 18446744073709551616) = true) as -> by lia.
    assert ((i <? 18446744073709551616) = true) as -> by lia.
    assert ((lenN a <? 18446744073709551616) = true) as -> by lia. reflexivity.
  - exact Ro.
  - rewrite Do. unfold denote. cbn [fst snd]. rewrite Hga. reflexivity.
Qed.

(* cursors carry no hint: resolution is by actor only *)
Theorem cursor_resolve_denotes t c a :
  c <= u32_max -> lenN t <= pow32 -> In a t ->
  exists o, cursor_to_opid t c a = Ok o /\ denote t o = Some (c, a).
Proof.
  intros Hc Hlen Hin. unfold cursor_to_opid, lookup_actor.
  assert ((u32_max <? c) = false) as -> by lia.
  destruct (find_actor_in t a Hin) as [i Hi]. rewrite Hi.
  pose proof (find_actor_nth _ _ _ Hi) as Hn. pose proof (nth_error_lenN _ _ _ Hn).
  exists (c, N.of_nat i). split; [apply opid_new_ok; [lia|apply pow32_u32; lia]|].
  unfold denote. cbn [fst snd]. rewrite get_actor_safe_nat, Hn. reflexivity.
Qed.

Lemma cursor_to_opid_no_panic t c a : lenN t <= pow32 -> cursor_to_opid t c a <> Panic.
Proof.
  intros Hlen. unfold cursor_to_opid, lookup_actor. destruct (u32_max <? c) eqn:Ec; [discriminate|].
  destruct (find_actor t a) as [i|] eqn:Hi; [|discriminate].
  pose proof (nth_error_lenN _ _ _ (find_actor_nth _ _ _ Hi)).
  rewrite opid_new_ok; [discriminate|lia|apply pow32_u32; lia].
Qed.

(* ---- text ---- *)
Lemma str_not_root s c t : s = c :: t -> is_digit c -> str_eqb s STR_ROOT = false.
Proof.
  intros -> [H1 H2]. unfold str_eqb, STR_ROOT. cbn [list_eqb].
  assert ((c =? 95) = false) as -> by lia. reflexivity.
Qed.

Lemma dec_encode_head n : exists c t, dec_encode n = c :: t /\ is_digit c.
Proof.
  pose proof (dec_encode_nonempty n) as Hne. pose proof (dec_encode_digits n) as F.
  destruct (dec_encode n) as [|c t]; [congruence|]. inversion F; subst. eauto.
Qed.

Theorem exid_str_roundtrip t c a h i :
  c < pow64 -> wf_bytesb a = true -> find_actor t a = Some i ->
  import_obj t (exid_to_str (EId c a h)) = Ok (EId c a (N.of_nat i)).
Proof.
  intros Hc Hwa Hi. cbn [exid_to_str]. unfold import_obj.
  destruct (dec_encode_head c) as (d & r & Hd & Hdig).
  rewrite (str_not_root _ d (r ++ CH_AT :: hex_encode a)) by (rewrite ?Hd; auto).
  rewrite split_on_app by (apply digits_no_at, dec_encode_digits).
  rewrite dec_roundtrip by assumption. cbn [bind].
  rewrite hex_roundtrip by (apply wf_bytesb_spec, Hwa). cbn [bind].
  unfold lookup_actor. rewrite Hi. rewrite (find_actor_nth _ _ _ Hi). reflexivity.
Qed.

Theorem exid_str_roundtrip_eq t c a h :
  c < pow64 -> wf_bytesb a = true -> In a t ->
  exists e, import_obj t (exid_to_str (EId c a h)) = Ok e /\ exid_eqb e (EId c a h) = true.
Proof.
  intros Hc Hwa Hin. destruct (find_actor_in t a Hin) as [i Hi].
  exists (EId c a (N.of_nat i)). split; [apply exid_str_roundtrip; assumption|].
  cbn [exid_eqb]. rewrite N.eqb_refl. rewrite (proj2 (bytes_eqb_spec a a) eq_refl). reflexivity.
Qed.

Theorem exid_str_root t : import_obj t (exid_to_str ERoot) = Ok ERoot.
Proof. reflexivity. Qed.

Lemma import_obj_no_panic t s : import_obj t s <> Panic.
Proof.
  unfold import_obj. destruct (str_eqb s STR_ROOT); [discriminate|].
  destruct (split_on CH_AT s) as [[a b]|]; [|discriminate].
  pose proof (parse_u64_no_panic a). destruct (parse_u64 a) as [c| |]; cbn [bind]; try congruence.
  pose proof (hex_decode_no_panic b). destruct (hex_decode b) as [actor| |]; cbn [bind]; try congruence.
  unfold lookup_actor. destruct (find_actor t actor) as [i|] eqn:Hi; [|discriminate].
  rewrite (find_actor_nth _ _ _ Hi). discriminate.
Qed.
