(* Codec/Hex.v — text forms of identifiers.

   Mirrors
   * the `hex` crate (0.4.3) as used by rust/automerge/src/types.rs:
       [hex::encode] (lower case), [hex::decode] = [Vec<u8>::from_hex]
       (odd length rejected first, then [val] on each pair, [pair[0] << 4 | pair[1]]);
   * types.rs [ActorId: TryFrom<&str> / FromStr / Display / to_hex_string],
     [ChangeHash: FromStr / Display / TryFrom<&[u8]>] (length must be HASH_SIZE);
   * core's [u64::from_str] (= [from_str_radix(_, 10)] for an unsigned type: empty -> error,
     a lone sign -> error, one leading '+' accepted, '-' is not a digit, overflow -> error,
     leading zeros accepted) and [Display for u64];
   * [str::find('@')] followed by the two slices [s[..n]] and [s[n+1..]] ([split_on]):
     '@' is ASCII, so both slice points are character boundaries and cannot panic.

   A Rust [&str] is modelled by its UTF-8 bytes ([str := list N]); every function above works
   on bytes ([hex::decode] takes [AsRef<[u8]>], [from_str] uses [as_bytes]).  The model accepts
   any byte list, a superset of the valid strings. *)
From AM Require Import Base.Prelude Gen.Consts.
Local Open Scope N_scope.

Definition str := list N.

(* ---- hexadecimal ---- *)
Definition hex_digit (n : N) : N := if n <? 10 then 48 + n else 87 + n.

Fixpoint hex_encode (b : bytes) : str :=
  match b with
  | [] => []
  | x :: t => hex_digit (x / 16) :: hex_digit (x mod 16) :: hex_encode t
  end.

Definition hex_val (c : N) : option N :=
  if (65 <=? c) && (c <=? 70) then Some (c - 65 + 10)
  else if (97 <=? c) && (c <=? 102) then Some (c - 97 + 10)
  else if (48 <=? c) && (c <=? 57) then Some (c - 48)
  else None.

(* [hex.chunks(2).map(|pair| val(pair[0])? << 4 | val(pair[1])?).collect()]: a final chunk of one
   character would index [pair[1]] out of bounds — [Panic]; it is unreachable behind the length
   check of [hex_decode], which [hex_decode_no_panic] proves. *)
Fixpoint hex_pairs (s : str) : res bytes :=
  match s with
  | [] => Ok []
  | [a] => match hex_val a with Some _ => Panic | None => Err end
  | a :: b :: t =>
    match hex_val a, hex_val b with
    | Some x, Some y => let* r := hex_pairs t in Ok (x * 16 + y :: r)
    | _, _ => Err
    end
  end.

Definition hex_decode (s : str) : res bytes :=
  if Nat.odd (length s) then Err else hex_pairs s.

(* ActorId *)
Definition actor_to_str (a : bytes) : str := hex_encode a.
Definition actor_of_str (s : str) : res bytes := hex_decode s.

(* ChangeHash *)
Definition hash_to_str (h : bytes) : str := hex_encode h.
Definition hash_of_str (s : str) : res bytes :=
  let* b := hex_decode s in
  if N.of_nat (length b) =? HASH_SIZE then Ok b else Err.
Definition hash_of_slice (b : bytes) : res bytes :=
  if negb (N.of_nat (length b) =? HASH_SIZE) then Err else Ok b.

Definition wf_hashb (h : bytes) : bool := (N.of_nat (length h) =? HASH_SIZE) && wf_bytesb h.

(* ---- decimal u64 ---- *)
Fixpoint dec_rev (fuel : nat) (n : N) : list N :=
  match fuel with
  | O => []
  | S f => if n <? 10 then [n] else (n mod 10) :: dec_rev f (n / 10)
  end.

Definition dec_encode (n : N) : str := map (fun d => 48 + d) (rev (dec_rev 20 n)).

Fixpoint pdigits (acc : N) (s : str) : res N :=
  match s with
  | [] => Ok acc
  | c :: t =>
    if (48 <=? c) && (c <=? 57) then
      let a := acc * 10 + (c - 48) in
      if u64_max <? a then Err else pdigits a t
    else Err
  end.

Definition parse_u64 (s : str) : res N :=
  match s with
  | [] => Err
  | [c] => if (c =? 43) || (c =? 45) then Err else pdigits 0 s
  | c :: t => if c =? 43 then pdigits 0 t else pdigits 0 s
  end.

(* ---- splitting at the first occurrence of a character ---- *)
Fixpoint split_on (c : N) (s : str) : option (str * str) :=
  match s with
  | [] => None
  | x :: t =>
    if x =? c then Some ([], t)
    else match split_on c t with
         | Some (a, b) => Some (x :: a, b)
         | None => None
         end
  end.

Definition CH_AT : N := 64.     (* '@' *)
Definition CH_MINUS : N := 45.  (* '-' *)
Definition STR_ROOT : str := [95; 114; 111; 111; 116].   (* "_root" *)
Definition STR_S : str := [115].
Definition STR_E : str := [101].

Definition str_eqb : str -> str -> bool := list_eqb N.eqb.
