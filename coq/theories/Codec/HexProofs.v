(* Codec/HexProofs.v — round trips and totality of the text forms in Codec/Hex.v. *)
From AM Require Import Base.Prelude Gen.Consts Codec.Hex.
Local Open Scope N_scope.
Ltac Zify.zify_post_hook ::= Z.div_mod_to_equations.

(* ---- hexadecimal ---- *)
Lemma hex_val_digit n : n < 16 -> hex_val (hex_digit n) = Some n.
Proof.
  intros H. unfold hex_digit, hex_val.
  destruct (n <? 10) eqn:E.
  - assert ((65 <=? 48 + n) && (48 + n <=? 70) = false) as -> by lia.
    assert ((97 <=? 48 + n) && (48 + n <=? 102) = false) as -> by lia.
    assert ((48 <=? 48 + n) && (48 + n <=? 57) = true) as -> by lia.
    f_equal. lia.
  - assert ((65 <=? 87 + n) && (87 + n <=? 70) = false) as -> by lia.
    assert ((97 <=? 87 + n) && (87 + n <=? 102) = true) as -> by lia.
    f_equal. lia.
Qed.

Lemma hex_pairs_encode b : wf_bytes b -> hex_pairs (hex_encode b) = Ok b.
Proof.
  induction b as [|x t IH]; intros Hwf; [reflexivity|].
  inversion Hwf as [|? ? Hx Ht]; subst. unfold wf_byte in Hx.
  cbn [hex_encode hex_pairs].
  rewrite !hex_val_digit by lia. rewrite IH by assumption. cbn [bind].
  f_equal. f_equal. lia.
Qed.

Lemma hex_encode_length b : length (hex_encode b) = (2 * length b)%nat.
Proof. induction b as [|x t IH]; cbn [hex_encode length]; lia. Qed.

Lemma odd_double n : Nat.odd (2 * n) = false.
Proof.
  rewrite <- Nat.negb_even. rewrite Nat.even_mul. reflexivity.
Qed.

Theorem hex_roundtrip b : wf_bytes b -> hex_decode (hex_encode b) = Ok b.
Proof.
  intros H. unfold hex_decode. rewrite hex_encode_length, odd_double. apply hex_pairs_encode, H.
Qed.

Lemma hex_pairs_even_no_panic : forall n s, length s = (2 * n)%nat -> hex_pairs s <> Panic.
Proof.
  induction n as [|n IH]; intros s Hl.
  - destruct s; [cbn; discriminate|cbn in Hl; lia].
  - destruct s as [|a [|b t]]; cbn [length] in Hl; try lia.
    cbn [hex_pairs]. destruct (hex_val a); [|discriminate]. destruct (hex_val b); [|discriminate].
    specialize (IH t ltac:(lia)). destruct (hex_pairs t); cbn [bind]; congruence.
Qed.

Lemma hex_decode_no_panic s : hex_decode s <> Panic.
Proof.
  unfold hex_decode. destruct (Nat.odd (length s)) eqn:E; [discriminate|].
  assert (Nat.even (length s) = true) as Hev by (rewrite <- Nat.negb_odd, E; reflexivity).
  apply Nat.even_spec in Hev. destruct Hev as [k Hk].
  apply (hex_pairs_even_no_panic k). exact Hk.
Qed.

Lemma hex_val_lt c v : hex_val c = Some v -> v < 16.
Proof.
  unfold hex_val.
  destruct ((65 <=? c) && (c <=? 70)) eqn:E1; [intros H; inversion H; lia|].
  destruct ((97 <=? c) && (c <=? 102)) eqn:E2; [intros H; inversion H; lia|].
  destruct ((48 <=? c) && (c <=? 57)) eqn:E3; [intros H; inversion H; lia|discriminate].
Qed.

(* whatever decodes is a byte string *)
Lemma hex_pairs_wf : forall n s b, (length s <= n)%nat -> hex_pairs s = Ok b -> wf_bytes b.
Proof.
  induction n as [|n IH]; intros s b Hl H.
  - destruct s; [|cbn in Hl; lia]. inversion H; constructor.
  - destruct s as [|x [|y t]]; cbn [hex_pairs] in H.
    + inversion H; constructor.
    + destruct (hex_val x); discriminate.
    + destruct (hex_val x) as [vx|] eqn:Ex; [|discriminate].
      destruct (hex_val y) as [vy|] eqn:Ey; [|discriminate].
      destruct (hex_pairs t) as [r| |] eqn:Et; cbn [bind] in H; try discriminate.
      inversion H; subst. constructor.
      * apply hex_val_lt in Ex. apply hex_val_lt in Ey. unfold wf_byte. lia.
      * apply (IH t); [cbn [length] in Hl; lia|exact Et].
Qed.

Lemma hex_decode_wf s b : hex_decode s = Ok b -> wf_bytes b.
Proof.
  unfold hex_decode. destruct (Nat.odd (length s)); [discriminate|].
  apply (hex_pairs_wf (length s)). lia.
Qed.

(* ---- actor ids and change hashes ---- *)
Theorem actor_hex_roundtrip a : wf_bytesb a = true -> actor_of_str (actor_to_str a) = Ok a.
Proof. intros H. apply hex_roundtrip. apply wf_bytesb_spec, H. Qed.

Lemma actor_of_str_no_panic s : actor_of_str s <> Panic.
Proof. apply hex_decode_no_panic. Qed.

Theorem hash_hex_roundtrip h : wf_hashb h = true -> hash_of_str (hash_to_str h) = Ok h.
Proof.
  unfold wf_hashb. intros H. apply andb_true_iff in H. destruct H as [Hl Hw].
  unfold hash_of_str, hash_to_str. rewrite hex_roundtrip by (apply wf_bytesb_spec, Hw).
  cbn [bind]. rewrite Hl. reflexivity.
Qed.

Lemma hash_of_str_no_panic s : hash_of_str s <> Panic.
Proof.
  unfold hash_of_str. pose proof (hex_decode_no_panic s).
  destruct (hex_decode s); cbn [bind]; try congruence.
  destruct (N.of_nat (length a) =? HASH_SIZE); discriminate.
Qed.

Lemma hash_of_str_len s h : hash_of_str s = Ok h -> wf_hashb h = true.
Proof.
  unfold hash_of_str. destruct (hex_decode s) as [b| |] eqn:E; cbn [bind]; try discriminate.
  destruct (N.of_nat (length b) =? HASH_SIZE) eqn:El; [|discriminate].
  intros H; inversion H; subst. unfold wf_hashb. rewrite El. cbn [andb].
  apply wf_bytesb_spec. eapply hex_decode_wf; eauto.
Qed.

Theorem hash_slice_roundtrip h : wf_hashb h = true -> hash_of_slice h = Ok h.
Proof.
  unfold wf_hashb, hash_of_slice. intros H. apply andb_true_iff in H. destruct H as [-> _]. reflexivity.
Qed.

(* ---- decimal ---- *)
Lemma pdigits_app s1 : forall acc s2,
  pdigits acc (s1 ++ s2) = (let* a := pdigits acc s1 in pdigits a s2).
Proof.
  induction s1 as [|c t IH]; intros acc s2; [reflexivity|].
  cbn [app pdigits]. destruct ((48 <=? c) && (c <=? 57)); [|reflexivity].
  destruct (u64_max <? acc * 10 + (c - 48)); [reflexivity|]. apply IH.
Qed.

Lemma pdigits_no_panic s : forall acc, pdigits acc s <> Panic.
Proof.
  induction s as [|c t IH]; intros acc; cbn [pdigits]; [discriminate|].
  destruct ((48 <=? c) && (c <=? 57)); [|discriminate].
  destruct (u64_max <? acc * 10 + (c - 48)); [discriminate|]. apply IH.
Qed.

Lemma parse_u64_no_panic s : parse_u64 s <> Panic.
Proof.
  unfold parse_u64. destruct s as [|c [|d t]]; [discriminate| |].
  - destruct ((c =? 43) || (c =? 45)); [discriminate|apply pdigits_no_panic].
  - destruct (c =? 43); apply pdigits_no_panic.
Qed.

Fixpoint pow10 (f : nat) : N := match f with O => 1 | S f' => 10 * pow10 f' end.

Definition enc_digits (l : list N) : str := map (fun d => 48 + d) l.

Lemma dec_rev_parse f : forall n, n < pow10 f -> n <= u64_max ->
  pdigits 0 (enc_digits (rev (dec_rev f n))) = Ok n.
Proof.
  induction f as [|f IH]; intros n Hn Hmax;
    [cbn in Hn; assert (n = 0) as -> by lia; reflexivity|].
  assert (Hu : u64_max = 18446744073709551615) by reflexivity.
  cbn [dec_rev]. destruct (n <? 10) eqn:E.
  - cbn [rev app enc_digits map pdigits].
    assert ((48 <=? 48 + n) && (48 + n <=? 57) = true) as -> by lia.
    assert ((u64_max <? 0 * 10 + (48 + n - 48)) = false) as -> by lia.
    f_equal. lia.
  - cbn [rev]. unfold enc_digits. rewrite map_app. rewrite pdigits_app.
    fold (enc_digits (rev (dec_rev f (n / 10)))).
    cbn [pow10] in Hn.
    rewrite IH by lia. cbn [bind map pdigits].
    assert ((48 <=? 48 + n mod 10) && (48 + n mod 10 <=? 57) = true) as -> by lia.
    assert ((u64_max <? n / 10 * 10 + (48 + n mod 10 - 48)) = false) as -> by lia.
    f_equal. lia.
Qed.

Definition is_digit (c : N) : Prop := 48 <= c /\ c <= 57.

Lemma dec_rev_digits f : forall n, Forall (fun d => d < 10) (dec_rev f n).
Proof.
  induction f as [|f IH]; intros n; cbn [dec_rev]; [constructor|].
  destruct (n <? 10) eqn:E.
  - constructor; [lia|constructor].
  - constructor; [lia|apply IH].
Qed.

Lemma dec_encode_digits n : Forall is_digit (dec_encode n).
Proof.
  unfold dec_encode. apply Forall_forall. intros c Hc. apply in_map_iff in Hc.
  destruct Hc as (d & <- & Hd). apply in_rev in Hd.
  pose proof (dec_rev_digits 20 n) as F. rewrite Forall_forall in F. specialize (F d Hd).
  unfold is_digit. lia.
Qed.

Lemma dec_encode_nonempty n : dec_encode n <> [].
Proof.
  unfold dec_encode. cbn [dec_rev]. destruct (n <? 10); cbn [rev map app].
  - discriminate.
  - intros H. apply map_eq_nil in H. apply app_eq_nil in H. destruct H as [_ H]. discriminate.
Qed.

Lemma parse_u64_digits s : s <> [] -> Forall is_digit s -> parse_u64 s = pdigits 0 s.
Proof.
  intros Hne F. destruct s as [|c t]; [congruence|].
  inversion F as [|? ? Hc _]; subst. unfold is_digit in Hc. unfold parse_u64.
  destruct t as [|d t].
  - assert ((c =? 43) || (c =? 45) = false) as -> by lia. reflexivity.
  - assert ((c =? 43) = false) as -> by lia. reflexivity.
Qed.

Lemma u64_lt_pow10_20 : pow64 <= pow10 20.
Proof. vm_compute. discriminate. Qed.

Theorem dec_roundtrip n : n < pow64 -> parse_u64 (dec_encode n) = Ok n.
Proof.
  intros H. rewrite parse_u64_digits by (apply dec_encode_nonempty || apply dec_encode_digits).
  unfold dec_encode. apply (dec_rev_parse 20 n).
  - pose proof u64_lt_pow10_20. lia.
  - unfold pow64, u64_max in *. lia.
Qed.

(* ---- splitting ---- *)
Lemma split_on_app c a b : Forall (fun x => x <> c) a -> split_on c (a ++ c :: b) = Some (a, b).
Proof.
  induction a as [|x t IH]; intros F; cbn [app split_on].
  - rewrite N.eqb_refl. reflexivity.
  - inversion F as [|? ? Hx Ht]; subst.
    assert ((x =? c) = false) as -> by (apply N.eqb_neq; exact Hx).
    rewrite IH by assumption. reflexivity.
Qed.

Lemma digits_no_at s : Forall is_digit s -> Forall (fun x => x <> CH_AT) s.
Proof. apply Forall_impl. unfold is_digit, CH_AT. intros; lia. Qed.
