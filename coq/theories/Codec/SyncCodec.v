(* Codec/SyncCodec.v — wire forms of the sync protocol.

   Mirrors
   * rust/automerge/src/sync.rs: [encode_many], [encode_hashes] (with its
     [debug_assert!(hashes sorted)] — a panic in the debug profile the harness is built with),
     [MessageVersion::{parse,encode}], [Message::{encode,parse,decode}], [parse_have],
     [ChunkList::parse], [MessageFlags::{encode,parse_bytes,contains}], and the derivation of the
     peer's [Capability]s from the flags at the top of [receive_sync_message_inner];
   * rust/automerge/src/sync/state.rs: [State::{encode,parse,decode}] — only [shared_heads] is
     persisted, every other field of a decoded state has the fixed value written in [State::parse]
     (note [their_have = Some(vec![])], which is not the [Default]);
   * rust/automerge/src/storage/parse.rs: [length_prefixed], [length_prefixed_bytes],
     [change_hash] ([take_n(HASH_SIZE)] then [try_into().expect(..)], which cannot fail).

   [length_prefixed] is a [for _ in 0..count] loop that stops at the first failing item; the model
   recurses on a fuel of one more than the number of input bytes: every item of the three
   instances consumes at least one byte when it succeeds (a hash is HASH_SIZE bytes, the other two
   start with a LEB128 number), so the input runs out before the fuel does
   ([read_many_fuel], SyncProofs).  Changes are opaque byte strings.  The Bloom filter is
   Codec/Bloom.v. *)
From AM Require Import Base.Prelude Base.Leb128 Base.Order Gen.Consts Codec.Bloom Codec.Hex.
Local Open Scope N_scope.

(* ---- parse.rs combinators ---- *)
Definition length_prefixed_bytes (i : bytes) : res (bytes * bytes) :=
  let* (len, i) := uleb_dec i in
  match take_N len i with
  | None => Err
  | Some (b, i) => Ok (b, i)
  end.

Definition change_hash (i : bytes) : res (bytes * bytes) :=
  match take_N HASH_SIZE i with
  | None => Err
  | Some (h, i) => if lenN h =? HASH_SIZE then Ok (h, i) else Panic   (* try_into().expect(..) *)
  end.

Section Many.
  Context {A : Type} (item : bytes -> res (A * bytes)).
  Fixpoint read_many (fuel : nat) (count : N) (i : bytes) : res (list A * bytes) :=
    if count =? 0 then Ok ([], i)
    else match fuel with
         | O => Err
         | S f =>
           let* (x, i) := item i in
           let* (r, i) := read_many f (count - 1) i in
           Ok (x :: r, i)
         end.
  Definition length_prefixed (i : bytes) : res (list A * bytes) :=
    let* (count, i) := uleb_dec i in
    read_many (S (length i)) count i.
End Many.

(* ---- writers ---- *)
Fixpoint hashes_sortedb (hs : list bytes) : bool :=
  match hs with
  | [] => true
  | x :: r => match r with
              | [] => true
              | y :: _ => leb bytes_cmp x y && hashes_sortedb r
              end
  end.

Definition encode_hashes (hs : list bytes) : res bytes :=
  if hashes_sortedb hs then Ok (uleb_enc (lenN hs) ++ concat hs) else Panic.

Definition parse_hashes : bytes -> res (list bytes * bytes) := length_prefixed change_hash.

(* ---- flags ---- *)
Definition flags_encode (f : N) : bytes :=
  uleb_enc 2 ++ [LEGACY_V2_BYTE; N.lor BITFIELD_MARKER f].

Definition flags_parse_bytes (bs : bytes) : N :=
  fold_left (fun acc b =>
               if negb (N.land b BITFIELD_MARKER =? 0)
               then N.lor acc (N.land b (255 - BITFIELD_MARKER))
               else acc) bs 0.

Definition flag_contains (f flag : N) : bool := negb (N.land f flag =? 0).

Inductive capability := CapMessageV1 | CapMessageV2 | CapSyncReset.

(* their_capabilities after receiving a message carrying these flags *)
Definition capabilities_after (old : option (list capability)) (flags : option N)
  : option (list capability) :=
  match flags with
  | None => old
  | Some f => Some (CapMessageV2 :: if flag_contains f FLAG_SUPPORTS_SYNC_RESET then [CapSyncReset] else [])
  end.

(* ---- Have ---- *)
Record have := mkHave { h_last_sync : list bytes; h_bloom : filter }.

Definition encode_have (h : have) : res bytes :=
  let* hs := encode_hashes (h_last_sync h) in
  let bb := to_bytes (h_bloom h) in
  Ok (hs ++ uleb_enc (lenN bb) ++ bb).

Definition parse_have (i : bytes) : res (have * bytes) :=
  let* (ls, i) := parse_hashes i in
  let* (bb, i) := length_prefixed_bytes i in
  let* (f, _) := parse bb in
  Ok (mkHave ls f, i).

Fixpoint encode_haves (hs : list have) : res bytes :=
  match hs with
  | [] => Ok []
  | h :: t => let* a := encode_have h in let* b := encode_haves t in Ok (a ++ b)
  end.

Fixpoint encode_changes (cs : list bytes) : bytes :=
  match cs with
  | [] => []
  | c :: t => uleb_enc (lenN c) ++ c ++ encode_changes t
  end.

(* ---- Message ---- *)
Inductive version := V1 | V2.

Record message := mkMsg {
  m_heads : list bytes;
  m_need : list bytes;
  m_have : list have;
  m_changes : list bytes;
  m_flags : option N;
  m_version : version }.

Definition version_byte (v : version) : N :=
  match v with V1 => MESSAGE_TYPE_SYNC | V2 => MESSAGE_TYPE_SYNC_V2 end.

Definition message_encode (m : message) : res bytes :=
  let* hd := encode_hashes (m_heads m) in
  let* nd := encode_hashes (m_need m) in
  let* hv := encode_haves (m_have m) in
  Ok (version_byte (m_version m) :: hd ++ nd
      ++ (uleb_enc (lenN (m_have m)) ++ hv)
      ++ (uleb_enc (lenN (m_changes m)) ++ encode_changes (m_changes m))
      ++ match m_flags m with Some f => flags_encode f | None => [] end).

Definition version_parse (i : bytes) : res (version * bytes) :=
  match i with
  | [] => Err
  | b :: i =>
    if b =? MESSAGE_TYPE_SYNC then Ok (V1, i)
    else if b =? MESSAGE_TYPE_SYNC_V2 then Ok (V2, i)
    else Err
  end.

Definition message_parse (i : bytes) : res (message * bytes) :=
  let* (v, i) := version_parse i in
  let* (heads, i) := parse_hashes i in
  let* (need, i) := parse_hashes i in
  let* (hv, i) := length_prefixed parse_have i in
  let* (changes, i) := length_prefixed length_prefixed_bytes i in
  let* (flags, i) :=
     match i with
     | [] => Ok (None, i)
     | _ => let* (raw, i) := length_prefixed_bytes i in Ok (Some (flags_parse_bytes raw), i)
     end in
  Ok (mkMsg heads need hv changes flags v, i).

Definition message_decode (i : bytes) : res message :=
  let* (m, _) := message_parse i in Ok m.

(* ---- State ---- *)
Record state := mkState {
  s_shared_heads : list bytes;
  s_last_sent_heads : list bytes;
  s_their_heads : option (list bytes);
  s_their_need : option (list bytes);
  s_their_have : option (list have);
  s_sent_hashes : list bytes;
  s_in_flight : bool;
  s_have_responded : bool;
  s_their_capabilities : option (list capability);
  s_read_only : bool;
  s_peer_read_only : bool;
  s_needs_reset : bool }.

(* what [State::parse] builds around the decoded shared heads *)
Definition state_persisted (shared : list bytes) : state :=
  mkState shared [] None None (Some []) [] false false None false false false.

Definition state_encode (s : state) : res bytes :=
  let* hs := encode_hashes (s_shared_heads s) in Ok (SYNC_STATE_TYPE :: hs).

Definition state_decode (i : bytes) : res state :=
  match i with
  | [] => Err
  | b :: i =>
    if negb (b =? SYNC_STATE_TYPE) then Err
    else let* (hs, _) := parse_hashes i in Ok (state_persisted hs)
  end.

(* ---- well-formedness of the values the Rust types can hold ---- *)
Definition wf_hashesb (hs : list bytes) : bool :=
  (lenN hs <? pow64) && forallb wf_hashb hs && hashes_sortedb hs.

(* a Bloom filter value that [BloomFilter::parse] can return and that survives [to_bytes]:
   either the default (empty) filter, or entries <> 0 with consistent sizes *)
Definition wf_filterb (f : filter) : bool :=
  if f_entries f =? 0 then
    (f_bpe f =? BITS_PER_ENTRY) && (f_probes f =? NUM_PROBES) && nil_b (f_bits f)
  else
    (f_entries f <=? u32_max) && (f_bpe f <=? u32_max) && (f_probes f <=? u32_max)
    && (lenN (f_bits f) =? bits_capacity (f_entries f) (f_bpe f))
    && (nil_b (f_bits f) || (f_probes f <=? 8 * lenN (f_bits f)))
    && wf_bytesb (f_bits f).

Definition wf_haveb (h : have) : bool := wf_hashesb (h_last_sync h) && wf_filterb (h_bloom h).

Definition wf_messageb (m : message) : bool :=
  wf_hashesb (m_heads m) && wf_hashesb (m_need m) && forallb wf_haveb (m_have m)
  && (lenN (m_have m) <? pow64) && (lenN (m_changes m) <? pow64)
  && forallb (fun c => wf_bytesb c && (lenN c <? pow64)) (m_changes m)
  && match m_flags m with Some f => f <? BITFIELD_MARKER | None => true end.
