(* Codec/SyncProofs.v — sync State / Message: round trips, decoders never panic, the fuel of
   [length_prefixed] is immaterial. *)
From AM Require Import Base.Prelude Base.Leb128 Base.Order Gen.Consts Codec.Bloom Codec.BloomProofs
  Codec.Hex Codec.HexProofs Codec.SyncCodec.
Local Open Scope N_scope.

Lemma HASH_SIZE_pos : 1 <= HASH_SIZE. Proof. vm_compute. discriminate. Qed.
Lemma marker_128 : BITFIELD_MARKER = 128. Proof. reflexivity. Qed.
Lemma uleb_enc_2 : uleb_enc 2 = [2]. Proof. reflexivity. Qed.

(* ---- items ---- *)
Lemma wf_hashb_len h : wf_hashb h = true -> lenN h = HASH_SIZE.
Proof. unfold wf_hashb, lenN. intros H. apply andb_true_iff in H. destruct H as [H _]. lia. Qed.

Lemma change_hash_app h r : lenN h = HASH_SIZE -> change_hash (h ++ r) = Ok (h, r).
Proof.
  intros Hl. unfold change_hash. rewrite <- Hl at 1. rewrite take_N_app. rewrite Hl, N.eqb_refl. reflexivity.
Qed.

Lemma change_hash_no_panic i : change_hash i <> Panic.
Proof.
  unfold change_hash. destruct (take_N HASH_SIZE i) as [[h r]|] eqn:E; [|discriminate].
  apply take_N_sound in E. destruct E as [_ E]. rewrite E, N.eqb_refl. discriminate.
Qed.

Lemma lpb_app b r : lenN b < pow64 -> length_prefixed_bytes (uleb_enc (lenN b) ++ b ++ r) = Ok (b, r).
Proof.
  intros H. unfold length_prefixed_bytes. rewrite uleb_roundtrip by assumption. cbn [bind].
  rewrite take_N_app. reflexivity.
Qed.

Lemma lpb_no_panic i : length_prefixed_bytes i <> Panic.
Proof.
  unfold length_prefixed_bytes. pose proof (uleb_dec_no_panic i).
  destruct (uleb_dec i) as [[len i1]| |]; cbn [bind]; try congruence.
  destruct (take_N len i1) as [[b i2]|]; discriminate.
Qed.

(* ---- length_prefixed ---- *)
Section ManyProofs.
  Context {A : Type} (item : bytes -> res (A * bytes)).

  Lemma lenN_cons (x : A) xs : lenN (x :: xs) = 1 + lenN xs.
  Proof. unfold lenN. cbn [length]. lia. Qed.

  Lemma read_many_enc (enc : A -> bytes) : forall xs fuel rest,
    (forall x r, In x xs -> item (enc x ++ r) = Ok (x, r)) ->
    (length xs <= fuel)%nat ->
    read_many item fuel (lenN xs) (concat (map enc xs) ++ rest) = Ok (xs, rest).
  Proof.
    induction xs as [|x xs IH]; intros fuel rest Hitem Hfuel.
    - destruct fuel; reflexivity.
    - destruct fuel as [|f]; [cbn in Hfuel; lia|].
      cbn [read_many]. rewrite lenN_cons.
      assert ((1 + lenN xs =? 0) = false) as -> by lia.
      cbn [map concat]. rewrite <- app_assoc. rewrite Hitem by (left; reflexivity). cbn [bind].
      assert (1 + lenN xs - 1 = lenN xs) as -> by lia.
      rewrite IH; [reflexivity| |cbn [length] in Hfuel; lia].
      intros y r Hy. apply Hitem. right. exact Hy.
  Qed.

  Lemma concat_length_ge (enc : A -> bytes) xs :
    (forall x, In x xs -> enc x <> []) -> (length xs <= length (concat (map enc xs)))%nat.
  Proof.
    induction xs as [|x xs IH]; intros H; [cbn; lia|].
    cbn [map concat length]. rewrite app_length.
    assert (enc x <> []) by (apply H; left; reflexivity).
    assert (1 <= length (enc x))%nat by (destruct (enc x); [congruence|cbn; lia]).
    specialize (IH (fun y Hy => H y (or_intror Hy))). lia.
  Qed.

  Lemma length_prefixed_enc (enc : A -> bytes) xs rest :
    lenN xs < pow64 ->
    (forall x r, In x xs -> item (enc x ++ r) = Ok (x, r)) ->
    (forall x, In x xs -> enc x <> []) ->
    length_prefixed item (uleb_enc (lenN xs) ++ concat (map enc xs) ++ rest) = Ok (xs, rest).
  Proof.
    intros Hl Hitem Hne. unfold length_prefixed. rewrite uleb_roundtrip by assumption. cbn [bind].
    apply read_many_enc; [exact Hitem|].
    rewrite app_length. pose proof (concat_length_ge enc xs Hne). lia.
  Qed.

  Lemma read_many_no_panic : (forall i, item i <> Panic) ->
    forall fuel count i, read_many item fuel count i <> Panic.
  Proof.
    intros Hitem. induction fuel as [|f IH]; intros count i; cbn [read_many];
      destruct (count =? 0); try discriminate.
    specialize (Hitem i). destruct (item i) as [[x i1]| |]; cbn [bind]; try congruence.
    specialize (IH (count - 1) i1). destruct (read_many item f (count - 1) i1) as [[r i2]| |];
      cbn [bind]; congruence.
  Qed.

  Lemma length_prefixed_no_panic : (forall i, item i <> Panic) ->
    forall i, length_prefixed item i <> Panic.
  Proof.
    intros Hitem i. unfold length_prefixed. pose proof (uleb_dec_no_panic i).
    destruct (uleb_dec i) as [[count i1]| |]; cbn [bind]; try congruence.
    apply read_many_no_panic, Hitem.
  Qed.

  (* the fuel is immaterial once it exceeds the input length, provided every item that succeeds
     consumes at least one byte: the Rust loop has no fuel *)
  Definition consumes : Prop := forall i x r, item i = Ok (x, r) -> (length r < length i)%nat.

  Lemma read_many_fuel : consumes ->
    forall f1 f2 count i, (length i < f1)%nat -> (length i < f2)%nat ->
      read_many item f1 count i = read_many item f2 count i.
  Proof.
    intros Hc. induction f1 as [|f1 IH]; intros f2 count i H1 H2; [lia|].
    destruct f2 as [|f2]; [lia|]. cbn [read_many]. destruct (count =? 0); [reflexivity|].
    destruct (item i) as [[x r]| |] eqn:E; cbn [bind]; try reflexivity.
    apply Hc in E. rewrite (IH f2 (count - 1) r) by lia. reflexivity.
  Qed.
End ManyProofs.

Lemma change_hash_consumes : consumes change_hash.
Proof.
  intros i x r H. unfold change_hash in H.
  destruct (take_N HASH_SIZE i) as [[h r']|] eqn:E; [|discriminate].
  destruct (lenN h =? HASH_SIZE); [|discriminate]. inversion H; subst.
  apply take_N_sound in E. destruct E as [-> E]. rewrite app_length.
  pose proof HASH_SIZE_pos. unfold lenN in E. lia.
Qed.

Lemma lpb_consumes : consumes length_prefixed_bytes.
Proof.
  intros i x r H. unfold length_prefixed_bytes in H.
  destruct (uleb_dec i) as [[len i1]| |] eqn:E; cbn [bind] in H; try discriminate.
  destruct (take_N len i1) as [[b i2]|] eqn:T; [|discriminate]. inversion H; subst.
  apply uleb_dec_rest in E. destruct E as (pre & -> & Hp).
  apply take_N_sound in T. destruct T as [-> _]. rewrite !app_length. lia.
Qed.

(* ---- hashes ---- *)
Lemma read_many_shrinks {A} (item : bytes -> res (A * bytes)) : consumes item ->
  forall fuel count i xs r, read_many item fuel count i = Ok (xs, r) -> (length r <= length i)%nat.
Proof.
  intros Hc. induction fuel as [|f IH]; intros count i xs r H; cbn [read_many] in H;
    destruct (count =? 0); try (inversion H; subst; lia); try discriminate.
  destruct (item i) as [[y s]| |] eqn:E; cbn [bind] in H; try discriminate.
  destruct (read_many item f (count - 1) s) as [[ys s2]| |] eqn:E2; cbn [bind] in H; try discriminate.
  inversion H; subst. apply IH in E2. apply Hc in E. lia.
Qed.

Lemma length_prefixed_consumes {A} (item : bytes -> res (A * bytes)) :
  consumes item -> consumes (length_prefixed item).
Proof.
  intros Hc i x r H. unfold length_prefixed in H.
  destruct (uleb_dec i) as [[count i1]| |] eqn:E; cbn [bind] in H; try discriminate.
  apply uleb_dec_rest in E. destruct E as (pre & -> & Hp). rewrite app_length.
  apply (read_many_shrinks item Hc) in H. lia.
Qed.

Lemma parse_hashes_consumes : consumes parse_hashes.
Proof. apply length_prefixed_consumes, change_hash_consumes. Qed.

Lemma parse_have_consumes : consumes parse_have.
Proof.
  intros i x r H. unfold parse_have in H.
  destruct (parse_hashes i) as [[ls i1]| |] eqn:E1; cbn [bind] in H; try discriminate.
  destruct (length_prefixed_bytes i1) as [[bb i2]| |] eqn:E2; cbn [bind] in H; try discriminate.
  destruct (parse bb) as [[f y]| |]; cbn [bind] in H; try discriminate.
  inversion H; subst. apply parse_hashes_consumes in E1. apply lpb_consumes in E2. lia.
Qed.

(* hence, for the three instances used by the sync codec (hashes, haves, changes), the model's
   fuel never runs out before the input does: any larger fuel gives the same result *)
Theorem length_prefixed_fuel_immaterial {A} (item : bytes -> res (A * bytes)) :
  consumes item -> forall f count i, (length i < f)%nat ->
  read_many item f count i = read_many item (S (length i)) count i.
Proof. intros Hc f count i Hf. apply read_many_fuel; [exact Hc|exact Hf|lia]. Qed.


Lemma wf_hashesb_parts hs : wf_hashesb hs = true ->
  lenN hs < pow64 /\ (forall h, In h hs -> wf_hashb h = true) /\ hashes_sortedb hs = true.
Proof.
  unfold wf_hashesb. intros H. apply andb_true_iff in H. destruct H as [H Hs].
  apply andb_true_iff in H. destruct H as [Hl Hf]. rewrite forallb_forall in Hf.
  repeat split; [lia|exact Hf|exact Hs].
Qed.

Definition hashes_bytes (hs : list bytes) : bytes := uleb_enc (lenN hs) ++ concat hs.

Lemma encode_hashes_ok hs : hashes_sortedb hs = true -> encode_hashes hs = Ok (hashes_bytes hs).
Proof. intros H. unfold encode_hashes. rewrite H. reflexivity. Qed.

Lemma wf_hash_nonempty h : wf_hashb h = true -> h <> [].
Proof.
  intros H Hn. apply wf_hashb_len in H. subst h. pose proof HASH_SIZE_pos. unfold lenN in H. cbn in H. lia.
Qed.

Lemma parse_hashes_app hs rest : wf_hashesb hs = true ->
  parse_hashes (hashes_bytes hs ++ rest) = Ok (hs, rest).
Proof.
  intros H. apply wf_hashesb_parts in H. destruct H as (Hl & Hf & _).
  unfold parse_hashes, hashes_bytes. rewrite <- app_assoc.
  rewrite <- (map_id hs) at 2.
  apply length_prefixed_enc; [exact Hl| |].
  - intros h r Hh. apply change_hash_app, wf_hashb_len, Hf, Hh.
  - intros h Hh. apply wf_hash_nonempty, Hf, Hh.
Qed.

Lemma parse_hashes_no_panic i : parse_hashes i <> Panic.
Proof. apply length_prefixed_no_panic, change_hash_no_panic. Qed.

(* ---- flags ---- *)
Lemma flags_all :
  forallb (fun f => flags_parse_bytes [LEGACY_V2_BYTE; N.lor BITFIELD_MARKER f] =? f)
          (map N.of_nat (seq 0 128)) = true.
Proof. vm_compute. reflexivity. Qed.

Lemma flags_value f : f < BITFIELD_MARKER ->
  flags_parse_bytes [LEGACY_V2_BYTE; N.lor BITFIELD_MARKER f] = f.
Proof.
  rewrite marker_128. intros H. pose proof flags_all as F. rewrite forallb_forall in F.
  apply N.eqb_eq. rewrite marker_128 in F. apply F.
  apply in_map_iff. exists (N.to_nat f). split; [apply N2Nat.id|]. apply in_seq. lia.
Qed.

(* a flag byte with the high bit set does not survive: the property fails there *)
Lemma flags_bit7_lost : flags_parse_bytes [LEGACY_V2_BYTE; N.lor BITFIELD_MARKER 128] = 0.
Proof. reflexivity. Qed.

(* ---- have ---- *)
Lemma wf_filterb_roundtrip f : wf_filterb f = true -> parse (to_bytes f) = Ok (f, []).
Proof.
  unfold wf_filterb. destruct (f_entries f =? 0) eqn:E0; intros H.
  - apply andb_true_iff in H. destruct H as [H Hb]. apply andb_true_iff in H. destruct H as [H1 H2].
    unfold to_bytes. rewrite E0. cbn [parse]. unfold default_filter.
    destruct f as [e b p bits]; cbn [f_entries f_bpe f_probes f_bits] in *.
    destruct bits; [|discriminate]. f_equal. f_equal. f_equal; lia.
  - repeat (apply andb_true_iff in H; destruct H as [H ?]).
    apply parse_to_bytes. unfold wf_filter. repeat split; try lia.
    intros Hne. destruct (f_bits f); [congruence|]. cbn [nil_b orb] in *. lia.
Qed.

Lemma to_bytes_len f : wf_filterb f = true -> lenN (to_bytes f) < pow64.
Proof.
  unfold wf_filterb, to_bytes. destruct (f_entries f =? 0) eqn:E0; intros H.
  - unfold lenN, pow64. cbn. lia.
  - repeat (apply andb_true_iff in H; destruct H as [H ?]).
    rewrite !lenN_app.
    pose proof (uenc_length 10 (f_entries f)). pose proof (uenc_length 10 (f_bpe f)).
    pose proof (uenc_length 10 (f_probes f)). unfold uleb_enc, lenN in *.
    assert (N.of_nat (length (f_bits f)) = bits_capacity (f_entries f) (f_bpe f)) as -> by lia.
    unfold bits_capacity, u32_max, pow64 in *.
    assert (f_entries f * f_bpe f <= 4294967295 * 4294967295) by nia.
    Ltac Zify.zify_post_hook ::= Z.div_mod_to_equations.
    lia.
Qed.

Definition have_bytes (h : have) : bytes :=
  hashes_bytes (h_last_sync h) ++ uleb_enc (lenN (to_bytes (h_bloom h))) ++ to_bytes (h_bloom h).

Lemma wf_haveb_parts h : wf_haveb h = true -> wf_hashesb (h_last_sync h) = true /\ wf_filterb (h_bloom h) = true.
Proof. unfold wf_haveb. intros H. apply andb_true_iff in H. exact H. Qed.

Lemma encode_have_ok h : wf_haveb h = true -> encode_have h = Ok (have_bytes h).
Proof.
  intros H. apply wf_haveb_parts in H. destruct H as [H _]. apply wf_hashesb_parts in H.
  destruct H as (_ & _ & Hs). unfold encode_have. rewrite encode_hashes_ok by assumption. reflexivity.
Qed.

Lemma encode_haves_ok hs : forallb wf_haveb hs = true ->
  encode_haves hs = Ok (concat (map have_bytes hs)).
Proof.
  induction hs as [|h t IH]; intros H; [reflexivity|].
  cbn [forallb] in H. apply andb_true_iff in H. destruct H as [Hh Ht].
  cbn [encode_haves]. rewrite encode_have_ok by assumption. cbn [bind].
  rewrite IH by assumption. reflexivity.
Qed.

Lemma parse_have_app h r : wf_haveb h = true -> parse_have (have_bytes h ++ r) = Ok (h, r).
Proof.
  intros H. apply wf_haveb_parts in H. destruct H as [Hs Hf].
  unfold parse_have, have_bytes. rewrite <- app_assoc.
  rewrite parse_hashes_app by assumption. cbn [bind].
  rewrite <- app_assoc. rewrite lpb_app by (apply to_bytes_len, Hf). cbn [bind].
  rewrite wf_filterb_roundtrip by assumption. cbn [bind]. destruct h; reflexivity.
Qed.

Lemma have_bytes_nonempty h : have_bytes h <> [].
Proof.
  unfold have_bytes, hashes_bytes. intros H. apply app_eq_nil in H. destruct H as [H _].
  apply app_eq_nil in H. destruct H as [H _]. exact (uenc_nonempty _ H).
Qed.

Lemma parse_have_no_panic i : parse_have i <> Panic.
Proof.
  unfold parse_have. pose proof (parse_hashes_no_panic i).
  destruct (parse_hashes i) as [[ls i1]| |]; cbn [bind]; try congruence.
  pose proof (lpb_no_panic i1). destruct (length_prefixed_bytes i1) as [[bb i2]| |]; cbn [bind]; try congruence.
  pose proof (bloom_parse_no_panic bb). destruct (parse bb) as [[f x]| |]; cbn [bind]; congruence.
Qed.

(* ---- changes ---- *)
Definition change_bytes (c : bytes) : bytes := uleb_enc (lenN c) ++ c.

Lemma encode_changes_concat cs : encode_changes cs = concat (map change_bytes cs).
Proof.
  induction cs as [|c t IH]; [reflexivity|]. cbn [encode_changes map concat]. unfold change_bytes.
  rewrite IH, <- app_assoc. reflexivity.
Qed.

(* ---- message ---- *)
Lemma wf_messageb_parts m : wf_messageb m = true ->
  wf_hashesb (m_heads m) = true /\ wf_hashesb (m_need m) = true /\ forallb wf_haveb (m_have m) = true /\
  lenN (m_have m) < pow64 /\ lenN (m_changes m) < pow64 /\
  (forall c, In c (m_changes m) -> lenN c < pow64) /\
  match m_flags m with Some f => f < BITFIELD_MARKER | None => True end.
Proof.
  unfold wf_messageb. intros H.
  apply andb_true_iff in H. destruct H as [H A7].
  apply andb_true_iff in H. destruct H as [H A6].
  apply andb_true_iff in H. destruct H as [H A5].
  apply andb_true_iff in H. destruct H as [H A4].
  apply andb_true_iff in H. destruct H as [H A3].
  apply andb_true_iff in H. destruct H as [A1 A2].
  split; [exact A1|]. split; [exact A2|]. split; [exact A3|].
  split; [lia|]. split; [lia|]. split.
  - intros c Hc. rewrite forallb_forall in A6. specialize (A6 c Hc).
    apply andb_true_iff in A6. destruct A6 as [_ A6]. lia.
  - destruct (m_flags m); [lia|exact I].
Qed.

Lemma version_parse_byte v i : version_parse (version_byte v :: i) = Ok (v, i).
Proof. destruct v; reflexivity. Qed.

Theorem message_roundtrip m : wf_messageb m = true ->
  exists w, message_encode m = Ok w /\ message_decode w = Ok m.
Proof.
  intros Hwf. apply wf_messageb_parts in Hwf.
  destruct Hwf as (Hh & Hn & Hv & Lv & Lc & Lcs & Hf).
  pose proof (wf_hashesb_parts _ Hh) as (_ & _ & Sh). pose proof (wf_hashesb_parts _ Hn) as (_ & _ & Sn).
  unfold message_encode. rewrite (encode_hashes_ok _ Sh), (encode_hashes_ok _ Sn). cbn [bind].
  rewrite (encode_haves_ok _ Hv). cbn [bind]. eexists. split; [reflexivity|].
  unfold message_decode, message_parse. rewrite version_parse_byte. cbn [bind].
  rewrite <- !app_assoc.
  rewrite parse_hashes_app by assumption. cbn [bind].
  rewrite parse_hashes_app by assumption. cbn [bind].
  rewrite length_prefixed_enc; [|exact Lv| |].
  2:{ intros h r Hin. apply parse_have_app. rewrite forallb_forall in Hv. apply Hv, Hin. }
  2:{ intros h _. apply have_bytes_nonempty. }
  cbn [bind]. rewrite encode_changes_concat.
  rewrite length_prefixed_enc; [|exact Lc| |].
  2:{ intros c r Hin. unfold change_bytes. rewrite <- app_assoc. apply lpb_app, Lcs, Hin. }
  2:{ intros c _ Hc. unfold change_bytes in Hc. apply app_eq_nil in Hc. destruct Hc as [Hc _]. exact (uenc_nonempty _ Hc). }
  cbn [bind].
  destruct m as [heads need hv cs fl v]; cbn [m_flags m_heads m_need m_have m_changes m_version] in *.
  destruct fl as [f|].
  - unfold flags_encode. rewrite uleb_enc_2. cbn [app].
    change [2; LEGACY_V2_BYTE; N.lor BITFIELD_MARKER f]
      with (uleb_enc (lenN [LEGACY_V2_BYTE; N.lor BITFIELD_MARKER f]) ++ [LEGACY_V2_BYTE; N.lor BITFIELD_MARKER f] ++ []).
    rewrite lpb_app by (vm_compute; reflexivity). cbn [bind].
    rewrite flags_value by assumption. reflexivity.
  - reflexivity.
Qed.

Lemma message_parse_no_panic i : message_parse i <> Panic.
Proof.
  unfold message_parse.
  assert (version_parse i <> Panic).
  { unfold version_parse. destruct i as [|b i]; [discriminate|].
    destruct (b =? MESSAGE_TYPE_SYNC); [discriminate|]. destruct (b =? MESSAGE_TYPE_SYNC_V2); discriminate. }
  destruct (version_parse i) as [[v i1]| |]; cbn [bind]; try congruence.
  pose proof (parse_hashes_no_panic i1). destruct (parse_hashes i1) as [[hd i2]| |]; cbn [bind]; try congruence.
  pose proof (parse_hashes_no_panic i2). destruct (parse_hashes i2) as [[nd i3]| |]; cbn [bind]; try congruence.
  pose proof (length_prefixed_no_panic parse_have parse_have_no_panic i3).
  destruct (length_prefixed parse_have i3) as [[hv i4]| |]; cbn [bind]; try congruence.
  pose proof (length_prefixed_no_panic length_prefixed_bytes lpb_no_panic i4).
  destruct (length_prefixed length_prefixed_bytes i4) as [[cs i5]| |]; cbn [bind]; try congruence.
  destruct i5 as [|b i5]; cbn [bind]; [discriminate|].
  pose proof (lpb_no_panic (b :: i5)). destruct (length_prefixed_bytes (b :: i5)) as [[raw i6]| |]; cbn [bind]; congruence.
Qed.

Lemma message_decode_no_panic i : message_decode i <> Panic.
Proof.
  unfold message_decode. pose proof (message_parse_no_panic i).
  destruct (message_parse i) as [[m r]| |]; cbn [bind]; congruence.
Qed.

(* ---- state ---- *)
Theorem state_roundtrip s : wf_hashesb (s_shared_heads s) = true ->
  exists w, state_encode s = Ok w /\ state_decode w = Ok (state_persisted (s_shared_heads s)).
Proof.
  intros H. pose proof (wf_hashesb_parts _ H) as (_ & _ & Hs).
  unfold state_encode. rewrite (encode_hashes_ok _ Hs). cbn [bind]. eexists. split; [reflexivity|].
  cbn [state_decode]. rewrite N.eqb_refl. cbn [negb].
  rewrite <- (app_nil_r (hashes_bytes (s_shared_heads s))).
  rewrite parse_hashes_app by assumption. reflexivity.
Qed.

Lemma state_decode_no_panic i : state_decode i <> Panic.
Proof.
  unfold state_decode. destruct i as [|b i]; [discriminate|].
  destruct (negb (b =? SYNC_STATE_TYPE)); [discriminate|].
  pose proof (parse_hashes_no_panic i). destruct (parse_hashes i) as [[hs r]| |]; cbn [bind]; congruence.
Qed.

(* unsorted hashes: the encoder's debug assertion *)
Lemma encode_hashes_unsorted hs : hashes_sortedb hs = false -> encode_hashes hs = Panic.
Proof. intros H. unfold encode_hashes. rewrite H. reflexivity. Qed.

(* ---- values the Rust types admit but the wire format cannot carry ---- *)
Definition msg_bit7 : message := mkMsg [] [] [] [] (Some 128) V1.
Definition msg_bloom0 : message := mkMsg [] [] [mkHave [] (mkFilter 0 5 3 [])] [] None V1.

Lemma message_flag_bit7_refuted :
  exists m w, m_flags m = Some 128 /\ message_encode m = Ok w /\
              message_decode w = Ok (mkMsg (m_heads m) (m_need m) (m_have m) (m_changes m) (Some 0) (m_version m)).
Proof. exists msg_bit7, [66; 0; 0; 0; 0; 2; 2; 128]. split; [reflexivity|]. split; vm_compute; reflexivity. Qed.

Lemma message_bloom_zero_refuted :
  exists m w, parse [0; 5; 3] = Ok (mkFilter 0 5 3 [], []) /\ m_have m = [mkHave [] (mkFilter 0 5 3 [])] /\
              message_encode m = Ok w /\
              message_decode w = Ok (mkMsg [] [] [mkHave [] default_filter] [] None V1).
Proof. exists msg_bloom0, [66; 0; 0; 1; 0; 0; 0]. split; [vm_compute; reflexivity|]. split; [reflexivity|]. split; vm_compute; reflexivity. Qed.
