(* Crdt/Anon.v — anonymization as a RENAMING of a history, and the SHAPE of a document state.

   Mirrors rust/automerge/src/anonymize.rs:
     Anonymization::anonymize      -> rn_change (deps through the hash map, actor through the actor map,
                                      every operation through anonymize_operation; hash recomputed = r_hash)
     Anonymization::actor_map      -> anon_actor (rank in the sorted set of all actors, written as
                                      prefix(8 bytes) ++ rank as 8 big-endian bytes)
     anonymize_operation           -> rn_op (object id, element id and predecessors through the actor map;
                                      map keys and mark names through the structural substitution;
                                      Put / MarkBegin values through anonymize_scalar; Increment gets a fresh
                                      value; Make / Delete / MarkEnd untouched)
     anonymize_scalar              -> r_val: a fresh value PER OCCURRENCE (the op id is an argument of the
                                      value map: two equal values are in general replaced by different ones)
     anonymize_structural_string,
     structural_character_rank,
     structural_character_from_rank,
     StructuralPermutations::replace -> struct_rank / struct_from_rank / struct_replace / struct_string
     anonymize_content_string      -> content_char / content_string (whitespace and ASCII control characters
                                      are kept, other ASCII becomes a byte of the synthetic text, everything
                                      else goes through the content substitution)
   and rust/automerge/src/anonymize/shape.rs (what the test-suite's ShapeSignature keeps of a value / key):
     character_class               -> kclass (structural strings), cclass (content strings, where retained
                                      characters are kept verbatim)
     scalar_shape                  -> sshape.

   The random choices of the code (prefix, derangement tables, synthetic bytes, fresh numbers) are
   parameters here: the theorems hold for every choice.

   shape : obs -> shape is what the PROPERTY promises of the state at some heads: per object (in creation
   order, which a renaming preserves) its type and
     - list / text: per visible element, in document order, its register: the kinds of the conflicting
       values in ascending op id (conflict structure), strings with the UTF-8 length of each character
       (hence their width in every text encoding), bytes with their length, child objects by their
       position in the object list (nesting);
     - map / table: per key the UTF-8 lengths of its characters and its register — as a SORTED list: key names change,
       and with them the order in which keys are listed, so the shape of a map is the multiset of its
       entries.
   No proofs here (Crdt/AnonProofs.v). *)
From AM Require Import Base.Prelude Base.Order Crdt.Types Crdt.Interp Crdt.Doc Crdt.Local.
Local Open Scope N_scope.

(* ------------------------------------------------------------------ renaming *)
Record renaming := mkRen {
  r_actor : actor -> actor;
  r_key : list N -> list N;
  r_name : list N -> list N;
  r_val : opid -> scalar -> scalar;
  r_inc : opid -> Z -> Z;
  r_hash : N -> N }.

Section Rename.
  Variable R : renaming.

  (* ObjectId::Root and ElementId::Head are constructors of their own in the code and are not mapped;
     the model writes both as (0, []) *)
  Definition rn_id (x : opid) : opid :=
    if opid_eqb x root_id then root_id else (fst x, r_actor R (snd x)).

  Definition rn_key (k : key) : key :=
    match k with KMap s => KMap (r_key R s) | KSeq e => KSeq (rn_id e) end.

  Definition rn_action (id : opid) (a : action) : action :=
    match a with
    | APut v => APut (r_val R id v)
    | AInc z => AInc (r_inc R id z)
    | AMarkBegin e n v => AMarkBegin e (r_name R n) (r_val R id v)
    | AMake t => AMake t
    | ADel => ADel
    | AMarkEnd e => AMarkEnd e
    end.

  Definition rn_op (o : op) : op :=
    mkOp (rn_id (op_id o)) (rn_id (op_obj o)) (rn_key (op_key o)) (op_insert o)
         (rn_action (op_id o) (op_action o)) (map rn_id (op_pred o)).

  Definition rn_change (c : change) : change :=
    mkChange (r_hash R (ch_hash c)) (r_actor R (ch_actor c)) (ch_seq c) (ch_start c)
             (map (r_hash R) (ch_deps c)) (map rn_op (ch_ops c)).

  Definition rename (cs : list change) : list change := map rn_change cs.
End Rename.

(* every op id a list of ops mentions: ids, objects, element references, predecessors — and the root *)
Definition op_ids (o : op) : list opid :=
  op_id o :: op_obj o :: (match op_key o with KSeq e => [e] | KMap _ => [] end) ++ op_pred o.
Definition ids_of (ops : list op) : list opid := root_id :: flat_map op_ids ops.

(* ------------------------------------------------------------------ the actor map of the code *)
(* 8 big-endian bytes of a u64 *)
Definition be64 (n : N) : list N :=
  map (fun i => (n / 2 ^ (8 * i)) mod 256) [7; 6; 5; 4; 3; 2; 1; 0].

(* BTreeSet<ActorId>: sorted, without duplicates *)
Definition actor_set (l : list actor) : list actor := dedup_sorted (isort bytes_cmp l).

Fixpoint rank_of (s : list actor) (a : actor) : option N :=
  match s with
  | [] => None
  | b :: t => if nlist_eqb b a then Some 0
              else match rank_of t a with Some n => Some (n + 1) | None => None end
  end.

(* mapped_actor: Panic for an actor that is not in the table (`expect`) *)
Definition anon_actor (prefix : list N) (s : list actor) (a : actor) : res actor :=
  match rank_of s a with Some n => Ok (prefix ++ be64 n) | None => Panic end.

(* ------------------------------------------------------------------ structural substitution *)
Inductive salpha := PrintableAscii | AsciiControl | TwoByte | ThreeByte | FourByte.

Definition u8w (c : N) : N := cp_width EncU8 c.

(* structural_character_rank: (alphabet, rank, alphabet size); Rust chars are < 0x110000 and not
   surrogates *)
Definition struct_rank (c : N) : salpha * N * N :=
  if u8w c =? 1 then
    if (32 <=? c) && (c <=? 126) then (PrintableAscii, c - 32, 95)
    else if c <? 32 then (AsciiControl, c, 33)
    else (AsciiControl, 32, 33)
  else if u8w c =? 2 then (TwoByte, c - 128, 1920)
  else if u8w c =? 3 then
    if c <? 55296 then (ThreeByte, c - 2048, 61440) else (ThreeByte, 53248 + c - 57344, 61440)
  else (FourByte, c - 65536, 1048576).

(* structural_character_from_rank original rank *)
Definition struct_from_rank (orig rank : N) : N :=
  if u8w orig =? 1 then
    if (32 <=? orig) && (orig <=? 126) then 32 + rank
    else (if rank <? 32 then rank else 127)
  else if u8w orig =? 2 then 128 + rank
  else if u8w orig =? 3 then (if rank <? 53248 then 2048 + rank else 57344 + rank - 53248)
  else 65536 + rank.

(* the five lazily generated tables: any functions here *)
Definition tables := salpha -> N -> N.

Definition struct_replace (p : tables) (c : N) : N :=
  let '(al, rk, _) := struct_rank c in struct_from_rank c (p al rk).

Definition struct_string (p : tables) (s : list N) : list N := map (struct_replace p) s.

(* char::is_whitespace (White_Space) and char::is_ascii_control *)
Definition is_ctl (c : N) : bool := (c <? 32) || (c =? 127).
Definition is_ws (c : N) : bool :=
  ((9 <=? c) && (c <=? 13)) || (c =? 32) || (c =? 133) || (c =? 160) || (c =? 5760)
  || ((8192 <=? c) && (c <=? 8202)) || (c =? 8232) || (c =? 8233) || (c =? 8239) || (c =? 8287)
  || (c =? 12288).

(* anonymize_content_string, one character; [syn] is the synthetic byte drawn for it *)
Definition content_char (p : tables) (syn : N) (c : N) : N :=
  if is_ws c || is_ctl c then c
  else if c <? 128 then syn
  else struct_replace p c.

(* ------------------------------------------------------------------ shape *)
(* the FINE character classes of shape.rs (what the test-suite's ShapeSignature keeps):
   content strings: retained characters verbatim (16 + c), replaced ones by their UTF-8 length;
   structural strings: ASCII control = 0, otherwise the UTF-8 length (1 = printable ASCII).
   The code keeps the structural classes (since the repair bd9e88bf3 of the DEL rank) but not always the
   content classes (AnonCodeProofs: content_class_refuted);
   the shape of a STATE below keeps the UTF-8 length of each character only (u8w), which determines the
   width in every text encoding and which the code does preserve. *)
Definition cclass (c : N) : N := if is_ws c || is_ctl c then 16 + c else u8w c.
Definition kclass (c : N) : N := if is_ctl c then 0 else u8w c.

Definition sshape (v : scalar) : list N :=
  match v with
  | SNull => [0] | SBool _ => [1] | SInt _ => [2] | SUint _ => [3] | SF64 _ => [4]
  | SStr s => 5 :: map u8w s
  | SBytes b => [6; N.of_nat (length b)]
  | SCounter _ => [7]
  | STimestamp _ => [8]
  | SUnknown t b => [9; t; N.of_nat (length b)]
  end.

Definition tcode (t : objtype) : N :=
  match t with OMap => 0 | OList => 1 | OText => 2 | OTable => 3 end.

Fixpoint idx (ids : list opid) (x : opid) : N :=
  match ids with [] => 0 | y :: t => if opid_eqb y x then 0 else 1 + idx t x end.

Definition vshape (ids : list opid) (e : opid * vobs) : list N :=
  match snd e with
  | VS s => sshape s
  | VC _ => [7]
  | VO t => [10 + tcode t; idx ids (fst e)]
  end.

Definition rshape (ids : list opid) (r : regobs) : list (list N) := map (vshape ids) r.

Fixpoint list_cmp {A} (cmp : A -> A -> comparison) (a b : list A) : comparison :=
  match a, b with
  | [], [] => Eq
  | [], _ :: _ => Lt
  | _ :: _, [] => Gt
  | x :: a', y :: b' => match cmp x y with Eq => list_cmp cmp a' b' | c => c end
  end.
Definition lcmp : list (list N) -> list (list N) -> comparison := list_cmp bytes_cmp.

Definition eshape (ids : list opid) (kr : list N * regobs) : list (list N) :=
  map u8w (fst kr) :: rshape ids (snd kr).

Definition oshape_t := (objtype * list (list (list N)))%type.
Definition shape_t := list oshape_t.

Definition oshape (ids : list opid) (o : oobs) : oshape_t :=
  (oo_type o,
   match oo_entries o with
   | EL l => map (rshape ids) l
   | EM l => isort lcmp (map (eshape ids) l)
   end).

Definition shape (o : obs) : shape_t := map (oshape (map oo_id o)) o.

(* ---- what a shape determines ---- *)
(* width in encoding e of a character whose UTF-8 length is k *)
Definition class_width (e : enc) (k : N) : N :=
  match e with EncCP => 1 | EncU8 => k | EncU16 => if k =? 4 then 2 else 1 end.

(* width of a text element with register shape rs (OpBuilder::width: the winner's string, U+FFFC for
   a non-string) *)
Definition rs_width (e : enc) (rs : list (list N)) : N :=
  match last (map Some rs) None with
  | Some (5 :: cl) => fold_right (fun k s => class_width e k + s) 0 cl
  | _ => cp_width e 65532
  end.

(* per object: number of entries, total width in encoding e (text), sizes of the registers *)
Definition sh_len (s : oshape_t) : N := N.of_nat (length (snd s)).
Definition sh_width (e : enc) (s : oshape_t) : N :=
  match fst s with
  | OText => fold_right (fun rs a => rs_width e rs + a) 0 (snd s)
  | OList => N.of_nat (length (snd s))
  | _ => 0
  end.

(* the same quantities read off the observation *)
Definition obj_len (o : oobs) : N :=
  match oo_entries o with EL l => N.of_nat (length l) | EM l => N.of_nat (length l) end.
Definition obj_width (e : enc) (o : oobs) : N :=
  match oo_entries o with
  | EL l => match oo_type o with
            | OText => fold_right (fun r a => elem_w e OText r + a) 0 l
            | OList => N.of_nat (length l)
            | _ => 0
            end
  | EM _ => 0
  end.

(* ---- equality of shapes ---- *)
Definition ll_eqb : list (list N) -> list (list N) -> bool := list_eqb nlist_eqb.
Definition oshape_eqb (a b : oshape_t) : bool :=
  objtype_eqb (fst a) (fst b) && list_eqb ll_eqb (snd a) (snd b).
Definition shape_eqb : shape_t -> shape_t -> bool := list_eqb oshape_eqb.

(* ------------------------------------------------------------------ histories *)
(* every id of a real operation has counter >= 1 (start_op is a NonZeroU64); (0, []) is the root / head *)
Definition wf_ids (ops : list op) : Prop :=
  (forall x, In x (ids_of ops) -> x = root_id \/ 1 <= fst x) /\ (forall o, In o ops -> 1 <= fst (op_id o)).
Definition wf_ids_b (ops : list op) : bool :=
  forallb (fun x => opid_eqb x root_id || (1 <=? fst x)) (ids_of ops) && forallb (fun o => 1 <=? fst (op_id o)) ops.

(* actors and hashes a history (read at heads hs) mentions (Change::actors of every change: the
   author and every actor named by an op id, object id, element id or predecessor) *)
Definition id_actors (ops : list op) : list actor :=
  map snd (filter (fun x => negb (opid_eqb x root_id)) (ids_of ops)).
Definition hist_actors (appl : list change) : list actor :=
  map ch_actor appl ++ id_actors (all_ops appl).
Definition hist_hashes (appl : list change) (hs : list N) : list N :=
  hs ++ hashes appl ++ flat_map ch_deps appl.

Definition rn_clock (R : renaming) (k : clock) : clock := map (fun an => (r_actor R (fst an), snd an)) k.

(* ------------------------------------------------------------------ the substitution tables of the code *)
Definition alpha_size (al : salpha) : N :=
  match al with PrintableAscii => 95 | AsciiControl => 33 | TwoByte => 1920 | ThreeByte => 61440 | FourByte => 1048576 end.
(* a Rust char: below 0x110000 and not a surrogate *)
Definition valid_char (c : N) : Prop := c < 1114112 /\ ~ (55296 <= c /\ c < 57344).
(* random_derangement: a permutation of 0..size without fixed points *)
Definition tables_ok (p : tables) : Prop := forall al r, r < alpha_size al -> p al r < alpha_size al.
Definition tables_inj (p : tables) : Prop :=
  forall al r1 r2, r1 < alpha_size al -> r2 < alpha_size al -> p al r1 = p al r2 -> r1 = r2.
Definition tables_derange (p : tables) : Prop := forall al r, r < alpha_size al -> p al r <> r.

(* the character a rank stands for *)
Definition decode (al : salpha) (r : N) : N :=
  match al with
  | PrintableAscii => 32 + r
  | AsciiControl => if r <? 32 then r else 127
  | TwoByte => 128 + r
  | ThreeByte => if r <? 53248 then 2048 + r else 4096 + r
  | FourByte => 65536 + r
  end.

(* big-endian value of a digit string *)
Fixpoint bev (l : list N) : N :=
  match l with [] => 0 | d :: t => d * 256 ^ N.of_nat (length t) + bev t end.

(* the renaming the code builds: actor table s (the sorted set of all actors), common prefix, tables p for
   keys and mark names, and the values / increments / hashes it happens to produce *)
Definition code_renaming (prefix : list N) (s : list actor) (p : tables)
  (vals : opid -> scalar -> scalar) (incs : opid -> Z -> Z) (fh : N -> N) : renaming :=
  mkRen (fun a => match anon_actor prefix s a with Ok x => x | _ => a end)
        (struct_string p) (struct_string p) vals incs fh.

(* anonymize_content_string / anonymize_bytes / anonymize_scalar with the random draws as parameters:
   syn i = the synthetic byte drawn for position i, fz / fu / fb the fresh numbers and boolean *)
Definition content_string (p : tables) (syn : nat -> N) (s : list N) : list N :=
  map (fun ic => content_char p (syn (fst ic)) (snd ic)) (combine (seq 0 (length s)) s).
Definition anon_bytes (syn : nat -> N) (b : list N) : list N :=
  map (fun ic => syn (fst ic)) (combine (seq 0 (length b)) b).
Definition anon_scalar (p : tables) (syn : nat -> N) (fz : Z) (fu : N) (fb : bool) (v : scalar) : scalar :=
  match v with
  | SBytes b => SBytes (anon_bytes syn b)
  | SStr s => SStr (content_string p syn s)
  | SInt _ => SInt fz
  | SUint _ => SUint fu
  | SF64 _ => SF64 fu
  | SCounter _ => SCounter fz
  | STimestamp _ => STimestamp fz
  | SBool _ => SBool fb
  | SUnknown t b => SUnknown t (anon_bytes syn b)
  | SNull => SNull
  end.

Definition scalar_valid (v : scalar) : Prop := match v with SStr s => Forall valid_char s | _ => True end.
