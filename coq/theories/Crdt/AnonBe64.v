(* Crdt/AnonBe64.v — big-endian ranks; part of: Crdt/AnonCodeProofs.v — the pieces of anonymize.rs behind the renaming (C31): the actor map is order
   preserving; the structural substitution keeps UTF-8 lengths, and is injective / class preserving exactly
   when no control character is sent to the rank of DEL (refuted in general); content strings keep their
   UTF-8 lengths but not always the whitespace classes of shape.rs. *)
From AM Require Import Base.Prelude Base.Order Crdt.Types Crdt.Interp Crdt.Doc Crdt.Local Crdt.Anon Crdt.AnonProofs.
From Coq Require Import Sorting.Sorted.
Local Open Scope N_scope.

(* ------------------------------------------------------------------ big-endian ranks *)
Definition digit (d : N) : Prop := d < 256.

Lemma bev_bound l : Forall digit l -> bev l < 256 ^ N.of_nat (length l).
Proof.
  induction 1 as [|d t Hd Ht IH]; [cbn; lia|].
  cbn [bev length]. rewrite Nat2N.inj_succ, N.pow_succ_r'. unfold digit in Hd.
  set (P := 256 ^ N.of_nat (length t)) in *.
  assert ((d + 1) * P <= 256 * P) by (apply N.mul_le_mono_r; lia). lia.
Qed.

Lemma bytes_cmp_bev l1 : forall l2, length l1 = length l2 -> Forall digit l1 -> Forall digit l2 ->
  bytes_cmp l1 l2 = N.compare (bev l1) (bev l2).
Proof.
  induction l1 as [|a t1 IH]; intros [|d t2] Hlen F1 F2; try discriminate Hlen; [reflexivity|].
  injection Hlen as Hlen. inversion F1 as [|? ? Ha Ft1]; subst. inversion F2 as [|? ? Hd Ft2]; subst.
  cbn [bytes_cmp bev]. rewrite <- Hlen.
  pose proof (bev_bound t1 Ft1) as B1. pose proof (bev_bound t2 Ft2) as B2. rewrite <- Hlen in B2.
  set (P := 256 ^ N.of_nat (length t1)) in *.
  destruct (N.compare a d) eqn:E.
  - apply N.compare_eq in E. subst d. rewrite (IH t2) by assumption.
    destruct (N.compare_spec (bev t1) (bev t2)) as [E2|E2|E2]; symmetry;
      [apply N.compare_eq_iff; lia|apply N.compare_lt_iff; lia|apply N.compare_gt_iff; lia].
  - symmetry. apply N.compare_lt_iff. assert (E' : a < d) by exact E.
    assert ((a + 1) * P <= d * P) by (apply N.mul_le_mono_r; lia). lia.
  - symmetry. apply N.compare_gt_iff. assert (E' : d < a) by (apply N.compare_gt_iff; exact E).
    assert ((d + 1) * P <= a * P) by (apply N.mul_le_mono_r; lia). lia.
Qed.

Lemma be64_digits n : Forall digit (be64 n) /\ length (be64 n) = 8%nat.
Proof.
  unfold be64. cbn [map length]. split; [|reflexivity].
  repeat constructor; unfold digit; apply N.mod_lt; discriminate.
Qed.

Ltac Zify.zify_post_hook ::= Z.div_mod_to_equations.

Lemma bev_be64 n : n < 18446744073709551616 -> bev (be64 n) = n.
Proof.
  intros H. unfold be64. cbn [map bev length].
  change (2 ^ (8 * 7)) with 72057594037927936. change (2 ^ (8 * 6)) with 281474976710656.
  change (2 ^ (8 * 5)) with 1099511627776. change (2 ^ (8 * 4)) with 4294967296.
  change (2 ^ (8 * 3)) with 16777216. change (2 ^ (8 * 2)) with 65536.
  change (2 ^ (8 * 1)) with 256. change (2 ^ (8 * 0)) with 1.
  change (256 ^ N.of_nat 7) with 72057594037927936. change (256 ^ N.of_nat 6) with 281474976710656.
  change (256 ^ N.of_nat 5) with 1099511627776. change (256 ^ N.of_nat 4) with 4294967296.
  change (256 ^ N.of_nat 3) with 16777216. change (256 ^ N.of_nat 2) with 65536.
  change (256 ^ N.of_nat 1) with 256. change (256 ^ N.of_nat 0) with 1.
  lia.
Qed.

Ltac Zify.zify_post_hook ::= idtac.

Lemma be64_mono n m : n < 18446744073709551616 -> m < 18446744073709551616 ->
  bytes_cmp (be64 n) (be64 m) = N.compare n m.
Proof.
  intros Hn Hm. destruct (be64_digits n) as [Dn Ln], (be64_digits m) as [Dm Lm].
  rewrite bytes_cmp_bev by (try assumption; congruence). rewrite !bev_be64 by assumption. reflexivity.
Qed.

Lemma bytes_cmp_prefix p a b : bytes_cmp (p ++ a) (p ++ b) = bytes_cmp a b.
Proof. induction p as [|x p IH]; [reflexivity|]. cbn [app bytes_cmp]. rewrite N.compare_refl. exact IH. Qed.

