(* Crdt/AnonCodeProofs.v — the pieces of anonymize.rs behind the renaming (C31): the actor map is order
   preserving (big-endian ranks: Crdt/AnonBe64.v); the structural substitution keeps UTF-8 lengths, and is
   injective and class preserving (since the repair of the DEL rank, bd9e88bf3); content strings keep their UTF-8 lengths but not always the whitespace classes of shape.rs. *)
From AM Require Import Base.Prelude Base.Order Crdt.Types Crdt.Interp Crdt.Doc Crdt.Local Crdt.Anon Crdt.AnonProofs Crdt.AnonBe64.
From Coq Require Import Sorting.Sorted.
Local Open Scope N_scope.

(* ------------------------------------------------------------------ ranks in the sorted actor set *)
Definition strictly (s : list actor) : Prop := StronglySorted (fun a b => bytes_cmp a b = Lt) s.

Lemma sorted_dedup_sorted l : sorted bytes_cmp l -> sorted bytes_cmp (dedup_sorted l).
Proof.
  unfold sorted. induction l as [|a t IH]; intros S; [constructor|].
  cbn [dedup_sorted]. destruct t as [|b u]; [exact S|].
  inversion S as [|? ? St Ha]; subst.
  destruct (nlist_eqb a b); [apply IH, St|].
  constructor; [apply IH, St|].
  rewrite Forall_forall in *. intros x Hx. apply (proj1 (in_dedup_sorted _ _)) in Hx. apply Ha, Hx.
Qed.

Lemma strictly_of_sorted_nodup s : sorted bytes_cmp s -> NoDup s -> strictly s.
Proof.
  unfold sorted, strictly. induction 1 as [|a t St IH Ha]; intros ND; [constructor|].
  inversion ND as [|? ? Hn NDt]; subst. constructor; [apply IH, NDt|].
  rewrite Forall_forall in *. intros x Hx. specialize (Ha x Hx). unfold le in Ha.
  destruct (bytes_cmp a x) eqn:E; [|reflexivity|congruence].
  apply (cmp_eq bytes_cmp_total) in E. subst. contradiction.
Qed.

Lemma actor_set_strictly l : strictly (actor_set l).
Proof.
  apply strictly_of_sorted_nodup; [|apply NoDup_actor_set].
  unfold actor_set. apply sorted_dedup_sorted, isort_sorted, bytes_cmp_total.
Qed.

Lemma rank_some_in s a n : rank_of s a = Some n -> In a s /\ n < N.of_nat (length s).
Proof.
  revert n. induction s as [|b t IH]; intros n; cbn [rank_of length]; [discriminate|].
  destruct (nlist_eqb b a) eqn:E.
  - intros H. inversion H; subst. apply nlist_eqb_eq in E. split; [left; exact E|lia].
  - destruct (rank_of t a) as [m|]; [|discriminate]. intros H. inversion H; subst.
    destruct (IH m eq_refl) as [Hi Hl]. split; [right; exact Hi|lia].
Qed.

Lemma rank_in s a : In a s -> exists n, rank_of s a = Some n.
Proof.
  induction s as [|b t IH]; intros H; [destruct H|]. cbn [rank_of].
  destruct (nlist_eqb b a) eqn:E; [exists 0; reflexivity|].
  destruct H as [->|H]; [rewrite (proj2 (nlist_eqb_eq a a) eq_refl) in E; discriminate|].
  destruct (IH H) as [n Hn]. rewrite Hn. exists (n + 1). reflexivity.
Qed.

Lemma rank_mono s : strictly s -> forall a b n m,
  rank_of s a = Some n -> rank_of s b = Some m -> N.compare n m = bytes_cmp a b.
Proof.
  unfold strictly. induction 1 as [|c t St IH Hc]; intros a b n m; cbn [rank_of]; [discriminate|].
  rewrite Forall_forall in Hc.
  destruct (nlist_eqb c a) eqn:Ea, (nlist_eqb c b) eqn:Eb.
  - apply nlist_eqb_eq in Ea, Eb. subst. intros H1 H2. inversion H1; inversion H2; subst.
    rewrite (cmp_refl bytes_cmp bytes_cmp_total). reflexivity.
  - apply nlist_eqb_eq in Ea. subst c. destruct (rank_of t b) as [m'|] eqn:Rb; [|discriminate].
    intros H1 H2. inversion H1; inversion H2; subst.
    rewrite (Hc b (proj1 (rank_some_in t b m' Rb))). apply N.compare_lt_iff. lia.
  - apply nlist_eqb_eq in Eb. subst c. destruct (rank_of t a) as [n'|] eqn:Ra; [|discriminate].
    intros H1 H2. inversion H1; inversion H2; subst.
    rewrite (cmp_antisym bytes_cmp_total b a), (Hc a (proj1 (rank_some_in t a n' Ra))). cbn.
    apply N.compare_gt_iff. lia.
  - destruct (rank_of t a) as [n'|] eqn:Ra; [|discriminate]. destruct (rank_of t b) as [m'|] eqn:Rb; [|discriminate].
    intros H1 H2. inversion H1; inversion H2; subst. rewrite <- (IH a b n' m' Ra Rb).
    destruct (N.compare_spec n' m') as [E|E|E];
      [apply N.compare_eq_iff; lia|apply N.compare_lt_iff; lia|apply N.compare_gt_iff; lia].
Qed.

(* Anonymization::actor_map: never panics on an actor of the table, and preserves the order *)
Theorem anon_actor_mono prefix l a b :
  N.of_nat (length (actor_set l)) <= 18446744073709551616 -> In a l -> In b l ->
  exists x y, anon_actor prefix (actor_set l) a = Ok x /\ anon_actor prefix (actor_set l) b = Ok y /\
              bytes_cmp x y = bytes_cmp a b.
Proof.
  intros Hlen Ha Hb. apply in_actor_set in Ha, Hb.
  destruct (rank_in _ _ Ha) as [n Hn], (rank_in _ _ Hb) as [m Hm].
  unfold anon_actor. rewrite Hn, Hm. exists (prefix ++ be64 n), (prefix ++ be64 m).
  split; [reflexivity|]. split; [reflexivity|].
  rewrite bytes_cmp_prefix, be64_mono.
  - apply (rank_mono _ (actor_set_strictly l) a b n m Hn Hm).
  - pose proof (proj2 (rank_some_in _ _ _ Hn)). lia.
  - pose proof (proj2 (rank_some_in _ _ _ Hm)). lia.
Qed.

(* ------------------------------------------------------------------ the structural substitution *)
(* case split on every innermost condition *)
Ltac splitifs :=
  repeat match goal with
  | |- context [if ?b then _ else _] =>
    lazymatch b with
    | context [if _ then _ else _] => fail
    | _ => let E := fresh "E" in destruct b eqn:E
    end
  end.

Lemma struct_rank_spec c : valid_char c ->
  let '(al, r, sz) := struct_rank c in sz = alpha_size al /\ r < sz /\ decode al r = c.
Proof.
  intros [V1 V2]. unfold struct_rank, u8w, cp_width.
  splitifs; cbn [alpha_size decode]; splitifs; repeat split; lia.
Qed.

(* structural_character_from_rank: the character of the rank in the original's alphabet *)
Lemma struct_from_rank_spec c r : valid_char c ->
  let '(al, _, _) := struct_rank c in
  r < alpha_size al -> struct_from_rank c r = decode al r.
Proof.
  intros [V1 V2]. unfold struct_rank, struct_from_rank, u8w, cp_width.
  splitifs; cbn [alpha_size decode]; intros Hr; splitifs; lia.
Qed.

Lemma decode_u8w al r : r < alpha_size al ->
  u8w (decode al r) = match al with PrintableAscii | AsciiControl => 1 | TwoByte => 2 | ThreeByte => 3 | FourByte => 4 end.
Proof.
  intros H. unfold u8w, cp_width. destruct al; cbn [alpha_size decode] in *; splitifs; lia.
Qed.

Lemma decode_kclass al r : r < alpha_size al ->
  kclass (decode al r) = match al with PrintableAscii => 1 | AsciiControl => 0 | TwoByte => 2 | ThreeByte => 3 | FourByte => 4 end.
Proof.
  intros H. unfold kclass, is_ctl, u8w, cp_width. destruct al; cbn [alpha_size decode] in *; splitifs; lia.
Qed.

Lemma decode_inj al r al' r' : r < alpha_size al -> r' < alpha_size al' ->
  decode al r = decode al' r' -> al = al' /\ r = r'.
Proof.
  intros H H'. destruct al, al'; cbn [alpha_size decode] in *; splitifs; intros Heq; (split; [reflexivity|lia]) || (exfalso; lia).
Qed.

(* the substitution is "decode the permuted rank" *)
Lemma struct_replace_decode p c : tables_ok p -> valid_char c ->
  let '(al, r, _) := struct_rank c in struct_replace p c = decode al (p al r).
Proof.
  intros Hok V. unfold struct_replace.
  pose proof (struct_rank_spec c V) as S. pose proof (fun r => struct_from_rank_spec c r V) as F.
  destruct (struct_rank c) as [[al r] sz]. destruct S as (-> & Hr & Hd).
  apply F, Hok, Hr.
Qed.

(* UTF-8 lengths (hence widths in every encoding) are kept by every table *)
Theorem struct_replace_u8w p c : tables_ok p -> valid_char c -> u8w (struct_replace p c) = u8w c.
Proof.
  intros Hok V. pose proof (struct_replace_decode p c Hok V) as D.
  pose proof (struct_rank_spec c V) as S.
  destruct (struct_rank c) as [[al r] sz]. destruct S as (-> & Hr & Hd).
  rewrite D, <- Hd. rewrite !decode_u8w; [reflexivity|exact Hr|apply Hok, Hr].
Qed.

Theorem struct_string_u8w p s : tables_ok p -> Forall valid_char s -> map u8w (struct_string p s) = map u8w s.
Proof.
  intros Hok. unfold struct_string. induction 1 as [|c t Hc Ht IH]; [reflexivity|].
  cbn [map]. rewrite IH, struct_replace_u8w by assumption. reflexivity.
Qed.

Theorem struct_replace_kclass p c : tables_ok p -> valid_char c ->
  kclass (struct_replace p c) = kclass c.
Proof.
  intros Hok V. pose proof (struct_replace_decode p c Hok V) as D.
  pose proof (struct_rank_spec c V) as S.
  destruct (struct_rank c) as [[al r] sz]. destruct S as (-> & Hr & Hd).
  rewrite D, <- Hd. rewrite !decode_kclass; [reflexivity|exact Hr|apply Hok, Hr].
Qed.

Theorem struct_replace_inj p c1 c2 : tables_ok p -> tables_inj p ->
  valid_char c1 -> valid_char c2 -> struct_replace p c1 = struct_replace p c2 -> c1 = c2.
Proof.
  intros Hok Hinj V1 V2.
  pose proof (struct_replace_decode p c1 Hok V1) as D1. pose proof (struct_replace_decode p c2 Hok V2) as D2.
  pose proof (struct_rank_spec c1 V1) as S1. pose proof (struct_rank_spec c2 V2) as S2.
  destruct (struct_rank c1) as [[al1 r1] sz1]. destruct (struct_rank c2) as [[al2 r2] sz2].
  destruct S1 as (-> & Hr1 & Hd1). destruct S2 as (-> & Hr2 & Hd2).
  rewrite D1, D2. intros E. apply decode_inj in E; [|apply Hok, Hr1|apply Hok, Hr2].
  destruct E as [-> E]. apply Hinj in E; [|assumption|assumption]. subst. congruence.
Qed.

Theorem struct_string_inj p s1 : tables_ok p -> tables_inj p ->
  forall s2, Forall valid_char s1 -> Forall valid_char s2 -> struct_string p s1 = struct_string p s2 -> s1 = s2.
Proof.
  intros Hok Hinj. unfold struct_string.
  induction s1 as [|c t IH]; intros [|d u] F1 F2 E; cbn [map] in E; try discriminate E; [reflexivity|].
  inversion F1; inversion F2; subst. injection E as E1 E2.
  f_equal; [eapply struct_replace_inj; eauto|apply IH; assumption].
Qed.

(* derangements "add k modulo the alphabet size" (witness tables for the content-class refutation) *)
Definition shift_tables : tables := fun al r =>
  match al with
  | AsciiControl => (r + 23) mod 33
  | PrintableAscii => (r + 1) mod 95
  | TwoByte => (r + 1820) mod 1920
  | ThreeByte => (r + 1) mod 61440
  | FourByte => (r + 1) mod 1048576
  end.

Ltac Zify.zify_post_hook ::= Z.div_mod_to_equations.

Lemma shift_tables_good : tables_ok shift_tables /\ tables_inj shift_tables /\ tables_derange shift_tables.
Proof.
  unfold tables_ok, tables_inj, tables_derange, shift_tables.
  repeat split; intros al; destruct al; cbn [alpha_size]; intros; lia.
Qed.

Ltac Zify.zify_post_hook ::= idtac.

(* content strings: widths are kept ... *)
Theorem content_char_u8w p syn c : tables_ok p -> valid_char c -> syn < 128 ->
  u8w (content_char p syn c) = u8w c.
Proof.
  intros Hok V Hs. unfold content_char. destruct (is_ws c || is_ctl c); [reflexivity|].
  destruct (c <? 128) eqn:E; [|apply struct_replace_u8w; assumption].
  unfold u8w, cp_width. splitifs; lia.
Qed.

(* ... the whitespace classes of shape.rs are not: U+00E9 can become U+0085 (NEL, whitespace) *)
Theorem content_class_refuted :
  exists p, tables_ok p /\ tables_inj p /\ tables_derange p /\
    cclass (content_char p 108 233) <> cclass 233.
Proof.
  exists shift_tables. destruct shift_tables_good as (A & B & C). repeat split; try assumption.
  vm_compute. discriminate.
Qed.

(* ------------------------------------------------------------------ anonymize_scalar keeps kind and shape *)
Lemma content_string_u8w p syn s : tables_ok p -> (forall i, syn i < 128) -> Forall valid_char s ->
  map u8w (content_string p syn s) = map u8w s.
Proof.
  intros Hok Hs F. unfold content_string. generalize 0%nat as k.
  induction F as [|c t Hc Ht IH]; intros k; [reflexivity|].
  cbn [length seq combine map fst snd]. rewrite IH, content_char_u8w by auto. reflexivity.
Qed.

Lemma anon_bytes_length syn b : length (anon_bytes syn b) = length b.
Proof.
  unfold anon_bytes. rewrite map_length, combine_length, seq_length. apply Nat.min_id.
Qed.

Theorem anon_scalar_shape p syn fz fu fb v : tables_ok p -> (forall i, syn i < 128) -> scalar_valid v ->
  sshape (anon_scalar p syn fz fu fb v) = sshape v.
Proof.
  intros Hok Hs V. destruct v; cbn [anon_scalar sshape]; try reflexivity.
  - f_equal. apply content_string_u8w; assumption.
  - rewrite anon_bytes_length. reflexivity.
  - rewrite anon_bytes_length. reflexivity.
Qed.

(* ------------------------------------------------------------------ the renaming the code builds is good *)
Theorem code_renaming_good prefix p vals incs fh appl hs :
  wf_ids (all_ops appl) ->
  N.of_nat (length (actor_set (hist_actors appl))) <= 18446744073709551616 ->
  tables_ok p -> tables_inj p ->
  (forall k, In k (map_keys (all_ops appl)) -> Forall valid_char k) ->
  (forall o v, In o (all_ops appl) -> op_action o = APut v -> sshape (vals (op_id o) v) = sshape v) ->
  (forall x y, In x (hist_hashes appl hs) -> In y (hist_hashes appl hs) -> fh x = fh y -> x = y) ->
  good_hist (code_renaming prefix (actor_set (hist_actors appl)) p vals incs fh) appl hs.
Proof.
  intros W Hlen Hok Hinj Hkeys Hvals Hh. split; cbn [code_renaming r_actor r_key r_val r_hash]; try assumption.
  - intros a b Ha Hb.
    destruct (anon_actor_mono prefix (hist_actors appl) a b Hlen Ha Hb) as (x & y & -> & -> & E). exact E.
  - intros k1 k2 H1 H2. apply (struct_string_inj p k1 Hok Hinj k2); apply Hkeys; assumption.
  - intros k Hk. apply struct_string_u8w; [exact Hok|apply Hkeys, Hk].
Qed.

(* ------------------------------------------------------------------ order preservation is necessary *)
Definition swap12 : renaming :=
  mkRen (fun a => if nlist_eqb a [1] then [2] else if nlist_eqb a [2] then [1] else a)
        (fun k => k) (fun n => n) (fun _ v => v) (fun _ z => z) (fun h => h).
Definition conflict_ops : list op :=
  [ mkOp (1, [1]) root_id (KMap [120]) false (APut (SInt 7)) [];
    mkOp (1, [2]) root_id (KMap [120]) false (APut (SStr [97])) [] ].

Theorem order_needed :
  (forall a b, In a (id_actors conflict_ops) -> In b (id_actors conflict_ops) ->
     r_actor swap12 a = r_actor swap12 b -> a = b) /\
  shape (observe (map (rn_op swap12) conflict_ops)) <> shape (observe conflict_ops).
Proof.
  split.
  - intros a b Ha Hb. cbn in Ha, Hb.
    destruct Ha as [<-|[<-|[]]], Hb as [<-|[<-|[]]]; vm_compute; intros H; try reflexivity; discriminate H.
  - vm_compute. discriminate.
Qed.

(* ------------------------------------------------------------------ a history on which the hypotheses hold *)
Definition good_tables : tables := fun al r =>
  match al with
  | AsciiControl => if r <? 32 then (r + 1) mod 32 else 32
  | PrintableAscii => (r + 1) mod 95
  | TwoByte => (r + 1) mod 1920
  | ThreeByte => (r + 1) mod 61440
  | FourByte => (r + 1) mod 1048576
  end.

Ltac Zify.zify_post_hook ::= Z.div_mod_to_equations.
Lemma good_tables_good : tables_ok good_tables /\ tables_inj good_tables.
Proof.
  unfold tables_ok, tables_inj, good_tables.
  repeat split; intros al; destruct al; cbn [alpha_size]; intros; splitifs; try lia.
  revert H1. splitifs; lia.
Qed.
Ltac Zify.zify_post_hook ::= idtac.

Definition ex_hist : list change :=
  [ mkChange 10 [5; 1] 1 1 []
      [ mkOp (1, [5; 1]) root_id (KMap [116]) false (AMake OText) [];
        mkOp (2, [5; 1]) (1, [5; 1]) (KSeq head_id) true (APut (SStr [233])) [] ];
    mkChange 20 [3] 1 3 [10]
      [ mkOp (3, [3]) root_id (KMap [9; 120]) false (APut (SCounter 1)) [];
        mkOp (4, [3]) (1, [5; 1]) (KSeq head_id) true (APut (SStr [128512])) [] ];
    mkChange 30 [5; 1] 2 3 [10]
      [ mkOp (3, [5; 1]) root_id (KMap [9; 120]) false (APut (SStr [97; 98])) [];
        mkOp (4, [5; 1]) (1, [5; 1]) (KSeq (2, [5; 1])) true (APut (SStr [97])) [] ] ].

Definition ex_renaming : renaming :=
  code_renaming [200; 7] (actor_set (hist_actors ex_hist)) good_tables
    (fun id v => anon_scalar good_tables (fun _ => 108) 42 42 true v) (fun _ _ => 5%Z) (fun h => h + 1).

Lemma ex_good : good_hist ex_renaming ex_hist [20; 30].
Proof.
  destruct good_tables_good as (A & B).
  apply code_renaming_good; try assumption.
  - apply wf_ids_b_sound. vm_compute. reflexivity.
  - vm_compute. discriminate.
  - intros k Hk. cbn in Hk. repeat (destruct Hk as [<-|Hk]; [repeat constructor; unfold valid_char; lia|]). destruct Hk.
  - intros o v Ho Hv. apply anon_scalar_shape; [exact A|intros; lia|].
    cbn in Ho. repeat (destruct Ho as [<-|Ho]; [cbn in Hv; try discriminate Hv; inversion Hv; subst; cbn; repeat constructor; unfold valid_char; lia|]).
    destruct Ho.
  - intros x y _ _ H. lia.
Qed.
