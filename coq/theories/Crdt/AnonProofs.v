(* Crdt/AnonProofs.v — the interpretation is equivariant under renamings (C31).

   A renaming that (on the ids, keys and values the history mentions) preserves the order of op ids,
   is injective on map keys, keeps the character classes of keys and the kind / encoded shape of put
   values, leaves the SHAPE of the observed state unchanged — at the current heads and at every
   historical head set — and maps the change graph to an isomorphic one. *)
From AM Require Import Base.Prelude Base.Order Crdt.Types Crdt.Interp Crdt.Doc Crdt.Local Crdt.Anon Exec.HistExec.
From Coq Require Import Sorting.Sorted.
Local Open Scope N_scope.

(* ------------------------------------------------------------------ generic list facts *)
Lemma list_cmp_total {A} (cmp : A -> A -> comparison) : TotalCmp cmp -> TotalCmp (list_cmp cmp).
Proof.
  intros T. split.
  - induction a as [|x a IH]; intros [|y b]; cbn; try (split; congruence).
    destruct (cmp x y) eqn:E.
    + apply (cmp_eq T) in E. subst. rewrite IH. split; congruence.
    + split; [discriminate|]. intros H; inversion H; subst. rewrite (cmp_refl cmp T) in E. discriminate.
    + split; [discriminate|]. intros H; inversion H; subst. rewrite (cmp_refl cmp T) in E. discriminate.
  - induction a as [|x a IH]; intros [|y b]; cbn; try reflexivity.
    rewrite (cmp_antisym T x y). destruct (cmp x y); cbn; auto.
  - induction a as [|x a IH]; intros [|y b] [|z c]; cbn; try congruence.
    destruct (cmp x y) eqn:E1; destruct (cmp y z) eqn:E2; try congruence.
    + apply (cmp_eq T) in E1, E2. subst. rewrite (cmp_refl cmp T). apply IH.
    + apply (cmp_eq T) in E1. subst. rewrite E2. auto.
    + apply (cmp_eq T) in E2. subst. rewrite E1. auto.
    + intros _ _. rewrite (cmp_trans T _ _ _ E1 E2). reflexivity.
Qed.

Lemma lcmp_total : TotalCmp lcmp.
Proof. apply list_cmp_total, bytes_cmp_total. Qed.

Lemma nlist_eqb_eq a b : nlist_eqb a b = true <-> a = b.
Proof. apply bytes_eqb_spec. Qed.

Lemma in_insert_sorted {A} (cmp : A -> A -> comparison) x l y :
  In y (insert_sorted cmp x l) <-> y = x \/ In y l.
Proof.
  induction l as [|a t IH]; cbn; [intuition|].
  destruct (leb cmp x a); cbn; [intuition|]. rewrite IH. intuition.
Qed.

Lemma in_isort {A} (cmp : A -> A -> comparison) l y : In y (isort cmp l) <-> In y l.
Proof.
  induction l as [|a t IH]; cbn; [tauto|]. rewrite in_insert_sorted, IH. intuition.
Qed.

Lemma insert_sorted_map {A B} (ca : A -> A -> comparison) (cb : B -> B -> comparison) (g : A -> B) x l :
  (forall y, In y l -> cb (g x) (g y) = ca x y) ->
  insert_sorted cb (g x) (map g l) = map g (insert_sorted ca x l).
Proof.
  induction l as [|a t IH]; cbn; intros H; [reflexivity|].
  unfold leb. rewrite (H a (or_introl eq_refl)).
  destruct (ca x a); cbn; try reflexivity.
  f_equal. apply IH. intros y Hy. apply H. right. exact Hy.
Qed.

Lemma isort_map_in {A B} (ca : A -> A -> comparison) (cb : B -> B -> comparison) (g : A -> B) l :
  (forall x y, In x l -> In y l -> cb (g x) (g y) = ca x y) ->
  isort cb (map g l) = map g (isort ca l).
Proof.
  induction l as [|a t IH]; cbn; intros H; [reflexivity|].
  rewrite IH by (intros; apply H; right; assumption).
  apply insert_sorted_map. intros y Hy. apply in_isort in Hy. apply H; [left; reflexivity|right; exact Hy].
Qed.

Lemma filter_map_in {A B} (p : A -> bool) (q : B -> bool) (g : A -> B) l :
  (forall x, In x l -> q (g x) = p x) -> filter q (map g l) = map g (filter p l).
Proof.
  induction l as [|a t IH]; cbn; intros H; [reflexivity|].
  rewrite (H a (or_introl eq_refl)), IH by (intros; apply H; right; assumption).
  destruct (p a); reflexivity.
Qed.

Lemma flat_map_map' {A B C} (g : A -> B) (h : B -> list C) l :
  flat_map h (map g l) = flat_map (fun x => h (g x)) l.
Proof. induction l as [|a t IH]; cbn; [reflexivity|]. rewrite IH. reflexivity. Qed.

Lemma map_flat_map' {A B C} (g : B -> C) (h : A -> list B) l :
  map g (flat_map h l) = flat_map (fun x => map g (h x)) l.
Proof. induction l as [|a t IH]; cbn; [reflexivity|]. rewrite map_app, IH. reflexivity. Qed.

Lemma flat_map_ext_in' {A B} (h h' : A -> list B) l :
  (forall x, In x l -> h x = h' x) -> flat_map h l = flat_map h' l.
Proof.
  induction l as [|a t IH]; cbn; intros H; [reflexivity|].
  rewrite (H a (or_introl eq_refl)), IH by (intros; apply H; right; assumption). reflexivity.
Qed.

Lemma map_ext_in' {A B} (h h' : A -> B) l : (forall x, In x l -> h x = h' x) -> map h l = map h' l.
Proof.
  induction l as [|a t IH]; cbn; intros H; [reflexivity|].
  rewrite (H a (or_introl eq_refl)), IH by (intros; apply H; right; assumption). reflexivity.
Qed.

Lemma existsb_map' {A B} (p : B -> bool) (g : A -> B) l : existsb p (map g l) = existsb (fun x => p (g x)) l.
Proof. induction l as [|a t IH]; cbn; [reflexivity|]. rewrite IH. reflexivity. Qed.

Lemma existsb_ext_in' {A} (p q : A -> bool) l : (forall x, In x l -> p x = q x) -> existsb p l = existsb q l.
Proof.
  induction l as [|a t IH]; cbn; intros H; [reflexivity|].
  rewrite (H a (or_introl eq_refl)), IH by (intros; apply H; right; assumption). reflexivity.
Qed.

Lemma memb_map_in {A B} (ea : A -> A -> bool) (eb : B -> B -> bool) (g : A -> B) x l :
  (forall y, In y l -> eb (g x) (g y) = ea x y) -> memb eb (g x) (map g l) = memb ea x l.
Proof.
  induction l as [|a t IH]; cbn; intros H; [reflexivity|].
  rewrite (H a (or_introl eq_refl)), IH by (intros; apply H; right; assumption). reflexivity.
Qed.

Lemma NoDup_map_in {A B} (g : A -> B) l :
  (forall x y, In x l -> In y l -> g x = g y -> x = y) -> NoDup l -> NoDup (map g l).
Proof.
  induction l as [|a t IH]; cbn; intros H ND; [constructor|].
  inversion ND as [|? ? Hn NDt]; subst. constructor.
  - intros Hin. apply in_map_iff in Hin. destruct Hin as (y & Hy & Hyt).
    assert (y = a) by (apply H; [right; exact Hyt|left; reflexivity|exact Hy]). subst. contradiction.
  - apply IH; [|exact NDt]. intros x y Hx Hy. apply H; right; assumption.
Qed.

(* ------------------------------------------------------------------ dedup_sorted *)
Lemma in_dedup_sorted l x : In x (dedup_sorted l) <-> In x l.
Proof.
  induction l as [|a t IH]; [tauto|].
  cbn [dedup_sorted]. destruct t as [|b u]; [tauto|].
  destruct (nlist_eqb a b) eqn:E.
  - apply nlist_eqb_eq in E. subst b. rewrite IH. cbn. intuition.
  - cbn [In]. rewrite IH. cbn. intuition.
Qed.

Lemma NoDup_dedup_sorted l : sorted bytes_cmp l -> NoDup (dedup_sorted l).
Proof.
  unfold sorted. induction l as [|a t IH]; intros S; [constructor|].
  cbn [dedup_sorted]. destruct t as [|b u]; [constructor; [intros []|constructor]|].
  inversion S as [|? ? St Ha]; subst.
  destruct (nlist_eqb a b) eqn:E; [apply IH, St|].
  constructor; [|apply IH, St].
  rewrite in_dedup_sorted. intros Hin.
  assert (a = b).
  { destruct Hin as [->|Hin]; [reflexivity|].
    inversion St as [|? ? _ Hb]; subst. rewrite Forall_forall in Ha, Hb.
    apply (le_antisym bytes_cmp bytes_cmp_total); [apply Ha; left; reflexivity|apply Hb, Hin]. }
  subst b. assert (nlist_eqb a a = true) by (apply nlist_eqb_eq; reflexivity). congruence.
Qed.

Lemma NoDup_actor_set l : NoDup (actor_set l).
Proof. apply NoDup_dedup_sorted, isort_sorted, bytes_cmp_total. Qed.

Lemma in_actor_set l x : In x (actor_set l) <-> In x l.
Proof. unfold actor_set. rewrite in_dedup_sorted. apply in_isort. Qed.

(* ------------------------------------------------------------------ hypotheses on a renaming *)
(* relative to the ops of the history: nothing is asked of ids / keys / values that do not occur *)
Record good_on (R : renaming) (ops0 : list op) : Prop := {
  g_mono : forall x y, In x (ids_of ops0) -> In y (ids_of ops0) ->
           opid_cmp (rn_id R x) (rn_id R y) = opid_cmp x y;
  g_kinj : forall k1 k2, In k1 (map_keys ops0) -> In k2 (map_keys ops0) -> r_key R k1 = r_key R k2 -> k1 = k2;
  g_kshape : forall k, In k (map_keys ops0) -> map u8w (r_key R k) = map u8w k;
  g_val : forall o v, In o ops0 -> op_action o = APut v -> sshape (r_val R (op_id o) v) = sshape v }.

Lemma in_ids_id ops o : In o ops -> In (op_id o) (ids_of ops).
Proof. intros H. unfold ids_of. right. apply in_flat_map. exists o. split; [exact H|left; reflexivity]. Qed.
Lemma in_ids_obj ops o : In o ops -> In (op_obj o) (ids_of ops).
Proof. intros H. unfold ids_of. right. apply in_flat_map. exists o. split; [exact H|right; left; reflexivity]. Qed.
Lemma in_ids_ref ops o e : In o ops -> op_key o = KSeq e -> In e (ids_of ops).
Proof.
  intros H K. unfold ids_of. right. apply in_flat_map. exists o. split; [exact H|].
  unfold op_ids. right. right. apply in_or_app. left. rewrite K. left. reflexivity.
Qed.
Lemma in_ids_pred ops o p : In o ops -> In p (op_pred o) -> In p (ids_of ops).
Proof.
  intros H K. unfold ids_of. right. apply in_flat_map. exists o. split; [exact H|].
  unfold op_ids. right. right. apply in_or_app. right. exact K.
Qed.

Lemma sshape_counter v v' : sshape v' = sshape v ->
  (match v' with SCounter _ => true | _ => false end) = (match v with SCounter _ => true | _ => false end).
Proof. destruct v, v'; cbn; intros H; try reflexivity; discriminate H. Qed.

Definition regsh (ids : list opid) (ctx : list op) (k : key) (o : op) : list (list N) :=
  if visible ctx o && negb (is_mark o) then
    match vobs_of ctx o with
    | Some v => if key_eqb (slot o) k then [vshape ids (op_id o, v)] else []
    | None => []
    end
  else [].

Lemma rshape_register_ctx ids ctx k l :
  rshape ids (register (flat_map (fun o =>
      if visible ctx o && negb (is_mark o) then
        match vobs_of ctx o with Some v => [(slot o, (op_id o, v))] | None => [] end
      else []) l) k) = flat_map (regsh ids ctx k) l.
Proof.
  unfold rshape, register. induction l as [|o t IH]; cbn [flat_map]; [reflexivity|].
  rewrite flat_map_app, map_app, IH. f_equal. unfold regsh.
  destruct (visible ctx o && negb (is_mark o)); [|reflexivity].
  destruct (vobs_of ctx o); [|reflexivity].
  cbn [flat_map fst snd]. destruct (key_eqb (slot o) k); reflexivity.
Qed.

Lemma rshape_register ids l k : rshape ids (register (vis_ops l) k) = flat_map (regsh ids l k) l.
Proof. exact (rshape_register_ctx ids l k l). Qed.

Lemma in_insert_after r x l y : In y (insert_after r x l) -> y = x \/ In y l.
Proof.
  induction l as [|a t IH]; cbn [insert_after In]; [intuition|].
  destruct (opid_eqb a r); cbn [In]; intuition.
Qed.

Lemma in_place acc o y : In y (place acc o) -> y = op_id o \/ In y acc.
Proof.
  unfold place. destruct (opid_eqb (ref_of o) head_id); [cbn [In]; intuition|apply in_insert_after].
Qed.

Lemma in_fold_place e l : forall acc, In e (fold_left place l acc) -> In e acc \/ exists o, In o l /\ e = op_id o.
Proof.
  induction l as [|o t IH]; cbn [fold_left]; intros acc H; [left; exact H|].
  destruct (IH _ H) as [H1|(o' & Ho' & ->)].
  - apply in_place in H1. destruct H1 as [->|H1]; [right; exists o; split; [left; reflexivity|reflexivity]|left; exact H1].
  - right. exists o'. split; [right; exact Ho'|reflexivity].
Qed.

Lemma in_elem_order l e : In e (elem_order l) -> exists o, In o l /\ e = op_id o.
Proof.
  unfold elem_order. intros H. apply in_fold_place in H. destruct H as [[]|(o & Ho & ->)].
  exists o. split; [|reflexivity]. apply filter_In in Ho. tauto.
Qed.

Lemma oo_id_observe_obj l id t : oo_id (observe_obj l id t) = id.
Proof. unfold observe_obj. destruct (is_seq_type t); reflexivity. Qed.

Lemma ids_observe_sorted l : map oo_id (observe_sorted l) = map fst (objects l).
Proof. unfold observe_sorted. rewrite map_map. apply map_ext. intros a. apply oo_id_observe_obj. Qed.

Section Equiv.
  Variable R : renaming.
  Variable ops0 : list op.
  Hypothesis G : good_on R ops0.
  Notation f := (rn_op R).
  Notation rn := (rn_id R).
  Let D (x : opid) : Prop := In x (ids_of ops0).
  Let sub (l : list op) : Prop := forall o, In o l -> In o ops0.

  Lemma rn_root : rn root_id = root_id.
  Proof. reflexivity. Qed.

  Lemma D_root : D root_id.
  Proof. left. reflexivity. Qed.

  Lemma eqb_rn x y : D x -> D y -> opid_eqb (rn x) (rn y) = opid_eqb x y.
  Proof. intros Hx Hy. unfold opid_eqb, eqb_of. rewrite (g_mono _ _ G x y Hx Hy). reflexivity. Qed.

  Lemma is_inc_rn o : is_inc (f o) = is_inc o.
  Proof. unfold is_inc. cbn [rn_op op_action]. destruct (op_action o); reflexivity. Qed.
  Lemma is_del_rn o : is_del (f o) = is_del o.
  Proof. unfold is_del. cbn [rn_op op_action]. destruct (op_action o); reflexivity. Qed.
  Lemma is_mark_rn o : is_mark (f o) = is_mark o.
  Proof. unfold is_mark. cbn [rn_op op_action]. destruct (op_action o); reflexivity. Qed.

  Lemma is_counter_rn o : In o ops0 -> is_counter (f o) = is_counter o.
  Proof.
    intros Ho. unfold is_counter. cbn [rn_op op_action].
    destruct (op_action o) eqn:E; cbn [rn_action]; try reflexivity.
    apply sshape_counter. apply (g_val _ _ G o v Ho E).
  Qed.

  Lemma names_rn s o : In s ops0 -> In o ops0 -> names (f s) (f o) = names s o.
  Proof.
    intros Hs Ho. unfold names. cbn [rn_op op_id op_pred]. apply memb_map_in.
    intros y Hy. apply eqb_rn; [apply in_ids_id; exact Ho|exact (in_ids_pred ops0 s y Hs Hy)].
  Qed.

  Lemma hides_rn o s : In o ops0 -> In s ops0 -> hides (f o) (f s) = hides o s.
  Proof. intros Ho Hs. unfold hides. rewrite names_rn, is_inc_rn, is_counter_rn by assumption. reflexivity. Qed.

  Lemma visible_rn l o : sub l -> In o ops0 -> visible (map f l) (f o) = visible l o.
  Proof.
    intros Hl Ho. unfold visible. rewrite is_inc_rn, is_del_rn, existsb_map'.
    f_equal. f_equal. apply existsb_ext_in'. intros s Hs. apply hides_rn; [exact Ho|apply Hl, Hs].
  Qed.

  Lemma vobs_shape ids ids' l o : In o ops0 -> idx ids' (rn (op_id o)) = idx ids (op_id o) ->
    option_map (fun v => vshape ids' (rn (op_id o), v)) (vobs_of (map f l) (f o))
    = option_map (fun v => vshape ids (op_id o, v)) (vobs_of l o).
  Proof.
    intros Ho Hi. unfold vobs_of. cbn [rn_op op_action].
    destruct (op_action o) eqn:E; cbn [rn_action option_map]; try reflexivity.
    - pose proof (g_val _ _ G o v Ho E) as Hv.
      remember (r_val R (op_id o) v) as v' eqn:Ev. clear Ev.
      destruct v, v'; try (cbn in Hv; discriminate Hv); cbn [option_map vshape snd]; try reflexivity;
        f_equal; exact Hv.
    - cbn [vshape snd fst]. rewrite Hi. reflexivity.
  Qed.

  Lemma slot_rn o : slot (f o) = rn_key R (slot o).
  Proof.
    unfold slot. cbn [rn_op op_key op_insert op_id]. destruct (op_key o); cbn [rn_key]; [reflexivity|].
    destruct (op_insert o); reflexivity.
  Qed.

  Definition KD (k : key) : Prop :=
    match k with KMap s => In s (map_keys ops0) | KSeq e => D e end.

  Lemma key_eqb_rn a b : KD a -> KD b -> key_eqb (rn_key R a) (rn_key R b) = key_eqb a b.
  Proof.
    destruct a as [s|e], b as [s0|e0]; cbn [rn_key key_eqb KD]; intros Ha Hb; try reflexivity.
    - destruct (nlist_eqb s s0) eqn:E.
      + apply nlist_eqb_eq in E. subst. apply nlist_eqb_eq. reflexivity.
      + destruct (nlist_eqb (r_key R s) (r_key R s0)) eqn:E2; [|reflexivity].
        apply nlist_eqb_eq in E2. apply (g_kinj _ _ G) in E2; [|assumption|assumption]. subst.
        rewrite (proj2 (nlist_eqb_eq s0 s0) eq_refl) in E. discriminate.
    - apply eqb_rn; assumption.
  Qed.

  Lemma slot_KD o : In o ops0 -> KD (slot o).
  Proof.
    intros Ho. unfold slot. destruct (op_key o) eqn:E; cbn [KD].
    - unfold map_keys. apply in_flat_map. exists o. split; [exact Ho|]. rewrite E. left. reflexivity.
    - destruct (op_insert o); [apply in_ids_id; exact Ho|exact (in_ids_ref ops0 o e Ho E)].
  Qed.

  Lemma regsh_rn ids ids' l k o : sub l -> In o ops0 -> KD k ->
    idx ids' (rn (op_id o)) = idx ids (op_id o) ->
    regsh ids' (map f l) (rn_key R k) (f o) = regsh ids l k o.
  Proof.
    intros Hl Ho Hk Hi. unfold regsh.
    rewrite visible_rn, is_mark_rn, slot_rn by assumption.
    rewrite key_eqb_rn by (try apply slot_KD; assumption).
    pose proof (vobs_shape ids ids' l o Ho Hi) as V.
    destruct (visible l o && negb (is_mark o)); [|reflexivity].
    destruct (vobs_of (map f l) (f o)), (vobs_of l o); cbn [option_map] in V; try discriminate V; [|reflexivity].
    destruct (key_eqb (slot o) k); [|reflexivity].
    injection V as V. f_equal. exact V.
  Qed.

  Lemma register_rn ids ids' l k : sub l -> KD k ->
    (forall o, In o l -> idx ids' (rn (op_id o)) = idx ids (op_id o)) ->
    rshape ids' (register (vis_ops (map f l)) (rn_key R k)) = rshape ids (register (vis_ops l) k).
  Proof.
    intros Hl Hk Hi. rewrite !rshape_register, flat_map_map'. apply flat_map_ext_in'.
    intros o Ho. apply regsh_rn; auto.
  Qed.

  Lemma idx_rn ids x : Forall D ids -> D x -> idx (map rn ids) (rn x) = idx ids x.
  Proof.
    induction 1 as [|y t Hy Ht IH]; cbn [map idx]; intros Hx; [reflexivity|].
    rewrite eqb_rn by assumption. destruct (opid_eqb y x); [reflexivity|]. rewrite IH by assumption. reflexivity.
  Qed.

  Lemma insert_after_rn r x l : D r -> Forall D l ->
    insert_after (rn r) (rn x) (map rn l) = map rn (insert_after r x l).
  Proof.
    intros Hr. induction 1 as [|y t Hy Ht IH]; cbn [map insert_after]; [reflexivity|].
    rewrite eqb_rn by assumption. destruct (opid_eqb y r); cbn [map]; [reflexivity|]. rewrite IH. reflexivity.
  Qed.

  Lemma ref_of_rn o : ref_of (f o) = rn (ref_of o).
  Proof. unfold ref_of. cbn [rn_op op_key]. destruct (op_key o); reflexivity. Qed.

  Lemma D_ref_of o : In o ops0 -> D (ref_of o).
  Proof.
    intros Ho. unfold ref_of. destruct (op_key o) eqn:E; [apply D_root|exact (in_ids_ref ops0 o e Ho E)].
  Qed.

  Lemma place_rn acc o : In o ops0 -> Forall D acc -> place (map rn acc) (f o) = map rn (place acc o).
  Proof.
    intros Ho Ha. unfold place. rewrite ref_of_rn.
    assert (E : opid_eqb (rn (ref_of o)) head_id = opid_eqb (ref_of o) head_id)
      by (exact (eqb_rn _ _ (D_ref_of o Ho) D_root)).
    rewrite E. destruct (opid_eqb (ref_of o) head_id); [reflexivity|].
    change (op_id (f o)) with (rn (op_id o)). apply insert_after_rn; [apply D_ref_of, Ho|exact Ha].
  Qed.

  Lemma fold_place_rn l : sub l -> forall acc, Forall D acc ->
    fold_left place (map f l) (map rn acc) = map rn (fold_left place l acc).
  Proof.
    induction l as [|o t IH]; cbn [map fold_left]; intros Hl acc Ha; [reflexivity|].
    rewrite place_rn by (try apply Hl; try left; auto).
    apply IH; [intros x Hx; apply Hl; right; exact Hx|].
    rewrite Forall_forall in *. intros y Hy. apply in_place in Hy. destruct Hy as [->|Hy]; [|apply Ha, Hy].
    apply in_ids_id, Hl. left. reflexivity.
  Qed.

  Lemma elem_order_rn l : sub l -> elem_order (map f l) = map rn (elem_order l).
  Proof.
    intros Hl. unfold elem_order.
    rewrite (filter_map_in op_insert op_insert f l) by (intros; reflexivity).
    assert (Hf : sub (filter op_insert l)) by (intros o Ho; apply filter_In in Ho; apply Hl; tauto).
    exact (fold_place_rn (filter op_insert l) Hf [] (Forall_nil _)).
  Qed.

  Lemma map_keys_rn l : map_keys (map f l) = map (r_key R) (map_keys l).
  Proof.
    unfold map_keys. rewrite flat_map_map', map_flat_map'. apply flat_map_ext_in'. intros o _.
    cbn [rn_op op_key]. destruct (op_key o); reflexivity.
  Qed.

  Lemma map_keys_sub l k : sub l -> In k (map_keys l) -> In k (map_keys ops0).
  Proof.
    intros Hl H. unfold map_keys in *. apply in_flat_map in H. destruct H as (o & Ho & Hk).
    apply in_flat_map. exists o. split; [apply Hl, Ho|exact Hk].
  Qed.

  Lemma observe_obj_rn ids l id t : sub l -> Forall D ids ->
    oshape (map rn ids) (observe_obj (map f l) (rn id) t) = oshape ids (observe_obj l id t).
  Proof.
    intros Hl Hids. unfold observe_obj.
    assert (Hix : forall o, In o l -> idx (map rn ids) (rn (op_id o)) = idx ids (op_id o))
      by (intros o Ho; apply idx_rn; [exact Hids|apply in_ids_id, Hl, Ho]).
    destruct (is_seq_type t); unfold oshape; cbn [oo_type oo_entries]; f_equal.
    - rewrite elem_order_rn by exact Hl. rewrite !map_flat_map', flat_map_map'.
      apply flat_map_ext_in'. intros e He. destruct (in_elem_order _ _ He) as (o & Ho & ->).
      assert (Hk : KD (KSeq (op_id o))) by (cbn [KD]; apply in_ids_id, Hl, Ho).
      pose proof (register_rn ids (map rn ids) l (KSeq (op_id o)) Hl Hk Hix) as Rg. cbn [rn_key] in Rg.
      destruct (register (vis_ops (map f l)) (KSeq (rn (op_id o)))),
               (register (vis_ops l) (KSeq (op_id o))); cbn [rshape map] in Rg; try discriminate Rg; [reflexivity|].
      cbn [map]. f_equal. exact Rg.
    - apply (isort_perm_eq lcmp lcmp_total).
      rewrite map_keys_rn.
      set (keys := dedup_sorted (isort bytes_cmp (map_keys l))).
      set (keys' := dedup_sorted (isort bytes_cmp (map (r_key R) (map_keys l)))).
      assert (Hin : forall k, In k keys <-> In k (map_keys l))
        by (intros k; unfold keys; rewrite in_dedup_sorted; apply in_isort).
      assert (P : Permutation keys' (map (r_key R) keys)).
      { apply NoDup_Permutation.
        - apply NoDup_dedup_sorted, isort_sorted, bytes_cmp_total.
        - apply NoDup_map_in.
          + intros x y Hx Hy. apply (g_kinj _ _ G); eapply map_keys_sub; try exact Hl; apply Hin; assumption.
          + apply NoDup_dedup_sorted, isort_sorted, bytes_cmp_total.
        - intros x. unfold keys'. rewrite in_dedup_sorted, in_isort, !in_map_iff.
          split; intros (k & Hk & Hkin); exists k; (split; [exact Hk|apply Hin; exact Hkin]). }
      assert (E : map (eshape (map rn ids))
                    (flat_map (fun k => match register (vis_ops (map f l)) (KMap k) with [] => [] | r => [(k, r)] end)
                              (map (r_key R) keys))
                  = map (eshape ids)
                    (flat_map (fun k => match register (vis_ops l) (KMap k) with [] => [] | r => [(k, r)] end) keys)).
      { rewrite !map_flat_map', flat_map_map'. apply flat_map_ext_in'. intros k Hk.
        assert (Hkd : KD (KMap k)) by (cbn [KD]; eapply map_keys_sub; [exact Hl|apply Hin, Hk]).
        pose proof (register_rn ids (map rn ids) l (KMap k) Hl Hkd Hix) as Rg. cbn [rn_key] in Rg.
        destruct (register (vis_ops (map f l)) (KMap (r_key R k))),
                 (register (vis_ops l) (KMap k)); cbn [rshape map] in Rg; try discriminate Rg; [reflexivity|].
        cbn [map]. f_equal. unfold eshape. cbn [fst snd]. f_equal; [apply (g_kshape _ _ G), Hkd|exact Rg]. }
      rewrite <- E. apply Permutation_map, Permutation_flat_map, P.
  Qed.

  Lemma objects_rn l : objects (map f l) = map (fun ot => (rn (fst ot), snd ot)) (objects l).
  Proof.
    unfold objects. cbn [map fst snd]. rewrite rn_root. f_equal.
    rewrite flat_map_map', map_flat_map'. apply flat_map_ext_in'. intros o _.
    unfold make_type. cbn [rn_op op_action op_id]. destruct (op_action o); reflexivity.
  Qed.

  Lemma objects_D l : sub l -> Forall D (map fst (objects l)).
  Proof.
    intros Hl. rewrite Forall_forall. intros x Hx. apply in_map_iff in Hx. destruct Hx as ([id t] & <- & H).
    unfold objects in H. destruct H as [H|H]; [inversion H; apply D_root|].
    apply in_flat_map in H. destruct H as (o & Ho & H). destruct (make_type o); [|destruct H].
    destruct H as [H|[]]. inversion H; subst. cbn [fst]. apply in_ids_id, Hl, Ho.
  Qed.

  Theorem shape_observe_rn ops : sub ops -> shape (observe (map f ops)) = shape (observe ops).
  Proof.
    intros Hs. unfold observe.
    rewrite (isort_map_in op_cmp op_cmp f ops)
      by (intros x y Hx Hy; unfold op_cmp; cbn [rn_op op_id]; apply (g_mono _ _ G); apply in_ids_id, Hs; assumption).
    set (so := isort op_cmp ops).
    assert (Hso : sub so) by (intros o Ho; apply Hs; apply in_isort in Ho; exact Ho).
    unfold shape. rewrite !ids_observe_sorted, objects_rn.
    replace (map fst (map (fun ot : opid * objtype => (rn (fst ot), snd ot)) (objects so)))
      with (map rn (map fst (objects so))) by (rewrite !map_map; reflexivity).
    unfold observe_sorted. rewrite objects_rn, !map_map. apply map_ext_in'. intros [id t] Hot. cbn [fst snd].
    rewrite <- (map_map fst rn (objects so)).
    pose proof (objects_D so Hso) as HD.
    assert (Hid : D id) by (rewrite Forall_forall in HD; apply HD; apply in_map_iff; exists (id, t); split; [reflexivity|exact Hot]).
    rewrite (filter_map_in (fun o => opid_eqb (op_obj o) id) (fun o => opid_eqb (op_obj o) (rn id)) f so)
      by (intros o Ho; cbn [rn_op op_obj]; apply eqb_rn; [apply in_ids_obj, Hso, Ho|exact Hid]).
    apply observe_obj_rn; [|exact HD].
    intros o Ho. apply filter_In in Ho. apply Hso. tauto.
  Qed.
End Equiv.

(* ------------------------------------------------------------------ shapes determine lengths and widths *)
Lemma class_width_cclass e c : class_width e (u8w c) = cp_width e c.
Proof.
  unfold class_width, u8w, cp_width.
  destruct e; destruct (c <? 128) eqn:E1, (c <? 2048) eqn:E2, (c <? 65536) eqn:E3; try reflexivity; lia.
Qed.

Lemma str_width_classes e s : fold_right (fun k a => class_width e k + a) 0 (map u8w s) = str_width e s.
Proof.
  induction s as [|c s IH]; [reflexivity|]. cbn [map fold_right str_width]. rewrite IH, class_width_cclass. reflexivity.
Qed.

Lemma last_map_some {A B} (g : A -> B) r :
  last (map Some (map g r)) None = option_map g (last (map Some r) None).
Proof.
  induction r as [|a t IH]; [reflexivity|]. destruct t as [|b u]; [reflexivity|].
  change (last (map Some (map g (a :: b :: u))) None) with (last (map Some (map g (b :: u))) None).
  change (last (map Some (a :: b :: u)) None) with (last (map Some (b :: u)) None). exact IH.
Qed.

Lemma rs_width_rshape e ids r : rs_width e (rshape ids r) = elem_w e OText r.
Proof.
  unfold rs_width, elem_w, elem_text, winner, rshape. rewrite last_map_some.
  destruct (last (map Some r) None) as [[id v]|]; cbn [option_map].
  - destruct v as [s|z|t]; unfold vshape; cbn [snd fst].
    + destruct s; try (destruct e; reflexivity). cbn [sshape]. apply str_width_classes.
    + destruct e; reflexivity.
    + destruct t; destruct e; reflexivity.
  - destruct e; reflexivity.
Qed.

Definition oobs_wf (o : oobs) : Prop :=
  match oo_entries o with EM _ => is_seq_type (oo_type o) = false | EL _ => is_seq_type (oo_type o) = true end.

Lemma length_isort {A} (cmp : A -> A -> comparison) l : length (isort cmp l) = length l.
Proof. symmetry. apply Permutation_length, isort_perm. Qed.

Lemma obj_width_shape e ids o : oobs_wf o -> sh_width e (oshape ids o) = obj_width e o.
Proof.
  unfold oobs_wf, sh_width, obj_width, oshape. cbn [fst snd].
  destruct (oo_entries o) as [l|l]; destruct (oo_type o); cbn [is_seq_type]; intros H; try discriminate H; try reflexivity.
  - rewrite map_length. reflexivity.
  - induction l as [|r t IH]; [reflexivity|]. cbn [map fold_right]. rewrite IH, rs_width_rshape. reflexivity.
Qed.

Lemma obj_len_shape ids o : sh_len (oshape ids o) = obj_len o.
Proof.
  unfold sh_len, obj_len, oshape. cbn [snd]. destruct (oo_entries o).
  - rewrite length_isort, map_length. reflexivity.
  - rewrite map_length. reflexivity.
Qed.

Lemma observe_wf ops o : In o (observe ops) -> oobs_wf o.
Proof.
  unfold observe, observe_sorted. intros H. apply in_map_iff in H. destruct H as ([id t] & <- & _).
  unfold observe_obj, oobs_wf. cbn [fst snd]. destruct (is_seq_type t) eqn:E; cbn [oo_entries oo_type]; exact E.
Qed.

Theorem shape_widths e ops :
  map (obj_width e) (observe ops) = map (sh_width e) (shape (observe ops)).
Proof.
  unfold shape. rewrite map_map. apply map_ext_in'. intros o Ho. symmetry. apply obj_width_shape.
  eapply observe_wf, Ho.
Qed.

Theorem shape_lens ops : map obj_len (observe ops) = map sh_len (shape (observe ops)).
Proof. unfold shape. rewrite map_map. apply map_ext. intros o. symmetry. apply obj_len_shape. Qed.

Theorem shape_types ops : map oo_type (observe ops) = map fst (shape (observe ops)).
Proof. unfold shape. rewrite map_map. apply map_ext. intros o. reflexivity. Qed.

(* ------------------------------------------------------------------ from actors to op ids *)
Lemma wf_ids_b_sound ops : wf_ids_b ops = true -> wf_ids ops.
Proof.
  unfold wf_ids_b, wf_ids. rewrite andb_true_iff, !forallb_forall. intros [H1 H2]. split.
  - intros x Hx. specialize (H1 x Hx). apply orb_true_iff in H1. destruct H1 as [H1|H1].
    + left. apply opid_eqb_spec, H1.
    + right. lia.
  - intros o Ho. specialize (H2 o Ho). lia.
Qed.

Lemma rn_id_nonroot R x : 1 <= fst x -> rn_id R x = (fst x, r_actor R (snd x)).
Proof.
  intros H. unfold rn_id. destruct (opid_eqb x root_id) eqn:E; [|reflexivity].
  apply opid_eqb_spec in E. subst x. cbn in H. lia.
Qed.

Lemma mono_of_actors R ops :
  wf_ids ops ->
  (forall a b, In a (id_actors ops) -> In b (id_actors ops) ->
     bytes_cmp (r_actor R a) (r_actor R b) = bytes_cmp a b) ->
  forall x y, In x (ids_of ops) -> In y (ids_of ops) -> opid_cmp (rn_id R x) (rn_id R y) = opid_cmp x y.
Proof.
  intros [W _] Hact x y Hx Hy.
  assert (Hin : forall z, In z (ids_of ops) -> 1 <= fst z -> In (snd z) (id_actors ops)).
  { intros z Hz Wz. unfold id_actors. apply in_map. apply filter_In. split; [exact Hz|].
    destruct (opid_eqb z root_id) eqn:E; [|reflexivity]. apply opid_eqb_spec in E. subst z. cbn in Wz. lia. }
  destruct (W x Hx) as [->|Wx], (W y Hy) as [->|Wy].
  - reflexivity.
  - rewrite (rn_id_nonroot R y Wy). change (rn_id R root_id) with root_id. unfold opid_cmp, root_id. cbn [fst snd].
    assert (E : N.compare 0 (fst y) = Lt) by (apply N.compare_lt_iff; lia). rewrite E. reflexivity.
  - rewrite (rn_id_nonroot R x Wx). change (rn_id R root_id) with root_id. unfold opid_cmp, root_id. cbn [fst snd].
    assert (E : N.compare (fst x) 0 = Gt) by (apply N.compare_gt_iff; lia). rewrite E. reflexivity.
  - rewrite (rn_id_nonroot R x Wx), (rn_id_nonroot R y Wy). unfold opid_cmp. cbn [fst snd].
    destruct (N.compare (fst x) (fst y)); try reflexivity.
    apply Hact; apply Hin; assumption.
Qed.

(* ------------------------------------------------------------------ histories: graph, clocks, reads at heads *)
Section Hist.
  Variable R : renaming.
  Notation fa := (r_actor R).
  Notation fh := (r_hash R).
  Notation rc := (rn_change R).
  Variable AD : actor -> Prop.
  Variable HD : N -> Prop.
  Hypothesis Hact : forall a b, AD a -> AD b -> bytes_cmp (fa a) (fa b) = bytes_cmp a b.
  Hypothesis Hhash : forall x y, HD x -> HD y -> fh x = fh y -> x = y.

  Lemma same_actor_rn a b : AD a -> AD b -> same_actor (fa a) (fa b) = same_actor a b.
  Proof.
    intros Ha Hb. unfold same_actor.
    destruct (nlist_eqb a b) eqn:E.
    - apply nlist_eqb_eq in E. subst. apply nlist_eqb_eq. reflexivity.
    - destruct (nlist_eqb (fa a) (fa b)) eqn:E2; [|reflexivity].
      apply nlist_eqb_eq in E2. pose proof (Hact a b Ha Hb) as C. rewrite E2 in C.
      rewrite (cmp_refl bytes_cmp bytes_cmp_total) in C. symmetry in C.
      apply (cmp_eq bytes_cmp_total) in C. subst.
      rewrite (proj2 (nlist_eqb_eq b b) eq_refl) in E. discriminate.
  Qed.

  Lemma hash_eqb_rn x y : HD x -> HD y -> N.eqb (fh x) (fh y) = N.eqb x y.
  Proof.
    intros Hx Hy. destruct (N.eqb x y) eqn:E.
    - apply N.eqb_eq in E. subst. apply N.eqb_refl.
    - destruct (N.eqb (fh x) (fh y)) eqn:E2; [|reflexivity].
      apply N.eqb_eq in E2. apply Hhash in E2; [|assumption|assumption]. subst. rewrite N.eqb_refl in E. discriminate.
  Qed.

  Lemma clock_get_rn k a : (forall b, In b (map fst k) -> AD b) -> AD a ->
    clock_get (rn_clock R k) (fa a) = clock_get k a.
  Proof.
    induction k as [|[b n] t IH]; cbn [rn_clock map clock_get fst snd]; intros Hk Ha; [reflexivity|].
    rewrite same_actor_rn by (first [exact Ha|apply Hk; left; reflexivity]).
    destruct (same_actor a b); [reflexivity|]. apply IH; [|exact Ha]. intros c Hc. apply Hk. right. exact Hc.
  Qed.

  Lemma clock_set_rn k a n : (forall b, In b (map fst k) -> AD b) -> AD a ->
    clock_set (rn_clock R k) (fa a) n = rn_clock R (clock_set k a n).
  Proof.
    induction k as [|[b m] t IH]; cbn [rn_clock map clock_set fst snd]; intros Hk Ha; [reflexivity|].
    rewrite same_actor_rn by (first [exact Ha|apply Hk; left; reflexivity]).
    destruct (same_actor a b); cbn [map fst snd]; [reflexivity|].
    f_equal. apply IH; [|exact Ha]. intros c Hc. apply Hk. right. exact Hc.
  Qed.

  Lemma in_clock_set k a n b : In b (map fst (clock_set k a n)) -> b = a \/ In b (map fst k).
  Proof.
    induction k as [|[c m] t IH]; cbn [clock_set map fst In]; [intuition|].
    destruct (same_actor a c); cbn [map fst In]; intuition.
  Qed.

  Lemma max_op_rn c : max_op (rc c) = max_op c.
  Proof. unfold max_op. cbn [rn_change ch_start ch_ops]. rewrite map_length. reflexivity. Qed.

  Lemma clock_of_rn cs : (forall c, In c cs -> AD (ch_actor c)) ->
    clock_of (map rc cs) = rn_clock R (clock_of cs) /\ (forall b, In b (map fst (clock_of cs)) -> AD b).
  Proof.
    unfold clock_of. intros Hcs.
    assert (Gn : forall l k, (forall c, In c l -> AD (ch_actor c)) -> (forall b, In b (map fst k) -> AD b) ->
      fold_left (fun k c => clock_set k (ch_actor c) (max_op c)) (map rc l) (rn_clock R k)
      = rn_clock R (fold_left (fun k c => clock_set k (ch_actor c) (max_op c)) l k)
      /\ (forall b, In b (map fst (fold_left (fun k c => clock_set k (ch_actor c) (max_op c)) l k)) -> AD b)).
    { induction l as [|c t IH]; cbn [map fold_left]; intros k Hl Hk; [split; [reflexivity|exact Hk]|].
      rewrite max_op_rn. cbn [rn_change ch_actor].
      rewrite clock_set_rn by (first [exact Hk|apply Hl; left; reflexivity]).
      apply IH; [intros x Hx; apply Hl; right; exact Hx|].
      intros b Hb. apply in_clock_set in Hb. destruct Hb as [->|Hb]; [apply Hl; left; reflexivity|apply Hk, Hb]. }
    apply (Gn cs []); [exact Hcs|intros b []].
  Qed.

  Lemma all_ops_rn appl : all_ops (map rc appl) = map (rn_op R) (all_ops appl).
  Proof.
    unfold all_ops. rewrite flat_map_map', map_flat_map'. apply flat_map_ext_in'. intros c _. reflexivity.
  Qed.

  Lemma anc_rev_rn l : forall want,
    (forall c, In c l -> HD (ch_hash c) /\ forall d, In d (ch_deps c) -> HD d) ->
    (forall h, In h want -> HD h) ->
    anc_rev (map rc l) (map fh want) = map rc (anc_rev l want).
  Proof.
    induction l as [|c t IH]; intros want Hl Hw; [reflexivity|].
    cbn [map anc_rev]. cbn [rn_change ch_hash ch_deps].
    assert (Hc : HD (ch_hash c)) by (apply Hl; left; reflexivity).
    rewrite (memb_map_in N.eqb N.eqb fh (ch_hash c) want) by (intros y Hy; apply hash_eqb_rn; [exact Hc|apply Hw, Hy]).
    assert (Ht : forall c0, In c0 t -> HD (ch_hash c0) /\ (forall d, In d (ch_deps c0) -> HD d))
      by (intros c0 H0; apply Hl; right; exact H0).
    destruct (memb N.eqb (ch_hash c) want).
    - cbn [map]. f_equal. rewrite <- map_app. apply IH; [exact Ht|].
      intros h Hh. apply in_app_or in Hh. destruct Hh as [Hh|Hh]; [|apply Hw, Hh].
      apply (proj2 (Hl c (or_introl eq_refl))), Hh.
    - apply IH; assumption.
  Qed.

  Lemma ancestors_rn appl hs :
    (forall c, In c appl -> HD (ch_hash c) /\ forall d, In d (ch_deps c) -> HD d) ->
    (forall h, In h hs -> HD h) ->
    ancestors (map rc appl) (map fh hs) = map rc (ancestors appl hs).
  Proof.
    intros Ha Hh. unfold ancestors. rewrite <- map_rev, anc_rev_rn, map_rev; [reflexivity| |exact Hh].
    intros c Hc. apply Ha. apply in_rev. exact Hc.
  Qed.

  Lemma hashes_rn appl : hashes (map rc appl) = map fh (hashes appl).
  Proof. unfold hashes. rewrite !map_map. reflexivity. Qed.

  Theorem heads_rn appl :
    (forall c, In c appl -> HD (ch_hash c) /\ forall d, In d (ch_deps c) -> HD d) ->
    heads_of (map rc appl) = sortN (map fh (heads_of appl)).
  Proof.
    intros Ha. unfold heads_of. rewrite hashes_rn.
    rewrite (filter_map_in (fun h => negb (existsb (fun c => memb N.eqb h (ch_deps c)) appl))
                           (fun h => negb (existsb (fun c => memb N.eqb h (ch_deps c)) (map rc appl))) fh (hashes appl)).
    - unfold sortN. apply (isort_perm_eq N.compare N_cmp_total). apply Permutation_map, isort_perm.
    - intros h Hh. f_equal. rewrite existsb_map'. apply existsb_ext_in'. intros c Hc.
      cbn [rn_change ch_deps]. apply memb_map_in. intros d Hd. apply hash_eqb_rn.
      + unfold hashes in Hh. apply in_map_iff in Hh. destruct Hh as (c' & <- & Hc'). apply Ha, Hc'.
      + apply (proj2 (Ha c Hc)), Hd.
  Qed.
End Hist.

Record good_hist (R : renaming) (appl : list change) (hs : list N) : Prop := {
  h_wf : wf_ids (all_ops appl);
  h_act : forall a b, In a (hist_actors appl) -> In b (hist_actors appl) ->
          bytes_cmp (r_actor R a) (r_actor R b) = bytes_cmp a b;
  h_hash : forall x y, In x (hist_hashes appl hs) -> In y (hist_hashes appl hs) -> r_hash R x = r_hash R y -> x = y;
  h_kinj : forall k1 k2, In k1 (map_keys (all_ops appl)) -> In k2 (map_keys (all_ops appl)) ->
           r_key R k1 = r_key R k2 -> k1 = k2;
  h_kshape : forall k, In k (map_keys (all_ops appl)) -> map u8w (r_key R k) = map u8w k;
  h_val : forall o v, In o (all_ops appl) -> op_action o = APut v -> sshape (r_val R (op_id o) v) = sshape v }.

Lemma good_hist_on R appl hs : good_hist R appl hs -> good_on R (all_ops appl).
Proof.
  intros H. split; [|apply (h_kinj _ _ _ H)|apply (h_kshape _ _ _ H)|apply (h_val _ _ _ H)].
  apply mono_of_actors; [apply (h_wf _ _ _ H)|].
  intros a b Ha Hb. apply (h_act _ _ _ H); unfold hist_actors; apply in_or_app; right; assumption.
Qed.

Lemma hist_hash_dom appl hs c : In c appl ->
  In (ch_hash c) (hist_hashes appl hs) /\ forall d, In d (ch_deps c) -> In d (hist_hashes appl hs).
Proof.
  intros Hc. unfold hist_hashes. split.
  - apply in_or_app. right. apply in_or_app. left. unfold hashes. apply in_map, Hc.
  - intros d Hd. apply in_or_app. right. apply in_or_app. right. apply in_flat_map. exists c. split; assumption.
Qed.

Theorem shape_obs_at_rn R appl hs : good_hist R appl hs ->
  shape (obs_at (rename R appl) (map (r_hash R) hs)) = shape (obs_at appl hs).
Proof.
  intros H. unfold obs_at, rename.
  set (AD := fun a => In a (hist_actors appl)). set (HD := fun h => In h (hist_hashes appl hs)).
  rewrite (ancestors_rn R HD (h_hash _ _ _ H) appl hs)
    by (try (intros c Hc; apply hist_hash_dom, Hc); intros h Hh; unfold HD, hist_hashes; apply in_or_app; left; exact Hh).
  assert (Hanc : forall c, In c (ancestors appl hs) -> AD (ch_actor c)).
  { intros c Hc. unfold AD, hist_actors. apply in_or_app. left. apply in_map.
    unfold ancestors in Hc. apply in_rev in Hc.
    assert (Gn : forall l want x, In x (anc_rev l want) -> In x l).
    { induction l as [|y t IH]; cbn [anc_rev]; intros want x Hx; [exact Hx|].
      destruct (memb N.eqb (ch_hash y) want); [destruct Hx as [->|Hx]; [left; reflexivity|right; eapply IH, Hx]|right; eapply IH, Hx]. }
    apply Gn in Hc. apply in_rev in Hc. exact Hc. }
  destruct (clock_of_rn R AD (h_act _ _ _ H) (ancestors appl hs) Hanc) as [Ek Hk].
  rewrite Ek, all_ops_rn.
  rewrite (filter_map_in (fun o => covered (clock_of (ancestors appl hs)) (op_id o))
                         (fun o => covered (rn_clock R (clock_of (ancestors appl hs))) (op_id o))
                         (rn_op R) (all_ops appl)).
  - apply (shape_observe_rn R (all_ops appl) (good_hist_on R appl hs H)).
    intros o Ho. apply filter_In in Ho. tauto.
  - intros o Ho. cbn [rn_op op_id]. destruct (h_wf _ _ _ H) as [_ W].
    rewrite (rn_id_nonroot R (op_id o) (W o Ho)). unfold covered. cbn [fst snd].
    rewrite (clock_get_rn R AD (h_act _ _ _ H)); [reflexivity|exact Hk|].
    unfold AD, hist_actors, id_actors. apply in_or_app. right. apply in_map. apply filter_In.
    split; [apply in_ids_id, Ho|]. destruct (opid_eqb (op_id o) root_id) eqn:E; [|reflexivity].
    apply opid_eqb_spec in E. pose proof (W o Ho) as Wo. rewrite E in Wo. cbn in Wo. lia.
Qed.

Theorem heads_rename R appl hs : good_hist R appl hs ->
  heads_of (rename R appl) = sortN (map (r_hash R) (heads_of appl)).
Proof.
  intros H. unfold rename. apply (heads_rn R (fun h => In h (hist_hashes appl hs)) (h_hash _ _ _ H)).
  intros c Hc. apply hist_hash_dom, Hc.
Qed.
