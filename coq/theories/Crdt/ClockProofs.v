(* Crdt/ClockProofs.v — historical reads (C07).

   [obs_at a hs] reads a document "at heads hs": it computes a per-actor
   clock over [ancestors a hs] and keeps the operations of [a] whose id is
   covered by that clock.  Under the well-formedness conditions [WFhist]
   (distinct hashes, topological order, op ids [start + i] of the change's
   actor, per-actor chains) this is the read of the document that contains
   exactly the ancestors:  [obs_at a hs = observe (all_ops (ancestors a hs))]. *)
From AM Require Import Base.Prelude Base.Order Crdt.Types Crdt.Interp Crdt.Doc Exec.HistExec.
Local Open Scope N_scope.

(* ------------------------------------------------------------------ *)
(* small helpers                                                       *)

Lemma same_actor_spec a b : same_actor a b = true <-> a = b.
Proof.
  unfold same_actor, nlist_eqb. apply list_eqb_spec. intros x y. apply N.eqb_eq.
Qed.

Lemma same_actor_cases a b :
  (a = b /\ same_actor a b = true) \/ (a <> b /\ same_actor a b = false).
Proof.
  destruct (same_actor a b) eqn:E.
  - left. split; [apply same_actor_spec, E|reflexivity].
  - right. split; [|reflexivity]. intros H. apply same_actor_spec in H. congruence.
Qed.

Lemma memb_N_In x l : memb N.eqb x l = true <-> In x l.
Proof. apply memb_In. intros a b. apply N.eqb_eq. Qed.

Lemma has_hash_spec cs h : has_hash cs h = true <-> exists c, In c cs /\ ch_hash c = h.
Proof.
  unfold has_hash. rewrite existsb_exists.
  split; intros [c [Hc E]]; exists c; (split; [exact Hc|]); apply N.eqb_eq; exact E.
Qed.

Lemma has_hash_app l1 l2 h : has_hash (l1 ++ l2) h = has_hash l1 h || has_hash l2 h.
Proof. unfold has_hash. apply existsb_app. Qed.

Lemma in_hashes a h : In h (hashes a) <-> exists c, In c a /\ ch_hash c = h.
Proof.
  unfold hashes. rewrite in_map_iff. split; intros [c [H1 H2]]; exists c; auto.
Qed.

Lemma nodup_hashes_snoc a x :
  NoDup (hashes (a ++ [x])) -> NoDup (hashes a) /\ ~ In (ch_hash x) (hashes a).
Proof.
  unfold hashes. rewrite map_app. cbn [map]. intros H.
  apply NoDup_remove in H. rewrite app_nil_r in H. exact H.
Qed.

Lemma hash_inj a : NoDup (hashes a) ->
  forall c c', In c a -> In c' a -> ch_hash c = ch_hash c' -> c = c'.
Proof.
  unfold hashes. induction a as [|x a IH]; intros ND c c' Hc Hc' E; [destruct Hc|].
  cbn [map] in ND. inversion ND as [|? ? Hnin ND']; subst.
  destruct Hc as [->|Hc]; destruct Hc' as [->|Hc'].
  - reflexivity.
  - exfalso. apply Hnin. rewrite E. apply in_map, Hc'.
  - exfalso. apply Hnin. rewrite <- E. apply in_map, Hc.
  - apply IH; assumption.
Qed.

Lemma nth_error_firstn_in {A} (l : list A) : forall i j x,
  nth_error l i = Some x -> (i < j)%nat -> In x (firstn j l).
Proof.
  induction l as [|y l IH]; intros i j x Hi Hlt.
  - destruct i; discriminate.
  - destruct j as [|j]; [lia|]. cbn [firstn]. destruct i as [|i]; cbn [nth_error] in Hi.
    + left. congruence.
    + right. eapply IH; [exact Hi|lia].
Qed.

Lemma firstn_incl_l {A} (l : list A) i x : In x (firstn i l) -> In x l.
Proof.
  intros H. rewrite <- (firstn_skipn i l). apply in_or_app. left. exact H.
Qed.

Lemma filter_all_true {A} (f : A -> bool) l : (forall x, In x l -> f x = true) -> filter f l = l.
Proof.
  induction l as [|x l IH]; intros H; [reflexivity|]. cbn [filter].
  rewrite (H x (or_introl eq_refl)). f_equal. apply IH. intros y Hy. apply H. right. exact Hy.
Qed.

Lemma filter_all_false {A} (f : A -> bool) l : (forall x, In x l -> f x = false) -> filter f l = [].
Proof.
  induction l as [|x l IH]; intros H; [reflexivity|]. cbn [filter].
  rewrite (H x (or_introl eq_refl)). apply IH. intros y Hy. apply H. right. exact Hy.
Qed.

(* ------------------------------------------------------------------ *)
(* well-formed histories                                               *)

Definition Topo (a : list change) : Prop :=
  forall i c, nth_error a i = Some c ->
  forall h, In h (ch_deps c) -> has_hash (firstn i a) h = true.

Record WFhist (a : list change) : Prop := mkWFhist {
  wf_nodup : NoDup (hashes a);
  wf_topo : Topo a;
  wf_start : forall c, In c a -> 1 <= ch_start c;
  wf_opids : forall c, In c a -> forall i o, nth_error (ch_ops c) i = Some o ->
             op_id o = (ch_start c + N.of_nat i, ch_actor c);
  (* actor chains: an earlier change of the same actor is an ancestor, with smaller op counters *)
  wf_chain : forall i j c1 c2, (i < j)%nat ->
             nth_error a i = Some c1 -> nth_error a j = Some c2 -> ch_actor c1 = ch_actor c2 ->
             In c1 (ancestors a [ch_hash c2]) /\ max_op c1 < ch_start c2 }.

Lemma Topo_snoc a x : Topo (a ++ [x]) -> Topo a.
Proof.
  intros T i c Hi h Hh.
  assert (Hlt : (i < length a)%nat) by (apply nth_error_Some; congruence).
  specialize (T i c). rewrite nth_error_app1 in T by exact Hlt. specialize (T Hi h Hh).
  rewrite firstn_app in T. replace (i - length a)%nat with 0%nat in T by lia.
  cbn [firstn] in T. rewrite app_nil_r in T. exact T.
Qed.

Lemma Topo_dep_in a c h : Topo a -> In c a -> In h (ch_deps c) ->
  exists c', In c' a /\ ch_hash c' = h.
Proof.
  intros T Hc Hh. apply In_nth_error in Hc. destruct Hc as [i Hi].
  specialize (T i c Hi h Hh). apply has_hash_spec in T. destruct T as [c' [Hc' E]].
  exists c'. split; [|exact E]. eapply firstn_incl_l. exact Hc'.
Qed.

(* ------------------------------------------------------------------ *)
(* ancestors: one backwards pass = transitive closure                  *)

Lemma ancestors_snoc a x hs :
  ancestors (a ++ [x]) hs =
  if memb N.eqb (ch_hash x) hs then ancestors a (ch_deps x ++ hs) ++ [x] else ancestors a hs.
Proof.
  unfold ancestors. rewrite rev_app_distr. cbn [rev app anc_rev].
  destruct (memb N.eqb (ch_hash x) hs); [cbn [rev]; reflexivity|reflexivity].
Qed.

Lemma ancestors_incl : forall a hs, incl (ancestors a hs) a.
Proof.
  intros a. induction a as [|x a IH] using rev_ind; intros hs c Hc.
  - exact Hc.
  - rewrite ancestors_snoc in Hc. apply in_or_app.
    destruct (memb N.eqb (ch_hash x) hs).
    + apply in_app_or in Hc. destruct Hc as [Hc|Hc]; [left; eapply IH; exact Hc|right; exact Hc].
    + left. eapply IH; exact Hc.
Qed.

(* the transitive closure, as an inductive predicate *)
Inductive Anc (a : list change) (hs : list N) : change -> Prop :=
| Anc_head c : In c a -> In (ch_hash c) hs -> Anc a hs c
| Anc_dep c c' : In c a -> Anc a hs c' -> In (ch_hash c) (ch_deps c') -> Anc a hs c.

Lemma Anc_in a hs c : Anc a hs c -> In c a.
Proof. intros H. destruct H as [c Hc _|c c' Hc _ _]; exact Hc. Qed.

Lemma Anc_mono a x hs c : Anc a hs c -> Anc (a ++ [x]) hs c.
Proof.
  intros H. induction H as [c Hc Hh|c c' Hc HA IH Hd].
  - apply Anc_head; [apply in_or_app; left; exact Hc|exact Hh].
  - eapply Anc_dep; [apply in_or_app; left; exact Hc|exact IH|exact Hd].
Qed.

Lemma Anc_lift a x hs c :
  In (ch_hash x) hs -> Anc a (ch_deps x ++ hs) c -> Anc (a ++ [x]) hs c.
Proof.
  intros Hx H. induction H as [c Hc Hh|c c' Hc HA IH Hd].
  - apply in_app_or in Hh. destruct Hh as [Hh|Hh].
    + eapply Anc_dep; [apply in_or_app; left; exact Hc| |exact Hh].
      apply Anc_head; [apply in_or_app; right; left; reflexivity|exact Hx].
    + apply Anc_head; [apply in_or_app; left; exact Hc|exact Hh].
  - eapply Anc_dep; [apply in_or_app; left; exact Hc|exact IH|exact Hd].
Qed.

Lemma ancestors_Anc : forall a hs c, In c (ancestors a hs) -> Anc a hs c.
Proof.
  intros a. induction a as [|x a IH] using rev_ind; intros hs c Hc.
  - destruct Hc.
  - rewrite ancestors_snoc in Hc. destruct (memb N.eqb (ch_hash x) hs) eqn:E.
    + apply memb_N_In in E. apply in_app_or in Hc. destruct Hc as [Hc|Hc].
      * apply Anc_lift; [exact E|]. apply IH. exact Hc.
      * destruct Hc as [->|[]]. apply Anc_head; [apply in_or_app; right; left; reflexivity|exact E].
    + apply Anc_mono. apply IH. exact Hc.
Qed.

Lemma Anc_drop_in a x hs c :
  Anc (a ++ [x]) hs c -> c = x \/ Anc a (ch_deps x ++ hs) c.
Proof.
  intros H. induction H as [c Hc Hh|c c' Hc HA IH Hd].
  - apply in_app_or in Hc. destruct Hc as [Hc|[->|[]]]; [right|left; reflexivity].
    apply Anc_head; [exact Hc|apply in_or_app; right; exact Hh].
  - apply in_app_or in Hc. destruct Hc as [Hc|[->|[]]]; [right|left; reflexivity].
    destruct IH as [->|IH].
    + apply Anc_head; [exact Hc|apply in_or_app; left; exact Hd].
    + eapply Anc_dep; [exact Hc|exact IH|exact Hd].
Qed.

Lemma Anc_drop_out a x hs c :
  ~ In (ch_hash x) (hashes a) -> Topo a -> ~ In (ch_hash x) hs ->
  Anc (a ++ [x]) hs c -> Anc a hs c.
Proof.
  intros Hnx T Hnh H. induction H as [c Hc Hh|c c' Hc HA IH Hd].
  - apply in_app_or in Hc. destruct Hc as [Hc|[->|[]]]; [|contradiction].
    apply Anc_head; [exact Hc|exact Hh].
  - destruct (Topo_dep_in a c' (ch_hash c) T (Anc_in _ _ _ IH) Hd) as [d [Hd1 Hd2]].
    apply in_app_or in Hc. destruct Hc as [Hc|[->|[]]].
    + eapply Anc_dep; [exact Hc|exact IH|exact Hd].
    + exfalso. apply Hnx. apply in_hashes. exists d. split; assumption.
Qed.

Lemma Anc_ancestors : forall a, NoDup (hashes a) -> Topo a ->
  forall hs c, Anc a hs c -> In c (ancestors a hs).
Proof.
  intros a. induction a as [|x a IH] using rev_ind; intros ND T hs c H.
  - apply Anc_in in H. destruct H.
  - destruct (nodup_hashes_snoc _ _ ND) as [ND' Hnx]. pose proof (Topo_snoc _ _ T) as T'.
    rewrite ancestors_snoc. destruct (memb N.eqb (ch_hash x) hs) eqn:E.
    + apply Anc_drop_in in H. apply in_or_app.
      destruct H as [->|H]; [right; left; reflexivity|left; apply IH; assumption].
    + apply IH; try assumption. eapply Anc_drop_out; try eassumption.
      intros Hin. apply memb_N_In in Hin. congruence.
Qed.

Lemma ancestors_Anc_iff a hs c : WFhist a -> (In c (ancestors a hs) <-> Anc a hs c).
Proof.
  intros W. split; [apply ancestors_Anc|].
  apply Anc_ancestors; [apply (wf_nodup a W)|apply (wf_topo a W)].
Qed.

(* membership characterisation requested by the task *)
Lemma ancestors_char a hs c : WFhist a ->
  (In c (ancestors a hs) <->
   In c a /\ (In (ch_hash c) hs \/
              exists c', In c' (ancestors a hs) /\ In (ch_hash c) (ch_deps c'))).
Proof.
  intros W. rewrite (ancestors_Anc_iff a hs c W). split.
  - intros H. destruct H as [c Hc Hh|c c' Hc HA Hd]; (split; [exact Hc|]); [left; exact Hh|].
    right. exists c'. split; [apply (ancestors_Anc_iff a hs c' W); exact HA|exact Hd].
  - intros [Hc [Hh|[c' [HA Hd]]]]; [apply Anc_head; assumption|].
    eapply Anc_dep; [exact Hc|apply (ancestors_Anc_iff a hs c' W); exact HA|exact Hd].
Qed.

Lemma ancestors_heads : forall a hs c, WFhist a ->
  In c a -> In (ch_hash c) hs -> In c (ancestors a hs).
Proof.
  intros a hs c W Hc Hh. apply (ancestors_Anc_iff a hs c W). apply Anc_head; assumption.
Qed.

Lemma ancestors_closed : forall a hs, WFhist a ->
  forall c, In c (ancestors a hs) -> forall h, In h (ch_deps c) ->
  exists c', In c' (ancestors a hs) /\ ch_hash c' = h.
Proof.
  intros a hs W c Hc h Hh.
  destruct (Topo_dep_in a c h (wf_topo a W) (ancestors_incl a hs c Hc) Hh) as [c' [Hc' E]].
  exists c'. split; [|exact E]. apply (ancestors_Anc_iff a hs c' W).
  eapply Anc_dep; [exact Hc'|apply (ancestors_Anc_iff a hs c W); exact Hc|rewrite E; exact Hh].
Qed.

(* ancestors of an ancestor are ancestors *)
Lemma ancestors_trans a hs c c' : WFhist a ->
  In c' (ancestors a hs) -> In c (ancestors a [ch_hash c']) -> In c (ancestors a hs).
Proof.
  intros W Hc' Hc. apply (ancestors_Anc_iff a hs c W).
  apply (ancestors_Anc_iff a hs c' W) in Hc'. apply (ancestors_Anc_iff a _ c W) in Hc.
  induction Hc as [c Hc Hh|c d Hc HA IH Hd].
  - destruct Hh as [Hh|[]].
    assert (c = c') as ->.
    { apply (hash_inj a (wf_nodup a W)); [exact Hc|eapply Anc_in; exact Hc'|symmetry; exact Hh]. }
    exact Hc'.
  - eapply Anc_dep; [exact Hc|exact IH|exact Hd].
Qed.

(* ancestors is the filter of [a] by membership (same order as [a]) *)
Lemma ancestors_filter : forall a, NoDup (hashes a) -> forall hs,
  ancestors a hs = filter (fun c => has_hash (ancestors a hs) (ch_hash c)) a.
Proof.
  intros a. induction a as [|x a IH] using rev_ind; intros ND hs; [reflexivity|].
  destruct (nodup_hashes_snoc _ _ ND) as [ND' Hnx].
  rewrite ancestors_snoc. destruct (memb N.eqb (ch_hash x) hs) eqn:E.
  - rewrite filter_app. f_equal.
    + rewrite (IH ND' (ch_deps x ++ hs)) at 1. apply filter_ext_in. intros c Hc.
      rewrite has_hash_app. cbn [has_hash existsb].
      assert (ch_hash x =? ch_hash c = false) as ->; [|rewrite !orb_false_r; reflexivity].
      apply N.eqb_neq. intros Heq. apply Hnx. rewrite Heq. apply in_hashes. exists c. auto.
    + cbn [filter]. rewrite has_hash_app. cbn [has_hash existsb].
      rewrite N.eqb_refl, orb_true_l, orb_true_r. reflexivity.
  - rewrite filter_app. cbn [filter].
    assert (has_hash (ancestors a hs) (ch_hash x) = false) as ->.
    { destruct (has_hash (ancestors a hs) (ch_hash x)) eqn:Hh; [|reflexivity].
      exfalso. apply has_hash_spec in Hh. destruct Hh as [c [Hc Hh]].
      apply Hnx. apply in_hashes. exists c. split; [eapply ancestors_incl; exact Hc|exact Hh]. }
    rewrite app_nil_r. apply IH. exact ND'.
Qed.

(* ------------------------------------------------------------------ *)
(* clocks                                                              *)

Lemma clock_get_set_same k a n : clock_get (clock_set k a n) a = N.max (clock_get k a) n.
Proof.
  induction k as [|[b m] k IH]; cbn [clock_set clock_get].
  - destruct (same_actor_cases a a) as [[_ E]|[Hne _]]; [rewrite E; lia|congruence].
  - destruct (same_actor a b) eqn:E; cbn [clock_get]; rewrite E; [reflexivity|exact IH].
Qed.

Lemma clock_get_set_other k a n b : a <> b -> clock_get (clock_set k a n) b = clock_get k b.
Proof.
  intros Hne. induction k as [|[d m] k IH]; cbn [clock_set clock_get].
  - destruct (same_actor_cases b a) as [[E _]|[_ E]]; [congruence|rewrite E; reflexivity].
  - destruct (same_actor_cases a d) as [[E1 E]|[E1 E]]; rewrite E; cbn [clock_get].
    + subst d. destruct (same_actor_cases b a) as [[E2 _]|[_ E2]]; [congruence|].
      rewrite E2. reflexivity.
    + destruct (same_actor b d); [reflexivity|exact IH].
Qed.

Definition cfold (cs : list change) (k : clock) : clock :=
  fold_left (fun k c => clock_set k (ch_actor c) (max_op c)) cs k.

Lemma clock_of_cfold cs : clock_of cs = cfold cs [].
Proof. reflexivity. Qed.

Lemma cfold_ge cs : forall k b, clock_get k b <= clock_get (cfold cs k) b.
Proof.
  unfold cfold. induction cs as [|c cs IH]; intros k b; cbn [fold_left]; [lia|].
  eapply N.le_trans; [|apply IH].
  destruct (same_actor_cases (ch_actor c) b) as [[E _]|[E _]].
  - subst b. rewrite clock_get_set_same. lia.
  - rewrite clock_get_set_other by exact E. lia.
Qed.

Lemma cfold_in cs : forall k c, In c cs -> max_op c <= clock_get (cfold cs k) (ch_actor c).
Proof.
  induction cs as [|x cs IH]; intros k c Hc; [destruct Hc|].
  change (cfold (x :: cs) k) with (cfold cs (clock_set k (ch_actor x) (max_op x))).
  destruct Hc as [->|Hc]; [|apply IH, Hc].
  eapply N.le_trans; [|apply cfold_ge]. rewrite clock_get_set_same. lia.
Qed.

Lemma cfold_witness cs : forall k b,
  clock_get (cfold cs k) b = clock_get k b \/
  exists c, In c cs /\ ch_actor c = b /\ max_op c = clock_get (cfold cs k) b.
Proof.
  induction cs as [|x cs IH]; intros k b; [left; reflexivity|].
  change (cfold (x :: cs) k) with (cfold cs (clock_set k (ch_actor x) (max_op x))).
  destruct (IH (clock_set k (ch_actor x) (max_op x)) b) as [E|[c [Hc [Ea Em]]]].
  - rewrite E. destruct (same_actor_cases (ch_actor x) b) as [[Eb _]|[Eb _]].
    + subst b. rewrite clock_get_set_same.
      destruct (N.max_spec (clock_get k (ch_actor x)) (max_op x)) as [[_ Hm]|[_ Hm]]; rewrite Hm.
      * right. exists x. split; [left; reflexivity|]. split; reflexivity.
      * left. reflexivity.
    + left. apply clock_get_set_other. exact Eb.
  - right. exists c. split; [right; exact Hc|]. split; assumption.
Qed.

Lemma clock_of_in cs c : In c cs -> max_op c <= clock_get (clock_of cs) (ch_actor c).
Proof. rewrite clock_of_cfold. apply cfold_in. Qed.

Lemma clock_of_witness cs b :
  clock_get (clock_of cs) b = 0 \/
  exists c, In c cs /\ ch_actor c = b /\ max_op c = clock_get (clock_of cs) b.
Proof. rewrite clock_of_cfold. apply (cfold_witness cs [] b). Qed.

(* ------------------------------------------------------------------ *)
(* main theorems                                                       *)

Theorem covered_iff_ancestor : forall a hs, WFhist a -> forall c o, In c a -> In o (ch_ops c) ->
  (covered (clock_of (ancestors a hs)) (op_id o) = true <-> In c (ancestors a hs)).
Proof.
  intros a hs W c o Hc Ho.
  destruct (In_nth_error _ _ Ho) as [i Hi].
  pose proof (wf_opids a W c Hc i o Hi) as Eid.
  assert (Hlen : (i < length (ch_ops c))%nat) by (apply nth_error_Some; congruence).
  pose proof (wf_start a W c Hc) as Hs.
  unfold covered. rewrite Eid. cbn [fst snd]. rewrite N.leb_le.
  split.
  - intros Hle.
    destruct (clock_of_witness (ancestors a hs) (ch_actor c)) as [E0|[c' [Hc' [Ea Em]]]]; [lia|].
    assert (Hc'a : In c' a) by (eapply ancestors_incl; exact Hc').
    destruct (In_nth_error _ _ Hc) as [p Hp]. destruct (In_nth_error _ _ Hc'a) as [q Hq].
    destruct (lt_eq_lt_dec p q) as [[Hlt|Heq]|Hgt].
    + destruct (wf_chain a W p q c c' Hlt Hp Hq (eq_sym Ea)) as [Hin _].
      eapply ancestors_trans; [exact W|exact Hc'|exact Hin].
    + subst q. assert (c = c') as -> by congruence. exact Hc'.
    + destruct (wf_chain a W q p c' c Hgt Hq Hp Ea) as [_ Hlt]. lia.
  - intros Hin. pose proof (clock_of_in _ _ Hin) as Hm. unfold max_op in Hm. lia.
Qed.

Lemma filter_all_ops (f : op -> bool) (p : change -> bool) l :
  (forall c, In c l -> forall o, In o (ch_ops c) -> f o = p c) ->
  filter f (all_ops l) = all_ops (filter p l).
Proof.
  unfold all_ops. induction l as [|c l IH]; intros H; [reflexivity|].
  cbn [flat_map filter]. rewrite filter_app.
  rewrite IH by (intros c' Hc'; apply H; right; exact Hc').
  specialize (H c (or_introl eq_refl)). destruct (p c).
  - cbn [flat_map]. f_equal. apply filter_all_true. exact H.
  - rewrite (filter_all_false f (ch_ops c) H). reflexivity.
Qed.

Theorem filter_covered_eq : forall a hs, WFhist a ->
  filter (fun o => covered (clock_of (ancestors a hs)) (op_id o)) (all_ops a) = all_ops (ancestors a hs).
Proof.
  intros a hs W.
  transitivity (all_ops (filter (fun c => has_hash (ancestors a hs) (ch_hash c)) a));
    [|f_equal; symmetry; apply ancestors_filter, (wf_nodup a W)].
  apply filter_all_ops. intros c Hc o Ho.
  pose proof (covered_iff_ancestor a hs W c o Hc Ho) as Hiff.
  destruct (has_hash (ancestors a hs) (ch_hash c)) eqn:Hh.
  - apply Hiff. apply has_hash_spec in Hh. destruct Hh as [c' [Hc' E]].
    assert (c' = c) as <-; [|exact Hc'].
    apply (hash_inj a (wf_nodup a W)); [eapply ancestors_incl; exact Hc'|exact Hc|exact E].
  - destruct (covered (clock_of (ancestors a hs)) (op_id o)) eqn:Hcov; [|reflexivity].
    exfalso. assert (Hin : In c (ancestors a hs)) by (apply Hiff; reflexivity).
    assert (has_hash (ancestors a hs) (ch_hash c) = true) by (apply has_hash_spec; exists c; auto).
    congruence.
Qed.

(* C07: a read at heads equals the read of the document restricted to the ancestors *)
Theorem obs_at_eq_restrict : forall a hs, WFhist a ->
  obs_at a hs = observe (all_ops (ancestors a hs)).
Proof.
  intros a hs W. unfold obs_at. cbv zeta. rewrite (filter_covered_eq a hs W). reflexivity.
Qed.

(* ------------------------------------------------------------------ *)
(* boolean checker                                                     *)

Fixpoint nodupb (l : list N) : bool :=
  match l with [] => true | x :: t => negb (memb N.eqb x t) && nodupb t end.

Definition topo_b (a : list change) : bool :=
  forallb (fun i => match nth_error a i with
                    | Some c => forallb (has_hash (firstn i a)) (ch_deps c)
                    | None => true
                    end) (seq 0 (length a)).

Fixpoint op_ids_b (act : actor) (n : N) (ops : list op) : bool :=
  match ops with
  | [] => true
  | o :: t => opid_eqb (op_id o) (n, act) && op_ids_b act (n + 1) t
  end.

Definition change_ok_b (c : change) : bool :=
  (1 <=? ch_start c) && op_ids_b (ch_actor c) (ch_start c) (ch_ops c).

Definition chain_b (a : list change) : bool :=
  forallb (fun j => match nth_error a j with
                    | Some c2 =>
                      let anc := ancestors a [ch_hash c2] in
                      forallb (fun c1 => negb (same_actor (ch_actor c1) (ch_actor c2))
                                         || (has_hash anc (ch_hash c1) && (max_op c1 <? ch_start c2)))
                              (firstn j a)
                    | None => true
                    end) (seq 0 (length a)).

Definition wf_hist_b (a : list change) : bool :=
  nodupb (hashes a) && topo_b a && forallb change_ok_b a && chain_b a.

Lemma nodupb_sound l : nodupb l = true -> NoDup l.
Proof.
  induction l as [|x l IH]; cbn [nodupb]; intros H; [constructor|].
  apply andb_true_iff in H. destruct H as [H1 H2]. constructor; [|apply IH, H2].
  intros Hin. apply memb_N_In in Hin. rewrite Hin in H1. discriminate.
Qed.

Lemma forallb_seq_sound (f : nat -> bool) n :
  forallb f (seq 0 n) = true -> forall i, (i < n)%nat -> f i = true.
Proof.
  intros H i Hi. rewrite forallb_forall in H. apply H. apply in_seq. lia.
Qed.

Lemma topo_b_sound a : topo_b a = true -> Topo a.
Proof.
  unfold topo_b. intros H i c Hi h Hh.
  assert (Hlt : (i < length a)%nat) by (apply nth_error_Some; congruence).
  pose proof (forallb_seq_sound _ _ H i Hlt) as Hf. cbv beta in Hf. rewrite Hi in Hf.
  rewrite forallb_forall in Hf. apply Hf, Hh.
Qed.

Lemma op_ids_b_sound act ops : forall n, op_ids_b act n ops = true ->
  forall i o, nth_error ops i = Some o -> op_id o = (n + N.of_nat i, act).
Proof.
  induction ops as [|x ops IH]; intros n H i o Hi; [destruct i; discriminate|].
  cbn [op_ids_b] in H. apply andb_true_iff in H. destruct H as [H1 H2].
  destruct i as [|i]; cbn [nth_error] in Hi.
  - assert (x = o) as <- by congruence. apply opid_eqb_spec in H1. rewrite H1. f_equal. lia.
  - rewrite (IH (n + 1) H2 i o Hi). f_equal. lia.
Qed.

Theorem wf_hist_b_sound a : wf_hist_b a = true -> WFhist a.
Proof.
  unfold wf_hist_b. intros H.
  apply andb_true_iff in H. destruct H as [H H4].
  apply andb_true_iff in H. destruct H as [H H3].
  apply andb_true_iff in H. destruct H as [H1 H2].
  pose proof (nodupb_sound _ H1) as ND. rewrite forallb_forall in H3.
  constructor.
  - exact ND.
  - apply topo_b_sound, H2.
  - intros c Hc. specialize (H3 c Hc). unfold change_ok_b in H3.
    apply andb_true_iff in H3. destruct H3 as [H3 _]. apply N.leb_le. exact H3.
  - intros c Hc i o Hi. specialize (H3 c Hc). unfold change_ok_b in H3.
    apply andb_true_iff in H3. destruct H3 as [_ H3]. eapply op_ids_b_sound; eassumption.
  - intros i j c1 c2 Hlt Hi Hj Ea. unfold chain_b in H4.
    assert (Hjl : (j < length a)%nat) by (apply nth_error_Some; congruence).
    pose proof (forallb_seq_sound _ _ H4 j Hjl) as Hf. cbv beta in Hf. rewrite Hj in Hf.
    cbv zeta in Hf. rewrite forallb_forall in Hf.
    specialize (Hf c1 (nth_error_firstn_in a i j c1 Hi Hlt)).
    assert (same_actor (ch_actor c1) (ch_actor c2) = true) as Es by (apply same_actor_spec, Ea).
    rewrite Es in Hf. cbn [negb orb] in Hf.
    apply andb_true_iff in Hf. destruct Hf as [Hh Hm]. split; [|apply N.ltb_lt; exact Hm].
    apply has_hash_spec in Hh. destruct Hh as [c [Hc E]].
    assert (c = c1) as <-; [|exact Hc].
    apply (hash_inj a ND); [eapply ancestors_incl; exact Hc|eapply nth_error_In; exact Hi|exact E].
Qed.

(* ------------------------------------------------------------------ *)
(* examples: two actors, two branches, a merge                         *)

Module Ex.
  Definition actA : actor := [1].
  Definition actB : actor := [2].
  Definition kx : key := KMap [120].
  Definition ky : key := KMap [121].
  Definition o1 := mkOp (1, actA) root_id kx false (APut (SInt 1)) [].
  Definition o2 := mkOp (2, actB) root_id kx false (APut (SInt 2)) [(1, actA)].
  Definition o3 := mkOp (2, actA) root_id ky false (APut (SInt 3)) [].
  Definition o4 := mkOp (3, actA) root_id kx false (APut (SInt 4)) [(2, actB)].
  Definition c1 := mkChange 101 actA 1 1 [] [o1].
  Definition c2 := mkChange 102 actB 1 2 [101] [o2].
  Definition c3 := mkChange 103 actA 2 2 [101] [o3].
  Definition c4 := mkChange 104 actA 3 3 [102; 103] [o4].         (* the merge *)
  Definition c5 := mkChange 105 actB 2 3 [102] [].                (* an empty change *)
  Definition hist := [c1; c2; c3; c4].
  Definition hist5 := [c1; c2; c3; c4; c5].

  Example hist_wf_b : wf_hist_b hist = true.
  Proof. vm_compute. reflexivity. Qed.
  Example hist_wf : WFhist hist.
  Proof. apply wf_hist_b_sound, hist_wf_b. Qed.
  Example hist5_wf_b : wf_hist_b hist5 = true.
  Proof. vm_compute. reflexivity. Qed.

  Example anc_B : ancestors hist [102] = [c1; c2].
  Proof. vm_compute. reflexivity. Qed.
  Example anc_A : ancestors hist [103] = [c1; c3].
  Proof. vm_compute. reflexivity. Qed.
  Example anc_all : ancestors hist [104] = hist.
  Proof. vm_compute. reflexivity. Qed.
  Example anc_empty_change : ancestors hist5 [105] = [c1; c2; c5].
  Proof. vm_compute. reflexivity. Qed.

  (* reads at one branch / at the merge / at both branch heads *)
  Example obs_B : obs_at hist [102] =
    [mkO root_id OMap (EM [([120], [((2, actB), VS (SInt 2))])])].
  Proof. vm_compute. reflexivity. Qed.
  Example obs_A : obs_at hist [103] =
    [mkO root_id OMap (EM [([120], [((1, actA), VS (SInt 1))]); ([121], [((2, actA), VS (SInt 3))])])].
  Proof. vm_compute. reflexivity. Qed.
  Example obs_merge : obs_at hist [104] =
    [mkO root_id OMap (EM [([120], [((3, actA), VS (SInt 4))]); ([121], [((2, actA), VS (SInt 3))])])].
  Proof. vm_compute. reflexivity. Qed.
  Example obs_AB : obs_at hist [102; 103] =
    [mkO root_id OMap (EM [([120], [((2, actB), VS (SInt 2))]); ([121], [((2, actA), VS (SInt 3))])])].
  Proof. vm_compute. reflexivity. Qed.
  Example obs_empty_change : obs_at hist5 [105] = obs_at hist [102].
  Proof. vm_compute. reflexivity. Qed.

  (* the theorem, instantiated (no computation of [obs_at]) *)
  Example obs_B_restrict : obs_at hist [102] = observe (all_ops [c1; c2]).
  Proof. rewrite (obs_at_eq_restrict hist [102] hist_wf), anc_B. reflexivity. Qed.

  (* the actor-chain hypothesis is needed: a second change of actor A that does not depend on
     the first one makes the clock at [103] cover o1 although c1 is not an ancestor *)
  Definition bad3 := mkChange 103 actA 2 2 [] [o3].
  Definition bad_hist := [c1; bad3].
  Example bad_rejected : wf_hist_b bad_hist = false.
  Proof. vm_compute. reflexivity. Qed.
  Example bad_differs : obs_at bad_hist [103] <> observe (all_ops (ancestors bad_hist [103])).
  Proof. vm_compute. discriminate. Qed.
End Ex.

(* Print Assumptions covered_iff_ancestor.  Print Assumptions filter_covered_eq.
   Print Assumptions obs_at_eq_restrict.  Print Assumptions wf_hist_b_sound.
   all: "Closed under the global context" *)
