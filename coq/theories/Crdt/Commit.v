(* Crdt/Commit.v — metadata of locally created changes and the maintained heads.

   Mirrors, line by line:
   - [Automerge::transaction_args] (automerge.rs): actor, seq, deps, start_op of the change a
     transaction will create, isolated ([Some heads]) or not ([None]);
   - [Automerge::isolate_actor] / [get_isolated_actor_index] (automerge.rs, after fd4a60d8b) and
     [ActorId::with_concurrency] (types.rs): the actor an isolated transaction writes as;
   - [ChangeGraph::{max_op, max_op_for_actor, seq_for_actor, get_hash_for_actor_seq, clock_at,
     calculate_clock, seq_clock_for_heads, get_build_indexes}] (change_graph.rs);
   - [TransactionInner::{commit, commit_impl, export}] (transaction/inner.rs): an empty transaction
     creates nothing, [export] sorts the deps and drops deps the graph does not know;
   - [Automerge::{update_history, update_deps, get_heads}] and [ChangeGraph::update_heads]:
     heads are maintained incrementally as  heads - deps(c) + {hash(c)};
   - [ChangeCollector::exclude_hashes] = [get_build_metadata_clock]: what [get_changes(have)]
     really computes (a per-actor sequence clock, not a graph walk).

   The applied list is in application order (node index order of the change graph); the changes
   of one actor therefore appear in it in [seq_index] order.  No proofs in this file. *)
From AM Require Import Base.Prelude Base.Order Base.Leb128 Gen.Consts Crdt.Types Crdt.Doc.
Local Open Scope N_scope.

Definition last_opt {A} (l : list A) : option A :=
  match rev l with x :: _ => Some x | [] => None end.

(* [seq_index[actor]]: the applied changes of one actor, in application order *)
Definition actor_changes (appl : list change) (a : actor) : list change :=
  filter (fun c => same_actor (ch_actor c) a) appl.

(* [ChangeGraph::max_op_for_actor]: max_op of the LAST applied change of the actor, 0 if none *)
Definition max_op_for_actor (appl : list change) (a : actor) : N :=
  match last_opt (actor_changes appl a) with Some c => max_op c | None => 0 end.

(* [ChangeGraph::get_hash_for_actor_seq(actor, seq)]: [v.get(seq as usize - 1)] *)
Definition hash_for_actor_seq (appl : list change) (a : actor) (s : N) : res N :=
  if s =? 0 then Panic                       (* usize underflow *)
  else match nth_error (actor_changes appl a) (N.to_nat (s - 1)) with
       | Some c => Ok (ch_hash c)
       | None => Err                          (* InvalidSeq *)
       end.

(* [calculate_clock]: walks the ancestors of the given heads (unknown hashes are dropped by
   [heads_to_nodes]) and keeps, per actor, the greatest seq *)
Definition seq_clock_at (appl : list change) (hs : list N) (a : actor) : N :=
  fold_left (fun m c => if same_actor (ch_actor c) a then N.max m (ch_seq c) else m)
            (ancestors appl hs) 0.

(* [ChangeGraph::clock_at(heads)[actor]]: max_op of the actor's change at position seq-1 of its
   seq_index, 0 when the clock has no entry *)
Definition clock_at_get (appl : list change) (hs : list N) (a : actor) : N :=
  let s := seq_clock_at appl hs a in
  if s =? 0 then 0
  else match nth_error (actor_changes appl a) (N.to_nat (s - 1)) with
       | Some c => max_op c
       | None => 0
       end.

(* [ActorId::with_concurrency(level)] = magic ++ uleb128(level) ++ actor bytes *)
Definition with_concurrency (a : actor) (level : N) : actor :=
  CONCURRENCY_MAGIC_BYTES ++ uleb_enc level ++ a.

(* [get_isolated_actor_index(level)]: level 0 is the document's actor *)
Definition level_actor (a : actor) (i : N) : actor :=
  if i =? 0 then a else with_concurrency a i.

(* [isolate_actor] (as of the repair fd4a60d8b): the first level whose actor has no change, or
   whose LATEST change is an ancestor of the heads: [seq_for_actor(actor) == 0 ||
   seq_clock_for_heads(heads)[actor] == Some(seq_for_actor(actor))] (a clock without an entry
   reads 0 here, and 0 is never the seq of an actor that has changes).  The Rust loop is
   unbounded ([for i in 1..]); it stops at the latest after one level per applied change, the
   model runs it with that much fuel (plus one) and answers [Err] beyond: every rejected level
   names a different actor that owns an applied change. *)
Fixpoint isolate_actor (fuel : nat) (appl : list change) (hs : list N) (a : actor) (i : N)
  : res (actor * N) :=
  match fuel with
  | O => Err
  | S f =>
    let ai := level_actor a i in
    let n := seq_for_actor appl ai in
    if (n =? 0) || (seq_clock_at appl hs ai =? n)
    then Ok (ai, n + 1)
    else isolate_actor f appl hs a (i + 1)
  end.

Record cmeta := mkMeta { cm_actor : actor; cm_seq : N; cm_start : N; cm_deps : list N }.

Definition unwrap {A} (r : res A) : res A := match r with Ok a => Ok a | _ => Panic end.

(* [transaction_args(heads)] followed by the [deps.sort_unstable()] and the
   [filter_map(hash_to_index)] of [TransactionInner::export].  [heads] is [get_heads()]. *)
Definition commit_meta (appl : list change) (heads : list N) (a : actor) (iso : option (list N))
  : res cmeta :=
  let start := max_op_all appl + 1 in
  match iso with
  | Some hs =>
    let* (ai, seq) := isolate_actor (S (length appl)) appl hs a 0 in
    Ok (mkMeta ai seq start (sortN (filter (has_hash appl) hs)))
  | None =>
    let seq := seq_for_actor appl a + 1 in
    let* deps :=
      (if 1 <? seq then
         let* lh := unwrap (hash_for_actor_seq appl a (seq - 1)) in
         Ok (if memb N.eqb lh heads then heads else heads ++ [lh])
       else Ok heads) in
    Ok (mkMeta a seq start (sortN (filter (has_hash appl) deps)))
  end.

(* [update_deps] / [update_heads]: remove the deps, insert the hash (a set) *)
Definition update_heads (hs : list N) (c : change) : list N :=
  let hs' := filter (fun h => negb (memb N.eqb h (ch_deps c))) hs in
  if memb N.eqb (ch_hash c) hs' then hs' else hs' ++ [ch_hash c].

(* ---- the document machine: causal queue + incrementally maintained heads ---- *)
Record mdoc := mkM { m_doc : doc; m_heads : list N }.
Definition m_empty : mdoc := mkM empty_doc [].
Definition m_applied (m : mdoc) : list change := applied (m_doc m).
Definition m_get_heads (m : mdoc) : list N := sortN (m_heads m).

(* apply_changes / merge / load / load_incremental / sync receive: every released change goes
   through [update_history], in release order *)
Definition m_receive (m : mdoc) (cs : list change) : mdoc :=
  let d := m_doc m in
  match receive d cs with
  | Ok d' => mkM d' (fold_left update_heads (skipn (length (applied d)) (applied d')) (m_heads m))
  | _ => mkM (receive_err_state d cs) (m_heads m)
  end.

(* one local transaction: the document's actor, isolation heads if any, the ops made, whether
   it is an explicit empty change ([empty_commit] / [empty_change]), and the hash its bytes get *)
Record creq := mkReq {
  cr_actor : actor; cr_iso : option (list N); cr_ops : list op; cr_force : bool; cr_hash : N }.

Definition m_commit (m : mdoc) (r : creq) : res (mdoc * option change) :=
  let d := m_doc m in
  let* meta := commit_meta (applied d) (m_get_heads m) (cr_actor r) (cr_iso r) in
  (* transaction_args: queued changes of that actor at this or a later seq are dropped *)
  let q' := remove_actor_branch_from (queue d) (cm_actor meta) (cm_seq meta) in
  match cr_ops r, cr_force r with
  | [], false => Ok (mkM (mkDoc (applied d) q') (m_heads m), None)   (* [commit]: nothing to do *)
  | _, _ =>
    let c := mkChange (cr_hash r) (cm_actor meta) (cm_seq meta) (cm_start meta) (cm_deps meta) (cr_ops r) in
    Ok (mkM (mkDoc (applied d ++ [c]) q') (update_heads (m_heads m) c), Some c)
  end.

Inductive mstep := SReceive (cs : list change) | SCommit (r : creq).

Definition m_step (m : mdoc) (s : mstep) : res mdoc :=
  match s with
  | SReceive cs => Ok (m_receive m cs)
  | SCommit r => let* (m', _) := m_commit m r in Ok m'
  end.

Fixpoint m_run (m : mdoc) (steps : list mstep) : res mdoc :=
  match steps with
  | [] => Ok m
  | s :: t => let* m' := m_step m s in m_run m' t
  end.

(* content addressing: the hash of a newly created change is not the hash of a change the
   document already holds (a SHA-256 collision otherwise) *)
Definition step_fresh (m : mdoc) (s : mstep) : Prop :=
  match s with
  | SReceive _ => True
  | SCommit r => ~ In (cr_hash r) (hashes (applied (m_doc m) ++ queue (m_doc m)))
  end.

Fixpoint run_fresh (m : mdoc) (steps : list mstep) : Prop :=
  match steps with
  | [] => True
  | s :: t => step_fresh m s /\ match m_step m s with Ok m' => run_fresh m' t | _ => True end
  end.

(* ---- get_changes as the code computes it ---- *)
(* [get_build_indexes(seq_clock_for_heads(have))]: per actor the changes at seq_index positions
   >= clock seq (position = seq - 1, asserted by [add_changes]), all of them when the clock has
   no entry; sorted by node index = application order.  [have = []] short-cuts to everything. *)
Definition get_changes_impl (appl : list change) (have : list N) : list change :=
  filter (fun c => seq_clock_at appl have (ch_actor c) <? ch_seq c) appl.

(* [get_changes_added(self, other)] as a set: what [other] has applied and [self] has not *)
Definition changes_added (self other : list change) : list change :=
  filter (fun c => negb (has_hash self (ch_hash c))) other.
