(* Crdt/CommitProofs.v — theorems about Crdt/Commit.v (C04) and about get_changes (C10).

   [Built a]: the applied list was built by appending changes whose dependencies were already
   applied and whose hash was new — what [receive] (QueueProofs) and [m_commit] both do.  It
   gives: no duplicate hashes, dependency-closed, topologically ordered. *)
From AM Require Import Base.Prelude Base.Order Crdt.Types Crdt.Interp Crdt.Doc Crdt.DocProofs
  Crdt.QueueProofs Exec.HistExec Crdt.ClockProofs Crdt.Commit.
Local Open Scope N_scope.

(* ------------------------------------------------------------------ *)
(* lists                                                               *)

Lemma NoDup_app_iff {A} (l1 l2 : list A) :
  NoDup (l1 ++ l2) <-> NoDup l1 /\ NoDup l2 /\ (forall x, In x l1 -> ~ In x l2).
Proof.
  induction l1 as [|x l1 IH]; cbn [app].
  - split; [intros H; split; [constructor|split; [exact H|intros x []]]|intros [_ [H _]]; exact H].
  - split.
    + intros H. inversion H as [|? ? Hn Hd]; subst. apply IH in Hd. destruct Hd as [H1 [H2 H3]].
      split; [constructor; [intros Hi; apply Hn; apply in_or_app; left; exact Hi|exact H1]|].
      split; [exact H2|]. intros y [->|Hy] Hy2; [apply Hn; apply in_or_app; right; exact Hy2|exact (H3 y Hy Hy2)].
    + intros [H1 [H2 H3]]. inversion H1 as [|? ? Hn Hd]; subst. constructor.
      * intros Hi. apply in_app_or in Hi. destruct Hi as [Hi|Hi]; [exact (Hn Hi)|exact (H3 x (or_introl eq_refl) Hi)].
      * apply IH. split; [exact Hd|]. split; [exact H2|]. intros y Hy. apply H3. right. exact Hy.
Qed.

Lemma hashes_app a b : hashes (a ++ b) = hashes a ++ hashes b.
Proof. unfold hashes. apply map_app. Qed.

Lemma NoDup_hashes_filter (f : change -> bool) l : NoDup (hashes l) -> NoDup (hashes (filter f l)).
Proof.
  induction l as [|x l IH]; cbn; [intros H; exact H|]. intros H. inversion H as [|? ? Hn Hd]; subst.
  destruct (f x); cbn; [constructor|]; [|apply IH; exact Hd|apply IH; exact Hd].
  intros Hi. apply Hn. apply in_hashes in Hi. destruct Hi as [c [Hc E]]. apply filter_In in Hc.
  apply in_hashes. exists c. split; [exact (proj1 Hc)|exact E].
Qed.

Lemma in_hashes_filter (f : change -> bool) l h : In h (hashes (filter f l)) -> In h (hashes l).
Proof.
  intros Hi. apply in_hashes in Hi. destruct Hi as [c [Hc E]]. apply filter_In in Hc.
  apply in_hashes. exists c. split; [exact (proj1 Hc)|exact E].
Qed.

Lemma has_hash_in_hashes l h : has_hash l h = true <-> In h (hashes l).
Proof. rewrite ClockProofs.has_hash_spec, in_hashes. tauto. Qed.

Lemma has_hash_false_iff l h : has_hash l h = false <-> ~ In h (hashes l).
Proof. rewrite <- has_hash_in_hashes. destruct (has_hash l h); split; congruence. Qed.

Lemma last_opt_snoc {A} (l : list A) x : last_opt (l ++ [x]) = Some x.
Proof. unfold last_opt. rewrite rev_app_distr. reflexivity. Qed.

Lemma last_opt_in {A} (l : list A) x : last_opt l = Some x -> In x l.
Proof.
  unfold last_opt. destruct (rev l) as [|y t] eqn:E; [discriminate|]. intros H; inversion H; subst.
  apply in_rev. rewrite E. left. reflexivity.
Qed.

Lemma last_opt_none {A} (l : list A) : last_opt l = None -> l = [].
Proof.
  unfold last_opt. destruct (rev l) as [|y t] eqn:E; [|discriminate]. intros _.
  rewrite <- (rev_involutive l), E. reflexivity.
Qed.

(* ------------------------------------------------------------------ *)
(* sortN                                                               *)

Lemma N_compare_total : TotalCmp N.compare.
Proof.
  split.
  - intros a b. apply N.compare_eq_iff.
  - intros a b. apply N.compare_antisym.
  - intros a b c H1 H2. rewrite N.compare_lt_iff in *. lia.
Qed.

Lemma sortN_perm l : Permutation l (sortN l).
Proof. apply (isort_perm N.compare). Qed.

Lemma sortN_sorted l : sorted N.compare (sortN l).
Proof. apply (isort_sorted N.compare N_compare_total). Qed.

Lemma sortN_NoDup l : NoDup l -> NoDup (sortN l).
Proof. intros H. eapply Permutation_NoDup; [apply sortN_perm|exact H]. Qed.

Lemma sortN_ext l1 l2 : NoDup l1 -> NoDup l2 -> (forall x, In x l1 <-> In x l2) -> sortN l1 = sortN l2.
Proof.
  intros H1 H2 H. apply (isort_perm_eq N.compare N_compare_total). apply NoDup_Permutation; assumption.
Qed.

Lemma sortN_idem l : sortN (sortN l) = sortN l.
Proof. apply (isort_id N.compare N_compare_total). apply sortN_sorted. Qed.

(* ------------------------------------------------------------------ *)
(* Built                                                               *)

Inductive Built : list change -> Prop :=
| Built_nil : Built []
| Built_snoc a c : Built a -> ready a c = true -> ~ In (ch_hash c) (hashes a) -> Built (a ++ [c]).

Lemma Built_snoc_inv a c : Built (a ++ [c]) ->
  Built a /\ ready a c = true /\ ~ In (ch_hash c) (hashes a).
Proof.
  intros H. inversion H as [E|a' c' Ha Hr Hn E].
  - destruct a; discriminate.
  - apply app_inj_tail in E. destruct E; subst. auto.
Qed.

Lemma Built_NoDup a : Built a -> NoDup (hashes a).
Proof.
  induction 1 as [|a c _ IH _ Hn]; [constructor|]. rewrite hashes_app. apply NoDup_app_iff.
  split; [exact IH|]. split; [cbn; constructor; [intros []|constructor]|].
  intros x Hx [<-|[]]. exact (Hn Hx).
Qed.

Lemma ready_incl a b c : incl a b -> ready a c = true -> ready b c = true.
Proof.
  intros Hi. rewrite !ready_spec. intros H h Hh. eapply has_hash_incl; [exact Hi|]. exact (H h Hh).
Qed.

Lemma Built_closed a : Built a -> dep_closed a.
Proof.
  induction 1 as [|a c _ IH Hr _]; [intros c []|].
  intros x Hx h Hh. rewrite QueueProofs.has_hash_app. apply orb_true_iff. left.
  apply in_app_or in Hx. destruct Hx as [Hx|[Hx|[]]]; [exact (IH x Hx h Hh)|]. subst x.
  exact (proj1 (ready_spec a c) Hr h Hh).
Qed.

Lemma Built_Topo a : Built a -> Topo a.
Proof.
  induction 1 as [|a c _ IH Hr _]; [intros i c Hi; destruct i; discriminate|].
  intros i x Hi h Hh. destruct (Nat.lt_ge_cases i (length a)) as [Hlt|Hge].
  - rewrite nth_error_app1 in Hi by exact Hlt. rewrite firstn_app.
    replace (i - length a)%nat with 0%nat by lia. cbn [firstn]. rewrite app_nil_r. exact (IH i x Hi h Hh).
  - rewrite nth_error_app2 in Hi by exact Hge. destruct (i - length a)%nat as [|k] eqn:Ek.
    + cbn in Hi. inversion Hi; subst x. assert (i = length a) by lia. subst i.
      rewrite firstn_app, firstn_all, Nat.sub_diag. cbn [firstn]. rewrite app_nil_r.
      exact (proj1 (ready_spec a c) Hr h Hh).
    + cbn in Hi. destruct k; discriminate.
Qed.

(* a topologically ordered duplicate-free list is built *)
Lemma Built_app a : forall r, Built a -> (forall x, In x r -> ready a x = true) ->
  NoDup (hashes (a ++ r)) -> Built (a ++ r).
Proof.
  intros r. revert a. induction r as [|x t IH]; intros a Ha Hr Hn.
  - rewrite app_nil_r. exact Ha.
  - replace (a ++ x :: t) with ((a ++ [x]) ++ t) by (rewrite <- app_assoc; reflexivity).
    apply IH.
    + apply Built_snoc; [exact Ha|apply Hr; left; reflexivity|].
      rewrite hashes_app in Hn. cbn in Hn. apply NoDup_remove_2 in Hn.
      intros Hi. apply Hn. apply in_or_app. left. exact Hi.
    + intros y Hy. eapply ready_incl; [|apply Hr; right; exact Hy]. apply incl_appl, incl_refl.
    + rewrite <- app_assoc. exact Hn.
Qed.

(* ------------------------------------------------------------------ *)
(* heads: incremental = characterisation                               *)

Lemma update_heads_in hs c h :
  In h (update_heads hs c) <-> (In h hs /\ ~ In h (ch_deps c)) \/ h = ch_hash c.
Proof.
  unfold update_heads.
  set (hs' := filter (fun h0 => negb (memb N.eqb h0 (ch_deps c))) hs).
  assert (K : forall x, In x hs' <-> In x hs /\ ~ In x (ch_deps c)).
  { intros x. unfold hs'. rewrite filter_In, negb_true_iff, <- not_true_iff_false, DocProofs.memb_N_In.
    tauto. }
  destruct (memb N.eqb (ch_hash c) hs') eqn:E.
  - apply DocProofs.memb_N_In in E. rewrite K. split; [intros H; left; exact H|].
    intros [H| ->]; [exact H|]. apply K. exact E.
  - rewrite in_app_iff, K. cbn. split; [intros [H|[<-|[]]]; auto|intros [H| ->]; auto].
Qed.

Lemma update_heads_NoDup hs c : NoDup hs -> NoDup (update_heads hs c).
Proof.
  intros H. unfold update_heads.
  set (hs' := filter (fun h0 => negb (memb N.eqb h0 (ch_deps c))) hs).
  assert (Hn : NoDup hs') by (apply NoDup_filter; exact H).
  destruct (memb N.eqb (ch_hash c) hs') eqn:E; [exact Hn|].
  apply NoDup_app_iff. split; [exact Hn|]. split; [constructor; [intros []|constructor]|].
  intros x Hx [<-|[]]. apply DocProofs.memb_N_In in Hx. congruence.
Qed.

Lemma heads_of_NoDup a : NoDup (hashes a) -> NoDup (heads_of a).
Proof. intros H. unfold heads_of. apply sortN_NoDup. apply NoDup_filter. exact H. Qed.

Lemma heads_of_in_hashes a h : In h (heads_of a) -> In h (hashes a).
Proof. intros H. apply heads_spec in H. apply in_hashes. exact (proj1 H). Qed.

(* the step of the induction: appending one ready, new change *)
Lemma heads_of_snoc a c h : dep_closed a -> ready a c = true -> ~ In (ch_hash c) (hashes a) ->
  (In h (heads_of (a ++ [c])) <-> (In h (heads_of a) /\ ~ In h (ch_deps c)) \/ h = ch_hash c).
Proof.
  intros Hcl Hr Hn. rewrite !heads_spec. split.
  - intros [[x [Hx E]] Hd]. apply in_app_or in Hx. destruct Hx as [Hx|[<-|[]]]; [left|right; symmetry; exact E].
    split; [split; [exists x; auto|]|].
    + intros y Hy. apply Hd. apply in_or_app. left. exact Hy.
    + apply Hd. apply in_or_app. right. left. reflexivity.
  - intros [[[[x [Hx E]] Hd] Hc]| ->].
    + split; [exists x; split; [apply in_or_app; left; exact Hx|exact E]|].
      intros y Hy. apply in_app_or in Hy. destruct Hy as [Hy|[<-|[]]]; [exact (Hd y Hy)|exact Hc].
    + split; [exists c; split; [apply in_or_app; right; left; reflexivity|reflexivity]|].
      intros y Hy Hi. apply Hn. apply has_hash_in_hashes.
      apply in_app_or in Hy. destruct Hy as [Hy|[<-|[]]].
      * exact (Hcl y Hy _ Hi).
      * exact (proj1 (ready_spec a c) Hr _ Hi).
Qed.

Definition heads_agree (hs : list N) (a : list change) : Prop :=
  NoDup hs /\ forall h, In h hs <-> In h (heads_of a).

Lemma heads_agree_snoc hs a c : Built (a ++ [c]) -> heads_agree hs a ->
  heads_agree (update_heads hs c) (a ++ [c]).
Proof.
  intros Hb [Hn Hs]. apply Built_snoc_inv in Hb. destruct Hb as [Ha [Hr Hf]].
  split; [apply update_heads_NoDup; exact Hn|]. intros h.
  rewrite update_heads_in, (heads_of_snoc a c h (Built_closed a Ha) Hr Hf), Hs. tauto.
Qed.

Lemma heads_agree_fold r : forall hs a, Built (a ++ r) -> heads_agree hs a ->
  heads_agree (fold_left update_heads r hs) (a ++ r).
Proof.
  induction r as [|x t IH] using rev_ind; intros hs a Hb Hg.
  - cbn. rewrite app_nil_r. exact Hg.
  - rewrite fold_left_app. cbn [fold_left]. rewrite app_assoc in Hb |- *.
    apply heads_agree_snoc; [exact Hb|]. apply IH; [|exact Hg].
    apply Built_snoc_inv in Hb. exact (proj1 Hb).
Qed.

Lemma heads_agree_eq hs a : NoDup (hashes a) -> heads_agree hs a -> sortN hs = heads_of a.
Proof.
  intros Hn [Hd Hs].
  assert (E : heads_of a = sortN (heads_of a)) by (unfold heads_of; rewrite sortN_idem; reflexivity).
  rewrite E. apply sortN_ext; [exact Hd|apply heads_of_NoDup; exact Hn|exact Hs].
Qed.

(* ------------------------------------------------------------------ *)
(* receive keeps the applied list built                                *)

Lemma release_Built : forall fuel a q a' q', release fuel a q = (a', q') ->
  Built a -> NoDup (hashes (a ++ q)) -> Built a' /\ NoDup (hashes (a' ++ q')).
Proof.
  apply (release_rect' (fun a q a' q' => Built a -> NoDup (hashes (a ++ q)) -> Built a' /\ NoDup (hashes (a' ++ q')))).
  - intros a q Ha Hn. auto.
  - intros a q a' q' _ IH Ha Hn.
    assert (Hp : Permutation (a ++ q) ((a ++ filter (ready a) q) ++ filter (fun c => negb (ready a c)) q)).
    { rewrite <- app_assoc. apply Permutation_app_head. apply filter_split_perm. }
    assert (Hn' : NoDup (hashes ((a ++ filter (ready a) q) ++ filter (fun c => negb (ready a c)) q))).
    { eapply Permutation_NoDup; [apply Permutation_map; exact Hp|exact Hn]. }
    apply IH; [|exact Hn'].
    apply Built_app; [exact Ha|intros x Hx; apply filter_In in Hx; exact (proj2 Hx)|].
    rewrite hashes_app in Hn'. apply NoDup_app_iff in Hn'. exact (proj1 Hn').
Qed.

Lemma batch_push_fresh d : forall cs b b', batch_push d b cs = Ok b' ->
  NoDup (hashes b) -> NoDup (hashes b') /\ forall c, In c b' -> In c b \/ In c cs.
Proof.
  induction cs as [|c t IH]; intros b b' H Hn; cbn [batch_push] in H.
  - inversion H; subst. split; [exact Hn|auto].
  - destruct (ch_seq c <=? seq_for_actor (applied d) (ch_actor c)); [discriminate|].
    destruct (has_actor_seq (queue d) c); [discriminate|].
    destruct (has_hash b (ch_hash c)) eqn:E3.
    + destruct (IH b b' H Hn) as [H1 H2]. split; [exact H1|].
      intros x Hx. destruct (H2 x Hx); [left|right; right]; assumption.
    + destruct (has_actor_seq b c); [discriminate|].
      assert (Hn2 : NoDup (hashes (b ++ [c]))).
      { rewrite hashes_app. apply NoDup_app_iff. split; [exact Hn|].
        split; [cbn; constructor; [intros []|constructor]|]. intros x Hx [<-|[]].
        apply has_hash_false_iff in E3. exact (E3 Hx). }
      destruct (IH (b ++ [c]) b' H Hn2) as [H1 H2]. split; [exact H1|].
      intros x Hx. destruct (H2 x Hx) as [Hb|Ht]; [|right; right; exact Ht].
      apply in_app_or in Hb. destruct Hb as [Hb|[<-|[]]]; [left; exact Hb|right; left; reflexivity].
Qed.

Lemma receive_Built d cs d' : receive d cs = Ok d' ->
  Built (applied d) -> NoDup (hashes (applied d ++ queue d)) ->
  Built (applied d') /\ NoDup (hashes (applied d' ++ queue d')) /\ exists r, applied d' = applied d ++ r.
Proof.
  intros H Hb Hn. destruct (receive_inv _ _ _ H) as [batch [Hp Hr]].
  destruct (batch_push_fresh d _ [] batch Hp) as [Hbn Hbi]; [constructor|].
  assert (Hn2 : NoDup (hashes (applied d ++ queue d ++ batch))).
  { rewrite app_assoc, hashes_app. apply NoDup_app_iff. split; [exact Hn|]. split; [exact Hbn|].
    intros h Hh Hh2. apply in_hashes in Hh2. destruct Hh2 as [c [Hc E]].
    destruct (Hbi c Hc) as [[]|Hc2]. unfold fresh_of in Hc2. apply filter_In in Hc2.
    destruct Hc2 as [_ Hc2]. apply negb_true_iff, orb_false_iff in Hc2. destruct Hc2 as [F1 F2].
    rewrite hashes_app in Hh. apply in_app_or in Hh. subst h.
    destruct Hh as [Hh|Hh]; apply has_hash_in_hashes in Hh; congruence. }
  destruct (release_Built _ _ _ _ _ Hr Hb Hn2) as [H1 H2]. split; [exact H1|]. split; [exact H2|].
  exact (release_extends _ _ _ _ _ Hr).
Qed.

(* ------------------------------------------------------------------ *)
(* commit_meta: the four statements of C04                             *)

Lemma max_op_fold_acc l : forall m, m <= fold_left (fun m c => N.max m (max_op c)) l m.
Proof.
  induction l as [|x t IH]; intros m; cbn [fold_left]; [lia|].
  etransitivity; [|apply IH]. lia.
Qed.

Lemma max_op_fold_ge l : forall m c, In c l -> max_op c <= fold_left (fun m c => N.max m (max_op c)) l m.
Proof.
  induction l as [|x t IH]; intros m c []; cbn [fold_left].
  - subst x. etransitivity; [|apply max_op_fold_acc]. lia.
  - apply IH. exact H.
Qed.

Lemma max_op_all_ge appl c : In c appl -> max_op c <= max_op_all appl.
Proof. apply max_op_fold_ge. Qed.

Lemma isolate_actor_spec fuel appl hs a : forall i ai s,
  isolate_actor fuel appl hs a i = Ok (ai, s) ->
  exists j, i <= j /\ ai = level_actor a j /\ s = seq_for_actor appl ai + 1 /\
    (seq_for_actor appl ai = 0 \/ seq_clock_at appl hs ai = seq_for_actor appl ai) /\
    (forall k, i <= k < j ->
       seq_for_actor appl (level_actor a k) <> 0 /\
       seq_clock_at appl hs (level_actor a k) <> seq_for_actor appl (level_actor a k)).
Proof.
  induction fuel as [|f IH]; intros i ai s H; cbn [isolate_actor] in H; [discriminate|].
  destruct ((seq_for_actor appl (level_actor a i) =? 0)
            || (seq_clock_at appl hs (level_actor a i) =? seq_for_actor appl (level_actor a i))) eqn:E.
  - inversion H; subst. exists i. split; [lia|]. split; [reflexivity|]. split; [reflexivity|].
    split; [apply orb_true_iff in E; destruct E as [E|E]; [left|right]; apply N.eqb_eq, E|].
    intros k Hk. lia.
  - apply orb_false_iff in E. destruct E as [E1 E2]. apply N.eqb_neq in E1. apply N.eqb_neq in E2.
    destruct (IH _ _ _ H) as [j [Hj [Ha [Hs [Hc Hk]]]]]. exists j. split; [lia|]. split; [exact Ha|].
    split; [exact Hs|]. split; [exact Hc|]. intros k Hk2.
    destruct (N.eq_dec k i) as [->|Hne]; [split; assumption|]. apply Hk. lia.
Qed.

(* 1. the next sequence number of the (chosen) actor *)
Theorem commit_seq_next appl heads a iso m : commit_meta appl heads a iso = Ok m ->
  cm_seq m = seq_for_actor appl (cm_actor m) + 1.
Proof.
  unfold commit_meta. destruct iso as [hs|].
  - destruct (isolate_actor _ appl hs a 0) as [[ai s]| |] eqn:E; cbn [bind]; try discriminate.
    intros H; inversion H; subst; cbn. destruct (isolate_actor_spec _ _ _ _ _ _ _ E) as [j [_ [_ [Hs _]]]]. exact Hs.
  - destruct (1 <? seq_for_actor appl a + 1).
    + destruct (unwrap _) as [lh| |]; cbn [bind]; try discriminate. intros H; inversion H; subst; reflexivity.
    + cbn [bind]. intros H; inversion H; subst; reflexivity.
Qed.

(* with C38's invariant (no applied seq above the number of applied changes of its actor):
   every applied change of that actor has a smaller seq *)
Corollary commit_seq_above appl heads a iso m : commit_meta appl heads a iso = Ok m ->
  seq_bounded appl -> forall c, In c appl -> ch_actor c = cm_actor m -> ch_seq c < cm_seq m.
Proof.
  intros H Hb c Hc Ha. rewrite (commit_seq_next _ _ _ _ _ H). specialize (Hb c Hc). rewrite Ha in Hb. lia.
Qed.

Lemma commit_meta_start appl heads a iso m : commit_meta appl heads a iso = Ok m ->
  cm_start m = max_op_all appl + 1.
Proof.
  unfold commit_meta. destruct iso as [hs|].
  - destruct (isolate_actor _ appl hs a 0) as [[ai s]| |]; cbn [bind]; try discriminate.
    intros H; inversion H; subst; reflexivity.
  - destruct (1 <? seq_for_actor appl a + 1).
    + destruct (unwrap _) as [lh| |]; cbn [bind]; try discriminate. intros H; inversion H; subst; reflexivity.
    + cbn [bind]. intros H; inversion H; subst; reflexivity.
Qed.

(* 2. start_op is above every op counter of every applied change — isolated or not: the code
   takes the maximum over ALL applied changes, not over the isolation clock *)
Theorem commit_start_op_gt_all appl heads a iso m : commit_meta appl heads a iso = Ok m ->
  1 <= cm_start m /\
  forall c, In c appl -> max_op c < cm_start m /\
    forall i, (i < length (ch_ops c))%nat -> ch_start c + N.of_nat i < cm_start m.
Proof.
  intros H. rewrite (commit_meta_start _ _ _ _ _ H). split; [lia|]. intros c Hc.
  pose proof (max_op_all_ge appl c Hc) as Hm. split; [lia|]. intros i Hi. unfold max_op in Hm. lia.
Qed.

Lemma in_sortN_filter appl l h : In h (sortN (filter (has_hash appl) l)) <-> In h l /\ In h (hashes appl).
Proof. rewrite sortN_In, filter_In, has_hash_in_hashes. tauto. Qed.

(* the actor's previous change: the last applied change of that actor *)
Definition prev_change (appl : list change) (a : actor) : option change := last_opt (actor_changes appl a).

Lemma nth_error_last {A} (l : list A) : nth_error l (length l - 1) = last_opt l.
Proof.
  induction l as [|x l IH] using rev_ind; [reflexivity|].
  rewrite last_opt_snoc, app_length. cbn [length]. replace (length l + 1 - 1)%nat with (length l) by lia.
  rewrite nth_error_app2 by lia. rewrite Nat.sub_diag. reflexivity.
Qed.

Lemma hash_for_prev appl a : 1 <? seq_for_actor appl a + 1 = true ->
  exists p, prev_change appl a = Some p /\
    hash_for_actor_seq appl a (seq_for_actor appl a + 1 - 1) = Ok (ch_hash p).
Proof.
  intros H. apply N.ltb_lt in H. unfold hash_for_actor_seq, prev_change.
  replace (seq_for_actor appl a + 1 - 1) with (seq_for_actor appl a) by lia.
  destruct (seq_for_actor appl a =? 0) eqn:E; [apply N.eqb_eq in E; lia|].
  unfold seq_for_actor in *. fold (actor_changes appl a) in *.
  replace (N.to_nat (N.of_nat (length (actor_changes appl a)) - 1)) with (length (actor_changes appl a) - 1)%nat by lia.
  rewrite nth_error_last. destruct (last_opt (actor_changes appl a)) as [p|] eqn:El.
  - exists p. auto.
  - apply last_opt_none in El. rewrite El in H. cbn in H. lia.
Qed.

(* 3. not isolated: the document's actor; deps = the current heads plus the actor's previous
   change (when it has one and it is not a head already), sorted *)
Theorem commit_deps_nonisolated appl heads a m :
  commit_meta appl heads a None = Ok m -> incl heads (hashes appl) ->
  cm_actor m = a /\ sorted N.compare (cm_deps m) /\
  (NoDup heads -> NoDup (cm_deps m)) /\
  forall h, In h (cm_deps m) <->
    In h heads \/ exists p, prev_change appl a = Some p /\ h = ch_hash p.
Proof.
  unfold commit_meta. intros H Hi.
  destruct (1 <? seq_for_actor appl a + 1) eqn:E.
  - destruct (hash_for_prev appl a E) as [p [Hp Hh]]. rewrite Hh in H. cbn [unwrap bind] in H.
    inversion H; subst; clear H. cbn [cm_actor cm_deps].
    assert (Hpin : In (ch_hash p) (hashes appl)).
    { apply in_hashes. exists p. split; [|reflexivity]. apply last_opt_in in Hp.
      unfold actor_changes in Hp. apply filter_In in Hp. exact (proj1 Hp). }
    split; [reflexivity|]. split; [apply sortN_sorted|]. split.
    + intros Hn. apply sortN_NoDup, NoDup_filter.
      destruct (memb N.eqb (ch_hash p) heads) eqn:Em; [exact Hn|].
      apply NoDup_app_iff. split; [exact Hn|]. split; [constructor; [intros []|constructor]|].
      intros x Hx [<-|[]]. apply DocProofs.memb_N_In in Hx. congruence.
    + intros h. rewrite in_sortN_filter. rewrite Hp.
      destruct (memb N.eqb (ch_hash p) heads) eqn:Em.
      * apply DocProofs.memb_N_In in Em. split.
        -- intros [Hh' _]. left. exact Hh'.
        -- intros [Hh'|[p' [Ep ->]]]; [split; [exact Hh'|apply Hi; exact Hh']|]. inversion Ep; subst p'. split; assumption.
      * rewrite in_app_iff. cbn. split.
        -- intros [[Hh'|[<-|[]]] _]; [left; exact Hh'|right; exists p; auto].
        -- intros [Hh'|[p' [Ep ->]]]; [split; [left; exact Hh'|apply Hi; exact Hh']|]. inversion Ep; subst p'. split; [right; left; reflexivity|exact Hpin].
  - cbn [bind] in H. inversion H; subst; clear H. cbn [cm_actor cm_deps].
    split; [reflexivity|]. split; [apply sortN_sorted|]. split; [intros Hn; apply sortN_NoDup, NoDup_filter; exact Hn|].
    intros h. rewrite in_sortN_filter.
    assert (Hnone : prev_change appl a = None).
    { apply N.ltb_ge in E. unfold seq_for_actor in E. fold (actor_changes appl a) in E.
      unfold prev_change. destruct (actor_changes appl a); [reflexivity|cbn in E; lia]. }
    rewrite Hnone. split; [intros [Hh' _]; left; exact Hh'|].
    intros [Hh'|[p [Ep _]]]; [split; [exact Hh'|apply Hi; exact Hh']|discriminate].
Qed.

(* 4. isolated at [hs]: deps are exactly [hs] (sorted; hashes the document does not know are
   dropped by [export]), the actor is the first concurrency level of the document's actor that
   has no change or whose latest change (seq = number of its applied changes) is among the
   ancestors of [hs] *)
Theorem commit_deps_isolated appl heads a hs m :
  commit_meta appl heads a (Some hs) = Ok m ->
  cm_deps m = sortN (filter (has_hash appl) hs) /\
  (incl hs (hashes appl) -> forall h, In h (cm_deps m) <-> In h hs) /\
  exists j, cm_actor m = level_actor a j /\
    (seq_for_actor appl (cm_actor m) = 0 \/
     seq_clock_at appl hs (cm_actor m) = seq_for_actor appl (cm_actor m)) /\
    forall k, k < j ->
      seq_for_actor appl (level_actor a k) <> 0 /\
      seq_clock_at appl hs (level_actor a k) <> seq_for_actor appl (level_actor a k).
Proof.
  unfold commit_meta.
  destruct (isolate_actor _ appl hs a 0) as [[ai s]| |] eqn:E; cbn [bind]; try discriminate.
  intros H; inversion H; subst; clear H. cbn [cm_actor cm_deps].
  split; [reflexivity|]. split.
  - intros Hi h. rewrite in_sortN_filter. split; [tauto|]. intros Hh. split; [exact Hh|apply Hi; exact Hh].
  - destruct (isolate_actor_spec _ _ _ _ _ _ _ E) as [j [_ [Ha [_ [Hc Hk]]]]].
    exists j. split; [exact Ha|]. split; [exact Hc|]. intros k Hk2. apply Hk. lia.
Qed.

(* the created change is ready: all its dependencies are applied *)
Lemma commit_meta_deps_applied appl heads a iso m : commit_meta appl heads a iso = Ok m ->
  forall h, In h (cm_deps m) -> In h (hashes appl).
Proof.
  unfold commit_meta. destruct iso as [hs|].
  - destruct (isolate_actor _ appl hs a 0) as [[ai s]| |]; cbn [bind]; try discriminate.
    intros H; inversion H; subst; cbn. intros h Hh. apply in_sortN_filter in Hh. exact (proj2 Hh).
  - destruct (1 <? seq_for_actor appl a + 1).
    + destruct (unwrap _) as [lh| |]; cbn [bind]; try discriminate. intros H; inversion H; subst; cbn.
      intros h Hh. apply in_sortN_filter in Hh. exact (proj2 Hh).
    + cbn [bind]. intros H; inversion H; subst; cbn. intros h Hh. apply in_sortN_filter in Hh. exact (proj2 Hh).
Qed.

(* ------------------------------------------------------------------ *)
(* the machine invariant                                               *)

Definition MInv (m : mdoc) : Prop :=
  Built (applied (m_doc m)) /\ NoDup (hashes (applied (m_doc m) ++ queue (m_doc m))) /\
  heads_agree (m_heads m) (applied (m_doc m)).

Lemma MInv_empty : MInv m_empty.
Proof.
  split; [constructor|]. split; [constructor|]. split; [constructor|]. intros h. cbn. tauto.
Qed.

Lemma MInv_heads m : MInv m -> m_get_heads m = heads_of (applied (m_doc m)).
Proof.
  intros [Hb [_ Hg]]. apply heads_agree_eq; [apply Built_NoDup; exact Hb|exact Hg].
Qed.

Lemma remove_branch_sub q a s h : In h (hashes (remove_actor_branch_from q a s)) -> In h (hashes q).
Proof. unfold remove_actor_branch_from. apply in_hashes_filter. Qed.

Lemma remove_branch_NoDup q a s : NoDup (hashes q) -> NoDup (hashes (remove_actor_branch_from q a s)).
Proof. unfold remove_actor_branch_from. apply NoDup_hashes_filter. Qed.

Lemma receive_err_state_applied d cs : applied (receive_err_state d cs) = applied d.
Proof. unfold receive_err_state. destruct (first_applied_collision d [] _); reflexivity. Qed.

Lemma receive_err_state_queue d cs h : In h (hashes (queue (receive_err_state d cs))) -> In h (hashes (queue d)).
Proof.
  unfold receive_err_state. destruct (first_applied_collision d [] _); cbn [queue]; [apply remove_branch_sub|auto].
Qed.

Lemma receive_err_state_queue_NoDup d cs : NoDup (hashes (queue d)) -> NoDup (hashes (queue (receive_err_state d cs))).
Proof.
  unfold receive_err_state. destruct (first_applied_collision d [] _); cbn [queue]; [apply remove_branch_NoDup|auto].
Qed.

Lemma MInv_receive m cs : MInv m -> MInv (m_receive m cs).
Proof.
  intros [Hb [Hn Hg]]. unfold m_receive. destruct (receive (m_doc m) cs) as [d'| |] eqn:E.
  - destruct (receive_Built _ _ _ E Hb Hn) as [Hb' [Hn' [r Hr]]].
    unfold MInv. cbn [m_doc m_heads]. split; [exact Hb'|]. split; [exact Hn'|]. rewrite Hr.
    rewrite skipn_app, skipn_all, Nat.sub_diag. cbn [skipn app].
    apply heads_agree_fold; [rewrite <- Hr; exact Hb'|exact Hg].
  - unfold MInv. cbn [m_doc m_heads]. rewrite receive_err_state_applied. split; [exact Hb|]. split; [|exact Hg].
    rewrite hashes_app in Hn |- *. apply NoDup_app_iff in Hn. destruct Hn as [H1 [H2 H3]].
    apply NoDup_app_iff. split; [exact H1|]. split; [apply receive_err_state_queue_NoDup; exact H2|].
    intros x Hx Hx2. apply (H3 x Hx). eapply receive_err_state_queue. exact Hx2.
  - unfold MInv. cbn [m_doc m_heads]. rewrite receive_err_state_applied. split; [exact Hb|]. split; [|exact Hg].
    rewrite hashes_app in Hn |- *. apply NoDup_app_iff in Hn. destruct Hn as [H1 [H2 H3]].
    apply NoDup_app_iff. split; [exact H1|]. split; [apply receive_err_state_queue_NoDup; exact H2|].
    intros x Hx Hx2. apply (H3 x Hx). eapply receive_err_state_queue. exact Hx2.
Qed.

Lemma MInv_commit m r m' oc : MInv m -> step_fresh m (SCommit r) -> m_commit m r = Ok (m', oc) -> MInv m'.
Proof.
  intros [Hb [Hn Hg]] Hf. unfold m_commit.
  destruct (commit_meta _ _ _ _) as [meta| |] eqn:Em; cbn [bind]; try discriminate.
  cbn [step_fresh] in Hf.
  rewrite hashes_app in Hn. apply NoDup_app_iff in Hn. destruct Hn as [H1 [H2 H3]].
  set (q' := remove_actor_branch_from (queue (m_doc m)) (cm_actor meta) (cm_seq meta)).
  assert (Hq : NoDup (hashes (applied (m_doc m) ++ q'))).
  { rewrite hashes_app. apply NoDup_app_iff. split; [exact H1|]. split; [apply remove_branch_NoDup; exact H2|].
    intros x Hx Hx2. apply (H3 x Hx). eapply remove_branch_sub. exact Hx2. }
  set (c := mkChange (cr_hash r) (cm_actor meta) (cm_seq meta) (cm_start meta) (cm_deps meta) (cr_ops r)).
  assert (Hnew : MInv (mkM (mkDoc (applied (m_doc m) ++ [c]) q') (update_heads (m_heads m) c))).
  { assert (Hb' : Built (applied (m_doc m) ++ [c])).
    { apply Built_snoc; [exact Hb| |].
      - apply ready_spec. intros h Hh. apply has_hash_in_hashes.
        exact (commit_meta_deps_applied _ _ _ _ _ Em h Hh).
      - cbn [c ch_hash]. intros Hi. apply Hf. rewrite hashes_app. apply in_or_app. left. exact Hi. }
    split; [exact Hb'|]. split; [|apply heads_agree_snoc; assumption].
    cbn [m_doc applied queue]. rewrite <- app_assoc, hashes_app. apply NoDup_app_iff. split; [exact H1|].
    split.
    - cbn [app hashes map]. constructor; [|apply remove_branch_NoDup; exact H2].
      cbn [c ch_hash]. intros Hi. apply Hf. rewrite hashes_app. apply in_or_app. right.
      eapply remove_branch_sub. exact Hi.
    - intros x Hx [<-|Hx2].
      + cbn [c ch_hash] in Hx. apply Hf. rewrite hashes_app. apply in_or_app. left. exact Hx.
      + apply (H3 x Hx). eapply remove_branch_sub. exact Hx2. }
  destruct (cr_ops r) as [|o ops] eqn:Eo; [destruct (cr_force r)|].
  - intros H; inversion H; subst. exact Hnew.
  - intros H; inversion H; subst. split; [exact Hb|]. split; [exact Hq|exact Hg].
  - intros H; inversion H; subst. exact Hnew.
Qed.

Lemma MInv_step m s m' : MInv m -> step_fresh m s -> m_step m s = Ok m' -> MInv m'.
Proof.
  intros Hi Hf. destruct s as [cs|r]; cbn [m_step].
  - intros H; inversion H; subst. apply MInv_receive. exact Hi.
  - destruct (m_commit m r) as [[m2 oc]| |] eqn:E; cbn [bind]; try discriminate.
    intros H; inversion H; subst. eapply MInv_commit; eassumption.
Qed.

Theorem MInv_run : forall steps m m', MInv m -> run_fresh m steps -> m_run m steps = Ok m' -> MInv m'.
Proof.
  induction steps as [|s t IH]; intros m m' Hi Hf H; cbn [m_run] in H.
  - inversion H; subst. exact Hi.
  - cbn [run_fresh] in Hf. destruct Hf as [Hf1 Hf2].
    destruct (m_step m s) as [m2| |] eqn:E; cbn [bind] in H; try discriminate.
    eapply IH; [eapply MInv_step; eassumption|exact Hf2|exact H].
Qed.

(* 5. heads, after any sequence of deliveries and local commits from the empty document:
   the incrementally maintained heads are [heads_of], i.e. exactly the applied changes that no
   applied change depends on; the applied changes are dependency-closed *)
Theorem heads_invariant : forall steps m,
  run_fresh m_empty steps -> m_run m_empty steps = Ok m ->
  m_get_heads m = heads_of (applied (m_doc m)) /\
  dep_closed (applied (m_doc m)) /\
  forall h, In h (m_get_heads m) <->
    (exists c, In c (applied (m_doc m)) /\ ch_hash c = h) /\
    (forall c, In c (applied (m_doc m)) -> ~ In h (ch_deps c)).
Proof.
  intros steps m Hf H. pose proof (MInv_run steps m_empty m MInv_empty Hf H) as Hi.
  split; [apply MInv_heads; exact Hi|]. split; [apply Built_closed; exact (proj1 Hi)|].
  intros h. rewrite (MInv_heads m Hi). apply heads_spec.
Qed.

(* 6. every change the machine creates, in one statement *)
Theorem created_change_meta : forall m r m' c,
  MInv m -> step_fresh m (SCommit r) -> m_commit m r = Ok (m', Some c) ->
  let appl := applied (m_doc m) in
  ch_hash c = cr_hash r /\ ch_ops c = cr_ops r /\
  ch_seq c = seq_for_actor appl (ch_actor c) + 1 /\
  (forall x, In x appl -> max_op x < ch_start c) /\
  (forall h, In h (ch_deps c) -> In h (hashes appl)) /\
  match cr_iso r with
  | None => ch_actor c = cr_actor r /\
            forall h, In h (ch_deps c) <->
              In h (heads_of appl) \/ exists p, prev_change appl (cr_actor r) = Some p /\ h = ch_hash p
  | Some hs => ch_deps c = sortN (filter (has_hash appl) hs)
  end /\
  applied (m_doc m') = appl ++ [c] /\
  m_get_heads m' = heads_of (appl ++ [c]).
Proof.
  intros m r m' c Hi Hf H appl. pose proof H as H0. unfold m_commit in H.
  destruct (commit_meta _ _ _ _) as [meta| |] eqn:Em; cbn [bind] in H; try discriminate.
  assert (Hc : c = mkChange (cr_hash r) (cm_actor meta) (cm_seq meta) (cm_start meta) (cm_deps meta) (cr_ops r)
               /\ applied (m_doc m') = appl ++ [c]).
  { destruct (cr_ops r) as [|o ops]; [destruct (cr_force r)|]; inversion H; subst; split; reflexivity. }
  destruct Hc as [Hc Ha]. rewrite (MInv_heads m Hi) in Em. fold appl in Em.
  subst c. cbn [ch_hash ch_ops ch_seq ch_actor ch_start ch_deps] in *.
  split; [reflexivity|]. split; [reflexivity|]. split; [exact (commit_seq_next _ _ _ _ _ Em)|].
  split; [intros x Hx; exact (proj1 (proj2 (commit_start_op_gt_all _ _ _ _ _ Em) x Hx))|].
  split; [exact (commit_meta_deps_applied _ _ _ _ _ Em)|]. split.
  - destruct (cr_iso r) as [hs|].
    + exact (proj1 (commit_deps_isolated _ _ _ _ _ Em)).
    + destruct (commit_deps_nonisolated _ _ _ _ Em) as [H1 [_ [_ H4]]].
      { intros h Hh. apply heads_of_in_hashes. exact Hh. }
      split; [exact H1|exact H4].
  - split; [exact Ha|]. rewrite <- Ha. apply MInv_heads. eapply MInv_commit; eassumption.
Qed.

(* ================================================================== *)
(* C10: get_changes                                                    *)

Lemma Built_hash_inj a : Built a -> forall c c', In c a -> In c' a -> ch_hash c = ch_hash c' -> c = c'.
Proof. intros Hb. apply ClockProofs.hash_inj. apply Built_NoDup. exact Hb. Qed.

Lemma Built_anc_iff a hs c : Built a -> (In c (ancestors a hs) <-> Anc a hs c).
Proof.
  intros Hb. split; [apply ancestors_Anc|]. apply Anc_ancestors; [apply Built_NoDup|apply Built_Topo]; exact Hb.
Qed.

Lemma Built_has_anc a hs c : Built a -> In c a ->
  (has_hash (ancestors a hs) (ch_hash c) = true <-> Anc a hs c).
Proof.
  intros Hb Hc. rewrite ClockProofs.has_hash_spec. split.
  - intros [c' [Hc' E]]. assert (c' = c) as <-; [|apply Built_anc_iff; assumption].
    apply (Built_hash_inj a Hb); [eapply ancestors_incl; exact Hc'|exact Hc|exact E].
  - intros H. exists c. split; [apply Built_anc_iff; assumption|reflexivity].
Qed.

Lemma Built_prefix l1 : forall l2, Built (l1 ++ l2) -> Built l1.
Proof.
  intros l2. induction l2 as [|x t IH] using rev_ind; intros H; [rewrite app_nil_r in H; exact H|].
  rewrite app_assoc in H. apply Built_snoc_inv in H. apply IH. exact (proj1 H).
Qed.

Lemma Built_mid l1 c l2 : Built (l1 ++ c :: l2) -> ready l1 c = true.
Proof.
  intros H. replace (l1 ++ c :: l2) with ((l1 ++ [c]) ++ l2) in H by (rewrite <- app_assoc; reflexivity).
  apply Built_prefix in H. apply Built_snoc_inv in H. exact (proj1 (proj2 H)).
Qed.

Lemma filter_split {A} (f : A -> bool) : forall l pre c post, filter f l = pre ++ c :: post ->
  exists l1 l2, l = l1 ++ c :: l2 /\ pre = filter f l1 /\ post = filter f l2.
Proof.
  induction l as [|x l IH]; intros pre c post H; cbn [filter] in H; [destruct pre; discriminate|].
  destruct (f x) eqn:E.
  - destruct pre as [|p pre]; cbn [app] in H; inversion H; subst.
    + exists [], l. cbn. auto.
    + destruct (IH _ _ _ H2) as [l1 [l2 [H3 [H4 H5]]]]. exists (p :: l1), l2. subst. cbn [filter app]. rewrite E. auto.
  - destruct (IH _ _ _ H) as [l1 [l2 [H3 [H4 H5]]]]. exists (x :: l1), l2. subst. cbn [filter app]. rewrite E. auto.
Qed.

(* get_changes(have): exactly the applied changes that are not ancestors of [have]; no change
   twice; every change after those of its dependencies that are returned at all — a dependency
   that is not returned is an ancestor of [have], i.e. something the asker already has *)
Theorem get_changes_spec appl have : Built appl ->
  (forall c, In c (get_changes appl have) <-> In c appl /\ ~ Anc appl have c) /\
  NoDup (hashes (get_changes appl have)) /\
  (forall pre c post, get_changes appl have = pre ++ c :: post ->
     forall h, In h (ch_deps c) ->
       In h (hashes pre) \/ exists d, Anc appl have d /\ ch_hash d = h).
Proof.
  intros Hb. unfold get_changes. split; [|split].
  - intros c. rewrite filter_In, negb_true_iff. split.
    + intros [Hc Hn]. split; [exact Hc|]. intros Ha. apply (Built_has_anc appl have c Hb Hc) in Ha. congruence.
    + intros [Hc Hn]. split; [exact Hc|]. destruct (has_hash _ _) eqn:E; [|reflexivity].
      exfalso. apply Hn. apply (Built_has_anc appl have c Hb Hc). exact E.
  - apply NoDup_hashes_filter, Built_NoDup, Hb.
  - intros pre c post H h Hh. destruct (filter_split _ _ _ _ _ H) as [l1 [l2 [El [Ep _]]]].
    rewrite El in Hb. pose proof (Built_mid _ _ _ Hb) as Hr.
    pose proof (proj1 (ready_spec l1 c) Hr h Hh) as Hin. apply ClockProofs.has_hash_spec in Hin.
    destruct Hin as [d [Hd E]].
    assert (Hda : In d appl) by (rewrite El; apply in_or_app; left; exact Hd).
    destruct (has_hash (ancestors appl have) (ch_hash d)) eqn:Ea.
    + right. exists d. split; [|exact E]. rewrite <- El in Hb. apply (Built_has_anc appl have d Hb Hda). exact Ea.
    + left. rewrite Ep. apply in_hashes. exists d. split; [|exact E]. apply filter_In. split; [exact Hd|].
      rewrite Ea. reflexivity.
Qed.

(* the result is a subsequence of the applied list: relative order = application order *)
Theorem get_changes_order appl have :
  exists keep, get_changes appl have = filter keep appl.
Proof. eexists. reflexivity. Qed.

(* ---- what the code computes (sequence clock) equals the specification when each actor's
   changes form a chain ---- *)
Definition ActorChain (appl : list change) : Prop :=
  actor_seq_unique appl /\ (forall c, In c appl -> 1 <= ch_seq c) /\
  forall c1 c2, In c1 appl -> In c2 appl -> ch_actor c1 = ch_actor c2 -> ch_seq c1 < ch_seq c2 ->
    Anc appl [ch_hash c2] c1.

Definition sfold (a : actor) (l : list change) (m : N) : N :=
  fold_left (fun m c => if same_actor (ch_actor c) a then N.max m (ch_seq c) else m) l m.

Lemma sfold_acc a l : forall m, m <= sfold a l m.
Proof.
  induction l as [|x t IH]; intros m; cbn [sfold fold_left]; [lia|]. fold (sfold a t).
  destruct (same_actor (ch_actor x) a); [etransitivity; [|apply IH]; lia|apply IH].
Qed.

Lemma sfold_ge a l : forall m c, In c l -> ch_actor c = a -> ch_seq c <= sfold a l m.
Proof.
  induction l as [|x t IH]; intros m c [] Ha; cbn [sfold fold_left]; fold (sfold a t).
  - subst x. rewrite (proj2 (QueueProofs.same_actor_spec (ch_actor c) a) Ha).
    etransitivity; [|apply sfold_acc]. lia.
  - apply IH; assumption.
Qed.

Lemma sfold_witness a l : forall m, sfold a l m = m \/ exists c, In c l /\ ch_actor c = a /\ ch_seq c = sfold a l m.
Proof.
  unfold sfold. induction l as [|x t IH]; intros m; cbn [fold_left]; [left; reflexivity|].
  destruct (same_actor (ch_actor x) a) eqn:E.
  - apply QueueProofs.same_actor_spec in E. destruct (IH (N.max m (ch_seq x))) as [H|[c [Hc [Ha Hs]]]].
    + rewrite H. destruct (N.max_spec m (ch_seq x)) as [[_ Hm]|[_ Hm]]; rewrite Hm.
      * right. exists x. split; [left; reflexivity|auto].
      * left. reflexivity.
    + right. exists c. split; [right; exact Hc|auto].
  - destruct (IH m) as [H|[c [Hc [Ha Hs]]]]; [left; exact H|right; exists c; split; [right; exact Hc|auto]].
Qed.

Lemma Anc_trans a hs c c' : Built a -> Anc a hs c' -> Anc a [ch_hash c'] c -> Anc a hs c.
Proof.
  intros Hb Hc' Hc. induction Hc as [c Hc Hh|c d Hc HA IH Hd].
  - destruct Hh as [Hh|[]]. assert (c = c') as ->; [|exact Hc'].
    apply (Built_hash_inj a Hb); [exact Hc|eapply Anc_in; exact Hc'|symmetry; exact Hh].
  - eapply Anc_dep; [exact Hc|exact IH|exact Hd].
Qed.

Lemma seq_clock_covers appl have c : Built appl -> ActorChain appl -> In c appl ->
  (seq_clock_at appl have (ch_actor c) <? ch_seq c = true <-> ~ Anc appl have c).
Proof.
  intros Hb [Hu [H1 Hch]] Hc. unfold seq_clock_at. fold (sfold (ch_actor c) (ancestors appl have) 0).
  rewrite N.ltb_lt. split.
  - intros Hlt Ha. apply (Built_anc_iff appl have c Hb) in Ha.
    pose proof (sfold_ge (ch_actor c) _ 0 c Ha eq_refl). lia.
  - intros Hn. destruct (N.lt_ge_cases (sfold (ch_actor c) (ancestors appl have) 0) (ch_seq c)) as [Hlt|Hge]; [exact Hlt|].
    exfalso. apply Hn. pose proof (H1 c Hc) as Hs1.
    destruct (sfold_witness (ch_actor c) (ancestors appl have) 0) as [E|[c' [Hc' [Ha Hs]]]]; [lia|].
    pose proof (ancestors_incl _ _ _ Hc') as Hc'a. apply (Built_anc_iff appl have c' Hb) in Hc'.
    rewrite <- Hs in Hge. destruct (N.eq_dec (ch_seq c) (ch_seq c')) as [Heq|Hne].
    + assert (c = c') as ->; [|exact Hc']. apply (Built_hash_inj appl Hb); [exact Hc|exact Hc'a|].
      apply Hu; [exact Hc|exact Hc'a|symmetry; exact Ha|exact Heq].
    + eapply Anc_trans; [exact Hb|exact Hc'|]. apply Hch; [exact Hc|exact Hc'a|symmetry; exact Ha|lia].
Qed.

Theorem get_changes_impl_eq_spec appl have : Built appl -> ActorChain appl ->
  get_changes_impl appl have = get_changes appl have.
Proof.
  intros Hb Hch. unfold get_changes_impl, get_changes. apply filter_ext_in. intros c Hc.
  destruct (seq_clock_at appl have (ch_actor c) <? ch_seq c) eqn:E1;
    destruct (has_hash (ancestors appl have) (ch_hash c)) eqn:E2; cbn [negb]; try reflexivity; exfalso.
  - apply (seq_clock_covers appl have c Hb Hch Hc) in E1. apply E1. apply (Built_has_anc appl have c Hb Hc). exact E2.
  - assert (Hn : ~ Anc appl have c).
    { intros Ha. apply (Built_has_anc appl have c Hb Hc) in Ha. congruence. }
    apply (seq_clock_covers appl have c Hb Hch Hc) in Hn. congruence.
Qed.

Definition dummy_op : op := mkOp (1, [7]) root_id (KMap [97]) false (APut SNull) [].

(* ================================================================== *)
(* the actor chain is an invariant                                     *)

(* [seq_index] positions are seq - 1 (asserted by ChangeGraph::add_changes) *)
Definition SeqIdx (appl : list change) (a : actor) : Prop :=
  forall i c, nth_error (actor_changes appl a) i = Some c -> ch_seq c = N.of_nat i + 1.

Definition AChain (appl : list change) : Prop := (forall a, SeqIdx appl a) /\ ActorChain appl.

(* what one more applied change must satisfy: the next seq of its actor (the code panics
   otherwise) and, when that actor has a previous change, it descends from it *)
Definition chain_ok_new (appl : list change) (c : change) : Prop :=
  ch_seq c = seq_for_actor appl (ch_actor c) + 1 /\
  forall p, prev_change appl (ch_actor c) = Some p -> Anc (appl ++ [c]) [ch_hash c] p.

Lemma actor_changes_in appl a c : In c (actor_changes appl a) <-> In c appl /\ ch_actor c = a.
Proof. unfold actor_changes. rewrite filter_In, QueueProofs.same_actor_spec. tauto. Qed.

Lemma actor_changes_snoc appl c a :
  actor_changes (appl ++ [c]) a = actor_changes appl a ++ (if same_actor (ch_actor c) a then [c] else []).
Proof. unfold actor_changes. rewrite filter_app. cbn [filter]. destruct (same_actor (ch_actor c) a); reflexivity. Qed.

Lemma seq_for_actor_len appl a : seq_for_actor appl a = N.of_nat (length (actor_changes appl a)).
Proof. reflexivity. Qed.

Lemma SeqIdx_le appl a x : SeqIdx appl a -> In x appl -> ch_actor x = a ->
  1 <= ch_seq x <= seq_for_actor appl a.
Proof.
  intros Hs Hx Ha. assert (Hin : In x (actor_changes appl a)) by (apply actor_changes_in; auto).
  destruct (In_nth_error _ _ Hin) as [k Hk]. pose proof (Hs _ _ Hk) as E.
  assert ((k < length (actor_changes appl a))%nat) by (apply nth_error_Some; congruence).
  rewrite seq_for_actor_len. lia.
Qed.

(* the change of an actor whose seq is the number of that actor's changes is its last one *)
Lemma SeqIdx_last appl a x p : SeqIdx appl a -> In x appl -> ch_actor x = a ->
  ch_seq x = seq_for_actor appl a -> prev_change appl a = Some p -> x = p.
Proof.
  intros Hs Hx Ha Hq Hp. assert (Hin : In x (actor_changes appl a)) by (apply actor_changes_in; auto).
  destruct (In_nth_error _ _ Hin) as [k Hk]. pose proof (Hs _ _ Hk) as E.
  unfold prev_change in Hp. rewrite <- nth_error_last in Hp. rewrite seq_for_actor_len in Hq.
  assert (k = (length (actor_changes appl a) - 1)%nat) by lia. subst k. congruence.
Qed.

Lemma SeqIdx_prev_seq appl a p : SeqIdx appl a -> prev_change appl a = Some p ->
  ch_seq p = seq_for_actor appl a /\ In p appl /\ ch_actor p = a.
Proof.
  intros Hs Hp. unfold prev_change in Hp. pose proof (last_opt_in _ _ Hp) as Hin.
  apply actor_changes_in in Hin. rewrite <- nth_error_last in Hp. pose proof (Hs _ _ Hp) as E.
  assert ((length (actor_changes appl a) - 1 < length (actor_changes appl a))%nat) by (apply nth_error_Some; congruence).
  rewrite seq_for_actor_len. split; [lia|exact Hin].
Qed.

Lemma AChain_nil : AChain [].
Proof.
  split; [intros a i c H; destruct i; discriminate|].
  split; [intros c c' []|]. split; [intros c []|intros c1 c2 []].
Qed.

Lemma AChain_snoc appl c : Built (appl ++ [c]) -> AChain appl -> chain_ok_new appl c -> AChain (appl ++ [c]).
Proof.
  intros Hb [Hsi [Hu [H1 Hch]]] [Hseq Hprev].
  assert (Hsi' : forall a, SeqIdx (appl ++ [c]) a).
  { intros a i x Hx. rewrite actor_changes_snoc in Hx.
    destruct (Nat.lt_ge_cases i (length (actor_changes appl a))) as [Hlt|Hge].
    - rewrite nth_error_app1 in Hx by exact Hlt. exact (Hsi a i x Hx).
    - rewrite nth_error_app2 in Hx by exact Hge.
      destruct (same_actor (ch_actor c) a) eqn:Ea; [|destruct (i - _)%nat; discriminate].
      apply QueueProofs.same_actor_spec in Ea. subst a.
      destruct (i - length (actor_changes appl (ch_actor c)))%nat as [|k] eqn:Ek; [|destruct k; discriminate].
      cbn in Hx. inversion Hx; subst x. rewrite Hseq, seq_for_actor_len. lia. }
  assert (Hnew : forall x, In x appl -> ch_actor x = ch_actor c -> ch_seq x < ch_seq c).
  { intros x Hx Ha. pose proof (SeqIdx_le appl (ch_actor c) x (Hsi _) Hx Ha). lia. }
  split; [exact Hsi'|]. split; [|split].
  - intros x y Hx Hy Ha Hs. apply in_app_or in Hx. apply in_app_or in Hy.
    destruct Hx as [Hx|[<-|[]]]; destruct Hy as [Hy|[<-|[]]].
    + exact (Hu x y Hx Hy Ha Hs).
    + pose proof (Hnew x Hx Ha). lia.
    + pose proof (Hnew y Hy (eq_sym Ha)). lia.
    + reflexivity.
  - intros x Hx. apply in_app_or in Hx. destruct Hx as [Hx|[<-|[]]]; [exact (H1 x Hx)|lia].
  - intros c1 c2 Hc1 Hc2 Ha Hs. apply in_app_or in Hc1. apply in_app_or in Hc2.
    destruct Hc2 as [Hc2|[<-|[]]].
    + destruct Hc1 as [Hc1|[<-|[]]].
      * apply Anc_mono. exact (Hch c1 c2 Hc1 Hc2 Ha Hs).
      * pose proof (Hnew c2 Hc2 (eq_sym Ha)). lia.
    + destruct Hc1 as [Hc1|[<-|[]]]; [|lia].
      destruct (prev_change appl (ch_actor c)) as [p|] eqn:Hp.
      * destruct (SeqIdx_prev_seq appl (ch_actor c) p (Hsi _) Hp) as [Hps [Hpin Hpa]].
        pose proof (SeqIdx_le appl (ch_actor c) c1 (Hsi _) Hc1 Ha) as Hle.
        destruct (N.eq_dec (ch_seq c1) (seq_for_actor appl (ch_actor c))) as [Heq|Hne].
        -- assert (c1 = p) as -> by (eapply SeqIdx_last; eauto). apply Hprev. reflexivity.
        -- eapply Anc_trans; [exact Hb|apply Hprev; reflexivity|]. apply Anc_mono.
           apply Hch; [exact Hc1|exact Hpin|congruence|lia].
      * exfalso. unfold prev_change in Hp. apply last_opt_none in Hp.
        assert (Hin : In c1 (actor_changes appl (ch_actor c))) by (apply actor_changes_in; auto).
        rewrite Hp in Hin. destruct Hin.
Qed.

Lemma AChain_app : forall r a, Built (a ++ r) -> AChain a ->
  (forall pre c post, r = pre ++ c :: post -> chain_ok_new (a ++ pre) c) -> AChain (a ++ r).
Proof.
  induction r as [|x t IH] using rev_ind; intros a Hb Ha Hok; [rewrite app_nil_r; exact Ha|].
  rewrite app_assoc in Hb |- *. apply AChain_snoc; [exact Hb| |].
  - apply IH; [apply Built_snoc_inv in Hb; exact (proj1 Hb)|exact Ha|].
    intros pre c post E. apply (Hok pre c (post ++ [x])). rewrite E, <- app_assoc. reflexivity.
  - apply (Hok t x []). reflexivity.
Qed.

(* an ancestor of the isolation heads is an ancestor of the change made on them *)
Lemma Anc_through_new appl c hs p : In (ch_hash c) [ch_hash c] ->
  (forall h, In h hs -> In h (hashes appl) -> In h (ch_deps c)) ->
  Anc appl hs p -> Anc (appl ++ [c]) [ch_hash c] p.
Proof.
  intros _ Hd H. induction H as [x Hx Hh|x y Hx HA IH Hdep].
  - eapply Anc_dep; [apply in_or_app; left; exact Hx| |].
    + apply Anc_head; [apply in_or_app; right; left; reflexivity|left; reflexivity].
    + apply Hd; [exact Hh|apply in_hashes; exists x; auto].
  - eapply Anc_dep; [apply in_or_app; left; exact Hx|exact IH|exact Hdep].
Qed.

(* the previous change of the actor an isolated transaction writes as is ALWAYS an ancestor of
   the isolation heads *)
Theorem isolated_prev_is_ancestor appl heads a hs m p :
  commit_meta appl heads a (Some hs) = Ok m ->
  SeqIdx appl (cm_actor m) -> prev_change appl (cm_actor m) = Some p ->
  In p (ancestors appl hs).
Proof.
  intros H Hsi Hp.
  destruct (commit_deps_isolated _ _ _ _ _ H) as [_ [_ [j [_ [Hc _]]]]].
  set (ai := cm_actor m) in *.
  destruct (SeqIdx_prev_seq appl ai p Hsi Hp) as [Hps [Hpin Hpa]].
  pose proof (SeqIdx_le appl ai p Hsi Hpin Hpa) as Hle.
  destruct Hc as [Hc|Hc]; [lia|].
  unfold seq_clock_at in Hc. fold (sfold ai (ancestors appl hs) 0) in Hc.
  destruct (sfold_witness ai (ancestors appl hs) 0) as [Ew|[x [Hx [Hxa Hxs]]]]; [lia|].
  assert (x = p) as <-; [|exact Hx].
  eapply SeqIdx_last; [exact Hsi|eapply ancestors_incl; exact Hx|exact Hxa|congruence|exact Hp].
Qed.

(* every created change continues its actor's chain *)
Lemma commit_chain_ok appl a iso m h ops :
  Built appl -> (forall a, SeqIdx appl a) ->
  commit_meta appl (heads_of appl) a iso = Ok m ->
  chain_ok_new appl (mkChange h (cm_actor m) (cm_seq m) (cm_start m) (cm_deps m) ops).
Proof.
  intros Hb Hsi H. split; cbn [ch_seq ch_actor ch_hash]; [exact (commit_seq_next _ _ _ _ _ H)|].
  intros p Hp. set (c := mkChange h (cm_actor m) (cm_seq m) (cm_start m) (cm_deps m) ops).
  destruct (SeqIdx_prev_seq appl (cm_actor m) p (Hsi _) Hp) as [_ [Hpin _]].
  destruct iso as [hs|].
  - pose proof (isolated_prev_is_ancestor _ _ _ _ _ _ H (Hsi _) Hp) as Ha.
    apply (Built_anc_iff appl hs p Hb) in Ha.
    apply (Anc_through_new appl c hs p); [left; reflexivity| |exact Ha].
    intros x Hx Hx2. cbn [c ch_deps]. rewrite (proj1 (commit_deps_isolated _ _ _ _ _ H)).
    apply in_sortN_filter. auto.
  - destruct (commit_deps_nonisolated _ _ _ _ H) as [Ea [_ [_ Hd]]].
    { intros x Hx. apply heads_of_in_hashes. exact Hx. }
    eapply Anc_dep; [apply in_or_app; left; exact Hpin| |].
    + apply Anc_head; [apply in_or_app; right; left; reflexivity|left; reflexivity].
    + cbn [c ch_deps]. apply Hd. right. exists p. rewrite <- Ea. auto.
Qed.

(* delivered changes must continue their actor's chain: the first half is what the code
   asserts (change_graph.rs, add_changes), the second is true of every change a library
   document creates ([commit_chain_ok]); a hand-built history can violate it *)
Definition step_chain_ok (m : mdoc) (s : mstep) : Prop :=
  match s with
  | SCommit _ => True
  | SReceive cs => forall pre c post,
      applied (m_doc (m_receive m cs)) = applied (m_doc m) ++ pre ++ c :: post ->
      chain_ok_new (applied (m_doc m) ++ pre) c
  end.

Fixpoint run_chain_ok (m : mdoc) (steps : list mstep) : Prop :=
  match steps with
  | [] => True
  | s :: t => step_chain_ok m s /\ match m_step m s with Ok m' => run_chain_ok m' t | _ => True end
  end.

Lemma m_receive_extends m cs : MInv m -> exists r, applied (m_doc (m_receive m cs)) = applied (m_doc m) ++ r.
Proof.
  intros [Hb [Hn _]]. unfold m_receive. destruct (receive (m_doc m) cs) as [d'| |] eqn:E; cbn [m_doc].
  - destruct (receive_Built _ _ _ E Hb Hn) as [_ [_ Hr]]. exact Hr.
  - exists []. rewrite receive_err_state_applied, app_nil_r. reflexivity.
  - exists []. rewrite receive_err_state_applied, app_nil_r. reflexivity.
Qed.

Lemma AChain_step m s m' : MInv m -> step_fresh m s -> step_chain_ok m s -> AChain (applied (m_doc m)) ->
  m_step m s = Ok m' -> AChain (applied (m_doc m')).
Proof.
  intros Hi Hf Hok Ha H. pose proof (MInv_step _ _ _ Hi Hf H) as Hi'. destruct s as [cs|r]; cbn [m_step] in H.
  - inversion H; subst m'. destruct (m_receive_extends m cs Hi) as [rr Hr]. rewrite Hr.
    apply AChain_app; [rewrite <- Hr; exact (proj1 Hi')|exact Ha|].
    intros pre c post E. apply (Hok pre c post). rewrite Hr, E. reflexivity.
  - destruct (m_commit m r) as [[m2 oc]| |] eqn:E; cbn [bind] in H; try discriminate. inversion H; subst m2.
    unfold m_commit in E.
    destruct (commit_meta _ _ _ _) as [meta| |] eqn:Em; cbn [bind] in E; try discriminate.
    rewrite (MInv_heads m Hi) in Em.
    assert (Hnew : AChain (applied (m_doc m) ++
              [mkChange (cr_hash r) (cm_actor meta) (cm_seq meta) (cm_start meta) (cm_deps meta) (cr_ops r)]) ->
            AChain (applied (m_doc m'))).
    { destruct (cr_ops r) as [|o ops]; [destruct (cr_force r)|]; inversion E; subst; cbn [m_doc applied]; auto. }
    destruct (cr_ops r) as [|o ops] eqn:Eo; [destruct (cr_force r) eqn:Ef|].
    + apply Hnew. apply AChain_snoc; [|exact Ha|eapply commit_chain_ok; [exact (proj1 Hi)|exact (proj1 Ha)|exact Em]].
      inversion E; subst. exact (proj1 Hi').
    + inversion E; subst. cbn [m_doc applied]. exact Ha.
    + apply Hnew. apply AChain_snoc; [|exact Ha|eapply commit_chain_ok; [exact (proj1 Hi)|exact (proj1 Ha)|exact Em]].
      inversion E; subst. exact (proj1 Hi').
Qed.

(* each actor's applied changes form a chain in every state reached from the empty document by
   local commits (plain, empty, isolated) and deliveries of changes that continue their chain *)
Theorem chain_invariant : forall steps m m',
  MInv m -> AChain (applied (m_doc m)) -> run_fresh m steps -> run_chain_ok m steps ->
  m_run m steps = Ok m' -> AChain (applied (m_doc m')).
Proof.
  induction steps as [|s t IH]; intros m m' Hi Ha Hf Hok H; cbn [m_run] in H.
  - inversion H; subst. exact Ha.
  - cbn [run_fresh] in Hf. cbn [run_chain_ok] in Hok. destruct Hf as [Hf1 Hf2]. destruct Hok as [Hk1 Hk2].
    destruct (m_step m s) as [m2| |] eqn:E; cbn [bind] in H; try discriminate.
    eapply IH; [eapply MInv_step; eassumption|eapply AChain_step; eassumption|exact Hf2|exact Hk2|exact H].
Qed.

(* hence the sequence-clock computation of get_changes is the specification in every such state *)
Theorem get_changes_impl_reachable : forall steps m have,
  run_fresh m_empty steps -> run_chain_ok m_empty steps -> m_run m_empty steps = Ok m ->
  get_changes_impl (applied (m_doc m)) have = get_changes (applied (m_doc m)) have.
Proof.
  intros steps m have Hf Hok H. apply get_changes_impl_eq_spec.
  - exact (proj1 (MInv_run steps m_empty m MInv_empty Hf H)).
  - exact (proj2 (chain_invariant steps m_empty m MInv_empty AChain_nil Hf Hok H)).
Qed.
