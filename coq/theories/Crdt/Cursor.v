(* Crdt/Cursor.v — cursors (C26).

   Mirrors [Automerge::get_cursor_for] / [get_cursor_position_for]
   (automerge.rs) and [OpSet::seek_list_opid_slow] (op_set2/op_set.rs):

   * a cursor taken at index i names the LAST visible op of the element covering
     i (the winner — an overwrite, not necessarily the insert op);
   * [seek_list_opid] finds that op, the sum of the widths of the visible
     elements before its element ([found.index]) and whether the op itself is
     visible;
   * MoveCursor::After returns [found.index]: the element's own index while it
     is visible, otherwise the index of the next visible element, otherwise the
     length;
   * MoveCursor::Before returns [found.index] when the element is visible or the
     index is 0, otherwise it walks the reference chain (the [key] of the insert
     ops) to the nearest visible element and returns its index, or 0 when the
     chain reaches the head of the sequence.

   Everything is a function of the op set of ONE object (ascending id, as
   [observe_sorted] hands it to [observe_obj]).  The width of a visible
   element is a parameter: 1 for lists, the width of the winning value's string
   in the document's text encoding for texts. *)
From AM Require Import Base.Prelude Base.Order Crdt.Types Crdt.Interp.
Local Open Scope N_scope.

Inductive move_mode := MoveAfter | MoveBefore.

Section Cursor.
  Variable width : regobs -> N.

  Definition elem_reg (oops : list op) (e : opid) : regobs := register (vis_ops oops) (KSeq e).

  Definition elem_vis (oops : list op) (e : opid) : bool :=
    match elem_reg oops e with [] => false | _ => true end.

  Definition elem_width (oops : list op) (e : opid) : N :=
    match elem_reg oops e with [] => 0 | r => width r end.

  (* sum of the widths of the elements strictly before [e]; [None] when [e] is not an element *)
  Fixpoint index_in (oops : list op) (els : list opid) (e : opid) (acc : N) : option N :=
    match els with
    | [] => None
    | x :: t => if opid_eqb x e then Some acc else index_in oops t e (acc + elem_width oops x)
    end.

  Definition index_of (oops : list op) (e : opid) : option N := index_in oops (elem_order oops) e 0.

  Definition find_op (oops : list op) (c : opid) : option op :=
    find (fun o => opid_eqb (op_id o) c) oops.

  (* the element an op belongs to: itself for an insert, its key for an update *)
  Definition elem_of (o : op) : opid :=
    match op_key o with
    | KSeq e => if op_insert o then op_id o else e
    | KMap _ => head_id
    end.

  (* the walk of MoveCursor::Before along the reference chain, starting at element [k] *)
  Fixpoint walk_before (fuel : nat) (oops : list op) (k : opid) : res N :=
    match fuel with
    | O => Panic                                   (* never reached: fuel = number of ops + 1 *)
    | S f =>
      if opid_eqb k head_id then Ok 0
      else match find_op oops k with
           | None => Ok 0                           (* [seek_list_opid] = None: "before the beginning" *)
           | Some o =>
             match index_of oops (elem_of o) with
             | None => Ok 0
             | Some i => if elem_vis oops (elem_of o) then Ok i else walk_before f oops (ref_of o)
             end
           end
    end.

  (* [get_cursor_position] for an op cursor; [Err] = InvalidCursor *)
  Definition resolve (oops : list op) (mode : move_mode) (c : opid) : res N :=
    match find_op oops c with
    | None => Err
    | Some o =>
      if is_inc o || is_del o then Err else
      match index_of oops (elem_of o) with
      | None => Err
      | Some i =>
        match mode with
        | MoveAfter => Ok i
        | MoveBefore =>
          if elem_vis oops (elem_of o) || (i =? 0) then Ok i
          else walk_before (S (length oops)) oops (if op_insert o then ref_of o else elem_of o)
        end
      end
    end.

  (* [get_cursor(Index i)]: the last visible op of the element covering index [i] *)
  Fixpoint elem_at (oops : list op) (els : list opid) (i : N) : option opid :=
    match els with
    | [] => None
    | x :: t =>
      let w := elem_width oops x in
      if (0 <? w) && (i <? w) then Some x else elem_at oops t (i - w)
    end.

  Definition cursor_at (oops : list op) (i : N) : option opid :=
    match elem_at oops (elem_order oops) i with
    | None => None
    | Some e => match winner (elem_reg oops e) with Some (id, _) => Some id | None => None end
    end.

  (* the visible elements in document order: what [observe_obj] lists *)
  Definition vis_elems (oops : list op) : list opid := filter (elem_vis oops) (elem_order oops).
End Cursor.

Definition width_list (_ : regobs) : N := 1.
(* code-point width of a text element *)
Definition width_cp (r : regobs) : N := N.of_nat (length (elem_text r)).
(* UTF-8 / UTF-16 code-unit widths *)
Definition utf8_len (c : N) : N := if c <? 128 then 1 else if c <? 2048 then 2 else if c <? 65536 then 3 else 4.
Definition utf16_len (c : N) : N := if c <? 65536 then 1 else 2.
Definition sumN (l : list N) : N := fold_right N.add 0 l.
Definition width_utf8 (r : regobs) : N := sumN (map utf8_len (elem_text r)).
Definition width_utf16 (r : regobs) : N := sumN (map utf16_len (elem_text r)).
