(* Crdt/CursorProofs.v — proofs about the cursor model (C26). *)
From AM Require Import Base.Prelude Base.Order Crdt.Types Crdt.Interp Crdt.Cursor.
Local Open Scope N_scope.

(* ---------- small facts ---------- *)
Lemma opid_eqb_refl a : opid_eqb a a = true.
Proof. apply opid_eqb_spec. reflexivity. Qed.

Lemma opid_eqb_neq a b : a <> b -> opid_eqb a b = false.
Proof.
  intros H. destruct (opid_eqb a b) eqn:E; [|reflexivity].
  apply opid_eqb_spec in E. contradiction.
Qed.

Lemma sumN_app a b : sumN (a ++ b) = sumN a + sumN b.
Proof. unfold sumN. induction a as [|x a IH]; cbn [app fold_right]; [lia|]. rewrite IH. lia. Qed.

Section Proofs.
  Variable width : regobs -> N.

  (* ---------- [index_in] is the sum of the widths before the element ---------- *)
  Lemma index_in_spec oops pre e post : forall acc,
    ~ In e pre ->
    index_in width oops (pre ++ e :: post) e acc
      = Some (acc + sumN (map (elem_width width oops) pre)).
  Proof.
    induction pre as [|x pre IH]; intros acc Hn; cbn [app index_in map].
    - rewrite opid_eqb_refl. unfold sumN; cbn. f_equal. lia.
    - rewrite opid_eqb_neq by (intros ->; apply Hn; left; reflexivity).
      rewrite IH by (intros H; apply Hn; right; exact H).
      unfold sumN; cbn [fold_right]. f_equal. lia.
  Qed.

  Lemma index_in_split oops els e : forall acc i,
    index_in width oops els e acc = Some i ->
    exists pre post, els = pre ++ e :: post /\ ~ In e pre /\
                     i = acc + sumN (map (elem_width width oops) pre).
  Proof.
    induction els as [|x t IH]; intros acc i H; cbn [index_in] in H; [discriminate|].
    destruct (opid_eqb x e) eqn:E.
    - apply opid_eqb_spec in E. subst x. inversion H; subst.
      exists [], t. repeat split; [intros []|]. unfold sumN; cbn. lia.
    - apply IH in H. destruct H as (pre & post & -> & Hn & ->).
      exists (x :: pre), post. repeat split.
      + intros [->|Hin]; [rewrite opid_eqb_refl in E; discriminate|contradiction].
      + unfold sumN; cbn [map fold_right]. lia.
  Qed.

  Lemma index_in_none oops els e : forall acc,
    index_in width oops els e acc = None <-> ~ In e els.
  Proof.
    induction els as [|x t IH]; intros acc; cbn [index_in].
    - split; [intros _ []|reflexivity].
    - destruct (opid_eqb x e) eqn:E.
      + apply opid_eqb_spec in E. subst. split; [discriminate|]. intros H. exfalso. apply H. left. reflexivity.
      + rewrite IH. split.
        * intros H [->|Hin]; [rewrite opid_eqb_refl in E; discriminate|contradiction].
        * intros H Hin. apply H. right. exact Hin.
  Qed.

  (* ---------- what a resolved position means ---------- *)

  (* the visible elements split around the cursor's element *)
  Lemma vis_elems_split oops pre e post :
    elem_order oops = pre ++ e :: post ->
    vis_elems oops = filter (elem_vis oops) pre
                     ++ (if elem_vis oops e then [e] else [])
                     ++ filter (elem_vis oops) post.
  Proof.
    intros H. unfold vis_elems. rewrite H, filter_app. cbn [filter].
    destruct (elem_vis oops e); reflexivity.
  Qed.

  (* MoveCursor::After: the position is the total width of the visible elements before the
     cursor's element — whether or not the element itself is still visible *)
  Theorem resolve_after_spec oops c o pre post :
    find_op oops c = Some o -> is_inc o = false -> is_del o = false ->
    elem_order oops = pre ++ elem_of o :: post -> ~ In (elem_of o) pre ->
    resolve width oops MoveAfter c = Ok (sumN (map (elem_width width oops) pre)).
  Proof.
    intros Hf Hi Hd Ho Hn. unfold resolve. rewrite Hf, Hi, Hd. cbn [orb].
    unfold index_of. rewrite Ho, index_in_spec by exact Hn. f_equal.
  Qed.

  (* an unknown op, an increment or a delete is not a cursor *)
  Theorem resolve_unknown oops mode c : find_op oops c = None -> resolve width oops mode c = Err.
  Proof. intros H. unfold resolve. rewrite H. reflexivity. Qed.

  (* MoveCursor::Before, element still there (or nothing before it): same position *)
  Theorem resolve_before_visible oops c o pre post :
    find_op oops c = Some o -> is_inc o = false -> is_del o = false ->
    elem_order oops = pre ++ elem_of o :: post -> ~ In (elem_of o) pre ->
    elem_vis oops (elem_of o) = true ->
    resolve width oops MoveBefore c = Ok (sumN (map (elem_width width oops) pre)).
  Proof.
    intros Hf Hi Hd Ho Hn Hv. unfold resolve. rewrite Hf, Hi, Hd. cbn [orb].
    unfold index_of. rewrite Ho, index_in_spec by exact Hn. rewrite Hv. cbn [orb]. f_equal.
  Qed.

  (* the walk of MoveCursor::Before: the nearest visible element along the reference chain *)
  Inductive chain_to (oops : list op) : opid -> option opid -> Prop :=
  | CT_end k : k = head_id \/ find_op oops k = None \/
               (exists o, find_op oops k = Some o /\ index_of width oops (elem_of o) = None) ->
               chain_to oops k None
  | CT_hit k o i : k <> head_id -> find_op oops k = Some o ->
               index_of width oops (elem_of o) = Some i -> elem_vis oops (elem_of o) = true ->
               chain_to oops k (Some (elem_of o))
  | CT_step k o i r : k <> head_id -> find_op oops k = Some o ->
               index_of width oops (elem_of o) = Some i -> elem_vis oops (elem_of o) = false ->
               chain_to oops (ref_of o) r -> chain_to oops k r.

  Theorem walk_before_spec oops : forall fuel k i,
    walk_before width fuel oops k = Ok i ->
    exists r, chain_to oops k r /\
              match r with None => i = 0 | Some a => index_of width oops a = Some i end.
  Proof.
    induction fuel as [|f IH]; intros k i H; cbn [walk_before] in H; [discriminate|].
    destruct (opid_eqb k head_id) eqn:Ek.
    { apply opid_eqb_spec in Ek. inversion H; subst. exists None. split; [constructor; left; reflexivity|reflexivity]. }
    assert (Hk : k <> head_id) by (intros ->; rewrite opid_eqb_refl in Ek; discriminate).
    destruct (find_op oops k) as [o|] eqn:Ef.
    2:{ inversion H; subst. exists None. split; [constructor; right; left; exact Ef|reflexivity]. }
    destruct (index_of width oops (elem_of o)) as [j|] eqn:Ei.
    2:{ inversion H; subst. exists None. split; [|reflexivity].
        constructor. right. right. exists o. split; [exact Ef|exact Ei]. }
    destruct (elem_vis oops (elem_of o)) eqn:Ev.
    - inversion H; subst. exists (Some (elem_of o)). split; [|exact Ei].
      eapply CT_hit; eauto.
    - apply IH in H. destruct H as (r & Hc & Hr). exists r. split; [|exact Hr].
      eapply CT_step; eauto.
  Qed.

  Theorem resolve_before_hidden oops c o pre post i :
    find_op oops c = Some o -> is_inc o = false -> is_del o = false ->
    elem_order oops = pre ++ elem_of o :: post -> ~ In (elem_of o) pre ->
    elem_vis oops (elem_of o) = false ->
    resolve width oops MoveBefore c = Ok i ->
    (* nothing visible before it: position 0 *)
    (sumN (map (elem_width width oops) pre) = 0 /\ i = 0) \/
    (* otherwise the nearest visible element along the insertion chain, or 0 *)
    exists r, chain_to oops (if op_insert o then ref_of o else elem_of o) r /\
              match r with None => i = 0 | Some a => index_of width oops a = Some i end.
  Proof.
    intros Hf Hi Hd Ho Hn Hv H. unfold resolve in H. rewrite Hf, Hi, Hd in H. cbn [orb] in H.
    unfold index_of in H. rewrite Ho, index_in_spec in H by exact Hn. rewrite Hv in H. cbn [orb] in H.
    replace (0 + sumN (map (elem_width width oops) pre)) with (sumN (map (elem_width width oops) pre)) in H by lia.
    destruct (sumN (map (elem_width width oops) pre) =? 0) eqn:E0.
    - left. apply N.eqb_eq in E0. inversion H; subst. split; [exact E0|]. lia.
    - right. eapply walk_before_spec. exact H.
  Qed.
End Proofs.

(* ---------- lists: widths are 1, positions are indexes into the visible elements ---------- *)
Lemma sum_widths_list oops l :
  sumN (map (elem_width width_list oops) l) = N.of_nat (length (filter (elem_vis oops) l)).
Proof.
  induction l as [|x l IH]; [reflexivity|].
  cbn [map filter]. unfold sumN in *. cbn [fold_right]. rewrite IH.
  unfold elem_width, elem_vis, width_list. destruct (elem_reg oops x); cbn [length]; lia.
Qed.

(* a list cursor points at its element while the element is visible; once the element is gone,
   After points at the next surviving element, or at the end (= length) *)
Theorem list_cursor_after oops c o pre post :
  find_op oops c = Some o -> is_inc o = false -> is_del o = false ->
  elem_order oops = pre ++ elem_of o :: post -> ~ In (elem_of o) pre ->
  exists i, resolve width_list oops MoveAfter c = Ok (N.of_nat i) /\
    i = length (filter (elem_vis oops) pre) /\
    (elem_vis oops (elem_of o) = true -> nth_error (vis_elems oops) i = Some (elem_of o)) /\
    (elem_vis oops (elem_of o) = false ->
       nth_error (vis_elems oops) i = hd_error (filter (elem_vis oops) post) /\
       (filter (elem_vis oops) post = [] -> i = length (vis_elems oops))).
Proof.
  intros Hf Hi Hd Ho Hn. exists (length (filter (elem_vis oops) pre)).
  split; [|split; [reflexivity|]].
  - erewrite resolve_after_spec; eauto. rewrite sum_widths_list. reflexivity.
  - rewrite (vis_elems_split oops pre (elem_of o) post Ho). split; intros Hv; rewrite Hv.
    + rewrite nth_error_app2 by lia. rewrite Nat.sub_diag. reflexivity.
    + cbn [app]. split.
      * rewrite nth_error_app2 by lia. rewrite Nat.sub_diag.
        destruct (filter (elem_vis oops) post); reflexivity.
      * intros ->. rewrite app_nil_r. reflexivity.
Qed.

(* ---------- a fresh cursor resolves to the index it was taken at ---------- *)

Lemma insert_after_perm r x l : Permutation (insert_after r x l) (x :: l).
Proof.
  induction l as [|y t IH]; cbn [insert_after]; [apply Permutation_refl|].
  destruct (opid_eqb y r).
  - apply perm_swap.
  - eapply perm_trans; [apply perm_skip, IH|apply perm_swap].
Qed.

Lemma place_perm l o : Permutation (place l o) (op_id o :: l).
Proof. unfold place. destruct (opid_eqb (ref_of o) head_id); [apply Permutation_refl|apply insert_after_perm]. Qed.

Lemma fold_place_perm ins : forall l, Permutation (fold_left place ins l) (rev (map op_id ins) ++ l).
Proof.
  induction ins as [|o t IH]; intros l; cbn [fold_left map rev app]; [apply Permutation_refl|].
  eapply perm_trans; [apply IH|]. rewrite <- app_assoc. cbn [app].
  apply Permutation_app_head. apply place_perm.
Qed.

Lemma elem_order_perm ops : Permutation (elem_order ops) (map op_id (filter op_insert ops)).
Proof.
  unfold elem_order. eapply perm_trans; [apply fold_place_perm|].
  rewrite app_nil_r. apply Permutation_sym, Permutation_rev.
Qed.

Lemma NoDup_map_filter {A B} (g : A -> B) (f : A -> bool) l : NoDup (map g l) -> NoDup (map g (filter f l)).
Proof.
  induction l as [|x t IH]; cbn; intros H; [constructor|].
  inversion H as [|? ? Hx Ht]; subst. destruct (f x); cbn; [|apply IH, Ht].
  constructor; [|apply IH, Ht]. intros Hin. apply Hx.
  apply in_map_iff in Hin. destruct Hin as (y & E & Hy). apply filter_In in Hy.
  apply in_map_iff. exists y. tauto.
Qed.

Lemma elem_order_nodup ops : NoDup (map op_id ops) -> NoDup (elem_order ops).
Proof.
  intros H. eapply Permutation_NoDup; [apply Permutation_sym, elem_order_perm|].
  apply NoDup_map_filter, H.
Qed.

Lemma key_eqb_seq k e : key_eqb k (KSeq e) = true -> k = KSeq e.
Proof.
  destruct k as [s|x]; cbn; [discriminate|]. intros H. apply opid_eqb_spec in H. subst. reflexivity.
Qed.

(* every entry of an element's register is a visible value op of that element *)
Lemma in_elem_reg oops e id v :
  In (id, v) (elem_reg oops e) ->
  exists o, In o oops /\ op_id o = id /\ slot o = KSeq e /\ visible oops o = true.
Proof.
  unfold elem_reg, register. intros H. apply in_flat_map in H.
  destruct H as ([k [id' v']] & Hin & Hk). cbn [fst snd] in Hk.
  destruct (key_eqb k (KSeq e)) eqn:Ek; [|contradiction].
  destruct Hk as [Hk|[]]. inversion Hk; subst. apply key_eqb_seq in Ek. subst k.
  unfold vis_ops in Hin. apply in_flat_map in Hin. destruct Hin as (o & Ho & Hin).
  destruct (visible oops o && negb (is_mark o)) eqn:Ev; [|contradiction].
  apply andb_true_iff in Ev. destruct Ev as [Ev _].
  destruct (vobs_of oops o); [|contradiction]. destruct Hin as [Hin|[]]. inversion Hin; subst.
  exists o. repeat split; auto.
Qed.

Lemma find_op_unique oops o : NoDup (map op_id oops) -> In o oops -> find_op oops (op_id o) = Some o.
Proof.
  unfold find_op. induction oops as [|x t IH]; cbn [find map]; intros ND Hin; [contradiction|].
  inversion ND as [|? ? Hx Ht]; subst. destruct Hin as [->|Hin].
  - rewrite opid_eqb_refl. reflexivity.
  - rewrite opid_eqb_neq; [apply IH; assumption|].
    intros E. apply Hx. rewrite E. apply in_map. exact Hin.
Qed.

Lemma slot_elem_of o e : slot o = KSeq e -> elem_of o = e.
Proof.
  unfold slot, elem_of. destruct (op_key o) as [s|k]; [discriminate|].
  intros H. inversion H. reflexivity.
Qed.

Lemma winner_in (r : regobs) id v : winner r = Some (id, v) -> In (id, v) r.
Proof.
  unfold winner. induction r as [|x t IH]; cbn [map last]; [discriminate|].
  destruct t as [|y t']; cbn [map last] in *.
  - intros H. inversion H. left. reflexivity.
  - intros H. right. apply IH. exact H.
Qed.

Lemma visible_not_inc_del oops o : visible oops o = true -> is_inc o = false /\ is_del o = false.
Proof.
  unfold visible. rewrite !andb_true_iff, !negb_true_iff. tauto.
Qed.

Lemma elem_at_split (w : regobs -> N) oops els : forall i e,
  elem_at w oops els i = Some e ->
  exists pre post, els = pre ++ e :: post /\
    sumN (map (elem_width w oops) pre) <= i < sumN (map (elem_width w oops) pre) + elem_width w oops e.
Proof.
  induction els as [|x t IH]; intros i e H; cbn [elem_at] in H; [discriminate|].
  destruct ((0 <? elem_width w oops x) && (i <? elem_width w oops x)) eqn:E.
  - inversion H; subst. exists [], t. split; [reflexivity|]. unfold sumN; cbn. lia.
  - apply IH in H. destruct H as (pre & post & -> & Hr).
    exists (x :: pre), post. split; [reflexivity|]. unfold sumN in *. cbn [map fold_right].
    assert (elem_width w oops x <= i) by lia. lia.
Qed.

(* get_cursor_position(get_cursor(i)) = i, for both move modes, in a list *)
Theorem list_fresh_cursor oops i c mode :
  NoDup (map op_id oops) ->
  cursor_at width_list oops i = Some c ->
  resolve width_list oops mode c = Ok i.
Proof.
  intros ND H. unfold cursor_at in H.
  destruct (elem_at width_list oops (elem_order oops) i) as [e|] eqn:Ea; [|discriminate].
  destruct (winner (elem_reg oops e)) as [[id v]|] eqn:Ew; [|discriminate]. inversion H; subst id.
  apply winner_in in Ew. pose proof Ew as Hreg.
  apply in_elem_reg in Ew. destruct Ew as (o & Hin & <- & Hs & Hv).
  apply slot_elem_of in Hs. destruct (visible_not_inc_del _ _ Hv) as [Hi Hd].
  pose proof (find_op_unique oops o ND Hin) as Hf.
  apply elem_at_split in Ea. destruct Ea as (pre & post & Ho & Hr).
  assert (Hn : ~ In e pre).
  { pose proof (elem_order_nodup oops ND) as N0. rewrite Ho in N0.
    apply NoDup_remove_2 in N0. intros Hp. apply N0. apply in_or_app. left. exact Hp. }
  assert (Hvis : elem_vis oops e = true).
  { unfold elem_vis. destruct (elem_reg oops e); [contradiction|reflexivity]. }
  assert (Hw : elem_width width_list oops e = 1).
  { unfold elem_width, width_list. destruct (elem_reg oops e); [contradiction|reflexivity]. }
  rewrite Hw in Hr.
  assert (Hidx : sumN (map (elem_width width_list oops) pre) = i) by lia.
  rewrite <- Hs in Ho, Hn, Hvis.
  destruct mode.
  - erewrite resolve_after_spec; eauto. rewrite Hidx. reflexivity.
  - erewrite resolve_before_visible; eauto. rewrite Hidx. reflexivity.
Qed.

(* non-vacuity: a three element list, the middle one deleted; a cursor on the deleted element *)
Example cursor_example :
  let a : actor := [1] in
  let l : opid := (1, a) in
  let oops := [ mkOp (2, a) l (KSeq head_id) true (APut (SInt 10)) [];
                mkOp (3, a) l (KSeq (2, a)) true (APut (SInt 20)) [];
                mkOp (4, a) l (KSeq (3, a)) true (APut (SInt 30)) [];
                mkOp (5, a) l (KSeq (3, a)) false ADel [(3, a)] ] in
  NoDup (map op_id oops) /\
  vis_elems oops = [(2, a); (4, a)] /\
  resolve width_list oops MoveAfter (3, a) = Ok 1 /\
  resolve width_list oops MoveBefore (3, a) = Ok 0 /\
  resolve width_list oops MoveAfter (4, a) = Ok 1 /\
  cursor_at width_list oops 1 = Some (4, a).
Proof.
  cbv zeta. split.
  - repeat constructor; cbn; intuition discriminate.
  - vm_compute. repeat split; reflexivity.
Qed.
