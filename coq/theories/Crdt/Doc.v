(* Crdt/Doc.v — change graph and causal queue.

   Mirrors [Automerge::apply_changes_batch_log_patches]
   (op_set2/change/batch.rs), [ChangeBatch::push], [ChangeQueue::{extend,
   has_actor_seq, pop_topo_sorted_ready}] (change_queue.rs),
   [Automerge::{has_actor_seq, seq_for_actor, missing_deps_from, get_heads}]
   and [ChangeGraph::seq_for_actor] (the number of applied changes of that
   actor).  The Kahn pass of the code and [release] below release the same set
   of changes; the order inside one batch is not modelled (no property
   promises more than "after its dependencies"). *)
From AM Require Import Base.Prelude Base.Order Crdt.Types.
Local Open Scope N_scope.

Record doc := mkDoc { applied : list change; queue : list change }.
Definition empty_doc : doc := mkDoc [] [].

Definition hashes (cs : list change) : list N := map ch_hash cs.
Definition has_hash (cs : list change) (h : N) : bool := existsb (fun c => ch_hash c =? h) cs.

Definition same_actor (a b : actor) : bool := nlist_eqb a b.

Definition seq_for_actor (cs : list change) (a : actor) : N :=
  N.of_nat (length (filter (fun c => same_actor (ch_actor c) a) cs)).

Definition has_actor_seq (cs : list change) (c : change) : bool :=
  existsb (fun c' => same_actor (ch_actor c') (ch_actor c) && (ch_seq c' =? ch_seq c)) cs.

(* [for c in changes { ... batch.push(c)? }] *)
Fixpoint batch_push (d : doc) (batch cs : list change) : res (list change) :=
  match cs with
  | [] => Ok batch
  | c :: t =>
    if ch_seq c <=? seq_for_actor (applied d) (ch_actor c) then Err     (* DuplicateSeqNumber *)
    else if has_actor_seq (queue d) c then Err
    else if has_hash batch (ch_hash c) then batch_push d batch t
    else if has_actor_seq batch c then Err
    else batch_push d (batch ++ [c]) t
  end.

Definition ready (appl : list change) (c : change) : bool := forallb (has_hash appl) (ch_deps c).

Fixpoint release (fuel : nat) (appl q : list change) : list change * list change :=
  match fuel with
  | O => (appl, q)
  | S f =>
    match filter (ready appl) q with
    | [] => (appl, q)
    | rdy => release f (appl ++ rdy) (filter (fun c => negb (ready appl c)) q)
    end
  end.

Definition receive (d : doc) (cs : list change) : res doc :=
  let fresh := filter (fun c => negb (has_hash (applied d) (ch_hash c) || has_hash (queue d) (ch_hash c))) cs in
  let* batch := batch_push d [] fresh in
  let q := queue d ++ batch in
  let (a', q') := release (S (length q)) (applied d) q in
  Ok (mkDoc a' q').

(* --- the state a FAILED call leaves behind.  The code is not transactional here: when an
   incoming change collides with an APPLIED (actor, seq) it first calls
   [queue.remove_actor_branch_from(actor, seq + 1)] and then returns the error (C06 finding).
   The other two error exits (collision with a queued change, collision inside the batch)
   return without touching anything. *)
Fixpoint first_applied_collision (d : doc) (batch cs : list change) : option change :=
  match cs with
  | [] => None
  | c :: t =>
    if ch_seq c <=? seq_for_actor (applied d) (ch_actor c) then Some c
    else if has_actor_seq (queue d) c then None
    else if has_hash batch (ch_hash c) then first_applied_collision d batch t
    else if has_actor_seq batch c then None
    else first_applied_collision d (batch ++ [c]) t
  end.

(* hashes of the queued changes removed by [remove_actor_branch_from]: the actor's changes with
   seq >= s and, transitively, every queued change depending on a removed one *)
Fixpoint branch_closure (fuel : nat) (q : list change) (removed : list N) : list N :=
  match fuel with
  | O => removed
  | S f =>
    let more := filter (fun c => negb (memb N.eqb (ch_hash c) removed)
                                 && existsb (fun h => memb N.eqb h removed) (ch_deps c)) q in
    match more with
    | [] => removed
    | _ => branch_closure f q (removed ++ hashes more)
    end
  end.

Definition remove_actor_branch_from (q : list change) (a : actor) (s : N) : list change :=
  let seed := hashes (filter (fun c => same_actor (ch_actor c) a && (s <=? ch_seq c)) q) in
  let removed := branch_closure (length q) q seed in
  filter (fun c => negb (memb N.eqb (ch_hash c) removed)) q.

Definition receive_err_state (d : doc) (cs : list change) : doc :=
  let fresh := filter (fun c => negb (has_hash (applied d) (ch_hash c) || has_hash (queue d) (ch_hash c))) cs in
  match first_applied_collision d [] fresh with
  | Some c => mkDoc (applied d) (remove_actor_branch_from (queue d) (ch_actor c) (ch_seq c + 1))
  | None => d
  end.

Definition sortN (l : list N) : list N := isort N.compare l.

Fixpoint dedupN (l : list N) : list N :=
  match l with
  | [] => []
  | x :: t => if memb N.eqb x t then dedupN t else x :: dedupN t
  end.

(* heads: applied changes no applied change depends on *)
Definition heads_of (appl : list change) : list N :=
  sortN (filter (fun h => negb (existsb (fun c => memb N.eqb h (ch_deps c)) appl)) (hashes appl)).

Definition missing_deps (d : doc) (hs : list N) : list N :=
  sortN (dedupN (filter (fun h => negb (has_hash (applied d) h || has_hash (queue d) h))
                        (flat_map ch_deps (queue d) ++ hs))).

(* ancestors of [want] among a topologically ordered applied list, in one backwards pass *)
Fixpoint anc_rev (rev_appl : list change) (want : list N) : list change :=
  match rev_appl with
  | [] => []
  | c :: t =>
    if memb N.eqb (ch_hash c) want then c :: anc_rev t (ch_deps c ++ want) else anc_rev t want
  end.

Definition ancestors (appl : list change) (hs : list N) : list change :=
  rev (anc_rev (rev appl) hs).

(* per-actor maximum op counter over a set of changes *)
Definition max_op (c : change) : N := ch_start c + N.of_nat (length (ch_ops c)) - 1.

Definition clock := list (actor * N).
Fixpoint clock_get (k : clock) (a : actor) : N :=
  match k with
  | [] => 0
  | (b, n) :: t => if same_actor a b then n else clock_get t a
  end.
Fixpoint clock_set (k : clock) (a : actor) (n : N) : clock :=
  match k with
  | [] => [(a, n)]
  | (b, m) :: t => if same_actor a b then (b, N.max m n) :: t else (b, m) :: clock_set t a n
  end.
Definition clock_of (cs : list change) : clock :=
  fold_left (fun k c => clock_set k (ch_actor c) (max_op c)) cs [].

Definition covered (k : clock) (id : opid) : bool := fst id <=? clock_get k (snd id).

(* [get_changes(have)]: applied changes that are not ancestors of [have], in applied order *)
Definition get_changes (appl : list change) (have : list N) : list change :=
  let anc := ancestors appl have in
  filter (fun c => negb (has_hash anc (ch_hash c))) appl.

Definition max_op_all (appl : list change) : N := fold_left (fun m c => N.max m (max_op c)) appl 0.
