(* Crdt/DocProofs.v — small facts about the change-graph reads of Crdt/Doc.v:
   what heads and missing dependencies are, as sets (C04, C05). *)
From AM Require Import Base.Prelude Base.Order Crdt.Types Crdt.Doc.
Local Open Scope N_scope.

Lemma memb_N_In x l : memb N.eqb x l = true <-> In x l.
Proof. apply memb_In. intros a b. apply N.eqb_eq. Qed.

Lemma has_hash_spec cs h : has_hash cs h = true <-> exists c, In c cs /\ ch_hash c = h.
Proof.
  unfold has_hash. rewrite existsb_exists. split; intros (c & Hc & E); exists c; split; auto;
    [apply N.eqb_eq, E|apply N.eqb_eq, E].
Qed.

Lemma sortN_In x l : In x (sortN l) <-> In x l.
Proof.
  unfold sortN. split; intros H.
  - eapply Permutation_in; [apply Permutation_sym, (isort_perm N.compare)|exact H].
  - eapply Permutation_in; [apply (isort_perm N.compare)|exact H].
Qed.

Lemma dedupN_In x l : In x (dedupN l) <-> In x l.
Proof.
  induction l as [|y t IH]; cbn; [tauto|].
  destruct (memb N.eqb y t) eqn:E.
  - rewrite IH. split; [auto|]. intros [->|H]; [apply memb_N_In, E|exact H].
  - cbn. rewrite IH. tauto.
Qed.

Lemma dedupN_NoDup l : NoDup (dedupN l).
Proof.
  induction l as [|y t IH]; cbn; [constructor|].
  destruct (memb N.eqb y t) eqn:E; [exact IH|].
  constructor; [|exact IH]. rewrite dedupN_In. intros H. apply memb_N_In in H. congruence.
Qed.

(* C04 / C05: the heads are exactly the applied changes no applied change depends on *)
Theorem heads_spec (appl : list change) (h : N) :
  In h (heads_of appl) <->
  (exists c, In c appl /\ ch_hash c = h) /\ (forall c, In c appl -> ~ In h (ch_deps c)).
Proof.
  unfold heads_of. rewrite sortN_In, filter_In, negb_true_iff. unfold hashes. rewrite in_map_iff.
  split.
  - intros [(c & E & Hc) Hn]. split; [exists c; auto|].
    intros c' Hc' Hin. rewrite <- not_true_iff_false in Hn. apply Hn.
    apply existsb_exists. exists c'. split; [exact Hc'|]. apply memb_N_In, Hin.
  - intros [(c & Hc & E) Hn]. split; [exists c; auto|].
    rewrite <- not_true_iff_false. intros H. apply existsb_exists in H. destruct H as (c' & Hc' & Hm).
    apply memb_N_In in Hm. exact (Hn c' Hc' Hm).
Qed.

(* C05: get_missing_deps reports exactly the hashes that are neither applied nor held and
   that a held change or one of the given heads needs *)
Theorem missing_deps_spec (d : doc) (hs : list N) (h : N) :
  In h (missing_deps d hs) <->
  has_hash (applied d) h = false /\ has_hash (queue d) h = false /\
  (In h hs \/ exists c, In c (queue d) /\ In h (ch_deps c)).
Proof.
  unfold missing_deps. rewrite sortN_In, dedupN_In, filter_In, negb_true_iff, orb_false_iff, in_app_iff, in_flat_map.
  split.
  - intros [[(c & Hc & Hd)|Hh] [Ha Hq]]; repeat split; auto. right. exists c. auto.
  - intros (Ha & Hq & [Hh|(c & Hc & Hd)]); split; auto. left. exists c. auto.
Qed.

Theorem missing_deps_sorted_nodup (d : doc) (hs : list N) : NoDup (missing_deps d hs).
Proof.
  unfold missing_deps, sortN. eapply Permutation_NoDup; [apply (isort_perm N.compare)|apply dedupN_NoDup].
Qed.
