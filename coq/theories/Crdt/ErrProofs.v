(* Crdt/ErrProofs.v — what a failed [apply_changes] leaves behind (C06). *)
From AM Require Import Base.Prelude Base.Order Crdt.Types Crdt.Doc.
Local Open Scope N_scope.

Lemma err_state_applied d cs : applied (receive_err_state d cs) = applied d.
Proof.
  unfold receive_err_state. destruct (first_applied_collision d [] _); reflexivity.
Qed.

Lemma err_state_queue_incl d cs : incl (queue (receive_err_state d cs)) (queue d).
Proof.
  unfold receive_err_state. destruct (first_applied_collision d [] _) as [c|]; cbn [queue].
  - unfold remove_actor_branch_from. intros x Hx. apply filter_In in Hx. tauto.
  - apply incl_refl.
Qed.

(* heads and every read depend on the applied changes only: a failed call never changes them *)
Theorem err_state_heads d cs : heads_of (applied (receive_err_state d cs)) = heads_of (applied d).
Proof. rewrite err_state_applied. reflexivity. Qed.

(* the two error exits that do not involve an applied (actor, seq) leave the document alone *)
Theorem err_state_unchanged d cs :
  first_applied_collision d []
    (filter (fun c => negb (has_hash (applied d) (ch_hash c) || has_hash (queue d) (ch_hash c))) cs) = None ->
  receive_err_state d cs = d.
Proof. unfold receive_err_state. intros ->. reflexivity. Qed.

(* The full property "a failed call leaves the pending queue unchanged" is FALSE of the
   faithful model, hence of the code (known finding, DESIGN.md §9-D1): a1, a2 applied, a
   legitimate a3 held back waiting for b1; a conflicting a2' arrives, the call fails, and a3
   is gone from the queue. *)
Module Witness.
  Definition A : actor := [1].
  Definition a1 := mkChange 101 A 1 1 [] [].
  Definition a2 := mkChange 102 A 2 2 [101] [].
  Definition a3 := mkChange 103 A 3 3 [102; 201] [].      (* needs b1 = 201, not delivered *)
  Definition a2' := mkChange 999 A 2 2 [101] [].
  Definition d0 : doc := mkDoc [a1; a2] [a3].
End Witness.

Theorem failed_call_can_drop_held_changes :
  exists d cs, receive d cs = Err /\ queue d <> [] /\ queue (receive_err_state d cs) = [].
Proof.
  exists Witness.d0, [Witness.a2']. vm_compute. repeat split; discriminate.
Qed.

(* the witness state is reachable: it is what delivering a1, a2, a3 produces *)
Example witness_reachable :
  (let* d1 := receive empty_doc [Witness.a1; Witness.a2] in receive d1 [Witness.a3]) = Ok Witness.d0.
Proof. vm_compute. reflexivity. Qed.
