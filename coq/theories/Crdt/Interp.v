(* Crdt/Interp.v — the op-based CRDT reading of an operation set (C02's
   "independent reading"): multi-value registers, visibility by successors,
   counters, RGA order.  Everything is computed from the op list sorted by id,
   so the result cannot depend on arrival order (C01). *)
From AM Require Import Base.Prelude Base.Order Crdt.Types.
Local Open Scope N_scope.

Inductive vobs := VS (s : scalar) | VC (z : Z) | VO (t : objtype).
Definition regobs := list (opid * vobs).       (* ascending id: the last one wins *)
Inductive entries :=
| EM (l : list (list N * regobs))              (* map / table: key-sorted, non-empty registers *)
| EL (l : list regobs).                        (* list / text: visible elements in document order *)
Record oobs := mkO { oo_id : opid; oo_type : objtype; oo_entries : entries }.
Definition obs := list oobs.

(* s names o as a predecessor *)
Definition names (s o : op) : bool := memb opid_eqb (op_id o) (op_pred s).
(* a successor hides its target unless it is an increment of a counter *)
Definition hides (o s : op) : bool := names s o && negb (is_inc s && is_counter o).

Definition visible (ops : list op) (o : op) : bool :=
  negb (is_inc o) && negb (is_del o) && negb (existsb (hides o) ops).

Definition counter_total (ops : list op) (o : op) (init : Z) : Z :=
  fold_left (fun acc s => if names s o && is_inc s then (acc + inc_value s)%Z else acc) ops init.

Definition vobs_of (ops : list op) (o : op) : option vobs :=
  match op_action o with
  | APut (SCounter z) => Some (VC (counter_total ops o z))
  | APut v => Some (VS v)
  | AMake t => Some (VO t)
  | _ => None
  end.

(* visible value-carrying ops of one object, each with the register it sits in *)
Definition vis_entry := (key * (opid * vobs))%type.
Definition vis_ops (ops : list op) : list vis_entry :=
  flat_map (fun o =>
    if visible ops o && negb (is_mark o) then
      match vobs_of ops o with Some v => [(slot o, (op_id o, v))] | None => [] end
    else []) ops.

Definition register (vis : list vis_entry) (k : key) : regobs :=
  flat_map (fun e => if key_eqb (fst e) k then [snd e] else []) vis.

(* --- sequences: RGA order without fuel.  Inserts are taken in ascending id;
   a new element is larger than everything placed so far, hence the first of
   its siblings: it goes immediately after its reference. *)
Definition ref_of (o : op) : opid := match op_key o with KSeq e => e | KMap _ => head_id end.

Fixpoint insert_after (r x : opid) (l : list opid) : list opid :=
  match l with
  | [] => [x]
  | y :: t => if opid_eqb y r then y :: x :: t else y :: insert_after r x t
  end.

Definition place (l : list opid) (o : op) : list opid :=
  if opid_eqb (ref_of o) head_id then op_id o :: l else insert_after (ref_of o) (op_id o) l.

Definition elem_order (ops : list op) : list opid :=
  fold_left place (filter op_insert ops) [].

(* --- maps *)
Definition map_keys (ops : list op) : list (list N) :=
  flat_map (fun o => match op_key o with KMap s => [s] | KSeq _ => [] end) ops.

Fixpoint dedup_sorted (l : list (list N)) : list (list N) :=
  match l with
  | [] => []
  | x :: t => match t with
              | [] => [x]
              | y :: _ => if nlist_eqb x y then dedup_sorted t else x :: dedup_sorted t
              end
  end.

Definition observe_obj (ops : list op) (id : opid) (t : objtype) : oobs :=
  let vis := vis_ops ops in
  if is_seq_type t then
    mkO id t (EL (flat_map (fun e => match register vis (KSeq e) with [] => [] | r => [r] end)
                           (elem_order ops)))
  else
    mkO id t (EM (flat_map (fun k => match register vis (KMap k) with [] => [] | r => [(k, r)] end)
                           (dedup_sorted (isort bytes_cmp (map_keys ops))))).

Definition objects (ops : list op) : list (opid * objtype) :=
  (root_id, OMap) :: flat_map (fun o => match make_type o with Some t => [(op_id o, t)] | None => [] end) ops.

Definition observe_sorted (ops : list op) : obs :=
  map (fun ot => observe_obj (filter (fun o => opid_eqb (op_obj o) (fst ot)) ops) (fst ot) (snd ot))
      (objects ops).

Definition observe (ops : list op) : obs := observe_sorted (isort op_cmp ops).

(* --- text *)
Definition winner (r : regobs) : option (opid * vobs) := last (map Some r) None.

Definition elem_text (r : regobs) : list N :=
  match winner r with
  | Some (_, VS (SStr s)) => s
  | _ => [65532]                               (* U+FFFC *)
  end.

Definition text_of (o : oobs) : list N :=
  match oo_entries o with EL l => flat_map elem_text l | EM _ => [] end.

(* --- equality of observations (boolean, for the correspondence check) *)
Definition vobs_eqb (a b : vobs) : bool :=
  match a, b with
  | VS x, VS y => scalar_eqb x y
  | VC x, VC y => Z.eqb x y
  | VO x, VO y => objtype_eqb x y
  | _, _ => false
  end.
Definition reg_eqb : regobs -> regobs -> bool :=
  list_eqb (fun a b => opid_eqb (fst a) (fst b) && vobs_eqb (snd a) (snd b)).
Definition entries_eqb (a b : entries) : bool :=
  match a, b with
  | EM x, EM y => list_eqb (fun p q => nlist_eqb (fst p) (fst q) && reg_eqb (snd p) (snd q)) x y
  | EL x, EL y => list_eqb reg_eqb x y
  | _, _ => false
  end.
Definition oobs_eqb (a b : oobs) : bool :=
  opid_eqb (oo_id a) (oo_id b) && objtype_eqb (oo_type a) (oo_type b) && entries_eqb (oo_entries a) (oo_entries b).
Definition obs_eqb : obs -> obs -> bool := list_eqb oobs_eqb.
