(* Crdt/InterpProofs.v — order independence of the interpretation (C01) and the
   characterisation of the reading the oracle implements (C02). *)
From AM Require Import Base.Prelude Base.Order Crdt.Types Crdt.Interp Crdt.Doc.
From Coq Require Import Sorting.Sorted.
Local Open Scope N_scope.

(* ---- C01: the state is a function of the SET of operations ---- *)

Theorem observe_perm (l1 l2 : list op) :
  NoDup (map op_id l1) -> Permutation l1 l2 -> observe l1 = observe l2.
Proof.
  intros ND P. unfold observe. f_equal.
  exact (kisort_perm_eq op_id opid_cmp opid_cmp_total l1 l2 ND P).
Qed.

Lemma existsb_perm {A} (f : A -> bool) l1 l2 : Permutation l1 l2 -> existsb f l1 = existsb f l2.
Proof.
  induction 1 as [|x l l' _ IH|x y l|l l' l'' _ IH1 _ IH2]; cbn.
  - reflexivity.
  - rewrite IH. reflexivity.
  - destruct (f x), (f y); reflexivity.
  - congruence.
Qed.

Lemma filter_perm {A} (f : A -> bool) l1 l2 : Permutation l1 l2 -> Permutation (filter f l1) (filter f l2).
Proof.
  induction 1 as [|x l l' _ IH|x y l|l l' l'' _ IH1 _ IH2]; cbn.
  - reflexivity.
  - destruct (f x); [apply perm_skip|]; exact IH.
  - destruct (f x), (f y); try reflexivity. apply perm_swap.
  - etransitivity; eauto.
Qed.

Lemma filter_ext_in' {A} (f g : A -> bool) l : (forall x, f x = g x) -> filter f l = filter g l.
Proof. intros H. induction l as [|x t IH]; cbn; [reflexivity|]. rewrite H, IH. reflexivity. Qed.

Theorem heads_perm (a1 a2 : list change) : Permutation a1 a2 -> heads_of a1 = heads_of a2.
Proof.
  intros P. unfold heads_of, sortN.
  apply (isort_perm_eq N.compare N_cmp_total).
  rewrite (filter_ext_in' _ (fun h => negb (existsb (fun c => memb N.eqb h (ch_deps c)) a2)) (hashes a1)).
  - apply filter_perm. unfold hashes. apply Permutation_map, P.
  - intros h. f_equal. apply existsb_perm, P.
Qed.

Definition ops_unique (cs : list change) : Prop := NoDup (map op_id (all_ops cs)).

Theorem same_changes_same_state (a1 a2 : list change) :
  ops_unique a1 -> Permutation a1 a2 ->
  heads_of a1 = heads_of a2 /\ observe (all_ops a1) = observe (all_ops a2).
Proof.
  intros U P. split; [apply heads_perm, P|].
  apply observe_perm; [exact U|]. unfold all_ops. apply Permutation_flat_map, P.
Qed.

(* ---- C02: what the reading is ---- *)

(* visibility: not an increment, not a delete, and every op naming it as a
   predecessor is an increment of a counter *)
Theorem visible_spec (ops : list op) (o : op) :
  visible ops o = true <->
  is_inc o = false /\ is_del o = false /\
  forall s, In s ops -> names s o = true -> is_inc s = true /\ is_counter o = true.
Proof.
  unfold visible. rewrite !andb_true_iff, !negb_true_iff. split.
  - intros [[Hi Hd] He]. split; [exact Hi|]. split; [exact Hd|].
    intros s Hs Hn.
    rewrite <- not_true_iff_false in He. rewrite existsb_exists in He.
    destruct (is_inc s) eqn:E1; destruct (is_counter o) eqn:E2; try (split; reflexivity);
      exfalso; apply He; exists s; (split; [exact Hs|]);
      unfold hides; rewrite Hn, E1, E2; reflexivity.
  - intros (Hi & Hd & H). repeat split; auto.
    rewrite <- not_true_iff_false, existsb_exists. intros (s & Hs & Hh).
    unfold hides in Hh. apply andb_true_iff in Hh. destruct Hh as [Hn Hh].
    destruct (H s Hs Hn) as [E1 E2]. rewrite E1, E2 in Hh. discriminate.
Qed.

(* a counter reads as its initial value plus every increment naming it *)
Definition incs_of (ops : list op) (o : op) : list Z :=
  map inc_value (filter (fun s => names s o && is_inc s) ops).

Lemma fold_add_acc l : forall a, fold_left Z.add l a = (a + fold_left Z.add l 0)%Z.
Proof.
  induction l as [|x t IH]; intros a; cbn; [lia|]. rewrite IH, (IH x). lia.
Qed.

Theorem counter_total_spec (ops : list op) (o : op) (init : Z) :
  counter_total ops o init = (init + fold_left Z.add (incs_of ops o) 0)%Z.
Proof.
  unfold counter_total, incs_of. revert init.
  induction ops as [|s t IH]; intros init; cbn; [lia|].
  destruct (names s o && is_inc s); cbn.
  - rewrite IH. rewrite (fold_add_acc _ (inc_value s)). lia.
  - apply IH.
Qed.

(* registers list their values in ascending id when the ops are sorted by id, so
   the winner (the last entry) carries the greatest id *)
Lemma register_ids_sub (vis : list vis_entry) (k : key) :
  map fst (register vis k) = map (fun e => fst (snd e)) (filter (fun e => key_eqb (fst e) k) vis).
Proof.
  unfold register. induction vis as [|e t IH]; cbn; [reflexivity|].
  destruct (key_eqb (fst e) k); cbn; rewrite IH; reflexivity.
Qed.

Lemma vis_ops_ids (ops : list op) :
  exists f, map (fun e => fst (snd e)) (vis_ops ops) = map op_id (filter f ops).
Proof.
  exists (fun o => visible ops o && negb (is_mark o) && match vobs_of ops o with Some _ => true | None => false end).
  unfold vis_ops.
  assert (G : forall ctx l,
    map (fun e : vis_entry => fst (snd e))
      (flat_map (fun o => if visible ctx o && negb (is_mark o) then
                   match vobs_of ctx o with Some v => [(slot o, (op_id o, v))] | None => [] end
                 else []) l)
    = map op_id (filter (fun o => visible ctx o && negb (is_mark o) &&
                           match vobs_of ctx o with Some _ => true | None => false end) l)).
  { intros ctx l. induction l as [|o t IH]; cbn; [reflexivity|].
    destruct (visible ctx o && negb (is_mark o)); cbn; [|apply IH].
    destruct (vobs_of ctx o); cbn; rewrite IH; reflexivity. }
  apply G.
Qed.

Lemma sorted_filter {A} (R : A -> A -> Prop) (f : A -> bool) l :
  StronglySorted R l -> StronglySorted R (filter f l).
Proof.
  induction 1 as [|x l _ IH Hx]; cbn; [constructor|].
  destruct (f x); [|exact IH]. constructor; [exact IH|].
  rewrite Forall_forall in *. intros y Hy. apply filter_In in Hy. apply Hx, Hy.
Qed.

Lemma sorted_map {A B} (R : B -> B -> Prop) (g : A -> B) l :
  StronglySorted (fun a b => R (g a) (g b)) l -> StronglySorted R (map g l).
Proof.
  induction 1 as [|x l _ IH Hx]; cbn; constructor; [exact IH|].
  rewrite Forall_forall in *. intros y Hy. apply in_map_iff in Hy. destruct Hy as (z & <- & Hz). auto.
Qed.

Theorem register_ascending (ops : list op) (k : key) :
  StronglySorted (le opid_cmp) (map fst (register (vis_ops (isort op_cmp ops)) k)).
Proof.
  rewrite register_ids_sub.
  pose proof (kisort_sorted op_id opid_cmp opid_cmp_total ops) as S.
  change (isort (kcmp op_id opid_cmp) ops) with (isort op_cmp ops) in S.
  set (so := isort op_cmp ops) in *.
  destruct (vis_ops_ids so) as [f Hf].
  (* the filtered vis list is a sub-list of vis_ops; its ids are a filtered sub-list of sorted ids *)
  assert (G : forall (vis : list vis_entry) g,
             StronglySorted (le opid_cmp) (map (fun e => fst (snd e)) vis) ->
             StronglySorted (le opid_cmp) (map (fun e => fst (snd e)) (filter g vis))).
  { intros vis g. induction vis as [|e t IH]; cbn; intros H; [constructor|].
    inversion H as [|? ? Ht He]; subst. destruct (g e); cbn.
    - constructor; [apply IH, Ht|]. rewrite Forall_forall in *. intros y Hy.
      apply in_map_iff in Hy. destruct Hy as (z & <- & Hz). apply filter_In in Hz.
      apply He. apply in_map_iff. exists z. tauto.
    - apply IH, Ht. }
  apply G. rewrite Hf. apply sorted_map. apply sorted_filter. exact S.
Qed.

(* non-vacuity: a conflicted register with a counter and an overwrite *)
Example interp_example :
  let a : actor := [1] in let b : actor := [2] in
  let ops := [ mkOp (1, a) root_id (KMap [120]) false (APut (SCounter 5)) [];
               mkOp (2, b) root_id (KMap [120]) false (AInc 3) [(1, a)];
               mkOp (2, a) root_id (KMap [120]) false (APut (SInt 7)) [];
               mkOp (3, b) root_id (KMap [121]) false (APut (SInt 1)) [];
               mkOp (4, b) root_id (KMap [121]) false ADel [(3, b)] ] in
  observe ops =
    [mkO root_id OMap (EM [([120], [((1, a), VC 8); ((2, a), VS (SInt 7))])])].
Proof. vm_compute. reflexivity. Qed.
