(* Crdt/Local.v — local edits: what one editing call of a transaction appends to the op set.

   Mirrors rust/automerge/src/transaction/inner.rs [TransactionInner]:
     next_id, put, put_object, insert, insert_object, do_insert, local_op, local_map_op,
     local_list_op, increment, delete, splice, splice_text, inner_splice, BatchInsertion::splice_text,
   and of op_set2/op_set.rs: seek_ops_by_map_key, seek_ops_by_index (list and text), query_insert_at
   (query_insert_at_list / query_insert_at_text / InsertQuery::resolve for a document WITHOUT marks),
   OpsFound::resolve_action, and the value comparison [impl PartialEq<types::ScalarValue> for ScalarValue]
   of op_set2/types.rs.  Text widths: TextEncoding::width (types.rs) for code points, UTF-8, UTF-16.

   Not modelled (the family restricts the calls it sends through the model accordingly):
   marks / unmark and the sticky-mark anchor scan, split_block / join_block / replace_block,
   transactions isolated at older heads (scope = Some clock), nested hydrate values in splice,
   the GraphemeCluster encoding.

   State: the ops the transaction sees (document ops ++ pending ops, kept ascending by id — a new op
   carries the greatest id, so appending keeps the order), actor and start_op.
   No proofs here (Crdt/LocalProofs.v). *)
From AM Require Import Base.Prelude Base.Order Crdt.Types Crdt.Interp.
Local Open Scope N_scope.

(* ---- text encodings (types.rs TextEncoding::width) ---- *)
Inductive enc := EncCP | EncU8 | EncU16.

Definition cp_width (e : enc) (c : N) : N :=
  match e with
  | EncCP => 1
  | EncU8 => if c <? 128 then 1 else if c <? 2048 then 2 else if c <? 65536 then 3 else 4
  | EncU16 => if c <? 65536 then 1 else 2
  end.

Fixpoint str_width (e : enc) (s : list N) : N :=
  match s with [] => 0 | c :: t => cp_width e c + str_width e t end.

(* ---- errors (AutomergeError classes) ---- *)
Inductive eerr := EInvalidObj | EInvalidOp | EInvalidIndex | EMissingCounter | EInvalidValue.
Inductive eres (A : Type) : Type := EOk (a : A) | EErr (e : eerr) | EPanic.
Arguments EOk {A} a.
Arguments EErr {A} e.
Arguments EPanic {A}.

Definition ebind {A B} (r : eres A) (f : A -> eres B) : eres B :=
  match r with EOk a => f a | EErr e => EErr e | EPanic => EPanic end.

(* ---- transaction state ---- *)
Record tx := mkTx { tx_base : list op; tx_pending : list op; tx_actor : actor; tx_start : N }.

Definition tx_all (t : tx) : list op := tx_base t ++ tx_pending t.
(* TransactionInner::next_id *)
Definition next_id (t : tx) : opid := (tx_start t + N.of_nat (length (tx_pending t)), tx_actor t).
Definition push (t : tx) (o : op) : tx :=
  mkTx (tx_base t) (tx_pending t ++ [o]) (tx_actor t) (tx_start t).

(* ---- reads the calls perform (at the transaction's own view: document + pending) ---- *)
Definition obj_ops (ops : list op) (obj : opid) : list op :=
  filter (fun o => opid_eqb (op_obj o) obj) ops.

(* the visible ops of one register, ascending id: (id, value) — what seek_ops_by_map_key /
   seek_ops_by_index collect in OpsFound::ops *)
Definition reg_at (ops : list op) (obj : opid) (k : key) : regobs :=
  register (vis_ops (obj_ops ops obj)) k.

(* visible elements of a sequence in document order, each with its register *)
Definition seq_elems (ops : list op) (obj : opid) : list (opid * regobs) :=
  flat_map (fun e => match reg_at ops obj (KSeq e) with [] => [] | r => [(e, r)] end)
           (elem_order (obj_ops ops obj)).

(* Automerge::exid_to_obj: the root, or the id of a make op *)
Definition lookup_type (ops : list op) (obj : opid) : option objtype :=
  match find (fun ot => opid_eqb (fst ot) obj) (objects ops) with
  | Some ot => Some (snd ot)
  | None => None
  end.

(* OpBuilder::width: 1 in a list; in a text the width of the winning value's string *)
Definition elem_w (e : enc) (t : objtype) (r : regobs) : N :=
  match t with OText => str_width e (elem_text r) | _ => 1 end.

(* Automerge::length_for of a sequence: the sum of the element widths *)
Definition seq_width (e : enc) (t : objtype) (els : list (opid * regobs)) : N :=
  fold_right (fun er s => elem_w e t (snd er) + s) 0 els.

(* seek_ops_by_index: the first visible element whose span [start, start+width) contains [index];
   returns element, register, start, width and the number of visible elements before it *)
Fixpoint seek (w : regobs -> N) (els : list (opid * regobs)) (index acc : N) (p : nat)
  : option (opid * regobs * N * N * nat) :=
  match els with
  | [] => None
  | (e, r) :: t => if index <? acc + w r then Some (e, r, acc, w r, p) else seek w t index (acc + w r) (S p)
  end.

(* ---- OpsFound::resolve_action ---- *)
Definition f64_nan (b : N) : bool := 9218868437227405312 <? b mod 9223372036854775808.
Definition f64_zero (b : N) : bool := b mod 9223372036854775808 =? 0.
Definition f64_eq (a b : N) : bool :=
  negb (f64_nan a) && negb (f64_nan b) && ((a =? b) || (f64_zero a && f64_zero b)).

(* [&op.value == v] for the winning visible op (a counter compares by its current total) *)
Definition same_value (w : vobs) (v : scalar) : bool :=
  match w, v with
  | VC z, SCounter z' => Z.eqb z z'
  | VS (SF64 a), SF64 b => f64_eq a b
  | VS (SCounter _), _ => false
  | VS a, b => scalar_eqb a b
  | _, _ => false
  end.

Definition is_vc (e : opid * vobs) : bool := match snd e with VC _ => true | _ => false end.
Definition is_inc_action (a : action) : bool := match a with AInc _ => true | _ => false end.

(* None: nothing to do.  Some (action, ops to supersede) *)
Definition resolve_action (r : regobs) (a : action) : option (action * regobs) :=
  match winner r with
  | Some (_, w) =>
    match a with
    | APut v => if same_value w v
                then (if (length r =? 1)%nat then None else Some (ADel, removelast r))
                else Some (a, r)
    | _ => Some (a, r)
    end
  | None => match a with ADel => None | _ => Some (a, r) end
  end.

(* the common tail of local_map_op / local_list_op: resolve, MissingCounter check, build the op *)
Definition update_op (t : tx) (obj : opid) (k : key) (r : regobs) (a : action) : eres (tx * option opid) :=
  match resolve_action r a with
  | None => EOk (t, None)
  | Some (a', r') =>
    if is_inc_action a' && negb (existsb is_vc r') then EErr EMissingCounter
    else let id := next_id t in
         EOk (push t (mkOp id obj k false a' (map fst r')), Some id)
  end.

Definition local_map_op (t : tx) (obj : opid) (k : list N) (a : action) : eres (tx * option opid) :=
  update_op t obj (KMap k) (reg_at (tx_all t) obj (KMap k)) a.

Definition local_list_op (e : enc) (t : tx) (obj : opid) (ty : objtype) (i : N) (a : action)
  : eres (tx * option opid) :=
  if negb (is_seq_type ty) then EErr EInvalidOp
  else match seek (elem_w e ty) (seq_elems (tx_all t) obj) i 0 0 with
       | None => EErr EInvalidIndex
       | Some (el, r, _, _, _) => update_op t obj (KSeq el) r a
       end.

Inductive prop := PMap (k : list N) | PSeq (i : N).

Definition local_op (e : enc) (t : tx) (obj : opid) (ty : objtype) (p : prop) (a : action) :=
  match p with
  | PMap k => local_map_op t obj k a
  | PSeq i => local_list_op e t obj ty i a
  end.

(* ---- query_insert_at (no marks): reference element and the index the insert lands at ---- *)
Definition query_insert (e : enc) (ty : objtype) (ops : list op) (obj : opid) (index : N)
  : option (opid * N * nat) :=
  if index =? 0 then Some (head_id, 0, O)
  else match seek (elem_w e ty) (seq_elems ops obj) (index - 1) 0 0 with
       | Some (el, _, s, w, p) => Some (el, s + w, S p)
       | None => None
       end.

Definition do_insert (e : enc) (t : tx) (obj : opid) (ty : objtype) (index : N) (a : action)
  : eres (tx * option opid) :=
  match query_insert e ty (tx_all t) obj index with
  | None => EErr EInvalidIndex
  | Some (ref, _, _) =>
    let id := next_id t in EOk (push t (mkOp id obj (KSeq ref) true a []), Some id)
  end.

(* a run of inserts, each after the previous one (BatchInsertion) *)
Fixpoint insert_chain (t : tx) (obj ref : opid) (acts : list action) : tx :=
  match acts with
  | [] => t
  | a :: rest => let id := next_id t in
                 insert_chain (push t (mkOp id obj (KSeq ref) true a [])) obj id rest
  end.

(* the delete loop of inner_splice.  Fuel: every round deletes a visible element or moves the
   cursor to the next element boundary (then the next round deletes or stops), so
   2 * (number of visible elements) + 2 rounds always suffice; running out is reported as EPanic. *)
Fixpoint del_loop (fuel : nat) (e : enc) (t : tx) (obj : opid) (ty : objtype) (di deleted del : N) : eres tx :=
  match fuel with
  | O => EPanic
  | S f =>
    if deleted <? del then
      match seek (elem_w e ty) (seq_elems (tx_all t) obj) di 0 0 with
      | None => EOk t
      | Some (el, r, s, w, _) =>
        if s <? di then del_loop f e t obj ty (s + w) deleted del
        else del_loop f e (push t (mkOp (next_id t) obj (KSeq el) false ADel (map fst r))) obj ty di (deleted + w) del
      end
    else EOk t
  end.

Definition act_width (e : enc) (ty : objtype) (a : action) : N :=
  match ty with
  | OText => match a with APut (SStr s) => str_width e s | AMarkBegin _ _ _ | AMarkEnd _ => 0 | _ => str_width e [65532] end
  | _ => 1
  end.

Definition inner_splice (e : enc) (t : tx) (obj : opid) (ty : objtype) (index : N) (del : Z) (acts : list action)
  : eres tx :=
  match (if (del <? 0)%Z
         then (if (0 <=? Z.of_N index + del)%Z then Some (Z.to_N (Z.of_N index + del), Z.to_N (- del)) else None)
         else Some (index, Z.to_N del)) with
  | None => EErr EInvalidIndex
  | Some (index, del) =>
    match (match acts with
           | [] => Some (t, index, 0)
           | _ => match query_insert e ty (tx_all t) obj index with
                  | None => None
                  | Some (ref, index', _) =>
                    Some (insert_chain t obj ref acts, index', fold_right (fun a s => act_width e ty a + s) 0 acts)
                  end
           end) with
    | None => EErr EInvalidIndex
    | Some (t1, index1, iw) =>
      del_loop (2 * length (seq_elems (tx_all t1) obj) + 2) e t1 obj ty (index1 + iw) 0 del
    end
  end.

(* ---- the calls ---- *)
Inductive call :=
| CPut (obj : opid) (p : prop) (v : scalar)
| CPutObj (obj : opid) (p : prop) (ty : objtype)
| CInsert (obj : opid) (i : N) (v : scalar)
| CInsertObj (obj : opid) (i : N) (ty : objtype)
| CDelete (obj : opid) (p : prop)
| CInc (obj : opid) (p : prop) (by_ : Z)
| CSplice (obj : opid) (i : N) (del : Z) (vs : list scalar)
| CSpliceText (obj : opid) (i : N) (del : Z) (s : list N).

Definition with_obj {A} (t : tx) (obj : opid) (f : objtype -> eres A) : eres A :=
  match lookup_type (tx_all t) obj with
  | None => EErr EInvalidObj
  | Some ty => f ty
  end.

Definition drop_id {A B} (r : eres (A * B)) : eres A := ebind r (fun x => EOk (fst x)).

(* values_to_splice_text *)
Fixpoint splice_text_of (vs : list scalar) : option (list N) :=
  match vs with
  | [] => Some []
  | SStr s :: t => match splice_text_of t with Some r => Some (s ++ r) | None => None end
  | _ => None
  end.

Definition char_acts (s : list N) : list action := map (fun c => APut (SStr [c])) s.

Definition step (e : enc) (t : tx) (c : call) : eres tx :=
  match c with
  | CPut obj p v =>
    with_obj t obj (fun ty =>
      match p, ty with
      | PMap _, OMap | PSeq _, OList | PSeq _, OText => drop_id (local_op e t obj ty p (APut v))
      | _, _ => EErr EInvalidOp
      end)
  | CPutObj obj p nt =>
    with_obj t obj (fun ty =>
      match p, ty with
      | PMap _, OMap | PSeq _, OList => drop_id (local_op e t obj ty p (AMake nt))
      | _, _ => EErr EInvalidOp
      end)
  | CInsert obj i v =>
    with_obj t obj (fun ty =>
      if is_seq_type ty then drop_id (do_insert e t obj ty i (APut v)) else EErr EInvalidOp)
  | CInsertObj obj i nt =>
    with_obj t obj (fun ty =>
      if is_seq_type ty then drop_id (do_insert e t obj ty i (AMake nt)) else EErr EInvalidOp)
  | CInc obj p z =>
    with_obj t obj (fun ty => drop_id (local_op e t obj ty p (AInc z)))
  | CDelete obj p =>
    (* a key addresses a map, an index a sequence (as put checks); on a text there must be something at the
       index (length_for), then delete is inner_splice(del = 1) *)
    with_obj t obj (fun ty =>
      match p, ty with
      | PMap _, OMap | PMap _, OTable | PSeq _, OList => drop_id (local_op e t obj ty p ADel)
      | PSeq i, OText =>
        if seq_width e OText (seq_elems (tx_all t) obj) <=? i then EErr EInvalidIndex
        else inner_splice e t obj OText i 1 []
      | _, _ => EErr EInvalidOp
      end)
  | CSplice obj i del vs =>
    with_obj t obj (fun ty =>
      match ty with
      | OList => inner_splice e t obj OList i del (map APut vs)
      | OText => match splice_text_of vs with
                 | Some s => inner_splice e t obj OText i del (char_acts s)
                 | None => EErr EInvalidValue
                 end
      | _ => EErr EInvalidOp
      end)
  | CSpliceText obj i del s =>
    with_obj t obj (fun ty =>
      match ty with
      | OText => inner_splice e t obj OText i del (char_acts s)
      | _ => EErr EInvalidOp
      end)
  end.

(* a call as the caller sees it: a failed call leaves the transaction as it was *)
Definition status := option eerr.    (* None = Ok *)
Definition apply_call (e : enc) (t : tx) (c : call) : eres (tx * status) :=
  match step e t c with
  | EOk t' => EOk (t', None)
  | EErr x => EOk (t, Some x)
  | EPanic => EPanic
  end.

(* ---- well-formedness of the op set a transaction starts from (decidable; the family checks it
   on every generated history): ids strictly ascending, and every counter mentioned anywhere (op id,
   object, reference element, predecessors) is below the transaction's next counter — what
   start_op = max_op + 1 gives. ---- *)
Definition key_ctr (k : key) : N := match k with KMap _ => 0 | KSeq e => fst e end.
Definition op_below (c : N) (o : op) : bool :=
  (fst (op_id o) <? c) && (fst (op_obj o) <? c) && (key_ctr (op_key o) <? c)
  && forallb (fun p => fst p <? c) (op_pred o).
Definition id_lt (a b : op) : bool := opid_ltb (op_id a) (op_id b).
Fixpoint ssorted_b (l : list op) : bool :=
  match l with [] => true | x :: t => forallb (id_lt x) t && ssorted_b t end.
Definition next_ctr (t : tx) : N := tx_start t + N.of_nat (length (tx_pending t)).
Definition wf_tx_b (t : tx) : bool :=
  ssorted_b (tx_all t) && forallb (op_below (next_ctr t)) (tx_all t) && (0 <? tx_start t)
  && forallb (fun o => 0 <? fst (op_id o)) (tx_all t).   (* (0, _) is the root / list head, never an op *)

(* the document as a list of ops ascending by id, and the start_op the next transaction gets
   (transaction_args: max_op + 1) *)
Definition max_ctr (ops : list op) : N := fold_left (fun m o => N.max m (fst (op_id o))) ops 0.
Definition begin_tx (ops : list op) (a : actor) : tx :=
  mkTx (isort op_cmp ops) [] a (max_ctr ops + 1).
