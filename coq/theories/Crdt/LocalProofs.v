(* Crdt/LocalProofs.v — proofs about the local-edit model (Crdt/Local.v): what each editing call
   does to the observation ([observe] of Crdt/Interp.v), for any well-formed op set. *)
From AM Require Import Base.Prelude Base.Order Crdt.Types Crdt.Interp Crdt.InterpProofs Crdt.Local.
From Coq Require Import Sorting.Sorted.
Local Open Scope N_scope.

(* ---- failed calls ---- *)
Lemma apply_call_error_unchanged e t c t' x :
  apply_call e t c = EOk (t', Some x) -> t' = t.
Proof.
  unfold apply_call. destruct (step e t c); intros H; inversion H; reflexivity.
Qed.

Lemma step_error_no_op e t c x : step e t c = EErr x -> apply_call e t c = EOk (t, Some x).
Proof. unfold apply_call. intros ->. reflexivity. Qed.

(* ================= well-formedness ================= *)
Definition id_lt_p (a b : op) : Prop := opid_cmp (op_id a) (op_id b) = Lt.
Definition ssorted (l : list op) : Prop := StronglySorted id_lt_p l.
Definition wf_tx (t : tx) : Prop := wf_tx_b t = true.

Lemma ssorted_b_spec l : ssorted_b l = true <-> ssorted l.
Proof.
  unfold ssorted. induction l as [|x t IH]; cbn [ssorted_b].
  - split; [constructor|reflexivity].
  - rewrite andb_true_iff, IH, forallb_forall. split.
    + intros [H1 H2]. constructor; [exact H2|]. rewrite Forall_forall. intros y Hy.
      specialize (H1 y Hy). unfold id_lt, opid_ltb, ltb in H1. unfold id_lt_p.
      destruct (opid_cmp (op_id x) (op_id y)); congruence.
    + intros H. inversion H as [|? ? Ht Hx]; subst. split; [|exact Ht].
      rewrite Forall_forall in Hx. intros y Hy. specialize (Hx y Hy). unfold id_lt_p in Hx.
      unfold id_lt, opid_ltb, ltb. rewrite Hx. reflexivity.
Qed.

Lemma ssorted_nodup l : ssorted l -> NoDup (map op_id l).
Proof.
  induction 1 as [|x t _ IH Hx]; cbn; constructor; [|exact IH].
  intros Hin. apply in_map_iff in Hin. destruct Hin as (y & Hy & Hin).
  rewrite Forall_forall in Hx. specialize (Hx y Hin). unfold id_lt_p in Hx.
  rewrite <- Hy in Hx. rewrite (cmp_refl opid_cmp opid_cmp_total) in Hx. discriminate.
Qed.

Lemma ssorted_ksorted l : ssorted l -> ksorted op_id opid_cmp l.
Proof.
  unfold ssorted, ksorted. induction 1 as [|x t _ IH Hx]; constructor; [exact IH|].
  eapply Forall_impl; [|exact Hx]. intros y Hy. unfold kle, le. unfold id_lt_p in Hy. congruence.
Qed.

Lemma isort_sorted_id l : ssorted l -> isort op_cmp l = l.
Proof.
  intros S. change op_cmp with (kcmp op_id opid_cmp).
  apply (ksorted_perm_unique op_id opid_cmp opid_cmp_total).
  - eapply Permutation_NoDup; [|apply ssorted_nodup, S]. apply Permutation_map, kisort_perm.
  - apply kisort_sorted, opid_cmp_total.
  - apply ssorted_ksorted, S.
  - apply Permutation_sym, kisort_perm.
Qed.

Lemma observe_sorted_eq l : ssorted l -> observe l = observe_sorted l.
Proof. intros S. unfold observe. rewrite isort_sorted_id; auto. Qed.

(* counters: a new id with a counter >= c is above every id of a set below c *)
Lemma ssorted_snoc l n c :
  ssorted l -> Forall (fun o => op_below c o = true) l -> c <= fst (op_id n) -> ssorted (l ++ [n]).
Proof.
  unfold ssorted. intros S B Hc. induction S as [|x t St IH Hx]; cbn.
  - constructor; constructor.
  - inversion B as [|? ? Bx Bt]; subst. constructor; [apply IH, Bt|].
    apply Forall_app. split; [exact Hx|]. constructor; [|constructor].
    unfold id_lt_p, opid_cmp. unfold op_below in Bx. rewrite !andb_true_iff in Bx.
    destruct Bx as [[[B1 _] _] _]. apply N.ltb_lt in B1.
    assert (E : (fst (op_id x) ?= fst (op_id n)) = Lt) by (apply N.compare_lt_iff; lia).
    rewrite E. reflexivity.
Qed.

(* ================= appending one fresh op ================= *)
Record fresh (ops : list op) (n : op) : Prop := {
  fr_id : forall o, In o ops -> op_id o <> op_id n;
  fr_named : forall o, In o ops -> ~ In (op_id n) (op_pred o);
  fr_self : ~ In (op_id n) (op_pred n);
  fr_key : forall o, In o ops -> op_key o <> KSeq (op_id n);
  fr_obj : forall o, In o ops -> op_obj o <> op_id n }.

Lemma fresh_incl ops ops' n : incl ops' ops -> fresh ops n -> fresh ops' n.
Proof. intros I [A B C D E]. split; auto. Qed.

Lemma memb_opid_In x l : memb opid_eqb x l = true <-> In x l.
Proof. apply memb_In. intros; apply opid_eqb_spec. Qed.

Lemma memb_opid_false x l : ~ In x l -> memb opid_eqb x l = false.
Proof. intros H. destruct (memb opid_eqb x l) eqn:E; [|reflexivity]. apply memb_opid_In in E. tauto. Qed.

(* the entry one op contributes, in the context of an op list *)
Definition entry_of (ctx : list op) (o : op) : list vis_entry :=
  if visible ctx o && negb (is_mark o) then
    match vobs_of ctx o with Some v => [(slot o, (op_id o, v))] | None => [] end
  else [].

Lemma vis_ops_entry ops : vis_ops ops = flat_map (entry_of ops) ops.
Proof. reflexivity. Qed.

(* what a new op [n] does to an existing entry *)
Definition updv (n : op) (iw : opid * vobs) : list (opid * vobs) :=
  if memb opid_eqb (fst iw) (op_pred n) then
    (if is_inc n then match snd iw with VC z => [(fst iw, VC (z + inc_value n)%Z)] | _ => [] end else [])
  else [iw].
Definition upd (n : op) (en : vis_entry) : list vis_entry := map (fun x => (fst en, x)) (updv n (snd en)).

Lemma visible_snoc ctx n o : visible (ctx ++ [n]) o = visible ctx o && negb (hides o n).
Proof.
  unfold visible. rewrite existsb_app. cbn [existsb]. rewrite orb_false_r, negb_orb.
  destruct (is_inc o), (is_del o), (existsb (hides o) ctx), (hides o n); reflexivity.
Qed.

Lemma counter_total_snoc ctx n o z :
  counter_total (ctx ++ [n]) o z =
  if names n o && is_inc n then (counter_total ctx o z + inc_value n)%Z else counter_total ctx o z.
Proof. unfold counter_total. rewrite fold_left_app. cbn [fold_left]. reflexivity. Qed.

Lemma entry_of_snoc ctx n o : entry_of (ctx ++ [n]) o = flat_map (upd n) (entry_of ctx o).
Proof.
  unfold entry_of. rewrite visible_snoc.
  destruct (visible ctx o) eqn:V; cbn [andb]; [|reflexivity].
  destruct (is_mark o) eqn:M; cbn [negb andb]; [rewrite andb_false_r; reflexivity|].
  rewrite andb_true_r.
  unfold hides, upd, updv, names. cbn [fst snd].
  destruct (memb opid_eqb (op_id o) (op_pred n)) eqn:Nm; cbn [andb negb].
  - (* named by n *)
    unfold vobs_of, is_counter. destruct (op_action o) as [v| | | | |] eqn:A.
    all: try destruct v.
    all: cbn [flat_map app map fst snd]; rewrite ?Nm; rewrite ?counter_total_snoc; unfold names;
      rewrite ?Nm; destruct (is_inc n); cbn; reflexivity.
  - (* not named *)
    assert (E : vobs_of (ctx ++ [n]) o = vobs_of ctx o).
    { unfold vobs_of. destruct (op_action o) as [v| | | | |]; try reflexivity.
      destruct v; try reflexivity. rewrite counter_total_snoc. unfold names. rewrite Nm. reflexivity. }
    rewrite E. destruct (vobs_of ctx o); cbn [flat_map app map fst snd]; rewrite ?Nm; reflexivity.
Qed.

(* the entry of the new op itself *)
Definition own (n : op) : list vis_entry :=
  match op_action n with
  | APut (SCounter z) => [(slot n, (op_id n, VC z))]
  | APut v => [(slot n, (op_id n, VS v))]
  | AMake t => [(slot n, (op_id n, VO t))]
  | _ => []
  end.

Lemma existsb_false {A} (f : A -> bool) l : (forall x, In x l -> f x = false) -> existsb f l = false.
Proof.
  intros H. induction l as [|x t IH]; cbn; [reflexivity|].
  rewrite H by (left; reflexivity). apply IH. intros y Hy. apply H. right. exact Hy.
Qed.

Lemma counter_total_unnamed ops o z :
  (forall s, In s ops -> names s o = false) -> counter_total ops o z = z.
Proof.
  unfold counter_total. revert z. induction ops as [|s t IH]; intros z H; cbn; [reflexivity|].
  rewrite H by (left; reflexivity). cbn. apply IH. intros s' Hs. apply H. right. exact Hs.
Qed.

Lemma entry_of_own ops n : fresh ops n -> entry_of (ops ++ [n]) n = own n.
Proof.
  intros F. unfold entry_of, own.
  assert (Nn : forall s, In s (ops ++ [n]) -> names s n = false).
  { intros s Hs. unfold names. apply memb_opid_false. apply in_app_or in Hs. destruct Hs as [Hs|[<-|[]]].
    - apply (fr_named _ _ F), Hs.
    - apply (fr_self _ _ F). }
  assert (V : existsb (hides n) (ops ++ [n]) = false).
  { apply existsb_false. intros s Hs. unfold hides. rewrite Nn by exact Hs. reflexivity. }
  unfold visible. rewrite V. unfold vobs_of, is_inc, is_del, is_mark.
  destruct (op_action n) as [v| | | | |]; cbn; try reflexivity.
  destruct v; try reflexivity. rewrite counter_total_unnamed by exact Nn. reflexivity.
Qed.

Lemma flat_map_flat_map {A B C} (f : A -> list B) (g : B -> list C) l :
  flat_map g (flat_map f l) = flat_map (fun x => flat_map g (f x)) l.
Proof. induction l as [|x t IH]; cbn; [reflexivity|]. rewrite flat_map_app, IH. reflexivity. Qed.

Lemma flat_map_ext' {A B} (f g : A -> list B) l : (forall x, f x = g x) -> flat_map f l = flat_map g l.
Proof. intros H. induction l as [|x t IH]; cbn; [reflexivity|]. rewrite H, IH. reflexivity. Qed.

Theorem vis_ops_snoc ops n :
  fresh ops n -> vis_ops (ops ++ [n]) = flat_map (upd n) (vis_ops ops) ++ own n.
Proof.
  intros F. rewrite !vis_ops_entry. rewrite flat_map_app. cbn [flat_map]. rewrite app_nil_r.
  rewrite entry_of_own by exact F. f_equal.
  rewrite flat_map_flat_map. apply flat_map_ext'. intros o. apply entry_of_snoc.
Qed.

(* ================= registers after appending ================= *)
Lemma key_eqb_true a b : key_eqb a b = true -> a = b.
Proof.
  destruct a as [x|x], b as [y|y]; cbn; try discriminate.
  - intros H. apply (list_eqb_spec N.eqb) in H; [congruence|]. intros; apply N.eqb_eq.
  - intros H. apply opid_eqb_spec in H. congruence.
Qed.

Lemma key_eqb_refl a : key_eqb a a = true.
Proof.
  destruct a as [x|x]; cbn.
  - apply (list_eqb_spec N.eqb); [intros; apply N.eqb_eq|reflexivity].
  - apply opid_eqb_spec. reflexivity.
Qed.

Lemma key_eqb_false a b : a <> b -> key_eqb a b = false.
Proof. intros H. destruct (key_eqb a b) eqn:E; [|reflexivity]. apply key_eqb_true in E. contradiction. Qed.

Lemma opid_eqb_refl a : opid_eqb a a = true.
Proof. apply opid_eqb_spec. reflexivity. Qed.

Lemma opid_eqb_false a b : a <> b -> opid_eqb a b = false.
Proof. intros H. destruct (opid_eqb a b) eqn:E; [|reflexivity]. apply opid_eqb_spec in E. contradiction. Qed.

Lemma register_app a b k : register (a ++ b) k = register a k ++ register b k.
Proof. unfold register. apply flat_map_app. Qed.

Lemma register_tagged s (l : regobs) k :
  register (map (fun x => (s, x)) l) k = if key_eqb s k then l else [].
Proof.
  unfold register. induction l as [|x l IH]; cbn [map flat_map fst snd].
  - destruct (key_eqb s k); reflexivity.
  - rewrite IH. destruct (key_eqb s k); reflexivity.
Qed.

Lemma register_cons en t k :
  register (en :: t) k = (if key_eqb (fst en) k then [snd en] else []) ++ register t k.
Proof. reflexivity. Qed.

Lemma register_upd n vis k : register (flat_map (upd n) vis) k = flat_map (updv n) (register vis k).
Proof.
  induction vis as [|en t IH]; [reflexivity|].
  cbn [flat_map]. rewrite register_app, IH, register_cons, flat_map_app. f_equal.
  unfold upd. rewrite register_tagged. destruct (key_eqb (fst en) k); cbn [flat_map].
  - rewrite app_nil_r. reflexivity.
  - reflexivity.
Qed.

Definition own_reg (n : op) : regobs := map snd (own n).

Lemma register_own n k : register (own n) k = if key_eqb (slot n) k then own_reg n else [].
Proof.
  unfold register, own_reg, own. destruct (op_action n) as [v| | | | |]; cbn;
    try (destruct (key_eqb (slot n) k); reflexivity).
  destruct v; cbn; destruct (key_eqb (slot n) k); reflexivity.
Qed.

Lemma obj_ops_snoc ops n obj :
  obj_ops (ops ++ [n]) obj = obj_ops ops obj ++ (if opid_eqb (op_obj n) obj then [n] else []).
Proof. unfold obj_ops. rewrite filter_app. reflexivity. Qed.

Lemma obj_ops_incl ops obj : incl (obj_ops ops obj) ops.
Proof. intros x Hx. apply filter_In in Hx. tauto. Qed.

Theorem reg_at_snoc ops n obj k :
  fresh ops n ->
  reg_at (ops ++ [n]) obj k =
  if opid_eqb (op_obj n) obj
  then flat_map (updv n) (reg_at ops obj k) ++ (if key_eqb (slot n) k then own_reg n else [])
  else reg_at ops obj k.
Proof.
  intros F. unfold reg_at. rewrite obj_ops_snoc.
  destruct (opid_eqb (op_obj n) obj); [|rewrite app_nil_r; reflexivity].
  rewrite vis_ops_snoc by (eapply fresh_incl; [apply obj_ops_incl|exact F]).
  rewrite register_app, register_upd, register_own. reflexivity.
Qed.

(* where the entries of a register come from *)
Lemma vis_ops_in ops s i w :
  In (s, (i, w)) (vis_ops ops) -> exists o, In o ops /\ op_id o = i /\ slot o = s.
Proof.
  rewrite vis_ops_entry. intros H. apply in_flat_map in H. destruct H as (o & Ho & H).
  exists o. split; [exact Ho|]. unfold entry_of in H.
  destruct (visible ops o && negb (is_mark o)); [|destruct H].
  destruct (vobs_of ops o); [|destruct H]. destruct H as [H|[]]. inversion H. auto.
Qed.

Lemma register_in vis k iw : In iw (register vis k) -> In (k, iw) vis.
Proof.
  unfold register. intros H. apply in_flat_map in H. destruct H as (e & He & H).
  destruct (key_eqb (fst e) k) eqn:E; [|destruct H]. destruct H as [<-|[]].
  apply key_eqb_true in E. subst k. destruct e; exact He.
Qed.

Lemma in_register vis k iw : In (k, iw) vis -> In iw (register vis k).
Proof.
  unfold register. intros H. apply in_flat_map. exists (k, iw). split; [exact H|].
  cbn. rewrite key_eqb_refl. left. reflexivity.
Qed.

Lemma reg_at_in ops obj k i w :
  In (i, w) (reg_at ops obj k) ->
  exists o, In o ops /\ op_obj o = obj /\ op_id o = i /\ slot o = k.
Proof.
  unfold reg_at. intros H. apply register_in, vis_ops_in in H.
  destruct H as (o & Ho & H1 & H2). apply filter_In in Ho. destruct Ho as [Ho E].
  apply opid_eqb_spec in E. exists o. auto.
Qed.

Lemma nodup_ids_inj ops o o' :
  NoDup (map op_id ops) -> In o ops -> In o' ops -> op_id o = op_id o' -> o = o'.
Proof.
  induction ops as [|x t IH]; cbn; intros ND H1 H2 E; [destruct H1|].
  inversion ND as [|? ? Hn NDt]; subst.
  destruct H1 as [<-|H1], H2 as [<-|H2]; auto.
  - exfalso. apply Hn. rewrite E. apply in_map, H2.
  - exfalso. apply Hn. rewrite <- E. apply in_map, H1.
Qed.

Lemma reg_slot_unique ops obj obj' k k' i w w' :
  NoDup (map op_id ops) ->
  In (i, w) (reg_at ops obj k) -> In (i, w') (reg_at ops obj' k') -> obj = obj' /\ k = k'.
Proof.
  intros ND H1 H2. apply reg_at_in in H1, H2.
  destruct H1 as (o & Ho & A1 & A2 & A3). destruct H2 as (o' & Ho' & B1 & B2 & B3).
  assert (o = o') by (eapply nodup_ids_inj; eauto; congruence). subst o'. split; congruence.
Qed.

Lemma nodup_map_filter {A B} (g : A -> B) (p : A -> bool) l : NoDup (map g l) -> NoDup (map g (filter p l)).
Proof.
  induction l as [|x t IH]; cbn; intros ND; [constructor|].
  inversion ND as [|? ? Hn NDt]; subst. destruct (p x); cbn; [|apply IH, NDt].
  constructor; [|apply IH, NDt]. intros H. apply Hn. apply in_map_iff in H. destruct H as (y & Hy & H).
  apply filter_In in H. apply in_map_iff. exists y. tauto.
Qed.

Lemma reg_ids_nodup ops obj k : NoDup (map op_id ops) -> NoDup (map fst (reg_at ops obj k)).
Proof.
  intros ND. unfold reg_at. rewrite register_ids_sub.
  apply nodup_map_filter. destruct (vis_ops_ids (obj_ops ops obj)) as [f Hf]. rewrite Hf.
  apply nodup_map_filter. unfold obj_ops. apply nodup_map_filter. exact ND.
Qed.

(* ================= reading an observation ================= *)
(* the vocabulary of the statements: one object, one map register, the registers of a sequence *)
Definition obs_obj (ob : obs) (id : opid) : option oobs := find (fun o => opid_eqb (oo_id o) id) ob.
Definition obs_reg (ob : obs) (obj : opid) (k : list N) : regobs :=
  match obs_obj ob obj with
  | Some o => match oo_entries o with
              | EM l => match find (fun p => nlist_eqb (fst p) k) l with Some p => snd p | None => [] end
              | EL _ => []
              end
  | None => []
  end.
Definition obs_seq (ob : obs) (obj : opid) : list regobs :=
  match obs_obj ob obj with
  | Some o => match oo_entries o with EL l => l | EM _ => [] end
  | None => []
  end.

Lemma find_map {A B} (g : A -> B) (p : B -> bool) l :
  find p (map g l) = option_map g (find (fun x => p (g x)) l).
Proof. induction l as [|x t IH]; cbn; [reflexivity|]. destruct (p (g x)); [reflexivity|exact IH]. Qed.

Lemma find_ext {A} (p q : A -> bool) l : (forall x, p x = q x) -> find p l = find q l.
Proof. intros H. induction l as [|x t IH]; cbn; [reflexivity|]. rewrite H, IH. reflexivity. Qed.

Lemma oo_id_observe_obj fops id t : oo_id (observe_obj fops id t) = id.
Proof. unfold observe_obj. destruct (is_seq_type t); reflexivity. Qed.

Lemma obs_obj_sorted ops obj :
  obs_obj (observe_sorted ops) obj =
  option_map (fun t => observe_obj (obj_ops ops obj) obj t) (lookup_type ops obj).
Proof.
  unfold obs_obj, observe_sorted, lookup_type. rewrite find_map.
  rewrite (find_ext _ (fun ot => opid_eqb (fst ot) obj)) by (intros ot; rewrite oo_id_observe_obj; reflexivity).
  destruct (find (fun ot => opid_eqb (fst ot) obj) (objects ops)) as [ot|] eqn:E; [|reflexivity].
  apply find_some in E. destruct E as [_ E]. apply opid_eqb_spec in E. cbn. rewrite E. reflexivity.
Qed.

Lemma nlist_eqb_true a b : nlist_eqb a b = true <-> a = b.
Proof. apply (list_eqb_spec N.eqb). intros; apply N.eqb_eq. Qed.

Lemma find_em (R : list N -> regobs) K k :
  (R k <> [] -> In k K) ->
  match find (fun p => nlist_eqb (fst p) k)
             (flat_map (fun k' => match R k' with [] => [] | r => [(k', r)] end) K) with
  | Some p => snd p | None => [] end = R k.
Proof.
  induction K as [|a K IH]; intros H; cbn [flat_map find].
  - destruct (R k) eqn:E; [reflexivity|]. exfalso. apply H. discriminate.
  - assert (H' : a <> k -> R k <> [] -> In k K).
    { intros Na Hr. destruct (H Hr) as [->|Hin]; [contradiction|exact Hin]. }
    destruct (R a) as [|x r] eqn:Ra; cbn [app].
    + apply IH. intros Hr. apply H'; [|exact Hr]. intros ->. contradiction.
    + cbn [find fst snd]. destruct (nlist_eqb a k) eqn:E.
      * apply nlist_eqb_true in E. subst a. cbn. symmetry. exact Ra.
      * apply IH. apply H'. intros ->. assert (nlist_eqb k k = true) by (apply nlist_eqb_true; reflexivity). congruence.
Qed.

Lemma dedup_sorted_in x l : In x l -> In x (dedup_sorted l).
Proof.
  induction l as [|a t IH]; [intros []|].
  destruct t as [|b t'].
  - cbn. tauto.
  - intros H. change (dedup_sorted (a :: b :: t')) with
      (if nlist_eqb a b then dedup_sorted (b :: t') else a :: dedup_sorted (b :: t')).
    destruct (nlist_eqb a b) eqn:E.
    + apply IH. destruct H as [<-|H]; [|exact H]. apply nlist_eqb_true in E. subst. left. reflexivity.
    + destruct H as [<-|H]; [left; reflexivity|right; apply IH, H].
Qed.

Lemma slot_map o k : slot o = KMap k -> op_key o = KMap k.
Proof. unfold slot. destruct (op_key o); intros H; [exact H|discriminate]. Qed.

Lemma obs_reg_spec ops obj t k :
  lookup_type ops obj = Some t -> is_seq_type t = false ->
  obs_reg (observe_sorted ops) obj k = reg_at ops obj (KMap k).
Proof.
  intros L S. unfold obs_reg. rewrite obs_obj_sorted, L. cbn [option_map].
  unfold observe_obj. rewrite S. cbn [oo_entries].
  unfold reg_at. set (fops := obj_ops ops obj).
  apply (find_em (fun k' => register (vis_ops fops) (KMap k'))).
  intros Hr. apply dedup_sorted_in.
  eapply Permutation_in; [apply isort_perm|].
  destruct (register (vis_ops fops) (KMap k)) as [|[i w] r] eqn:E; [contradiction|].
  assert (Hin : In (i, w) (register (vis_ops fops) (KMap k))) by (rewrite E; left; reflexivity).
  apply register_in, vis_ops_in in Hin. destruct Hin as (o & Ho & _ & Hs).
  unfold map_keys. apply in_flat_map. exists o. split; [exact Ho|]. rewrite (slot_map _ _ Hs). left. reflexivity.
Qed.

Lemma obs_seq_spec ops obj t :
  lookup_type ops obj = Some t -> is_seq_type t = true ->
  obs_seq (observe_sorted ops) obj = map snd (seq_elems ops obj).
Proof.
  intros L S. unfold obs_seq. rewrite obs_obj_sorted, L. cbn [option_map].
  unfold observe_obj. rewrite S. cbn [oo_entries]. unfold seq_elems, reg_at.
  induction (elem_order (obj_ops ops obj)) as [|e l IH]; cbn [flat_map map]; [reflexivity|].
  rewrite map_app, IH. destruct (register (vis_ops (obj_ops ops obj)) (KSeq e)); reflexivity.
Qed.

(* ================= from well-formedness to freshness ================= *)
Lemma wf_tx_parts t :
  wf_tx t -> ssorted (tx_all t) /\ Forall (fun o => op_below (next_ctr t) o = true) (tx_all t) /\ 0 < tx_start t.
Proof.
  unfold wf_tx, wf_tx_b. rewrite !andb_true_iff. intros [[A B] C].
  split; [apply ssorted_b_spec, A|]. split; [apply Forall_forall; rewrite forallb_forall in B; exact B|].
  apply N.ltb_lt, C.
Qed.

Lemma op_below_parts c o :
  op_below c o = true ->
  fst (op_id o) < c /\ fst (op_obj o) < c /\ key_ctr (op_key o) < c /\ forall p, In p (op_pred o) -> fst p < c.
Proof.
  unfold op_below. rewrite !andb_true_iff. intros [[[A B] C] D].
  apply N.ltb_lt in A, B, C. repeat split; auto.
  intros p Hp. rewrite forallb_forall in D. apply N.ltb_lt, D, Hp.
Qed.

Lemma next_id_ctr t : fst (next_id t) = next_ctr t.
Proof. reflexivity. Qed.

Lemma fresh_of_wf t n :
  wf_tx t -> op_id n = next_id t -> (forall p, In p (op_pred n) -> fst p < next_ctr t) ->
  fresh (tx_all t) n.
Proof.
  intros W Hid Hp. destruct (wf_tx_parts t W) as (_ & B & _). rewrite Forall_forall in B.
  split.
  - intros o Ho E. destruct (op_below_parts _ _ (B o Ho)) as (A & _). rewrite E, Hid, next_id_ctr in A. lia.
  - intros o Ho Hin. destruct (op_below_parts _ _ (B o Ho)) as (_ & _ & _ & D).
    specialize (D _ Hin). rewrite Hid, next_id_ctr in D. lia.
  - intros Hin. specialize (Hp _ Hin). rewrite Hid, next_id_ctr in Hp. lia.
  - intros o Ho E. destruct (op_below_parts _ _ (B o Ho)) as (_ & _ & C & _).
    rewrite E in C. cbn [key_ctr] in C. rewrite Hid, next_id_ctr in C. lia.
  - intros o Ho E. destruct (op_below_parts _ _ (B o Ho)) as (_ & C & _).
    rewrite E, Hid, next_id_ctr in C. lia.
Qed.

Lemma tx_all_push t n : tx_all (push t n) = tx_all t ++ [n].
Proof. unfold tx_all, push. cbn. apply app_assoc. Qed.

Lemma reg_ids_below t obj k i w :
  wf_tx t -> In (i, w) (reg_at (tx_all t) obj k) -> fst i < next_ctr t.
Proof.
  intros W H. apply reg_at_in in H. destruct H as (o & Ho & _ & <- & _).
  destruct (wf_tx_parts t W) as (_ & B & _). rewrite Forall_forall in B.
  destruct (op_below_parts _ _ (B o Ho)) as (A & _). exact A.
Qed.

(* ================= the effect of an update op (put / make / delete / increment) ================= *)
Section Update.
  Variables (ops : list op) (n : op) (obj : opid) (K : key) (P : regobs).
  Hypothesis S : ssorted ops.
  Hypothesis F : fresh ops n.
  Hypothesis Hins : op_insert n = false.
  Hypothesis Hobj : op_obj n = obj.
  Hypothesis Hkey : op_key n = K.
  Hypothesis HP : incl P (reg_at ops obj K).
  Hypothesis Hpred : op_pred n = map fst P.

  Lemma upd_slot : slot n = K.
  Proof. unfold slot. rewrite Hkey, Hins. destruct K; reflexivity. Qed.

  Lemma upd_target : reg_at (ops ++ [n]) obj K = flat_map (updv n) (reg_at ops obj K) ++ own_reg n.
  Proof. rewrite reg_at_snoc by exact F. rewrite Hobj, opid_eqb_refl, upd_slot, key_eqb_refl. reflexivity. Qed.

  Lemma updv_id_outside l :
    (forall i w, In (i, w) l -> ~ In i (map fst P)) -> flat_map (updv n) l = l.
  Proof.
    induction l as [|[i w] t IH]; intros H; [reflexivity|]. cbn [flat_map].
    rewrite IH by (intros i' w' Hin; apply (H i' w'); right; exact Hin).
    unfold updv. cbn [fst snd]. rewrite Hpred.
    rewrite memb_opid_false by (apply (H i w); left; reflexivity). reflexivity.
  Qed.

  Lemma upd_frame_key K' : K' <> K -> reg_at (ops ++ [n]) obj K' = reg_at ops obj K'.
  Proof.
    intros NK. rewrite reg_at_snoc by exact F. rewrite Hobj, opid_eqb_refl, upd_slot.
    rewrite key_eqb_false by congruence. rewrite app_nil_r.
    apply updv_id_outside. intros i w Hin Hp.
    apply in_map_iff in Hp. destruct Hp as ([i' w'] & E & Hp). cbn in E. subst i'.
    apply HP in Hp.
    destruct (reg_slot_unique ops obj obj K' K i w w' (ssorted_nodup _ S) Hin Hp) as [_ E]. contradiction.
  Qed.

  Lemma upd_frame_obj obj' K' : obj' <> obj -> reg_at (ops ++ [n]) obj' K' = reg_at ops obj' K'.
  Proof.
    intros NO. rewrite reg_at_snoc by exact F. rewrite Hobj. rewrite opid_eqb_false by congruence. reflexivity.
  Qed.

  Lemma upd_obj_ops obj' : obj' <> obj -> obj_ops (ops ++ [n]) obj' = obj_ops ops obj'.
  Proof. intros NO. rewrite obj_ops_snoc, Hobj. rewrite opid_eqb_false by congruence. apply app_nil_r. Qed.

  Lemma upd_elem_order obj' : elem_order (obj_ops (ops ++ [n]) obj') = elem_order (obj_ops ops obj').
  Proof.
    rewrite obj_ops_snoc. destruct (opid_eqb (op_obj n) obj'); [|rewrite app_nil_r; reflexivity].
    unfold elem_order. rewrite filter_app. cbn [filter]. rewrite Hins. rewrite app_nil_r. reflexivity.
  Qed.
End Update.

Lemma objects_snoc ops n :
  objects (ops ++ [n]) = objects ops ++ match make_type n with Some t => [(op_id n, t)] | None => [] end.
Proof.
  unfold objects. rewrite flat_map_app. cbn [flat_map]. rewrite app_nil_r.
  rewrite app_comm_cons. reflexivity.
Qed.

Lemma lookup_type_snoc_nomake ops n obj : make_type n = None -> lookup_type (ops ++ [n]) obj = lookup_type ops obj.
Proof. intros H. unfold lookup_type. rewrite objects_snoc, H, app_nil_r. reflexivity. Qed.

