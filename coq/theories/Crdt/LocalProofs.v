(* Crdt/LocalProofs.v — proofs about the local-edit model (Crdt/Local.v): what each editing call
   does to the observation ([observe] of Crdt/Interp.v), for any well-formed op set. *)
From AM Require Import Base.Prelude Base.Order Crdt.Types Crdt.Interp Crdt.InterpProofs Crdt.Local.
From Coq Require Import Sorting.Sorted.
Local Open Scope N_scope.

(* ---- failed calls ---- *)
Lemma apply_call_error_unchanged e t c t' x :
  apply_call e t c = EOk (t', Some x) -> t' = t.
Proof.
  unfold apply_call. destruct (step e t c); intros H; inversion H; reflexivity.
Qed.

Lemma step_error_no_op e t c x : step e t c = EErr x -> apply_call e t c = EOk (t, Some x).
Proof. unfold apply_call. intros ->. reflexivity. Qed.

(* ================= well-formedness ================= *)
Definition id_lt_p (a b : op) : Prop := opid_cmp (op_id a) (op_id b) = Lt.
Definition ssorted (l : list op) : Prop := StronglySorted id_lt_p l.
Definition wf_tx (t : tx) : Prop := wf_tx_b t = true.

Lemma ssorted_b_spec l : ssorted_b l = true <-> ssorted l.
Proof.
  unfold ssorted. induction l as [|x t IH]; cbn [ssorted_b].
  - split; [constructor|reflexivity].
  - rewrite andb_true_iff, IH, forallb_forall. split.
    + intros [H1 H2]. constructor; [exact H2|]. rewrite Forall_forall. intros y Hy.
      specialize (H1 y Hy). unfold id_lt, opid_ltb, ltb in H1. unfold id_lt_p.
      destruct (opid_cmp (op_id x) (op_id y)); congruence.
    + intros H. inversion H as [|? ? Ht Hx]; subst. split; [|exact Ht].
      rewrite Forall_forall in Hx. intros y Hy. specialize (Hx y Hy). unfold id_lt_p in Hx.
      unfold id_lt, opid_ltb, ltb. rewrite Hx. reflexivity.
Qed.

Lemma ssorted_nodup l : ssorted l -> NoDup (map op_id l).
Proof.
  induction 1 as [|x t _ IH Hx]; cbn; constructor; [|exact IH].
  intros Hin. apply in_map_iff in Hin. destruct Hin as (y & Hy & Hin).
  rewrite Forall_forall in Hx. specialize (Hx y Hin). unfold id_lt_p in Hx.
  rewrite <- Hy in Hx. rewrite (cmp_refl opid_cmp opid_cmp_total) in Hx. discriminate.
Qed.

Lemma ssorted_ksorted l : ssorted l -> ksorted op_id opid_cmp l.
Proof.
  unfold ssorted, ksorted. induction 1 as [|x t _ IH Hx]; constructor; [exact IH|].
  eapply Forall_impl; [|exact Hx]. intros y Hy. unfold kle, le. unfold id_lt_p in Hy. congruence.
Qed.

Lemma isort_sorted_id l : ssorted l -> isort op_cmp l = l.
Proof.
  intros S. change op_cmp with (kcmp op_id opid_cmp).
  apply (ksorted_perm_unique op_id opid_cmp opid_cmp_total).
  - eapply Permutation_NoDup; [|apply ssorted_nodup, S]. apply Permutation_map, kisort_perm.
  - apply kisort_sorted, opid_cmp_total.
  - apply ssorted_ksorted, S.
  - apply Permutation_sym, kisort_perm.
Qed.

Lemma observe_sorted_eq l : ssorted l -> observe l = observe_sorted l.
Proof. intros S. unfold observe. rewrite isort_sorted_id; auto. Qed.

(* counters: a new id with a counter >= c is above every id of a set below c *)
Lemma ssorted_snoc l n c :
  ssorted l -> Forall (fun o => op_below c o = true) l -> c <= fst (op_id n) -> ssorted (l ++ [n]).
Proof.
  unfold ssorted. intros S B Hc. induction S as [|x t St IH Hx]; cbn.
  - constructor; constructor.
  - inversion B as [|? ? Bx Bt]; subst. constructor; [apply IH, Bt|].
    apply Forall_app. split; [exact Hx|]. constructor; [|constructor].
    unfold id_lt_p, opid_cmp. unfold op_below in Bx. rewrite !andb_true_iff in Bx.
    destruct Bx as [[[B1 _] _] _]. apply N.ltb_lt in B1.
    assert (E : (fst (op_id x) ?= fst (op_id n)) = Lt) by (apply N.compare_lt_iff; lia).
    rewrite E. reflexivity.
Qed.

(* ================= appending one fresh op ================= *)
Record fresh (ops : list op) (n : op) : Prop := {
  fr_id : forall o, In o ops -> op_id o <> op_id n;
  fr_named : forall o, In o ops -> ~ In (op_id n) (op_pred o);
  fr_self : ~ In (op_id n) (op_pred n);
  fr_key : forall o, In o ops -> op_key o <> KSeq (op_id n);
  fr_obj : forall o, In o ops -> op_obj o <> op_id n }.

Lemma fresh_incl ops ops' n : incl ops' ops -> fresh ops n -> fresh ops' n.
Proof. intros I [A B C D E]. split; auto. Qed.

Lemma memb_opid_In x l : memb opid_eqb x l = true <-> In x l.
Proof. apply memb_In. intros; apply opid_eqb_spec. Qed.

Lemma memb_opid_false x l : ~ In x l -> memb opid_eqb x l = false.
Proof. intros H. destruct (memb opid_eqb x l) eqn:E; [|reflexivity]. apply memb_opid_In in E. tauto. Qed.

(* the entry one op contributes, in the context of an op list *)
Definition entry_of (ctx : list op) (o : op) : list vis_entry :=
  if visible ctx o && negb (is_mark o) then
    match vobs_of ctx o with Some v => [(slot o, (op_id o, v))] | None => [] end
  else [].

Lemma vis_ops_entry ops : vis_ops ops = flat_map (entry_of ops) ops.
Proof. reflexivity. Qed.

(* what a new op [n] does to an existing entry *)
Definition updv (n : op) (iw : opid * vobs) : list (opid * vobs) :=
  if memb opid_eqb (fst iw) (op_pred n) then
    (if is_inc n then match snd iw with VC z => [(fst iw, VC (z + inc_value n)%Z)] | _ => [] end else [])
  else [iw].
Definition upd (n : op) (en : vis_entry) : list vis_entry := map (fun x => (fst en, x)) (updv n (snd en)).

Lemma visible_snoc ctx n o : visible (ctx ++ [n]) o = visible ctx o && negb (hides o n).
Proof.
  unfold visible. rewrite existsb_app. cbn [existsb]. rewrite orb_false_r, negb_orb.
  destruct (is_inc o), (is_del o), (existsb (hides o) ctx), (hides o n); reflexivity.
Qed.

Lemma counter_total_snoc ctx n o z :
  counter_total (ctx ++ [n]) o z =
  if names n o && is_inc n then (counter_total ctx o z + inc_value n)%Z else counter_total ctx o z.
Proof. unfold counter_total. rewrite fold_left_app. cbn [fold_left]. reflexivity. Qed.

Lemma entry_of_snoc ctx n o : entry_of (ctx ++ [n]) o = flat_map (upd n) (entry_of ctx o).
Proof.
  unfold entry_of. rewrite visible_snoc.
  destruct (visible ctx o) eqn:V; cbn [andb]; [|reflexivity].
  destruct (is_mark o) eqn:M; cbn [negb andb]; [rewrite andb_false_r; reflexivity|].
  rewrite andb_true_r.
  unfold hides, upd, updv, names. cbn [fst snd].
  destruct (memb opid_eqb (op_id o) (op_pred n)) eqn:Nm; cbn [andb negb].
  - (* named by n *)
    unfold vobs_of, is_counter. destruct (op_action o) as [v| | | | |] eqn:A.
    all: try destruct v.
    all: cbn [flat_map app map fst snd]; rewrite ?Nm; rewrite ?counter_total_snoc; unfold names;
      rewrite ?Nm; destruct (is_inc n); cbn; reflexivity.
  - (* not named *)
    assert (E : vobs_of (ctx ++ [n]) o = vobs_of ctx o).
    { unfold vobs_of. destruct (op_action o) as [v| | | | |]; try reflexivity.
      destruct v; try reflexivity. rewrite counter_total_snoc. unfold names. rewrite Nm. reflexivity. }
    rewrite E. destruct (vobs_of ctx o); cbn [flat_map app map fst snd]; rewrite ?Nm; reflexivity.
Qed.

(* the entry of the new op itself *)
Definition own (n : op) : list vis_entry :=
  match op_action n with
  | APut (SCounter z) => [(slot n, (op_id n, VC z))]
  | APut v => [(slot n, (op_id n, VS v))]
  | AMake t => [(slot n, (op_id n, VO t))]
  | _ => []
  end.

Lemma existsb_false {A} (f : A -> bool) l : (forall x, In x l -> f x = false) -> existsb f l = false.
Proof.
  intros H. induction l as [|x t IH]; cbn; [reflexivity|].
  rewrite H by (left; reflexivity). apply IH. intros y Hy. apply H. right. exact Hy.
Qed.

Lemma counter_total_unnamed ops o z :
  (forall s, In s ops -> names s o = false) -> counter_total ops o z = z.
Proof.
  unfold counter_total. revert z. induction ops as [|s t IH]; intros z H; cbn; [reflexivity|].
  rewrite H by (left; reflexivity). cbn. apply IH. intros s' Hs. apply H. right. exact Hs.
Qed.

Lemma entry_of_own ops n : fresh ops n -> entry_of (ops ++ [n]) n = own n.
Proof.
  intros F. unfold entry_of, own.
  assert (Nn : forall s, In s (ops ++ [n]) -> names s n = false).
  { intros s Hs. unfold names. apply memb_opid_false. apply in_app_or in Hs. destruct Hs as [Hs|[<-|[]]].
    - apply (fr_named _ _ F), Hs.
    - apply (fr_self _ _ F). }
  assert (V : existsb (hides n) (ops ++ [n]) = false).
  { apply existsb_false. intros s Hs. unfold hides. rewrite Nn by exact Hs. reflexivity. }
  unfold visible. rewrite V. unfold vobs_of, is_inc, is_del, is_mark.
  destruct (op_action n) as [v| | | | |]; cbn; try reflexivity.
  destruct v; try reflexivity. rewrite counter_total_unnamed by exact Nn. reflexivity.
Qed.

Lemma flat_map_flat_map {A B C} (f : A -> list B) (g : B -> list C) l :
  flat_map g (flat_map f l) = flat_map (fun x => flat_map g (f x)) l.
Proof. induction l as [|x t IH]; cbn; [reflexivity|]. rewrite flat_map_app, IH. reflexivity. Qed.

Lemma flat_map_ext' {A B} (f g : A -> list B) l : (forall x, f x = g x) -> flat_map f l = flat_map g l.
Proof. intros H. induction l as [|x t IH]; cbn; [reflexivity|]. rewrite H, IH. reflexivity. Qed.

Theorem vis_ops_snoc ops n :
  fresh ops n -> vis_ops (ops ++ [n]) = flat_map (upd n) (vis_ops ops) ++ own n.
Proof.
  intros F. rewrite !vis_ops_entry. rewrite flat_map_app. cbn [flat_map]. rewrite app_nil_r.
  rewrite entry_of_own by exact F. f_equal.
  rewrite flat_map_flat_map. apply flat_map_ext'. intros o. apply entry_of_snoc.
Qed.

(* ================= registers after appending ================= *)
Lemma key_eqb_true a b : key_eqb a b = true -> a = b.
Proof.
  destruct a as [x|x], b as [y|y]; cbn; try discriminate.
  - intros H. apply (list_eqb_spec N.eqb) in H; [congruence|]. intros; apply N.eqb_eq.
  - intros H. apply opid_eqb_spec in H. congruence.
Qed.

Lemma key_eqb_refl a : key_eqb a a = true.
Proof.
  destruct a as [x|x]; cbn.
  - apply (list_eqb_spec N.eqb); [intros; apply N.eqb_eq|reflexivity].
  - apply opid_eqb_spec. reflexivity.
Qed.

Lemma key_eqb_false a b : a <> b -> key_eqb a b = false.
Proof. intros H. destruct (key_eqb a b) eqn:E; [|reflexivity]. apply key_eqb_true in E. contradiction. Qed.

Lemma opid_eqb_refl a : opid_eqb a a = true.
Proof. apply opid_eqb_spec. reflexivity. Qed.

Lemma opid_eqb_false a b : a <> b -> opid_eqb a b = false.
Proof. intros H. destruct (opid_eqb a b) eqn:E; [|reflexivity]. apply opid_eqb_spec in E. contradiction. Qed.

Lemma register_app a b k : register (a ++ b) k = register a k ++ register b k.
Proof. unfold register. apply flat_map_app. Qed.

Lemma register_tagged s (l : regobs) k :
  register (map (fun x => (s, x)) l) k = if key_eqb s k then l else [].
Proof.
  unfold register. induction l as [|x l IH]; cbn [map flat_map fst snd].
  - destruct (key_eqb s k); reflexivity.
  - rewrite IH. destruct (key_eqb s k); reflexivity.
Qed.

Lemma register_cons en t k :
  register (en :: t) k = (if key_eqb (fst en) k then [snd en] else []) ++ register t k.
Proof. reflexivity. Qed.

Lemma register_upd n vis k : register (flat_map (upd n) vis) k = flat_map (updv n) (register vis k).
Proof.
  induction vis as [|en t IH]; [reflexivity|].
  cbn [flat_map]. rewrite register_app, IH, register_cons, flat_map_app. f_equal.
  unfold upd. rewrite register_tagged. destruct (key_eqb (fst en) k); cbn [flat_map].
  - rewrite app_nil_r. reflexivity.
  - reflexivity.
Qed.

Definition own_reg (n : op) : regobs := map snd (own n).

Lemma register_own n k : register (own n) k = if key_eqb (slot n) k then own_reg n else [].
Proof.
  unfold register, own_reg, own. destruct (op_action n) as [v| | | | |]; cbn;
    try (destruct (key_eqb (slot n) k); reflexivity).
  destruct v; cbn; destruct (key_eqb (slot n) k); reflexivity.
Qed.

Lemma obj_ops_snoc ops n obj :
  obj_ops (ops ++ [n]) obj = obj_ops ops obj ++ (if opid_eqb (op_obj n) obj then [n] else []).
Proof. unfold obj_ops. rewrite filter_app. reflexivity. Qed.

Lemma obj_ops_incl ops obj : incl (obj_ops ops obj) ops.
Proof. intros x Hx. apply filter_In in Hx. tauto. Qed.

Theorem reg_at_snoc ops n obj k :
  fresh ops n ->
  reg_at (ops ++ [n]) obj k =
  if opid_eqb (op_obj n) obj
  then flat_map (updv n) (reg_at ops obj k) ++ (if key_eqb (slot n) k then own_reg n else [])
  else reg_at ops obj k.
Proof.
  intros F. unfold reg_at. rewrite obj_ops_snoc.
  destruct (opid_eqb (op_obj n) obj); [|rewrite app_nil_r; reflexivity].
  rewrite vis_ops_snoc by (eapply fresh_incl; [apply obj_ops_incl|exact F]).
  rewrite register_app, register_upd, register_own. reflexivity.
Qed.

(* where the entries of a register come from *)
Lemma vis_ops_in ops s i w :
  In (s, (i, w)) (vis_ops ops) -> exists o, In o ops /\ op_id o = i /\ slot o = s.
Proof.
  rewrite vis_ops_entry. intros H. apply in_flat_map in H. destruct H as (o & Ho & H).
  exists o. split; [exact Ho|]. unfold entry_of in H.
  destruct (visible ops o && negb (is_mark o)); [|destruct H].
  destruct (vobs_of ops o); [|destruct H]. destruct H as [H|[]]. inversion H. auto.
Qed.

Lemma register_in vis k iw : In iw (register vis k) -> In (k, iw) vis.
Proof.
  unfold register. intros H. apply in_flat_map in H. destruct H as (e & He & H).
  destruct (key_eqb (fst e) k) eqn:E; [|destruct H]. destruct H as [<-|[]].
  apply key_eqb_true in E. subst k. destruct e; exact He.
Qed.

Lemma in_register vis k iw : In (k, iw) vis -> In iw (register vis k).
Proof.
  unfold register. intros H. apply in_flat_map. exists (k, iw). split; [exact H|].
  cbn. rewrite key_eqb_refl. left. reflexivity.
Qed.

Lemma reg_at_in ops obj k i w :
  In (i, w) (reg_at ops obj k) ->
  exists o, In o ops /\ op_obj o = obj /\ op_id o = i /\ slot o = k.
Proof.
  unfold reg_at. intros H. apply register_in, vis_ops_in in H.
  destruct H as (o & Ho & H1 & H2). apply filter_In in Ho. destruct Ho as [Ho E].
  apply opid_eqb_spec in E. exists o. auto.
Qed.

Lemma nodup_ids_inj ops o o' :
  NoDup (map op_id ops) -> In o ops -> In o' ops -> op_id o = op_id o' -> o = o'.
Proof.
  induction ops as [|x t IH]; cbn; intros ND H1 H2 E; [destruct H1|].
  inversion ND as [|? ? Hn NDt]; subst.
  destruct H1 as [<-|H1], H2 as [<-|H2]; auto.
  - exfalso. apply Hn. rewrite E. apply in_map, H2.
  - exfalso. apply Hn. rewrite <- E. apply in_map, H1.
Qed.

Lemma reg_slot_unique ops obj obj' k k' i w w' :
  NoDup (map op_id ops) ->
  In (i, w) (reg_at ops obj k) -> In (i, w') (reg_at ops obj' k') -> obj = obj' /\ k = k'.
Proof.
  intros ND H1 H2. apply reg_at_in in H1, H2.
  destruct H1 as (o & Ho & A1 & A2 & A3). destruct H2 as (o' & Ho' & B1 & B2 & B3).
  assert (o = o') by (eapply nodup_ids_inj; eauto; congruence). subst o'. split; congruence.
Qed.

Lemma nodup_map_filter {A B} (g : A -> B) (p : A -> bool) l : NoDup (map g l) -> NoDup (map g (filter p l)).
Proof.
  induction l as [|x t IH]; cbn; intros ND; [constructor|].
  inversion ND as [|? ? Hn NDt]; subst. destruct (p x); cbn; [|apply IH, NDt].
  constructor; [|apply IH, NDt]. intros H. apply Hn. apply in_map_iff in H. destruct H as (y & Hy & H).
  apply filter_In in H. apply in_map_iff. exists y. tauto.
Qed.

Lemma reg_ids_nodup ops obj k : NoDup (map op_id ops) -> NoDup (map fst (reg_at ops obj k)).
Proof.
  intros ND. unfold reg_at. rewrite register_ids_sub.
  apply nodup_map_filter. destruct (vis_ops_ids (obj_ops ops obj)) as [f Hf]. rewrite Hf.
  apply nodup_map_filter. unfold obj_ops. apply nodup_map_filter. exact ND.
Qed.

(* ================= reading an observation ================= *)
(* the vocabulary of the statements: one object, one map register, the registers of a sequence *)
Definition obs_obj (ob : obs) (id : opid) : option oobs := find (fun o => opid_eqb (oo_id o) id) ob.
Definition obs_reg (ob : obs) (obj : opid) (k : list N) : regobs :=
  match obs_obj ob obj with
  | Some o => match oo_entries o with
              | EM l => match find (fun p => nlist_eqb (fst p) k) l with Some p => snd p | None => [] end
              | EL _ => []
              end
  | None => []
  end.
Definition obs_seq (ob : obs) (obj : opid) : list regobs :=
  match obs_obj ob obj with
  | Some o => match oo_entries o with EL l => l | EM _ => [] end
  | None => []
  end.

Lemma find_map {A B} (g : A -> B) (p : B -> bool) l :
  find p (map g l) = option_map g (find (fun x => p (g x)) l).
Proof. induction l as [|x t IH]; cbn; [reflexivity|]. destruct (p (g x)); [reflexivity|exact IH]. Qed.

Lemma find_ext {A} (p q : A -> bool) l : (forall x, p x = q x) -> find p l = find q l.
Proof. intros H. induction l as [|x t IH]; cbn; [reflexivity|]. rewrite H, IH. reflexivity. Qed.

Lemma oo_id_observe_obj fops id t : oo_id (observe_obj fops id t) = id.
Proof. unfold observe_obj. destruct (is_seq_type t); reflexivity. Qed.

Lemma obs_obj_sorted ops obj :
  obs_obj (observe_sorted ops) obj =
  option_map (fun t => observe_obj (obj_ops ops obj) obj t) (lookup_type ops obj).
Proof.
  unfold obs_obj, observe_sorted, lookup_type. rewrite find_map.
  rewrite (find_ext _ (fun ot => opid_eqb (fst ot) obj)) by (intros ot; rewrite oo_id_observe_obj; reflexivity).
  destruct (find (fun ot => opid_eqb (fst ot) obj) (objects ops)) as [ot|] eqn:E; [|reflexivity].
  apply find_some in E. destruct E as [_ E]. apply opid_eqb_spec in E. cbn. rewrite E. reflexivity.
Qed.

Lemma nlist_eqb_true a b : nlist_eqb a b = true <-> a = b.
Proof. apply (list_eqb_spec N.eqb). intros; apply N.eqb_eq. Qed.

Lemma find_em (R : list N -> regobs) K k :
  (R k <> [] -> In k K) ->
  match find (fun p => nlist_eqb (fst p) k)
             (flat_map (fun k' => match R k' with [] => [] | r => [(k', r)] end) K) with
  | Some p => snd p | None => [] end = R k.
Proof.
  induction K as [|a K IH]; intros H; cbn [flat_map find].
  - destruct (R k) eqn:E; [reflexivity|]. exfalso. apply H. discriminate.
  - assert (H' : a <> k -> R k <> [] -> In k K).
    { intros Na Hr. destruct (H Hr) as [->|Hin]; [contradiction|exact Hin]. }
    destruct (R a) as [|x r] eqn:Ra; cbn [app].
    + apply IH. intros Hr. apply H'; [|exact Hr]. intros ->. contradiction.
    + cbn [find fst snd]. destruct (nlist_eqb a k) eqn:E.
      * apply nlist_eqb_true in E. subst a. cbn. symmetry. exact Ra.
      * apply IH. apply H'. intros ->. assert (nlist_eqb k k = true) by (apply nlist_eqb_true; reflexivity). congruence.
Qed.

Lemma dedup_sorted_in x l : In x l -> In x (dedup_sorted l).
Proof.
  induction l as [|a t IH]; [intros []|].
  destruct t as [|b t'].
  - cbn. tauto.
  - intros H. change (dedup_sorted (a :: b :: t')) with
      (if nlist_eqb a b then dedup_sorted (b :: t') else a :: dedup_sorted (b :: t')).
    destruct (nlist_eqb a b) eqn:E.
    + apply IH. destruct H as [<-|H]; [|exact H]. apply nlist_eqb_true in E. subst. left. reflexivity.
    + destruct H as [<-|H]; [left; reflexivity|right; apply IH, H].
Qed.

Lemma slot_map o k : slot o = KMap k -> op_key o = KMap k.
Proof. unfold slot. destruct (op_key o); intros H; [exact H|discriminate]. Qed.

Lemma obs_reg_spec ops obj t k :
  lookup_type ops obj = Some t -> is_seq_type t = false ->
  obs_reg (observe_sorted ops) obj k = reg_at ops obj (KMap k).
Proof.
  intros L S. unfold obs_reg. rewrite obs_obj_sorted, L. cbn [option_map].
  unfold observe_obj. rewrite S. cbn [oo_entries].
  unfold reg_at. set (fops := obj_ops ops obj).
  apply (find_em (fun k' => register (vis_ops fops) (KMap k'))).
  intros Hr. apply dedup_sorted_in.
  eapply Permutation_in; [apply isort_perm|].
  destruct (register (vis_ops fops) (KMap k)) as [|[i w] r] eqn:E; [contradiction|].
  assert (Hin : In (i, w) (register (vis_ops fops) (KMap k))) by (rewrite E; left; reflexivity).
  apply register_in, vis_ops_in in Hin. destruct Hin as (o & Ho & _ & Hs).
  unfold map_keys. apply in_flat_map. exists o. split; [exact Ho|]. rewrite (slot_map _ _ Hs). left. reflexivity.
Qed.

Lemma obs_seq_spec ops obj t :
  lookup_type ops obj = Some t -> is_seq_type t = true ->
  obs_seq (observe_sorted ops) obj = map snd (seq_elems ops obj).
Proof.
  intros L S. unfold obs_seq. rewrite obs_obj_sorted, L. cbn [option_map].
  unfold observe_obj. rewrite S. cbn [oo_entries]. unfold seq_elems, reg_at.
  induction (elem_order (obj_ops ops obj)) as [|e l IH]; cbn [flat_map map]; [reflexivity|].
  rewrite map_app, IH. destruct (register (vis_ops (obj_ops ops obj)) (KSeq e)); reflexivity.
Qed.

(* ================= from well-formedness to freshness ================= *)
Lemma wf_tx_parts t :
  wf_tx t -> ssorted (tx_all t) /\ Forall (fun o => op_below (next_ctr t) o = true) (tx_all t) /\ 0 < tx_start t.
Proof.
  unfold wf_tx, wf_tx_b. rewrite !andb_true_iff. intros [[[A B] C] _].
  split; [apply ssorted_b_spec, A|]. split; [apply Forall_forall; rewrite forallb_forall in B; exact B|].
  apply N.ltb_lt, C.
Qed.

Lemma op_below_parts c o :
  op_below c o = true ->
  fst (op_id o) < c /\ fst (op_obj o) < c /\ key_ctr (op_key o) < c /\ forall p, In p (op_pred o) -> fst p < c.
Proof.
  unfold op_below. rewrite !andb_true_iff. intros [[[A B] C] D].
  apply N.ltb_lt in A, B, C. repeat split; auto.
  intros p Hp. rewrite forallb_forall in D. apply N.ltb_lt, D, Hp.
Qed.

Lemma next_id_ctr t : fst (next_id t) = next_ctr t.
Proof. reflexivity. Qed.

Lemma fresh_of_wf t n :
  wf_tx t -> op_id n = next_id t -> (forall p, In p (op_pred n) -> fst p < next_ctr t) ->
  fresh (tx_all t) n.
Proof.
  intros W Hid Hp. destruct (wf_tx_parts t W) as (_ & B & _). rewrite Forall_forall in B.
  split.
  - intros o Ho E. destruct (op_below_parts _ _ (B o Ho)) as (A & _). rewrite E, Hid, next_id_ctr in A. lia.
  - intros o Ho Hin. destruct (op_below_parts _ _ (B o Ho)) as (_ & _ & _ & D).
    specialize (D _ Hin). rewrite Hid, next_id_ctr in D. lia.
  - intros Hin. specialize (Hp _ Hin). rewrite Hid, next_id_ctr in Hp. lia.
  - intros o Ho E. destruct (op_below_parts _ _ (B o Ho)) as (_ & _ & C & _).
    rewrite E in C. cbn [key_ctr] in C. rewrite Hid, next_id_ctr in C. lia.
  - intros o Ho E. destruct (op_below_parts _ _ (B o Ho)) as (_ & C & _).
    rewrite E, Hid, next_id_ctr in C. lia.
Qed.

Lemma tx_all_push t n : tx_all (push t n) = tx_all t ++ [n].
Proof. unfold tx_all, push. cbn. apply app_assoc. Qed.

Lemma reg_ids_below t obj k i w :
  wf_tx t -> In (i, w) (reg_at (tx_all t) obj k) -> fst i < next_ctr t.
Proof.
  intros W H. apply reg_at_in in H. destruct H as (o & Ho & _ & <- & _).
  destruct (wf_tx_parts t W) as (_ & B & _). rewrite Forall_forall in B.
  destruct (op_below_parts _ _ (B o Ho)) as (A & _). exact A.
Qed.

(* ================= the effect of an update op (put / make / delete / increment) ================= *)
Section Update.
  Variables (ops : list op) (n : op) (obj : opid) (K : key) (P : regobs).
  Hypothesis S : ssorted ops.
  Hypothesis F : fresh ops n.
  Hypothesis Hins : op_insert n = false.
  Hypothesis Hobj : op_obj n = obj.
  Hypothesis Hkey : op_key n = K.
  Hypothesis HP : incl P (reg_at ops obj K).
  Hypothesis Hpred : op_pred n = map fst P.

  Lemma upd_slot : slot n = K.
  Proof. unfold slot. rewrite Hkey, Hins. destruct K; reflexivity. Qed.

  Lemma upd_target : reg_at (ops ++ [n]) obj K = flat_map (updv n) (reg_at ops obj K) ++ own_reg n.
  Proof. rewrite reg_at_snoc by exact F. rewrite Hobj, opid_eqb_refl, upd_slot, key_eqb_refl. reflexivity. Qed.

  Lemma updv_id_outside l :
    (forall i w, In (i, w) l -> ~ In i (map fst P)) -> flat_map (updv n) l = l.
  Proof.
    induction l as [|[i w] t IH]; intros H; [reflexivity|]. cbn [flat_map].
    rewrite IH by (intros i' w' Hin; apply (H i' w'); right; exact Hin).
    unfold updv. cbn [fst snd]. rewrite Hpred.
    rewrite memb_opid_false by (apply (H i w); left; reflexivity). reflexivity.
  Qed.

  Lemma upd_frame_key K' : K' <> K -> reg_at (ops ++ [n]) obj K' = reg_at ops obj K'.
  Proof.
    intros NK. rewrite reg_at_snoc by exact F. rewrite Hobj, opid_eqb_refl, upd_slot.
    rewrite key_eqb_false by congruence. rewrite app_nil_r.
    apply updv_id_outside. intros i w Hin Hp.
    apply in_map_iff in Hp. destruct Hp as ([i' w'] & E & Hp). cbn in E. subst i'.
    apply HP in Hp.
    destruct (reg_slot_unique ops obj obj K' K i w w' (ssorted_nodup _ S) Hin Hp) as [_ E]. contradiction.
  Qed.

  Lemma upd_frame_obj obj' K' : obj' <> obj -> reg_at (ops ++ [n]) obj' K' = reg_at ops obj' K'.
  Proof.
    intros NO. rewrite reg_at_snoc by exact F. rewrite Hobj. rewrite opid_eqb_false by congruence. reflexivity.
  Qed.

  Lemma upd_obj_ops obj' : obj' <> obj -> obj_ops (ops ++ [n]) obj' = obj_ops ops obj'.
  Proof. intros NO. rewrite obj_ops_snoc, Hobj. rewrite opid_eqb_false by congruence. apply app_nil_r. Qed.

  Lemma upd_elem_order obj' : elem_order (obj_ops (ops ++ [n]) obj') = elem_order (obj_ops ops obj').
  Proof.
    rewrite obj_ops_snoc. destruct (opid_eqb (op_obj n) obj'); [|rewrite app_nil_r; reflexivity].
    unfold elem_order. rewrite filter_app. cbn [filter]. rewrite Hins. rewrite app_nil_r. reflexivity.
  Qed.
End Update.

Lemma objects_snoc ops n :
  objects (ops ++ [n]) = objects ops ++ match make_type n with Some t => [(op_id n, t)] | None => [] end.
Proof.
  unfold objects. rewrite flat_map_app. cbn [flat_map]. rewrite app_nil_r.
  rewrite app_comm_cons. reflexivity.
Qed.

Lemma lookup_type_snoc_nomake ops n obj : make_type n = None -> lookup_type (ops ++ [n]) obj = lookup_type ops obj.
Proof. intros H. unfold lookup_type. rewrite objects_snoc, H, app_nil_r. reflexivity. Qed.


(* ================= the calls on a map ================= *)
Definition scalar_vobs (v : scalar) : vobs := match v with SCounter z => VC z | _ => VS v end.

Lemma winner_last (r : regobs) : winner r = match r with [] => None | _ => Some (last r (root_id, VS SNull)) end.
Proof.
  unfold winner. induction r as [|x t IH]; [reflexivity|].
  destruct t as [|y t']; [reflexivity|].
  change (last (map Some (x :: y :: t')) None) with (last (map Some (y :: t')) None).
  rewrite IH. reflexivity.
Qed.

Lemma winner_split (r : regobs) iw : winner r = Some iw -> r = removelast r ++ [iw].
Proof.
  intros H. rewrite winner_last in H. destruct r as [|x t]; [discriminate|].
  assert (E : last (x :: t) (root_id, VS SNull) = iw) by congruence.
  rewrite <- E. apply app_removelast_last. discriminate.
Qed.

Lemma winner_none (r : regobs) : winner r = None -> r = [].
Proof. rewrite winner_last. destruct r; [reflexivity|discriminate]. Qed.

(* every entry named by the new op and not an incremented counter disappears *)
Lemma updv_all_dropped n (r : regobs) :
  is_inc n = false -> (forall iw, In iw r -> In (fst iw) (op_pred n)) -> flat_map (updv n) r = [].
Proof.
  intros Hi H. induction r as [|iw t IH]; [reflexivity|]. cbn [flat_map].
  rewrite IH by (intros x Hx; apply H; right; exact Hx).
  unfold updv. rewrite (proj2 (memb_opid_In _ _)) by (apply H; left; reflexivity). rewrite Hi. reflexivity.
Qed.

Definition inc_reg (z : Z) (r : regobs) : regobs :=
  flat_map (fun iw => match snd iw with VC c => [(fst iw, VC (c + z)%Z)] | _ => [] end) r.

Lemma updv_all_inc n (r : regobs) :
  is_inc n = true -> (forall iw, In iw r -> In (fst iw) (op_pred n)) ->
  flat_map (updv n) r = inc_reg (inc_value n) r.
Proof.
  intros Hi H. unfold inc_reg. induction r as [|iw t IH]; [reflexivity|]. cbn [flat_map].
  rewrite IH by (intros x Hx; apply H; right; exact Hx).
  unfold updv. rewrite (proj2 (memb_opid_In _ _)) by (apply H; left; reflexivity). rewrite Hi. reflexivity.
Qed.

Lemma own_reg_put n v : op_action n = APut v -> own_reg n = [(op_id n, scalar_vobs v)].
Proof. unfold own_reg, own. intros ->. destruct v; reflexivity. Qed.
Lemma own_reg_make n t : op_action n = AMake t -> own_reg n = [(op_id n, VO t)].
Proof. unfold own_reg, own. intros ->. reflexivity. Qed.
Lemma own_reg_del n : op_action n = ADel -> own_reg n = [].
Proof. unfold own_reg, own. intros ->. reflexivity. Qed.
Lemma own_reg_inc n z : op_action n = AInc z -> own_reg n = [].
Proof. unfold own_reg, own. intros ->. reflexivity. Qed.

(* the op [update_op] builds, and the state it is appended to *)
Lemma update_op_inv t obj k r a t' oid :
  update_op t obj k r a = EOk (t', oid) ->
  (resolve_action r a = None /\ t' = t /\ oid = None) \/
  (exists a' r', resolve_action r a = Some (a', r') /\
     (is_inc_action a' && negb (existsb is_vc r')) = false /\
     t' = push t (mkOp (next_id t) obj k false a' (map fst r')) /\ oid = Some (next_id t)).
Proof.
  unfold update_op. destruct (resolve_action r a) as [[a' r']|].
  - destruct (is_inc_action a' && negb (existsb is_vc r')) eqn:E; [discriminate|].
    intros H. inversion H. right. exists a', r'. auto.
  - intros H. inversion H. left. auto.
Qed.

Lemma resolve_incl r a a' r' : resolve_action r a = Some (a', r') -> incl r' r.
Proof.
  unfold resolve_action. destruct (winner r) as [[i w]|] eqn:W.
  - destruct a; try (intros H; inversion H; apply incl_refl).
    destruct (same_value w v).
    + destruct (length r =? 1)%nat; [discriminate|]. intros H. inversion H. subst.
      rewrite (winner_split _ _ W) at 2. apply incl_appl, incl_refl.
    + intros H; inversion H; apply incl_refl.
  - destruct a; intros H; inversion H; apply incl_refl.
Qed.

(* frame clauses shared by every update of one register: nothing else moves *)
Record frame_upd (ops ops' : list op) (obj : opid) (K : key) : Prop := {
  fu_keys : forall K', K' <> K -> reg_at ops' obj K' = reg_at ops obj K';
  fu_objs : forall obj' K', obj' <> obj -> reg_at ops' obj' K' = reg_at ops obj' K';
  fu_obj_ops : forall obj', obj' <> obj -> obj_ops ops' obj' = obj_ops ops obj';
  fu_order : forall obj', elem_order (obj_ops ops' obj') = elem_order (obj_ops ops obj') }.

Lemma frame_upd_refl ops obj K : frame_upd ops ops obj K.
Proof. split; reflexivity. Qed.

(* One theorem for put / put_object / delete / increment on ANY register (map key or list element):
   the register becomes what [resolve_action] + the new op say; everything else is unchanged. *)
Theorem update_op_spec t obj K a t' oid :
  wf_tx t ->
  update_op t obj K (reg_at (tx_all t) obj K) a = EOk (t', oid) ->
  let r := reg_at (tx_all t) obj K in
  frame_upd (tx_all t) (tx_all t') obj K /\
  reg_at (tx_all t') obj K =
    match resolve_action r a with
    | None => r
    | Some (a', r') =>
      let kept := flat_map (fun iw => if memb opid_eqb (fst iw) (map fst r') then [] else [iw]) r in
      match a' with
      | APut v => kept ++ [(next_id t, scalar_vobs v)]
      | AMake ty => kept ++ [(next_id t, VO ty)]
      | AInc z => inc_reg z r
      | _ => kept
      end
    end.
Proof.
  intros W H. cbv zeta. apply update_op_inv in H. destruct H as [(R & -> & _)|(a' & r' & R & Hc & -> & _)].
  - rewrite R. split; [apply frame_upd_refl|reflexivity].
  - rewrite R. rewrite tx_all_push.
    set (r := reg_at (tx_all t) obj K) in *.
    set (n := mkOp (next_id t) obj K false a' (map fst r')).
    pose proof (resolve_incl _ _ _ _ R) as Inc.
    destruct (wf_tx_parts t W) as (S & _ & _).
    assert (F : fresh (tx_all t) n).
    { apply fresh_of_wf; [exact W|reflexivity|]. cbn [op_pred n]. intros p Hp.
      apply in_map_iff in Hp. destruct Hp as ([i w] & <- & Hp). eapply reg_ids_below; [exact W|]. apply Inc, Hp. }
    split.
    + split.
      * intros K' NK. eapply (upd_frame_key (tx_all t) n obj K r'); eauto.
      * intros obj' K' NO. eapply (upd_frame_obj (tx_all t) n obj); eauto.
      * intros obj' NO. eapply (upd_obj_ops (tx_all t) n obj); eauto.
      * intros obj'. eapply (upd_elem_order (tx_all t) n); eauto.
    + rewrite (upd_target (tx_all t) n obj K r' F eq_refl eq_refl eq_refl Inc).
      fold r.
      assert (Kept : is_inc n = false ->
                flat_map (updv n) r = flat_map (fun iw => if memb opid_eqb (fst iw) (map fst r') then [] else [iw]) r).
      { intros Hi. apply flat_map_ext'. intros iw. unfold updv. cbn [op_pred n]. rewrite Hi.
        destruct (memb opid_eqb (fst iw) (map fst r')); reflexivity. }
      destruct a' as [v|ty| |z|ex nm mv|ex].
      * rewrite Kept by reflexivity. rewrite (own_reg_put n v) by reflexivity. reflexivity.
      * rewrite Kept by reflexivity. rewrite (own_reg_make n ty) by reflexivity. reflexivity.
      * rewrite Kept by reflexivity. rewrite own_reg_del by reflexivity. apply app_nil_r.
      * (* increment: resolve_action keeps every visible op as predecessor *)
        assert (r' = r).
        { unfold resolve_action in R. destruct (winner r) as [[i w]|]; destruct a; try discriminate;
            try (inversion R; reflexivity).
          destruct (same_value w v); [destruct (length r =? 1)%nat; discriminate|discriminate]. }
        subst r'. rewrite (own_reg_inc n z) by reflexivity. rewrite app_nil_r.
        rewrite updv_all_inc; [reflexivity|reflexivity|].
        intros iw Hiw. cbn [op_pred n]. apply in_map, Hiw.
      * rewrite Kept by reflexivity. unfold own_reg, own. cbn. apply app_nil_r.
      * rewrite Kept by reflexivity. unfold own_reg, own. cbn. apply app_nil_r.
Qed.

(* ================= lifting to [observe] ================= *)
Lemma find_app' {A} (p : A -> bool) l l' :
  find p (l ++ l') = match find p l with Some x => Some x | None => find p l' end.
Proof. induction l as [|x t IH]; cbn; [reflexivity|]. destruct (p x); [reflexivity|exact IH]. Qed.

Lemma lookup_type_snoc ops n obj' : obj' <> op_id n -> lookup_type (ops ++ [n]) obj' = lookup_type ops obj'.
Proof.
  intros NE. unfold lookup_type. rewrite objects_snoc, find_app'.
  destruct (find (fun ot => opid_eqb (fst ot) obj') (objects ops)); [reflexivity|].
  destruct (make_type n); [|reflexivity]. cbn. rewrite opid_eqb_false by congruence. reflexivity.
Qed.

Lemma objects_ids ops ot : In ot (objects ops) -> fst ot = root_id \/ exists o, In o ops /\ op_id o = fst ot.
Proof.
  unfold objects. intros [<-|H]; [left; reflexivity|]. right.
  apply in_flat_map in H. destruct H as (o & Ho & H). destruct (make_type o); [|destruct H].
  destruct H as [<-|[]]. exists o. auto.
Qed.

Lemma lookup_type_new ops n ty :
  fresh ops n -> op_id n <> root_id -> make_type n = Some ty -> lookup_type (ops ++ [n]) (op_id n) = Some ty.
Proof.
  intros F NR M. unfold lookup_type. rewrite objects_snoc, find_app', M.
  destruct (find (fun ot => opid_eqb (fst ot) (op_id n)) (objects ops)) as [ot|] eqn:E.
  - exfalso. apply find_some in E. destruct E as [Hin E]. apply opid_eqb_spec in E.
    destruct (objects_ids _ _ Hin) as [H|(o & Ho & H)]; [congruence|].
    apply (fr_id _ _ F o Ho). congruence.
  - cbn. rewrite opid_eqb_refl. reflexivity.
Qed.

Lemma observe_ids ops : map oo_id (observe_sorted ops) = map fst (objects ops).
Proof.
  unfold observe_sorted. rewrite map_map. apply map_ext. intros ot. apply oo_id_observe_obj.
Qed.

Lemma update_ssorted t obj K r a t' oid :
  wf_tx t -> update_op t obj K r a = EOk (t', oid) -> ssorted (tx_all t').
Proof.
  intros W H. destruct (wf_tx_parts t W) as (S & B & _).
  apply update_op_inv in H. destruct H as [(_ & -> & _)|(a' & r' & _ & _ & -> & _)]; [exact S|].
  rewrite tx_all_push. eapply ssorted_snoc; [exact S|exact B|]. cbn. unfold next_ctr. lia.
Qed.

(* other objects: the whole object observation is unchanged *)
Lemma frame_obs_obj ops ops' obj obj' K :
  frame_upd ops ops' obj K -> obj' <> obj -> lookup_type ops' obj' = lookup_type ops obj' ->
  obs_obj (observe_sorted ops') obj' = obs_obj (observe_sorted ops) obj'.
Proof.
  intros Fr NE L. rewrite !obs_obj_sorted, L. rewrite (fu_obj_ops _ _ _ _ Fr) by exact NE. reflexivity.
Qed.

Lemma update_lookup t obj K r a t' oid obj' :
  update_op t obj K r a = EOk (t', oid) -> obj' <> next_id t ->
  lookup_type (tx_all t') obj' = lookup_type (tx_all t) obj'.
Proof.
  intros H NE. apply update_op_inv in H. destruct H as [(_ & -> & _)|(a' & r' & _ & _ & -> & _)]; [reflexivity|].
  rewrite tx_all_push. apply lookup_type_snoc. exact NE.
Qed.

Lemma lookup_type_below t obj ty : wf_tx t -> lookup_type (tx_all t) obj = Some ty -> obj <> next_id t.
Proof.
  intros W L E. destruct (wf_tx_parts t W) as (_ & B & St). rewrite Forall_forall in B.
  unfold lookup_type in L.
  destruct (find (fun ot => opid_eqb (fst ot) obj) (objects (tx_all t))) as [ot|] eqn:Fd; [|discriminate].
  apply find_some in Fd. destruct Fd as [Hin Eq]. apply opid_eqb_spec in Eq.
  destruct (objects_ids _ _ Hin) as [H|(o & Ho & H)].
  - rewrite Eq in H. rewrite E in H. unfold root_id, next_id in H. inversion H. lia.
  - destruct (op_below_parts _ _ (B o Ho)) as (A & _). rewrite H, Eq, E, next_id_ctr in A. lia.
Qed.

(* --- a map register through [observe] --- *)
Theorem map_update_obs t obj ty k a t' oid :
  wf_tx t -> lookup_type (tx_all t) obj = Some ty -> is_seq_type ty = false ->
  local_map_op t obj k a = EOk (t', oid) ->
  let ob := observe (tx_all t) in
  let ob' := observe (tx_all t') in
  obs_reg ob' obj k = reg_at (tx_all t') obj (KMap k)
  /\ obs_reg ob obj k = reg_at (tx_all t) obj (KMap k)
  /\ (forall k', k' <> k -> obs_reg ob' obj k' = obs_reg ob obj k')
  /\ (forall obj', obj' <> obj -> obj' <> next_id t -> obs_obj ob' obj' = obs_obj ob obj').
Proof.
  intros W L Sq H. cbv zeta. unfold local_map_op in H.
  destruct (wf_tx_parts t W) as (S & _ & _).
  pose proof (update_ssorted _ _ _ _ _ _ _ W H) as S'.
  pose proof (lookup_type_below _ _ _ W L) as NEo.
  pose proof (update_lookup _ _ _ _ _ _ _ obj H NEo) as L'. rewrite L in L'.
  destruct (update_op_spec _ _ _ _ _ _ W H) as [Fr _].
  rewrite (observe_sorted_eq _ S), (observe_sorted_eq _ S').
  split; [apply (obs_reg_spec _ _ ty); assumption|].
  split; [apply (obs_reg_spec _ _ ty); assumption|].
  split.
  - intros k' NK. rewrite (obs_reg_spec _ _ ty k' L' Sq), (obs_reg_spec _ _ ty k' L Sq).
    apply (fu_keys _ _ _ _ Fr). congruence.
  - intros obj' NE NN. eapply frame_obs_obj; [exact Fr|exact NE|].
    eapply update_lookup; [exact H|exact NN].
Qed.

(* ================= put / delete / increment / put_object on a map ================= *)
Lemma kept_all (r : regobs) :
  flat_map (fun iw : opid * vobs => if memb opid_eqb (fst iw) (map fst r) then [] else [iw]) r = [].
Proof.
  assert (G : forall l, incl l r ->
    flat_map (fun iw : opid * vobs => if memb opid_eqb (fst iw) (map fst r) then [] else [iw]) l = []).
  { induction l as [|iw l IH]; intros I; [reflexivity|]. cbn [flat_map].
    rewrite (proj2 (memb_opid_In _ _)) by (apply in_map, I; left; reflexivity).
    apply IH. intros x Hx. apply I. right. exact Hx. }
  apply G, incl_refl.
Qed.

Lemma kept_last (r : regobs) iw :
  NoDup (map fst r) -> winner r = Some iw ->
  flat_map (fun x : opid * vobs => if memb opid_eqb (fst x) (map fst (removelast r)) then [] else [x]) r = [iw].
Proof.
  intros ND W. pose proof (winner_split _ _ W) as E. set (rl := removelast r) in *.
  rewrite E. rewrite flat_map_app. cbn [flat_map]. rewrite app_nil_r.
  rewrite E, map_app in ND. cbn [map] in ND.
  assert (Hn : ~ In (fst iw) (map fst rl)).
  { intros Hin. apply NoDup_remove_2 in ND. apply ND. rewrite app_nil_r. exact Hin. }
  rewrite (memb_opid_false _ _ Hn).
  replace (flat_map _ rl) with (@nil (opid * vobs)); [reflexivity|].
  symmetry. apply kept_all.
Qed.

Lemma drop_id_ok {A B} (r : eres (A * B)) x : drop_id r = EOk x -> exists y, r = EOk (x, y).
Proof. unfold drop_id, ebind. destruct r as [[a b]| |]; intros H; inversion H. exists b. reflexivity. Qed.

Theorem put_map_spec e t obj k v t' :
  wf_tx t -> lookup_type (tx_all t) obj = Some OMap ->
  step e t (CPut obj (PMap k) v) = EOk t' ->
  let ob := observe (tx_all t) in
  let ob' := observe (tx_all t') in
  obs_reg ob' obj k =
    match winner (obs_reg ob obj k) with
    | Some (i, w) => if same_value w v then [(i, w)] else [(next_id t, scalar_vobs v)]
    | None => [(next_id t, scalar_vobs v)]
    end
  /\ (forall k', k' <> k -> obs_reg ob' obj k' = obs_reg ob obj k')
  /\ (forall obj', obj' <> obj -> obs_obj ob' obj' = obs_obj ob obj').
Proof.
  intros W L H. cbv zeta. unfold step, with_obj in H. rewrite L in H.
  apply drop_id_ok in H. destruct H as [oid H]. cbn [local_op] in H.
  destruct (map_update_obs t obj OMap k (APut v) t' oid W L eq_refl H) as (E' & E & Fk & Fo).
  split; [|split; [exact Fk|]].
  - rewrite E', E. unfold local_map_op in H.
    destruct (update_op_spec _ _ _ _ _ _ W H) as [_ R]. rewrite R. clear R.
    set (r := reg_at (tx_all t) obj (KMap k)).
    destruct (wf_tx_parts t W) as (S & _ & _).
    pose proof (reg_ids_nodup (tx_all t) obj (KMap k) (ssorted_nodup _ S)) as ND. fold r in ND.
    unfold resolve_action. destruct (winner r) as [[i w]|] eqn:Wn.
    + destruct (same_value w v).
      * destruct (length r =? 1)%nat eqn:Len.
        -- apply Nat.eqb_eq in Len. pose proof (winner_split _ _ Wn) as Sp.
           destruct r as [|x [|y r']]; cbn in Len; try discriminate. cbn in Sp. exact Sp.
        -- apply kept_last; assumption.
      * rewrite kept_all. reflexivity.
    + rewrite (winner_none _ Wn). reflexivity.
  - intros obj' NE. destruct (opid_eqb obj' (next_id t)) eqn:En.
    + apply opid_eqb_spec in En. subst obj'.
      (* a put creates no object: the id of the new op names no object before or after *)
      unfold local_map_op in H. apply update_op_inv in H.
      destruct H as [(_ & -> & _)|(a' & r' & R & _ & -> & _)]; [reflexivity|].
      destruct (wf_tx_parts t W) as (S & B & _).
      assert (S' : ssorted (tx_all t ++ [mkOp (next_id t) obj (KMap k) false a' (map fst r')])).
      { eapply ssorted_snoc; [exact S|exact B|]. cbn. unfold next_ctr. lia. }
      rewrite tx_all_push. rewrite (observe_sorted_eq _ S), (observe_sorted_eq _ S'), !obs_obj_sorted.
      assert (Nm : make_type (mkOp (next_id t) obj (KMap k) false a' (map fst r')) = None).
      { unfold resolve_action in R. destruct (winner (reg_at (tx_all t) obj (KMap k))) as [[i w]|].
        - destruct (same_value w v); [destruct (length _ =? 1)%nat; [discriminate|]|]; inversion R; reflexivity.
        - inversion R; reflexivity. }
      rewrite (lookup_type_snoc_nomake _ _ _ Nm).
      destruct (lookup_type (tx_all t) (next_id t)) eqn:Lk; [|reflexivity].
      exfalso. exact (lookup_type_below _ _ _ W Lk eq_refl).
    + apply Fo; [exact NE|]. intros ->. rewrite opid_eqb_refl in En. discriminate.
Qed.

(* the id of a new op that is not a make names no object, before or after *)
Lemma no_new_object t n :
  wf_tx t -> op_id n = next_id t -> make_type n = None ->
  obs_obj (observe (tx_all (push t n))) (next_id t) = obs_obj (observe (tx_all t)) (next_id t).
Proof.
  intros W Hid Nm. destruct (wf_tx_parts t W) as (S & B & _).
  assert (S' : ssorted (tx_all t ++ [n])).
  { eapply ssorted_snoc; [exact S|exact B|]. rewrite Hid. cbn. unfold next_ctr. lia. }
  rewrite tx_all_push. rewrite (observe_sorted_eq _ S), (observe_sorted_eq _ S'), !obs_obj_sorted.
  rewrite (lookup_type_snoc_nomake _ _ _ Nm).
  destruct (lookup_type (tx_all t) (next_id t)) eqn:Lk; [|reflexivity].
  exfalso. exact (lookup_type_below _ _ _ W Lk eq_refl).
Qed.

Lemma resolve_not_put r a a' r' :
  (forall v, a <> APut v) -> resolve_action r a = Some (a', r') -> a' = a /\ r' = r.
Proof.
  intros NP. unfold resolve_action. destruct (winner r) as [[i w]|]; destruct a; intros H; inversion H; auto.
  all: exfalso; eapply NP; reflexivity.
Qed.

Theorem delete_map_spec e t obj k t' :
  wf_tx t -> lookup_type (tx_all t) obj = Some OMap ->
  step e t (CDelete obj (PMap k)) = EOk t' ->
  let ob := observe (tx_all t) in
  let ob' := observe (tx_all t') in
  obs_reg ob' obj k = []
  /\ (forall k', k' <> k -> obs_reg ob' obj k' = obs_reg ob obj k')
  /\ (forall obj', obj' <> obj -> obs_obj ob' obj' = obs_obj ob obj').
Proof.
  intros W L H. cbv zeta. unfold step, with_obj in H. rewrite L in H.
  apply drop_id_ok in H. destruct H as [oid H]. cbn [local_op] in H.
  destruct (map_update_obs t obj OMap k ADel t' oid W L eq_refl H) as (E' & E & Fk & Fo).
  split; [|split; [exact Fk|]].
  - rewrite E'. unfold local_map_op in H.
    destruct (update_op_spec _ _ _ _ _ _ W H) as [_ R]. rewrite R. clear R.
    set (r := reg_at (tx_all t) obj (KMap k)).
    unfold resolve_action. destruct (winner r) as [[i w]|] eqn:Wn.
    + apply kept_all.
    + apply (winner_none _ Wn).
  - intros obj' NE. destruct (opid_eqb obj' (next_id t)) eqn:En.
    + apply opid_eqb_spec in En. subst obj'.
      unfold local_map_op in H. apply update_op_inv in H.
      destruct H as [(_ & -> & _)|(a' & r' & R & _ & -> & _)]; [reflexivity|].
      apply no_new_object; [exact W|reflexivity|].
      assert (NP : forall v, ADel <> APut v) by (intros; discriminate).
      destruct (resolve_not_put _ _ _ _ NP R) as [-> _]. reflexivity.
    + apply Fo; [exact NE|]. intros ->. rewrite opid_eqb_refl in En. discriminate.
Qed.

Theorem increment_map_spec e t obj k z t' :
  wf_tx t -> lookup_type (tx_all t) obj = Some OMap ->
  step e t (CInc obj (PMap k) z) = EOk t' ->
  let ob := observe (tx_all t) in
  let ob' := observe (tx_all t') in
  existsb is_vc (obs_reg ob obj k) = true
  /\ obs_reg ob' obj k = inc_reg z (obs_reg ob obj k)
  /\ (forall k', k' <> k -> obs_reg ob' obj k' = obs_reg ob obj k')
  /\ (forall obj', obj' <> obj -> obs_obj ob' obj' = obs_obj ob obj').
Proof.
  intros W L H. cbv zeta. unfold step, with_obj in H. rewrite L in H.
  apply drop_id_ok in H. destruct H as [oid H]. cbn [local_op] in H.
  destruct (map_update_obs t obj OMap k (AInc z) t' oid W L eq_refl H) as (E' & E & Fk & Fo).
  unfold local_map_op in H.
  assert (Rs : forall r, resolve_action r (AInc z) = Some (AInc z, r)).
  { intros r. unfold resolve_action. destruct (winner r) as [[i w]|]; reflexivity. }
  split; [|split; [|split; [exact Fk|]]].
  - rewrite E. apply update_op_inv in H. rewrite Rs in H.
    destruct H as [(R & _)|(a' & r' & R & Hc & _)]; [discriminate|]. inversion R; subst a' r'.
    cbn [is_inc_action andb] in Hc. destruct (existsb is_vc _); [reflexivity|discriminate].
  - rewrite E', E. destruct (update_op_spec _ _ _ _ _ _ W H) as [_ R]. rewrite R, Rs. reflexivity.
  - intros obj' NE. destruct (opid_eqb obj' (next_id t)) eqn:En.
    + apply opid_eqb_spec in En. subst obj'.
      apply update_op_inv in H. rewrite Rs in H.
      destruct H as [(R & _)|(a' & r' & R & _ & -> & _)]; [discriminate|]. inversion R; subst a' r'.
      apply no_new_object; [exact W|reflexivity|reflexivity].
    + apply Fo; [exact NE|]. intros ->. rewrite opid_eqb_refl in En. discriminate.
Qed.

Lemma obj_ops_fresh ops n : fresh ops n -> obj_ops ops (op_id n) = [].
Proof.
  unfold obj_ops. induction ops as [|o l IH]; intros F; [reflexivity|]. cbn [filter].
  rewrite (opid_eqb_false (op_obj o) (op_id n)) by (apply (fr_obj _ _ F o); left; reflexivity).
  apply IH. eapply fresh_incl; [|exact F]. intros x Hx. right. exact Hx.
Qed.

(* put_object: the register holds the new object, which exists and is empty; nothing else moves *)
Theorem put_object_map_spec e t obj k nt t' :
  wf_tx t -> lookup_type (tx_all t) obj = Some OMap ->
  step e t (CPutObj obj (PMap k) nt) = EOk t' ->
  let ob := observe (tx_all t) in
  let ob' := observe (tx_all t') in
  obs_reg ob' obj k = [(next_id t, VO nt)]
  /\ obs_obj ob' (next_id t) = Some (observe_obj [] (next_id t) nt)
  /\ (forall k', k' <> k -> obs_reg ob' obj k' = obs_reg ob obj k')
  /\ (forall obj', obj' <> obj -> obj' <> next_id t -> obs_obj ob' obj' = obs_obj ob obj').
Proof.
  intros W L H. cbv zeta. unfold step, with_obj in H. rewrite L in H.
  apply drop_id_ok in H. destruct H as [oid H]. cbn [local_op] in H.
  destruct (map_update_obs t obj OMap k (AMake nt) t' oid W L eq_refl H) as (E' & E & Fk & Fo).
  unfold local_map_op in H.
  assert (Rs : forall r, resolve_action r (AMake nt) = Some (AMake nt, r)).
  { intros r. unfold resolve_action. destruct (winner r) as [[i w]|]; reflexivity. }
  split; [|split; [|split; [exact Fk|exact Fo]]].
  - rewrite E'. destruct (update_op_spec _ _ _ _ _ _ W H) as [_ R]. rewrite R, Rs. cbv zeta.
    rewrite kept_all. reflexivity.
  - apply update_op_inv in H. rewrite Rs in H.
    destruct H as [(R & _)|(a' & r' & R & _ & -> & _)]; [discriminate|]. inversion R; subst a' r'.
    set (r := reg_at (tx_all t) obj (KMap k)).
    set (n := mkOp (next_id t) obj (KMap k) false (AMake nt) (map fst r)).
    destruct (wf_tx_parts t W) as (S & B & St).
    assert (F : fresh (tx_all t) n).
    { apply fresh_of_wf; [exact W|reflexivity|]. cbn [op_pred n]. intros p Hp.
      apply in_map_iff in Hp. destruct Hp as ([i w] & <- & Hp). eapply reg_ids_below; [exact W|exact Hp]. }
    assert (S' : ssorted (tx_all t ++ [n])).
    { eapply ssorted_snoc; [exact S|exact B|]. cbn. unfold next_ctr. lia. }
    rewrite tx_all_push, (observe_sorted_eq _ S'), obs_obj_sorted.
    assert (Lk : lookup_type (tx_all t ++ [n]) (op_id n) = Some nt).
    { apply lookup_type_new; [exact F| |reflexivity]. cbn. unfold next_id, root_id. intros Q. inversion Q. lia. }
    change (op_id n) with (next_id t) in Lk. rewrite Lk.
    cbn [option_map]. f_equal. f_equal.
    (* no op lives in the new object *)
    rewrite obj_ops_snoc. cbn [op_obj n op_id n].
    rewrite (opid_eqb_false obj (next_id t)) by (apply (lookup_type_below _ _ _ W L)).
    rewrite app_nil_r. apply (obj_ops_fresh _ n F).
Qed.

Lemma wf_tx_ids_pos t o : wf_tx t -> In o (tx_all t) -> 0 < fst (op_id o).
Proof.
  unfold wf_tx, wf_tx_b. rewrite !andb_true_iff. intros [_ D] Ho. rewrite forallb_forall in D.
  apply N.ltb_lt, D, Ho.
Qed.

(* ================= insert ================= *)
Lemma insert_after_in r x l e : In e (insert_after r x l) -> e = x \/ In e l.
Proof.
  induction l as [|y t IH]; cbn.
  - intros [<-|[]]. left. reflexivity.
  - destruct (opid_eqb y r); cbn.
    + intros [<-|[<-|H]]; auto.
    + intros [<-|H]; auto. destruct (IH H); auto.
Qed.

Lemma insert_after_perm r x l : Permutation (insert_after r x l) (x :: l).
Proof.
  induction l as [|y t IH]; cbn; [reflexivity|].
  destruct (opid_eqb y r).
  - apply perm_swap.
  - rewrite IH. apply perm_swap.
Qed.

Lemma place_perm l o : Permutation (place l o) (op_id o :: l).
Proof. unfold place. destruct (opid_eqb (ref_of o) head_id); [reflexivity|apply insert_after_perm]. Qed.

Lemma fold_place_perm os acc : Permutation (fold_left place os acc) (map op_id os ++ acc).
Proof.
  revert acc. induction os as [|o t IH]; intros acc; cbn; [reflexivity|].
  rewrite IH. rewrite place_perm. apply Permutation_sym, Permutation_middle.
Qed.

Lemma elem_order_perm ops : Permutation (elem_order ops) (map op_id (filter op_insert ops)).
Proof. unfold elem_order. rewrite fold_place_perm, app_nil_r. reflexivity. Qed.

Lemma elem_order_nodup ops : NoDup (map op_id ops) -> NoDup (elem_order ops).
Proof.
  intros ND. eapply Permutation_NoDup; [apply Permutation_sym, elem_order_perm|].
  apply nodup_map_filter, ND.
Qed.

Lemma elem_order_in ops e : In e (elem_order ops) -> exists o, In o ops /\ op_id o = e.
Proof.
  intros H. eapply Permutation_in in H; [|apply elem_order_perm].
  apply in_map_iff in H. destruct H as (o & <- & H). apply filter_In in H. exists o. tauto.
Qed.

Lemma elem_order_snoc ops n :
  elem_order (ops ++ [n]) = if op_insert n then place (elem_order ops) n else elem_order ops.
Proof.
  unfold elem_order. rewrite filter_app. cbn [filter]. destruct (op_insert n).
  - rewrite fold_left_app. reflexivity.
  - rewrite app_nil_r. reflexivity.
Qed.

Lemma insert_after_split r x l1 l2 : ~ In r l1 -> insert_after r x (l1 ++ r :: l2) = l1 ++ r :: x :: l2.
Proof.
  induction l1 as [|y t IH]; intros H; cbn.
  - rewrite opid_eqb_refl. reflexivity.
  - rewrite opid_eqb_false by (intros ->; apply H; left; reflexivity).
    rewrite IH by (intros Hin; apply H; right; exact Hin). reflexivity.
Qed.

(* the visible elements, as a function of the element order *)
Definition gel (ops : list op) (obj : opid) (e : opid) : list (opid * regobs) :=
  match reg_at ops obj (KSeq e) with [] => [] | r => [(e, r)] end.

Lemma seq_elems_gel ops obj : seq_elems ops obj = flat_map (gel ops obj) (elem_order (obj_ops ops obj)).
Proof. reflexivity. Qed.

Lemma gel_shape ops obj e : gel ops obj e = [] \/ exists r, gel ops obj e = [(e, r)].
Proof. unfold gel. destruct (reg_at ops obj (KSeq e)); [left; reflexivity|right; eexists; reflexivity]. Qed.

Lemma nth_flat_split (g : opid -> list (opid * regobs)) L k e r :
  (forall e', g e' = [] \/ exists r', g e' = [(e', r')]) ->
  nth_error (flat_map g L) k = Some (e, r) ->
  exists L1 L2, L = L1 ++ e :: L2 /\ length (flat_map g L1) = k /\ g e = [(e, r)].
Proof.
  intros Sh. revert k. induction L as [|a L IH]; intros k H; cbn [flat_map] in H.
  - destruct k; discriminate.
  - destruct (Sh a) as [Ea|[ra Ea]]; rewrite Ea in H; cbn [app] in H.
    + destruct (IH k H) as (L1 & L2 & -> & Hl & Hg). exists (a :: L1), L2. cbn [flat_map]. rewrite Ea. auto.
    + destruct k as [|k].
      * cbn in H. inversion H; subst. exists [], L. auto.
      * cbn in H. destruct (IH k H) as (L1 & L2 & -> & Hl & Hg). exists (a :: L1), L2.
        cbn [flat_map]. rewrite Ea. cbn. auto.
Qed.

Lemma seek_nth w els idx acc p0 e r s wd p :
  seek w els idx acc p0 = Some (e, r, s, wd, p) ->
  exists k, p = (p0 + k)%nat /\ nth_error els k = Some (e, r).
Proof.
  revert acc p0. induction els as [|[e' r'] t IH]; intros acc p0 H; cbn [seek] in H; [discriminate|].
  destruct (idx <? acc + w r').
  - inversion H; subst. exists O. split; [lia|reflexivity].
  - destruct (IH _ _ H) as (k & -> & Hk). exists (S k). split; [lia|exact Hk].
Qed.

Lemma updv_nopred n (r : regobs) : op_pred n = [] -> flat_map (updv n) r = r.
Proof.
  intros Hp. induction r as [|iw t IH]; [reflexivity|]. cbn [flat_map]. rewrite IH.
  unfold updv. rewrite Hp. reflexivity.
Qed.

Lemma reg_at_fresh_slot ops n obj : fresh ops n -> reg_at ops obj (KSeq (op_id n)) = [].
Proof.
  intros F. destruct (reg_at ops obj (KSeq (op_id n))) as [|[i w] r] eqn:E; [reflexivity|].
  exfalso. assert (Hin : In (i, w) (reg_at ops obj (KSeq (op_id n)))) by (rewrite E; left; reflexivity).
  apply reg_at_in in Hin. destruct Hin as (o & Ho & _ & _ & Hs).
  unfold slot in Hs. destruct (op_key o) as [s|el] eqn:Ko; [discriminate|].
  destruct (op_insert o).
  - inversion Hs. apply (fr_id _ _ F o Ho). assumption.
  - inversion Hs. subst el. apply (fr_key _ _ F o Ho). exact Ko.
Qed.

Theorem insert_effect ops n obj ref :
  ssorted ops -> fresh ops n -> op_insert n = true -> op_obj n = obj -> op_key n = KSeq ref ->
  op_pred n = [] ->
  (forall obj' K', (obj' <> obj \/ K' <> KSeq (op_id n)) -> reg_at (ops ++ [n]) obj' K' = reg_at ops obj' K')
  /\ reg_at (ops ++ [n]) obj (KSeq (op_id n)) = own_reg n
  /\ elem_order (obj_ops (ops ++ [n]) obj) = place (elem_order (obj_ops ops obj)) n
  /\ (forall obj', obj' <> obj -> obj_ops (ops ++ [n]) obj' = obj_ops ops obj').
Proof.
  intros S F Hi Ho Hk Hp.
  assert (Sl : slot n = KSeq (op_id n)) by (unfold slot; rewrite Hk, Hi; reflexivity).
  split; [|split; [|split]].
  - intros obj' K' H. rewrite reg_at_snoc by exact F. rewrite Ho.
    destruct (opid_eqb obj obj') eqn:E; [|reflexivity].
    apply opid_eqb_spec in E. subst obj'. rewrite updv_nopred by exact Hp. rewrite Sl.
    rewrite key_eqb_false; [apply app_nil_r|]. destruct H as [H|H]; congruence.
  - rewrite reg_at_snoc by exact F. rewrite Ho, opid_eqb_refl, Sl, key_eqb_refl.
    rewrite reg_at_fresh_slot by exact F. reflexivity.
  - rewrite obj_ops_snoc, Ho, opid_eqb_refl, elem_order_snoc, Hi. reflexivity.
  - intros obj' NE. rewrite obj_ops_snoc, Ho. rewrite opid_eqb_false by congruence. apply app_nil_r.
Qed.

Lemma flat_map_ext_in' {A B} (f g : A -> list B) l : (forall x, In x l -> f x = g x) -> flat_map f l = flat_map g l.
Proof.
  induction l as [|x t IH]; intros H; cbn; [reflexivity|].
  rewrite H by (left; reflexivity). rewrite IH; [reflexivity|]. intros y Hy. apply H. right. exact Hy.
Qed.

(* the sequence after an insert: the new element sits at position j *)
Theorem insert_seq e t obj ty index a ref idx j :
  wf_tx t -> is_seq_type ty = true ->
  query_insert e ty (tx_all t) obj index = Some (ref, idx, j) ->
  (forall x y z, a <> AMarkBegin x y z) -> (forall x, a <> AMarkEnd x) -> a <> ADel -> (forall z, a <> AInc z) ->
  let n := mkOp (next_id t) obj (KSeq ref) true a [] in
  let old := map snd (seq_elems (tx_all t) obj) in
  map snd (seq_elems (tx_all t ++ [n]) obj) = firstn j old ++ [own_reg n] ++ skipn j old.
Proof.
  intros W Sq Q A1 A2 A3 A4 n old.
  destruct (wf_tx_parts t W) as (Srt & B & St).
  assert (F : fresh (tx_all t) n).
  { apply fresh_of_wf; [exact W|reflexivity|]. cbn. intros p []. }
  destruct (insert_effect (tx_all t) n obj ref Srt F eq_refl eq_refl eq_refl eq_refl) as (Fr & Own & Ord & _).
  set (ops := tx_all t) in *. set (L := elem_order (obj_ops ops obj)) in *.
  assert (NinL : ~ In (op_id n) L).
  { intros Hin. apply elem_order_in in Hin. destruct Hin as (o & Ho & Hid).
    apply filter_In in Ho. destruct Ho as [Ho _]. exact (fr_id _ _ F o Ho Hid). }
  assert (NDL : NoDup L) by (apply elem_order_nodup, nodup_map_filter, ssorted_nodup, Srt).
  assert (Gold : forall x, In x L -> gel (ops ++ [n]) obj x = gel ops obj x).
  { intros x Hx. unfold gel. rewrite Fr; [reflexivity|]. right. intros E. inversion E. subst x. contradiction. }
  assert (Gnew : gel (ops ++ [n]) obj (op_id n) = [(op_id n, own_reg n)]).
  { unfold gel. rewrite Own. unfold own_reg, own, n. cbn [op_action].
    destruct a as [v| | | | |]; try reflexivity; try (destruct v; reflexivity).
    - exfalso; apply A3; reflexivity.
    - exfalso; eapply A4; reflexivity.
    - exfalso; eapply A1; reflexivity.
    - exfalso; eapply A2; reflexivity. }
  rewrite !seq_elems_gel. fold L. rewrite Ord. fold L. unfold old. rewrite seq_elems_gel. fold L.
  unfold query_insert in Q. destruct (index =? 0) eqn:I0.
  - inversion Q; subst ref idx j. unfold place. cbn [ref_of n op_key op_id].
    rewrite opid_eqb_refl. cbn [flat_map]. change (next_id t) with (op_id n). rewrite Gnew.
    rewrite (flat_map_ext_in' _ _ L Gold). reflexivity.
  - destruct (seek (elem_w e ty) (seq_elems ops obj) (index - 1) 0 0) as [[[[[el r] s] wd] p]|] eqn:Sk; [|discriminate].
    inversion Q; subst ref idx j. clear Q.
    destruct (seek_nth _ _ _ _ _ _ _ _ _ _ Sk) as (k & -> & Hk). cbn [plus] in *.
    rewrite seq_elems_gel in Hk. fold L in Hk.
    destruct (nth_flat_split _ L k el r (gel_shape ops obj) Hk) as (L1 & L2 & EL & Len & Ge).
    assert (Nel : ~ In el L1).
    { rewrite EL in NDL. apply NoDup_remove_2 in NDL. intros Hin. apply NDL. apply in_or_app. left. exact Hin. }
    assert (Hel : el <> head_id).
    { intros ->. assert (Hin : In head_id L) by (rewrite EL; apply in_or_app; right; left; reflexivity).
      apply elem_order_in in Hin. destruct Hin as (o & Ho & Hid). apply filter_In in Ho. destruct Ho as [Ho _].
      pose proof (wf_tx_ids_pos t o W Ho) as P. rewrite Hid in P. cbn in P. lia. }
    unfold place. cbn [ref_of n op_key op_id]. rewrite (opid_eqb_false el head_id Hel).
    rewrite EL. rewrite insert_after_split by exact Nel.
    rewrite !flat_map_app. cbn [flat_map]. change (next_id t) with (op_id n). rewrite Gnew.
    assert (G1 : flat_map (gel (ops ++ [n]) obj) L1 = flat_map (gel ops obj) L1).
    { apply flat_map_ext_in'. intros x Hx. apply Gold. rewrite EL. apply in_or_app. left. exact Hx. }
    assert (G2 : flat_map (gel (ops ++ [n]) obj) L2 = flat_map (gel ops obj) L2).
    { apply flat_map_ext_in'. intros x Hx. apply Gold. rewrite EL. apply in_or_app. right. right. exact Hx. }
    assert (Ge' : gel (ops ++ [n]) obj el = gel ops obj el).
    { apply Gold. rewrite EL. apply in_or_app. right. left. reflexivity. }
    rewrite G1, G2, Ge', Ge. rewrite !map_app. cbn [map snd app].
    set (A := map snd (flat_map (gel ops obj) L1)). set (C := map snd (flat_map (gel ops obj) L2)).
    assert (LA : length A = k) by (unfold A; rewrite map_length; exact Len).
    replace (S k) with (length (A ++ [r])) by (rewrite app_length; cbn; lia).
    replace (A ++ r :: C) with ((A ++ [r]) ++ C) by (rewrite <- app_assoc; reflexivity).
    rewrite firstn_app, skipn_app, Nat.sub_diag, firstn_all, skipn_all. cbn [firstn skipn].
    rewrite !app_nil_r, <- !app_assoc. reflexivity.
Qed.

Lemma seek_unit w els idx acc p0 e r s wd p :
  (forall r, w r = 1) -> acc <= idx -> seek w els idx acc p0 = Some (e, r, s, wd, p) ->
  N.of_nat p = N.of_nat p0 + (idx - acc).
Proof.
  intros Hw. revert acc p0. induction els as [|[e' r'] t IH]; intros acc p0 Le H; cbn [seek] in H; [discriminate|].
  rewrite Hw in H. destruct (idx <? acc + 1) eqn:E.
  - apply N.ltb_lt in E. inversion H; subst. lia.
  - apply N.ltb_ge in E. rewrite (IH (acc + 1) (S p0)); [lia|lia|exact H].
Qed.

Lemma query_insert_list e ops obj i ref idx j :
  query_insert e OList ops obj i = Some (ref, idx, j) -> j = N.to_nat i.
Proof.
  unfold query_insert. destruct (i =? 0) eqn:I0.
  - apply N.eqb_eq in I0. intros H. inversion H. subst. reflexivity.
  - apply N.eqb_neq in I0.
    destruct (seek (elem_w e OList) (seq_elems ops obj) (i - 1) 0 0) as [[[[[el r] s] wd] p]|] eqn:Sk; [|discriminate].
    intros H. inversion H. subst.
    pose proof (seek_unit _ _ _ _ _ _ _ _ _ _ (fun _ => eq_refl) (N.le_0_l _) Sk) as P. lia.
Qed.

(* insert / insert_object through [observe] *)
Lemma do_insert_obs e t obj ty i a t' oid :
  wf_tx t -> lookup_type (tx_all t) obj = Some ty -> is_seq_type ty = true ->
  (forall x y z, a <> AMarkBegin x y z) -> (forall x, a <> AMarkEnd x) -> a <> ADel -> (forall z, a <> AInc z) ->
  do_insert e t obj ty i a = EOk (t', oid) ->
  exists ref idx j,
    query_insert e ty (tx_all t) obj i = Some (ref, idx, j) /\
    t' = push t (mkOp (next_id t) obj (KSeq ref) true a []) /\
    obs_seq (observe (tx_all t')) obj =
      firstn j (obs_seq (observe (tx_all t)) obj)
      ++ [own_reg (mkOp (next_id t) obj (KSeq ref) true a [])]
      ++ skipn j (obs_seq (observe (tx_all t)) obj) /\
    (forall obj', obj' <> obj -> obj' <> next_id t ->
       obs_obj (observe (tx_all t')) obj' = obs_obj (observe (tx_all t)) obj').
Proof.
  intros W L Sq A1 A2 A3 A4 H. unfold do_insert in H.
  destruct (query_insert e ty (tx_all t) obj i) as [[[ref idx] j]|] eqn:Q; [|discriminate].
  inversion H; subst t' oid. clear H. exists ref, idx, j. split; [reflexivity|]. split; [reflexivity|].
  set (n := mkOp (next_id t) obj (KSeq ref) true a []).
  destruct (wf_tx_parts t W) as (Srt & B & St).
  assert (F : fresh (tx_all t) n) by (apply fresh_of_wf; [exact W|reflexivity|]; cbn; intros p []).
  assert (S' : ssorted (tx_all t ++ [n])).
  { eapply ssorted_snoc; [exact Srt|exact B|]. cbn. unfold next_ctr. lia. }
  pose proof (lookup_type_below _ _ _ W L) as NEo.
  assert (L' : lookup_type (tx_all t ++ [n]) obj = Some ty) by (rewrite lookup_type_snoc; [exact L|exact NEo]).
  rewrite tx_all_push, (observe_sorted_eq _ Srt), (observe_sorted_eq _ S').
  split.
  - rewrite (obs_seq_spec _ _ ty L' Sq), (obs_seq_spec _ _ ty L Sq).
    apply (insert_seq e t obj ty i a ref idx j W Sq Q A1 A2 A3 A4).
  - intros obj' NE NN. rewrite !obs_obj_sorted. rewrite lookup_type_snoc by exact NN.
    destruct (insert_effect (tx_all t) n obj ref Srt F eq_refl eq_refl eq_refl eq_refl) as (_ & _ & _ & Fo).
    rewrite Fo by exact NE. reflexivity.
Qed.

Theorem insert_spec e t obj ty i v t' :
  wf_tx t -> lookup_type (tx_all t) obj = Some ty -> is_seq_type ty = true ->
  step e t (CInsert obj i v) = EOk t' ->
  let ob := observe (tx_all t) in
  let ob' := observe (tx_all t') in
  exists ref idx j,
    query_insert e ty (tx_all t) obj i = Some (ref, idx, j) /\
    (ty = OList -> j = N.to_nat i) /\
    obs_seq ob' obj = firstn j (obs_seq ob obj) ++ [[(next_id t, scalar_vobs v)]] ++ skipn j (obs_seq ob obj) /\
    (forall obj', obj' <> obj -> obs_obj ob' obj' = obs_obj ob obj').
Proof.
  intros W L Sq H. cbv zeta. unfold step, with_obj in H. rewrite L, Sq in H.
  apply drop_id_ok in H. destruct H as [oid H].
  destruct (do_insert_obs e t obj ty i (APut v) t' oid W L Sq) as (ref & idx & j & Q & Et & Hs & Fo);
    try (intros; discriminate); [exact H|].
  exists ref, idx, j. split; [exact Q|]. split.
  - intros ->. eapply query_insert_list, Q.
  - split.
    + rewrite Hs. rewrite (own_reg_put _ v) by reflexivity. reflexivity.
    + intros obj' NE. destruct (opid_eqb obj' (next_id t)) eqn:En.
      * apply opid_eqb_spec in En. subst obj'. rewrite Et. apply no_new_object; [exact W|reflexivity|reflexivity].
      * apply Fo; [exact NE|]. intros ->. rewrite opid_eqb_refl in En. discriminate.
Qed.

Theorem insert_object_spec e t obj ty i nt t' :
  wf_tx t -> lookup_type (tx_all t) obj = Some ty -> is_seq_type ty = true ->
  step e t (CInsertObj obj i nt) = EOk t' ->
  let ob := observe (tx_all t) in
  let ob' := observe (tx_all t') in
  exists ref idx j,
    query_insert e ty (tx_all t) obj i = Some (ref, idx, j) /\
    (ty = OList -> j = N.to_nat i) /\
    obs_seq ob' obj = firstn j (obs_seq ob obj) ++ [[(next_id t, VO nt)]] ++ skipn j (obs_seq ob obj) /\
    (forall obj', obj' <> obj -> obj' <> next_id t -> obs_obj ob' obj' = obs_obj ob obj').
Proof.
  intros W L Sq H. cbv zeta. unfold step, with_obj in H. rewrite L, Sq in H.
  apply drop_id_ok in H. destruct H as [oid H].
  destruct (do_insert_obs e t obj ty i (AMake nt) t' oid W L Sq) as (ref & idx & j & Q & Et & Hs & Fo);
    try (intros; discriminate); [exact H|].
  exists ref, idx, j. split; [exact Q|]. split.
  - intros ->. eapply query_insert_list, Q.
  - split; [|exact Fo]. rewrite Hs. rewrite (own_reg_make _ nt) by reflexivity. reflexivity.
Qed.

(* ================= failing calls: when, and with what ================= *)
Theorem unknown_object_error e t c :
  lookup_type (tx_all t)
    (match c with
     | CPut o _ _ | CPutObj o _ _ | CInsert o _ _ | CInsertObj o _ _ | CDelete o _ | CInc o _ _
     | CSplice o _ _ _ | CSpliceText o _ _ _ => o end) = None ->
  step e t c = EErr EInvalidObj.
Proof. intros L. destruct c; cbn [step]; unfold with_obj; rewrite L; reflexivity. Qed.

Theorem wrong_key_kind_error e t obj :
  (forall k v, lookup_type (tx_all t) obj = Some OList -> step e t (CPut obj (PMap k) v) = EErr EInvalidOp) /\
  (forall i v, lookup_type (tx_all t) obj = Some OMap -> step e t (CPut obj (PSeq i) v) = EErr EInvalidOp) /\
  (forall i v, lookup_type (tx_all t) obj = Some OMap -> step e t (CInsert obj i v) = EErr EInvalidOp) /\
  (forall i nt, lookup_type (tx_all t) obj = Some OText -> step e t (CPutObj obj (PSeq i) nt) = EErr EInvalidOp) /\
  (forall i z, lookup_type (tx_all t) obj = Some OMap -> step e t (CInc obj (PSeq i) z) = EErr EInvalidOp) /\
  (forall i, lookup_type (tx_all t) obj = Some OMap -> step e t (CDelete obj (PSeq i)) = EErr EInvalidOp) /\
  (forall k, lookup_type (tx_all t) obj = Some OList -> step e t (CDelete obj (PMap k)) = EErr EInvalidOp) /\
  (forall k, lookup_type (tx_all t) obj = Some OText -> step e t (CDelete obj (PMap k)) = EErr EInvalidOp) /\
  (forall i d s, lookup_type (tx_all t) obj = Some OList -> step e t (CSpliceText obj i d s) = EErr EInvalidOp).
Proof.
  repeat split; intros; cbn [step]; unfold with_obj; rewrite H; reflexivity.
Qed.

Lemma seek_none_iff w els idx acc p0 :
  acc <= idx ->
  (seek w els idx acc p0 = None <-> acc + fold_right (fun er s => w (snd er) + s) 0 els <= idx).
Proof.
  revert acc p0. induction els as [|[e r] t IH]; intros acc p0 Le; cbn [seek fold_right snd].
  - split; [intros _; lia|reflexivity].
  - destruct (idx <? acc + w r) eqn:E.
    + apply N.ltb_lt in E. split; [discriminate|lia].
    + apply N.ltb_ge in E. rewrite IH by lia. lia.
Qed.

(* an index beyond the end of a list: insert, put, put_object, increment, delete all fail with InvalidIndex *)
Theorem index_out_of_range_error e t obj i :
  lookup_type (tx_all t) obj = Some OList ->
  N.of_nat (length (seq_elems (tx_all t) obj)) <= i ->
  (forall v, step e t (CPut obj (PSeq i) v) = EErr EInvalidIndex) /\
  (forall nt, step e t (CPutObj obj (PSeq i) nt) = EErr EInvalidIndex) /\
  (forall z, step e t (CInc obj (PSeq i) z) = EErr EInvalidIndex) /\
  step e t (CDelete obj (PSeq i)) = EErr EInvalidIndex /\
  (forall v, step e t (CInsert obj (i + 1) v) = EErr EInvalidIndex) /\
  (forall nt, step e t (CInsertObj obj (i + 1) nt) = EErr EInvalidIndex).
Proof.
  intros L Len.
  assert (Wd : forall l : list (opid * regobs),
             fold_right (fun er s => elem_w e OList (snd er) + s) 0 l = N.of_nat (length l)).
  { induction l as [|x l IH]; [reflexivity|]. cbn [fold_right length]. rewrite IH.
    unfold elem_w. rewrite Nat2N.inj_succ. lia. }
  assert (Sk : seek (elem_w e OList) (seq_elems (tx_all t) obj) i 0 0 = None).
  { apply seek_none_iff; [lia|]. rewrite Wd. lia. }
  repeat split; intros; cbn [step]; unfold with_obj; rewrite L; cbn [is_seq_type local_op];
    unfold local_list_op, do_insert, query_insert; cbn [is_seq_type negb];
    try (rewrite Sk; reflexivity).
  - replace (i + 1 =? 0) with false by (symmetry; apply N.eqb_neq; lia).
    replace (i + 1 - 1) with i by lia. rewrite Sk. reflexivity.
  - replace (i + 1 =? 0) with false by (symmetry; apply N.eqb_neq; lia).
    replace (i + 1 - 1) with i by lia. rewrite Sk. reflexivity.
Qed.

(* increment where no visible value is a counter *)
Theorem increment_non_counter_error e t obj k z :
  lookup_type (tx_all t) obj = Some OMap ->
  existsb is_vc (reg_at (tx_all t) obj (KMap k)) = false ->
  step e t (CInc obj (PMap k) z) = EErr EMissingCounter.
Proof.
  intros L Hc. cbn [step]. unfold with_obj. rewrite L. cbn [local_op]. unfold local_map_op, update_op.
  assert (Rs : forall r, resolve_action r (AInc z) = Some (AInc z, r)).
  { intros r. unfold resolve_action. destruct (winner r) as [[i w]|]; reflexivity. }
  rewrite Rs, Hc. reflexivity.
Qed.

(* ================= the transaction stays well-formed (so the theorems compose call after call) ================= *)
Lemma wf_push t n :
  wf_tx t -> op_id n = next_id t -> fst (op_obj n) < next_ctr t -> key_ctr (op_key n) < next_ctr t ->
  (forall p, In p (op_pred n) -> fst p < next_ctr t) -> wf_tx (push t n).
Proof.
  intros W Hid Ho Hk Hp. pose proof W as W0. destruct (wf_tx_parts t W) as (Srt & B & St).
  unfold wf_tx, wf_tx_b. rewrite tx_all_push.
  assert (Nc : next_ctr (push t n) = next_ctr t + 1).
  { unfold next_ctr, push. cbn. rewrite app_length. cbn. lia. }
  rewrite !andb_true_iff. split; [split; [split|]|].
  - apply ssorted_b_spec. eapply ssorted_snoc; [exact Srt|exact B|]. rewrite Hid. cbn. unfold next_ctr. lia.
  - rewrite Nc. rewrite forallb_app. apply andb_true_iff. split.
    + rewrite forallb_forall. intros o Hin. rewrite Forall_forall in B.
      destruct (op_below_parts _ _ (B o Hin)) as (A1 & A2 & A3 & A4).
      unfold op_below. rewrite !andb_true_iff. repeat split; try (apply N.ltb_lt; lia).
      rewrite forallb_forall. intros p Hpi. apply N.ltb_lt. specialize (A4 p Hpi). lia.
    + cbn [forallb]. rewrite andb_true_r. unfold op_below. rewrite !andb_true_iff. repeat split; try (apply N.ltb_lt).
      * rewrite Hid, next_id_ctr. lia.
      * lia.
      * lia.
      * rewrite forallb_forall. intros p Hpi. apply N.ltb_lt. specialize (Hp p Hpi). lia.
  - cbn. apply N.ltb_lt. exact St.
  - rewrite forallb_app. apply andb_true_iff. split.
    + rewrite forallb_forall. intros o Hin. apply N.ltb_lt. eapply wf_tx_ids_pos; eauto.
    + cbn [forallb]. rewrite andb_true_r. apply N.ltb_lt. rewrite Hid, next_id_ctr. unfold next_ctr. lia.
Qed.

(* ================= put / put_object / delete / increment at an index of a list or text ================= *)
Lemma seq_elems_reg ops obj el r : In (el, r) (seq_elems ops obj) -> r = reg_at ops obj (KSeq el) /\ r <> [].
Proof.
  rewrite seq_elems_gel. intros H. apply in_flat_map in H. destruct H as (x & _ & H).
  unfold gel in H. destruct (reg_at ops obj (KSeq x)) as [|y l] eqn:E; [destruct H|].
  destruct H as [H|[]]. inversion H; subst. rewrite E. split; [reflexivity|discriminate].
Qed.

(* the element the index resolves to, its position among the visible elements, and the update of its
   register: that register becomes what [update_op_spec] says, every other register and the element
   order of every object are unchanged (frame_upd) *)
Theorem list_update_spec e t obj ty i a t' oid :
  wf_tx t -> local_list_op e t obj ty i a = EOk (t', oid) ->
  exists el r s wd p,
    seek (elem_w e ty) (seq_elems (tx_all t) obj) i 0 0 = Some (el, r, s, wd, p) /\
    nth_error (seq_elems (tx_all t) obj) p = Some (el, r) /\
    r = reg_at (tx_all t) obj (KSeq el) /\
    update_op t obj (KSeq el) (reg_at (tx_all t) obj (KSeq el)) a = EOk (t', oid).
Proof.
  intros W H. unfold local_list_op in H. destruct (negb (is_seq_type ty)); [discriminate|].
  destruct (seek (elem_w e ty) (seq_elems (tx_all t) obj) i 0 0) as [[[[[el r] s] wd] p]|] eqn:Sk; [|discriminate].
  exists el, r, s, wd, p. split; [reflexivity|].
  destruct (seek_nth _ _ _ _ _ _ _ _ _ _ Sk) as (k & -> & Hk). cbn [plus].
  split; [exact Hk|]. apply nth_error_In in Hk. destruct (seq_elems_reg _ _ _ _ Hk) as [Er _].
  split; [exact Er|]. rewrite <- Er. exact H.
Qed.

(* delete on a text at or beyond its length (measured in the encoding) *)
Theorem text_delete_out_of_range_error e t obj i :
  lookup_type (tx_all t) obj = Some OText ->
  seq_width e OText (seq_elems (tx_all t) obj) <= i ->
  step e t (CDelete obj (PSeq i)) = EErr EInvalidIndex.
Proof.
  intros L H. cbn [step]. unfold with_obj. rewrite L.
  apply N.leb_le in H. rewrite H. reflexivity.
Qed.
