(* Crdt/LocalProofs.v — proofs about the local-edit model (Crdt/Local.v): what each editing call
   does to the observation ([observe] of Crdt/Interp.v), for any well-formed op set. *)
From AM Require Import Base.Prelude Base.Order Crdt.Types Crdt.Interp Crdt.Local.
From Coq Require Import Sorting.Sorted.
Local Open Scope N_scope.

(* ---- failed calls ---- *)
Lemma apply_call_error_unchanged e t c t' x :
  apply_call e t c = EOk (t', Some x) -> t' = t.
Proof.
  unfold apply_call. destruct (step e t c); intros H; inversion H; reflexivity.
Qed.

Lemma step_error_no_op e t c x : step e t c = EErr x -> apply_call e t c = EOk (t, Some x).
Proof. unfold apply_call. intros ->. reflexivity. Qed.
