(* Crdt/Marks.v — rich-text marks (C25).

   Mirrors, of rust/automerge/src:
     marks.rs            MarkStateMachine (mark_begin / mark_end / current), MarkSet::without_unmarks,
                         MarkAccumulator::{add, into_iter_no_unmark}, RichTextQueryState::process
     op_set2/op_set/marks.rs   MarkIter (the walk that feeds the state machine while yielding the
                         visible non-mark elements)
     automerge.rs        calculate_marks_slow (= calculate_marks_fast, cross-checked by the code's own
                         slow_path_assertions), get_marks_for, spans_for
     iter/spans.rs       SpanState::{push_str, flush}, MarkDiff::{eq, export} for the current state
                         (Diff::Add only; block markers are left out)
     op_set2/op_set/insert.rs  InsertQuery::{new, resolve, identify_valid_insertion_spot}, Loc
                         (query_insert_at_text / scan_for_sticky_marks is the indexed twin of it: the
                         code debug_asserts that both agree)
     transaction/inner.rs      do_insert, insert_mark_end_after, mark, unmark, inner_splice (with
                         Crdt/Local.v's insert_chain / del_loop)

   Everything is a function of the operations of ONE text object in ascending id order (what
   [observe_sorted] hands to [observe_obj]); a read at historical heads is the same function of the
   operations covered by the clock of those heads.

   The sequence of a text holds three kinds of elements, in RGA order ([elem_order], which places
   mark ops like any other insert): MarkBegin, MarkEnd (id = id of its begin + 1) and characters
   (visible with a width and a string, or deleted).  [items_of] lists them.  Mark ops are never the
   target of another op (the API cannot address them), so they are always visible.

   Reading.  Walking the items keeps the set of OPEN marks (begin seen, its end not yet seen).  The
   value of a name is the value of the open mark of that name with the greatest id ([best]); the mark
   set at a position lists the names in ascending order with that value — including null values
   (an unmark is a mark whose value is null) which [without_unmarks] drops when a set is reported.

   No proofs here (Crdt/MarksProofs.v). *)
From AM Require Import Base.Prelude Base.Order Crdt.Types Crdt.Interp Crdt.Local.
Local Open Scope N_scope.

Definition mname := list N.                          (* code points; BTreeMap<SmolStr> order = code point order *)
Definition markset := list (mname * scalar).         (* ascending names, one entry per name *)

Definition opid_prev (i : opid) : opid := (fst i - 1, snd i).      (* OpId::prev *)

(* ---------- the elements of a text ---------- *)
Inductive item :=
| IBegin (id : opid) (expand : bool) (name : mname) (v : scalar)
| IEnd (id : opid) (expand : bool)
| IChar (id : opid) (vis : bool) (w : N) (txt : list N).

Definition item_id (it : item) : opid :=
  match it with IBegin id _ _ _ | IEnd id _ | IChar id _ _ _ => id end.

Definition find_ins (oops : list op) (e : opid) : option op :=
  find (fun o => op_insert o && opid_eqb (op_id o) e) oops.

Definition item_of (e : enc) (oops : list op) (vis : list vis_entry) (id : opid) : list item :=
  match find_ins oops id with
  | None => []
  | Some o =>
    match op_action o with
    | AMarkBegin ex n v => [IBegin id ex n v]
    | AMarkEnd ex => [IEnd id ex]
    | _ => match register vis (KSeq id) with
           | [] => [IChar id false 0 []]
           | r => [IChar id true (str_width e (elem_text r)) (elem_text r)]
           end
    end
  end.

(* [oops]: the ops of the text object, ascending id *)
Definition items_of (e : enc) (oops : list op) : list item :=
  let vis := vis_ops oops in flat_map (item_of e oops vis) (elem_order oops).

(* the elements of text [obj] in a set of operations given in ANY order *)
Definition text_view (e : enc) (ops : list op) (obj : opid) : list item :=
  items_of e (filter (fun o => opid_eqb (op_obj o) obj) (isort op_cmp ops)).

(* ---------- open marks (MarkStateMachine.state / RichTextQueryState.map) ---------- *)
Definition omark := (opid * mname * scalar)%type.
Definition om_id (m : omark) : opid := fst (fst m).
Definition om_name (m : omark) : mname := snd (fst m).
Definition om_val (m : omark) : scalar := snd m.

(* mark_begin: a begin already in the state is ignored *)
Definition open_begin (id : opid) (n : mname) (v : scalar) (st : list omark) : list omark :=
  if existsb (fun m => opid_eqb (om_id m) id) st then st else (id, n, v) :: st.
(* mark_end: removes the begin [id.prev()]; an end whose begin is not open is ignored *)
Definition open_end (id : opid) (st : list omark) : list omark :=
  filter (fun m => negb (opid_eqb (om_id m) (opid_prev id))) st.

Definition step_open (st : list omark) (it : item) : list omark :=
  match it with
  | IBegin id _ n v => open_begin id n v st
  | IEnd id _ => open_end id st
  | IChar _ _ _ _ => st
  end.

(* the open mark of name [n] with the greatest id *)
Fixpoint best (n : mname) (st : list omark) : option (opid * scalar) :=
  match st with
  | [] => None
  | m :: t =>
    let r := best n t in
    if nlist_eqb (om_name m) n then
      match r with
      | Some (i, _) => if opid_ltb i (om_id m) then Some (om_id m, om_val m) else r
      | None => Some (om_id m, om_val m)
      end
    else r
  end.

Definition names_of (st : list omark) : list mname := dedup_sorted (isort bytes_cmp (map om_name st)).

(* MarkStateMachine.current: every open name with the value of its greatest-id open mark *)
Definition current (st : list omark) : markset :=
  flat_map (fun n => match best n st with Some (_, v) => [(n, v)] | None => [] end) (names_of st).

Definition is_null (v : scalar) : bool := match v with SNull => true | _ => false end.
Definition without_unmarks (m : markset) : markset := filter (fun e => negb (is_null (snd e))) m.

Definition markset_eqb : markset -> markset -> bool :=
  list_eqb (fun a b => nlist_eqb (fst a) (fst b) && scalar_eqb (snd a) (snd b)).

Fixpoint lookup (n : mname) (m : markset) : option scalar :=
  match m with
  | [] => None
  | (k, v) :: t => if nlist_eqb k n then Some v else lookup n t
  end.

(* ---------- the pointwise marking: one entry per visible character, in document order ---------- *)
Record pent := mkP { p_id : opid; p_w : N; p_txt : list N; p_set : markset }.

Fixpoint marking (its : list item) (st : list omark) : list pent :=
  match its with
  | [] => []
  | IChar id true w s :: t => mkP id w s (current st) :: marking t st
  | it :: t => marking t (step_open st it)
  end.

Definition final_open (its : list item) : list omark := fold_left step_open its [].

(* the (raw, nulls included) mark set at text position [p] (in width units); [] past the end *)
Fixpoint at_pos (m : list pent) (p : N) : markset :=
  match m with
  | [] => []
  | e :: t => if p <? p_w e then p_set e else at_pos t (p - p_w e)
  end.

Definition marks_at_pos (its : list item) (p : N) : markset := at_pos (marking its []) p.
(* the same by element index *)
Definition marks_at_elem (its : list item) (i : nat) : markset :=
  match nth_error (marking its []) i with Some e => p_set e | None => [] end.

(* ---------- get_marks(i): [iter.nth(i)] over the visible elements, then the state machine's set.
   NOTE the index counts ELEMENTS, not width units; past the end the walk has consumed every mark. *)
Definition get_marks (its : list item) (i : nat) : markset :=
  match nth_error (marking its []) i with
  | Some e => without_unmarks (p_set e)
  | None => without_unmarks (current (final_open its))
  end.

(* ---------- marks(): calculate_marks_slow + MarkAccumulator ---------- *)
Record accitem := mkA { a_index : N; a_len : N; a_val : scalar }.
Definition acc := list (mname * list accitem).       (* BTreeMap: ascending names *)

(* the entry.last_mut() / push logic of MarkAccumulator::add for one name *)
Definition push_item (index len : N) (v : scalar) (l : list accitem) : list accitem :=
  match rev l with
  | last :: before =>
    if scalar_eqb (a_val last) v && (a_index last + a_len last =? index)
    then rev before ++ [mkA (a_index last) (a_len last + len) v]
    else l ++ [mkA index len v]
  | [] => [mkA index len v]
  end.

Fixpoint acc_upd (n : mname) (f : list accitem -> list accitem) (a : acc) : acc :=
  match a with
  | [] => [(n, f [])]
  | (k, l) :: t =>
    match bytes_cmp n k with
    | Eq => (k, f l) :: t
    | Lt => (n, f []) :: (k, l) :: t
    | Gt => (k, l) :: acc_upd n f t
    end
  end.

Definition acc_add (index len : N) (s : markset) (a : acc) : acc :=
  fold_left (fun a nv => acc_upd (fst nv) (push_item index len (snd nv)) a) s a.

Definition flush_run (mindex mlen : N) (last : markset) (a : acc) : acc :=
  if 0 <? mlen then acc_add mindex mlen last a else a.

(* the loop of calculate_marks_slow; [last] = [] stands for "no marks" (Option::None) *)
Fixpoint runs (ents : list pent) (index : N) (last : markset) (mlen mindex : N) (a : acc) : acc :=
  match ents with
  | [] => flush_run mindex mlen last a
  | e :: t =>
    if markset_eqb last (p_set e)
    then runs t (index + p_w e) last (mlen + p_w e) mindex a
    else runs t (index + p_w e) (p_set e) (p_w e) index (flush_run mindex mlen last a)
  end.

Definition mark := (N * N * mname * scalar)%type.     (* start, end, name, value *)

(* into_iter_no_unmark *)
Definition acc_out (a : acc) : list mark :=
  flat_map (fun nl => flat_map (fun i => if is_null (a_val i) then []
                                         else [(a_index i, a_index i + a_len i, fst nl, a_val i)]) (snd nl)) a.

Definition marks (its : list item) : list mark := acc_out (runs (marking its []) 0 [] 0 0 []).

(* ---------- spans(): text runs with their (non-null) mark sets ---------- *)
Definition span := (list N * markset)%type.
Definition flush_span (nt : option (list N * N * markset)) : list span :=
  match nt with
  | Some (buf, len, mk) => if len =? 0 then [] else [(buf, mk)]
  | None => []
  end.

Fixpoint spans_go (m : list pent) (nt : option (list N * N * markset)) : list span :=
  match m with
  | [] => flush_span nt
  | e :: t =>
    let cur := without_unmarks (p_set e) in
    match nt with
    | Some (buf, len, mk) =>
      if markset_eqb cur mk then spans_go t (Some (buf ++ p_txt e, len + p_w e, mk))
      else flush_span nt ++ spans_go t (Some (p_txt e, p_w e, cur))
    | None => spans_go t (Some (p_txt e, p_w e, cur))
    end
  end.

Definition spans (its : list item) : list span := spans_go (marking its []) None.

(* ---------- InsertQuery: where an insert at index [target] is anchored ---------- *)
Record iq := mkIq {
  iq_index : N; iq_lastw : option N; iq_done : bool; iq_lvc : option opid;
  iq_cands : list (opid * option opid) }.          (* Loc: cursor, id of the mark op it follows *)

Fixpoint find_pos {A} (f : A -> bool) (l : list A) : option nat :=
  match l with
  | [] => None
  | x :: t => if f x then Some O else match find_pos f t with Some k => Some (S k) | None => None end
  end.

(* identify_valid_insertion_spot (every item is an insert op) *)
Definition spot (cands : list (opid * option opid)) (lvc : option opid) (it : item) : list (opid * option opid) :=
  let c1 := match cands, lvc with
            | [], Some c => [(c, None)]
            | _, _ => cands
            end in
  match c1 with
  | [] => []
  | _ =>
    match it with
    | IEnd id ex =>
      match find_pos (fun loc : opid * option opid =>
                        match snd loc with Some b => opid_eqb b (opid_prev id) | None => false end) c1 with
      | Some k => firstn k c1
      | None => if ex then c1 else c1 ++ [(id, Some id)]
      end
    | IBegin id true _ _ => c1 ++ [(id, Some id)]
    | _ => c1
    end
  end.

(* the [if op.insert { last_width.take() ... }] bookkeeping *)
Definition take_width (target : N) (q : iq) : iq :=
  match iq_lastw q with
  | Some w => mkIq (iq_index q + w) None (target <=? iq_index q + w) (iq_lvc q) (iq_cands q)
  | None => q
  end.

(* one element; the boolean is the loop's [break] *)
Definition iq_step (target : N) (q : iq) (it : item) : iq * bool :=
  let q1 := take_width target q in
  if iq_done q1 then
    let c := spot (iq_cands q1) (iq_lvc q1) it in
    let q2 := mkIq (iq_index q1) None true (iq_lvc q1) c in
    match it with
    | IChar _ true _ _ => (q2, match c with [] => false | _ => true end)
    | _ => (q2, false)
    end
  else
    match it with
    | IChar id true w _ => (mkIq (iq_index q1) (Some w) false (Some id) (iq_cands q1), false)
    | _ => (q1, false)
    end.

Fixpoint iq_run (target : N) (its : list item) (q : iq) : iq :=
  match its with
  | [] => q
  | it :: t => let (q', brk) := iq_step target q it in if brk then q' else iq_run target t q'
  end.

(* reference element of the new op and the index it lands at; None = InvalidIndex *)
Definition anchor (target : N) (its : list item) : option (opid * N) :=
  let q0 := mkIq 0 None (target =? 0) None (if target =? 0 then [(head_id, None)] else []) in
  let q := take_width target (iq_run target its q0) in
  if negb (iq_done q) then None
  else match rev (iq_cands q) with
       | (c, _) :: _ => Some (c, iq_index q)
       | [] => match iq_lvc q with Some c => Some (c, iq_index q) | None => None end
       end.

(* ---------- local calls on a text ---------- *)
Definition text_items (e : enc) (t : tx) (obj : opid) : list item := items_of e (obj_ops (tx_all t) obj).

Definition do_insert_m (e : enc) (t : tx) (obj : opid) (index : N) (a : action) : eres (tx * opid) :=
  match anchor index (text_items e t obj) with
  | None => EErr EInvalidIndex
  | Some (ref, _) => let id := next_id t in EOk (push t (mkOp id obj (KSeq ref) true a []), id)
  end.

Inductive expand_mode := XBefore | XAfter | XBoth | XNone.
Definition x_before (x : expand_mode) : bool := match x with XBefore | XBoth => true | _ => false end.
Definition x_after (x : expand_mode) : bool := match x with XAfter | XBoth => true | _ => false end.
Definition x_none (x : expand_mode) : bool := match x with XNone => true | _ => false end.

Definition pos_of (its : list item) (id : opid) : option nat :=
  find_pos (fun it => opid_eqb (item_id it) id) its.

(* insert_mark_end_after *)
Definition end_after (t : tx) (obj begin : opid) (ex : bool) : tx :=
  push t (mkOp (next_id t) obj (KSeq begin) true (AMarkEnd ex) []).

(* TransactionInner::mark on a text object.  The status is what the caller gets; NOTE that when the
   end index is invalid the code returns the error AFTER it has inserted the begin op, which stays
   in the transaction. *)
Definition mark_text (e : enc) (t : tx) (obj : opid) (start end_ : N) (n : mname) (v : scalar) (x : expand_mode)
  : tx * status :=
  if (start =? end_) && x_none x then (t, None)
  else
    match do_insert_m e t obj start (AMarkBegin (x_before x) n v) with
    | EErr er => (t, Some er)
    | EPanic => (t, Some EInvalidOp)                      (* unreachable *)
    | EOk (t1, b) =>
      if start =? end_ then (end_after t1 obj b (x_after x), None)
      else
        let its := text_items e t1 obj in
        match anchor end_ its with
        | None => (t1, Some EInvalidIndex)
        | Some (ref, _) =>
          (* end_pos > begin.pos: the slot right after [ref] lies behind the begin *)
          let behind := match pos_of its ref, pos_of its b with
                        | Some pr, Some pb => (pb <=? pr)%nat
                        | _, _ => false                 (* ref = HEAD: slot 0 *)
                        end in
          if behind then (push t1 (mkOp (next_id t1) obj (KSeq ref) true (AMarkEnd (x_after x)) []), None)
          else (end_after t1 obj b (x_after x), None)
        end
    end.

(* [Local.seq_elems] with the visible ops computed once (convertible to it; the evaluation by
   vm_compute is call-by-value, so the [let] matters), and [Local.del_loop] over it *)
Definition seq_elems_m (ops : list op) (obj : opid) : list (opid * regobs) :=
  let oops := obj_ops ops obj in
  let vis := vis_ops oops in
  flat_map (fun e => match register vis (KSeq e) with [] => [] | r => [(e, r)] end) (elem_order oops).

Fixpoint del_loop_m (fuel : nat) (e : enc) (t : tx) (obj : opid) (di deleted del : N) : eres tx :=
  match fuel with
  | O => EPanic
  | S f =>
    if deleted <? del then
      match seek (elem_w e OText) (seq_elems_m (tx_all t) obj) di 0 0 with
      | None => EOk t
      | Some (el, r, s, w, _) =>
        if s <? di then del_loop_m f e t obj (s + w) deleted del
        else del_loop_m f e (push t (mkOp (next_id t) obj (KSeq el) false ADel (map fst r))) obj di (deleted + w) del
      end
    else EOk t
  end.

(* inner_splice of Crdt/Local.v with the mark-aware insert query *)
Definition splice_text_m (e : enc) (t : tx) (obj : opid) (index : N) (del : Z) (s : list N) : eres tx :=
  match (if (del <? 0)%Z
         then (if (0 <=? Z.of_N index + del)%Z then Some (Z.to_N (Z.of_N index + del), Z.to_N (- del)) else None)
         else Some (index, Z.to_N del)) with
  | None => EErr EInvalidIndex
  | Some (index, del) =>
    match (match s with
           | [] => Some (t, index, 0)
           | _ => match anchor index (text_items e t obj) with
                  | None => None
                  | Some (ref, index') =>
                    Some (insert_chain t obj ref (char_acts s), index', str_width e s)
                  end
           end) with
    | None => EErr EInvalidIndex
    | Some (t1, index1, iw) =>
      del_loop_m (2 * length (seq_elems_m (tx_all t1) obj) + 2) e t1 obj (index1 + iw) 0 del
    end
  end.

Inductive mcall :=
| MSplice (index : N) (del : Z) (s : list N)
| MMark (start end_ : N) (n : mname) (v : scalar) (x : expand_mode).      (* unmark = MMark with SNull *)

Definition mstep (e : enc) (t : tx) (obj : opid) (c : mcall) : eres (tx * status) :=
  match lookup_type (tx_all t) obj with
  | Some OText =>
    match c with
    | MSplice i d s =>
      match splice_text_m e t obj i d s with
      | EOk t' => EOk (t', None)
      | EErr x => EOk (t, Some x)
      | EPanic => EPanic
      end
    | MMark s en n v x => EOk (mark_text e t obj s en n v x)
    end
  | Some _ => EOk (t, Some EInvalidOp)
  | None => EOk (t, Some EInvalidObj)
  end.
