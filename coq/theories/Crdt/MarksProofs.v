(* Crdt/MarksProofs.v — proofs about the marks model (C25). *)
From AM Require Import Base.Prelude Base.Order Crdt.Types Crdt.Interp Crdt.Local Crdt.Marks.
From Coq Require Import Sorting.Sorted.
Local Open Scope N_scope.

(* ------------------------------------------------------------------ small facts *)
Lemma nlist_eqb_spec (a b : list N) : nlist_eqb a b = true <-> a = b.
Proof. apply list_eqb_spec. intros; apply N.eqb_eq. Qed.

Lemma nlist_eqb_refl a : nlist_eqb a a = true.
Proof. apply nlist_eqb_spec. reflexivity. Qed.

Lemma opid_eqb_refl a : opid_eqb a a = true.
Proof. apply opid_eqb_spec. reflexivity. Qed.

Lemma opid_ltb_lt a b : opid_ltb a b = true <-> opid_cmp a b = Lt.
Proof. unfold opid_ltb, ltb. destruct (opid_cmp a b); split; congruence. Qed.

Definition opid_le (a b : opid) : Prop := opid_cmp a b <> Gt.

Lemma opid_le_refl a : opid_le a a.
Proof. unfold opid_le. rewrite (cmp_refl opid_cmp opid_cmp_total). discriminate. Qed.

Lemma opid_le_trans a b c : opid_le a b -> opid_le b c -> opid_le a c.
Proof. apply (le_trans opid_cmp opid_cmp_total). Qed.

Lemma opid_ltb_false_le a b : opid_ltb a b = false -> opid_le b a.
Proof.
  unfold opid_ltb, ltb, opid_le. intros H E.
  apply (cmp_gt_lt opid_cmp opid_cmp_total) in E. rewrite E in H. discriminate.
Qed.

Lemma opid_ltb_true_le a b : opid_ltb a b = true -> opid_le a b.
Proof. intros H. apply opid_ltb_lt in H. unfold opid_le. rewrite H. discriminate. Qed.

Lemma nodup_app_l {A} (l1 l2 : list A) : NoDup (l1 ++ l2) -> NoDup l1.
Proof.
  induction l1 as [|x t IH]; cbn; intros H; [constructor|].
  inversion H as [|? ? Hn H']; subst. constructor; [|apply IH, H'].
  intros Hin. apply Hn. apply in_or_app. left. exact Hin.
Qed.

(* ------------------------------------------------------------------ convergence *)
Theorem text_view_perm (e : enc) (obj : opid) (ops1 ops2 : list op) :
  NoDup (map op_id ops1) -> Permutation ops1 ops2 -> text_view e ops1 obj = text_view e ops2 obj.
Proof.
  intros ND P. unfold text_view.
  replace (isort op_cmp ops2) with (isort op_cmp ops1); [reflexivity|].
  exact (kisort_perm_eq op_id opid_cmp opid_cmp_total ops1 ops2 ND P).
Qed.

Theorem marks_converge (e : enc) (obj : opid) (ops1 ops2 : list op) :
  NoDup (map op_id ops1) -> Permutation ops1 ops2 ->
  marks (text_view e ops1 obj) = marks (text_view e ops2 obj) /\
  spans (text_view e ops1 obj) = spans (text_view e ops2 obj) /\
  (forall i, get_marks (text_view e ops1 obj) i = get_marks (text_view e ops2 obj) i) /\
  (forall p, marks_at_pos (text_view e ops1 obj) p = marks_at_pos (text_view e ops2 obj) p).
Proof.
  intros ND P. rewrite (text_view_perm e obj ops1 ops2 ND P). repeat split; reflexivity.
Qed.

(* ------------------------------------------------------------------ the value of a name *)
(* [best] returns the open mark of that name with the greatest id *)
Lemma best_in n st i v : best n st = Some (i, v) -> In (i, n, v) st.
Proof.
  induction st as [|m t IH]; cbn [best]; [discriminate|].
  destruct (nlist_eqb (om_name m) n) eqn:En.
  - apply nlist_eqb_spec in En. destruct (best n t) as [[j w]|] eqn:Eb.
    + destruct (opid_ltb j (om_id m)).
      * intros H. inversion H; subst. left. destruct m as [[a b] c]; reflexivity.
      * intros H. right. apply IH. exact H.
    + intros H. inversion H; subst. left. destruct m as [[a b] c]; reflexivity.
  - intros H. right. apply IH, H.
Qed.

Lemma best_none n st : best n st = None -> forall i v, ~ In (i, n, v) st.
Proof.
  induction st as [|m t IH]; cbn [best In]; [tauto|].
  destruct (nlist_eqb (om_name m) n) eqn:En.
  - destruct (best n t) as [[j w]|]; [destruct (opid_ltb j _)|]; discriminate.
  - intros H i v [Hm|Hin]; [|eapply IH; eauto].
    subst m. unfold om_name in En. cbn in En. rewrite nlist_eqb_refl in En. discriminate.
Qed.

Lemma best_max n st i v : best n st = Some (i, v) ->
  forall i' v', In (i', n, v') st -> opid_le i' i.
Proof.
  revert i v. induction st as [|m t IH]; intros i v; cbn [best]; [discriminate|].
  destruct (nlist_eqb (om_name m) n) eqn:En.
  - destruct (best n t) as [[j w]|] eqn:Eb.
    + destruct (opid_ltb j (om_id m)) eqn:El.
      * intros H i' v' [Hm|Hin]; inversion H; subst.
        -- cbn. apply opid_le_refl.
        -- eapply opid_le_trans; [eapply IH; [reflexivity|exact Hin]|]. apply opid_ltb_true_le, El.
      * intros H i' v' [Hm|Hin].
        -- inversion H; subst. cbn in El. apply opid_ltb_false_le, El.
        -- eapply IH; eauto.
    + intros H i' v' [Hm|Hin]; inversion H; subst.
      * cbn. apply opid_le_refl.
      * exfalso. eapply best_none; eauto.
  - intros H i' v' [Hm|Hin].
    + subst m. unfold om_name in En. cbn in En. rewrite nlist_eqb_refl in En. discriminate.
    + eapply IH; eauto.
Qed.

Definition om_ids (st : list omark) : list opid := map om_id st.

Theorem best_spec n st i v :
  NoDup (om_ids st) ->
  (best n st = Some (i, v) <->
   In (i, n, v) st /\ forall i' v', In (i', n, v') st -> opid_le i' i).
Proof.
  intros ND. split.
  - intros H. split; [eapply best_in, H|eapply best_max, H].
  - intros [Hin Hmax]. destruct (best n st) as [[j w]|] eqn:Eb.
    + pose proof (best_in _ _ _ _ Eb) as Hj. pose proof (best_max _ _ _ _ Eb) as Hjm.
      assert (i = j).
      { apply (le_antisym opid_cmp opid_cmp_total); [eapply Hjm, Hin|eapply Hmax, Hj]. }
      subst j. f_equal. f_equal.
      (* one id, one mark *)
      clear - ND Hin Hj. induction st as [|m t IH]; [destruct Hin|].
      cbn in ND. inversion ND as [|? ? Hn ND']; subst.
      destruct Hin as [H1|H1], Hj as [H2|H2].
      * congruence.
      * exfalso. apply Hn. subst m. apply (in_map om_id) in H2. exact H2.
      * exfalso. apply Hn. subst m. apply (in_map om_id) in H1. exact H1.
      * auto.
    + exfalso. eapply best_none; eauto.
Qed.

(* membership in the sorted, de-duplicated name list *)
Lemma dedup_sorted_in (l : list (list N)) x : In x (dedup_sorted l) <-> In x l.
Proof.
  induction l as [|a t IH]; [cbn; tauto|].
  destruct t as [|b u].
  - cbn. tauto.
  - change (dedup_sorted (a :: b :: u)) with (if nlist_eqb a b then dedup_sorted (b :: u) else a :: dedup_sorted (b :: u)).
    destruct (nlist_eqb a b) eqn:E.
    + apply nlist_eqb_spec in E. subst b. rewrite IH. cbn. tauto.
    + cbn [In]. rewrite IH. cbn [In]. tauto.
Qed.

Lemma names_of_in st n : In n (names_of st) <-> In n (map om_name st).
Proof.
  unfold names_of. rewrite dedup_sorted_in.
  split; intros H; eapply Permutation_in; try exact H.
  - apply Permutation_sym, isort_perm.
  - apply isort_perm.
Qed.

(* [current]: the pairs (name, value of the greatest-id open mark of that name) *)
Theorem current_spec st n v :
  In (n, v) (current st) <-> exists i, best n st = Some (i, v).
Proof.
  unfold current. rewrite in_flat_map. split.
  - intros (n' & Hn' & Hin). destruct (best n' st) as [[i w]|] eqn:Eb; [|destruct Hin].
    destruct Hin as [Hin|[]]. inversion Hin; subst. exists i. exact Eb.
  - intros (i & Eb). exists n. split.
    + apply names_of_in. apply best_in in Eb. apply (in_map om_name) in Eb. exact Eb.
    + rewrite Eb. left. reflexivity.
Qed.

Lemma without_unmarks_in m n v : In (n, v) (without_unmarks m) <-> In (n, v) m /\ v <> SNull.
Proof.
  unfold without_unmarks. rewrite filter_In. cbn. split; intros [H1 H2]; split; auto.
  - intros ->. discriminate.
  - destruct v; try reflexivity. congruence.
Qed.

(* ------------------------------------------------------------------ which marks are open *)
Lemma step_open_ids st it x : In x (om_ids (step_open st it)) -> In x (om_ids st) \/ (exists ex n v, it = IBegin x ex n v).
Proof.
  destruct it as [id ex n v|id ex|id vis w s]; cbn [step_open].
  - unfold open_begin. destruct (existsb _ st); [auto|].
    cbn. intros [H|H]; [right; subst; eauto|auto].
  - unfold open_end, om_ids. intros H. apply in_map_iff in H. destruct H as (m & <- & Hm).
    apply filter_In in Hm. left. apply in_map, Hm.
  - auto.
Qed.

Definition is_begin (it : item) : bool := match it with IBegin _ _ _ _ => true | _ => false end.
Definition begin_ids (its : list item) : list opid := map item_id (filter is_begin its).

Lemma fold_open_ids its : forall st x,
  In x (om_ids (fold_left step_open its st)) -> In x (om_ids st) \/ In x (begin_ids its).
Proof.
  induction its as [|it t IH]; intros st x; cbn [fold_left]; [auto|].
  intros H. apply IH in H. destruct H as [H|H].
  - apply step_open_ids in H. destruct H as [H|(ex & n & v & ->)]; [auto|].
    right. unfold begin_ids. cbn. left. reflexivity.
  - right. unfold begin_ids. cbn [filter]. destruct (is_begin it); [cbn; right|]; exact H.
Qed.

Lemma step_open_nodup st it :
  NoDup (om_ids st) -> NoDup (om_ids (step_open st it)).
Proof.
  intros ND. destruct it as [id ex n v|id ex|id vis w s]; cbn [step_open]; [| |exact ND].
  - unfold open_begin. destruct (existsb _ st) eqn:E; [exact ND|].
    cbn. constructor; [|exact ND]. intros H. unfold om_ids in H. apply in_map_iff in H.
    destruct H as (m & Hm & Hin).
    assert (existsb (fun m0 : omark => opid_eqb (om_id m0) id) st = true).
    { apply existsb_exists. exists m. split; [exact Hin|]. apply opid_eqb_spec, Hm. }
    congruence.
  - unfold open_end, om_ids. clear -ND. induction st as [|m t IH]; cbn; [constructor|].
    cbn in ND. inversion ND as [|? ? Hn ND']; subst.
    destruct (negb _); [|auto]. cbn. constructor; [|auto].
    intros H. apply Hn. apply in_map_iff in H. destruct H as (m' & E & Hm'). apply filter_In in Hm'.
    rewrite <- E. apply in_map, Hm'.
Qed.

Lemma fold_open_nodup its : forall st, NoDup (om_ids st) -> NoDup (om_ids (fold_left step_open its st)).
Proof.
  induction its as [|it t IH]; intros st ND; cbn [fold_left]; [exact ND|]. apply IH, step_open_nodup, ND.
Qed.

(* a mark is open after [its] iff its begin occurs in [its] and no end naming it follows the begin *)
Definition ends (id : opid) (it : item) : bool :=
  match it with IEnd e _ => opid_eqb (opid_prev e) id | _ => false end.

Lemma fold_open_keep its : forall st m,
  In m st -> forallb (fun it => negb (ends (om_id m) it)) its = true ->
  In m (fold_left step_open its st).
Proof.
  induction its as [|it t IH]; intros st m Hin Hf; cbn [fold_left]; [exact Hin|].
  cbn in Hf. apply andb_true_iff in Hf. destruct Hf as [H1 H2]. apply IH; [|exact H2].
  destruct it as [id ex n v|id ex|id vis w s]; cbn [step_open]; [| |exact Hin].
  - unfold open_begin. destruct (existsb _ st); [exact Hin|right; exact Hin].
  - unfold open_end. apply filter_In. split; [exact Hin|].
    cbn in H1. apply negb_true_iff in H1. apply negb_true_iff.
    destruct (opid_eqb (om_id m) (opid_prev id)) eqn:E; [|reflexivity].
    apply opid_eqb_spec in E. rewrite E, opid_eqb_refl in H1. discriminate.
Qed.

Lemma fold_open_kill its : forall st m,
  forallb (fun it => negb (ends (om_id m) it)) its = false ->
  ~ In (om_id m) (begin_ids its) ->
  NoDup (om_ids st) ->
  ~ In m (fold_left step_open its st).
Proof.
  induction its as [|it t IH]; intros st m Hf Hnb ND; cbn [fold_left]; [discriminate|].
  cbn in Hf. apply andb_false_iff in Hf.
  assert (Hnb' : ~ In (om_id m) (begin_ids t)).
  { intros H. apply Hnb. unfold begin_ids. cbn [filter]. destruct (is_begin it); [right|]; exact H. }
  destruct (negb (ends (om_id m) it)) eqn:E.
  - destruct Hf as [Hf|Hf]; [discriminate|]. apply IH; auto. apply step_open_nodup, ND.
  - apply negb_false_iff in E. destruct it as [id ex n v|id ex|id vis w s]; try discriminate.
    cbn in E. apply opid_eqb_spec in E. cbn [step_open].
    intros H.
    assert (Hid : In (om_id m) (om_ids (fold_left step_open t (open_end id st)))) by (apply in_map, H).
    apply fold_open_ids in Hid. destruct Hid as [Hid|Hid]; [|auto].
    unfold open_end, om_ids in Hid. apply in_map_iff in Hid. destruct Hid as (m' & E' & Hm').
    apply filter_In in Hm'. destruct Hm' as [_ Hm']. rewrite E', <- E, opid_eqb_refl in Hm'. discriminate.
Qed.

Theorem open_spec (its : list item) (id : opid) (n : mname) (v : scalar) :
  NoDup (begin_ids its) ->
  (In (id, n, v) (final_open its) <->
   exists l1 ex l2, its = l1 ++ IBegin id ex n v :: l2 /\
                    forallb (fun it => negb (ends id it)) l2 = true).
Proof.
  unfold final_open. intros ND. split.
  - (* an open mark has a begin, and no end after it *)
    assert (G : forall its st, NoDup (begin_ids its) -> NoDup (om_ids st) ->
              (forall x, In x (om_ids st) -> ~ In x (begin_ids its)) ->
              In (id, n, v) (fold_left step_open its st) ->
              (In (id, n, v) st /\ forallb (fun it => negb (ends id it)) its = true) \/
              exists l1 ex l2, its = l1 ++ IBegin id ex n v :: l2 /\
                               forallb (fun it => negb (ends id it)) l2 = true).
    { clear its ND. induction its as [|it t IH]; intros st NDb NDs Hdis Hin; cbn [fold_left] in Hin.
      - left. split; [exact Hin|reflexivity].
      - assert (NDt : NoDup (begin_ids t)).
        { unfold begin_ids in *. cbn [filter] in NDb. destruct (is_begin it); [cbn in NDb; inversion NDb; auto|auto]. }
        assert (Hdis' : forall x, In x (om_ids (step_open st it)) -> ~ In x (begin_ids t)).
        { intros x Hx Hb. apply step_open_ids in Hx. destruct Hx as [Hx|(ex & n0 & v0 & ->)].
          - apply (Hdis x Hx). unfold begin_ids. cbn [filter]. destruct (is_begin it); [right|]; exact Hb.
          - unfold begin_ids in NDb. cbn in NDb. inversion NDb; auto. }
        apply IH in Hin; auto; [|apply step_open_nodup, NDs].
        destruct Hin as [[Hs Hf]|(l1 & ex & l2 & -> & Hf)].
        + destruct it as [id0 ex0 n0 v0|id0 ex0|id0 vis w s]; cbn [step_open] in Hs.
          * unfold open_begin in Hs. destruct (existsb _ st) eqn:E.
            -- left. split; [exact Hs|]. cbn. rewrite Hf. reflexivity.
            -- destruct Hs as [Hs|Hs].
               ++ inversion Hs; subst. right. exists [], ex0, t. split; [reflexivity|exact Hf].
               ++ left. split; [exact Hs|]. cbn. rewrite Hf. reflexivity.
          * unfold open_end in Hs. apply filter_In in Hs. destruct Hs as [Hs Hne].
            left. split; [exact Hs|]. cbn [forallb ends]. rewrite Hf, andb_true_r.
            cbn in Hne. rewrite negb_true_iff in *. destruct (opid_eqb (opid_prev id0) id) eqn:E; [|reflexivity].
            apply opid_eqb_spec in E. rewrite E, opid_eqb_refl in Hne. discriminate.
          * left. split; [exact Hs|]. cbn. exact Hf.
        + right. exists (it :: l1), ex, l2. split; [reflexivity|exact Hf]. }
    intros Hin. apply G in Hin; [|exact ND|apply NoDup_nil|intros x []].
    destruct Hin as [[[] _]|H]. exact H.
  - intros (l1 & ex & l2 & -> & Hf). rewrite fold_left_app. cbn [fold_left].
    apply fold_open_keep; [|exact Hf].
    cbn [step_open]. unfold open_begin.
    destruct (existsb _ _) eqn:E; [|left; reflexivity].
    (* the id is not open yet: it would need a second begin *)
    exfalso. apply existsb_exists in E. destruct E as (m & Hm & Hid). apply opid_eqb_spec in Hid.
    assert (Hin : In id (om_ids (fold_left step_open l1 []))) by (rewrite <- Hid; apply in_map, Hm).
    apply fold_open_ids in Hin. destruct Hin as [[]|Hin].
    unfold begin_ids in ND. rewrite filter_app, map_app in ND. cbn in ND.
    apply NoDup_remove_2 in ND. apply ND. apply in_or_app. left. exact Hin.
Qed.

(* ------------------------------------------------------------------ what the walk reports *)
Lemma marking_app l1 : forall st id w s l2,
  marking (l1 ++ IChar id true w s :: l2) st =
  marking l1 st ++ mkP id w s (current (fold_left step_open l1 st)) :: marking l2 (fold_left step_open l1 st).
Proof.
  induction l1 as [|it t IH]; intros st id w s l2; [reflexivity|].
  destruct it as [id0 ex0 n0 v0|id0 ex0|id0 [|] w0 s0]; cbn [app marking fold_left step_open];
    rewrite IH; reflexivity.
Qed.

Lemma marking_fold l : forall st, (forall it, In it l -> match it with IChar _ true _ _ => False | _ => True end) ->
  marking l st = [].
Proof.
  induction l as [|it t IH]; intros st H; [reflexivity|].
  pose proof (H it (or_introl eq_refl)) as Hit.
  destruct it as [id0 ex0 n0 v0|id0 ex0|id0 [|] w0 s0]; cbn [marking]; try (apply IH; intros; apply H; right; assumption).
  destruct Hit.
Qed.

(* The Peritext rule: the value the walk reports for name [n] at a visible character is the value of the
   mark with the greatest id among the marks of that name that COVER the character — begin before it, no
   matching end in between — and a name is absent iff no mark of that name covers it. *)
Definition covers (l1 : list item) (id : opid) (n : mname) (v : scalar) : Prop :=
  exists a ex b, l1 = a ++ IBegin id ex n v :: b /\ forallb (fun it => negb (ends id it)) b = true.

Theorem mark_value_highest_id (l1 l2 : list item) (c : opid) (w : N) (s : list N) (n : mname) (v : scalar) :
  NoDup (begin_ids (l1 ++ IChar c true w s :: l2)) ->
  exists e, nth_error (marking (l1 ++ IChar c true w s :: l2) []) (length (marking l1 [])) = Some e /\
            p_id e = c /\
    (In (n, v) (p_set e) <->
     exists id, covers l1 id n v /\ forall id' v', covers l1 id' n v' -> opid_le id' id).
Proof.
  intros ND. rewrite marking_app. eexists. split.
  - rewrite nth_error_app2 by lia. rewrite Nat.sub_diag. reflexivity.
  - split; [reflexivity|]. cbn [p_set].
    assert (ND1 : NoDup (begin_ids l1)).
    { unfold begin_ids in *. rewrite filter_app, map_app in ND. apply nodup_app_l in ND. exact ND. }
    change (fold_left step_open l1 []) with (final_open l1).
    rewrite current_spec. split.
    + intros (i & Eb). apply best_spec in Eb; [|apply fold_open_nodup; apply NoDup_nil].
      destruct Eb as [Hin Hmax]. exists i. split.
      * apply open_spec in Hin; auto.
      * intros id' v' Hc. eapply Hmax. apply open_spec; eauto.
    + intros (i & Hc & Hmax). exists i. apply best_spec; [apply fold_open_nodup; apply NoDup_nil|]. split.
      * apply open_spec; auto.
      * intros i' v' Hin. eapply Hmax. apply open_spec in Hin; eauto.
Qed.

(* ------------------------------------------------------------------ get_marks *)
Theorem get_marks_eq_pointwise (its : list item) (i : nat) :
  (i < length (marking its []))%nat ->
  get_marks its i = without_unmarks (marks_at_elem its i).
Proof.
  intros H. unfold get_marks, marks_at_elem.
  destruct (nth_error (marking its []) i) eqn:E; [reflexivity|].
  apply nth_error_None in E. lia.
Qed.

(* with unit widths (the code point encoding of single characters) the element index IS the text index *)
Lemma at_pos_unit m : Forall (fun e => p_w e = 1) m ->
  forall i, at_pos m (N.of_nat i) = match nth_error m i with Some e => p_set e | None => [] end.
Proof.
  induction 1 as [|e t He _ IH]; intros i; [destruct i; reflexivity|].
  cbn [at_pos]. rewrite He. destruct i as [|i].
  - reflexivity.
  - replace (N.of_nat (S i) <? 1) with false by (symmetry; apply N.ltb_ge; lia).
    replace (N.of_nat (S i) - 1) with (N.of_nat i) by lia. apply IH.
Qed.

Theorem get_marks_eq_pointwise_unit (its : list item) (i : nat) :
  Forall (fun e => p_w e = 1) (marking its []) -> (i < length (marking its []))%nat ->
  get_marks its i = without_unmarks (marks_at_pos its (N.of_nat i)).
Proof.
  intros U H. rewrite get_marks_eq_pointwise by exact H. unfold marks_at_pos, marks_at_elem.
  rewrite at_pos_unit by exact U. reflexivity.
Qed.

(* ------------------------------------------------------------------ equality tests are sound *)
Lemma scalar_eqb_sound a b : scalar_eqb a b = true -> a = b.
Proof.
  destruct a, b; cbn; try discriminate; intros H; try reflexivity; f_equal.
  - apply Bool.eqb_prop, H.
  - apply Z.eqb_eq, H.
  - apply N.eqb_eq, H.
  - apply N.eqb_eq, H.
  - apply nlist_eqb_spec, H.
  - apply nlist_eqb_spec, H.
  - apply Z.eqb_eq, H.
  - apply Z.eqb_eq, H.
  - apply andb_true_iff in H. apply N.eqb_eq, H.
  - apply andb_true_iff in H. apply nlist_eqb_spec, H.
Qed.

Lemma markset_eqb_sound (a b : markset) : markset_eqb a b = true -> a = b.
Proof.
  unfold markset_eqb. revert b. induction a as [|[n v] t IH]; intros [|[n' v'] t']; cbn; try discriminate; [reflexivity|].
  intros H. apply andb_true_iff in H. destruct H as [H1 H2]. apply andb_true_iff in H1. destruct H1 as [Hn Hv].
  apply nlist_eqb_spec in Hn. apply scalar_eqb_sound in Hv. subst. f_equal. apply IH, H2.
Qed.

(* ------------------------------------------------------------------ spans *)
(* every code point of every span with the span's mark set *)
Definition expand_spans (sp : list span) : list (N * markset) :=
  flat_map (fun s => map (fun c => (c, snd s)) (fst s)) sp.
(* every code point of every visible character with the character's reported mark set *)
Definition pointwise_chars (m : list pent) : list (N * markset) :=
  flat_map (fun e => map (fun c => (c, without_unmarks (p_set e))) (p_txt e)) m.

Lemma spans_go_some m : forall buf len mk,
  Forall (fun e => 0 < p_w e) m -> 0 < len ->
  expand_spans (spans_go m (Some (buf, len, mk))) = map (fun c => (c, mk)) buf ++ pointwise_chars m.
Proof.
  induction m as [|e t IH]; intros buf len mk Hpos Hlen.
  - cbn [spans_go flush_span]. replace (len =? 0) with false by (symmetry; apply N.eqb_neq; lia).
    cbn. rewrite !app_nil_r. reflexivity.
  - inversion Hpos as [|? ? He Ht]; subst. cbn [spans_go].
    destruct (markset_eqb (without_unmarks (p_set e)) mk) eqn:E.
    + apply markset_eqb_sound in E. rewrite IH by (auto; lia).
      rewrite map_app, <- app_assoc. cbn [pointwise_chars flat_map]. rewrite E. reflexivity.
    + unfold expand_spans. rewrite flat_map_app. fold (expand_spans (spans_go t (Some (p_txt e, p_w e, without_unmarks (p_set e))))).
      rewrite IH by auto. cbn [flush_span]. replace (len =? 0) with false by (symmetry; apply N.eqb_neq; lia).
      cbn. rewrite app_nil_r. reflexivity.
Qed.

Theorem spans_marks_eq_pointwise (its : list item) :
  Forall (fun e => 0 < p_w e) (marking its []) ->
  expand_spans (spans its) = pointwise_chars (marking its []).
Proof.
  unfold spans. destruct (marking its []) as [|e t]; intros H; [reflexivity|].
  inversion H; subst. cbn [spans_go]. rewrite spans_go_some by auto. reflexivity.
Qed.

(* the spans also concatenate to the text *)
Theorem spans_concat_text (its : list item) :
  Forall (fun e => 0 < p_w e) (marking its []) ->
  flat_map fst (spans its) = flat_map p_txt (marking its []).
Proof.
  intros H. pose proof (spans_marks_eq_pointwise its H) as E.
  apply (f_equal (map fst)) in E. unfold expand_spans, pointwise_chars in E.
  rewrite !flat_map_concat_map, !concat_map, !map_map in E.
  rewrite !flat_map_concat_map.
  erewrite map_ext in E; [erewrite (map_ext _ p_txt) in E; [exact E|]|].
  - intros a. cbn. rewrite map_map. cbn. apply map_id.
  - intros a. cbn. rewrite map_map. cbn. apply map_id.
Qed.

(* ------------------------------------------------------------------ marks() *)
Definition covl (l : list accitem) (p : N) (v : scalar) : Prop :=
  exists it, In it l /\ a_index it <= p < a_index it + a_len it /\ a_val it = v.
Definition cov (a : acc) (n : mname) (p : N) (v : scalar) : Prop :=
  exists l, In (n, l) a /\ covl l p v.

Lemma covl_app x y p v : covl (x ++ y) p v <-> covl x p v \/ covl y p v.
Proof.
  unfold covl. split.
  - intros (it & Hin & H). apply in_app_or in Hin. destruct Hin; [left|right]; eauto.
  - intros [(it & Hin & H)|(it & Hin & H)]; exists it; (split; [apply in_or_app; auto|exact H]).
Qed.

Lemma covl_one i p v : covl [i] p v <-> a_index i <= p < a_index i + a_len i /\ a_val i = v.
Proof.
  unfold covl. split.
  - intros (it & [<-|[]] & H). exact H.
  - intros H. exists i. split; [left; reflexivity|exact H].
Qed.

Lemma covl_nil p v : ~ covl [] p v.
Proof. intros (it & [] & _). Qed.

Lemma push_item_cov idx len v0 l p v :
  covl (push_item idx len v0 l) p v <-> covl l p v \/ (v = v0 /\ idx <= p < idx + len).
Proof.
  unfold push_item. destruct (rev l) as [|last before] eqn:E.
  - assert (l = []) by (apply (f_equal (@rev _)) in E; rewrite rev_involutive in E; exact E). subst l.
    rewrite covl_one. cbn. split; [intros [H1 H2]; right; split; [congruence|lia]|].
    intros [H|[H1 H2]]; [exfalso; eapply covl_nil, H|split; [lia|congruence]].
  - assert (El : l = rev before ++ [last]).
    { apply (f_equal (@rev _)) in E. rewrite rev_involutive in E. exact E. }
    destruct (scalar_eqb (a_val last) v0 && (a_index last + a_len last =? idx)) eqn:C.
    + apply andb_true_iff in C. destruct C as [Cv Ci]. apply scalar_eqb_sound in Cv. apply N.eqb_eq in Ci.
      rewrite El, !covl_app, !covl_one. cbn. split.
      * intros [H|[H1 H2]]; [auto|].
        destruct (p <? idx) eqn:Ep; [left; right; split; [lia|congruence]|right; split; [congruence|lia]].
      * intros [[H|[H1 H2]]|[H1 H2]]; [auto| |]; right; (split; [lia|congruence]).
    + rewrite covl_app, covl_one. cbn. split.
      * intros [H|[H1 H2]]; [auto|right; split; [congruence|lia]].
      * intros [H|[H1 H2]]; [auto|right; split; [lia|congruence]].
Qed.

Lemma bytes_cmp_eq a b : bytes_cmp a b = Eq -> a = b.
Proof. apply (cmp_eq bytes_cmp_total). Qed.

Lemma acc_upd_cov k idx len v0 a n p v :
  cov (acc_upd k (push_item idx len v0) a) n p v <-> cov a n p v \/ (n = k /\ v = v0 /\ idx <= p < idx + len).
Proof.
  induction a as [|[key l] t IH]; cbn [acc_upd].
  - unfold cov. split.
    + intros (l & [H|[]] & Hc). inversion H; subst. apply push_item_cov in Hc.
      destruct Hc as [Hc|Hc]; [exfalso; eapply covl_nil, Hc|right; tauto].
    + intros [(l & [] & _)|(-> & Hv & Hr)]. eexists. split; [left; reflexivity|]. apply push_item_cov. right. tauto.
  - destruct (bytes_cmp k key) eqn:E.
    + apply bytes_cmp_eq in E. subst key. unfold cov. split.
      * intros (l' & [H|H] & Hc).
        -- inversion H; subst. apply push_item_cov in Hc. destruct Hc as [Hc|Hc]; [left; exists l; split; [left; reflexivity|exact Hc]|right; tauto].
        -- left. exists l'. split; [right; exact H|exact Hc].
      * intros [(l' & [H|H] & Hc)|(-> & Hv & Hr)].
        -- inversion H; subst. eexists. split; [left; reflexivity|]. apply push_item_cov. left. exact Hc.
        -- exists l'. split; [right; exact H|exact Hc].
        -- eexists. split; [left; reflexivity|]. apply push_item_cov. right. tauto.
    + unfold cov. split.
      * intros (l' & [H|H] & Hc).
        -- inversion H; subst. apply push_item_cov in Hc. destruct Hc as [Hc|Hc]; [exfalso; eapply covl_nil, Hc|right; tauto].
        -- left. exists l'. split; [exact H|exact Hc].
      * intros [(l' & H & Hc)|(-> & Hv & Hr)].
        -- exists l'. split; [right; exact H|exact Hc].
        -- eexists. split; [left; reflexivity|]. apply push_item_cov. right. tauto.
    + split.
      * intros (l' & [H|H] & Hc).
        -- inversion H; subst. left. exists l'. split; [left; reflexivity|exact Hc].
        -- assert (C : cov (acc_upd k (push_item idx len v0) t) n p v) by (exists l'; auto).
           apply IH in C. destruct C as [(l2 & H2 & Hc2)|C]; [left; exists l2; split; [right; exact H2|exact Hc2]|right; exact C].
      * intros [(l' & [H|H] & Hc)|C].
        -- inversion H; subst. exists l'. split; [left; reflexivity|exact Hc].
        -- assert (C : cov (acc_upd k (push_item idx len v0) t) n p v) by (apply IH; left; exists l'; auto).
           destruct C as (l2 & H2 & Hc2). exists l2. split; [right; exact H2|exact Hc2].
        -- assert (C2 : cov (acc_upd k (push_item idx len v0) t) n p v) by (apply IH; right; exact C).
           destruct C2 as (l2 & H2 & Hc2). exists l2. split; [right; exact H2|exact Hc2].
Qed.

Lemma acc_add_cov idx len s : forall a n p v,
  cov (acc_add idx len s a) n p v <-> cov a n p v \/ (In (n, v) s /\ idx <= p < idx + len).
Proof.
  unfold acc_add. induction s as [|[k v0] t IH]; intros a n p v; cbn [fold_left].
  - split; [auto|intros [H|[[] _]]; exact H].
  - rewrite IH, acc_upd_cov. cbn [fst snd In]. split.
    + intros [[H|(-> & -> & Hr)]|[Hin Hr]]; [auto|right; split; [left; reflexivity|exact Hr]|right; split; [right; exact Hin|exact Hr]].
    + intros [H|[[Hin|Hin] Hr]]; [auto| |right; split; auto].
      inversion Hin; subst. left. right. tauto.
Qed.

(* the pointwise marking of a list of entries laid out from [index] on *)
Fixpoint pw (ents : list pent) (index : N) (n : mname) (p : N) (v : scalar) : Prop :=
  match ents with
  | [] => False
  | e :: t => (index <= p < index + p_w e /\ In (n, v) (p_set e)) \/ pw t (index + p_w e) n p v
  end.

Lemma flush_run_cov mindex mlen last a n p v :
  cov (flush_run mindex mlen last a) n p v <-> cov a n p v \/ (In (n, v) last /\ mindex <= p < mindex + mlen).
Proof.
  unfold flush_run. destruct (0 <? mlen) eqn:E.
  - apply acc_add_cov.
  - apply N.ltb_ge in E. split; [auto|intros [H|[_ H]]; [exact H|lia]].
Qed.

Lemma runs_cov ents : forall index last mlen mindex a n p v,
  mindex + mlen = index ->
  (cov (runs ents index last mlen mindex a) n p v <->
   cov a n p v \/ (In (n, v) last /\ mindex <= p < index) \/ pw ents index n p v).
Proof.
  induction ents as [|e t IH]; intros index last mlen mindex a n p v Hi; cbn [runs pw].
  - rewrite flush_run_cov, Hi. tauto.
  - destruct (markset_eqb last (p_set e)) eqn:E.
    + apply markset_eqb_sound in E. rewrite IH by lia. rewrite <- E. split.
      * intros [H|[[H1 H2]|H]]; [auto| |auto].
        destruct (p <? index) eqn:Ep; [right; left; split; [exact H1|lia]|right; right; left; split; [lia|exact H1]].
      * intros [H|[[H1 H2]|[[H1 H2]|H]]]; [auto| | |auto]; right; left; (split; [assumption|lia]).
    + rewrite IH by lia. rewrite flush_run_cov, Hi. tauto.
Qed.

Lemma pw_at_pos ents : forall index n p v,
  pw ents index n p v <-> index <= p /\ In (n, v) (at_pos ents (p - index)).
Proof.
  induction ents as [|e t IH]; intros index n p v; cbn [pw at_pos].
  - cbn. tauto.
  - rewrite IH. destruct (p - index <? p_w e) eqn:E.
    + apply N.ltb_lt in E. split.
      * intros [[H1 H2]|[H1 H2]]; [split; [lia|exact H2]|lia].
      * intros [H1 H2]. left. split; [lia|exact H2].
    + apply N.ltb_ge in E. replace (p - (index + p_w e)) with (p - index - p_w e) by lia. split.
      * intros [[H1 H2]|[H1 H2]]; [lia|split; [lia|exact H2]].
      * intros [H1 H2]. right. split; [lia|exact H2].
Qed.

Lemma acc_out_cov a s e n v :
  In (s, e, n, v) (acc_out a) <->
  exists l it, In (n, l) a /\ In it l /\ s = a_index it /\ e = a_index it + a_len it /\ v = a_val it /\ v <> SNull.
Proof.
  unfold acc_out. rewrite in_flat_map. split.
  - intros ([k l] & Hkl & Hin). cbn [fst snd] in Hin. apply in_flat_map in Hin. destruct Hin as (it & Hit & Hin).
    destruct (is_null (a_val it)) eqn:En; [destruct Hin|]. destruct Hin as [Hin|[]]. inversion Hin; subst.
    exists l, it. repeat split; auto. intros Hn. rewrite Hn in En. discriminate.
  - intros (l & it & Hl & Hit & -> & -> & -> & Hn). exists (n, l). split; [exact Hl|]. cbn [fst snd].
    apply in_flat_map. exists it. split; [exact Hit|].
    destruct (is_null (a_val it)) eqn:En; [|left; reflexivity].
    destruct (a_val it); first [discriminate|congruence].
Qed.

(* marks(): a position lies in a reported range of name n with value v exactly when the pointwise
   marking gives n the (non-null) value v there *)
Theorem marks_eq_pointwise (its : list item) (p : N) (n : mname) (v : scalar) :
  (exists s e, In (s, e, n, v) (marks its) /\ s <= p < e) <->
  In (n, v) (without_unmarks (marks_at_pos its p)).
Proof.
  unfold marks, marks_at_pos. rewrite without_unmarks_in.
  pose proof (runs_cov (marking its []) 0 [] 0 0 [] n p v eq_refl) as R.
  pose proof (pw_at_pos (marking its []) 0 n p v) as P. rewrite N.sub_0_r in P.
  split.
  - intros (s & e & Hin & Hr). apply acc_out_cov in Hin.
    destruct Hin as (l & it & Hl & Hit & -> & -> & -> & Hn).
    assert (C : cov (runs (marking its []) 0 [] 0 0 []) n p (a_val it)).
    { exists l. split; [exact Hl|]. exists it. repeat split; auto; lia. }
    apply R in C. destruct C as [(l' & [] & _)|[[[] _]|C]]. apply P in C. tauto.
  - intros [Hin Hn].
    assert (C : cov (runs (marking its []) 0 [] 0 0 []) n p v).
    { apply R. right. right. apply P. split; [lia|exact Hin]. }
    destruct C as (l & Hl & it & Hit & Hr & Hv).
    exists (a_index it), (a_index it + a_len it). split; [|exact Hr].
    apply acc_out_cov. exists l, it. repeat split; auto; congruence.
Qed.

(* ------------------------------------------------------------------ expand: one mark on plain text *)
Definition pos_char (it : item) : Prop := exists id w s, it = IChar id true w s /\ 0 < w.

Fixpoint cw_sum (l : list item) : N :=
  match l with
  | [] => 0
  | IChar _ true w _ :: t => w + cw_sum t
  | _ :: t => cw_sum t
  end.
Fixpoint last_char (l : list item) (d : option opid) : option opid :=
  match l with
  | [] => d
  | IChar id true _ _ :: t => last_char t (Some id)
  | _ :: t => last_char t d
  end.
Fixpoint last_w (l : list item) (d : option N) : option N :=
  match l with
  | [] => d
  | IChar _ true w _ :: t => last_w t (Some w)
  | _ :: t => last_w t d
  end.
Definition ow (o : option N) : N := match o with Some x => x | None => 0 end.

(* the insert query walks over characters that lie before the target without stopping *)
Lemma walk_chars target l : forall rest idx lw lvc,
  Forall pos_char l -> idx + ow lw + cw_sum l <= target ->
  exists idx', idx' + ow (last_w l lw) = idx + ow lw + cw_sum l /\
    iq_run target (l ++ rest) (mkIq idx lw false lvc []) =
    iq_run target rest (mkIq idx' (last_w l lw) false (last_char l lvc) []).
Proof.
  induction l as [|it t IH]; intros rest idx lw lvc Hp Hle.
  - exists idx. cbn. split; [lia|reflexivity].
  - inversion Hp as [|? ? Hit Ht]; subst. destruct Hit as (id & w & s & -> & Hw).
    cbn [cw_sum] in Hle. cbn [app iq_run last_w last_char cw_sum].
    unfold iq_step, take_width. cbn [iq_lastw iq_index iq_done iq_lvc iq_cands].
    destruct lw as [x|]; cbn [ow] in *.
    + replace (target <=? idx + x) with false by (symmetry; apply N.leb_gt; lia).
      cbn [iq_lastw iq_index iq_done iq_lvc iq_cands].
      destruct (IH rest (idx + x) (Some w) (Some id) Ht) as (idx' & E1 & E2); [cbn [ow]; lia|].
      exists idx'. split; [cbn [ow] in E1; lia|exact E2].
    + destruct (IH rest idx (Some w) (Some id) Ht) as (idx' & E1 & E2); [cbn [ow]; lia|].
      exists idx'. split; [cbn [ow] in E1; lia|exact E2].
Qed.

Lemma cw_sum_pos l : Forall pos_char l -> l <> [] -> 0 < cw_sum l.
Proof.
  intros H Hn. destruct l as [|it t]; [congruence|]. inversion H as [|? ? Hit _]; subst.
  destruct Hit as (id & w & s & -> & Hw). cbn. lia.
Qed.

Lemma last_w_some l : Forall pos_char l -> l <> [] -> forall d, exists w, last_w l d = Some w.
Proof.
  induction l as [|it t IH]; intros H Hn d; [congruence|]. inversion H as [|? ? Hit Ht]; subst.
  destruct Hit as (id & w & s & -> & Hw). cbn. destruct t as [|it2 t2]; [exists w; reflexivity|].
  apply IH; [exact Ht|discriminate].
Qed.

Lemma last_char_some l : Forall pos_char l -> l <> [] -> forall d, exists c, last_char l d = Some c.
Proof.
  induction l as [|it t IH]; intros H Hn d; [congruence|]. inversion H as [|? ? Hit Ht]; subst.
  destruct Hit as (id & w & s & -> & Hw). cbn. destruct t as [|it2 t2]; [exists id; reflexivity|].
  apply IH; [exact Ht|discriminate].
Qed.

(* single steps of the query *)
Lemma iq_run_cons T it t q :
  iq_run T (it :: t) q = (if snd (iq_step T q it) then fst (iq_step T q it) else iq_run T t (fst (iq_step T q it))).
Proof. cbn [iq_run]. destruct (iq_step T q it); reflexivity. Qed.

(* a mark op met before the target is reached *)
Lemma step_mark_before T idx lw lvc it :
  (match it with IChar _ _ _ _ => False | _ => True end) -> idx + ow lw < T ->
  exists idx', idx' = idx + ow lw /\ iq_step T (mkIq idx lw false lvc []) it = (mkIq idx' None false lvc [], false).
Proof.
  intros Hit Hlt. unfold iq_step, take_width. cbn [iq_lastw iq_index iq_done iq_lvc iq_cands].
  destruct lw as [x|]; cbn [ow] in *.
  - replace (T <=? idx + x) with false by (symmetry; apply N.leb_gt; lia). cbn [iq_done].
    exists (idx + x). split; [reflexivity|]. destruct it; try destruct Hit; reflexivity.
  - cbn [iq_done]. exists idx. split; [lia|]. destruct it; try destruct Hit; reflexivity.
Qed.

(* the element at which the target is reached: the pending width completes the index *)
Lemma step_reach T idx x lvc it :
  T <= idx + x ->
  iq_step T (mkIq idx (Some x) false lvc []) it =
  (mkIq (idx + x) None true lvc (spot [] lvc it),
   match it with IChar _ true _ _ => match spot [] lvc it with [] => false | _ => true end | _ => false end).
Proof.
  intros H. unfold iq_step, take_width. cbn [iq_lastw iq_index iq_done iq_lvc iq_cands].
  replace (T <=? idx + x) with true by (symmetry; apply N.leb_le; lia).
  cbn [iq_lastw iq_index iq_done iq_lvc iq_cands]. destruct it as [? ? ? ?|? ?|? [|] ? ?]; reflexivity.
Qed.

(* an element met after the target was reached *)
Lemma step_after T idx lvc cands it :
  iq_step T (mkIq idx None true lvc cands) it =
  (mkIq idx None true lvc (spot cands lvc it),
   match it with IChar _ true _ _ => match spot cands lvc it with [] => false | _ => true end | _ => false end).
Proof.
  unfold iq_step, take_width. cbn [iq_lastw iq_index iq_done iq_lvc iq_cands].
  destruct it as [? ? ? ?|? ?|? [|] ? ?]; reflexivity.
Qed.

Lemma last_char_none_some l c : Forall pos_char l -> l <> [] -> forall d, last_char l d = Some c -> last_char l None = Some c.
Proof.
  intros H Hn d. destruct l as [|it t]; [congruence|]. inversion H as [|? ? Hit _]; subst.
  destruct Hit as (id & w & s & -> & _). cbn. auto.
Qed.

(* the reference the new element gets when the target is the START boundary of the mark: the begin op
   itself when the mark expands before, otherwise the last character in front of it (or the head) *)
Theorem anchor_start_boundary pre b xb n v c w s rest :
  Forall pos_char pre -> 0 < w ->
  anchor (cw_sum pre) (pre ++ IBegin b xb n v :: IChar c true w s :: rest) =
  Some (if xb then b else match last_char pre None with Some l => l | None => head_id end, cw_sum pre).
Proof.
  intros Hp Hw. unfold anchor. destruct pre as [|p0 pre'].
  - cbn [cw_sum app last_char]. change (0 =? 0) with true. cbv iota.
    rewrite iq_run_cons, step_after. cbn [fst snd].
    rewrite iq_run_cons, step_after. cbn [fst snd spot].
    destruct xb; cbn [app]; unfold take_width; cbn [iq_lastw iq_index iq_done iq_lvc iq_cands negb rev app]; reflexivity.
  - set (pre := p0 :: pre') in *. assert (Hne : pre <> []) by discriminate.
    pose proof (cw_sum_pos pre Hp Hne) as Hpos.
    replace (cw_sum pre =? 0) with false by (symmetry; apply N.eqb_neq; lia). cbv iota.
    destruct (walk_chars (cw_sum pre) pre (IBegin b xb n v :: IChar c true w s :: rest) 0 None None Hp) as (idx' & E1 & E2);
      [cbn [ow]; lia|].
    rewrite E2. destruct (last_w_some pre Hp Hne None) as (wl & Ewl). destruct (last_char_some pre Hp Hne None) as (cl & Ecl).
    rewrite Ewl, Ecl in *. cbn [ow] in E1.
    rewrite iq_run_cons, step_reach by lia. cbn [fst snd].
    rewrite iq_run_cons, step_after. cbn [fst snd spot].
    replace (idx' + wl) with (cw_sum pre) by lia.
    destruct xb; cbn [app]; unfold take_width; cbn [iq_lastw iq_index iq_done iq_lvc iq_cands negb rev app]; reflexivity.
Qed.

(* ... and when it is the END boundary: the last marked character when the mark expands after,
   otherwise the end op *)
Theorem anchor_end_boundary pre b xb n v mid e xe post :
  Forall pos_char pre -> Forall pos_char mid -> mid <> [] ->
  (post = [] \/ exists c w s t, post = IChar c true w s :: t) ->
  anchor (cw_sum pre + cw_sum mid) (pre ++ IBegin b xb n v :: mid ++ IEnd e xe :: post) =
  Some (if xe then match last_char mid None with Some l => l | None => head_id end else e, cw_sum pre + cw_sum mid).
Proof.
  intros Hp Hm Hne Hpost. unfold anchor.
  pose proof (cw_sum_pos mid Hm Hne) as Hpos.
  replace (cw_sum pre + cw_sum mid =? 0) with false by (symmetry; apply N.eqb_neq; lia). cbv iota.
  set (T := cw_sum pre + cw_sum mid) in *.
  destruct (walk_chars T pre (IBegin b xb n v :: mid ++ IEnd e xe :: post) 0 None None Hp) as (i1 & E1 & E2);
    [cbn [ow]; lia|].
  rewrite E2. clear E2. cbn [ow] in E1.
  destruct (step_mark_before T i1 (last_w pre None) (last_char pre None) (IBegin b xb n v) I) as (i2 & E3 & E4); [lia|].
  rewrite iq_run_cons, E4. cbn [fst snd]. clear E4.
  destruct (walk_chars T mid (IEnd e xe :: post) i2 None (last_char pre None) Hm) as (i3 & E5 & E6); [cbn [ow]; lia|].
  rewrite E6. clear E6. cbn [ow] in E5.
  destruct (last_w_some mid Hm Hne None) as (wl & Ewl).
  destruct (last_char_some mid Hm Hne (last_char pre None)) as (cl & Ecl).
  rewrite (last_char_none_some mid cl Hm Hne _ Ecl).
  rewrite Ewl, Ecl in *. cbn [ow] in E5.
  rewrite iq_run_cons, step_reach by lia. cbn [fst snd spot find_pos].
  replace (i3 + wl) with T by lia.
  destruct Hpost as [->|(c & w & s & t & ->)].
  - destruct xe; cbn [iq_run app]; unfold take_width; cbn [iq_lastw iq_index iq_done iq_lvc iq_cands negb rev app]; reflexivity.
  - destruct xe; rewrite iq_run_cons, step_after; cbn [fst snd spot app]; unfold take_width;
      cbn [iq_lastw iq_index iq_done iq_lvc iq_cands negb rev app]; reflexivity.
Qed.

(* where the new element lands: right after its reference (it carries the greatest id, so no sibling
   precedes it) — [Interp.place] / [insert_after] on the element sequence *)
Fixpoint ins_after (r : opid) (c : item) (its : list item) : list item :=
  match its with
  | [] => [c]
  | x :: t => if opid_eqb (item_id x) r then x :: c :: t else x :: ins_after r c t
  end.
Definition place_item (r : opid) (c : item) (its : list item) : list item :=
  if opid_eqb r head_id then c :: its else ins_after r c its.

Lemma ins_after_at r c l1 x l2 :
  ~ In r (map item_id l1) -> item_id x = r -> ins_after r c (l1 ++ x :: l2) = l1 ++ x :: c :: l2.
Proof.
  intros Hn Hx. induction l1 as [|y t IH]; cbn [app ins_after].
  - rewrite Hx, opid_eqb_refl. reflexivity.
  - destruct (opid_eqb (item_id y) r) eqn:E.
    + apply opid_eqb_spec in E. exfalso. apply Hn. left. exact E.
    + rewrite IH; [reflexivity|]. intros H. apply Hn. right. exact H.
Qed.

Lemma fold_chars l : Forall pos_char l -> forall st, fold_left step_open l st = st.
Proof.
  induction 1 as [|it t Hit _ IH]; intros st; [reflexivity|].
  destruct Hit as (id & w & s & -> & _). cbn. apply IH.
Qed.

Lemma split_last_char l : Forall pos_char l -> l <> [] -> forall d,
  exists l' id w s, l = l' ++ [IChar id true w s] /\ last_char l d = Some id.
Proof.
  induction l as [|it t IH]; intros H Hn d; [congruence|]. inversion H as [|? ? Hit Ht]; subst.
  destruct Hit as (id & w & s & -> & Hw). destruct t as [|it2 t2].
  - exists [], id, w, s. split; reflexivity.
  - destruct (IH Ht ltac:(discriminate) (Some id)) as (l' & id' & w' & s' & E & El).
    exists (IChar id true w s :: l'), id', w', s'. split; [cbn [app]; rewrite <- E; reflexivity|exact El].
Qed.

Lemma current_nil : current [] = [].
Proof. reflexivity. Qed.

Lemma current_one b n v : current [(b, n, v)] = [(n, v)].
Proof. unfold current, names_of. cbn. unfold om_name. cbn. rewrite nlist_eqb_refl. reflexivity. Qed.

(* One mark [b, e) over plain text (visible characters of positive width, no tombstones, no other mark),
   a character inserted by the model's insert rule exactly at the START boundary: it is placed so that
   the walk reports the mark for it iff the mark expands before. *)
Theorem expand_single_mark_start pre b xb n v c w s rest q wq sq :
  Forall pos_char pre -> 0 < w ->
  NoDup (map item_id (pre ++ [IBegin b xb n v])) -> ~ In head_id (map item_id (pre ++ [IBegin b xb n v])) ->
  let its := pre ++ IBegin b xb n v :: IChar c true w s :: rest in
  exists r, anchor (cw_sum pre) its = Some (r, cw_sum pre) /\
    exists l1 l2, place_item r (IChar q true wq sq) its = l1 ++ IChar q true wq sq :: l2 /\
                  current (final_open l1) = if xb then [(n, v)] else [].
Proof.
  intros Hp Hw ND Hh its. eexists. split; [apply anchor_start_boundary; assumption|].
  rewrite map_app in ND, Hh. cbn in ND, Hh.
  assert (Hb : ~ In b (map item_id pre)).
  { intros H. apply NoDup_remove_2 in ND. apply ND. rewrite app_nil_r. exact H. }
  assert (Hbh : b <> head_id) by (intros ->; apply Hh; apply in_or_app; right; left; reflexivity).
  unfold place_item. destruct xb.
  - replace (opid_eqb b head_id) with false by (symmetry; apply not_true_iff_false; rewrite opid_eqb_spec; exact Hbh).
    exists (pre ++ [IBegin b true n v]), (IChar c true w s :: rest). split.
    + unfold its. rewrite ins_after_at by auto. rewrite <- app_assoc. reflexivity.
    + unfold final_open. rewrite fold_left_app, (fold_chars pre Hp). cbn. apply current_one.
  - destruct pre as [|p0 pre'].
    + cbn [last_char]. rewrite opid_eqb_refl. exists [], its. split; reflexivity.
    + destruct (split_last_char (p0 :: pre') Hp ltac:(discriminate) None) as (l' & id & w' & s' & E & El).
      rewrite El. 
      assert (Hid : id <> head_id).
      { intros ->. apply Hh. apply in_or_app. left. rewrite E, map_app. apply in_or_app. right. left. reflexivity. }
      replace (opid_eqb id head_id) with false by (symmetry; apply not_true_iff_false; rewrite opid_eqb_spec; exact Hid).
      exists (p0 :: pre'), (IBegin b false n v :: IChar c true w s :: rest). split.
      * unfold its. rewrite E, <- app_assoc. cbn [app]. rewrite ins_after_at; [rewrite <- app_assoc; reflexivity| |reflexivity].
        rewrite E, map_app in ND. cbn in ND. rewrite <- app_assoc in ND. apply NoDup_remove_2 in ND.
        intros H. apply ND. apply in_or_app. left. exact H.
      * unfold final_open. rewrite (fold_chars _ Hp). apply current_nil.
Qed.

(* ... and exactly at the END boundary: the mark is reported for it iff the mark expands after *)
Theorem expand_single_mark_end pre b xb n v mid e xe post q wq sq :
  Forall pos_char pre -> Forall pos_char mid -> mid <> [] -> opid_prev e = b ->
  (post = [] \/ exists c w s t, post = IChar c true w s :: t) ->
  NoDup (map item_id (pre ++ IBegin b xb n v :: mid ++ [IEnd e xe])) ->
  ~ In head_id (map item_id (pre ++ IBegin b xb n v :: mid ++ [IEnd e xe])) ->
  let its := pre ++ IBegin b xb n v :: mid ++ IEnd e xe :: post in
  exists r, anchor (cw_sum pre + cw_sum mid) its = Some (r, cw_sum pre + cw_sum mid) /\
    exists l1 l2, place_item r (IChar q true wq sq) its = l1 ++ IChar q true wq sq :: l2 /\
                  current (final_open l1) = if xe then [(n, v)] else [].
Proof.
  intros Hp Hm Hne He Hpost ND Hh its. eexists. split; [apply anchor_end_boundary; assumption|].
  unfold place_item. destruct xe.
  - destruct (split_last_char mid Hm Hne None) as (l' & id & w' & s' & E & El). rewrite El.
    assert (Hid : id <> head_id).
    { intros ->. apply Hh. rewrite E. rewrite map_app. apply in_or_app. right. cbn. right.
      rewrite !map_app. apply in_or_app. left. apply in_or_app. right. left. reflexivity. }
    replace (opid_eqb id head_id) with false by (symmetry; apply not_true_iff_false; rewrite opid_eqb_spec; exact Hid).
    exists (pre ++ IBegin b xb n v :: mid), (IEnd e true :: post). split.
    + unfold its. rewrite E.
      replace (pre ++ IBegin b xb n v :: (l' ++ [IChar id true w' s']) ++ IEnd e true :: post)
        with ((pre ++ IBegin b xb n v :: l') ++ IChar id true w' s' :: IEnd e true :: post)
        by (repeat rewrite <- app_assoc; cbn [app]; repeat rewrite <- app_assoc; reflexivity).
      rewrite ins_after_at; [repeat rewrite <- app_assoc; cbn [app]; repeat rewrite <- app_assoc; reflexivity| |reflexivity].
      rewrite E in ND.
      replace (pre ++ IBegin b xb n v :: (l' ++ [IChar id true w' s']) ++ [IEnd e true])
        with ((pre ++ IBegin b xb n v :: l') ++ IChar id true w' s' :: [IEnd e true]) in ND
        by (repeat rewrite <- app_assoc; cbn [app]; repeat rewrite <- app_assoc; reflexivity).
      rewrite map_app in ND. cbn [map] in ND. apply NoDup_remove_2 in ND.
      intros H. apply ND. apply in_or_app. left. exact H.
    + unfold final_open. rewrite fold_left_app, (fold_chars pre Hp). cbn [fold_left step_open].
      rewrite (fold_chars mid Hm). unfold open_begin. cbn [existsb]. apply current_one.
  - assert (Heh : e <> head_id).
    { intros ->. apply Hh. rewrite map_app. apply in_or_app. right. cbn. right. rewrite map_app. apply in_or_app. right. left. reflexivity. }
    replace (opid_eqb e head_id) with false by (symmetry; apply not_true_iff_false; rewrite opid_eqb_spec; exact Heh).
    exists (pre ++ IBegin b xb n v :: mid ++ [IEnd e false]), post. split.
    + unfold its.
      replace (pre ++ IBegin b xb n v :: mid ++ IEnd e false :: post)
        with ((pre ++ IBegin b xb n v :: mid) ++ IEnd e false :: post) by (repeat rewrite <- app_assoc; cbn [app]; reflexivity).
      rewrite ins_after_at; [repeat rewrite <- app_assoc; cbn [app]; repeat rewrite <- app_assoc; reflexivity| |reflexivity].
      replace (pre ++ IBegin b xb n v :: mid ++ [IEnd e false])
        with ((pre ++ IBegin b xb n v :: mid) ++ [IEnd e false]) in ND by (repeat rewrite <- app_assoc; cbn [app]; reflexivity).
      rewrite map_app in ND. cbn [map] in ND. apply NoDup_remove_2 in ND. rewrite app_nil_r in ND. exact ND.
    + unfold final_open. rewrite fold_left_app, (fold_chars pre Hp). cbn [fold_left step_open].
      rewrite fold_left_app, (fold_chars mid Hm). cbn [fold_left step_open].
      unfold open_begin, open_end. cbn [existsb filter om_id fst]. rewrite He, opid_eqb_refl. cbn. apply current_nil.
Qed.

(* ------------------------------------------------------------------ get_marks(i) is NOT a reader by text index *)
(* UTF-8 text e-acute, "a", "b" with bold over [2,3) (the "a"): marks() and the pointwise marking put
   the mark at text index 2, get_marks answers for index 1 (it counts elements) *)
Definition refute_ops : list op :=
  [ mkOp (1, [1]) root_id (KMap [116]) false (AMake OText) [];
    mkOp (2, [1]) (1, [1]) (KSeq head_id) true (APut (SStr [233])) [];
    mkOp (3, [1]) (1, [1]) (KSeq (2, [1])) true (APut (SStr [97])) [];
    mkOp (4, [1]) (1, [1]) (KSeq (3, [1])) true (APut (SStr [98])) [];
    mkOp (5, [1]) (1, [1]) (KSeq (2, [1])) true (AMarkBegin false [98; 111; 108; 100] (SBool true)) [];
    mkOp (6, [1]) (1, [1]) (KSeq (3, [1])) true (AMarkEnd false) [] ].

Theorem get_marks_text_index_refuted :
  exists (e : enc) (ops : list op) (obj : opid) (i : nat),
    let its := text_view e ops obj in
    marks its = [(2, 3, [98; 111; 108; 100], SBool true)] /\
    get_marks its i <> without_unmarks (marks_at_pos its (N.of_nat i)).
Proof.
  exists EncU8, refute_ops, (1, [1]), 1%nat. split; [vm_compute; reflexivity|].
  vm_compute. discriminate.
Qed.
