(* Crdt/Migrate.v — string migration on load (C40).

   Mirrors rust/automerge/src/automerge.rs [Automerge::convert_scalar_strings_to_text], called by
   load_with_options when LoadOptions::migrate_strings(StringMigration::ConvertToText) was given:

     for (obj, ops) in self.ops.iter_objs()            -- every object, ascending object id (root first)
       if obj.typ is Map or List                        -- text objects (and tables) are skipped
         for op in ops.visible_slow(None)               -- visible ops in op-set order: by key / by element, then id
           if op is Put(Str(s))                          -- EVERY visible string, conflict losers included
             prop = the map key | the list index of the op's element (seek_list_opid, computed NOW)
             to_convert.push(obj, prop, s)
     if to_convert is not empty
       tx = self.transaction()                          -- the loaded document's own (random) actor
       for (obj, prop, s) in to_convert                 -- one transaction for all conversions, in order
         text = tx.put_object(obj, prop, Text)          -- supersedes ALL visible values of the register
         tx.splice_text(text, 0, 0, s)                  -- one insert per character
       tx.commit()

   Consequences mirrored here: a register holding several visible strings is converted once per string,
   each conversion overwriting the text object of the previous one, so the LAST (highest-id) string
   survives; non-string conflict siblings of a string (integers, objects, counters) are superseded with it;
   list indexes are computed before the transaction starts and stay valid because put_object replaces an
   element in place.  put_object / splice_text are the calls of Crdt/Local.v.  No proofs here
   (Crdt/MigrateProofs.v). *)
From AM Require Import Base.Prelude Base.Order Crdt.Types Crdt.Interp Crdt.Local.
Local Open Scope N_scope.

(* object, property, string *)
Definition conv := (opid * prop * list N)%type.

(* the visible strings of one register, ascending id *)
Definition str_convs (obj : opid) (p : prop) (r : regobs) : list conv :=
  flat_map (fun iw => match snd iw with VS (SStr s) => [(obj, p, s)] | _ => [] end) r.

Definition map_convs (ops : list op) (obj : opid) : list conv :=
  flat_map (fun k => str_convs obj (PMap k) (reg_at ops obj (KMap k)))
           (dedup_sorted (isort bytes_cmp (map_keys (obj_ops ops obj)))).

(* visible elements in document order, element number i at list index i *)
Fixpoint list_convs (obj : opid) (els : list (opid * regobs)) (i : N) : list conv :=
  match els with
  | [] => []
  | er :: t => str_convs obj (PSeq i) (snd er) ++ list_convs obj t (i + 1)
  end.

Definition obj_convs (ops : list op) (ot : opid * objtype) : list conv :=
  match snd ot with
  | OMap => map_convs ops (fst ot)
  | OList => list_convs (fst ot) (seq_elems ops (fst ot)) 0
  | _ => []
  end.

(* [ops] ascending by id *)
Definition conversions (ops : list op) : list conv := flat_map (obj_convs ops) (objects ops).

(* put_object(obj, prop, Text) then splice_text(text, 0, 0, s) *)
Definition convert_one (e : enc) (t : tx) (c : conv) : eres tx :=
  match c with
  | (obj, p, s) =>
    with_obj t obj (fun ty =>
      match p, ty with
      | PMap _, OMap | PSeq _, OList =>
        ebind (local_op e t obj ty p (AMake OText)) (fun r =>
          match snd r with
          | Some id => step e (fst r) (CSpliceText id 0 0 s)
          | None => EPanic                          (* put_object unwraps the id of the op it made *)
          end)
      | _, _ => EErr EInvalidOp
      end)
  end.

Fixpoint convert_all (e : enc) (t : tx) (cs : list conv) : eres tx :=
  match cs with
  | [] => EOk t
  | c :: rest => ebind (convert_one e t c) (fun t' => convert_all e t' rest)
  end.

(* the ops of the change the load appends; [] = no change is added *)
Definition migrate (e : enc) (ops : list op) (a : actor) : eres (list op) :=
  let t0 := begin_tx ops a in
  match conversions (tx_all t0) with
  | [] => EOk []
  | cs => ebind (convert_all e t0 cs) (fun t => EOk (tx_pending t))
  end.

(* ---- what the property talks about ---- *)
Definition is_vstr (iw : opid * vobs) : bool := match snd iw with VS (SStr _) => true | _ => false end.
Definition has_str (r : regobs) : bool := existsb is_vstr r.
(* the highest-id visible string of a register (None: the register shows no string) *)
Definition last_str_from (r : regobs) (acc : option (list N)) : option (list N) :=
  fold_left (fun acc iw => match snd iw with VS (SStr s) => Some s | _ => acc end) r acc.
Definition last_str (r : regobs) : option (list N) := last_str_from r None.

(* the characters of a text object, in document order *)
Definition text_at (ops : list op) (obj : opid) : list N :=
  flat_map (fun er => elem_text (snd er)) (seq_elems ops obj).
