(* Crdt/MigrateProofs.v — proofs about string migration (C40), on top of Crdt/LocalProofs.v. *)
From AM Require Import Base.Prelude Base.Order Crdt.Types Crdt.Interp Crdt.Local Crdt.LocalProofs Crdt.Migrate.
Local Open Scope N_scope.

(* everything the reads show of one object is a function of that object's ops *)
Lemma reg_at_obj_ops ops ops' obj K : obj_ops ops' obj = obj_ops ops obj -> reg_at ops' obj K = reg_at ops obj K.
Proof. unfold reg_at. intros ->. reflexivity. Qed.

Lemma seq_elems_obj_ops ops ops' obj : obj_ops ops' obj = obj_ops ops obj -> seq_elems ops' obj = seq_elems ops obj.
Proof. unfold seq_elems, reg_at. intros ->. reflexivity. Qed.

Lemma text_at_obj_ops ops ops' obj : obj_ops ops' obj = obj_ops ops obj -> text_at ops' obj = text_at ops obj.
Proof. unfold text_at. intros H. rewrite (seq_elems_obj_ops _ _ _ H). reflexivity. Qed.

(* ================= one character appended to a text ================= *)
Definition char_op (t : tx) (obj ref : opid) (c : N) : op :=
  mkOp (next_id t) obj (KSeq ref) true (APut (SStr [c])) [].

Lemma next_ctr_push t n : next_ctr (push t n) = next_ctr t + 1.
Proof. unfold next_ctr, push. cbn. rewrite app_length. cbn. lia. Qed.

Lemma elem_order_ids_below t obj x :
  wf_tx t -> In x (elem_order (obj_ops (tx_all t) obj)) -> fst x < next_ctr t /\ 0 < fst x.
Proof.
  intros W Hx. apply elem_order_in in Hx. destruct Hx as (o & Ho & <-).
  apply obj_ops_incl in Ho. destruct (wf_tx_parts t W) as (_ & B & _). rewrite Forall_forall in B.
  destruct (op_below_parts _ _ (B o Ho)) as (A & _). split; [exact A|]. eapply wf_tx_ids_pos; eauto.
Qed.

Lemma chain_step t obj ref c L :
  wf_tx t -> fst obj < next_ctr t ->
  elem_order (obj_ops (tx_all t) obj) = L ->
  ((L = [] /\ ref = head_id) \/ (exists L0, L = L0 ++ [ref] /\ ~ In ref L0)) ->
  let n := char_op t obj ref c in
  wf_tx (push t n) /\
  elem_order (obj_ops (tx_all (push t n)) obj) = L ++ [next_id t] /\
  ~ In (next_id t) L /\
  text_at (tx_all (push t n)) obj = text_at (tx_all t) obj ++ [c] /\
  (forall obj', obj' <> obj -> obj_ops (tx_all (push t n)) obj' = obj_ops (tx_all t) obj') /\
  (forall o, lookup_type (tx_all (push t n)) o = lookup_type (tx_all t) o).
Proof.
  intros W Ho EL Hr n.
  destruct (wf_tx_parts t W) as (S & B & St).
  assert (Rb : fst ref < next_ctr t).
  { destruct Hr as [[_ ->]|(L0 & E & _)]; [cbn; unfold next_ctr; lia|].
    apply (elem_order_ids_below t obj ref W). rewrite EL, E. apply in_or_app. right. left. reflexivity. }
  assert (F : fresh (tx_all t) n).
  { apply fresh_of_wf; [exact W|reflexivity|]. cbn. intros p []. }
  assert (NI : ~ In (next_id t) L).
  { intros Hin. rewrite <- EL in Hin. apply (elem_order_ids_below t obj _ W) in Hin.
    rewrite next_id_ctr in Hin. lia. }
  destruct (insert_effect (tx_all t) n obj ref S F eq_refl eq_refl eq_refl eq_refl) as (Fr & Own & Ord & Oth).
  split; [|split; [|split; [exact NI|split; [|split]]]].
  - apply wf_push; [exact W|reflexivity|exact Ho|exact Rb|]. cbn. intros p [].
  - rewrite tx_all_push, Ord, EL. unfold place. change (ref_of n) with ref. change (op_id n) with (next_id t).
    destruct Hr as [[-> ->]|(L0 & -> & Hn)].
    + rewrite opid_eqb_refl. reflexivity.
    + assert (Rp : 0 < fst ref).
      { apply (elem_order_ids_below t obj ref W). rewrite EL. apply in_or_app. right. left. reflexivity. }
      rewrite opid_eqb_false by (intros Q; rewrite Q in Rp; cbn in Rp; lia).
      rewrite insert_after_split by exact Hn. rewrite <- app_assoc. reflexivity.
  - (* the text: old elements keep their registers, the new element shows its character *)
    unfold text_at. rewrite !seq_elems_gel, tx_all_push, Ord, EL.
    assert (Pl : place L n = L ++ [next_id t]).
    { unfold place. change (ref_of n) with ref. change (op_id n) with (next_id t).
      destruct Hr as [[-> ->]|(L0 & -> & Hn)].
      - rewrite opid_eqb_refl. reflexivity.
      - assert (Rp : 0 < fst ref).
        { apply (elem_order_ids_below t obj ref W). rewrite EL. apply in_or_app. right. left. reflexivity. }
        rewrite opid_eqb_false by (intros Q; rewrite Q in Rp; cbn in Rp; lia).
        rewrite insert_after_split by exact Hn. rewrite <- app_assoc. reflexivity. }
    rewrite Pl, !flat_map_app. f_equal.
    + f_equal. apply flat_map_ext_in'. intros x Hx. unfold gel.
      rewrite Fr; [reflexivity|]. right. intros Q. inversion Q. subst x. apply NI. exact Hx.
    + cbn [flat_map]. unfold gel. change (next_id t) with (op_id n). rewrite Own.
      rewrite (own_reg_put n (SStr [c])) by reflexivity. cbn. reflexivity.
  - intros obj' NE. rewrite tx_all_push. apply Oth. exact NE.
  - intros o. rewrite tx_all_push. apply lookup_type_snoc_nomake. reflexivity.
Qed.

Lemma insert_chain_chars s : forall t obj ref L,
  wf_tx t -> fst obj < next_ctr t ->
  elem_order (obj_ops (tx_all t) obj) = L ->
  ((L = [] /\ ref = head_id) \/ (exists L0, L = L0 ++ [ref] /\ ~ In ref L0)) ->
  let t' := insert_chain t obj ref (char_acts s) in
  wf_tx t' /\
  text_at (tx_all t') obj = text_at (tx_all t) obj ++ s /\
  (forall obj', obj' <> obj -> obj_ops (tx_all t') obj' = obj_ops (tx_all t) obj') /\
  (forall o, lookup_type (tx_all t') o = lookup_type (tx_all t) o) /\
  next_ctr t <= next_ctr t'.
Proof.
  induction s as [|c s IH]; intros t obj ref L W Ho EL Hr; cbn [char_acts map insert_chain].
  - cbv zeta. rewrite app_nil_r. repeat split; auto. lia.
  - cbv zeta. fold (char_acts s).
    destruct (chain_step t obj ref c L W Ho EL Hr) as (W1 & E1 & NI & T1 & O1 & L1).
    fold (char_op t obj ref c).
    set (t1 := push t (char_op t obj ref c)) in *.
    assert (Ho1 : fst obj < next_ctr t1) by (unfold t1; rewrite next_ctr_push; lia).
    destruct (IH t1 obj (next_id t) (L ++ [next_id t]) W1 Ho1 E1) as (W2 & T2 & O2 & L2 & N2).
    { right. exists L. split; [reflexivity|exact NI]. }
    cbv zeta in W2, T2, O2, L2, N2.
    split; [exact W2|]. split; [rewrite T2, T1, <- app_assoc; reflexivity|].
    split; [intros obj' NE; rewrite O2, O1 by exact NE; reflexivity|].
    split; [intros o; rewrite L2, L1; reflexivity|].
    apply N.le_trans with (next_ctr t1); [unfold t1; rewrite next_ctr_push; lia|exact N2].
Qed.

(* ================= put_object(obj, prop, Text) ; splice_text(text, 0, 0, s) ================= *)
Lemma resolve_make r ty : resolve_action r (AMake ty) = Some (AMake ty, r).
Proof. unfold resolve_action. destruct (winner r) as [[i w]|]; reflexivity. Qed.

Lemma lookup_type_ctr_below t obj ty : wf_tx t -> lookup_type (tx_all t) obj = Some ty -> fst obj < next_ctr t.
Proof.
  intros W L. destruct (wf_tx_parts t W) as (_ & B & St). rewrite Forall_forall in B.
  unfold lookup_type in L.
  destruct (find (fun ot => opid_eqb (fst ot) obj) (objects (tx_all t))) as [ot|] eqn:Fd; [|discriminate].
  apply find_some in Fd. destruct Fd as [Hin Eq]. apply opid_eqb_spec in Eq.
  destruct (objects_ids _ _ Hin) as [H|(o & Ho & H)].
  - rewrite Eq in H. rewrite H. cbn. unfold next_ctr. lia.
  - destruct (op_below_parts _ _ (B o Ho)) as (A & _). rewrite H, Eq in A. exact A.
Qed.

Lemma lookup_type_next_none t : wf_tx t -> lookup_type (tx_all t) (next_id t) = None.
Proof.
  intros W. destruct (lookup_type (tx_all t) (next_id t)) as [ty|] eqn:E; [|reflexivity].
  exfalso. exact (lookup_type_below _ _ _ W E eq_refl).
Qed.

Lemma seek_unit_some w els : (forall r, w r = 1) ->
  forall k idx acc p0 e r, nth_error els k = Some (e, r) -> idx = acc + N.of_nat k ->
  exists s wd p, seek w els idx acc p0 = Some (e, r, s, wd, p).
Proof.
  intros Hw. induction els as [|[e' r'] t IH]; intros k idx acc p0 e r Hn Hi; [destruct k; discriminate|].
  cbn [seek]. rewrite Hw. destruct k as [|k].
  - cbn in Hn. inversion Hn; subst. replace (acc + N.of_nat 0 <? acc + 1) with true by (symmetry; apply N.ltb_lt; lia).
    eexists _, _, _. reflexivity.
  - cbn in Hn. replace (idx <? acc + 1) with false by (symmetry; apply N.ltb_ge; lia).
    apply (IH k idx (acc + 1) (S p0) e r Hn). lia.
Qed.

Lemma splice_text_fresh e t id s :
  lookup_type (tx_all t) id = Some OText ->
  step e t (CSpliceText id 0 0 s) = EOk (insert_chain t id head_id (char_acts s)).
Proof.
  intros L. unfold step, with_obj. rewrite L. unfold inner_splice.
  change (0 <? 0)%Z with false. cbv iota. change (Z.to_N 0) with 0.
  assert (D : forall t1 i, del_loop (2 * length (seq_elems (tx_all t1) id) + 2) e t1 id OText i 0 0 = EOk t1).
  { intros t1 i. rewrite Nat.add_comm. cbn [Nat.add del_loop]. rewrite N.ltb_irrefl. reflexivity. }
  destruct s as [|c s].
  - cbn [char_acts map insert_chain]. apply D.
  - cbn [char_acts map]. unfold query_insert. rewrite N.eqb_refl. apply D.
Qed.

(* the target register of a conversion: a map key, or the element a list index stands for *)
Definition conv_target (ops : list op) (obj : opid) (p : prop) (ty : objtype) (K : key) : Prop :=
  match p with
  | PMap k => ty = OMap /\ K = KMap k
  | PSeq i => ty = OList /\ exists el r, K = KSeq el /\ nth_error (seq_elems ops obj) (N.to_nat i) = Some (el, r)
  end.

Theorem convert_one_spec e t obj p s ty K :
  wf_tx t -> lookup_type (tx_all t) obj = Some ty -> conv_target (tx_all t) obj p ty K ->
  let id := next_id t in
  exists t', convert_one e t (obj, p, s) = EOk t' /\
    wf_tx t' /\ tx_base t' = tx_base t /\ tx_actor t' = tx_actor t /\ tx_start t' = tx_start t /\
    tx_pending t' <> [] /\
    reg_at (tx_all t') obj K = [(id, VO OText)] /\
    (forall K', K' <> K -> reg_at (tx_all t') obj K' = reg_at (tx_all t) obj K') /\
    (forall obj', obj' <> obj -> obj' <> id -> obj_ops (tx_all t') obj' = obj_ops (tx_all t) obj') /\
    (forall obj', obj' <> id -> elem_order (obj_ops (tx_all t') obj') = elem_order (obj_ops (tx_all t) obj')) /\
    lookup_type (tx_all t) id = None /\ lookup_type (tx_all t') id = Some OText /\
    (forall o, o <> id -> lookup_type (tx_all t') o = lookup_type (tx_all t) o) /\
    text_at (tx_all t') id = s.
Proof.
  intros W L T id.
  pose proof (lookup_type_below _ _ _ W L) as NOI. fold id in NOI.
  pose proof (lookup_type_ctr_below _ _ _ W L) as OB.
  set (r := reg_at (tx_all t) obj K).
  set (n := mkOp id obj K false (AMake OText) (map fst r)).
  assert (U : update_op t obj K r (AMake OText) = EOk (push t n, Some id)).
  { unfold update_op. rewrite resolve_make. cbn [is_inc_action andb]. reflexivity. }
  (* the put_object part reaches update_op on K *)
  assert (P : local_op e t obj ty p (AMake OText) = EOk (push t n, Some id) /\ key_ctr K < next_ctr t).
  { destruct p as [k|i]; cbn [conv_target] in T.
    - destruct T as [-> ->]. split; [exact U|]. cbn. unfold next_ctr. destruct (wf_tx_parts t W) as (_ & _ & St). lia.
    - destruct T as (-> & el & r0 & -> & Hn). cbn [local_op]. unfold local_list_op. cbn [is_seq_type negb].
      destruct (seek_unit_some (elem_w e OList) (seq_elems (tx_all t) obj) (fun _ => eq_refl)
                  (N.to_nat i) i 0 0%nat el r0 Hn) as (s0 & wd & pp & Sk); [lia|].
      rewrite Sk. destruct (seq_elems_reg _ _ _ _ (nth_error_In _ _ Hn)) as [Er _].
      split; [rewrite Er; exact U|]. cbn [key_ctr].
      assert (Hin : In el (elem_order (obj_ops (tx_all t) obj))).
      { apply nth_error_In in Hn. rewrite seq_elems_gel in Hn. apply in_flat_map in Hn.
        destruct Hn as (x & Hx & Hg). unfold gel in Hg. destruct (reg_at (tx_all t) obj (KSeq x)); [destruct Hg|].
        destruct Hg as [Q|[]]. inversion Q; subst. exact Hx. }
      apply (elem_order_ids_below t obj el W Hin). }
  destruct P as [P KB].
  destruct (update_op_spec t obj K (AMake OText) _ _ W U) as [Fr Rg]. cbv zeta in Rg.
  fold r in Rg. rewrite resolve_make, kept_all in Rg. cbn [app] in Rg.
  set (t1 := push t n) in *.
  assert (F : fresh (tx_all t) n).
  { apply fresh_of_wf; [exact W|reflexivity|]. cbn [op_pred n]. intros q Hq.
    apply in_map_iff in Hq. destruct Hq as ([i w] & <- & Hq). eapply reg_ids_below; [exact W|exact Hq]. }
  assert (W1 : wf_tx t1).
  { apply wf_push; [exact W|reflexivity|exact OB|exact KB|]. cbn [op_pred n]. intros q Hq.
    apply in_map_iff in Hq. destruct Hq as ([i w] & <- & Hq). eapply reg_ids_below; [exact W|exact Hq]. }
  assert (L1 : lookup_type (tx_all t1) id = Some OText).
  { unfold t1. rewrite tx_all_push. apply (lookup_type_new (tx_all t) n OText F); [|reflexivity].
    cbn. unfold id, next_id, root_id. intros Q. inversion Q. destruct (wf_tx_parts t W) as (_ & _ & St). lia. }
  assert (E1 : obj_ops (tx_all t1) id = []).
  { unfold t1. rewrite tx_all_push, obj_ops_snoc. cbn [op_obj n].
    rewrite (opid_eqb_false obj id) by exact NOI. rewrite app_nil_r. apply (obj_ops_fresh _ n F). }
  assert (IB : fst id < next_ctr t1) by (unfold t1; rewrite next_ctr_push; unfold id; rewrite next_id_ctr; lia).
  destruct (insert_chain_chars s t1 id head_id [] W1 IB) as (W2 & T2 & O2 & L2 & N2).
  { rewrite E1. reflexivity. }
  { left. split; reflexivity. }
  cbv zeta in W2, T2, O2, L2, N2.
  set (t2 := insert_chain t1 id head_id (char_acts s)) in *.
  exists t2. split.
  { unfold convert_one, with_obj. rewrite L.
    assert (G : ebind (local_op e t obj ty p (AMake OText))
                  (fun r => match snd r with Some id => step e (fst r) (CSpliceText id 0 0 s) | None => EPanic end) = EOk t2).
    { rewrite P. cbn [ebind fst snd]. apply splice_text_fresh. exact L1. }
    destruct p as [k|i]; cbn [conv_target] in T.
    - destruct T as [-> _]. exact G.
    - destruct T as [-> _]. exact G. }
  assert (Bs : forall (acts : list action) t0 o rf, tx_base (insert_chain t0 o rf acts) = tx_base t0 /\
             tx_actor (insert_chain t0 o rf acts) = tx_actor t0 /\ tx_start (insert_chain t0 o rf acts) = tx_start t0 /\
             (tx_pending t0 <> [] -> tx_pending (insert_chain t0 o rf acts) <> [])).
  { induction acts as [|a acts IH]; intros t0 o rf; cbn [insert_chain]; [auto|].
    destruct (IH (push t0 (mkOp (next_id t0) o (KSeq rf) true a [])) o (next_id t0)) as (A1 & A2 & A3 & A4).
    rewrite A1, A2, A3. repeat split; try reflexivity. intros _. apply A4. cbn. intros Q. apply app_eq_nil in Q. destruct Q; discriminate. }
  destruct (Bs (char_acts s) t1 id head_id) as (B1 & B2 & B3 & B4). fold t2 in B1, B2, B3, B4.
  split; [exact W2|]. split; [rewrite B1; reflexivity|]. split; [rewrite B2; reflexivity|]. split; [rewrite B3; reflexivity|].
  split; [apply B4; unfold t1; cbn; intros Q; apply app_eq_nil in Q; destruct Q; discriminate|].
  assert (OO : obj_ops (tx_all t2) obj = obj_ops (tx_all t1) obj) by (apply O2; exact NOI).
  split; [rewrite (reg_at_obj_ops _ _ _ _ OO); exact Rg|].
  split; [intros K' NK; rewrite (reg_at_obj_ops _ _ _ _ OO); apply (fu_keys _ _ _ _ Fr); exact NK|].
  split; [intros obj' N1 N2'; rewrite O2 by exact N2'; apply (fu_obj_ops _ _ _ _ Fr); exact N1|].
  split; [intros obj' N2'; rewrite O2 by exact N2'; apply (fu_order _ _ _ _ Fr)|].
  split; [apply lookup_type_next_none; exact W|].
  split; [rewrite L2; exact L1|].
  split; [intros o No; rewrite L2; unfold t1; rewrite tx_all_push; apply lookup_type_snoc; exact No|].
  rewrite T2. unfold text_at. rewrite (seq_elems_obj_ops [] (tx_all t1) id) by (rewrite E1; reflexivity). reflexivity.
Qed.

(* ================= all conversions: the invariant ================= *)
(* the register a conversion aims at, read in the document the conversions were computed from *)
Definition ckey (ops0 : list op) (c : conv) : key :=
  match c with
  | (_, PMap k, _) => KMap k
  | (obj, PSeq i, _) => match nth_error (seq_elems ops0 obj) (N.to_nat i) with
                        | Some er => KSeq (fst er)
                        | None => KMap []
                        end
  end.

Definition cvalid (ops0 : list op) (c : conv) : Prop :=
  match c with
  | (obj, PMap k, _) => lookup_type ops0 obj = Some OMap
  | (obj, PSeq i, _) => lookup_type ops0 obj = Some OList /\
                        exists er, nth_error (seq_elems ops0 obj) (N.to_nat i) = Some er
  end.

Definition targets (ops0 : list op) (c : conv) (obj : opid) (K : key) : bool :=
  opid_eqb (fst (fst c)) obj && key_eqb (ckey ops0 c) K.

(* which string (if any) the last conversion aimed at a register carried *)
Definition tstep (ops0 : list op) (obj : opid) (K : key) (acc : option (list N)) (c : conv) : option (list N) :=
  if targets ops0 c obj K then Some (snd c) else acc.
Definition last_target (ops0 : list op) (cs : list conv) (acc : opid -> key -> option (list N)) (obj : opid) (K : key) :=
  fold_left (tstep ops0 obj K) cs (acc obj K).

Record minv (ops0 : list op) (t : tx) (f : opid -> key -> option (list N)) : Prop := {
  mi_wf : wf_tx t;
  mi_type : forall obj ty, lookup_type ops0 obj = Some ty -> lookup_type (tx_all t) obj = Some ty;
  mi_new : forall o ty, lookup_type (tx_all t) o = Some ty -> lookup_type ops0 o = Some ty \/ ty = OText;
  mi_order : forall obj ty, lookup_type ops0 obj = Some ty ->
             elem_order (obj_ops (tx_all t) obj) = elem_order (obj_ops ops0 obj);
  mi_reg : forall obj ty K, lookup_type ops0 obj = Some ty ->
           match f obj K with
           | None => reg_at (tx_all t) obj K = reg_at ops0 obj K
           | Some s => exists id, reg_at (tx_all t) obj K = [(id, VO OText)] /\ lookup_type ops0 id = None /\
                                  lookup_type (tx_all t) id = Some OText /\ text_at (tx_all t) id = s
           end;
  mi_ne : forall obj el s, f obj (KSeq el) = Some s -> reg_at ops0 obj (KSeq el) <> [] }.

Lemma map_fst_flat_map {A B C} (g : A -> list (B * C)) l :
  map fst (flat_map g l) = flat_map (fun x => map fst (g x)) l.
Proof. induction l as [|x t IH]; cbn; [reflexivity|]. rewrite map_app, IH. reflexivity. Qed.

(* the visible elements of an old list are the same elements, in the same order *)
Lemma minv_elems ops0 t f obj ty :
  minv ops0 t f -> lookup_type ops0 obj = Some ty ->
  map fst (seq_elems (tx_all t) obj) = map fst (seq_elems ops0 obj).
Proof.
  intros I L. rewrite !seq_elems_gel, !map_fst_flat_map, (mi_order _ _ _ I obj ty L).
  apply flat_map_ext'. intros el. unfold gel.
  pose proof (mi_reg _ _ _ I obj ty (KSeq el) L) as R.
  destruct (f obj (KSeq el)) as [s|] eqn:E.
  - destruct R as (id & -> & _). pose proof (mi_ne _ _ _ I obj el s E) as NE.
    destruct (reg_at ops0 obj (KSeq el)); [congruence|reflexivity].
  - rewrite R. destruct (reg_at ops0 obj (KSeq el)); reflexivity.
Qed.

Lemma nth_error_map_fst {A B} (l : list (A * B)) n a :
  nth_error (map fst l) n = Some a -> exists b, nth_error l n = Some (a, b).
Proof.
  revert n. induction l as [|[x y] t IH]; intros n H; [destruct n; discriminate|].
  destruct n as [|n]; cbn in *.
  - inversion H; subst. exists y. reflexivity.
  - apply IH. exact H.
Qed.

Lemma nth_error_map_fst' {A B} (l : list (A * B)) n a b :
  nth_error l n = Some (a, b) -> nth_error (map fst l) n = Some a.
Proof.
  revert n. induction l as [|[x y] t IH]; intros n H; [destruct n; discriminate|].
  destruct n as [|n]; cbn in *; [inversion H; reflexivity|apply IH; exact H].
Qed.

Lemma targets_true ops0 c obj K : targets ops0 c obj K = true <-> fst (fst c) = obj /\ ckey ops0 c = K.
Proof.
  unfold targets. rewrite andb_true_iff. split.
  - intros [A B]. apply opid_eqb_spec in A. apply key_eqb_true in B. auto.
  - intros [-> <-]. rewrite opid_eqb_refl, key_eqb_refl. auto.
Qed.

Theorem convert_step ops0 e t f c :
  minv ops0 t f -> cvalid ops0 c ->
  exists t', convert_one e t c = EOk t' /\
    tx_base t' = tx_base t /\ tx_actor t' = tx_actor t /\ tx_start t' = tx_start t /\ tx_pending t' <> [] /\
    minv ops0 t' (fun obj K => tstep ops0 obj K (f obj K) c).
Proof.
  intros I V. destruct c as [[obj p] s].
  set (K := ckey ops0 (obj, p, s)).
  assert (Hty : exists ty, lookup_type ops0 obj = Some ty /\ conv_target (tx_all t) obj p ty K /\
                  (forall el, K = KSeq el -> reg_at ops0 obj K <> [])).
  { destruct p as [k|i]; cbn [cvalid] in V.
    - exists OMap. split; [exact V|]. split; [split; reflexivity|]. intros el Q. discriminate.
    - destruct V as [L [[el r] Hn]]. exists OList. split; [exact L|].
      unfold K. cbn [ckey]. rewrite Hn. cbn [fst]. split.
      + cbn [conv_target]. split; [reflexivity|].
        apply nth_error_map_fst' in Hn. rewrite <- (minv_elems _ _ _ _ _ I L) in Hn.
        apply nth_error_map_fst in Hn. destruct Hn as [r' Hn]. exists el, r'. auto.
      + intros el' _. apply nth_error_In in Hn. destruct (seq_elems_reg _ _ _ _ Hn) as [<- NE]. exact NE. }
  destruct Hty as (ty & L0 & T & NE).
  pose proof (mi_type _ _ _ I obj ty L0) as L.
  destruct (convert_one_spec e t obj p s ty K (mi_wf _ _ _ I) L T)
    as (t' & C & W' & B1 & B2 & B3 & B4 & Rg & Fk & Fo & Fe & Ln & Li & Lo & Tx).
  set (id := next_id t) in *.
  assert (OldNotId : forall o ty', lookup_type ops0 o = Some ty' -> o <> id).
  { intros o ty' Lo' Q. subst o. rewrite (mi_type _ _ _ I _ _ Lo') in Ln. discriminate. }
  exists t'. split; [exact C|]. split; [exact B1|]. split; [exact B2|]. split; [exact B3|]. split; [exact B4|].
  split.
  - exact W'.
  - intros o ty' Lo'. rewrite Lo by (eapply OldNotId; eauto). eapply mi_type; eauto.
  - intros o ty' Lo'. destruct (opid_eqb o id) eqn:E.
    + apply opid_eqb_spec in E. subst o. rewrite Li in Lo'. inversion Lo'. right. reflexivity.
    + assert (o <> id) by (intros ->; rewrite opid_eqb_refl in E; discriminate).
      rewrite Lo in Lo' by assumption. eapply mi_new; eauto.
  - intros o ty' Lo'. rewrite Fe by (eapply OldNotId; eauto). eapply mi_order; eauto.
  - intros o ty' K' Lo'. unfold tstep.
    (* a register that showed a text before the step shows the same text after it, unless it is the target *)
    assert (Keep : forall s0, (exists id0, reg_at (tx_all t) o K' = [(id0, VO OText)] /\ lookup_type ops0 id0 = None /\
                       lookup_type (tx_all t) id0 = Some OText /\ text_at (tx_all t) id0 = s0) ->
                   reg_at (tx_all t') o K' = reg_at (tx_all t) o K' ->
                   exists id0, reg_at (tx_all t') o K' = [(id0, VO OText)] /\ lookup_type ops0 id0 = None /\
                       lookup_type (tx_all t') id0 = Some OText /\ text_at (tx_all t') id0 = s0).
    { intros s0 (id0 & R0 & N0 & T0 & X0) Same. exists id0.
      assert (id0 <> id) by (intros ->; rewrite T0 in Ln; discriminate).
      assert (id0 <> obj) by (intros ->; rewrite N0 in L0; discriminate).
      split; [rewrite Same; exact R0|]. split; [exact N0|]. split; [rewrite Lo by assumption; exact T0|].
      rewrite (text_at_obj_ops (tx_all t) (tx_all t') id0); [exact X0|]. apply Fo; assumption. }
    destruct (targets ops0 (obj, p, s) o K') eqn:Tg.
    + apply targets_true in Tg. cbn [fst] in Tg. destruct Tg as [<- <-]. fold K.
      exists id. split; [exact Rg|]. split; [|split; [exact Li|exact Tx]].
      destruct (lookup_type ops0 id) as [tyi|] eqn:Q; [|reflexivity].
      exfalso. eapply OldNotId; eauto.
    + assert (Same : reg_at (tx_all t') o K' = reg_at (tx_all t) o K').
      { destruct (opid_eqb obj o) eqn:Eo.
        - apply opid_eqb_spec in Eo. subst o. apply Fk. intros ->.
          unfold targets in Tg. cbn [fst] in Tg. rewrite opid_eqb_refl in Tg. fold K in Tg.
          rewrite key_eqb_refl in Tg. discriminate.
        - apply reg_at_obj_ops. apply Fo.
          + intros ->. rewrite opid_eqb_refl in Eo. discriminate.
          + eapply OldNotId; eauto. }
      pose proof (mi_reg _ _ _ I o ty' K' Lo') as R.
      destruct (f o K') as [s0|].
      * apply Keep; assumption.
      * rewrite Same. exact R.
  - intros o el s0. unfold tstep. destruct (targets ops0 (obj, p, s) o (KSeq el)) eqn:Tg.
    + intros _. apply targets_true in Tg. cbn [fst] in Tg. destruct Tg as [<- Q]. fold K in Q.
      rewrite <- Q. apply (NE el). exact Q.
    + apply (mi_ne _ _ _ I).
Qed.

Theorem convert_all_spec ops0 e cs : forall t f,
  minv ops0 t f -> Forall (cvalid ops0) cs ->
  exists t', convert_all e t cs = EOk t' /\
    tx_base t' = tx_base t /\ tx_actor t' = tx_actor t /\ tx_start t' = tx_start t /\
    (cs <> [] -> tx_pending t' <> []) /\
    minv ops0 t' (last_target ops0 cs f).
Proof.
  induction cs as [|c cs IH]; intros t f I V.
  - exists t. cbn [convert_all]. repeat split; try reflexivity; try (apply I); try congruence.
  - inversion V as [|? ? Vc Vr]; subst.
    destruct (convert_step ops0 e t f c I Vc) as (t1 & C1 & B1 & B2 & B3 & B4 & I1).
    destruct (IH t1 _ I1 Vr) as (t2 & C2 & D1 & D2 & D3 & D4 & I2).
    exists t2. cbn [convert_all]. rewrite C1. cbn [ebind]. split; [exact C2|].
    split; [congruence|]. split; [congruence|]. split; [congruence|].
    split.
    + intros _. destruct cs as [|c' cs'].
      * cbn [convert_all] in C2. inversion C2; subst. exact B4.
      * apply D4. discriminate.
    + exact I2.
Qed.

(* ================= which conversions aim at a register ================= *)
Lemma last_str_from_spec r : forall acc,
  last_str_from r acc = match last_str r with Some s => Some s | None => acc end.
Proof.
  unfold last_str, last_str_from. induction r as [|iw r IH]; intros acc; [reflexivity|].
  cbn [fold_left]. rewrite (IH (match snd iw with VS (SStr s) => Some s | _ => acc end)).
  rewrite (IH (match snd iw with VS (SStr s) => Some s | _ => None end)).
  destruct (fold_left _ r None); [reflexivity|].
  destruct (snd iw) as [[]| |]; reflexivity.
Qed.

Definition no_str (r : regobs) : Prop := forall i s, ~ In (i, VS (SStr s)) r.

Lemma last_str_none r : last_str r = None <-> no_str r.
Proof.
  induction r as [|[i w] r IH].
  - split; [intros _ j s []|reflexivity].
  - unfold last_str, last_str_from. cbn [fold_left snd]. fold (last_str_from r (match w with VS (SStr s) => Some s | _ => None end)).
    rewrite last_str_from_spec. split.
    + intros H j s [Q|Hin].
      * inversion Q; subst. destruct (last_str r); discriminate.
      * destruct (last_str r) eqn:E; [discriminate|]. apply (proj1 IH eq_refl j s Hin).
    + intros H. assert (E : last_str r = None) by (apply IH; intros j s Hin; apply (H j s); right; exact Hin).
      rewrite E. destruct w as [[]| |]; try reflexivity. exfalso. apply (H i s). left. reflexivity.
Qed.

Lemma str_convs_nil o p r : no_str r -> str_convs o p r = [].
Proof.
  unfold str_convs. induction r as [|[i w] r IH]; intros H; [reflexivity|]. cbn [flat_map snd].
  rewrite IH by (intros j s Hin; apply (H j s); right; exact Hin).
  destruct w as [[]| |]; try reflexivity. exfalso. apply (H i s). left. reflexivity.
Qed.

Lemma flat_map_nil {A B} (f : A -> list B) l : (forall x, In x l -> f x = []) -> flat_map f l = [].
Proof.
  induction l as [|x t IH]; intros H; [reflexivity|]. cbn. rewrite H by (left; reflexivity).
  apply IH. intros y Hy. apply H. right. exact Hy.
Qed.

Section Enum.
  Variable ops0 : list op.
  Variable obj : opid.
  Variable K : key.
  Let r := reg_at ops0 obj K.
  Let g := tstep ops0 obj K.

  Definition accP (acc : option (list N)) : Prop := acc = None \/ (acc = last_str r /\ last_str r <> None).
  Definition accQ (acc : option (list N)) : Prop := acc = last_str r.
  Definition Good (l : list conv) : Prop :=
    forall acc, (accP acc -> accP (fold_left g l acc)) /\ (accQ acc -> accQ (fold_left g l acc)).
  Definition Hit (l : list conv) : Prop := forall acc, accP acc -> accQ (fold_left g l acc).

  Lemma good_nil : Good [].
  Proof. intros acc. split; auto. Qed.

  Lemma good_app l1 l2 : Good l1 -> Good l2 -> Good (l1 ++ l2).
  Proof.
    intros G1 G2 acc. rewrite fold_left_app. split; intros H.
    - apply G2, G1, H.
    - apply G2, G1, H.
  Qed.

  Lemma hit_app_l l1 l2 : Hit l1 -> Good l2 -> Hit (l1 ++ l2).
  Proof. intros H1 G2 acc H. rewrite fold_left_app. apply G2, H1, H. Qed.

  Lemma hit_app_r l1 l2 : Good l1 -> Hit l2 -> Hit (l1 ++ l2).
  Proof. intros G1 H2 acc H. rewrite fold_left_app. apply H2, G1, H. Qed.

  Lemma good_flat_map {A} (B : A -> list conv) xs : (forall x, In x xs -> Good (B x)) -> Good (flat_map B xs).
  Proof.
    induction xs as [|x xs IH]; intros H; [apply good_nil|]. cbn [flat_map]. apply good_app.
    - apply H. left. reflexivity.
    - apply IH. intros y Hy. apply H. right. exact Hy.
  Qed.

  Lemma hit_flat_map {A} (B : A -> list conv) xs x :
    (forall y, In y xs -> Good (B y)) -> In x xs -> Hit (B x) -> Hit (flat_map B xs).
  Proof.
    induction xs as [|y xs IH]; intros G Hin Hx; [destruct Hin|]. cbn [flat_map].
    destruct Hin as [->|Hin].
    - apply hit_app_l; [exact Hx|]. apply good_flat_map. intros z Hz. apply G. right. exact Hz.
    - apply hit_app_r; [apply G; left; reflexivity|]. apply IH; auto. intros z Hz. apply G. right. exact Hz.
  Qed.

  (* the conversions of one register *)
  Lemma str_fold o p r' acc :
    fold_left g (str_convs o p r') acc =
    if targets ops0 (o, p, []) obj K then last_str_from r' acc else acc.
  Proof.
    unfold str_convs, last_str_from. revert acc. induction r' as [|[i w] r' IH]; intros acc.
    - cbn. destruct (targets ops0 (o, p, []) obj K); reflexivity.
    - cbn [flat_map snd]. rewrite fold_left_app, IH. cbn [fold_left snd].
      destruct w as [[]| |]; try reflexivity.
      cbn [fold_left]. unfold g, tstep. change (targets ops0 (o, p, s) obj K) with (targets ops0 (o, p, []) obj K).
      destruct (targets ops0 (o, p, []) obj K); reflexivity.
  Qed.

  Lemma str_good o p r' : (targets ops0 (o, p, []) obj K = true -> r' = r) -> Good (str_convs o p r').
  Proof.
    intros H acc. rewrite str_fold. destruct (targets ops0 (o, p, []) obj K); [|split; auto].
    rewrite (H eq_refl), last_str_from_spec. unfold accP, accQ. destruct (last_str r) as [s|] eqn:E.
    - split; intros _; [right; split; [reflexivity|discriminate]|reflexivity].
    - split; auto.
  Qed.

  Lemma str_hit o p : targets ops0 (o, p, []) obj K = true -> Hit (str_convs o p r).
  Proof.
    intros H acc HP. rewrite str_fold, H, last_str_from_spec. unfold accP, accQ in *. destruct (last_str r) as [s|] eqn:E.
    - reflexivity.
    - destruct HP as [->|[_ Q]]; [reflexivity|congruence].
  Qed.

  Lemma targets_map o k : targets ops0 (o, PMap k, []) obj K = true -> reg_at ops0 o (KMap k) = r.
  Proof. intros H. apply targets_true in H. cbn in H. destruct H as [-> <-]. reflexivity. Qed.

  Lemma map_good o : Good (map_convs ops0 o).
  Proof. apply good_flat_map. intros k _. apply str_good. apply targets_map. Qed.

  Lemma map_hit k :
    K = KMap k -> In k (dedup_sorted (isort bytes_cmp (map_keys (obj_ops ops0 obj)))) -> Hit (map_convs ops0 obj).
  Proof.
    intros EK Hin. unfold map_convs. eapply hit_flat_map; [|exact Hin|].
    - intros k' _. apply str_good. apply targets_map.
    - replace (reg_at ops0 obj (KMap k)) with r by (unfold r; rewrite EK; reflexivity).
      apply str_hit. apply targets_true. cbn. auto.
  Qed.

  Lemma list_block_good o er els pre :
    seq_elems ops0 o = pre ++ er :: els -> Good (str_convs o (PSeq (N.of_nat (length pre))) (snd er)).
  Proof.
    intros E. apply str_good. intros H. apply targets_true in H. cbn [fst ckey] in H. rewrite Nat2N.id in H.
    rewrite E, nth_error_app2, Nat.sub_diag in H by lia. cbn [nth_error] in H. destruct H as [Ho Hk].
    assert (Hin : In er (seq_elems ops0 o)) by (rewrite E; apply in_or_app; right; left; reflexivity).
    destruct er as [el r']. destruct (seq_elems_reg _ _ _ _ Hin) as [-> _]. unfold r. rewrite <- Hk, Ho. reflexivity.
  Qed.

  Lemma list_good o : forall els pre,
    seq_elems ops0 o = pre ++ els -> Good (list_convs o els (N.of_nat (length pre))).
  Proof.
    induction els as [|er els IH]; intros pre E; [apply good_nil|]. cbn [list_convs]. apply good_app.
    - eapply list_block_good. exact E.
    - replace (N.of_nat (length pre) + 1) with (N.of_nat (length (pre ++ [er]))) by (rewrite app_length; cbn; lia).
      apply IH. rewrite <- app_assoc. exact E.
  Qed.

  Lemma list_hit el : K = KSeq el -> forall els pre,
    seq_elems ops0 obj = pre ++ els -> In el (map fst els) -> Hit (list_convs obj els (N.of_nat (length pre))).
  Proof.
    intros EK. induction els as [|er els IH]; intros pre E Hin; [destruct Hin|]. cbn [list_convs].
    assert (E2 : seq_elems ops0 obj = (pre ++ [er]) ++ els) by (rewrite <- app_assoc; exact E).
    assert (Len : N.of_nat (length pre) + 1 = N.of_nat (length (pre ++ [er]))) by (rewrite app_length; cbn; lia).
    cbn [map] in Hin. destruct Hin as [Q|Hin].
    - apply hit_app_l; [|rewrite Len; apply list_good; exact E2].
      assert (Hi : In er (seq_elems ops0 obj)) by (rewrite E; apply in_or_app; right; left; reflexivity).
      destruct er as [el' r']. cbn [fst] in Q. subst el'. cbn [snd].
      destruct (seq_elems_reg _ _ _ _ Hi) as [-> _].
      replace (reg_at ops0 obj (KSeq el)) with r by (unfold r; rewrite EK; reflexivity).
      apply str_hit. apply targets_true. cbn [fst ckey]. rewrite Nat2N.id.
      rewrite E, nth_error_app2, Nat.sub_diag by lia. cbn [nth_error fst]. auto.
    - apply hit_app_r; [eapply list_block_good; exact E|]. rewrite Len. apply IH; [exact E2|exact Hin].
  Qed.

  Lemma obj_good ot : Good (obj_convs ops0 ot).
  Proof.
    unfold obj_convs. destruct (snd ot); try apply good_nil.
    - apply map_good.
    - apply (list_good (fst ot) (seq_elems ops0 (fst ot)) []). reflexivity.
  Qed.

  Lemma conversions_good : Good (conversions ops0).
  Proof. apply good_flat_map. intros ot _. apply obj_good. Qed.

  (* a register the enumeration lists is hit *)
  Lemma conversions_hit_map k :
    K = KMap k -> In (obj, OMap) (objects ops0) ->
    In k (dedup_sorted (isort bytes_cmp (map_keys (obj_ops ops0 obj)))) -> Hit (conversions ops0).
  Proof.
    intros EK Hin Lk. unfold conversions. eapply hit_flat_map; [intros ot _; apply obj_good|exact Hin|].
    unfold obj_convs. cbn [fst snd]. eapply map_hit; [exact EK|exact Lk].
  Qed.

  Lemma conversions_hit_list el :
    K = KSeq el -> In (obj, OList) (objects ops0) ->
    In el (map fst (seq_elems ops0 obj)) -> Hit (conversions ops0).
  Proof.
    intros EK Hin Lk. unfold conversions. eapply hit_flat_map; [intros ot _; apply obj_good|exact Hin|].
    unfold obj_convs. cbn [fst snd]. apply (list_hit el EK (seq_elems ops0 obj) []); [reflexivity|exact Lk].
  Qed.

  Lemma fold_untargeted cs : (forall c, In c cs -> fst (fst c) <> obj) -> forall acc, fold_left g cs acc = acc.
  Proof.
    induction cs as [|c cs IH]; intros H acc; [reflexivity|]. cbn [fold_left].
    unfold g at 2, tstep, targets. rewrite (opid_eqb_false (fst (fst c)) obj) by (apply H; left; reflexivity).
    cbn [andb]. apply IH. intros c' Hc. apply H. right. exact Hc.
  Qed.
End Enum.

(* ================= the enumeration is valid ================= *)
Lemma make_ids_in ops x :
  In x (map fst (flat_map (fun o => match make_type o with Some t => [(op_id o, t)] | None => [] end) ops)) ->
  In x (map op_id ops).
Proof.
  induction ops as [|o ops IH]; cbn [flat_map map]; [auto|]. rewrite map_app. intros H. apply in_app_or in H.
  destruct H as [H|H]; [|right; apply IH; exact H].
  destruct (make_type o); [|destruct H]. destruct H as [<-|[]]. left. reflexivity.
Qed.

Lemma objects_nodup ops :
  ssorted ops -> (forall o, In o ops -> 0 < fst (op_id o)) -> NoDup (map fst (objects ops)).
Proof.
  intros S Pos. unfold objects. cbn [map]. constructor.
  - intros H. apply make_ids_in in H. apply in_map_iff in H. destruct H as (o & E & Ho).
    specialize (Pos o Ho). rewrite E in Pos. cbn in Pos. lia.
  - pose proof (ssorted_nodup _ S) as ND. clear S Pos. induction ops as [|o ops IH]; [constructor|].
    cbn [flat_map]. rewrite map_app. cbn [map] in ND. inversion ND as [|? ? Nin ND']; subst.
    destruct (make_type o); cbn [map app]; [|apply IH; exact ND'].
    constructor; [|apply IH; exact ND']. intros H. apply Nin. apply make_ids_in. exact H.
Qed.

Lemma find_nodup_fst (l : list (opid * objtype)) a b :
  NoDup (map fst l) -> In (a, b) l -> find (fun ot => opid_eqb (fst ot) a) l = Some (a, b).
Proof.
  induction l as [|[x y] l IH]; intros ND Hin; [destruct Hin|]. cbn [find fst]. cbn [map fst] in ND.
  inversion ND as [|? ? Nin ND']; subst. destruct Hin as [Q|Hin].
  - inversion Q; subst. rewrite opid_eqb_refl. reflexivity.
  - rewrite opid_eqb_false; [apply IH; assumption|]. intros ->. apply Nin. apply in_map_iff. exists (a, b). auto.
Qed.

Lemma objects_lookup t obj ty : wf_tx t -> In (obj, ty) (objects (tx_all t)) -> lookup_type (tx_all t) obj = Some ty.
Proof.
  intros W Hin. destruct (wf_tx_parts t W) as (S & _ & _). unfold lookup_type.
  rewrite (find_nodup_fst _ obj ty); [reflexivity| |exact Hin].
  apply objects_nodup; [exact S|]. intros o Ho. eapply wf_tx_ids_pos; eauto.
Qed.

Lemma lookup_objects ops obj ty : lookup_type ops obj = Some ty -> In (obj, ty) (objects ops).
Proof.
  unfold lookup_type. destruct (find (fun ot => opid_eqb (fst ot) obj) (objects ops)) as [[o t']|] eqn:E; [|discriminate].
  intros Q. inversion Q; subst. apply find_some in E. destruct E as [Hin Eq]. apply opid_eqb_spec in Eq. cbn in Eq. subst. exact Hin.
Qed.

Lemma str_convs_in o p r c : In c (str_convs o p r) -> exists s, c = (o, p, s).
Proof.
  unfold str_convs. intros H. apply in_flat_map in H. destruct H as ([i w] & _ & H). cbn [snd] in H.
  destruct w as [[]| |]; try (destruct H; fail). destruct H as [<-|[]]. eexists. reflexivity.
Qed.

Lemma list_convs_in o full c : forall els pre,
  full = pre ++ els -> In c (list_convs o els (N.of_nat (length pre))) ->
  exists i s er, c = (o, PSeq i, s) /\ nth_error full (N.to_nat i) = Some er.
Proof.
  induction els as [|er els IH]; intros pre E H; [destruct H|]. cbn [list_convs] in H. apply in_app_or in H.
  destruct H as [H|H].
  - apply str_convs_in in H. destruct H as [s ->]. exists (N.of_nat (length pre)), s, er. split; [reflexivity|].
    rewrite Nat2N.id, E, nth_error_app2, Nat.sub_diag by lia. reflexivity.
  - replace (N.of_nat (length pre) + 1) with (N.of_nat (length (pre ++ [er]))) in H by (rewrite app_length; cbn; lia).
    apply (IH (pre ++ [er])); [rewrite <- app_assoc; exact E|exact H].
Qed.

Lemma conversions_valid t : wf_tx t -> Forall (cvalid (tx_all t)) (conversions (tx_all t)).
Proof.
  intros W. apply Forall_forall. intros c Hc. unfold conversions in Hc. apply in_flat_map in Hc.
  destruct Hc as ([o ty] & Ho & Hc). apply (objects_lookup t o ty W) in Ho.
  unfold obj_convs in Hc. cbn [fst snd] in Hc. destruct ty; try (destruct Hc; fail).
  - unfold map_convs in Hc. apply in_flat_map in Hc. destruct Hc as (k & _ & Hc).
    apply str_convs_in in Hc. destruct Hc as [s ->]. exact Ho.
  - destruct (list_convs_in o (seq_elems (tx_all t) o) c (seq_elems (tx_all t) o) [] eq_refl Hc) as (i & s & er & -> & Hn).
    split; [exact Ho|]. exists er. exact Hn.
Qed.

Lemma conversions_objs t c : wf_tx t -> In c (conversions (tx_all t)) ->
  lookup_type (tx_all t) (fst (fst c)) = Some OMap \/ lookup_type (tx_all t) (fst (fst c)) = Some OList.
Proof.
  intros W Hc. pose proof (conversions_valid t W) as V. rewrite Forall_forall in V. specialize (V c Hc).
  destruct c as [[o [k|i]] s]; cbn in *; [left; exact V|right; apply V].
Qed.

(* ================= the run of the whole migration ================= *)
Definition mig_final (ops0 : list op) : opid -> key -> option (list N) :=
  last_target ops0 (conversions ops0) (fun _ _ => None).

Lemma minv_init t : wf_tx t -> tx_pending t = [] -> minv (tx_all t) t (fun _ _ => None).
Proof.
  intros W _. split; auto; try discriminate.
Qed.

Theorem migrate_run e ops a :
  wf_tx (begin_tx ops a) ->
  let ops0 := tx_all (begin_tx ops a) in
  exists t', migrate e ops a = EOk (tx_pending t') /\ tx_all t' = ops0 ++ tx_pending t' /\
             minv ops0 t' (mig_final ops0) /\ (tx_pending t' = [] <-> conversions ops0 = []).
Proof.
  intros W ops0. set (t0 := begin_tx ops a) in *.
  destruct (convert_all_spec ops0 e (conversions ops0) t0 (fun _ _ => None) (minv_init t0 W eq_refl) (conversions_valid t0 W))
    as (t' & C & B1 & B2 & B3 & B4 & I).
  exists t'. unfold migrate. fold t0. fold ops0.
  assert (All : tx_all t' = ops0 ++ tx_pending t').
  { unfold tx_all at 1. rewrite B1. unfold ops0, tx_all, t0, begin_tx. cbn. rewrite app_nil_r. reflexivity. }
  unfold mig_final. destruct (conversions ops0) as [|c cs] eqn:Ec.
  - cbn [convert_all] in C. inversion C; subst t'. cbn [tx_pending t0 begin_tx].
    split; [reflexivity|]. split; [exact All|]. split; [exact I|]. split; reflexivity.
  - rewrite C. cbn [ebind]. split; [reflexivity|]. split; [exact All|]. split; [exact I|].
    split; [intros Q; exfalso; apply B4; [discriminate|exact Q]|discriminate].
Qed.

(* ================= the property ================= *)
Definition container (ty : objtype) : Prop := ty = OMap \/ ty = OList.

(* the registers a reader can address: every key of a map, every visible element of a list *)
Definition listed (ops : list op) (obj : opid) (ty : objtype) (K : key) (r : regobs) : Prop :=
  (ty = OMap /\ exists k, K = KMap k /\ r = reg_at ops obj K) \/
  (ty = OList /\ exists el, K = KSeq el /\ In (el, r) (seq_elems ops obj)).

Lemma listed_reg ops obj ty K r : listed ops obj ty K r -> r = reg_at ops obj K.
Proof.
  intros [(_ & k & _ & E)|(_ & el & -> & Hin)]; [exact E|]. apply (seq_elems_reg _ _ _ _ Hin).
Qed.

Lemma map_key_listed ops obj k :
  reg_at ops obj (KMap k) <> [] -> In k (dedup_sorted (isort bytes_cmp (map_keys (obj_ops ops obj)))).
Proof.
  intros NE. apply dedup_sorted_in. eapply Permutation_in; [apply isort_perm|].
  destruct (reg_at ops obj (KMap k)) as [|[i w] r] eqn:E; [contradiction|].
  assert (Hin : In (i, w) (reg_at ops obj (KMap k))) by (rewrite E; left; reflexivity).
  unfold reg_at in Hin. apply register_in, vis_ops_in in Hin. destruct Hin as (o & Ho & _ & Hs).
  unfold map_keys. apply in_flat_map. exists o. split; [exact Ho|]. rewrite (slot_map _ _ Hs). left. reflexivity.
Qed.

Lemma final_acc t obj K :
  accP (tx_all t) obj K (mig_final (tx_all t) obj K).
Proof.
  unfold mig_final, last_target. apply (conversions_good (tx_all t) obj K). left. reflexivity.
Qed.

Lemma final_listed t obj ty K r :
  wf_tx t -> lookup_type (tx_all t) obj = Some ty -> listed (tx_all t) obj ty K r ->
  mig_final (tx_all t) obj K = last_str r.
Proof.
  intros W L Li. pose proof (listed_reg _ _ _ _ _ Li) as Er. subst r.
  apply lookup_objects in L.
  destruct Li as [(-> & k & -> & _)|(-> & el & -> & Hin)].
  - destruct (last_str (reg_at (tx_all t) obj (KMap k))) as [s|] eqn:E.
    + rewrite <- E. unfold mig_final, last_target.
      apply (conversions_hit_map (tx_all t) obj (KMap k) k eq_refl L); [|left; reflexivity].
      apply map_key_listed. intros Q. rewrite Q in E. discriminate.
    + destruct (final_acc t obj (KMap k)) as [Q|[_ Q]]; [exact Q|congruence].
  - unfold mig_final, last_target.
    apply (conversions_hit_list (tx_all t) obj (KSeq el) el eq_refl L); [|left; reflexivity].
    apply in_map_iff. exists (el, reg_at (tx_all t) obj (KSeq el)). split; [reflexivity|exact Hin].
Qed.

Lemma final_non_container t obj ty K :
  wf_tx t -> lookup_type (tx_all t) obj = Some ty -> ~ container ty -> mig_final (tx_all t) obj K = None.
Proof.
  intros W L NC. unfold mig_final, last_target. apply fold_untargeted. intros c Hc Q.
  destruct (conversions_objs t c W Hc) as [H|H]; rewrite Q, L in H; inversion H; subst; apply NC; [left|right]; reflexivity.
Qed.

(* each register that showed strings holds one text object whose content is the highest-id string *)
Theorem migrate_text_is_highest_string e ops a new :
  wf_tx (begin_tx ops a) -> migrate e ops a = EOk new ->
  let ops0 := tx_all (begin_tx ops a) in
  let ops' := ops0 ++ new in
  forall obj ty K r s, lookup_type ops0 obj = Some ty -> listed ops0 obj ty K r -> last_str r = Some s ->
  exists id, reg_at ops' obj K = [(id, VO OText)] /\ lookup_type ops0 id = None /\
             lookup_type ops' id = Some OText /\ text_at ops' id = s.
Proof.
  intros W M ops0 ops' obj ty K r s L Li Ls.
  destruct (migrate_run e ops a W) as (t' & M' & All & I & _). rewrite M in M'. inversion M'; subst new.
  fold ops0 in All, I. unfold ops'. rewrite <- All.
  pose proof (mi_reg _ _ _ I obj ty K L) as R.
  unfold ops0 in R at 1. rewrite (final_listed _ obj ty K r W L Li), Ls in R. exact R.
Qed.

(* every register without a visible string keeps its values; objects that are not maps or lists are not
   touched at all; every object keeps its type and the order of its elements *)
Theorem migrate_others_untouched e ops a new :
  wf_tx (begin_tx ops a) -> migrate e ops a = EOk new ->
  let ops0 := tx_all (begin_tx ops a) in
  let ops' := ops0 ++ new in
  (forall obj ty K r, lookup_type ops0 obj = Some ty -> listed ops0 obj ty K r -> last_str r = None ->
     reg_at ops' obj K = r) /\
  (forall obj ty K, lookup_type ops0 obj = Some ty -> ~ container ty -> reg_at ops' obj K = reg_at ops0 obj K) /\
  (forall obj ty, lookup_type ops0 obj = Some ty ->
     lookup_type ops' obj = Some ty /\ elem_order (obj_ops ops' obj) = elem_order (obj_ops ops0 obj) /\
     map fst (seq_elems ops' obj) = map fst (seq_elems ops0 obj)).
Proof.
  intros W M ops0 ops'.
  destruct (migrate_run e ops a W) as (t' & M' & All & I & _). rewrite M in M'. inversion M'; subst new.
  fold ops0 in All, I. unfold ops'. rewrite <- All. split; [|split].
  - intros obj ty K r L Li Ls. pose proof (mi_reg _ _ _ I obj ty K L) as R.
    unfold ops0 in R at 1. rewrite (final_listed _ obj ty K r W L Li), Ls in R.
    rewrite R. symmetry. apply (listed_reg _ _ _ _ _ Li).
  - intros obj ty K L NC. pose proof (mi_reg _ _ _ I obj ty K L) as R.
    unfold ops0 in R at 1. rewrite (final_non_container _ obj ty K W L NC) in R. exact R.
  - intros obj ty L. split; [eapply mi_type; eauto|]. split; [eapply mi_order; eauto|]. eapply minv_elems; eauto.
Qed.

(* after the load no map key and no list element shows a string scalar *)
Theorem migrate_no_visible_string e ops a new :
  wf_tx (begin_tx ops a) -> migrate e ops a = EOk new ->
  let ops' := tx_all (begin_tx ops a) ++ new in
  forall obj ty K r, lookup_type ops' obj = Some ty -> container ty -> listed ops' obj ty K r -> no_str r.
Proof.
  intros W M ops' obj ty K r L' C Li'.
  set (ops0 := tx_all (begin_tx ops a)) in *.
  destruct (migrate_run e ops a W) as (t' & M' & All & I & _). rewrite M in M'. inversion M'; subst new.
  fold ops0 in All, I. unfold ops' in *. rewrite <- All in *.
  assert (L : lookup_type ops0 obj = Some ty).
  { destruct (mi_new _ _ _ I obj ty L') as [H|H]; [exact H|]. subst ty. destruct C; discriminate. }
  (* the register is listed in the original document too *)
  assert (Li : listed ops0 obj ty K (reg_at ops0 obj K)).
  { destruct Li' as [(-> & k & -> & _)|(-> & el & -> & Hin)].
    - left. split; [reflexivity|]. exists k. auto.
    - right. split; [reflexivity|]. exists el. split; [reflexivity|].
      assert (Hel : In el (map fst (seq_elems ops0 obj))).
      { rewrite <- (minv_elems _ _ _ _ _ I L). apply in_map_iff. exists (el, r). auto. }
      apply in_map_iff in Hel. destruct Hel as ([el' r0] & Q & Hin0). cbn in Q. subst el'.
      destruct (seq_elems_reg _ _ _ _ Hin0) as [<- _]. exact Hin0. }
  pose proof (listed_reg _ _ _ _ _ Li') as Er.
  pose proof (mi_reg _ _ _ I obj ty K L) as R.
  unfold ops0 in R at 1. rewrite (final_listed _ obj ty K _ W L Li) in R. fold ops0 in R.
  destruct (last_str (reg_at ops0 obj K)) as [s|] eqn:Ls.
  - destruct R as (id & R & _). rewrite Er, R. intros i s' [Q|[]]. inversion Q.
  - rewrite Er, R. apply last_str_none. exact Ls.
Qed.

(* a document without a visible string gets no change; with one it gets exactly the ops of one change *)
Theorem migrate_noop_no_change e ops a :
  wf_tx (begin_tx ops a) ->
  let ops0 := tx_all (begin_tx ops a) in
  (forall obj ty K r, lookup_type ops0 obj = Some ty -> container ty -> listed ops0 obj ty K r -> no_str r) ->
  migrate e ops a = EOk [].
Proof.
  intros W ops0 H. unfold migrate. fold ops0.
  replace (conversions ops0) with (@nil conv); [reflexivity|]. symmetry.
  unfold conversions. apply flat_map_nil. intros [o ty] Hin. apply (objects_lookup _ o ty W) in Hin. fold ops0 in Hin.
  unfold obj_convs. cbn [fst snd]. destruct ty; try reflexivity.
  - unfold map_convs. apply flat_map_nil. intros k _. apply str_convs_nil.
    apply (H o OMap (KMap k) _ Hin (or_introl eq_refl)). left. split; [reflexivity|]. exists k. auto.
  - assert (G : forall els i, (forall er, In er els -> In er (seq_elems ops0 o)) -> list_convs o els i = []).
    { induction els as [|er els IH]; intros i Hs; [reflexivity|]. cbn [list_convs].
      rewrite IH by (intros x Hx; apply Hs; right; exact Hx). rewrite app_nil_r. apply str_convs_nil.
      destruct er as [el r]. apply (H o OList (KSeq el) r Hin (or_intror eq_refl)). right. split; [reflexivity|].
      exists el. split; [reflexivity|]. apply Hs. left. reflexivity. }
    apply G. auto.
Qed.

Theorem migrate_change_iff e ops a new :
  wf_tx (begin_tx ops a) -> migrate e ops a = EOk new ->
  let ops0 := tx_all (begin_tx ops a) in
  (new = [] <->
   forall obj ty K r, lookup_type ops0 obj = Some ty -> container ty -> listed ops0 obj ty K r -> no_str r).
Proof.
  intros W M ops0. split.
  - intros -> obj ty K r L C Li. apply last_str_none.
    destruct (last_str r) as [s|] eqn:Ls; [|reflexivity]. exfalso.
    destruct (migrate_text_is_highest_string e ops a [] W M obj ty K r s L Li Ls) as (id & _ & N0 & N1 & _).
    fold ops0 in N0, N1. rewrite app_nil_r in N1. congruence.
  - intros H. rewrite (migrate_noop_no_change e ops a W H) in M. inversion M. reflexivity.
Qed.

(* the migration never fails and never panics on a well-formed document *)
Theorem migrate_total e ops a : wf_tx (begin_tx ops a) -> exists new, migrate e ops a = EOk new.
Proof. intros W. destruct (migrate_run e ops a W) as (t' & M & _). eexists. exact M. Qed.
