(* Crdt/MigrateProofs.v — proofs about string migration (C40), on top of Crdt/LocalProofs.v. *)
From AM Require Import Base.Prelude Base.Order Crdt.Types Crdt.Interp Crdt.Local Crdt.LocalProofs Crdt.Migrate.
Local Open Scope N_scope.

(* everything the reads show of one object is a function of that object's ops *)
Lemma reg_at_obj_ops ops ops' obj K : obj_ops ops' obj = obj_ops ops obj -> reg_at ops' obj K = reg_at ops obj K.
Proof. unfold reg_at. intros ->. reflexivity. Qed.

Lemma seq_elems_obj_ops ops ops' obj : obj_ops ops' obj = obj_ops ops obj -> seq_elems ops' obj = seq_elems ops obj.
Proof. unfold seq_elems, reg_at. intros ->. reflexivity. Qed.

Lemma text_at_obj_ops ops ops' obj : obj_ops ops' obj = obj_ops ops obj -> text_at ops' obj = text_at ops obj.
Proof. unfold text_at. intros H. rewrite (seq_elems_obj_ops _ _ _ H). reflexivity. Qed.

(* ================= one character appended to a text ================= *)
Definition char_op (t : tx) (obj ref : opid) (c : N) : op :=
  mkOp (next_id t) obj (KSeq ref) true (APut (SStr [c])) [].

Lemma next_ctr_push t n : next_ctr (push t n) = next_ctr t + 1.
Proof. unfold next_ctr, push. cbn. rewrite app_length. cbn. lia. Qed.

Lemma elem_order_ids_below t obj x :
  wf_tx t -> In x (elem_order (obj_ops (tx_all t) obj)) -> fst x < next_ctr t /\ 0 < fst x.
Proof.
  intros W Hx. apply elem_order_in in Hx. destruct Hx as (o & Ho & <-).
  apply obj_ops_incl in Ho. destruct (wf_tx_parts t W) as (_ & B & _). rewrite Forall_forall in B.
  destruct (op_below_parts _ _ (B o Ho)) as (A & _). split; [exact A|]. eapply wf_tx_ids_pos; eauto.
Qed.

Lemma chain_step t obj ref c L :
  wf_tx t -> fst obj < next_ctr t ->
  elem_order (obj_ops (tx_all t) obj) = L ->
  ((L = [] /\ ref = head_id) \/ (exists L0, L = L0 ++ [ref] /\ ~ In ref L0)) ->
  let n := char_op t obj ref c in
  wf_tx (push t n) /\
  elem_order (obj_ops (tx_all (push t n)) obj) = L ++ [next_id t] /\
  ~ In (next_id t) L /\
  text_at (tx_all (push t n)) obj = text_at (tx_all t) obj ++ [c] /\
  (forall obj', obj' <> obj -> obj_ops (tx_all (push t n)) obj' = obj_ops (tx_all t) obj') /\
  (forall o, lookup_type (tx_all (push t n)) o = lookup_type (tx_all t) o).
Proof.
  intros W Ho EL Hr n.
  destruct (wf_tx_parts t W) as (S & B & St).
  assert (Rb : fst ref < next_ctr t).
  { destruct Hr as [[_ ->]|(L0 & E & _)]; [cbn; unfold next_ctr; lia|].
    apply (elem_order_ids_below t obj ref W). rewrite EL, E. apply in_or_app. right. left. reflexivity. }
  assert (F : fresh (tx_all t) n).
  { apply fresh_of_wf; [exact W|reflexivity|]. cbn. intros p []. }
  assert (NI : ~ In (next_id t) L).
  { intros Hin. rewrite <- EL in Hin. apply (elem_order_ids_below t obj _ W) in Hin.
    rewrite next_id_ctr in Hin. lia. }
  destruct (insert_effect (tx_all t) n obj ref S F eq_refl eq_refl eq_refl eq_refl) as (Fr & Own & Ord & Oth).
  split; [|split; [|split; [exact NI|split; [|split]]]].
  - apply wf_push; [exact W|reflexivity|exact Ho|exact Rb|]. cbn. intros p [].
  - rewrite tx_all_push, Ord, EL. unfold place. change (ref_of n) with ref. change (op_id n) with (next_id t).
    destruct Hr as [[-> ->]|(L0 & -> & Hn)].
    + rewrite opid_eqb_refl. reflexivity.
    + assert (Rp : 0 < fst ref).
      { apply (elem_order_ids_below t obj ref W). rewrite EL. apply in_or_app. right. left. reflexivity. }
      rewrite opid_eqb_false by (intros Q; rewrite Q in Rp; cbn in Rp; lia).
      rewrite insert_after_split by exact Hn. rewrite <- app_assoc. reflexivity.
  - (* the text: old elements keep their registers, the new element shows its character *)
    unfold text_at. rewrite !seq_elems_gel, tx_all_push, Ord, EL.
    assert (Pl : place L n = L ++ [next_id t]).
    { unfold place. change (ref_of n) with ref. change (op_id n) with (next_id t).
      destruct Hr as [[-> ->]|(L0 & -> & Hn)].
      - rewrite opid_eqb_refl. reflexivity.
      - assert (Rp : 0 < fst ref).
        { apply (elem_order_ids_below t obj ref W). rewrite EL. apply in_or_app. right. left. reflexivity. }
        rewrite opid_eqb_false by (intros Q; rewrite Q in Rp; cbn in Rp; lia).
        rewrite insert_after_split by exact Hn. rewrite <- app_assoc. reflexivity. }
    rewrite Pl, !flat_map_app. f_equal.
    + f_equal. apply flat_map_ext_in'. intros x Hx. unfold gel.
      rewrite Fr; [reflexivity|]. right. intros Q. inversion Q. subst x. apply NI. exact Hx.
    + cbn [flat_map]. unfold gel. change (next_id t) with (op_id n). rewrite Own.
      rewrite (own_reg_put n (SStr [c])) by reflexivity. cbn. reflexivity.
  - intros obj' NE. rewrite tx_all_push. apply Oth. exact NE.
  - intros o. rewrite tx_all_push. apply lookup_type_snoc_nomake. reflexivity.
Qed.

Lemma insert_chain_chars s : forall t obj ref L,
  wf_tx t -> fst obj < next_ctr t ->
  elem_order (obj_ops (tx_all t) obj) = L ->
  ((L = [] /\ ref = head_id) \/ (exists L0, L = L0 ++ [ref] /\ ~ In ref L0)) ->
  let t' := insert_chain t obj ref (char_acts s) in
  wf_tx t' /\
  text_at (tx_all t') obj = text_at (tx_all t) obj ++ s /\
  (forall obj', obj' <> obj -> obj_ops (tx_all t') obj' = obj_ops (tx_all t) obj') /\
  (forall o, lookup_type (tx_all t') o = lookup_type (tx_all t) o) /\
  next_ctr t <= next_ctr t'.
Proof.
  induction s as [|c s IH]; intros t obj ref L W Ho EL Hr; cbn [char_acts map insert_chain].
  - cbv zeta. rewrite app_nil_r. repeat split; auto. lia.
  - cbv zeta. fold (char_acts s).
    destruct (chain_step t obj ref c L W Ho EL Hr) as (W1 & E1 & NI & T1 & O1 & L1).
    fold (char_op t obj ref c).
    set (t1 := push t (char_op t obj ref c)) in *.
    assert (Ho1 : fst obj < next_ctr t1) by (unfold t1; rewrite next_ctr_push; lia).
    destruct (IH t1 obj (next_id t) (L ++ [next_id t]) W1 Ho1 E1) as (W2 & T2 & O2 & L2 & N2).
    { right. exists L. split; [reflexivity|exact NI]. }
    cbv zeta in W2, T2, O2, L2, N2.
    split; [exact W2|]. split; [rewrite T2, T1, <- app_assoc; reflexivity|].
    split; [intros obj' NE; rewrite O2, O1 by exact NE; reflexivity|].
    split; [intros o; rewrite L2, L1; reflexivity|].
    apply N.le_trans with (next_ctr t1); [unfold t1; rewrite next_ctr_push; lia|exact N2].
Qed.

(* ================= put_object(obj, prop, Text) ; splice_text(text, 0, 0, s) ================= *)
Lemma resolve_make r ty : resolve_action r (AMake ty) = Some (AMake ty, r).
Proof. unfold resolve_action. destruct (winner r) as [[i w]|]; reflexivity. Qed.

Lemma lookup_type_ctr_below t obj ty : wf_tx t -> lookup_type (tx_all t) obj = Some ty -> fst obj < next_ctr t.
Proof.
  intros W L. destruct (wf_tx_parts t W) as (_ & B & St). rewrite Forall_forall in B.
  unfold lookup_type in L.
  destruct (find (fun ot => opid_eqb (fst ot) obj) (objects (tx_all t))) as [ot|] eqn:Fd; [|discriminate].
  apply find_some in Fd. destruct Fd as [Hin Eq]. apply opid_eqb_spec in Eq.
  destruct (objects_ids _ _ Hin) as [H|(o & Ho & H)].
  - rewrite Eq in H. rewrite H. cbn. unfold next_ctr. lia.
  - destruct (op_below_parts _ _ (B o Ho)) as (A & _). rewrite H, Eq in A. exact A.
Qed.

Lemma lookup_type_next_none t : wf_tx t -> lookup_type (tx_all t) (next_id t) = None.
Proof.
  intros W. destruct (lookup_type (tx_all t) (next_id t)) as [ty|] eqn:E; [|reflexivity].
  exfalso. exact (lookup_type_below _ _ _ W E eq_refl).
Qed.

Lemma seek_unit_some w els : (forall r, w r = 1) ->
  forall k idx acc p0 e r, nth_error els k = Some (e, r) -> idx = acc + N.of_nat k ->
  exists s wd p, seek w els idx acc p0 = Some (e, r, s, wd, p).
Proof.
  intros Hw. induction els as [|[e' r'] t IH]; intros k idx acc p0 e r Hn Hi; [destruct k; discriminate|].
  cbn [seek]. rewrite Hw. destruct k as [|k].
  - cbn in Hn. inversion Hn; subst. replace (acc + N.of_nat 0 <? acc + 1) with true by (symmetry; apply N.ltb_lt; lia).
    eexists _, _, _. reflexivity.
  - cbn in Hn. replace (idx <? acc + 1) with false by (symmetry; apply N.ltb_ge; lia).
    apply (IH k idx (acc + 1) (S p0) e r Hn). lia.
Qed.

Lemma splice_text_fresh e t id s :
  lookup_type (tx_all t) id = Some OText ->
  step e t (CSpliceText id 0 0 s) = EOk (insert_chain t id head_id (char_acts s)).
Proof.
  intros L. unfold step, with_obj. rewrite L. unfold inner_splice.
  change (0 <? 0)%Z with false. cbv iota. change (Z.to_N 0) with 0.
  assert (D : forall t1 i, del_loop (2 * length (seq_elems (tx_all t1) id) + 2) e t1 id OText i 0 0 = EOk t1).
  { intros t1 i. rewrite Nat.add_comm. cbn [Nat.add del_loop]. rewrite N.ltb_irrefl. reflexivity. }
  destruct s as [|c s].
  - cbn [char_acts map insert_chain]. apply D.
  - cbn [char_acts map]. unfold query_insert. rewrite N.eqb_refl. apply D.
Qed.

(* the target register of a conversion: a map key, or the element a list index stands for *)
Definition conv_target (ops : list op) (obj : opid) (p : prop) (ty : objtype) (K : key) : Prop :=
  match p with
  | PMap k => ty = OMap /\ K = KMap k
  | PSeq i => ty = OList /\ exists el r, K = KSeq el /\ nth_error (seq_elems ops obj) (N.to_nat i) = Some (el, r)
  end.

Theorem convert_one_spec e t obj p s ty K :
  wf_tx t -> lookup_type (tx_all t) obj = Some ty -> conv_target (tx_all t) obj p ty K ->
  let id := next_id t in
  exists t', convert_one e t (obj, p, s) = EOk t' /\
    wf_tx t' /\ tx_base t' = tx_base t /\ tx_actor t' = tx_actor t /\ tx_start t' = tx_start t /\
    tx_pending t' <> [] /\
    reg_at (tx_all t') obj K = [(id, VO OText)] /\
    (forall K', K' <> K -> reg_at (tx_all t') obj K' = reg_at (tx_all t) obj K') /\
    (forall obj', obj' <> obj -> obj' <> id -> obj_ops (tx_all t') obj' = obj_ops (tx_all t) obj') /\
    (forall obj', obj' <> id -> elem_order (obj_ops (tx_all t') obj') = elem_order (obj_ops (tx_all t) obj')) /\
    lookup_type (tx_all t) id = None /\ lookup_type (tx_all t') id = Some OText /\
    (forall o, o <> id -> lookup_type (tx_all t') o = lookup_type (tx_all t) o) /\
    text_at (tx_all t') id = s.
Proof.
  intros W L T id.
  pose proof (lookup_type_below _ _ _ W L) as NOI. fold id in NOI.
  pose proof (lookup_type_ctr_below _ _ _ W L) as OB.
  set (r := reg_at (tx_all t) obj K).
  set (n := mkOp id obj K false (AMake OText) (map fst r)).
  assert (U : update_op t obj K r (AMake OText) = EOk (push t n, Some id)).
  { unfold update_op. rewrite resolve_make. cbn [is_inc_action andb]. reflexivity. }
  (* the put_object part reaches update_op on K *)
  assert (P : local_op e t obj ty p (AMake OText) = EOk (push t n, Some id) /\ key_ctr K < next_ctr t).
  { destruct p as [k|i]; cbn [conv_target] in T.
    - destruct T as [-> ->]. split; [exact U|]. cbn. unfold next_ctr. destruct (wf_tx_parts t W) as (_ & _ & St). lia.
    - destruct T as (-> & el & r0 & -> & Hn). cbn [local_op]. unfold local_list_op. cbn [is_seq_type negb].
      destruct (seek_unit_some (elem_w e OList) (seq_elems (tx_all t) obj) (fun _ => eq_refl)
                  (N.to_nat i) i 0 0%nat el r0 Hn) as (s0 & wd & pp & Sk); [lia|].
      rewrite Sk. destruct (seq_elems_reg _ _ _ _ (nth_error_In _ _ Hn)) as [Er _].
      split; [rewrite Er; exact U|]. cbn [key_ctr].
      assert (Hin : In el (elem_order (obj_ops (tx_all t) obj))).
      { apply nth_error_In in Hn. rewrite seq_elems_gel in Hn. apply in_flat_map in Hn.
        destruct Hn as (x & Hx & Hg). unfold gel in Hg. destruct (reg_at (tx_all t) obj (KSeq x)); [destruct Hg|].
        destruct Hg as [Q|[]]. inversion Q; subst. exact Hx. }
      apply (elem_order_ids_below t obj el W Hin). }
  destruct P as [P KB].
  destruct (update_op_spec t obj K (AMake OText) _ _ W U) as [Fr Rg]. cbv zeta in Rg.
  fold r in Rg. rewrite resolve_make, kept_all in Rg. cbn [app] in Rg.
  set (t1 := push t n) in *.
  assert (F : fresh (tx_all t) n).
  { apply fresh_of_wf; [exact W|reflexivity|]. cbn [op_pred n]. intros q Hq.
    apply in_map_iff in Hq. destruct Hq as ([i w] & <- & Hq). eapply reg_ids_below; [exact W|exact Hq]. }
  assert (W1 : wf_tx t1).
  { apply wf_push; [exact W|reflexivity|exact OB|exact KB|]. cbn [op_pred n]. intros q Hq.
    apply in_map_iff in Hq. destruct Hq as ([i w] & <- & Hq). eapply reg_ids_below; [exact W|exact Hq]. }
  assert (L1 : lookup_type (tx_all t1) id = Some OText).
  { unfold t1. rewrite tx_all_push. apply (lookup_type_new (tx_all t) n OText F); [|reflexivity].
    cbn. unfold id, next_id, root_id. intros Q. inversion Q. destruct (wf_tx_parts t W) as (_ & _ & St). lia. }
  assert (E1 : obj_ops (tx_all t1) id = []).
  { unfold t1. rewrite tx_all_push, obj_ops_snoc. cbn [op_obj n].
    rewrite (opid_eqb_false obj id) by exact NOI. rewrite app_nil_r. apply (obj_ops_fresh _ n F). }
  assert (IB : fst id < next_ctr t1) by (unfold t1; rewrite next_ctr_push; unfold id; rewrite next_id_ctr; lia).
  destruct (insert_chain_chars s t1 id head_id [] W1 IB) as (W2 & T2 & O2 & L2 & N2).
  { rewrite E1. reflexivity. }
  { left. split; reflexivity. }
  cbv zeta in W2, T2, O2, L2, N2.
  set (t2 := insert_chain t1 id head_id (char_acts s)) in *.
  exists t2. split.
  { unfold convert_one, with_obj. rewrite L.
    assert (G : ebind (local_op e t obj ty p (AMake OText))
                  (fun r => match snd r with Some id => step e (fst r) (CSpliceText id 0 0 s) | None => EPanic end) = EOk t2).
    { rewrite P. cbn [ebind fst snd]. apply splice_text_fresh. exact L1. }
    destruct p as [k|i]; cbn [conv_target] in T.
    - destruct T as [-> _]. exact G.
    - destruct T as [-> _]. exact G. }
  assert (Bs : forall (acts : list action) t0 o rf, tx_base (insert_chain t0 o rf acts) = tx_base t0 /\
             tx_actor (insert_chain t0 o rf acts) = tx_actor t0 /\ tx_start (insert_chain t0 o rf acts) = tx_start t0 /\
             (tx_pending t0 <> [] -> tx_pending (insert_chain t0 o rf acts) <> [])).
  { induction acts as [|a acts IH]; intros t0 o rf; cbn [insert_chain]; [auto|].
    destruct (IH (push t0 (mkOp (next_id t0) o (KSeq rf) true a [])) o (next_id t0)) as (A1 & A2 & A3 & A4).
    rewrite A1, A2, A3. repeat split; try reflexivity. intros _. apply A4. cbn. intros Q. apply app_eq_nil in Q. destruct Q; discriminate. }
  destruct (Bs (char_acts s) t1 id head_id) as (B1 & B2 & B3 & B4). fold t2 in B1, B2, B3, B4.
  split; [exact W2|]. split; [rewrite B1; reflexivity|]. split; [rewrite B2; reflexivity|]. split; [rewrite B3; reflexivity|].
  split; [apply B4; unfold t1; cbn; intros Q; apply app_eq_nil in Q; destruct Q; discriminate|].
  assert (OO : obj_ops (tx_all t2) obj = obj_ops (tx_all t1) obj) by (apply O2; exact NOI).
  split; [rewrite (reg_at_obj_ops _ _ _ _ OO); exact Rg|].
  split; [intros K' NK; rewrite (reg_at_obj_ops _ _ _ _ OO); apply (fu_keys _ _ _ _ Fr); exact NK|].
  split; [intros obj' N1 N2'; rewrite O2 by exact N2'; apply (fu_obj_ops _ _ _ _ Fr); exact N1|].
  split; [intros obj' N2'; rewrite O2 by exact N2'; apply (fu_order _ _ _ _ Fr)|].
  split; [apply lookup_type_next_none; exact W|].
  split; [rewrite L2; exact L1|].
  split; [intros o No; rewrite L2; unfold t1; rewrite tx_all_push; apply lookup_type_snoc; exact No|].
  rewrite T2. unfold text_at. rewrite (seq_elems_obj_ops [] (tx_all t1) id) by (rewrite E1; reflexivity). reflexivity.
Qed.
