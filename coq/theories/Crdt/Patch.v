(* Crdt/Patch.v — patches and materialized views (C08, C09).

   [view]   the materialized state a consumer of patches keeps: a tree of maps (key -> value, conflict
            flag), lists of (value, conflict flag) and texts.  This is rust/automerge/src/hydrate.rs
            [hydrate::Value] (Map / List / Text / Scalar with MapValue.conflict / ListValue.conflict) plus
            the object id of every node (the implementation's reads give them; they let the applier check
            that a patch really addresses the object its path leads to).  A text is the sequence of its
            units in the document's TextEncoding (text_value.rs: Utf8 = bytes, Utf16 = u16 units,
            CodePoint = chars), exactly what ConcreteTextValue stores, so SpliceText / DeleteSeq indexes
            are positions in that sequence.  Marks are not part of this state.
   [patch]  rust/automerge/src/patches/patch.rs [Patch { obj, path, action }] with the nine [PatchAction]s
            PutMap, PutSeq, Insert, SpliceText, Increment, Conflict, DeleteMap, DeleteSeq, Mark.
   [apply_patch]  mirrors hydrate.rs [Value::apply] (walk the props of [path], then Map::apply /
            List::apply / Text::apply of hydrate/{map,list,text}.rs): a Put / Insert of an object value
            creates an EMPTY object (Value::new), Conflict only sets the flag, Increment adds to a counter,
            a path that runs through a text is ignored (block contents are not in the hydrated text),
            Mark changes nothing on a list / text and is an error on a map.  Stricter than the Rust in one
            point: the ids along the path and the id of the addressed node must be the patch's
            (hydrate::Value keeps no ids and cannot check).  Out-of-range indexes (SequenceTree::insert /
            remove panic, get_mut gives an error) are [None].  Counter arithmetic is in Z (no i64 overflow).
   [diff]   a model-level generator (spec-level: it does NOT mirror the implementation's
            iter/{map_range,list_range,spans}.rs + patch_log.rs logic): the patches that turn one view
            into another.  Theorem C08 diff_apply shows the patch language is complete and the applier
            sound for it; the implementation's own patches are validated by the applier on every run.
   [view_of_obs]  the view of an observation of Crdt/Interp.v (winner + conflict flag per register).
   No proofs here (Crdt/PatchProofs.v). *)
From AM Require Import Base.Prelude Base.Order Crdt.Types Crdt.Interp Crdt.Local.
Local Open Scope N_scope.

(* ---- views ---- *)
Inductive view :=
| VScalar (s : scalar)                                   (* a counter is [SCounter current] *)
| VMap (id : opid) (m : list (list N * (view * bool)))   (* map / table, keys strictly ascending *)
| VList (id : opid) (l : list (view * bool))
| VText (id : opid) (u : list N).                        (* units of the text in the document's encoding *)

Notation ventry := (view * bool)%type (only parsing).
Notation vmap := (list (list N * (view * bool))) (only parsing).

Definition view_id (v : view) : option opid :=
  match v with VScalar _ => None | VMap id _ | VList id _ | VText id _ => Some id end.

(* ---- patches ---- *)
Inductive pvalue := PVS (s : scalar) | PVO (t : objtype) (id : opid).   (* (Value, ObjId) *)

Inductive paction :=
| PutMap (k : list N) (v : pvalue) (c : bool)
| PutSeq (i : N) (v : pvalue) (c : bool)
| Insert (i : N) (vs : list (pvalue * bool))
| SpliceText (i : N) (u : list N)                        (* value as units; marks are not state *)
| Increment (p : prop) (z : Z)
| Conflict (p : prop)
| DeleteMap (k : list N)
| DeleteSeq (i : N) (n : N)
| MarkP (ms : list (N * N * list N)).                    (* (start, end, name) of each mark *)

Record patch := mkPatch { p_obj : opid; p_path : list (opid * prop); p_action : paction }.

(* ---- encodings: the units of a string (str::bytes / encode_utf16 / chars) ---- *)
Definition cp_units (e : enc) (c : N) : list N :=
  match e with
  | EncCP => [c]
  | EncU8 =>
    if c <? 128 then [c]
    else if c <? 2048 then [192 + c / 64; 128 + c mod 64]
    else if c <? 65536 then [224 + c / 4096; 128 + (c / 64) mod 64; 128 + c mod 64]
    else [240 + c / 262144; 128 + (c / 4096) mod 64; 128 + (c / 64) mod 64; 128 + c mod 64]
  | EncU16 => if c <? 65536 then [c] else [55296 + (c - 65536) / 1024; 56320 + (c - 65536) mod 1024]
  end.
Definition str_units (e : enc) (s : list N) : list N := flat_map (cp_units e) s.

(* hydrate::Value::new: what a value in a patch becomes in the view *)
Definition new_view (v : pvalue) : view :=
  match v with
  | PVS s => VScalar s
  | PVO OMap id | PVO OTable id => VMap id []
  | PVO OList id => VList id []
  | PVO OText id => VText id []
  end.

(* hydrate::Value::as_str of the new value, in units *)
Definition pv_units (e : enc) (v : pvalue) : list N :=
  match v with PVS (SStr s) => str_units e s | _ => str_units e [65532] end.

(* ---- sequences ---- *)
Definition insert_at {A} (i : N) (xs l : list A) : option (list A) :=
  if i <=? N.of_nat (length l)
  then Some (firstn (N.to_nat i) l ++ xs ++ skipn (N.to_nat i) l) else None.

Definition delete_at {A} (i n : N) (l : list A) : option (list A) :=
  if i + n <=? N.of_nat (length l)
  then Some (firstn (N.to_nat i) l ++ skipn (N.to_nat (i + n)) l) else None.

Definition get_at {A} (i : N) (l : list A) : option A :=
  if i <? N.of_nat (length l) then nth_error l (N.to_nat i) else None.

Definition set_at {A} (i : N) (x : A) (l : list A) : list A :=
  firstn (N.to_nat i) l ++ x :: skipn (S (N.to_nat i)) l.

(* ---- maps: association lists ordered by key (String order = code point order) ---- *)
Definition keqb (a b : list N) : bool := eqb_of bytes_cmp a b.

Fixpoint mlookup {V} (k : list N) (m : list (list N * V)) : option V :=
  match m with
  | [] => None
  | (k', e) :: t => if keqb k k' then Some e else mlookup k t
  end.

Fixpoint mupsert {V} (k : list N) (e : V) (m : list (list N * V)) : list (list N * V) :=
  match m with
  | [] => [(k, e)]
  | (k', e') :: t =>
    match bytes_cmp k k' with
    | Lt => (k, e) :: m
    | Eq => (k, e) :: t
    | Gt => (k', e') :: mupsert k e t
    end
  end.

Fixpoint mremove {V} (k : list N) (m : list (list N * V)) : list (list N * V) :=
  match m with
  | [] => []
  | (k', e') :: t => if keqb k k' then mremove k t else (k', e') :: mremove k t
  end.

Fixpoint mset {V} (k : list N) (e : V) (m : list (list N * V)) : list (list N * V) :=
  match m with
  | [] => []
  | (k', e') :: t => if keqb k k' then (k', e) :: t else (k', e') :: mset k e t
  end.

(* ---- one action on the addressed node: Map::apply / List::apply / Text::apply ---- *)
Definition inc_entry (z : Z) (en : ventry) : option ventry :=
  match en with
  | (VScalar (SCounter c), f) => Some (VScalar (SCounter (c + z)), f)
  | _ => None                                            (* HydrateError::BadIncrement *)
  end.

Definition new_entry (vc : pvalue * bool) : ventry := (new_view (fst vc), snd vc).

Definition apply_action (e : enc) (v : view) (a : paction) : option view :=
  match v with
  | VScalar _ => None
  | VMap id m =>
    match a with
    | PutMap k pv c => Some (VMap id (mupsert k (new_view pv, c) m))
    | DeleteMap k => Some (VMap id (mremove k m))
    | Increment (PMap k) z =>
      match mlookup k m with
      | Some en => match inc_entry z en with
                   | Some en' => Some (VMap id (mset k en' m))
                   | None => None
                   end
      | None => None
      end
    | Conflict (PMap k) =>
      match mlookup k m with
      | Some en => Some (VMap id (mset k (fst en, true) m))
      | None => None
      end
    | _ => None                                          (* HydrateError::InvalidMapOp *)
    end
  | VList id l =>
    match a with
    | PutSeq i pv c =>
      match get_at i l with Some _ => Some (VList id (set_at i (new_view pv, c) l)) | None => None end
    | Insert i vs =>
      match insert_at i (map new_entry vs) l with Some l' => Some (VList id l') | None => None end
    | DeleteSeq i n =>
      match delete_at i n l with Some l' => Some (VList id l') | None => None end
    | Increment (PSeq i) z =>
      match get_at i l with
      | Some en => match inc_entry z en with
                   | Some en' => Some (VList id (set_at i en' l))
                   | None => None
                   end
      | None => None
      end
    | Conflict (PSeq i) =>
      match get_at i l with Some en => Some (VList id (set_at i (fst en, true) l)) | None => None end
    | MarkP _ => Some v
    | _ => None                                          (* HydrateError::InvalidListOp *)
    end
  | VText id u =>
    match a with
    | SpliceText i x =>
      match insert_at i x u with Some u' => Some (VText id u') | None => None end
    | Insert i vs =>
      match insert_at i (flat_map (fun vc => pv_units e (fst vc)) vs) u with
      | Some u' => Some (VText id u') | None => None end
    | PutSeq i pv _ =>
      match delete_at i 1 u with
      | Some u1 => match insert_at i (pv_units e pv) u1 with Some u' => Some (VText id u') | None => None end
      | None => None
      end
    | DeleteSeq i n =>
      match delete_at i n u with Some u' => Some (VText id u') | None => None end
    | MarkP _ => Some v
    | _ => None                                          (* HydrateError::InvalidTextOp *)
    end
  end.

(* ---- Value::apply: walk the path, then apply at the node reached ---- *)
Definition id_is (v : view) (id : opid) : bool :=
  match view_id v with Some i => opid_eqb i id | None => false end.

Fixpoint apply_at (e : enc) (path : list (opid * prop)) (obj : opid) (a : paction) (v : view) : option view :=
  match path with
  | [] => if id_is v obj then apply_action e v a else None
  | (pid, pr) :: rest =>
    if id_is v pid then
      match v, pr with
      | VMap id m, PMap k =>
        match mlookup k m with
        | Some (c, f) => match apply_at e rest obj a c with
                         | Some c' => Some (VMap id (mset k (c', f) m))
                         | None => None
                         end
        | None => None                                   (* ApplyInvalidProp *)
        end
      | VList id l, PSeq i =>
        match get_at i l with
        | Some (c, f) => match apply_at e rest obj a c with
                         | Some c' => Some (VList id (set_at i (c', f) l))
                         | None => None
                         end
        | None => None
        end
      | VText _ _, PSeq _ => Some v                      (* contents of a block inside a text *)
      | _, _ => None                                     (* HydrateError::Fail *)
      end
    else None
  end.

Definition apply_patch (e : enc) (v : view) (p : patch) : option view :=
  apply_at e (p_path p) (p_obj p) (p_action p) v.

Fixpoint apply_patches (e : enc) (ps : list patch) (v : view) : option view :=
  match ps with
  | [] => Some v
  | p :: rest => match apply_patch e v p with Some v' => apply_patches e rest v' | None => None end
  end.

(* ---- reading a view along a path of props (for the frame statements): the entry (value and
   conflict flag) reached; the root counts as an unflagged entry ---- *)
Fixpoint subentry (en : view * bool) (q : list prop) : option (view * bool) :=
  match q with
  | [] => Some en
  | PMap k :: r =>
    match fst en with
    | VMap _ m => match mlookup k m with Some en' => subentry en' r | None => None end
    | _ => None
    end
  | PSeq i :: r =>
    match fst en with
    | VList _ l => match get_at i l with Some en' => subentry en' r | None => None end
    | _ => None
    end
  end.
Definition subtree (v : view) (q : list prop) : option (view * bool) := subentry (v, false) q.

(* q leaves the path at some step: a common prefix, then two different props *)
Definition diverges (q path : list prop) : Prop :=
  exists pre a b q' path', q = pre ++ a :: q' /\ path = pre ++ b :: path' /\ a <> b.

(* ---- the model-level generator ---- *)
Definition pv_of (v : view) : pvalue :=
  match v with
  | VScalar s => PVS s
  | VMap id _ => PVO OMap id
  | VList id _ => PVO OList id
  | VText id _ => PVO OText id
  end.

(* the object a Put of this value creates: an empty one of the same kind and id *)
Definition empty_like (v : view) : view := new_view (pv_of v).

(* same kind of node, same id (scalars: equal) *)
Definition same_shell (a b : view) : bool :=
  match a, b with
  | VScalar x, VScalar y => scalar_eqb x y
  | VMap i _, VMap j _ | VList i _, VList j _ | VText i _, VText j _ => opid_eqb i j
  | _, _ => false
  end.

Definition counter_delta (a b : view) : option Z :=
  match a, b with
  | VScalar (SCounter x), VScalar (SCounter y) => Some (y - x)%Z
  | _, _ => None
  end.

(* a register that keeps its value: nothing, or a Conflict patch when the flag appears; a flag that
   disappears needs a Put (Conflict can only set it) *)
Definition keeps (old : option ventry) (c2 : view) (f2 : bool) : bool :=
  match old with
  | Some (c1, f1) => same_shell c1 c2 && implb f1 f2
  | None => false
  end.

Definition increments (old : option ventry) (c2 : view) (f2 : bool) : option Z :=
  match old with
  | Some (c1, f1) => if implb f1 f2 then counter_delta c1 c2 else None
  | None => None
  end.

Definition flag_patch (p : prop) (old : option ventry) (f2 : bool) : list paction :=
  match old with
  | Some (_, f1) => if negb f1 && f2 then [Conflict p] else []
  | None => []
  end.

Definition put_action (p : prop) (c2 : view) (f2 : bool) : paction :=
  match p with PMap k => PutMap k (pv_of c2) f2 | PSeq i => PutSeq i (pv_of c2) f2 end.

(* actions for one register of the node, given what it held before *)
Definition entry_actions (p : prop) (old : option ventry) (c2 : view) (f2 : bool) : list paction :=
  if keeps old c2 f2 then flag_patch p old f2
  else match increments old c2 f2 with
       | Some d => Increment p d :: flag_patch p old f2
       | None => [put_action p c2 f2]
       end.

(* what the register's value is after those actions, before the child's own patches *)
Definition base_of (old : option ventry) (c2 : view) (f2 : bool) : view :=
  if keeps old c2 f2 then match old with Some (c1, _) => c1 | None => c2 end
  else empty_like c2.

Definition map_of (v : view) : vmap := match v with VMap _ m => m | _ => [] end.
Definition list_of (v : view) : list ventry := match v with VList _ l => l | _ => [] end.
Definition text_of_view (v : view) : list N := match v with VText _ u => u | _ => [] end.

Fixpoint list_actions (i : N) (l1 l2 : list ventry) : list paction :=
  match l1, l2 with
  | [], [] => []
  | [], _ :: _ => [Insert i (map (fun en => (pv_of (fst en), snd en)) l2)]
  | _ :: _, [] => [DeleteSeq i (N.of_nat (length l1))]
  | en1 :: t1, en2 :: t2 => entry_actions (PSeq i) (Some en1) (fst en2) (snd en2) ++ list_actions (i + 1) t1 t2
  end.

Definition text_actions (u1 u2 : list N) : list paction :=
  if nlist_eqb u1 u2 then []
  else (match u1 with [] => [] | _ => [DeleteSeq 0 (N.of_nat (length u1))] end)
       ++ (match u2 with [] => [] | _ => [SpliceText 0 u2] end).

Definition push_step (st : opid * prop) (p : patch) : patch :=
  mkPatch (p_obj p) (st :: p_path p) (p_action p).

Definition here (id : opid) (a : paction) : patch := mkPatch id [] a.

(* keys of m1 that m2 does not have *)
Definition dkeys (m1 m2 : vmap) : list (list N) :=
  flat_map (fun ke => match mlookup (fst ke) m2 with Some _ => [] | None => [fst ke] end) m1.

Definition map_actions (m1 m2 : vmap) : list paction :=
  map DeleteMap (dkeys m1 m2)
  ++ flat_map (fun ke => entry_actions (PMap (fst ke)) (mlookup (fst ke) m1) (fst (snd ke)) (snd (snd ke))) m2.

(* the patches of the children, given the generator [D] for one child *)
Section Children.
  Variable D : view -> view -> list patch.
  Variable id : opid.

  Definition map_children (m1 m2 : vmap) : list patch :=
    flat_map (fun ke => map (push_step (id, PMap (fst ke)))
                            (D (base_of (mlookup (fst ke) m1) (fst (snd ke)) (snd (snd ke))) (fst (snd ke)))) m2.

  Fixpoint list_children (i : N) (l1 l : list ventry) {struct l} : list patch :=
    match l with
    | [] => []
    | en2 :: t =>
      map (push_step (id, PSeq i)) (D (base_of (hd_error l1) (fst en2) (snd en2)) (fst en2))
      ++ list_children (i + 1) (tl l1) t
    end.
End Children.

(* [diff v1 v2]: patches (paths relative to the node) turning v1 into v2; meaningful when
   [same_shell v1 v2].  Structural on v2: first the node's own actions, then every child's. *)
Fixpoint diff (v1 v2 : view) : list patch :=
  match v2 with
  | VScalar _ => []
  | VMap id m2 =>
    map (here id) (map_actions (map_of v1) m2) ++ map_children diff id (map_of v1) m2
  | VList id l2 =>
    map (here id) (list_actions 0 (list_of v1) l2) ++ list_children diff id 0 (list_of v1) l2
  | VText id u2 => map (here id) (text_actions (text_of_view v1) u2)
  end.

(* ---- the patch a local update emits: TransactionInner::finalize_op (transaction/inner.rs) for an op that
   updates a map key or a list index (not an insert), given the resolved action, the id of the new op and
   the register [r] the seek found (= the ops the new op supersedes).  With a conflicted register an
   increment is reported as a Put of "the first counter found + z" with conflict = false
   (inner.rs increment_replacement: ops.iter().find(is_counter)). ---- *)
Definition first_counter (r : regobs) : option Z :=
  match flat_map (fun iw => match snd iw with VC c => [c] | _ => [] end) r with
  | c :: _ => Some c
  | [] => None
  end.

Definition del_action (p : prop) : paction :=
  match p with PMap k => DeleteMap k | PSeq i => DeleteSeq i 1 end.

Definition put_pv (p : prop) (v : pvalue) (c : bool) : paction :=
  match p with PMap k => PutMap k v c | PSeq i => PutSeq i v c end.

Definition local_action (p : prop) (id : opid) (a : action) (r : regobs) : option paction :=
  match a with
  | APut v => Some (put_pv p (PVS v) false)
  | AMake t => Some (put_pv p (PVO t id) false)
  | ADel => Some (del_action p)
  | AInc z =>
    if (1 <? length r)%nat
    then match first_counter r with
         | Some c => Some (put_pv p (PVS (SCounter (c + z))) false)
         | None => None
         end
    else Some (Increment p z)
  | _ => None
  end.

(* what a view shows of a register: the winner as a patch value, and "more than one value" *)
Definition pv_of_vobs (id : opid) (w : vobs) : pvalue :=
  match w with VS s => PVS s | VC z => PVS (SCounter z) | VO t => PVO t id end.
Definition entry_shell (r : regobs) : option (pvalue * bool) :=
  match winner r with
  | Some (id, w) => Some (pv_of_vobs id w, (1 <? length r)%nat)
  | None => None
  end.
Definition shell_lookup (k : list N) (m : list (list N * (view * bool))) : option (pvalue * bool) :=
  match mlookup k m with Some (c, f) => Some (pv_of c, f) | None => None end.

(* ---- well-formed views: map keys strictly ascending, everywhere ---- *)
Fixpoint keys_sorted {V} (m : list (list N * V)) : bool :=
  match m with
  | [] => true
  | (k, _) :: t => match t with
                   | [] => true
                   | (k', _) :: _ => ltb bytes_cmp k k'
                   end && keys_sorted t
  end.

Fixpoint wf_node (v : view) : bool :=
  match v with
  | VScalar _ => true
  | VMap _ m =>
    keys_sorted m && (fix all (m : vmap) : bool :=
                        match m with [] => true | (_, (c, _)) :: t => wf_node c && all t end) m
  | VList _ l =>
    (fix all (l : list ventry) : bool :=
       match l with [] => true | (c, _) :: t => wf_node c && all t end) l
  | VText _ _ => true
  end.

(* a document view: the root map *)
Definition wf_view (v : view) : Prop :=
  wf_node v = true /\ exists m, v = VMap root_id m.

Definition wf_viewb (v : view) : bool :=
  wf_node v && match v with VMap id _ => opid_eqb id root_id | _ => false end.

(* ---- equality (for the executable checkers) ---- *)
Fixpoint view_eqb (a b : view) : bool :=
  match a, b with
  | VScalar x, VScalar y => scalar_eqb x y
  | VMap i m, VMap j n =>
    opid_eqb i j &&
    (fix go (m : vmap) (n : vmap) : bool :=
       match m, n with
       | [], [] => true
       | (k, (c, f)) :: t, (k', (c', f')) :: t' =>
         nlist_eqb k k' && view_eqb c c' && Bool.eqb f f' && go t t'
       | _, _ => false
       end) m n
  | VList i l, VList j n =>
    opid_eqb i j &&
    (fix go (l : list ventry) (n : list ventry) : bool :=
       match l, n with
       | [], [] => true
       | (c, f) :: t, (c', f') :: t' => view_eqb c c' && Bool.eqb f f' && go t t'
       | _, _ => false
       end) l n
  | VText i u, VText j w => opid_eqb i j && nlist_eqb u w
  | _, _ => false
  end.

(* ---- the view of an observation (Crdt/Interp.v): per register the winner and "more than one
   visible value"; objects are looked up among the observed objects.  [fuel] bounds the nesting
   depth (an object is created after its parent, so the number of objects suffices). ---- *)
Definition scalar_of_vobs (w : vobs) : option scalar :=
  match w with VS s => Some s | VC z => Some (SCounter z) | VO _ => None end.

Definition find_obj (ob : obs) (id : opid) : option oobs :=
  find (fun o => opid_eqb (oo_id o) id) ob.

Definition reg_flag (r : regobs) : bool := (1 <? length r)%nat.

Fixpoint view_of_obj (e : enc) (fuel : nat) (ob : obs) (o : oobs) : view :=
  let value (r : regobs) : view :=
    match winner r with
    | Some (id, VO t) =>
      match fuel with
      | S f => match find_obj ob id with
               | Some o' => view_of_obj e f ob o'
               | None => new_view (PVO t id)
               end
      | O => new_view (PVO t id)
      end
    | Some (_, w) => match scalar_of_vobs w with Some s => VScalar s | None => VScalar SNull end
    | None => VScalar SNull
    end in
  match oo_entries o with
  | EM l => VMap (oo_id o) (map (fun kr => (fst kr, (value (snd kr), reg_flag (snd kr)))) l)
  | EL l =>
    match oo_type o with
    | OText => VText (oo_id o) (str_units e (text_of o))
    | _ => VList (oo_id o) (map (fun r => (value r, reg_flag r)) l)
    end
  end.

Definition view_of_obs (e : enc) (ob : obs) : view :=
  match find_obj ob root_id with
  | Some o => view_of_obj e (length ob) ob o
  | None => VMap root_id []
  end.
