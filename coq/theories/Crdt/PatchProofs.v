(* Crdt/PatchProofs.v — proofs about Crdt/Patch.v (C08, C09):
   composition of patch lists, determinism and frame of the applier, and
   [diff_apply]: the generated patches turn any well-formed view into any other. *)
From AM Require Import Base.Prelude Base.Order Crdt.Types Crdt.Interp Crdt.Local Crdt.Patch.
Local Open Scope N_scope.

(* ------------------------------------------------------------------ basics *)
Lemma keqb_spec a b : keqb a b = true <-> a = b.
Proof. apply eqb_of_spec, bytes_cmp_total. Qed.

Lemma keqb_refl a : keqb a a = true.
Proof. apply keqb_spec. reflexivity. Qed.

Lemma keqb_sym a b : keqb a b = keqb b a.
Proof.
  destruct (keqb a b) eqn:E1; destruct (keqb b a) eqn:E2; try reflexivity.
  - apply keqb_spec in E1. subst. rewrite keqb_refl in E2. discriminate.
  - apply keqb_spec in E2. subst. rewrite keqb_refl in E1. discriminate.
Qed.

Lemma keqb_false a b : keqb a b = false <-> a <> b.
Proof.
  split.
  - intros H E. subst. rewrite keqb_refl in H. discriminate.
  - intros H. destruct (keqb a b) eqn:E; [|reflexivity]. apply keqb_spec in E. contradiction.
Qed.

Lemma opid_eqb_refl a : opid_eqb a a = true.
Proof. apply opid_eqb_spec. reflexivity. Qed.

Lemma nlist_eqb_spec a b : nlist_eqb a b = true <-> a = b.
Proof. apply list_eqb_spec. intros; apply N.eqb_eq. Qed.

Lemma scalar_eqb_spec a b : scalar_eqb a b = true <-> a = b.
Proof.
  split.
  - destruct a, b; cbn; try discriminate; intros H; try reflexivity.
    + apply Bool.eqb_prop in H. subst. reflexivity.
    + apply Z.eqb_eq in H. subst. reflexivity.
    + apply N.eqb_eq in H. subst. reflexivity.
    + apply N.eqb_eq in H. subst. reflexivity.
    + apply nlist_eqb_spec in H. subst. reflexivity.
    + apply nlist_eqb_spec in H. subst. reflexivity.
    + apply Z.eqb_eq in H. subst. reflexivity.
    + apply Z.eqb_eq in H. subst. reflexivity.
    + apply andb_true_iff in H. destruct H as [H1 H2].
      apply N.eqb_eq in H1. apply nlist_eqb_spec in H2. subst. reflexivity.
  - intros <-. destruct a; cbn; try reflexivity.
    + apply Bool.eqb_reflx.
    + apply Z.eqb_refl.
    + apply N.eqb_refl.
    + apply N.eqb_refl.
    + apply nlist_eqb_spec; reflexivity.
    + apply nlist_eqb_spec; reflexivity.
    + apply Z.eqb_refl.
    + apply Z.eqb_refl.
    + rewrite N.eqb_refl. apply nlist_eqb_spec; reflexivity.
Qed.

(* ------------------------------------------------------------------ induction on views *)
Section ViewInd.
  Variable P : view -> Prop.
  Hypothesis Hs : forall s, P (VScalar s).
  Hypothesis Hm : forall id m, Forall (fun ke => P (fst (snd ke))) m -> P (VMap id m).
  Hypothesis Hl : forall id l, Forall (fun en => P (fst en)) l -> P (VList id l).
  Hypothesis Ht : forall id u, P (VText id u).

  Fixpoint view_ind2 (v : view) : P v :=
    match v with
    | VScalar s => Hs s
    | VMap id m =>
      Hm id m ((fix go (m : vmap) : Forall (fun ke => P (fst (snd ke))) m :=
                  match m with
                  | [] => Forall_nil _
                  | (k, (c, f)) :: t => Forall_cons (k, (c, f)) (view_ind2 c) (go t)
                  end) m)
    | VList id l =>
      Hl id l ((fix go (l : list ventry) : Forall (fun en => P (fst en)) l :=
                  match l with
                  | [] => Forall_nil _
                  | (c, f) :: t => Forall_cons (c, f) (view_ind2 c) (go t)
                  end) l)
    | VText id u => Ht id u
    end.
End ViewInd.

(* ------------------------------------------------------------------ composition (C09) *)
Lemma apply_patches_app e p1 p2 v :
  apply_patches e (p1 ++ p2) v =
  match apply_patches e p1 v with Some v' => apply_patches e p2 v' | None => None end.
Proof.
  revert v. induction p1 as [|p t IH]; intros v; cbn [app apply_patches]; [reflexivity|].
  destruct (apply_patch e v p) as [v'|]; [apply IH|reflexivity].
Qed.

Lemma apply_patches_app_some e p1 p2 v v1 v2 :
  apply_patches e p1 v = Some v1 -> apply_patches e p2 v1 = Some v2 ->
  apply_patches e (p1 ++ p2) v = Some v2.
Proof. intros H1 H2. rewrite apply_patches_app, H1. exact H2. Qed.

(* determinism: the applier is a function; stated for the record *)
Lemma apply_patch_deterministic e v p a b :
  apply_patch e v p = Some a -> apply_patch e v p = Some b -> a = b.
Proof. congruence. Qed.

(* ------------------------------------------------------------------ the node keeps kind and id *)
Lemma apply_action_id e v a v' : apply_action e v a = Some v' -> view_id v' = view_id v.
Proof.
  destruct v as [s|id m|id l|id u]; cbn [apply_action]; [discriminate| | |].
  - destruct a as [k pv c|i pv c|i vs|i x|[k|i] z|[k|i]|k|i n|ms]; try discriminate.
    + intros H; inversion H; reflexivity.
    + destruct (mlookup k m) as [en|]; [|discriminate]. destruct (inc_entry z en); [|discriminate].
      intros H; inversion H; reflexivity.
    + destruct (mlookup k m) as [en|]; [|discriminate]. intros H; inversion H; reflexivity.
    + intros H; inversion H; reflexivity.
  - destruct a as [k pv c|i pv c|i vs|i x|[k|i] z|[k|i]|k|i n|ms]; try discriminate.
    + destruct (get_at i l); [|discriminate]. intros H; inversion H; reflexivity.
    + destruct (insert_at i (map new_entry vs) l); [|discriminate]. intros H; inversion H; reflexivity.
    + destruct (get_at i l) as [en|]; [|discriminate]. destruct (inc_entry z en); [|discriminate].
      intros H; inversion H; reflexivity.
    + destruct (get_at i l) as [en|]; [|discriminate]. intros H; inversion H; reflexivity.
    + destruct (delete_at i n l); [|discriminate]. intros H; inversion H; reflexivity.
    + intros H; inversion H; reflexivity.
  - destruct a as [k pv c|i pv c|i vs|i x|[k|i] z|[k|i]|k|i n|ms]; try discriminate.
    + destruct (delete_at i 1 u) as [u1|]; [|discriminate].
      destruct (insert_at i (pv_units e pv) u1); [|discriminate]. intros H; inversion H; reflexivity.
    + destruct (insert_at i _ u); [|discriminate]. intros H; inversion H; reflexivity.
    + destruct (insert_at i x u); [|discriminate]. intros H; inversion H; reflexivity.
    + destruct (delete_at i n u); [|discriminate]. intros H; inversion H; reflexivity.
    + intros H; inversion H; reflexivity.
Qed.

Fixpoint apply_actions (e : enc) (v : view) (acts : list paction) : option view :=
  match acts with
  | [] => Some v
  | a :: t => match apply_action e v a with Some v' => apply_actions e v' t | None => None end
  end.

Lemma apply_actions_app e v a1 a2 :
  apply_actions e v (a1 ++ a2) =
  match apply_actions e v a1 with Some v' => apply_actions e v' a2 | None => None end.
Proof.
  revert v. induction a1 as [|a t IH]; intros v; cbn [app apply_actions]; [reflexivity|].
  destruct (apply_action e v a); [apply IH|reflexivity].
Qed.

Lemma apply_here e id acts : forall v,
  id_is v id = true ->
  apply_patches e (map (here id) acts) v = apply_actions e v acts.
Proof.
  induction acts as [|a t IH]; intros v Hid; cbn [map apply_patches apply_actions]; [reflexivity|].
  unfold apply_patch. cbn [here p_path p_obj p_action apply_at]. rewrite Hid.
  destruct (apply_action e v a) as [v'|] eqn:E; [|reflexivity].
  apply IH. unfold id_is in *. rewrite (apply_action_id _ _ _ _ E). exact Hid.
Qed.

(* ------------------------------------------------------------------ association lists *)
Section Assoc.
  Context {V : Type}.
  Implicit Types m : list (list N * V).

  Lemma mlookup_mupsert k e m k' :
    mlookup k' (mupsert k e m) = if keqb k' k then Some e else mlookup k' m.
  Proof.
    induction m as [|[k0 e0] t IH]; cbn [mupsert mlookup]; [reflexivity|].
    destruct (bytes_cmp k k0) eqn:C; cbn [mlookup].
    - apply (cmp_eq bytes_cmp_total) in C. subst k0.
      destruct (keqb k' k); reflexivity.
    - reflexivity.
    - rewrite IH. destruct (keqb k' k0) eqn:E0; [|reflexivity].
      apply keqb_spec in E0. subst k0.
      destruct (keqb k' k) eqn:E1; [|reflexivity].
      apply keqb_spec in E1. subst k'. rewrite (cmp_refl _ bytes_cmp_total) in C. discriminate.
  Qed.

  Lemma mlookup_mremove k m k' :
    mlookup k' (mremove k m) = if keqb k' k then None else mlookup k' m.
  Proof.
    induction m as [|[k0 e0] t IH]; cbn [mremove mlookup].
    - destruct (keqb k' k); reflexivity.
    - destruct (keqb k k0) eqn:E.
      + apply keqb_spec in E. subst k0. rewrite IH. destruct (keqb k' k); reflexivity.
      + cbn [mlookup]. rewrite IH. destruct (keqb k' k0) eqn:E0; [|reflexivity].
        apply keqb_spec in E0. subst k0. rewrite keqb_sym, E. reflexivity.
  Qed.

  Lemma mlookup_mset k e m k' :
    mlookup k' (mset k e m) =
    if keqb k' k then match mlookup k m with Some _ => Some e | None => None end else mlookup k' m.
  Proof.
    induction m as [|[k0 e0] t IH]; cbn [mset mlookup].
    - destruct (keqb k' k); reflexivity.
    - destruct (keqb k k0) eqn:E; cbn [mlookup].
      + apply keqb_spec in E. subst k0. destruct (keqb k' k); reflexivity.
      + rewrite IH. destruct (keqb k' k0) eqn:E0; [|reflexivity].
        apply keqb_spec in E0. subst k0. rewrite keqb_sym, E. reflexivity.
  Qed.

  (* keys strictly ascending *)
  Inductive KS : list (list N * V) -> Prop :=
  | KS_nil : KS []
  | KS_cons k e t : (forall k' e', In (k', e') t -> bytes_cmp k k' = Lt) -> KS t -> KS ((k, e) :: t).

  Lemma keys_sorted_KS m : keys_sorted m = true -> KS m.
  Proof.
    induction m as [|[k e] t IH]; cbn [keys_sorted]; intros H; [constructor|].
    apply andb_true_iff in H. destruct H as [H1 H2]. specialize (IH H2).
    constructor; [|exact IH].
    destruct t as [|[k1 e1] t1]; [intros ? ? []|].
    assert (L : bytes_cmp k k1 = Lt) by (unfold ltb in H1; destruct (bytes_cmp k k1); congruence).
    intros k' e' [Hin|Hin]; [inversion Hin; subst; exact L|].
    inversion IH as [|? ? ? Hall _]; subst.
    eapply (cmp_trans bytes_cmp_total); [exact L|]. eapply Hall. exact Hin.
  Qed.

  Lemma mlookup_above k m :
    (forall k' e', In (k', e') m -> bytes_cmp k k' = Lt) -> mlookup k m = None.
  Proof.
    induction m as [|[k0 e0] t IH]; intros H; cbn [mlookup]; [reflexivity|].
    destruct (keqb k k0) eqn:E.
    - apply keqb_spec in E. subst k0. specialize (H k e0 (or_introl eq_refl)).
      rewrite (cmp_refl _ bytes_cmp_total) in H. discriminate.
    - apply IH. intros k' e' Hin. apply (H k' e'). right. exact Hin.
  Qed.

  Lemma mlookup_In k m x : mlookup k m = Some x -> In (k, x) m.
  Proof.
    induction m as [|[k0 e0] t IH]; cbn [mlookup]; [discriminate|].
    destruct (keqb k k0) eqn:E.
    - apply keqb_spec in E. subst. intros H; inversion H; subst. left. reflexivity.
    - intros H. right. apply IH, H.
  Qed.

  Lemma KS_ext m1 : forall m2, KS m1 -> KS m2 -> (forall k, mlookup k m1 = mlookup k m2) -> m1 = m2.
  Proof.
    induction m1 as [|[k1 e1] t1 IH]; intros [|[k2 e2] t2] S1 S2 H.
    - reflexivity.
    - specialize (H k2). cbn [mlookup] in H. rewrite keqb_refl in H. discriminate.
    - specialize (H k1). cbn [mlookup] in H. rewrite keqb_refl in H. discriminate.
    - inversion S1 as [|? ? ? A1 S1']; subst. inversion S2 as [|? ? ? A2 S2']; subst.
      destruct (bytes_cmp k1 k2) eqn:C.
      + apply (cmp_eq bytes_cmp_total) in C. subst k2.
        pose proof (H k1) as H1. cbn [mlookup] in H1. rewrite keqb_refl in H1. inversion H1; subst e2.
        f_equal. apply IH; [exact S1'|exact S2'|].
        intros k. destruct (keqb k k1) eqn:E.
        * apply keqb_spec in E. subst k. rewrite (mlookup_above _ _ A1), (mlookup_above _ _ A2). reflexivity.
        * specialize (H k). cbn [mlookup] in H. rewrite E in H. exact H.
      + exfalso. specialize (H k1). cbn [mlookup] in H. rewrite keqb_refl in H.
        destruct (keqb k1 k2) eqn:E.
        * apply keqb_spec in E. subst. rewrite (cmp_refl _ bytes_cmp_total) in C. discriminate.
        * rewrite mlookup_above in H; [discriminate|].
          intros k' e' Hin. eapply (cmp_trans bytes_cmp_total); [exact C|]. eapply A2, Hin.
      + exfalso. apply (cmp_gt_lt _ bytes_cmp_total) in C.
        specialize (H k2). cbn [mlookup] in H. rewrite keqb_refl in H.
        destruct (keqb k2 k1) eqn:E.
        * apply keqb_spec in E. subst. rewrite (cmp_refl _ bytes_cmp_total) in C. discriminate.
        * rewrite mlookup_above in H; [discriminate|].
          intros k' e' Hin. eapply (cmp_trans bytes_cmp_total); [exact C|]. eapply A1, Hin.
  Qed.

  Lemma In_mupsert k e m k' e' : In (k', e') (mupsert k e m) -> (k' = k /\ e' = e) \/ In (k', e') m.
  Proof.
    induction m as [|[k0 e0] t IH]; cbn [mupsert].
    - intros [H|[]]. inversion H; subst. left; auto.
    - destruct (bytes_cmp k k0).
      + intros [H|H]; [inversion H; subst; left; auto|right; right; exact H].
      + intros [H|H]; [inversion H; subst; left; auto|right; exact H].
      + intros [H|H]; [right; left; exact H|]. apply IH in H. destruct H; [left; auto|right; right; auto].
  Qed.

  Lemma KS_mupsert k e m : KS m -> KS (mupsert k e m).
  Proof.
    induction m as [|[k0 e0] t IH]; intros S; cbn [mupsert].
    - constructor; [intros ? ? []|constructor].
    - inversion S as [|? ? ? A S']; subst. destruct (bytes_cmp k k0) eqn:C.
      + apply (cmp_eq bytes_cmp_total) in C. subst k0. constructor; assumption.
      + constructor; [|exact S]. intros k' e' [H|H]; [inversion H; subst; exact C|].
        eapply (cmp_trans bytes_cmp_total); [exact C|]. eapply A, H.
      + constructor; [|apply IH, S']. intros k' e' H. apply In_mupsert in H.
        destruct H as [[-> ->]|H]; [apply (cmp_gt_lt _ bytes_cmp_total), C|eapply A, H].
  Qed.

  Lemma In_mremove k m k' e' : In (k', e') (mremove k m) -> In (k', e') m.
  Proof.
    induction m as [|[k0 e0] t IH]; cbn [mremove]; [auto|].
    destruct (keqb k k0); [intros H; right; apply IH, H|].
    intros [H|H]; [left; exact H|right; apply IH, H].
  Qed.

  Lemma KS_mremove k m : KS m -> KS (mremove k m).
  Proof.
    induction m as [|[k0 e0] t IH]; intros S; cbn [mremove]; [constructor|].
    inversion S as [|? ? ? A S']; subst. destruct (keqb k k0); [apply IH, S'|].
    constructor; [|apply IH, S']. intros k' e' H. eapply A, In_mremove, H.
  Qed.

  Lemma In_mset_key k e m k' e' : In (k', e') (mset k e m) -> exists e'', In (k', e'') m.
  Proof.
    induction m as [|[k0 e0] t IH]; cbn [mset]; [intros []|].
    destruct (keqb k k0).
    - intros [H|H]; [inversion H; subst; exists e0; left; reflexivity|exists e'; right; exact H].
    - intros [H|H]; [exists e'; left; exact H|]. apply IH in H. destruct H as [x H]. exists x. right. exact H.
  Qed.

  Lemma KS_mset k e m : KS m -> KS (mset k e m).
  Proof.
    induction m as [|[k0 e0] t IH]; intros S; cbn [mset]; [constructor|].
    inversion S as [|? ? ? A S']; subst. destruct (keqb k k0).
    - constructor; assumption.
    - constructor; [|apply IH, S']. intros k' e' H. apply In_mset_key in H. destruct H as [x H]. eapply A, H.
  Qed.

  (* positional facts used for the children phase *)
  Lemma mlookup_app_none k m1 m2 : mlookup k m1 = None -> mlookup k (m1 ++ m2) = mlookup k m2.
  Proof.
    induction m1 as [|[k0 e0] t IH]; cbn [app mlookup]; [reflexivity|].
    destruct (keqb k k0); [discriminate|]. exact IH.
  Qed.

  Lemma mset_app_none k e m1 m2 : mlookup k m1 = None -> mset k e (m1 ++ m2) = m1 ++ mset k e m2.
  Proof.
    induction m1 as [|[k0 e0] t IH]; cbn [app mset mlookup]; [reflexivity|].
    destruct (keqb k k0); [discriminate|]. intros H. rewrite IH by exact H. reflexivity.
  Qed.

  Lemma KS_app_lookup_none pre k x t : KS (pre ++ (k, x) :: t) -> mlookup k pre = None.
  Proof.
    induction pre as [|[k0 e0] p IH]; cbn [app mlookup]; intros S; [reflexivity|].
    inversion S as [|? ? ? A S']; subst.
    destruct (keqb k k0) eqn:E.
    - apply keqb_spec in E. subst k0.
      assert (bytes_cmp k k = Lt) by (eapply A; apply in_or_app; right; left; reflexivity).
      rewrite (cmp_refl _ bytes_cmp_total) in H. discriminate.
    - apply IH, S'.
  Qed.

  Lemma mset_mset k e1 e2 m : mset k e2 (mset k e1 m) = mset k e2 m.
  Proof.
    induction m as [|[k0 e0] t IH]; cbn [mset]; [reflexivity|].
    destruct (keqb k k0) eqn:E; cbn [mset]; rewrite E; [reflexivity|]. rewrite IH. reflexivity.
  Qed.

  Lemma mset_same k e m : mlookup k m = Some e -> mset k e m = m.
  Proof.
    induction m as [|[k0 e0] t IH]; cbn [mset mlookup]; [reflexivity|].
    destruct (keqb k k0); [intros H; inversion H; reflexivity|]. intros H. rewrite IH by exact H. reflexivity.
  Qed.
End Assoc.

(* ------------------------------------------------------------------ sequences *)
Section Seq.
  Context {A : Type}.
  Implicit Types l pre : list A.

  Lemma get_at_app pre x t : get_at (N.of_nat (length pre)) (pre ++ x :: t) = Some x.
  Proof.
    unfold get_at. rewrite app_length. cbn [length].
    destruct (N.ltb_spec (N.of_nat (length pre)) (N.of_nat (length pre + S (length t)))) as [_|H]; [|lia].
    rewrite Nnat.Nat2N.id, nth_error_app2 by lia. rewrite Nat.sub_diag. reflexivity.
  Qed.

  Lemma set_at_app pre x y t : set_at (N.of_nat (length pre)) y (pre ++ x :: t) = pre ++ y :: t.
  Proof.
    unfold set_at. rewrite Nnat.Nat2N.id.
    rewrite firstn_app, firstn_all, Nat.sub_diag. cbn [firstn]. rewrite app_nil_r.
    rewrite skipn_app. replace (S (length pre) - length pre)%nat with 1%nat by lia.
    rewrite skipn_all2 by lia. reflexivity.
  Qed.

  Lemma insert_at_end pre xs : insert_at (N.of_nat (length pre)) xs pre = Some (pre ++ xs).
  Proof.
    unfold insert_at. rewrite N.leb_refl, Nnat.Nat2N.id, firstn_all, skipn_all, app_nil_r. reflexivity.
  Qed.

  Lemma delete_at_tail pre l :
    delete_at (N.of_nat (length pre)) (N.of_nat (length l)) (pre ++ l) = Some pre.
  Proof.
    unfold delete_at. rewrite app_length.
    destruct (N.leb_spec (N.of_nat (length pre) + N.of_nat (length l)) (N.of_nat (length pre + length l))) as [_|H]; [|lia].
    rewrite Nnat.Nat2N.id, firstn_app, firstn_all, Nat.sub_diag. cbn [firstn]. rewrite app_nil_r.
    replace (N.to_nat (N.of_nat (length pre) + N.of_nat (length l))) with (length (pre ++ l))
      by (rewrite app_length; lia).
    rewrite skipn_all, app_nil_r. reflexivity.
  Qed.
End Seq.

(* ------------------------------------------------------------------ shells *)
Lemma same_shell_id a b : same_shell a b = true -> view_id a = view_id b.
Proof.
  destruct a, b; cbn; try discriminate; intros H; try (apply opid_eqb_spec in H; subst); reflexivity.
Qed.

Lemma same_shell_empty_like c : same_shell (empty_like c) c = true.
Proof.
  destruct c as [s|id m|id l|id u]; cbn; try apply opid_eqb_refl. apply scalar_eqb_spec. reflexivity.
Qed.

Lemma wf_node_empty_like c : wf_node (empty_like c) = true.
Proof. destruct c; reflexivity. Qed.

Lemma wf_node_map id m :
  wf_node (VMap id m) = true <->
  keys_sorted m = true /\ Forall (fun ke => wf_node (fst (snd ke)) = true) m.
Proof.
  cbn [wf_node]. rewrite andb_true_iff.
  assert (G : (fix all (m0 : vmap) : bool :=
                 match m0 with [] => true | (_, (c, _)) :: t => wf_node c && all t end) m = true
              <-> Forall (fun ke => wf_node (fst (snd ke)) = true) m).
  { induction m as [|[k [c f]] t IH]; [split; [constructor|reflexivity]|].
    rewrite andb_true_iff, IH. split.
    - intros [H1 H2]. constructor; assumption.
    - intros H. inversion H; subst. split; assumption. }
  rewrite G. reflexivity.
Qed.

Lemma wf_node_list id l :
  wf_node (VList id l) = true <-> Forall (fun en => wf_node (fst en) = true) l.
Proof.
  cbn [wf_node].
  induction l as [|[c f] t IH]; [split; [constructor|reflexivity]|].
  rewrite andb_true_iff, IH. split.
  - intros [H1 H2]. constructor; assumption.
  - intros H. inversion H; subst. split; assumption.
Qed.

(* what the register holds after its actions *)
Lemma base_same_shell old c2 f2 : same_shell (base_of old c2 f2) c2 = true.
Proof.
  unfold base_of. destruct (keeps old c2 f2) eqn:K; [|apply same_shell_empty_like].
  destruct old as [[c1 f1]|]; [|discriminate]. cbn [keeps] in K.
  apply andb_true_iff in K. apply K.
Qed.

Lemma base_scalar old s f2 : base_of old (VScalar s) f2 = VScalar s.
Proof.
  pose proof (base_same_shell old (VScalar s) f2) as H.
  destruct (base_of old (VScalar s) f2); cbn in H; try discriminate.
  apply scalar_eqb_spec in H. subst. reflexivity.
Qed.

(* ------------------------------------------------------------------ one register of a map *)
Lemma map_entry_actions e id k old c2 f2 m :
  mlookup k m = old ->
  exists m',
    apply_actions e (VMap id m) (entry_actions (PMap k) old c2 f2) = Some (VMap id m') /\
    mlookup k m' = Some (base_of old c2 f2, f2) /\
    (forall k', k' <> k -> mlookup k' m' = mlookup k' m) /\
    (KS m -> KS m').
Proof.
  intros Hold. unfold entry_actions, base_of.
  destruct (keeps old c2 f2) eqn:K.
  - destruct old as [[c1 f1]|]; [|discriminate]. cbn [keeps] in K.
    apply andb_true_iff in K. destruct K as [_ Kf]. cbn [flag_patch].
    destruct (negb f1 && f2) eqn:F.
    + cbn [apply_actions apply_action]. rewrite Hold. cbn [fst].
      exists (mset k (c1, true) m). split; [reflexivity|].
      assert (f2 = true) by (destruct f1, f2; cbn in F; congruence). subst f2.
      split; [rewrite mlookup_mset, keqb_refl, Hold; reflexivity|]. split.
      * intros k' Hk. rewrite mlookup_mset. apply keqb_false in Hk. rewrite Hk. reflexivity.
      * apply KS_mset.
    + cbn [apply_actions]. exists m. split; [reflexivity|].
      assert (f1 = f2) by (destruct f1, f2; cbn in F, Kf; congruence). subst f2.
      split; [exact Hold|]. split; auto.
  - destruct (increments old c2 f2) as [d|] eqn:I.
    + destruct old as [[c1 f1]|]; [|discriminate]. cbn [increments] in I.
      destruct (implb f1 f2) eqn:Kf; [|discriminate].
      destruct c1 as [[| | | | | | |x| |]| | |]; try discriminate.
      destruct c2 as [[| | | | | | |y| |]| | |]; try discriminate.
      cbn [counter_delta] in I. inversion I; subst d. clear I.
      cbn [apply_actions apply_action]. rewrite Hold. cbn [inc_entry].
      replace (x + (y - x))%Z with y by lia.
      cbn [flag_patch empty_like pv_of new_view].
      destruct (negb f1 && f2) eqn:F.
      * cbn [apply_actions apply_action]. rewrite mlookup_mset, keqb_refl, Hold. cbn [fst].
        rewrite mset_mset.
        exists (mset k (VScalar (SCounter y), true) m). split; [reflexivity|].
        assert (f2 = true) by (destruct f1, f2; cbn in F; congruence). subst f2.
        split; [rewrite mlookup_mset, keqb_refl, Hold; reflexivity|]. split.
        -- intros k' Hk. rewrite mlookup_mset. apply keqb_false in Hk. rewrite Hk. reflexivity.
        -- apply KS_mset.
      * cbn [apply_actions].
        exists (mset k (VScalar (SCounter y), f1) m). split; [reflexivity|].
        assert (f1 = f2) by (destruct f1, f2; cbn in F, Kf; congruence). subst f2.
        split; [rewrite mlookup_mset, keqb_refl, Hold; reflexivity|]. split.
        -- intros k' Hk. rewrite mlookup_mset. apply keqb_false in Hk. rewrite Hk. reflexivity.
        -- apply KS_mset.
    + cbn [put_action apply_actions apply_action].
      exists (mupsert k (new_view (pv_of c2), f2) m). split; [reflexivity|].
      split; [rewrite mlookup_mupsert, keqb_refl; reflexivity|]. split.
      * intros k' Hk. rewrite mlookup_mupsert. apply keqb_false in Hk. rewrite Hk. reflexivity.
      * apply KS_mupsert.
Qed.

(* ------------------------------------------------------------------ the node's own actions: maps *)
Definition kin (k : list N) (ks : list (list N)) : bool := existsb (keqb k) ks.

Lemma map_dels e id ks : forall m,
  exists m',
    apply_actions e (VMap id m) (map DeleteMap ks) = Some (VMap id m') /\
    (forall k, mlookup k m' = if kin k ks then None else mlookup k m) /\
    (KS m -> KS m').
Proof.
  induction ks as [|k0 t IH]; intros m; cbn [map apply_actions apply_action].
  - exists m. split; [reflexivity|]. split; [intros k; reflexivity|auto].
  - destruct (IH (mremove k0 m)) as [m' [A [L S]]]. exists m'. split; [exact A|]. split.
    + intros k. rewrite L, mlookup_mremove. unfold kin. cbn [existsb].
      destruct (keqb k k0); cbn [orb]; [destruct (existsb (keqb k) t); reflexivity|reflexivity].
    + intros H. apply S, KS_mremove, H.
Qed.

Lemma In_keys_lookup {V} k (m : list (list N * V)) : In k (map fst m) -> mlookup k m <> None.
Proof.
  induction m as [|[k0 e0] t IH]; cbn [map fst In mlookup]; [intros []|].
  intros [H|H].
  - subst. rewrite keqb_refl. discriminate.
  - destruct (keqb k k0); [discriminate|]. apply IH, H.
Qed.

Lemma lookup_In_keys {V} k (m : list (list N * V)) x : mlookup k m = Some x -> In k (map fst m).
Proof. intros H. apply mlookup_In in H. apply (in_map fst) in H. exact H. Qed.

Lemma KS_NoDup {V} (m : list (list N * V)) : KS m -> NoDup (map fst m).
Proof.
  induction 1 as [|k e t A S IH]; cbn [map fst]; constructor; [|exact IH].
  intros Hin. apply in_map_iff in Hin. destruct Hin as [[k' e'] [E Hin]]. cbn in E. subst k'.
  specialize (A k e' Hin). rewrite (cmp_refl _ bytes_cmp_total) in A. discriminate.
Qed.

Definition entry_acts_of (m1 : vmap) (ke : list N * ventry) : list paction :=
  entry_actions (PMap (fst ke)) (mlookup (fst ke) m1) (fst (snd ke)) (snd (snd ke)).

Lemma map_puts e id m1 es : forall m,
  NoDup (map fst es) ->
  (forall k, In k (map fst es) -> mlookup k m = mlookup k m1) ->
  exists m',
    apply_actions e (VMap id m) (flat_map (entry_acts_of m1) es) = Some (VMap id m') /\
    (forall k c2 f2, In (k, (c2, f2)) es -> mlookup k m' = Some (base_of (mlookup k m1) c2 f2, f2)) /\
    (forall k, ~ In k (map fst es) -> mlookup k m' = mlookup k m) /\
    (KS m -> KS m').
Proof.
  induction es as [|[k [c2 f2]] t IH]; intros m ND Hm; cbn [flat_map].
  - exists m. split; [reflexivity|]. split; [intros ? ? ? []|]. split; auto.
  - cbn [map fst] in ND. inversion ND as [|? ? Hnk ND']; subst.
    unfold entry_acts_of at 1. cbn [fst snd].
    destruct (map_entry_actions e id k (mlookup k m1) c2 f2 m) as [ma [A [La [Lo Sa]]]].
    { apply Hm. left. reflexivity. }
    destruct (IH ma ND') as [m' [A' [L' [Lo' S']]]].
    { intros k' Hin. rewrite Lo; [apply Hm; right; exact Hin|]. intros ->. contradiction. }
    exists m'. split; [rewrite apply_actions_app, A; exact A'|]. split; [|split].
    + intros k' c' f' [H|H].
      * inversion H; subst. rewrite Lo' by exact Hnk. exact La.
      * apply L', H.
    + intros k' Hn. cbn [map fst In] in Hn. rewrite Lo'; [|tauto]. apply Lo. intros ->. tauto.
    + intros H. apply S', Sa, H.
Qed.

Definition mid_entry (m1 : vmap) (ke : list N * ventry) : list N * ventry :=
  (fst ke, (base_of (mlookup (fst ke) m1) (fst (snd ke)) (snd (snd ke)), snd (snd ke))).
Definition mid_map (m1 m2 : vmap) : vmap := map (mid_entry m1) m2.

Lemma mlookup_mid m1 m2 k :
  mlookup k (mid_map m1 m2) =
  match mlookup k m2 with
  | Some (c2, f2) => Some (base_of (mlookup k m1) c2 f2, f2)
  | None => None
  end.
Proof.
  unfold mid_map. induction m2 as [|[k0 [c f]] t IH]; cbn [map mlookup mid_entry fst snd]; [reflexivity|].
  destruct (keqb k k0) eqn:E; [|exact IH]. apply keqb_spec in E. subst. reflexivity.
Qed.

Lemma KS_mid m1 m2 : KS m2 -> KS (mid_map m1 m2).
Proof.
  unfold mid_map. induction 1 as [|k en t A S IH]; cbn [map]; [constructor|].
  unfold mid_entry at 1. cbn [fst snd]. constructor; [|exact IH].
  intros k' e' Hin. apply in_map_iff in Hin. destruct Hin as [[k1 e1] [E Hin]].
  unfold mid_entry in E. cbn [fst snd] in E. inversion E; subst. eapply A, Hin.
Qed.

Lemma kin_dkeys m1 m2 k : kin k (dkeys m1 m2) = true -> mlookup k m2 = None.
Proof.
  unfold kin, dkeys. intros H. apply existsb_exists in H. destruct H as [k' [Hin E]].
  apply keqb_spec in E. subst k'. apply in_flat_map in Hin. destruct Hin as [[k0 e0] [_ Hin]].
  cbn [fst] in Hin. destruct (mlookup k0 m2) eqn:L; [destruct Hin|].
  destruct Hin as [<-|[]]. exact L.
Qed.

Lemma dkeys_kin m1 m2 k x : In (k, x) m1 -> mlookup k m2 = None -> kin k (dkeys m1 m2) = true.
Proof.
  intros Hin L. unfold kin, dkeys. apply existsb_exists. exists k. split; [|apply keqb_refl].
  apply in_flat_map. exists (k, x). split; [exact Hin|]. cbn [fst]. rewrite L. left. reflexivity.
Qed.

Lemma map_shallow e id m1 m2 :
  KS m1 -> KS m2 ->
  apply_actions e (VMap id m1) (map_actions m1 m2) = Some (VMap id (mid_map m1 m2)).
Proof.
  intros S1 S2. unfold map_actions. rewrite apply_actions_app.
  destruct (map_dels e id (dkeys m1 m2) m1) as [md [A [L S]]]. rewrite A.
  destruct (map_puts e id m1 m2 md (KS_NoDup _ S2)) as [m' [A' [L' [Lo' S']]]].
  { intros k Hin. rewrite L. destruct (kin k (dkeys m1 m2)) eqn:K; [|reflexivity].
    apply kin_dkeys in K. apply In_keys_lookup in Hin. contradiction. }
  fold (entry_acts_of m1). rewrite A'. do 2 f_equal.
  apply KS_ext; [apply S', S, S1|apply KS_mid, S2|].
  intros k. rewrite mlookup_mid. destruct (mlookup k m2) as [[c2 f2]|] eqn:E2.
  - apply L'. apply mlookup_In, E2.
  - rewrite Lo'.
    + rewrite L. destruct (kin k (dkeys m1 m2)) eqn:K; [reflexivity|].
      destruct (mlookup k m1) as [x|] eqn:E1; [|reflexivity].
      apply mlookup_In in E1. rewrite (dkeys_kin _ _ _ _ E1 E2) in K. discriminate.
    + intros Hin. apply In_keys_lookup in Hin. contradiction.
Qed.

(* ------------------------------------------------------------------ the node's own actions: lists *)
Lemma list_entry_actions e id pre en1 t c2 f2 :
  apply_actions e (VList id (pre ++ en1 :: t))
                (entry_actions (PSeq (N.of_nat (length pre))) (Some en1) c2 f2)
  = Some (VList id (pre ++ (base_of (Some en1) c2 f2, f2) :: t)).
Proof.
  destruct en1 as [c1 f1]. unfold entry_actions, base_of.
  destruct (keeps (Some (c1, f1)) c2 f2) eqn:K.
  - cbn [keeps] in K. apply andb_true_iff in K. destruct K as [_ Kf]. cbn [flag_patch].
    destruct (negb f1 && f2) eqn:F.
    + cbn [apply_actions apply_action]. rewrite get_at_app, set_at_app. cbn [fst].
      assert (f2 = true) by (destruct f1, f2; cbn in F; congruence). subst f2. reflexivity.
    + cbn [apply_actions].
      assert (f1 = f2) by (destruct f1, f2; cbn in F, Kf; congruence). subst f2. reflexivity.
  - destruct (increments (Some (c1, f1)) c2 f2) as [d|] eqn:I.
    + cbn [increments] in I. destruct (implb f1 f2) eqn:Kf; [|discriminate].
      destruct c1 as [[| | | | | | |x| |]| | |]; try discriminate.
      destruct c2 as [[| | | | | | |y| |]| | |]; try discriminate.
      cbn [counter_delta] in I. inversion I; subst d. clear I.
      cbn [apply_actions apply_action]. rewrite get_at_app. cbn [inc_entry].
      replace (x + (y - x))%Z with y by lia. rewrite set_at_app.
      cbn [flag_patch empty_like pv_of new_view].
      destruct (negb f1 && f2) eqn:F.
      * cbn [apply_actions apply_action]. rewrite get_at_app, set_at_app. cbn [fst].
        assert (f2 = true) by (destruct f1, f2; cbn in F; congruence). subst f2. reflexivity.
      * cbn [apply_actions].
        assert (f1 = f2) by (destruct f1, f2; cbn in F, Kf; congruence). subst f2. reflexivity.
    + cbn [put_action apply_actions apply_action]. rewrite get_at_app, set_at_app. reflexivity.
Qed.

Fixpoint lmid (l1 l2 : list ventry) : list ventry :=
  match l2 with
  | [] => []
  | en2 :: t2 => (base_of (hd_error l1) (fst en2) (snd en2), snd en2) :: lmid (tl l1) t2
  end.

Lemma lmid_nil l2 :
  lmid [] l2 = map new_entry (map (fun en => (pv_of (fst en), snd en)) l2).
Proof.
  induction l2 as [|[c f] t IH]; cbn [lmid map hd_error tl fst snd]; [reflexivity|].
  rewrite IH. reflexivity.
Qed.

Lemma len_snoc {A} (pre : list A) x : N.of_nat (length pre) + 1 = N.of_nat (length (pre ++ [x])).
Proof. rewrite app_length. cbn [length]. lia. Qed.

Lemma list_shallow e id l2 : forall l1 pre,
  apply_actions e (VList id (pre ++ l1)) (list_actions (N.of_nat (length pre)) l1 l2)
  = Some (VList id (pre ++ lmid l1 l2)).
Proof.
  induction l2 as [|en2 t2 IH]; intros l1 pre.
  - destruct l1 as [|en1 t1]; cbn [list_actions lmid].
    + reflexivity.
    + cbn [apply_actions apply_action]. rewrite delete_at_tail, app_nil_r. reflexivity.
  - destruct l1 as [|en1 t1]; cbn [list_actions].
    + cbn [apply_actions apply_action]. rewrite app_nil_r, insert_at_end, lmid_nil. reflexivity.
    + rewrite apply_actions_app, list_entry_actions. cbn [lmid hd_error tl].
      rewrite (len_snoc pre (base_of (Some en1) (fst en2) (snd en2), snd en2)).
      replace (pre ++ (base_of (Some en1) (fst en2) (snd en2), snd en2) :: t1)
        with ((pre ++ [(base_of (Some en1) (fst en2) (snd en2), snd en2)]) ++ t1)
        by (rewrite <- app_assoc; reflexivity).
      rewrite IH. rewrite <- app_assoc. reflexivity.
Qed.

(* ------------------------------------------------------------------ texts *)
Lemma text_apply e id u1 u2 :
  apply_actions e (VText id u1) (text_actions u1 u2) = Some (VText id u2).
Proof.
  unfold text_actions. destruct (nlist_eqb u1 u2) eqn:E.
  - apply nlist_eqb_spec in E. subst. reflexivity.
  - assert (D : forall u, apply_actions e (VText id u)
                 (match u with [] => [] | _ :: _ => [DeleteSeq 0 (N.of_nat (length u))] end)
               = Some (VText id [])).
    { intros [|x t]; [reflexivity|]. cbn [apply_actions apply_action].
      pose proof (delete_at_tail (@nil N) (x :: t)) as H. cbn [app] in H.
      change (N.of_nat (length (@nil N))) with 0 in H. rewrite H. reflexivity. }
    rewrite apply_actions_app, D. destruct u2 as [|y t]; [reflexivity|].
    cbn [apply_actions apply_action].
    pose proof (insert_at_end (@nil N) (y :: t)) as H. cbn [app] in H.
    change (N.of_nat (length (@nil N))) with 0 in H. rewrite H. reflexivity.
Qed.

(* ------------------------------------------------------------------ patches of a child *)
Lemma apply_push_map e id k ps : forall m c f c',
  mlookup k m = Some (c, f) -> apply_patches e ps c = Some c' ->
  apply_patches e (map (push_step (id, PMap k)) ps) (VMap id m) = Some (VMap id (mset k (c', f) m)).
Proof.
  induction ps as [|p t IH]; intros m c f c' L A; cbn [map apply_patches] in *.
  - inversion A; subst. rewrite mset_same by exact L. reflexivity.
  - destruct (apply_patch e c p) as [c1|] eqn:E; [|discriminate].
    unfold apply_patch at 1. cbn [push_step p_path p_obj p_action apply_at].
    unfold id_is at 1. cbn [view_id]. rewrite opid_eqb_refl, L.
    unfold apply_patch in E. rewrite E.
    rewrite (IH (mset k (c1, f) m) c1 f c'); [|rewrite mlookup_mset, keqb_refl, L; reflexivity|exact A].
    rewrite mset_mset. reflexivity.
Qed.

Lemma apply_push_list e id ps : forall pre c f t c',
  apply_patches e ps c = Some c' ->
  apply_patches e (map (push_step (id, PSeq (N.of_nat (length pre)))) ps) (VList id (pre ++ (c, f) :: t))
  = Some (VList id (pre ++ (c', f) :: t)).
Proof.
  induction ps as [|p r IH]; intros pre c f t c' A; cbn [map apply_patches] in *.
  - inversion A; subst. reflexivity.
  - destruct (apply_patch e c p) as [c1|] eqn:E; [|discriminate].
    unfold apply_patch at 1. cbn [push_step p_path p_obj p_action apply_at].
    unfold id_is at 1. cbn [view_id]. rewrite opid_eqb_refl, get_at_app.
    unfold apply_patch in E. rewrite E, set_at_app.
    apply IH, A.
Qed.

(* ------------------------------------------------------------------ diff_apply *)
Definition Pdiff (e : enc) (v2 : view) : Prop :=
  forall v1, same_shell v1 v2 = true -> wf_node v1 = true -> wf_node v2 = true ->
  apply_patches e (diff v1 v2) v1 = Some v2.

Lemma wf_base old c2 f2 :
  (forall c1 f1, old = Some (c1, f1) -> wf_node c1 = true) -> wf_node (base_of old c2 f2) = true.
Proof.
  intros H. unfold base_of. destruct (keeps old c2 f2) eqn:K; [|apply wf_node_empty_like].
  destruct old as [[c1 f1]|]; [|discriminate]. eapply H. reflexivity.
Qed.

Lemma map_children_apply e id m1 rest : forall pre,
  Forall (fun ke => wf_node (fst (snd ke)) = true) m1 ->
  Forall (fun ke => Pdiff e (fst (snd ke))) rest ->
  Forall (fun ke => wf_node (fst (snd ke)) = true) rest ->
  KS (pre ++ rest) ->
  apply_patches e (map_children diff id m1 rest) (VMap id (pre ++ mid_map m1 rest))
  = Some (VMap id (pre ++ rest)).
Proof.
  induction rest as [|[k [c2 f2]] t IH]; intros pre W1 HP W2 S; cbn [map_children flat_map mid_map map].
  - reflexivity.
  - inversion HP as [|? ? P1 HP']; subst. inversion W2 as [|? ? Wc W2']; subst. cbn [fst snd] in *.
    unfold mid_entry at 1. cbn [fst snd].
    set (b := base_of (mlookup k m1) c2 f2).
    assert (Hb : apply_patches e (diff b c2) b = Some c2).
    { apply P1; [apply base_same_shell| |exact Wc].
      apply wf_base. intros c1 f1 E. apply mlookup_In in E.
      rewrite Forall_forall in W1. apply (W1 _ E). }
    pose proof (KS_app_lookup_none _ _ _ _ S) as Hn.
    apply apply_patches_app_some with (v1 := VMap id (pre ++ (k, (c2, f2)) :: mid_map m1 t)).
    + rewrite (apply_push_map e id k _ _ b f2 c2);
        [|rewrite mlookup_app_none by exact Hn; cbn [mlookup]; rewrite keqb_refl; reflexivity|exact Hb].
      rewrite mset_app_none by exact Hn. cbn [mset]. rewrite keqb_refl. reflexivity.
    + replace (pre ++ (k, (c2, f2)) :: mid_map m1 t) with ((pre ++ [(k, (c2, f2))]) ++ mid_map m1 t)
        by (rewrite <- app_assoc; reflexivity).
      replace (pre ++ (k, (c2, f2)) :: t) with ((pre ++ [(k, (c2, f2))]) ++ t)
        by (rewrite <- app_assoc; reflexivity).
      apply IH; [exact W1|exact HP'|exact W2'|]. rewrite <- app_assoc. exact S.
Qed.

Lemma list_children_apply e id rest : forall l1 pre,
  Forall (fun en => wf_node (fst en) = true) l1 ->
  Forall (fun en => Pdiff e (fst en)) rest ->
  Forall (fun en => wf_node (fst en) = true) rest ->
  apply_patches e (list_children diff id (N.of_nat (length pre)) l1 rest) (VList id (pre ++ lmid l1 rest))
  = Some (VList id (pre ++ rest)).
Proof.
  induction rest as [|[c2 f2] t IH]; intros l1 pre W1 HP W2; cbn [list_children lmid].
  - reflexivity.
  - inversion HP as [|? ? P1 HP']; subst. inversion W2 as [|? ? Wc W2']; subst. cbn [fst snd] in *.
    set (b := base_of (hd_error l1) c2 f2).
    assert (Hb : apply_patches e (diff b c2) b = Some c2).
    { apply P1; [apply base_same_shell| |exact Wc].
      apply wf_base. intros c1 f1 E. destruct l1 as [|x l1']; [discriminate|].
      cbn [hd_error] in E. inversion E; subst. inversion W1; subst. assumption. }
    apply apply_patches_app_some with (v1 := VList id (pre ++ (c2, f2) :: lmid (tl l1) t)).
    + apply apply_push_list, Hb.
    + rewrite (len_snoc pre (c2, f2)).
      replace (pre ++ (c2, f2) :: lmid (tl l1) t) with ((pre ++ [(c2, f2)]) ++ lmid (tl l1) t)
        by (rewrite <- app_assoc; reflexivity).
      replace (pre ++ (c2, f2) :: t) with ((pre ++ [(c2, f2)]) ++ t)
        by (rewrite <- app_assoc; reflexivity).
      apply IH; [|exact HP'|exact W2']. destruct l1; [constructor|]. inversion W1; assumption.
Qed.

Theorem diff_apply_node e : forall v2, Pdiff e v2.
Proof.
  induction v2 as [s|id m2 IH|id l2 IH|id u2] using view_ind2; intros v1 SS W1 W2.
  - destruct v1; cbn in SS; try discriminate. apply scalar_eqb_spec in SS. subst. reflexivity.
  - destruct v1 as [|id1 m1| |]; cbn in SS; try discriminate. apply opid_eqb_spec in SS. subst id1.
    apply wf_node_map in W1. destruct W1 as [K1 F1]. apply wf_node_map in W2. destruct W2 as [K2 F2].
    apply keys_sorted_KS in K1. apply keys_sorted_KS in K2.
    cbn [diff map_of].
    apply apply_patches_app_some with (v1 := VMap id (mid_map m1 m2)).
    + rewrite apply_here; [apply map_shallow; assumption|].
      unfold id_is. cbn [view_id]. apply opid_eqb_refl.
    + apply (map_children_apply e id m1 m2 []); assumption.
  - destruct v1 as [| |id1 l1|]; cbn in SS; try discriminate. apply opid_eqb_spec in SS. subst id1.
    apply wf_node_list in W1. apply wf_node_list in W2.
    cbn [diff list_of].
    apply apply_patches_app_some with (v1 := VList id (lmid l1 l2)).
    + rewrite apply_here; [apply (list_shallow e id l2 l1 [])|].
      unfold id_is. cbn [view_id]. apply opid_eqb_refl.
    + apply (list_children_apply e id l2 l1 []); assumption.
  - destruct v1 as [| | |id1 u1]; cbn in SS; try discriminate. apply opid_eqb_spec in SS. subst id1.
    cbn [diff text_of_view]. rewrite apply_here; [apply text_apply|].
    unfold id_is. cbn [view_id]. apply opid_eqb_refl.
Qed.

Theorem diff_apply e v1 v2 : wf_view v1 -> wf_view v2 -> apply_patches e (diff v1 v2) v1 = Some v2.
Proof.
  intros [W1 [m1 ->]] [W2 [m2 ->]]. apply diff_apply_node; [|exact W1|exact W2].
  cbn [same_shell]. apply opid_eqb_refl.
Qed.

Lemma wf_viewb_spec v : wf_viewb v = true <-> wf_view v.
Proof.
  unfold wf_viewb, wf_view. split.
  - intros H. apply andb_true_iff in H. destruct H as [H1 H2]. split; [exact H1|].
    destruct v; try discriminate. apply opid_eqb_spec in H2. subst. eexists. reflexivity.
  - intros [H1 [m ->]]. rewrite H1. reflexivity.
Qed.

Theorem diff_roundtrip e v1 v2 v : wf_view v1 -> wf_view v2 ->
  apply_patches e (diff v1 v2) v1 = Some v -> apply_patches e (diff v2 v1) v = Some v1.
Proof.
  intros W1 W2 H. rewrite (diff_apply e v1 v2 W1 W2) in H. inversion H; subst. apply diff_apply; assumption.
Qed.

(* ------------------------------------------------------------------ frame *)
Lemma nth_error_set {A} (y : A) : forall l n j, (n < length l)%nat ->
  nth_error (firstn n l ++ y :: skipn (S n) l) j = if (j =? n)%nat then Some y else nth_error l j.
Proof.
  induction l as [|x t IH]; intros n j Hn; [cbn in Hn; lia|].
  destruct n as [|n].
  - cbn [firstn skipn app]. destruct j; reflexivity.
  - cbn [firstn app]. change (skipn (S (S n)) (x :: t)) with (skipn (S n) t).
    destruct j as [|j]; [reflexivity|]. cbn [nth_error]. cbn [length] in Hn.
    rewrite IH by lia. reflexivity.
Qed.

Lemma set_at_length {A} i (y : A) l : i < N.of_nat (length l) -> length (set_at i y l) = length l.
Proof.
  intros H. unfold set_at. rewrite app_length, firstn_length_le by lia. cbn [length].
  rewrite skipn_length. lia.
Qed.

Lemma get_at_lt {A} i (l : list A) x : get_at i l = Some x -> i < N.of_nat (length l).
Proof. unfold get_at. destruct (N.ltb_spec i (N.of_nat (length l))); [auto|discriminate]. Qed.

Lemma get_at_set_at {A} i j (y : A) l : i < N.of_nat (length l) ->
  get_at j (set_at i y l) = if j =? i then Some y else get_at j l.
Proof.
  intros H. unfold get_at. rewrite set_at_length by exact H. unfold set_at.
  destruct (N.ltb_spec j (N.of_nat (length l))) as [Hj|Hj].
  - rewrite nth_error_set by lia.
    destruct (N.eqb_spec j i) as [->|Hne].
    + rewrite Nat.eqb_refl. reflexivity.
    + destruct (Nat.eqb_spec (N.to_nat j) (N.to_nat i)) as [E|_]; [|reflexivity].
      apply Nnat.N2Nat.inj in E. contradiction.
  - destruct (N.eqb_spec j i) as [->|_]; [lia|reflexivity].
Qed.

Lemma apply_at_frame e : forall pre path obj a v v' f x y q' path',
  apply_at e path obj a v = Some v' ->
  map snd path = pre ++ y :: path' -> x <> y ->
  subentry (v', f) (pre ++ x :: q') = subentry (v, f) (pre ++ x :: q').
Proof.
  induction pre as [|p0 pre IH]; intros path obj a v v' f x y q' path' H Hp Hne.
  - destruct path as [|[pid pr] rest]; [discriminate|]. cbn [map snd app] in Hp.
    inversion Hp; subst pr. clear Hp. cbn [apply_at] in H.
    destruct (id_is v pid); [|discriminate].
    destruct v as [s|id m|id l|id u]; destruct y as [kb|ib]; try discriminate.
    + destruct (mlookup kb m) as [[c fl]|] eqn:L; [|discriminate].
      destruct (apply_at e rest obj a c) as [c'|]; [|discriminate]. inversion H; subst v'.
      cbn [app subentry fst]. destruct x as [ka|ia]; [|reflexivity].
      rewrite mlookup_mset. assert (E : keqb ka kb = false) by (apply keqb_false; congruence).
      rewrite E. reflexivity.
    + destruct (get_at ib l) as [[c fl]|] eqn:L; [|discriminate].
      destruct (apply_at e rest obj a c) as [c'|]; [|discriminate]. inversion H; subst v'.
      cbn [app subentry fst]. destruct x as [ka|ia]; [reflexivity|].
      rewrite get_at_set_at by (eapply get_at_lt, L).
      destruct (N.eqb_spec ia ib) as [->|_]; [congruence|reflexivity].
    + inversion H; subst. reflexivity.
  - destruct path as [|[pid pr] rest]; [discriminate|]. cbn [map snd app] in Hp.
    inversion Hp as [[E1 E2]]; subst pr. cbn [apply_at] in H.
    destruct (id_is v pid); [|discriminate].
    destruct v as [s|id m|id l|id u]; destruct p0 as [k|i]; try discriminate.
    + destruct (mlookup k m) as [[c fl]|] eqn:L; [|discriminate].
      destruct (apply_at e rest obj a c) as [c'|] eqn:A; [|discriminate]. inversion H; subst v'.
      cbn [app subentry fst]. rewrite mlookup_mset, keqb_refl, L.
      eapply IH; eassumption.
    + destruct (get_at i l) as [[c fl]|] eqn:L; [|discriminate].
      destruct (apply_at e rest obj a c) as [c'|] eqn:A; [|discriminate]. inversion H; subst v'.
      cbn [app subentry fst]. rewrite get_at_set_at by (eapply get_at_lt, L). rewrite N.eqb_refl, L.
      eapply IH; eassumption.
    + inversion H; subst. reflexivity.
Qed.

Theorem apply_patch_frame e v p v' q :
  apply_patch e v p = Some v' -> diverges q (map snd (p_path p)) -> subtree v' q = subtree v q.
Proof.
  intros H [pre [x [y [q' [path' [-> [Hp Hne]]]]]]]. unfold subtree.
  eapply apply_at_frame; eassumption.
Qed.

Lemma apply_action_shell e v a v' : apply_action e v a = Some v' -> same_shell v v' = true.
Proof.
  destruct v as [s|id m|id l|id u]; cbn [apply_action]; [discriminate| | |].
  - destruct a as [k pv c|i pv c|i vs|i x|[k|i] z|[k|i]|k|i n|ms]; try discriminate.
    + intros H; inversion H; apply opid_eqb_refl.
    + destruct (mlookup k m) as [en|]; [|discriminate]. destruct (inc_entry z en); [|discriminate].
      intros H; inversion H; apply opid_eqb_refl.
    + destruct (mlookup k m) as [en|]; [|discriminate]. intros H; inversion H; apply opid_eqb_refl.
    + intros H; inversion H; apply opid_eqb_refl.
  - destruct a as [k pv c|i pv c|i vs|i x|[k|i] z|[k|i]|k|i n|ms]; try discriminate.
    + destruct (get_at i l); [|discriminate]. intros H; inversion H; apply opid_eqb_refl.
    + destruct (insert_at i (map new_entry vs) l); [|discriminate]. intros H; inversion H; apply opid_eqb_refl.
    + destruct (get_at i l) as [en|]; [|discriminate]. destruct (inc_entry z en); [|discriminate].
      intros H; inversion H; apply opid_eqb_refl.
    + destruct (get_at i l) as [en|]; [|discriminate]. intros H; inversion H; apply opid_eqb_refl.
    + destruct (delete_at i n l); [|discriminate]. intros H; inversion H; apply opid_eqb_refl.
    + intros H; inversion H; apply opid_eqb_refl.
  - destruct a as [k pv c|i pv c|i vs|i x|[k|i] z|[k|i]|k|i n|ms]; try discriminate.
    + destruct (delete_at i 1 u) as [u1|]; [|discriminate].
      destruct (insert_at i (pv_units e pv) u1); [|discriminate]. intros H; inversion H; apply opid_eqb_refl.
    + destruct (insert_at i _ u); [|discriminate]. intros H; inversion H; apply opid_eqb_refl.
    + destruct (insert_at i x u); [|discriminate]. intros H; inversion H; apply opid_eqb_refl.
    + destruct (delete_at i n u); [|discriminate]. intros H; inversion H; apply opid_eqb_refl.
    + intros H; inversion H; apply opid_eqb_refl.
Qed.

Theorem apply_patch_shell e v p v' : apply_patch e v p = Some v' -> same_shell v v' = true.
Proof.
  unfold apply_patch. destruct (p_path p) as [|[pid pr] rest]; cbn [apply_at].
  - destruct (id_is v (p_obj p)); [apply apply_action_shell|discriminate].
  - destruct (id_is v pid); [|discriminate].
    destruct v as [s|id m|id l|id u]; destruct pr as [k|i]; try discriminate.
    + destruct (mlookup k m) as [[c f]|]; [|discriminate].
      destruct (apply_at e rest (p_obj p) (p_action p) c); [|discriminate].
      intros H; inversion H; apply opid_eqb_refl.
    + destruct (get_at i l) as [[c f]|]; [|discriminate].
      destruct (apply_at e rest (p_obj p) (p_action p) c); [|discriminate].
      intros H; inversion H; apply opid_eqb_refl.
    + intros H; inversion H; apply opid_eqb_refl.
Qed.

(* ------------------------------------------------------------------ local edits (C09) *)
From AM Require Import Crdt.LocalProofs.

(* the register after a local update that supersedes the whole register [r] (C03_update_register_spec with
   r' = r: nothing is kept) *)
Definition after_reg (id : opid) (a : action) (r : regobs) : regobs :=
  match a with
  | APut v => [(id, scalar_vobs v)]
  | AMake t => [(id, VO t)]
  | AInc z => inc_reg z r
  | _ => []
  end.

Lemma pv_of_new_view pv : pv_of (new_view pv) = match pv with PVO OTable id => PVO OMap id | _ => pv end.
Proof. destruct pv as [s|[| | |] id]; reflexivity. Qed.

Lemma shell_lookup_mupsert k pv c m k' :
  shell_lookup k' (mupsert k (new_view pv, c) m) =
  if keqb k' k then Some (pv_of (new_view pv), c) else shell_lookup k' m.
Proof. unfold shell_lookup. rewrite mlookup_mupsert. destruct (keqb k' k); reflexivity. Qed.

(* put / put_object / delete of a map key, and an increment of an unconflicted counter: the patch
   finalize_op emits turns what the view shows for the register before into what it must show after;
   every other key keeps its entry *)
Theorem local_patch_sound_map e oid m k id a r pa :
  match a with
  | APut _ | ADel => True
  | AMake t => t <> OTable
  | AInc _ => exists i c, r = [(i, VC c)]
  | _ => False
  end ->
  local_action (PMap k) id a r = Some pa ->
  shell_lookup k m = entry_shell r ->
  exists m',
    apply_action e (VMap oid m) pa = Some (VMap oid m') /\
    shell_lookup k m' = entry_shell (after_reg id a r) /\
    (forall k', k' <> k -> mlookup k' m' = mlookup k' m).
Proof.
  intros Ha Hl Hs. destruct a as [v|t| |z| |]; try contradiction; cbn [local_action put_pv del_action] in Hl.
  - inversion Hl; subst pa. cbn [apply_action]. eexists. split; [reflexivity|]. split.
    + rewrite shell_lookup_mupsert, keqb_refl. cbn [after_reg entry_shell winner map last length].
      destruct v; reflexivity.
    + intros k' Hk. rewrite mlookup_mupsert. apply keqb_false in Hk. rewrite Hk. reflexivity.
  - inversion Hl; subst pa. cbn [apply_action]. eexists. split; [reflexivity|]. split.
    + rewrite shell_lookup_mupsert, keqb_refl, pv_of_new_view.
      cbn [after_reg entry_shell winner map last length pv_of_vobs]. destruct t; try reflexivity. contradiction.
    + intros k' Hk. rewrite mlookup_mupsert. apply keqb_false in Hk. rewrite Hk. reflexivity.
  - inversion Hl; subst pa. cbn [apply_action]. eexists. split; [reflexivity|]. split.
    + unfold shell_lookup. rewrite mlookup_mremove, keqb_refl. reflexivity.
    + intros k' Hk. rewrite mlookup_mremove. apply keqb_false in Hk. rewrite Hk. reflexivity.
  - destruct Ha as [i [c ->]]. cbn [length Nat.ltb Nat.leb] in Hl. inversion Hl; subst pa.
    cbn [entry_shell winner map last length pv_of_vobs Nat.ltb Nat.leb] in Hs.
    unfold shell_lookup in Hs. destruct (mlookup k m) as [[cv f]|] eqn:L; [|discriminate].
    inversion Hs as [[Hc Hf]]. destruct cv as [[| | | | | | |x| |]| | |]; try discriminate.
    cbn [pv_of] in Hc. inversion Hc; subst x. subst f.
    cbn [apply_action]. rewrite L. cbn [inc_entry]. eexists. split; [reflexivity|]. split.
    + unfold shell_lookup. rewrite mlookup_mset, keqb_refl, L. reflexivity.
    + intros k' Hk. rewrite mlookup_mset. apply keqb_false in Hk. rewrite Hk. reflexivity.
Qed.

(* REFUTED for a conflicted register: two counters conflict, a local increment increments both (the register
   stays conflicted and the greater id still wins), but the emitted Put carries the FIRST counter's new
   value and conflict = false *)
Theorem local_increment_conflict_refuted :
  exists m k id z r pa,
    local_action (PMap k) id (AInc z) r = Some pa /\
    shell_lookup k m = entry_shell r /\
    forall e m', apply_action e (VMap root_id m) pa = Some (VMap root_id m') ->
                 shell_lookup k m' <> entry_shell (after_reg id (AInc z) r).
Proof.
  exists [([99], (VScalar (SCounter 3), true))], [99], (5, [1]), 1%Z,
         [((1, [1]), VC 1); ((1, [2]), VC 3)], (PutMap [99] (PVS (SCounter 2)) false).
  split; [reflexivity|]. split; [reflexivity|].
  intros e m' H. cbn in H. inversion H; subst m'. vm_compute. discriminate.
Qed.
