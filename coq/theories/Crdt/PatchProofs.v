(* Crdt/PatchProofs.v — proofs about Crdt/Patch.v (C08, C09):
   composition of patch lists, determinism and frame of the applier, and
   [diff_apply]: the generated patches turn any well-formed view into any other. *)
From AM Require Import Base.Prelude Base.Order Crdt.Types Crdt.Interp Crdt.Local Crdt.Patch.
Local Open Scope N_scope.

(* ------------------------------------------------------------------ basics *)
Lemma keqb_spec a b : keqb a b = true <-> a = b.
Proof. apply eqb_of_spec, bytes_cmp_total. Qed.

Lemma keqb_refl a : keqb a a = true.
Proof. apply keqb_spec. reflexivity. Qed.

Lemma keqb_sym a b : keqb a b = keqb b a.
Proof.
  destruct (keqb a b) eqn:E1; destruct (keqb b a) eqn:E2; try reflexivity.
  - apply keqb_spec in E1. subst. rewrite keqb_refl in E2. discriminate.
  - apply keqb_spec in E2. subst. rewrite keqb_refl in E1. discriminate.
Qed.

Lemma keqb_false a b : keqb a b = false <-> a <> b.
Proof.
  split.
  - intros H E. subst. rewrite keqb_refl in H. discriminate.
  - intros H. destruct (keqb a b) eqn:E; [|reflexivity]. apply keqb_spec in E. contradiction.
Qed.

Lemma opid_eqb_refl a : opid_eqb a a = true.
Proof. apply opid_eqb_spec. reflexivity. Qed.

Lemma nlist_eqb_spec a b : nlist_eqb a b = true <-> a = b.
Proof. apply list_eqb_spec. intros; apply N.eqb_eq. Qed.

Lemma scalar_eqb_spec a b : scalar_eqb a b = true <-> a = b.
Proof.
  split.
  - destruct a, b; cbn; try discriminate; intros H; try reflexivity.
    + apply Bool.eqb_prop in H. subst. reflexivity.
    + apply Z.eqb_eq in H. subst. reflexivity.
    + apply N.eqb_eq in H. subst. reflexivity.
    + apply N.eqb_eq in H. subst. reflexivity.
    + apply nlist_eqb_spec in H. subst. reflexivity.
    + apply nlist_eqb_spec in H. subst. reflexivity.
    + apply Z.eqb_eq in H. subst. reflexivity.
    + apply Z.eqb_eq in H. subst. reflexivity.
    + apply andb_true_iff in H. destruct H as [H1 H2].
      apply N.eqb_eq in H1. apply nlist_eqb_spec in H2. subst. reflexivity.
  - intros <-. destruct a; cbn; try reflexivity.
    + apply Bool.eqb_reflx.
    + apply Z.eqb_refl.
    + apply N.eqb_refl.
    + apply N.eqb_refl.
    + apply nlist_eqb_spec; reflexivity.
    + apply nlist_eqb_spec; reflexivity.
    + apply Z.eqb_refl.
    + apply Z.eqb_refl.
    + rewrite N.eqb_refl. apply nlist_eqb_spec; reflexivity.
Qed.

(* ------------------------------------------------------------------ induction on views *)
Section ViewInd.
  Variable P : view -> Prop.
  Hypothesis Hs : forall s, P (VScalar s).
  Hypothesis Hm : forall id m, Forall (fun ke => P (fst (snd ke))) m -> P (VMap id m).
  Hypothesis Hl : forall id l, Forall (fun en => P (fst en)) l -> P (VList id l).
  Hypothesis Ht : forall id u, P (VText id u).

  Fixpoint view_ind2 (v : view) : P v :=
    match v with
    | VScalar s => Hs s
    | VMap id m =>
      Hm id m ((fix go (m : vmap) : Forall (fun ke => P (fst (snd ke))) m :=
                  match m with
                  | [] => Forall_nil _
                  | (k, (c, f)) :: t => Forall_cons (k, (c, f)) (view_ind2 c) (go t)
                  end) m)
    | VList id l =>
      Hl id l ((fix go (l : list ventry) : Forall (fun en => P (fst en)) l :=
                  match l with
                  | [] => Forall_nil _
                  | (c, f) :: t => Forall_cons (c, f) (view_ind2 c) (go t)
                  end) l)
    | VText id u => Ht id u
    end.
End ViewInd.

(* ------------------------------------------------------------------ composition (C09) *)
Lemma apply_patches_app e p1 p2 v :
  apply_patches e (p1 ++ p2) v =
  match apply_patches e p1 v with Some v' => apply_patches e p2 v' | None => None end.
Proof.
  revert v. induction p1 as [|p t IH]; intros v; cbn [app apply_patches]; [reflexivity|].
  destruct (apply_patch e v p) as [v'|]; [apply IH|reflexivity].
Qed.

Lemma apply_patches_app_some e p1 p2 v v1 v2 :
  apply_patches e p1 v = Some v1 -> apply_patches e p2 v1 = Some v2 ->
  apply_patches e (p1 ++ p2) v = Some v2.
Proof. intros H1 H2. rewrite apply_patches_app, H1. exact H2. Qed.

(* determinism: the applier is a function; stated for the record *)
Lemma apply_patch_deterministic e v p a b :
  apply_patch e v p = Some a -> apply_patch e v p = Some b -> a = b.
Proof. congruence. Qed.

(* ------------------------------------------------------------------ the node keeps kind and id *)
Lemma apply_action_id e v a v' : apply_action e v a = Some v' -> view_id v' = view_id v.
Proof.
  destruct v as [s|id m|id l|id u]; cbn [apply_action]; [discriminate| | |].
  - destruct a as [k pv c|i pv c|i vs|i x|[k|i] z|[k|i]|k|i n|ms]; try discriminate.
    + intros H; inversion H; reflexivity.
    + destruct (mlookup k m) as [en|]; [|discriminate]. destruct (inc_entry z en); [|discriminate].
      intros H; inversion H; reflexivity.
    + destruct (mlookup k m) as [en|]; [|discriminate]. intros H; inversion H; reflexivity.
    + intros H; inversion H; reflexivity.
  - destruct a as [k pv c|i pv c|i vs|i x|[k|i] z|[k|i]|k|i n|ms]; try discriminate.
    + destruct (get_at i l); [|discriminate]. intros H; inversion H; reflexivity.
    + destruct (insert_at i (map new_entry vs) l); [|discriminate]. intros H; inversion H; reflexivity.
    + destruct (get_at i l) as [en|]; [|discriminate]. destruct (inc_entry z en); [|discriminate].
      intros H; inversion H; reflexivity.
    + destruct (get_at i l) as [en|]; [|discriminate]. intros H; inversion H; reflexivity.
    + destruct (delete_at i n l); [|discriminate]. intros H; inversion H; reflexivity.
    + intros H; inversion H; reflexivity.
  - destruct a as [k pv c|i pv c|i vs|i x|[k|i] z|[k|i]|k|i n|ms]; try discriminate.
    + destruct (delete_at i 1 u) as [u1|]; [|discriminate].
      destruct (insert_at i (pv_units e pv) u1); [|discriminate]. intros H; inversion H; reflexivity.
    + destruct (insert_at i _ u); [|discriminate]. intros H; inversion H; reflexivity.
    + destruct (insert_at i x u); [|discriminate]. intros H; inversion H; reflexivity.
    + destruct (delete_at i n u); [|discriminate]. intros H; inversion H; reflexivity.
    + intros H; inversion H; reflexivity.
Qed.

Fixpoint apply_actions (e : enc) (v : view) (acts : list paction) : option view :=
  match acts with
  | [] => Some v
  | a :: t => match apply_action e v a with Some v' => apply_actions e v' t | None => None end
  end.

Lemma apply_actions_app e v a1 a2 :
  apply_actions e v (a1 ++ a2) =
  match apply_actions e v a1 with Some v' => apply_actions e v' a2 | None => None end.
Proof.
  revert v. induction a1 as [|a t IH]; intros v; cbn [app apply_actions]; [reflexivity|].
  destruct (apply_action e v a); [apply IH|reflexivity].
Qed.

Lemma apply_here e id acts : forall v,
  id_is v id = true ->
  apply_patches e (map (here id) acts) v = apply_actions e v acts.
Proof.
  induction acts as [|a t IH]; intros v Hid; cbn [map apply_patches apply_actions]; [reflexivity|].
  unfold apply_patch. cbn [here p_path p_obj p_action apply_at]. rewrite Hid.
  destruct (apply_action e v a) as [v'|] eqn:E; [|reflexivity].
  apply IH. unfold id_is in *. rewrite (apply_action_id _ _ _ _ E). exact Hid.
Qed.

(* ------------------------------------------------------------------ association lists *)
Section Assoc.
  Context {V : Type}.
  Implicit Types m : list (list N * V).

  Lemma mlookup_mupsert k e m k' :
    mlookup k' (mupsert k e m) = if keqb k' k then Some e else mlookup k' m.
  Proof.
    induction m as [|[k0 e0] t IH]; cbn [mupsert mlookup]; [reflexivity|].
    destruct (bytes_cmp k k0) eqn:C; cbn [mlookup].
    - apply (cmp_eq bytes_cmp_total) in C. subst k0.
      destruct (keqb k' k); reflexivity.
    - reflexivity.
    - rewrite IH. destruct (keqb k' k0) eqn:E0; [|reflexivity].
      apply keqb_spec in E0. subst k0.
      destruct (keqb k' k) eqn:E1; [|reflexivity].
      apply keqb_spec in E1. subst k'. rewrite (cmp_refl _ bytes_cmp_total) in C. discriminate.
  Qed.

  Lemma mlookup_mremove k m k' :
    mlookup k' (mremove k m) = if keqb k' k then None else mlookup k' m.
  Proof.
    induction m as [|[k0 e0] t IH]; cbn [mremove mlookup].
    - destruct (keqb k' k); reflexivity.
    - destruct (keqb k k0) eqn:E.
      + apply keqb_spec in E. subst k0. rewrite IH. destruct (keqb k' k); reflexivity.
      + cbn [mlookup]. rewrite IH. destruct (keqb k' k0) eqn:E0; [|reflexivity].
        apply keqb_spec in E0. subst k0. rewrite keqb_sym, E. reflexivity.
  Qed.

  Lemma mlookup_mset k e m k' :
    mlookup k' (mset k e m) =
    if keqb k' k then match mlookup k m with Some _ => Some e | None => None end else mlookup k' m.
  Proof.
    induction m as [|[k0 e0] t IH]; cbn [mset mlookup].
    - destruct (keqb k' k); reflexivity.
    - destruct (keqb k k0) eqn:E; cbn [mlookup].
      + apply keqb_spec in E. subst k0. destruct (keqb k' k); reflexivity.
      + rewrite IH. destruct (keqb k' k0) eqn:E0; [|reflexivity].
        apply keqb_spec in E0. subst k0. rewrite keqb_sym, E. reflexivity.
  Qed.

  (* keys strictly ascending *)
  Inductive KS : list (list N * V) -> Prop :=
  | KS_nil : KS []
  | KS_cons k e t : (forall k' e', In (k', e') t -> bytes_cmp k k' = Lt) -> KS t -> KS ((k, e) :: t).

  Lemma keys_sorted_KS m : keys_sorted m = true -> KS m.
  Proof.
    induction m as [|[k e] t IH]; cbn [keys_sorted]; intros H; [constructor|].
    apply andb_true_iff in H. destruct H as [H1 H2]. specialize (IH H2).
    constructor; [|exact IH].
    destruct t as [|[k1 e1] t1]; [intros ? ? []|].
    assert (L : bytes_cmp k k1 = Lt) by (unfold ltb in H1; destruct (bytes_cmp k k1); congruence).
    intros k' e' [Hin|Hin]; [inversion Hin; subst; exact L|].
    inversion IH as [|? ? ? Hall _]; subst.
    eapply (cmp_trans bytes_cmp_total); [exact L|]. eapply Hall. exact Hin.
  Qed.

  Lemma mlookup_above k m :
    (forall k' e', In (k', e') m -> bytes_cmp k k' = Lt) -> mlookup k m = None.
  Proof.
    induction m as [|[k0 e0] t IH]; intros H; cbn [mlookup]; [reflexivity|].
    destruct (keqb k k0) eqn:E.
    - apply keqb_spec in E. subst k0. specialize (H k e0 (or_introl eq_refl)).
      rewrite (cmp_refl _ bytes_cmp_total) in H. discriminate.
    - apply IH. intros k' e' Hin. apply (H k' e'). right. exact Hin.
  Qed.

  Lemma mlookup_In k m x : mlookup k m = Some x -> In (k, x) m.
  Proof.
    induction m as [|[k0 e0] t IH]; cbn [mlookup]; [discriminate|].
    destruct (keqb k k0) eqn:E.
    - apply keqb_spec in E. subst. intros H; inversion H; subst. left. reflexivity.
    - intros H. right. apply IH, H.
  Qed.

  Lemma KS_ext m1 : forall m2, KS m1 -> KS m2 -> (forall k, mlookup k m1 = mlookup k m2) -> m1 = m2.
  Proof.
    induction m1 as [|[k1 e1] t1 IH]; intros [|[k2 e2] t2] S1 S2 H.
    - reflexivity.
    - specialize (H k2). cbn [mlookup] in H. rewrite keqb_refl in H. discriminate.
    - specialize (H k1). cbn [mlookup] in H. rewrite keqb_refl in H. discriminate.
    - inversion S1 as [|? ? ? A1 S1']; subst. inversion S2 as [|? ? ? A2 S2']; subst.
      destruct (bytes_cmp k1 k2) eqn:C.
      + apply (cmp_eq bytes_cmp_total) in C. subst k2.
        pose proof (H k1) as H1. cbn [mlookup] in H1. rewrite keqb_refl in H1. inversion H1; subst e2.
        f_equal. apply IH; [exact S1'|exact S2'|].
        intros k. destruct (keqb k k1) eqn:E.
        * apply keqb_spec in E. subst k. rewrite (mlookup_above _ _ A1), (mlookup_above _ _ A2). reflexivity.
        * specialize (H k). cbn [mlookup] in H. rewrite E in H. exact H.
      + exfalso. specialize (H k1). cbn [mlookup] in H. rewrite keqb_refl in H.
        destruct (keqb k1 k2) eqn:E.
        * apply keqb_spec in E. subst. rewrite (cmp_refl _ bytes_cmp_total) in C. discriminate.
        * rewrite mlookup_above in H; [discriminate|].
          intros k' e' Hin. eapply (cmp_trans bytes_cmp_total); [exact C|]. eapply A2, Hin.
      + exfalso. apply (cmp_gt_lt _ bytes_cmp_total) in C.
        specialize (H k2). cbn [mlookup] in H. rewrite keqb_refl in H.
        destruct (keqb k2 k1) eqn:E.
        * apply keqb_spec in E. subst. rewrite (cmp_refl _ bytes_cmp_total) in C. discriminate.
        * rewrite mlookup_above in H; [discriminate|].
          intros k' e' Hin. eapply (cmp_trans bytes_cmp_total); [exact C|]. eapply A1, Hin.
  Qed.

  Lemma In_mupsert k e m k' e' : In (k', e') (mupsert k e m) -> (k' = k /\ e' = e) \/ In (k', e') m.
  Proof.
    induction m as [|[k0 e0] t IH]; cbn [mupsert].
    - intros [H|[]]. inversion H; subst. left; auto.
    - destruct (bytes_cmp k k0).
      + intros [H|H]; [inversion H; subst; left; auto|right; right; exact H].
      + intros [H|H]; [inversion H; subst; left; auto|right; exact H].
      + intros [H|H]; [right; left; exact H|]. apply IH in H. destruct H; [left; auto|right; right; auto].
  Qed.

  Lemma KS_mupsert k e m : KS m -> KS (mupsert k e m).
  Proof.
    induction m as [|[k0 e0] t IH]; intros S; cbn [mupsert].
    - constructor; [intros ? ? []|constructor].
    - inversion S as [|? ? ? A S']; subst. destruct (bytes_cmp k k0) eqn:C.
      + apply (cmp_eq bytes_cmp_total) in C. subst k0. constructor; assumption.
      + constructor; [|exact S]. intros k' e' [H|H]; [inversion H; subst; exact C|].
        eapply (cmp_trans bytes_cmp_total); [exact C|]. eapply A, H.
      + constructor; [|apply IH, S']. intros k' e' H. apply In_mupsert in H.
        destruct H as [[-> ->]|H]; [apply (cmp_gt_lt _ bytes_cmp_total), C|eapply A, H].
  Qed.

  Lemma In_mremove k m k' e' : In (k', e') (mremove k m) -> In (k', e') m.
  Proof.
    induction m as [|[k0 e0] t IH]; cbn [mremove]; [auto|].
    destruct (keqb k k0); [intros H; right; apply IH, H|].
    intros [H|H]; [left; exact H|right; apply IH, H].
  Qed.

  Lemma KS_mremove k m : KS m -> KS (mremove k m).
  Proof.
    induction m as [|[k0 e0] t IH]; intros S; cbn [mremove]; [constructor|].
    inversion S as [|? ? ? A S']; subst. destruct (keqb k k0); [apply IH, S'|].
    constructor; [|apply IH, S']. intros k' e' H. eapply A, In_mremove, H.
  Qed.

  Lemma In_mset_key k e m k' e' : In (k', e') (mset k e m) -> exists e'', In (k', e'') m.
  Proof.
    induction m as [|[k0 e0] t IH]; cbn [mset]; [intros []|].
    destruct (keqb k k0).
    - intros [H|H]; [inversion H; subst; exists e0; left; reflexivity|exists e'; right; exact H].
    - intros [H|H]; [exists e'; left; exact H|]. apply IH in H. destruct H as [x H]. exists x. right. exact H.
  Qed.

  Lemma KS_mset k e m : KS m -> KS (mset k e m).
  Proof.
    induction m as [|[k0 e0] t IH]; intros S; cbn [mset]; [constructor|].
    inversion S as [|? ? ? A S']; subst. destruct (keqb k k0).
    - constructor; assumption.
    - constructor; [|apply IH, S']. intros k' e' H. apply In_mset_key in H. destruct H as [x H]. eapply A, H.
  Qed.

  (* positional facts used for the children phase *)
  Lemma mlookup_app_none k m1 m2 : mlookup k m1 = None -> mlookup k (m1 ++ m2) = mlookup k m2.
  Proof.
    induction m1 as [|[k0 e0] t IH]; cbn [app mlookup]; [reflexivity|].
    destruct (keqb k k0); [discriminate|]. exact IH.
  Qed.

  Lemma mset_app_none k e m1 m2 : mlookup k m1 = None -> mset k e (m1 ++ m2) = m1 ++ mset k e m2.
  Proof.
    induction m1 as [|[k0 e0] t IH]; cbn [app mset mlookup]; [reflexivity|].
    destruct (keqb k k0); [discriminate|]. intros H. rewrite IH by exact H. reflexivity.
  Qed.

  Lemma KS_app_lookup_none pre k x t : KS (pre ++ (k, x) :: t) -> mlookup k pre = None.
  Proof.
    induction pre as [|[k0 e0] p IH]; cbn [app mlookup]; intros S; [reflexivity|].
    inversion S as [|? ? ? A S']; subst.
    destruct (keqb k k0) eqn:E.
    - apply keqb_spec in E. subst k0.
      assert (bytes_cmp k k = Lt) by (eapply A; apply in_or_app; right; left; reflexivity).
      rewrite (cmp_refl _ bytes_cmp_total) in H. discriminate.
    - apply IH, S'.
  Qed.

  Lemma mset_mset k e1 e2 m : mset k e2 (mset k e1 m) = mset k e2 m.
  Proof.
    induction m as [|[k0 e0] t IH]; cbn [mset]; [reflexivity|].
    destruct (keqb k k0) eqn:E; cbn [mset]; rewrite E; [reflexivity|]. rewrite IH. reflexivity.
  Qed.

  Lemma mset_same k e m : mlookup k m = Some e -> mset k e m = m.
  Proof.
    induction m as [|[k0 e0] t IH]; cbn [mset mlookup]; [reflexivity|].
    destruct (keqb k k0); [intros H; inversion H; reflexivity|]. intros H. rewrite IH by exact H. reflexivity.
  Qed.
End Assoc.

(* ------------------------------------------------------------------ sequences *)
Section Seq.
  Context {A : Type}.
  Implicit Types l pre : list A.

  Lemma get_at_app pre x t : get_at (N.of_nat (length pre)) (pre ++ x :: t) = Some x.
  Proof.
    unfold get_at. rewrite app_length. cbn [length].
    destruct (N.ltb_spec (N.of_nat (length pre)) (N.of_nat (length pre + S (length t)))) as [_|H]; [|lia].
    rewrite Nnat.Nat2N.id, nth_error_app2 by lia. rewrite Nat.sub_diag. reflexivity.
  Qed.

  Lemma set_at_app pre x y t : set_at (N.of_nat (length pre)) y (pre ++ x :: t) = pre ++ y :: t.
  Proof.
    unfold set_at. rewrite Nnat.Nat2N.id.
    rewrite firstn_app, firstn_all, Nat.sub_diag. cbn [firstn]. rewrite app_nil_r.
    rewrite skipn_app. replace (S (length pre) - length pre)%nat with 1%nat by lia.
    rewrite skipn_all2 by lia. reflexivity.
  Qed.

  Lemma insert_at_end pre xs : insert_at (N.of_nat (length pre)) xs pre = Some (pre ++ xs).
  Proof.
    unfold insert_at. rewrite N.leb_refl, Nnat.Nat2N.id, firstn_all, skipn_all, app_nil_r. reflexivity.
  Qed.

  Lemma delete_at_tail pre l :
    delete_at (N.of_nat (length pre)) (N.of_nat (length l)) (pre ++ l) = Some pre.
  Proof.
    unfold delete_at. rewrite app_length.
    destruct (N.leb_spec (N.of_nat (length pre) + N.of_nat (length l)) (N.of_nat (length pre + length l))) as [_|H]; [|lia].
    rewrite Nnat.Nat2N.id, firstn_app, firstn_all, Nat.sub_diag. cbn [firstn]. rewrite app_nil_r.
    replace (N.to_nat (N.of_nat (length pre) + N.of_nat (length l))) with (length (pre ++ l))
      by (rewrite app_length; lia).
    rewrite skipn_all, app_nil_r. reflexivity.
  Qed.
End Seq.

(* ------------------------------------------------------------------ shells *)
Lemma same_shell_id a b : same_shell a b = true -> view_id a = view_id b.
Proof.
  destruct a, b; cbn; try discriminate; intros H; try (apply opid_eqb_spec in H; subst); reflexivity.
Qed.

Lemma same_shell_empty_like c : same_shell (empty_like c) c = true.
Proof.
  destruct c as [s|id m|id l|id u]; cbn; try apply opid_eqb_refl. apply scalar_eqb_spec. reflexivity.
Qed.

Lemma wf_node_empty_like c : wf_node (empty_like c) = true.
Proof. destruct c; reflexivity. Qed.

Lemma wf_node_map id m :
  wf_node (VMap id m) = true <->
  keys_sorted m = true /\ Forall (fun ke => wf_node (fst (snd ke)) = true) m.
Proof.
  cbn [wf_node]. rewrite andb_true_iff.
  assert (G : (fix all (m0 : vmap) : bool :=
                 match m0 with [] => true | (_, (c, _)) :: t => wf_node c && all t end) m = true
              <-> Forall (fun ke => wf_node (fst (snd ke)) = true) m).
  { induction m as [|[k [c f]] t IH]; [split; [constructor|reflexivity]|].
    rewrite andb_true_iff, IH. split.
    - intros [H1 H2]. constructor; assumption.
    - intros H. inversion H; subst. split; assumption. }
  rewrite G. reflexivity.
Qed.

Lemma wf_node_list id l :
  wf_node (VList id l) = true <-> Forall (fun en => wf_node (fst en) = true) l.
Proof.
  cbn [wf_node].
  induction l as [|[c f] t IH]; [split; [constructor|reflexivity]|].
  rewrite andb_true_iff, IH. split.
  - intros [H1 H2]. constructor; assumption.
  - intros H. inversion H; subst. split; assumption.
Qed.

(* what the register holds after its actions *)
Lemma base_same_shell old c2 f2 : same_shell (base_of old c2 f2) c2 = true.
Proof.
  unfold base_of. destruct (keeps old c2 f2) eqn:K; [|apply same_shell_empty_like].
  destruct old as [[c1 f1]|]; [|discriminate]. cbn [keeps] in K.
  apply andb_true_iff in K. apply K.
Qed.

Lemma base_scalar old s f2 : base_of old (VScalar s) f2 = VScalar s.
Proof.
  pose proof (base_same_shell old (VScalar s) f2) as H.
  destruct (base_of old (VScalar s) f2); cbn in H; try discriminate.
  apply scalar_eqb_spec in H. subst. reflexivity.
Qed.

(* ------------------------------------------------------------------ one register of a map *)
Lemma map_entry_actions e id k old c2 f2 m :
  mlookup k m = old ->
  exists m',
    apply_actions e (VMap id m) (entry_actions (PMap k) old c2 f2) = Some (VMap id m') /\
    mlookup k m' = Some (base_of old c2 f2, f2) /\
    (forall k', k' <> k -> mlookup k' m' = mlookup k' m) /\
    (KS m -> KS m').
Proof.
  intros Hold. unfold entry_actions, base_of.
  destruct (keeps old c2 f2) eqn:K.
  - destruct old as [[c1 f1]|]; [|discriminate]. cbn [keeps] in K.
    apply andb_true_iff in K. destruct K as [_ Kf]. cbn [flag_patch].
    destruct (negb f1 && f2) eqn:F.
    + cbn [apply_actions apply_action]. rewrite Hold. cbn [fst].
      exists (mset k (c1, true) m). split; [reflexivity|].
      assert (f2 = true) by (destruct f1, f2; cbn in F; congruence). subst f2.
      split; [rewrite mlookup_mset, keqb_refl, Hold; reflexivity|]. split.
      * intros k' Hk. rewrite mlookup_mset. apply keqb_false in Hk. rewrite Hk. reflexivity.
      * apply KS_mset.
    + cbn [apply_actions]. exists m. split; [reflexivity|].
      assert (f1 = f2) by (destruct f1, f2; cbn in F, Kf; congruence). subst f2.
      split; [exact Hold|]. split; auto.
  - destruct (increments old c2 f2) as [d|] eqn:I.
    + destruct old as [[c1 f1]|]; [|discriminate]. cbn [increments] in I.
      destruct (implb f1 f2) eqn:Kf; [|discriminate].
      destruct c1 as [[| | | | | | |x| |]| | |]; try discriminate.
      destruct c2 as [[| | | | | | |y| |]| | |]; try discriminate.
      cbn [counter_delta] in I. inversion I; subst d. clear I.
      cbn [apply_actions apply_action]. rewrite Hold. cbn [inc_entry].
      replace (x + (y - x))%Z with y by lia.
      cbn [flag_patch empty_like pv_of new_view].
      destruct (negb f1 && f2) eqn:F.
      * cbn [apply_actions apply_action]. rewrite mlookup_mset, keqb_refl, Hold. cbn [fst].
        rewrite mset_mset.
        exists (mset k (VScalar (SCounter y), true) m). split; [reflexivity|].
        assert (f2 = true) by (destruct f1, f2; cbn in F; congruence). subst f2.
        split; [rewrite mlookup_mset, keqb_refl, Hold; reflexivity|]. split.
        -- intros k' Hk. rewrite mlookup_mset. apply keqb_false in Hk. rewrite Hk. reflexivity.
        -- apply KS_mset.
      * cbn [apply_actions].
        exists (mset k (VScalar (SCounter y), f1) m). split; [reflexivity|].
        assert (f1 = f2) by (destruct f1, f2; cbn in F, Kf; congruence). subst f2.
        split; [rewrite mlookup_mset, keqb_refl, Hold; reflexivity|]. split.
        -- intros k' Hk. rewrite mlookup_mset. apply keqb_false in Hk. rewrite Hk. reflexivity.
        -- apply KS_mset.
    + cbn [put_action apply_actions apply_action].
      exists (mupsert k (new_view (pv_of c2), f2) m). split; [reflexivity|].
      split; [rewrite mlookup_mupsert, keqb_refl; reflexivity|]. split.
      * intros k' Hk. rewrite mlookup_mupsert. apply keqb_false in Hk. rewrite Hk. reflexivity.
      * apply KS_mupsert.
Qed.
