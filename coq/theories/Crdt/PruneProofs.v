(* Crdt/PruneProofs.v — a local commit discards held changes of a conflicting branch of its actor
   (C38, third sentence): [m_commit] (Crdt/Commit.v) mirrors [transaction_args], which calls
   [queue.remove_actor_branch_from(actor, seq)] (Crdt/Doc.v). *)
From AM Require Import Base.Prelude Base.Order Crdt.Types Crdt.Doc Crdt.Commit.
Local Open Scope N_scope.

Lemma branch_closure_incl fuel q : forall removed, incl removed (branch_closure fuel q removed).
Proof.
  induction fuel as [|f IH]; intros removed; cbn [branch_closure]; [apply incl_refl|].
  destruct (filter _ q) as [|x more] eqn:E; [apply incl_refl|].
  eapply incl_tran; [|apply IH]. apply incl_appl, incl_refl.
Qed.

Lemma memb_N_In x l : memb N.eqb x l = true <-> In x l.
Proof. apply memb_In. intros; apply N.eqb_eq. Qed.

(* nothing of that actor at or above the sequence number stays held *)
Theorem remove_actor_branch_spec q a s c :
  In c (remove_actor_branch_from q a s) ->
  In c q /\ ~ (same_actor (ch_actor c) a = true /\ s <= ch_seq c).
Proof.
  unfold remove_actor_branch_from. intros H. apply filter_In in H. destruct H as [Hin Hn].
  split; [exact Hin|]. intros [Ha Hs]. apply negb_true_iff in Hn.
  assert (Hm : memb N.eqb (ch_hash c)
                 (branch_closure (length q) q
                    (hashes (filter (fun c0 => same_actor (ch_actor c0) a && (s <=? ch_seq c0)) q))) = true).
  { apply memb_N_In. apply branch_closure_incl. unfold hashes. apply in_map. apply filter_In.
    split; [exact Hin|]. rewrite Ha. cbn. apply N.leb_le. exact Hs. }
  rewrite Hm in Hn. discriminate.
Qed.

(* a local commit (also an empty one that creates no change) leaves no held change of the committing
   actor with the claimed or a later sequence number, and holds back nothing new *)
Theorem commit_discards_conflicting_branch m r m' oc meta :
  m_commit m r = Ok (m', oc) ->
  commit_meta (applied (m_doc m)) (m_get_heads m) (cr_actor r) (cr_iso r) = Ok meta ->
  forall c, In c (queue (m_doc m')) ->
    In c (queue (m_doc m)) /\
    ~ (same_actor (ch_actor c) (cm_actor meta) = true /\ cm_seq meta <= ch_seq c).
Proof.
  unfold m_commit. intros H Hm. rewrite Hm in H. cbn [bind] in H.
  intros c Hc. apply remove_actor_branch_spec.
  destruct (cr_ops r), (cr_force r); inversion H; subst; cbn [m_doc queue] in Hc; exact Hc.
Qed.
