(* Crdt/QueueProofs.v — theorems about the causal change queue of Crdt/Doc.v:
   [release] releases exactly the reachable queued changes, [receive] keeps the
   applied set dependency-closed and the queue not ready, (actor, seq) pairs
   stay unique under a chain hypothesis (and NOT in general: see
   [actor_seq_not_preserved]), and the applied / queued sets after a run depend
   only on the set of delivered changes. *)
From AM Require Import Base.Prelude Base.Order Crdt.Types Crdt.Doc.
Local Open Scope N_scope.

(* changes are identified by their hash within a universe *)
Definition hash_inj (u : list change) : Prop :=
  forall c c', In c u -> In c' u -> ch_hash c = ch_hash c' -> c = c'.

Definition dep_closed (a : list change) : Prop :=
  forall c, In c a -> forall h, In h (ch_deps c) -> has_hash a h = true.

(* c becomes applicable from applied set a0 using changes of u: least fixpoint *)
Inductive Reach (a0 u : list change) : change -> Prop :=
| Reach_intro c : In c u ->
    (forall h, In h (ch_deps c) ->
       has_hash a0 h = true \/ exists c', In c' u /\ ch_hash c' = h /\ Reach a0 u c') ->
    Reach a0 u c.

(* ------------------------------------------------------------------ *)
(* basic facts                                                         *)

Lemma has_hash_spec l h : has_hash l h = true <-> exists c, In c l /\ ch_hash c = h.
Proof.
  unfold has_hash. rewrite existsb_exists.
  split; intros [c [Hc He]]; exists c; (split; [exact Hc|]); apply N.eqb_eq; exact He.
Qed.

Lemma has_hash_app a b h : has_hash (a ++ b) h = has_hash a h || has_hash b h.
Proof. unfold has_hash. apply existsb_app. Qed.

Lemma has_hash_incl a b h : incl a b -> has_hash a h = true -> has_hash b h = true.
Proof.
  intros Hi H. apply has_hash_spec in H. destruct H as [c [Hc He]].
  apply has_hash_spec. exists c. split; [apply Hi; exact Hc|exact He].
Qed.

Lemma has_hash_in l c : In c l -> has_hash l (ch_hash c) = true.
Proof. intros Hc. apply has_hash_spec. exists c. split; [exact Hc|reflexivity]. Qed.

Lemma ready_spec a c : ready a c = true <-> forall h, In h (ch_deps c) -> has_hash a h = true.
Proof. unfold ready. apply forallb_forall. Qed.

Lemma hash_inj_incl u u' : incl u u' -> hash_inj u' -> hash_inj u.
Proof. intros Hi H c c' Hc Hc' He. apply H; [apply Hi; exact Hc|apply Hi; exact Hc'|exact He]. Qed.

Lemma NoDup_hash_inj u : NoDup (hashes u) -> hash_inj u.
Proof.
  unfold hashes. induction u as [|x u IH]; intros Hnd c c' Hc Hc' He; [destruct Hc|].
  cbn [map] in Hnd. inversion Hnd as [|y l Hnin Hnd']; subst.
  destruct Hc as [Hc|Hc]; destruct Hc' as [Hc'|Hc'].
  - congruence.
  - subst x. exfalso. apply Hnin. rewrite He. apply in_map. exact Hc'.
  - subst x. exfalso. apply Hnin. rewrite <- He. apply in_map. exact Hc.
  - apply IH; assumption.
Qed.

Lemma filter_nil_false {A} (f : A -> bool) l : filter f l = [] -> forall x, In x l -> f x = false.
Proof.
  intros H x Hx. destruct (f x) eqn:E; [|reflexivity].
  assert (Hin : In x (filter f l)) by (apply filter_In; split; assumption).
  rewrite H in Hin. destruct Hin.
Qed.

Lemma filter_length_le' {A} (f : A -> bool) l : (length (filter f l) <= length l)%nat.
Proof. induction l as [|x l IH]; cbn [filter length]; [lia|]. destruct (f x); cbn [length]; lia. Qed.

Lemma filter_neg_length {A} (f : A -> bool) l :
  filter f l <> [] -> (length (filter (fun x => negb (f x)) l) < length l)%nat.
Proof.
  induction l as [|x l IH]; cbn [filter length]; intros H; [congruence|].
  destruct (f x) eqn:E; cbn [negb length].
  - pose proof (filter_length_le' (fun y => negb (f y)) l) as Hle. lia.
  - apply IH in H. lia.
Qed.

Lemma filter_split_perm {A} (f : A -> bool) l :
  Permutation l (filter f l ++ filter (fun x => negb (f x)) l).
Proof.
  induction l as [|x l IH]; cbn [filter]; [constructor|].
  destruct (f x); cbn [negb app].
  - constructor. exact IH.
  - apply Permutation_cons_app. exact IH.
Qed.

Lemma filter_in_length {A} (f : A -> bool) l x : In x l -> f x = true -> (1 <= length (filter f l))%nat.
Proof.
  intros Hx Hf. assert (H : In x (filter f l)) by (apply filter_In; split; assumption).
  destruct (filter f l); [destruct H|cbn [length]; lia].
Qed.

(* ------------------------------------------------------------------ *)
(* Reach: induction principle with the nested hypothesis, monotonicity *)

Lemma Reach_ind' (a0 u : list change) (P : change -> Prop) :
  (forall c, In c u ->
     (forall h, In h (ch_deps c) ->
        has_hash a0 h = true \/ exists c', In c' u /\ ch_hash c' = h /\ Reach a0 u c' /\ P c') -> P c) ->
  forall c, Reach a0 u c -> P c.
Proof.
  intros HP. fix IH 2. intros c Hr. destruct Hr as [c Hin Hdeps]. apply HP; [exact Hin|].
  intros h Hh. destruct (Hdeps h Hh) as [H|[c' [H1 [H2 H3]]]]; [left; exact H|right].
  exists c'. split; [exact H1|]. split; [exact H2|]. split; [exact H3|]. apply IH. exact H3.
Qed.

Lemma Reach_in a0 u c : Reach a0 u c -> In c u.
Proof. intros H. destruct H as [c Hin _]. exact Hin. Qed.

Lemma Reach_deps a0 u c : Reach a0 u c -> forall h, In h (ch_deps c) ->
  has_hash a0 h = true \/ exists c', In c' u /\ ch_hash c' = h /\ Reach a0 u c'.
Proof. intros H. destruct H as [c _ Hd]. exact Hd. Qed.

Lemma Reach_mono a u a' u' :
  (forall h, has_hash a h = true -> has_hash a' h = true) -> incl u u' ->
  forall c, Reach a u c -> Reach a' u' c.
Proof.
  intros Ha Hu. refine (Reach_ind' a u (fun c => Reach a' u' c) _).
  intros c Hc Hd. apply Reach_intro; [apply Hu; exact Hc|].
  intros h Hh. destruct (Hd h Hh) as [H|[c' [H1 [H2 [_ H3]]]]]; [left; apply Ha; exact H|right].
  exists c'. split; [apply Hu; exact H1|]. split; [exact H2|exact H3].
Qed.

Lemma Reach_ready a u c : In c u -> ready a c = true -> Reach a u c.
Proof.
  intros Hc Hr. apply Reach_intro; [exact Hc|]. intros h Hh. left.
  exact (proj1 (ready_spec a c) Hr h Hh).
Qed.

(* reachability from [a] through [q] is reachability from [a0] through [u]
   when everything in [a] is reachable and [q] is part of [u] *)
Lemma Reach_compose a0 u a q :
  (forall c, In c a -> Reach a0 u c) -> incl q u ->
  forall c, Reach a q c -> Reach a0 u c.
Proof.
  intros Ha Hq. refine (Reach_ind' a q (fun c => Reach a0 u c) _).
  intros c Hc Hd. apply Reach_intro; [apply Hq; exact Hc|].
  intros h Hh. right. destruct (Hd h Hh) as [H|[c' [H1 [H2 [_ H3]]]]].
  - apply has_hash_spec in H. destruct H as [c' [Hc' He]].
    exists c'. split; [exact (Reach_in _ _ _ (Ha c' Hc'))|]. split; [exact He|exact (Ha c' Hc')].
  - exists c'. split; [apply Hq; exact H1|]. split; [exact H2|exact H3].
Qed.

(* ------------------------------------------------------------------ *)
(* release                                                             *)

Lemma release_rect' (P : list change -> list change -> list change -> list change -> Prop) :
  (forall a q, P a q a q) ->
  (forall a q a' q', filter (ready a) q <> [] ->
     P (a ++ filter (ready a) q) (filter (fun c => negb (ready a c)) q) a' q' -> P a q a' q') ->
  forall fuel a q a' q', release fuel a q = (a', q') -> P a q a' q'.
Proof.
  intros Hb Hs fuel. induction fuel as [|f IH]; intros a q a' q' H; cbn [release] in H.
  - inversion H; subst. apply Hb.
  - destruct (filter (ready a) q) as [|x l] eqn:E.
    + inversion H; subst. apply Hb.
    + rewrite <- E in H. apply Hs; [rewrite E; discriminate|]. apply IH. exact H.
Qed.

Lemma release_perm : forall fuel a q a' q',
  release fuel a q = (a', q') -> Permutation (a ++ q) (a' ++ q').
Proof.
  apply (release_rect' (fun a q a' q' => Permutation (a ++ q) (a' ++ q'))).
  - intros a q. apply Permutation_refl.
  - intros a q a' q' _ IH. eapply Permutation_trans; [|exact IH].
    rewrite <- app_assoc. apply Permutation_app_head. apply filter_split_perm.
Qed.

Lemma release_extends : forall fuel a q a' q',
  release fuel a q = (a', q') -> exists r, a' = a ++ r.
Proof.
  apply (release_rect' (fun a q a' q' => exists r, a' = a ++ r)).
  - intros a q. exists []. symmetry. apply app_nil_r.
  - intros a q a' q' _ [r Hr]. exists (filter (ready a) q ++ r). rewrite Hr. symmetry. apply app_assoc.
Qed.

Lemma dep_closed_step a q : dep_closed a -> dep_closed (a ++ filter (ready a) q).
Proof.
  intros Hcl c Hc h Hh. rewrite has_hash_app. apply orb_true_iff. left.
  apply in_app_or in Hc. destruct Hc as [Hc|Hc].
  - exact (Hcl c Hc h Hh).
  - apply filter_In in Hc. destruct Hc as [_ Hr]. exact (proj1 (ready_spec a c) Hr h Hh).
Qed.

Lemma release_closed : forall fuel a q a' q',
  dep_closed a -> release fuel a q = (a', q') -> dep_closed a'.
Proof.
  intros fuel a q a' q' Hcl H. revert Hcl. revert fuel a q a' q' H.
  apply (release_rect' (fun a q a' q' => dep_closed a -> dep_closed a')).
  - intros a0 q0 Hcl. exact Hcl.
  - intros a0 q0 a1 q1 _ IH Hcl. apply IH. apply dep_closed_step. exact Hcl.
Qed.

Lemma release_fixpoint : forall fuel a q a' q',
  (length q < fuel)%nat -> release fuel a q = (a', q') ->
  forall c, In c q' -> ready a' c = false.
Proof.
  induction fuel as [|f IH]; intros a q a' q' Hl H c Hc; [lia|]. cbn [release] in H.
  destruct (filter (ready a) q) as [|x l] eqn:E.
  - inversion H; subst. exact (filter_nil_false _ _ E c Hc).
  - rewrite <- E in H. eapply IH; [|exact H|exact Hc].
    assert (Hne : filter (ready a) q <> []) by (rewrite E; discriminate).
    apply filter_neg_length in Hne. lia.
Qed.

(* soundness: whatever is released was reachable (no fuel or injectivity needed) *)
Lemma release_sound : forall fuel a q a' q',
  release fuel a q = (a', q') ->
  forall c, In c a' -> In c a \/ (In c q /\ Reach a q c).
Proof.
  apply (release_rect' (fun a q a' q' => forall c, In c a' -> In c a \/ (In c q /\ Reach a q c))).
  - intros a q c Hc. left. exact Hc.
  - intros a q a' q' _ IH c Hc.
    assert (Hrdy : forall x, In x (filter (ready a) q) -> In x q /\ Reach a q x).
    { intros x Hx. apply filter_In in Hx. destruct Hx as [Hx Hr].
      split; [exact Hx|apply Reach_ready; assumption]. }
    destruct (IH c Hc) as [Hin|[Hin Hr]].
    + apply in_app_or in Hin. destruct Hin as [Hin|Hin]; [left; exact Hin|right; exact (Hrdy c Hin)].
    + right. split; [exact (proj1 (proj1 (filter_In _ _ _) Hin))|].
      revert Hr. clear Hc Hin. revert c.
      refine (Reach_ind' _ _ (fun c => Reach a q c) _).
      intros c Hc Hd. apply Reach_intro; [exact (proj1 (proj1 (filter_In _ _ _) Hc))|].
      intros h Hh. destruct (Hd h Hh) as [H|[c' [H1 [H2 [_ H3]]]]].
      * rewrite has_hash_app in H. apply orb_true_iff in H. destruct H as [H|H]; [left; exact H|right].
        apply has_hash_spec in H. destruct H as [c' [Hc' He]]. destruct (Hrdy c' Hc') as [Hq Hr].
        exists c'. split; [exact Hq|]. split; [exact He|exact Hr].
      * right. exists c'. split; [exact (proj1 (proj1 (filter_In _ _ _) H1))|]. split; [exact H2|exact H3].
Qed.

(* completeness: with enough fuel every reachable queued change is released *)
Lemma release_complete : forall fuel a q a' q',
  (length q < fuel)%nat -> release fuel a q = (a', q') ->
  forall c, Reach a q c -> In c a'.
Proof.
  intros fuel a q a' q' Hl H.
  destruct (release_extends _ _ _ _ _ H) as [r Hr].
  refine (Reach_ind' a q (fun c => In c a') _).
  intros c Hc Hd.
  assert (Hrdy : ready a' c = true).
  { apply ready_spec. intros h Hh. destruct (Hd h Hh) as [Hh'|[c' [_ [H2 [_ H3]]]]].
    - rewrite Hr, has_hash_app, Hh'. reflexivity.
    - rewrite <- H2. apply has_hash_in. exact H3. }
  assert (Hin : In c (a' ++ q')).
  { apply (Permutation_in c (release_perm _ _ _ _ _ H)). apply in_or_app. right. exact Hc. }
  apply in_app_or in Hin. destruct Hin as [Hin|Hin]; [exact Hin|].
  rewrite (release_fixpoint _ _ _ _ _ Hl H c Hin) in Hrdy. discriminate.
Qed.

Theorem release_char_gen : forall fuel a q a' q',
  (length q < fuel)%nat -> release fuel a q = (a', q') ->
  forall c, In c a' <-> In c a \/ (In c q /\ Reach a q c).
Proof.
  intros fuel a q a' q' Hl H c. split.
  - apply (release_sound _ _ _ _ _ H).
  - intros [Hc|[_ Hr]].
    + destruct (release_extends _ _ _ _ _ H) as [r Hr]. rewrite Hr. apply in_or_app. left. exact Hc.
    + exact (release_complete _ _ _ _ _ Hl H c Hr).
Qed.

(* The requested statement is false without a side condition relating [a] and [q]
   (see [release_char_needs_side_condition] below): a change that is both applied and
   queued is "in a'" without being reachable.  [dep_closed a] (the invariant of
   [receive]) or disjointness of [a] and [q] repairs it.  [hash_inj] is not needed. *)
Theorem release_char : forall fuel a q a' q',
  (length q < fuel)%nat -> hash_inj (a ++ q) -> dep_closed a ->
  release fuel a q = (a', q') -> forall c, In c q -> (In c a' <-> Reach a q c).
Proof.
  intros fuel a q a' q' Hl _ Hcl H c Hq. rewrite (release_char_gen _ _ _ _ _ Hl H c). split.
  - intros [Hc|[_ Hr]]; [|exact Hr]. apply Reach_intro; [exact Hq|].
    intros h Hh. left. exact (Hcl c Hc h Hh).
  - intros Hr. right. split; assumption.
Qed.

Theorem release_char_disjoint : forall fuel a q a' q',
  (length q < fuel)%nat -> (forall c, In c a -> ~ In c q) ->
  release fuel a q = (a', q') -> forall c, In c q -> (In c a' <-> Reach a q c).
Proof.
  intros fuel a q a' q' Hl Hdis H c Hq. rewrite (release_char_gen _ _ _ _ _ Hl H c). split.
  - intros [Hc|[_ Hr]]; [|exact Hr]. destruct (Hdis c Hc Hq).
  - intros Hr. right. split; assumption.
Qed.

(* ------------------------------------------------------------------ *)
(* batch_push and receive                                              *)

(* C38: (actor, seq) pairs stay unique over applied ++ queue *)
Definition actor_seq_unique (cs : list change) : Prop :=
  forall c c', In c cs -> In c' cs -> ch_actor c = ch_actor c' -> ch_seq c = ch_seq c' -> ch_hash c = ch_hash c'.

Lemma same_actor_spec x y : same_actor x y = true <-> x = y.
Proof. unfold same_actor, nlist_eqb. apply list_eqb_spec. intros a b. apply N.eqb_eq. Qed.

Lemma has_actor_seq_spec l c :
  has_actor_seq l c = true <-> exists c', In c' l /\ ch_actor c' = ch_actor c /\ ch_seq c' = ch_seq c.
Proof.
  unfold has_actor_seq. rewrite existsb_exists. split; intros [c' [Hc H]]; exists c'; (split; [exact Hc|]).
  - apply andb_true_iff in H. destruct H as [H1 H2]. apply same_actor_spec in H1. apply N.eqb_eq in H2.
    split; assumption.
  - destruct H as [H1 H2]. apply andb_true_iff. split; [apply same_actor_spec; exact H1|apply N.eqb_eq; exact H2].
Qed.

Lemma actor_seq_unique_incl l l' : incl l l' -> actor_seq_unique l' -> actor_seq_unique l.
Proof. intros Hi H c c' Hc Hc'. apply H; apply Hi; assumption. Qed.

Lemma actor_seq_unique_app l r :
  actor_seq_unique l -> actor_seq_unique r ->
  (forall x y, In x l -> In y r -> ch_actor x = ch_actor y -> ch_seq x = ch_seq y -> ch_hash x = ch_hash y) ->
  actor_seq_unique (l ++ r).
Proof.
  intros Hl Hr Hx c c' Hc Hc' Ha Hs.
  apply in_app_or in Hc. apply in_app_or in Hc'. destruct Hc as [Hc|Hc]; destruct Hc' as [Hc'|Hc'].
  - apply Hl; assumption.
  - apply Hx; assumption.
  - symmetry. apply Hx; [assumption|assumption|symmetry; assumption|symmetry; assumption].
  - apply Hr; assumption.
Qed.

Lemma batch_push_spec d : forall cs b b', batch_push d b cs = Ok b' ->
  exists r, b' = b ++ r /\ incl r cs /\
    (forall c, In c r -> seq_for_actor (applied d) (ch_actor c) < ch_seq c /\ has_actor_seq (queue d) c = false) /\
    (forall c, In c cs -> has_hash b' (ch_hash c) = true) /\
    (actor_seq_unique b -> actor_seq_unique b').
Proof.
  induction cs as [|c t IH]; intros b b' H; cbn [batch_push] in H.
  - inversion H; subst. exists []. split; [symmetry; apply app_nil_r|]. split; [apply incl_refl|].
    split; [intros c []|]. split; [intros c []|]. intros Hu; exact Hu.
  - destruct (ch_seq c <=? seq_for_actor (applied d) (ch_actor c)) eqn:E1; [discriminate|].
    destruct (has_actor_seq (queue d) c) eqn:E2; [discriminate|].
    destruct (has_hash b (ch_hash c)) eqn:E3.
    + destruct (IH b b' H) as [r [Hb [Hi [Hr [Hh Hu]]]]]. exists r.
      split; [exact Hb|]. split; [apply incl_tl; exact Hi|]. split; [exact Hr|]. split; [|exact Hu].
      intros x [Hx|Hx]; [subst x|exact (Hh x Hx)]. rewrite Hb, has_hash_app, E3. reflexivity.
    + destruct (has_actor_seq b c) eqn:E4; [discriminate|].
      destruct (IH (b ++ [c]) b' H) as [r [Hb [Hi [Hr [Hh Hu]]]]]. exists (c :: r).
      split; [rewrite Hb, <- app_assoc; reflexivity|].
      split; [intros x [Hx|Hx]; [left; exact Hx|right; apply Hi; exact Hx]|].
      split; [intros x [Hx|Hx]; [subst x; split; [lia|exact E2]|exact (Hr x Hx)]|].
      split.
      * intros x [Hx|Hx]; [subst x|exact (Hh x Hx)].
        rewrite Hb. apply has_hash_in. apply in_or_app. left. apply in_or_app. right. left. reflexivity.
      * intros Hub. apply Hu. apply actor_seq_unique_app; [exact Hub| |].
        -- intros x y [Hx|[]] [Hy|[]]. subst x y. reflexivity.
        -- intros x y Hx [Hy|[]] Ha Hs. subst y. exfalso.
           assert (Hex : has_actor_seq b c = true).
           { apply has_actor_seq_spec. exists x. split; [exact Hx|]. split; assumption. }
           rewrite E4 in Hex. discriminate.
Qed.

Definition fresh_of (d : doc) (cs : list change) : list change :=
  filter (fun c => negb (has_hash (applied d) (ch_hash c) || has_hash (queue d) (ch_hash c))) cs.

Lemma receive_inv d cs d' : receive d cs = Ok d' ->
  exists batch, batch_push d [] (fresh_of d cs) = Ok batch /\
    release (S (length (queue d ++ batch))) (applied d) (queue d ++ batch) = (applied d', queue d').
Proof.
  unfold receive, fresh_of. intros H.
  destruct (batch_push d [] _) as [batch| |] eqn:E; cbn [bind] in H; try discriminate.
  destruct (release _ (applied d) (queue d ++ batch)) as [a' q'] eqn:Er.
  inversion H; subst. cbn [applied queue]. exists batch. split; [reflexivity|exact Er].
Qed.

(* a held change is not applied, and applied changes always have all their dependencies applied *)
Theorem receive_closed : forall d cs d',
  dep_closed (applied d) -> receive d cs = Ok d' -> dep_closed (applied d').
Proof.
  intros d cs d' Hcl H. destruct (receive_inv _ _ _ H) as [batch [_ Hr]].
  exact (release_closed _ _ _ _ _ Hcl Hr).
Qed.

Theorem receive_queue_not_ready : forall d cs d',
  receive d cs = Ok d' -> forall c, In c (queue d') -> ready (applied d') c = false.
Proof.
  intros d cs d' H c Hc. destruct (receive_inv _ _ _ H) as [batch [_ Hr]].
  refine (release_fixpoint _ _ _ _ _ _ Hr c Hc). lia.
Qed.

(* the state after [receive] in terms of the accepted batch *)
Lemma receive_perm d cs d' : receive d cs = Ok d' ->
  exists batch, incl batch (fresh_of d cs) /\
    (forall c, In c batch -> seq_for_actor (applied d) (ch_actor c) < ch_seq c /\ has_actor_seq (queue d) c = false) /\
    (forall c, In c (fresh_of d cs) -> has_hash batch (ch_hash c) = true) /\
    actor_seq_unique batch /\
    Permutation (applied d ++ queue d ++ batch) (applied d' ++ queue d').
Proof.
  intros H. destruct (receive_inv _ _ _ H) as [batch [Hb Hr]]. exists batch.
  destruct (batch_push_spec _ _ _ _ Hb) as [r [Hbr [Hi [Hc [Hh Hu]]]]]. cbn [app] in Hbr. subst r.
  split; [exact Hi|]. split; [exact Hc|]. split; [exact Hh|].
  split; [apply Hu; intros x y []|]. exact (release_perm _ _ _ _ _ Hr).
Qed.

Theorem receive_keeps : forall d cs d', receive d cs = Ok d' ->
    incl (applied d) (applied d') /\ incl (applied d ++ queue d) (applied d' ++ queue d') /\
    incl (applied d' ++ queue d') (applied d ++ queue d ++ cs) /\
    (forall c, In c cs -> has_hash (applied d') (ch_hash c) = true \/ has_hash (queue d') (ch_hash c) = true).
Proof.
  intros d cs d' H.
  destruct (receive_perm _ _ _ H) as [batch [Hi [_ [Hh [_ Hp]]]]].
  destruct (receive_inv _ _ _ H) as [batch' [_ Hr]].
  assert (K2 : incl (applied d ++ queue d ++ batch) (applied d' ++ queue d')).
  { intros c Hc. exact (Permutation_in c Hp Hc). }
  split; [|split; [|split]].
  - destruct (release_extends _ _ _ _ _ Hr) as [r ->]. apply incl_appl. apply incl_refl.
  - intros c Hc. apply K2. rewrite app_assoc. apply in_or_app. left. exact Hc.
  - intros c Hc. apply (Permutation_in c (Permutation_sym Hp)) in Hc.
    rewrite app_assoc in Hc. rewrite app_assoc. apply in_app_or in Hc. apply in_or_app.
    destruct Hc as [Hc|Hc]; [left; exact Hc|right].
    apply Hi in Hc. unfold fresh_of in Hc. apply filter_In in Hc. exact (proj1 Hc).
  - intros c Hc. apply orb_true_iff. rewrite <- has_hash_app. apply (has_hash_incl _ _ _ K2).
    rewrite app_assoc, has_hash_app.
    destruct (has_hash (applied d) (ch_hash c) || has_hash (queue d) (ch_hash c)) eqn:E.
    + rewrite has_hash_app, E. reflexivity.
    + rewrite (Hh c); [apply orb_true_r|]. unfold fresh_of. apply filter_In. split; [exact Hc|].
      rewrite E. reflexivity.
Qed.

(* ------------------------------------------------------------------ *)
(* order independence of runs                                          *)

Fixpoint run (d : doc) (batches : list (list change)) : res doc :=
  match batches with [] => Ok d | b :: t => let* d' := receive d b in run d' t end.

(* state of a document after the set [D] has been delivered *)
Definition run_inv (D : list change) (d : doc) : Prop :=
  incl (applied d ++ queue d) D /\
  (forall c, In c D -> In c (applied d) \/ In c (queue d)) /\
  (forall c, In c (applied d) -> Reach [] D c) /\
  (forall c, In c (queue d) -> ~ Reach [] D c).

Lemma run_inv_empty : run_inv [] empty_doc.
Proof.
  unfold run_inv, empty_doc; cbn [applied queue app].
  split; [apply incl_refl|]. split; [intros c []|]. split; intros c [].
Qed.

Lemma run_inv_applied D d : run_inv D d ->
  forall c, In c (applied d) <-> (In c D /\ Reach [] D c).
Proof.
  intros [HS [HC [HA HQ]]] c. split.
  - intros Hc. split; [apply HS; apply in_or_app; left; exact Hc|exact (HA c Hc)].
  - intros [Hc Hr]. destruct (HC c Hc) as [H|H]; [exact H|]. destruct (HQ c H Hr).
Qed.

Lemma run_inv_queue D d : run_inv D d ->
  forall c, In c (queue d) <-> (In c D /\ ~ Reach [] D c).
Proof.
  intros [HS [HC [HA HQ]]] c. split.
  - intros Hc. split; [apply HS; apply in_or_app; right; exact Hc|exact (HQ c Hc)].
  - intros [Hc Hr]. destruct (HC c Hc) as [H|H]; [|exact H]. destruct (Hr (HA c H)).
Qed.

Lemma receive_run_inv U D d b d' :
  hash_inj U -> incl (D ++ b) U -> run_inv D d -> receive d b = Ok d' -> run_inv (D ++ b) d'.
Proof.
  intros Hinj HU [HS [HC [HA HQ]]] H.
  destruct (receive_keeps _ _ _ H) as [K1 [K2 [K3 K4]]].
  destruct (receive_inv _ _ _ H) as [batch [Hbp Hrel]].
  assert (HS' : incl (applied d' ++ queue d') (D ++ b)).
  { intros c Hc. apply K3 in Hc. rewrite app_assoc in Hc. apply in_app_or in Hc. apply in_or_app.
    destruct Hc as [Hc|Hc]; [left; apply HS; exact Hc|right; exact Hc]. }
  assert (HC' : forall c, In c (D ++ b) -> In c (applied d') \/ In c (queue d')).
  { intros c Hc. apply in_app_or in Hc. destruct Hc as [Hc|Hc].
    - apply in_app_or. apply K2. apply in_or_app. exact (HC c Hc).
    - assert (Hex : exists c', In c' (applied d' ++ queue d') /\ ch_hash c' = ch_hash c).
      { apply has_hash_spec. rewrite has_hash_app. apply orb_true_iff. exact (K4 c Hc). }
      destruct Hex as [c' [Hc' He]].
      assert (c' = c).
      { apply Hinj; [apply HU; apply HS'; exact Hc'|apply HU; apply in_or_app; right; exact Hc|exact He]. }
      subst c'. apply in_app_or. exact Hc'. }
  (* everything reachable in the new delivered set has all its dependencies applied *)
  assert (Hready : forall c, Reach [] (D ++ b) c -> ready (applied d') c = true).
  { refine (Reach_ind' [] (D ++ b) (fun c => ready (applied d') c = true) _).
    intros c _ Hd. apply ready_spec. intros h Hh.
    destruct (Hd h Hh) as [Hf|[c' [H1 [H2 [_ H3]]]]]; [discriminate Hf|].
    rewrite <- H2. apply has_hash_in. destruct (HC' c' H1) as [Hin|Hin]; [exact Hin|].
    rewrite (receive_queue_not_ready _ _ _ H c' Hin) in H3. discriminate. }
  split; [exact HS'|]. split; [exact HC'|]. split.
  - intros c Hc. destruct (release_sound _ _ _ _ _ Hrel c Hc) as [Hin|[Hin Hr]].
    + apply (Reach_mono [] D); [intros h Hh; exact Hh|apply incl_appl; apply incl_refl|exact (HA c Hin)].
    + apply (Reach_compose [] (D ++ b) (applied d) (queue d ++ batch)); [| |exact Hr].
      * intros x Hx. apply (Reach_mono [] D); [intros h Hh; exact Hh|apply incl_appl; apply incl_refl|exact (HA x Hx)].
      * intros x Hx. apply HS'. apply (Permutation_in x (release_perm _ _ _ _ _ Hrel)).
        apply in_or_app. right. exact Hx.
  - intros c Hc Hr. specialize (Hready c Hr).
    rewrite (receive_queue_not_ready _ _ _ H c Hc) in Hready. discriminate.
Qed.

Lemma run_run_inv U : forall batches D d d',
  hash_inj U -> incl (D ++ concat batches) U -> run_inv D d -> run d batches = Ok d' ->
  run_inv (D ++ concat batches) d'.
Proof.
  induction batches as [|b t IH]; intros D d d' Hinj HU Hi H; cbn [run concat] in *.
  - inversion H; subst. rewrite app_nil_r. exact Hi.
  - destruct (receive d b) as [d1| |] eqn:E; cbn [bind] in H; try discriminate.
    rewrite app_assoc. rewrite app_assoc in HU. apply (IH (D ++ b) d1 d' Hinj HU); [|exact H].
    apply (receive_run_inv U D d b d1 Hinj); [|exact Hi|exact E].
    intros x Hx. apply HU. apply in_or_app. left. exact Hx.
Qed.

Lemma run_empty_inv batches d :
  hash_inj (concat batches) -> run empty_doc batches = Ok d -> run_inv (concat batches) d.
Proof.
  intros Hinj H.
  exact (run_run_inv (concat batches) batches [] empty_doc d Hinj (incl_refl _) run_inv_empty H).
Qed.

Theorem run_applied_char : forall batches d,
  hash_inj (concat batches) -> run empty_doc batches = Ok d ->
  forall c, In c (applied d) <-> (In c (concat batches) /\ Reach [] (concat batches) c).
Proof. intros batches d Hinj H. exact (run_inv_applied _ _ (run_empty_inv _ _ Hinj H)). Qed.

Theorem run_queue_char : forall batches d,
  hash_inj (concat batches) -> run empty_doc batches = Ok d ->
  forall c, In c (queue d) <-> (In c (concat batches) /\ ~ Reach [] (concat batches) c).
Proof. intros batches d Hinj H. exact (run_inv_queue _ _ (run_empty_inv _ _ Hinj H)). Qed.

Lemma Reach_same_set a u u' : (forall c, In c u <-> In c u') -> forall c, Reach a u c <-> Reach a u' c.
Proof.
  intros Hs c. split; apply Reach_mono; try (intros h Hh; exact Hh); intros x Hx; apply Hs; exact Hx.
Qed.

(* hence: two error-free runs delivering the same set of changes apply the same set *)
Theorem run_order_independent : forall b1 b2 d1 d2,
  hash_inj (concat b1 ++ concat b2) ->
  (forall c, In c (concat b1) <-> In c (concat b2)) ->
  run empty_doc b1 = Ok d1 -> run empty_doc b2 = Ok d2 ->
  (forall c, In c (applied d1) <-> In c (applied d2)) /\ (forall c, In c (queue d1) <-> In c (queue d2)).
Proof.
  intros b1 b2 d1 d2 Hinj Hs H1 H2.
  assert (Hi1 : hash_inj (concat b1)) by (apply (hash_inj_incl _ _ (incl_appl _ (incl_refl _)) Hinj)).
  assert (Hi2 : hash_inj (concat b2)) by (apply (hash_inj_incl _ _ (incl_appr _ (incl_refl _)) Hinj)).
  split; intros c.
  - rewrite (run_applied_char _ _ Hi1 H1 c), (run_applied_char _ _ Hi2 H2 c).
    rewrite (Hs c), (Reach_same_set [] _ _ Hs c). reflexivity.
  - rewrite (run_queue_char _ _ Hi1 H1 c), (run_queue_char _ _ Hi2 H2 c).
    rewrite (Hs c), (Reach_same_set [] _ _ Hs c). reflexivity.
Qed.

(* ------------------------------------------------------------------ *)
(* C38: uniqueness of (actor, seq)                                     *)

(* [p] is a transitive dependency of [c] inside the universe [u] *)
Inductive tdep (u : list change) : change -> change -> Prop :=
| tdep_one c p : In p u -> In (ch_hash p) (ch_deps c) -> tdep u c p
| tdep_more c m p : In m u -> In (ch_hash m) (ch_deps c) -> tdep u m p -> tdep u c p.

(* every change of the universe has seq <= 1 or has its actor's previous change among
   its transitive dependencies *)
Definition seq_chain (u : list change) : Prop :=
  forall c, In c u -> ch_seq c <= 1 \/
    exists p, tdep u c p /\ ch_actor p = ch_actor c /\ ch_seq p + 1 = ch_seq c.

(* no applied change has a seq above the number of applied changes of its actor *)
Definition seq_bounded (a : list change) : Prop :=
  forall c, In c a -> ch_seq c <= seq_for_actor a (ch_actor c).

Definition Inv (u : list change) (d : doc) : Prop :=
  incl (applied d ++ queue d) u /\ dep_closed (applied d) /\ seq_bounded (applied d) /\
  (forall c, In c (applied d ++ queue d) -> 1 <= ch_seq c) /\
  actor_seq_unique (applied d ++ queue d).

Lemma Inv_empty u : Inv u empty_doc.
Proof.
  unfold Inv, empty_doc; cbn [applied queue app].
  split; [intros c []|]. split; [intros c []|]. split; [intros c []|]. split; [intros c []|intros c c' []].
Qed.

Lemma Inv_actor_seq_unique u d : Inv u d -> actor_seq_unique (applied d ++ queue d).
Proof. intros [_ [_ [_ [_ H]]]]. exact H. Qed.

(* with [actor_seq_unique]: the applied changes of an actor with n applied changes carry
   pairwise different sequence numbers within 1..n *)
Lemma Inv_seq_range u d : Inv u d ->
  forall c, In c (applied d) -> 1 <= ch_seq c <= seq_for_actor (applied d) (ch_actor c).
Proof.
  intros [_ [_ [Hb [Hpos _]]]] c Hc. split; [apply Hpos; apply in_or_app; left; exact Hc|exact (Hb c Hc)].
Qed.

Lemma seq_for_actor_app a b x : seq_for_actor (a ++ b) x = seq_for_actor a x + seq_for_actor b x.
Proof. unfold seq_for_actor. rewrite filter_app, app_length. lia. Qed.

Lemma seq_for_actor_in l c : In c l -> 1 <= seq_for_actor l (ch_actor c).
Proof.
  intros Hc. unfold seq_for_actor.
  pose proof (filter_in_length (fun c' => same_actor (ch_actor c') (ch_actor c)) l c Hc) as H.
  assert (Hs : same_actor (ch_actor c) (ch_actor c) = true) by (apply same_actor_spec; reflexivity).
  specialize (H Hs). lia.
Qed.

(* transitive dependencies of a change whose direct dependencies are in a closed set are in it *)
Lemma tdep_closed u a : hash_inj u -> incl a u -> dep_closed a ->
  forall c p, tdep u c p -> (forall h, In h (ch_deps c) -> has_hash a h = true) -> In p a.
Proof.
  intros Hinj Hi Hcl.
  assert (Hone : forall c m, In m u -> In (ch_hash m) (ch_deps c) ->
            (forall h, In h (ch_deps c) -> has_hash a h = true) -> In m a).
  { intros c m Hm Hh Hd. specialize (Hd _ Hh). apply has_hash_spec in Hd. destruct Hd as [m' [Hm' He]].
    assert (m' = m) by (apply Hinj; [apply Hi; exact Hm'|exact Hm|exact He]). subst m'. exact Hm'. }
  intros c p Ht. induction Ht as [c p Hp Hh|c m p Hm Hh Ht IH]; intros Hd.
  - exact (Hone c p Hp Hh Hd).
  - apply IH. exact (Hcl m (Hone c m Hm Hh Hd)).
Qed.

Lemma seq_bounded_step u a q :
  hash_inj u -> seq_chain u -> incl (a ++ q) u -> dep_closed a -> seq_bounded a ->
  seq_bounded (a ++ filter (ready a) q).
Proof.
  intros Hinj Hch Hi Hcl Hb c Hc. rewrite seq_for_actor_app.
  apply in_app_or in Hc. destruct Hc as [Hc|Hc].
  - specialize (Hb c Hc). lia.
  - pose proof (seq_for_actor_in _ _ Hc) as H1.
    apply filter_In in Hc. destruct Hc as [Hq Hr].
    assert (Hu : In c u) by (apply Hi; apply in_or_app; right; exact Hq).
    destruct (Hch c Hu) as [Hle|[p [Ht [Ha Hs]]]]; [lia|].
    assert (Hp : In p a).
    { apply (tdep_closed u a Hinj) with (c := c); [|exact Hcl|exact Ht|exact (proj1 (ready_spec a c) Hr)].
      intros x Hx. apply Hi. apply in_or_app. left. exact Hx. }
    specialize (Hb p Hp). rewrite Ha in Hb. lia.
Qed.

Lemma release_seq_bounded u : hash_inj u -> seq_chain u ->
  forall fuel a q a' q', release fuel a q = (a', q') ->
  incl (a ++ q) u -> dep_closed a -> seq_bounded a -> seq_bounded a'.
Proof.
  intros Hinj Hch.
  apply (release_rect' (fun a q a' q' => incl (a ++ q) u -> dep_closed a -> seq_bounded a -> seq_bounded a')).
  - intros a q _ _ Hb. exact Hb.
  - intros a q a' q' _ IH Hi Hcl Hb. apply IH.
    + intros x Hx. apply Hi. rewrite <- app_assoc in Hx.
      apply in_app_or in Hx. apply in_or_app. destruct Hx as [Hx|Hx]; [left; exact Hx|right].
      exact (Permutation_in x (Permutation_sym (filter_split_perm (ready a) q)) Hx).
    + apply dep_closed_step. exact Hcl.
    + apply (seq_bounded_step u); assumption.
Qed.

Theorem receive_actor_seq_unique : forall u d cs d',
  hash_inj u -> seq_chain u -> incl cs u ->
  Inv u d -> receive d cs = Ok d' -> Inv u d'.
Proof.
  intros u d cs d' Hinj Hch Hcs [HI [Hcl [Hb [Hpos Hu]]]] H.
  destruct (receive_keeps _ _ _ H) as [_ [_ [K3 _]]].
  destruct (receive_perm _ _ _ H) as [batch [Hbi [Hbc [_ [Hbu Hp]]]]].
  destruct (receive_inv _ _ _ H) as [batch' [_ Hrel]].
  assert (HI' : incl (applied d' ++ queue d') u).
  { intros c Hc. apply K3 in Hc. rewrite app_assoc in Hc. apply in_app_or in Hc.
    destruct Hc as [Hc|Hc]; [apply HI; exact Hc|apply Hcs; exact Hc]. }
  split; [exact HI'|]. split; [exact (receive_closed _ _ _ Hcl H)|]. split.
  - apply (release_seq_bounded u Hinj Hch _ _ _ _ _ Hrel); [|exact Hcl|exact Hb].
    intros c Hc. apply HI'. exact (Permutation_in c (release_perm _ _ _ _ _ Hrel) Hc).
  - split.
    { intros c Hc. apply (Permutation_in c (Permutation_sym Hp)) in Hc. rewrite app_assoc in Hc.
      apply in_app_or in Hc. destruct Hc as [Hc|Hc]; [exact (Hpos c Hc)|].
      destruct (Hbc c Hc) as [Hlt _]. lia. }
    apply (actor_seq_unique_incl _ (applied d ++ queue d ++ batch)).
    { intros c Hc. exact (Permutation_in c (Permutation_sym Hp) Hc). }
    rewrite app_assoc. apply actor_seq_unique_app; [exact Hu|exact Hbu|].
    intros x y Hx Hy Ha Hs. exfalso. destruct (Hbc y Hy) as [Hlt Hq].
    apply in_app_or in Hx. destruct Hx as [Hx|Hx].
    + specialize (Hb x Hx). rewrite Ha in Hb. lia.
    + assert (Hex : has_actor_seq (queue d) y = true).
      { apply has_actor_seq_spec. exists x. split; [exact Hx|]. split; assumption. }
      rewrite Hq in Hex. discriminate.
Qed.

Corollary run_actor_seq_unique : forall u batches d,
  hash_inj u -> seq_chain u -> incl (concat batches) u ->
  run empty_doc batches = Ok d -> actor_seq_unique (applied d ++ queue d).
Proof.
  intros u batches d Hinj Hch Hi H. apply (Inv_actor_seq_unique u).
  assert (G : forall bs d0 d1, incl (concat bs) u -> Inv u d0 -> run d0 bs = Ok d1 -> Inv u d1).
  { induction bs as [|b t IH]; intros d0 d1 Hbs Hinv Hr; cbn [run concat] in *.
    - inversion Hr; subst. exact Hinv.
    - destruct (receive d0 b) as [d2| |] eqn:E; cbn [bind] in Hr; try discriminate.
      apply (IH d2 d1); [intros x Hx; apply Hbs; apply in_or_app; right; exact Hx| |exact Hr].
      apply (receive_actor_seq_unique u d0 b d2 Hinj Hch); [|exact Hinv|exact E].
      intros x Hx. apply Hbs. apply in_or_app. left. exact Hx. }
  exact (G batches empty_doc d Hi (Inv_empty u) H).
Qed.

(* ------------------------------------------------------------------ *)
(* examples: the hypotheses are satisfiable, the side conditions are needed *)

Module Examples.
  (* actor [1]: cA (seq 1) <- cB (seq 2) <- ... <- cE (seq 3, reaching cB only through cC);
     actor [2]: cC (seq 1, depends on cB) <- cD (seq 2, also depends on the unknown hash 9) *)
  Definition cA := mkChange 1 [1] 1 1 [] [].
  Definition cB := mkChange 2 [1] 2 2 [1] [].
  Definition cC := mkChange 3 [2] 1 1 [2] [].
  Definition cD := mkChange 4 [2] 2 2 [3; 9] [].
  Definition cE := mkChange 5 [1] 3 3 [3] [].
  Definition univ := [cA; cB; cC; cD; cE].
  Definition run1 := [[cE; cC]; [cD; cB]; [cA; cC]].
  Definition run2 := [[cA; cB; cC; cD; cE]].

  Example univ_hash_inj : hash_inj univ.
  Proof.
    apply NoDup_hash_inj. vm_compute.
    repeat (constructor; [cbn [In]; intros H; repeat (destruct H as [H|H]; [discriminate H|]); exact H|]).
    constructor.
  Qed.

  Example run1_ok : run empty_doc run1 = Ok (mkDoc [cA; cB; cC; cE] [cD]).
  Proof. vm_compute. reflexivity. Qed.
  Example run2_ok : run empty_doc run2 = Ok (mkDoc [cA; cB; cC; cE] [cD]).
  Proof. vm_compute. reflexivity. Qed.

  Example run1_hash_inj : hash_inj (concat run1).
  Proof.
    apply (hash_inj_incl _ univ); [|exact univ_hash_inj].
    intros c Hc. vm_compute in Hc. unfold univ. cbn [In].
    repeat (destruct Hc as [Hc|Hc]; [subst c; vm_compute; tauto|]). destruct Hc.
  Qed.

  Example run12_hash_inj : hash_inj (concat run1 ++ concat run2).
  Proof.
    apply (hash_inj_incl _ univ); [|exact univ_hash_inj].
    intros c Hc. vm_compute in Hc. unfold univ. cbn [In].
    repeat (destruct Hc as [Hc|Hc]; [subst c; vm_compute; tauto|]). destruct Hc.
  Qed.

  Example run12_same_set : forall c, In c (concat run1) <-> In c (concat run2).
  Proof.
    intros c. split; intros Hc; vm_compute in Hc; vm_compute;
      repeat (destruct Hc as [Hc|Hc]; [subst c; tauto|]); destruct Hc.
  Qed.

  (* instance of the main theorems *)
  Example cE_reachable : Reach [] (concat run1) cE.
  Proof. apply (run_applied_char run1 _ run1_hash_inj run1_ok). vm_compute. tauto. Qed.
  Example cD_not_reachable : ~ Reach [] (concat run1) cD.
  Proof. apply (run_queue_char run1 _ run1_hash_inj run1_ok). vm_compute. tauto. Qed.
  Example run12_agree :
    (forall c, In c [cA; cB; cC; cE] <-> In c [cA; cB; cC; cE]) /\ (forall c, In c [cD] <-> In c [cD]).
  Proof. exact (run_order_independent run1 run2 _ _ run12_hash_inj run12_same_set run1_ok run2_ok). Qed.

  (* release: hypotheses of release_char *)
  Example release_ok : release 3 [] [cB; cA] = ([cA; cB], []).
  Proof. vm_compute. reflexivity. Qed.
  Example release_hyps : (length [cB; cA] < 3)%nat /\ hash_inj ([] ++ [cB; cA]) /\ dep_closed [].
  Proof.
    split; [cbn; lia|]. split; [|intros c []].
    apply (hash_inj_incl _ univ); [|exact univ_hash_inj].
    intros c Hc. vm_compute in Hc. unfold univ. cbn [In].
    repeat (destruct Hc as [Hc|Hc]; [subst c; vm_compute; tauto|]). destruct Hc.
  Qed.

  (* the chain hypothesis of receive_actor_seq_unique holds of [univ] *)
  Example univ_seq_chain : seq_chain univ.
  Proof.
    intros c Hc. unfold univ in Hc. cbn [In] in Hc.
    destruct Hc as [Hc|[Hc|[Hc|[Hc|[Hc|[]]]]]]; subst c.
    - left. vm_compute. discriminate.
    - right. exists cA. split; [apply tdep_one; vm_compute; tauto|]. split; reflexivity.
    - left. vm_compute. discriminate.
    - right. exists cC. split; [apply tdep_one; vm_compute; tauto|]. split; reflexivity.
    - right. exists cB. split; [|split; reflexivity].
      apply (tdep_more univ cE cC cB); [vm_compute; tauto|vm_compute; tauto|].
      apply tdep_one; vm_compute; tauto.
  Qed.
  Example run1_actor_seq_unique : actor_seq_unique ([cA; cB; cC; cE] ++ [cD]).
  Proof.
    apply (run_actor_seq_unique univ run1 (mkDoc [cA; cB; cC; cE] [cD]) univ_hash_inj univ_seq_chain);
      [|exact run1_ok].
    intros c Hc. vm_compute in Hc. unfold univ. cbn [In].
    repeat (destruct Hc as [Hc|Hc]; [subst c; vm_compute; tauto|]). destruct Hc.
  Qed.

  (* release_char as requested (without a condition relating [a] and [q]) is false:
     a change that is both applied and queued and lacks a dependency *)
  Definition cX := mkChange 7 [3] 1 1 [99] [].
  Example release_char_needs_side_condition :
    (length [cX] < 2)%nat /\ hash_inj ([cX] ++ [cX]) /\ release 2 [cX] [cX] = ([cX], [cX]) /\
    In cX [cX] /\ In cX [cX] /\ ~ Reach [cX] [cX] cX.
  Proof.
    split; [cbn; lia|]. split.
    { intros c c' Hc Hc' _. cbn [app In] in Hc, Hc'.
      destruct Hc as [Hc|[Hc|[]]]; destruct Hc' as [Hc'|[Hc'|[]]]; congruence. }
    split; [vm_compute; reflexivity|]. split; [left; reflexivity|]. split; [left; reflexivity|].
    intros Hr. destruct (Reach_deps _ _ _ Hr 99 (or_introl eq_refl)) as [H|[c' [Hc' [He _]]]].
    - vm_compute in H. discriminate H.
    - destruct Hc' as [Hc'|[]]. subst c'. vm_compute in He. discriminate He.
  Qed.

  (* C38 does not hold of the model in general: [seq_for_actor] counts applied changes, so
     a first change with seq 5 is accepted (contiguity breaks: seq 5 with one applied change),
     and a second, different change with the same (actor, seq) passes every check. *)
  Definition x1 := mkChange 1 [7] 5 1 [] [].
  Definition x2 := mkChange 2 [7] 5 1 [] [].
  Example contiguity_not_preserved :
    receive empty_doc [x1] = Ok (mkDoc [x1] []) /\ ~ seq_bounded [x1].
  Proof.
    split; [vm_compute; reflexivity|]. intros H. specialize (H x1 (or_introl eq_refl)).
    vm_compute in H. apply H. reflexivity.
  Qed.
  Example actor_seq_not_preserved :
    run empty_doc [[x1]; [x2]] = Ok (mkDoc [x1; x2] []) /\
    hash_inj [x1; x2] /\ actor_seq_unique (applied empty_doc ++ queue empty_doc) /\
    ~ actor_seq_unique ([x1; x2] ++ []).
  Proof.
    split; [vm_compute; reflexivity|]. split.
    { apply NoDup_hash_inj. vm_compute.
      repeat (constructor; [cbn [In]; intros H; repeat (destruct H as [H|H]; [discriminate H|]); exact H|]).
      constructor. }
    split; [intros c c' []|]. intros H.
    specialize (H x1 x2 (or_introl eq_refl) (or_intror (or_introl eq_refl)) eq_refl eq_refl).
    discriminate H.
  Qed.
  (* within one batch the duplicate is caught *)
  Example same_batch_rejected : receive empty_doc [x1; x2] = Err.
  Proof. vm_compute. reflexivity. Qed.
End Examples.

Print Assumptions release_char_gen.
Print Assumptions release_char.
Print Assumptions receive_closed.
Print Assumptions receive_queue_not_ready.
Print Assumptions receive_keeps.
Print Assumptions receive_actor_seq_unique.
Print Assumptions run_applied_char.
Print Assumptions run_queue_char.
Print Assumptions run_order_independent.
