(* Crdt/Render.v — the serde export of the current state (C32) and the JSON import / export of the CLI (C33).

   (1) rust/automerge/src/autoserde.rs after fix 5bd3832f2.  AutoSerde walks the document from the root:
     AutoSerdeMap  : serialize_map(Some(doc.length(obj))); for key in doc.keys(obj): entry(key, doc.get(obj, key))
     AutoSerdeSeq  : serialize_seq(None);                  for i in 0..doc.length(obj): element(doc.get(obj, i))
     AutoSerdeVal  : Map | Table -> AutoSerdeMap, List -> AutoSerdeSeq, Text -> doc.text(obj) as a string,
                     scalar -> #[derive(Serialize)] #[serde(untagged)] on ScalarValue: Bytes as a sequence of u8
                     (announcing its length), Str, Int, Uint, F64, Counter and Timestamp as i64, Boolean, Null as unit,
                     Unknown as a struct of two fields.
   doc.get returns the winner of a register (the greatest op id: the last entry of a [regobs]); doc.keys / doc.length
   range over the keys / elements that have a visible value, which is what an observation [obs] (Crdt/Interp.v) lists.
   [render] produces the tree of serializer calls, with the length every container ANNOUNCED next to the children it
   actually emitted.  get(..).unwrap().unwrap() is None here when there is nothing to unwrap.

   (2) rust/automerge-cli/src/import.rs / export.rs over an abstract document value [dval] (the ops the editing calls
   create are Crdt/Local.v's subject): import_map / import_list put / insert the members in order (numbers: as_i64, else
   as_u64, else as_f64), export = serde_json::to_value(AutoSerde).  JSON numbers are serde_json's three kinds.
   No proofs here (Crdt/RenderProofs.v). *)
From AM Require Import Base.Prelude Base.Order Crdt.Types Crdt.Interp.
Local Open Scope N_scope.

Inductive jt :=
| JNull | JBool (b : bool) | JI64 (z : Z) | JU64 (n : N) | JF64 (bits : N) | JStr (s : list N)
| JUnknown (t : N) (b : list N)
| JSeq (announced : option nat) (items : list jt)
| JMap (announced : option nat) (entries : list (list N * jt)).

Definition scalar_jt (s : scalar) : jt :=
  match s with
  | SNull => JNull | SBool b => JBool b | SInt z => JI64 z | SUint n => JU64 n | SF64 b => JF64 b
  | SStr s => JStr s
  | SBytes b => JSeq (Some (length b)) (map JU64 b)
  | SCounter z => JI64 z | STimestamp z => JI64 z
  | SUnknown t b => JUnknown t b
  end.

Fixpoint map_opt {A B} (f : A -> option B) (l : list A) : option (list B) :=
  match l with
  | [] => Some []
  | x :: t => match f x, map_opt f t with Some y, Some r => Some (y :: r) | _, _ => None end
  end.

Definition find_obj (ob : obs) (id : opid) : option oobs := find (fun o => opid_eqb (oo_id o) id) ob.

(* fuel: nesting depth (an observation has finitely many objects; running out is None) *)
Fixpoint render (fuel : nat) (ob : obs) (id : opid) (ty : objtype) : option jt :=
  match fuel with
  | O => None
  | S f =>
    let val (r : regobs) : option jt :=
      match winner r with
      | Some (_, VS s) => Some (scalar_jt s)
      | Some (_, VC z) => Some (JI64 z)
      | Some (i, VO t) => render f ob i t
      | None => None
      end in
    match find_obj ob id with
    | None => None
    | Some o =>
      match ty, oo_entries o with
      | OText, _ => Some (JStr (text_of o))
      | OList, EL l => match map_opt val l with Some items => Some (JSeq None items) | None => None end
      | (OMap | OTable), EM l =>
        match map_opt (fun kr => match val (snd kr) with Some v => Some (fst kr, v) | None => None end) l with
        | Some es => Some (JMap (Some (length l)) es)        (* doc.length(obj) = the number of keys *)
        | None => None
        end
      | _, _ => None
      end
    end
  end.

Definition export_root (ob : obs) : option jt := render (S (length ob)) ob root_id OMap.

(* every container announced exactly the number of children it emitted (or nothing) *)
Definition ann_ok1 (a : option nat) (n : nat) : bool := match a with None => true | Some k => (k =? n)%nat end.
Fixpoint ann_ok (t : jt) : bool :=
  match t with
  | JSeq a items => ann_ok1 a (length items) && forallb ann_ok items
  | JMap a es => ann_ok1 a (length es) && forallb (fun e => ann_ok (snd e)) es
  | _ => true
  end.

(* ---------------- (2) CLI JSON ---------------- *)
Inductive json :=
| JN | JB (b : bool)
| JPos (n : N)            (* serde_json Number::PosInt: 0 ..= u64::MAX *)
| JNeg (z : Z)            (* Number::NegInt: i64::MIN ..= -1 *)
| JFl (bits : N)          (* Number::Float, finite *)
| JS (s : list N)
| JA (l : list json)
| JO (l : list (list N * json)).

(* the document as a value tree: what hydrate / AutoSerde see of a single-actor document *)
Inductive dval := DS (s : scalar) | DL (l : list dval) | DM (l : list (list N * dval)).

Definition i64_max : N := 9223372036854775807.

(* put on a map value: replace the key's entry or append it *)
Fixpoint dput {A} (m : list (list N * A)) (k : list N) (v : A) : list (list N * A) :=
  match m with
  | [] => [(k, v)]
  | (k', v') :: t => if nlist_eqb k' k then (k, v) :: t else (k', v') :: dput t k v
  end.

Fixpoint import_val (j : json) : dval :=
  match j with
  | JN => DS SNull
  | JB b => DS (SBool b)
  | JPos n => if n <=? i64_max then DS (SInt (Z.of_N n)) else DS (SUint n)     (* as_i64, else as_u64 *)
  | JNeg z => DS (SInt z)
  | JFl b => DS (SF64 b)
  | JS s => DS (SStr s)
  | JA l => DL (map import_val l)                                             (* insert(obj, i, ..) for i = 0, 1, .. *)
  | JO l => DM (fold_left (fun m kv => dput m (fst kv) (import_val (snd kv))) l [])   (* put(obj, key, ..) in order *)
  end.

Definition export_scalar (s : scalar) : json :=
  match s with
  | SNull => JN | SBool b => JB b
  | SInt z => if (z <? 0)%Z then JNeg z else JPos (Z.to_N z)                   (* serialize_i64 -> PosInt / NegInt *)
  | SUint n => JPos n
  | SF64 b => JFl b
  | SStr s => JS s
  | SCounter z | STimestamp z => if (z <? 0)%Z then JNeg z else JPos (Z.to_N z)
  | SBytes b => JA (map JPos b)
  | SUnknown t b => JO [([116], JPos t); ([98], JA (map JPos b))]
  end.

Fixpoint export_val (d : dval) : json :=
  match d with
  | DS s => export_scalar s
  | DL l => JA (map export_val l)
  | DM l => JO (map (fun kv => (fst kv, export_val (snd kv))) l)
  end.

(* the JSON values the CLI can be given: numbers inside serde_json's ranges, object keys unique *)
Fixpoint nodup_keys {A} (l : list (list N * A)) : bool :=
  match l with
  | [] => true
  | (k, _) :: t => negb (existsb (fun kv => nlist_eqb (fst kv) k) t) && nodup_keys t
  end.
Fixpoint canon (j : json) : bool :=
  match j with
  | JPos n => n <=? 18446744073709551615
  | JNeg z => (z <? 0)%Z && (-9223372036854775808 <=? z)%Z
  | JA l => forallb canon l
  | JO l => nodup_keys l && forallb (fun kv => canon (snd kv)) l
  | _ => true
  end.
