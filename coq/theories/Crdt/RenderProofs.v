(* Crdt/RenderProofs.v — proofs for Crdt/Render.v (C32, C33). *)
From AM Require Import Base.Prelude Base.Order Crdt.Types Crdt.Interp Crdt.Render.
Local Open Scope N_scope.

Lemma map_opt_forall2 {A B} (f : A -> option B) l r :
  map_opt f l = Some r -> Forall2 (fun x y => f x = Some y) l r.
Proof.
  revert r. induction l as [|x t IH]; intros r H; cbn [map_opt] in H.
  - inversion H. constructor.
  - destruct (f x) as [y|] eqn:E; [|discriminate]. destruct (map_opt f t) as [r'|]; [|discriminate].
    inversion H; subst. constructor; [exact E|apply IH; reflexivity].
Qed.

Lemma forall2_length {A B} (R : A -> B -> Prop) l r : Forall2 R l r -> length l = length r.
Proof. induction 1; cbn; congruence. Qed.

Lemma map_opt_ext {A B} (f g : A -> option B) l : (forall x, f x = g x) -> map_opt f l = map_opt g l.
Proof. intros H. induction l as [|x t IH]; cbn [map_opt]; [reflexivity|]. rewrite H, IH. reflexivity. Qed.

(* the value a register contributes: its winner (the last, greatest-id entry) and nothing else *)
Definition render_val (f : nat) (ob : obs) (iw : opid * vobs) : option jt :=
  match snd iw with
  | VS s => Some (scalar_jt s)
  | VC z => Some (JI64 z)
  | VO t => render f ob (fst iw) t
  end.
Definition render_reg (f : nat) (ob : obs) (r : regobs) : option jt :=
  match winner r with Some iw => render_val f ob iw | None => None end.

Lemma render_unfold f ob id ty :
  render (S f) ob id ty =
  match find_obj ob id with
  | None => None
  | Some o =>
    match ty, oo_entries o with
    | OText, _ => Some (JStr (text_of o))
    | OList, EL l => match map_opt (render_reg f ob) l with Some items => Some (JSeq None items) | None => None end
    | (OMap | OTable), EM l =>
      match map_opt (fun kr => match render_reg f ob (snd kr) with Some v => Some (fst kr, v) | None => None end) l with
      | Some es => Some (JMap (Some (length l)) es)
      | None => None
      end
    | _, _ => None
    end
  end.
Proof.
  cbn [render]. destruct (find_obj ob id) as [o|]; [|reflexivity].
  assert (E : forall r, match winner r with
                        | Some (_, VS s) => Some (scalar_jt s)
                        | Some (_, VC z) => Some (JI64 z)
                        | Some (i, VO t) => render f ob i t
                        | None => None
                        end = render_reg f ob r).
  { intros r. unfold render_reg, render_val. destruct (winner r) as [[i [s|z|t]]|]; reflexivity. }
  destruct ty; destruct (oo_entries o) as [l|l]; try reflexivity.
  - erewrite (map_opt_ext _ _ l); [reflexivity|]. intros kr. rewrite E. reflexivity.
  - erewrite (map_opt_ext _ _ l); [reflexivity|]. intros r. apply E.
  - erewrite (map_opt_ext _ _ l); [reflexivity|]. intros kr. rewrite E. reflexivity.
Qed.

(* ================= C32 ================= *)
Lemma scalar_ann_ok s : ann_ok (scalar_jt s) = true.
Proof.
  destruct s; try reflexivity. cbn [scalar_jt ann_ok ann_ok1]. rewrite map_length, Nat.eqb_refl. cbn [andb].
  induction b as [|x b IH]; [reflexivity|]. cbn. exact IH.
Qed.

Lemma forallb_forall2 {A B} (R : A -> B -> Prop) (p : B -> bool) l r :
  Forall2 R l r -> (forall x y, R x y -> p y = true) -> forallb p r = true.
Proof. induction 1; intros H'; cbn; [reflexivity|]. rewrite (H' _ _ H). cbn. apply IHForall2. exact H'. Qed.

Theorem announced_len_true fuel : forall ob id ty t, render fuel ob id ty = Some t -> ann_ok t = true.
Proof.
  induction fuel as [|f IH]; intros ob id ty t H; [discriminate|]. rewrite render_unfold in H.
  assert (Reg : forall r v, render_reg f ob r = Some v -> ann_ok v = true).
  { intros r v Hr. unfold render_reg in Hr. destruct (winner r) as [[i w]|]; [|discriminate].
    unfold render_val in Hr. cbn [fst snd] in Hr. destruct w as [s|z|ty'].
    - inversion Hr. apply scalar_ann_ok.
    - inversion Hr. reflexivity.
    - eapply IH. exact Hr. }
  destruct (find_obj ob id) as [o|]; [|discriminate].
  assert (Mp : forall l, match map_opt (fun kr : list N * regobs => match render_reg f ob (snd kr) with Some v => Some (fst kr, v) | None => None end) l with
                         | Some es => Some (JMap (Some (length l)) es) | None => None end = Some t -> ann_ok t = true).
  { intros l Hm. destruct (map_opt _ l) as [es|] eqn:E; [|discriminate]. inversion Hm; subst t.
    apply map_opt_forall2 in E. cbn [ann_ok ann_ok1]. rewrite (forall2_length _ _ _ E), Nat.eqb_refl. cbn [andb].
    eapply forallb_forall2; [exact E|]. intros kr e He. cbn beta in He.
    destruct (render_reg f ob (snd kr)) as [v|] eqn:Ev; [|discriminate]. inversion He. cbn [snd]. eapply Reg. exact Ev. }
  destruct ty; destruct (oo_entries o) as [l|l]; try discriminate; try (apply (Mp l); exact H); try (inversion H; reflexivity).
  destruct (map_opt (render_reg f ob) l) as [items|] eqn:E; [|discriminate]. inversion H; subst t.
  apply map_opt_forall2 in E. cbn [ann_ok ann_ok1 andb]. eapply forallb_forall2; [exact E|]. intros r v Hv. eapply Reg. exact Hv.
Qed.

(* winners only: a map node has one entry per key of the observation, valued by the winner of the key's register;
   a list node one item per visible element, in order; a text node is the text *)
Theorem render_faithful f ob id ty t :
  render (S f) ob id ty = Some t ->
  exists o, find_obj ob id = Some o /\
  match ty with
  | OText => t = JStr (text_of o)
  | OList => exists l items, oo_entries o = EL l /\ t = JSeq None items /\
                             Forall2 (fun r v => render_reg f ob r = Some v) l items
  | OMap | OTable => exists l es, oo_entries o = EM l /\ t = JMap (Some (length l)) es /\
                             Forall2 (fun kr e => fst e = fst kr /\ render_reg f ob (snd kr) = Some (snd e)) l es
  end.
Proof.
  rewrite render_unfold. destruct (find_obj ob id) as [o|]; [|discriminate]. intros H. exists o. split; [reflexivity|].
  assert (Mp : forall l, match map_opt (fun kr : list N * regobs => match render_reg f ob (snd kr) with Some v => Some (fst kr, v) | None => None end) l with
                         | Some es => Some (JMap (Some (length l)) es) | None => None end = Some t ->
                         exists es, t = JMap (Some (length l)) es /\
                           Forall2 (fun kr e => fst e = fst kr /\ render_reg f ob (snd kr) = Some (snd e)) l es).
  { clear H. intros l Hm. destruct (map_opt _ l) as [es|] eqn:E; [|discriminate]. inversion Hm; subst t. clear Hm. exists es. split; [reflexivity|].
    apply map_opt_forall2 in E. induction E as [|kr e l' es' He _ IHE]; [constructor|]. constructor; [|exact IHE].
    cbn beta in He. destruct (render_reg f ob (snd kr)) as [v|]; [|discriminate]. inversion He. cbn. auto. }
  destruct ty; destruct (oo_entries o) as [l|l]; try discriminate; try (inversion H; reflexivity).
  - destruct (Mp l H) as (es & -> & F). exists l, es. auto.
  - destruct (map_opt (render_reg f ob) l) as [items|] eqn:E; [|discriminate]. inversion H; subst t.
    exists l, items. split; [reflexivity|]. split; [reflexivity|]. apply map_opt_forall2. exact E.
  - destruct (Mp l H) as (es & -> & F). exists l, es. auto.
Qed.

(* ================= C33 ================= *)
Section JsonInd.
  Variable P : json -> Prop.
  Hypothesis HN : P JN.
  Hypothesis HB : forall b, P (JB b).
  Hypothesis HPos : forall n, P (JPos n).
  Hypothesis HNeg : forall z, P (JNeg z).
  Hypothesis HFl : forall b, P (JFl b).
  Hypothesis HS : forall s, P (JS s).
  Hypothesis HA : forall l, Forall P l -> P (JA l).
  Hypothesis HO : forall l, Forall (fun kv => P (snd kv)) l -> P (JO l).
  Fixpoint json_ind' (j : json) : P j :=
    match j with
    | JN => HN | JB b => HB b | JPos n => HPos n | JNeg z => HNeg z | JFl b => HFl b | JS s => HS s
    | JA l => HA l ((fix go (l : list json) : Forall P l :=
                       match l with [] => Forall_nil _ | x :: t => Forall_cons _ (json_ind' x) (go t) end) l)
    | JO l => HO l ((fix go (l : list (list N * json)) : Forall (fun kv => P (snd kv)) l :=
                       match l with [] => Forall_nil _ | x :: t => Forall_cons _ (json_ind' (snd x)) (go t) end) l)
    end.
End JsonInd.

Lemma nlist_eqb_true' a b : nlist_eqb a b = true <-> a = b.
Proof. apply (list_eqb_spec N.eqb). intros; apply N.eqb_eq. Qed.

Lemma dput_fresh {A} (m : list (list N * A)) k v :
  existsb (fun kv => nlist_eqb (fst kv) k) m = false -> dput m k v = m ++ [(k, v)].
Proof.
  induction m as [|[k' v'] m IH]; cbn [existsb dput app fst]; [reflexivity|].
  intros H. apply orb_false_iff in H. destruct H as [H1 H2]. rewrite H1, IH by exact H2. reflexivity.
Qed.

Lemma existsb_key_sym {A} (l : list (list N * A)) k :
  existsb (fun kv => nlist_eqb (fst kv) k) l = existsb (fun kv => nlist_eqb k (fst kv)) l.
Proof.
  induction l as [|[k' v'] l IH]; cbn; [reflexivity|]. rewrite IH. f_equal.
  destruct (nlist_eqb k' k) eqn:E1, (nlist_eqb k k') eqn:E2; try reflexivity.
  - apply nlist_eqb_true' in E1. subst. assert (nlist_eqb k k = true) by (apply nlist_eqb_true'; reflexivity). congruence.
  - apply nlist_eqb_true' in E2. subst. assert (nlist_eqb k' k' = true) by (apply nlist_eqb_true'; reflexivity). congruence.
Qed.

(* putting members with pairwise different keys one after the other builds them in order *)
Lemma import_members (g : json -> dval) l : forall acc,
  nodup_keys l = true ->
  (forall kv, In kv l -> existsb (fun a => nlist_eqb (fst a) (fst kv)) acc = false) ->
  fold_left (fun m kv => dput m (fst kv) (g (snd kv))) l acc = acc ++ map (fun kv => (fst kv, g (snd kv))) l.
Proof.
  induction l as [|[k v] l IH]; intros acc ND Dis; cbn [fold_left map]; [rewrite app_nil_r; reflexivity|].
  cbn [nodup_keys] in ND. apply andb_true_iff in ND. destruct ND as [N1 N2]. apply negb_true_iff in N1.
  cbn [fst snd]. rewrite dput_fresh by (apply (Dis (k, v)); left; reflexivity).
  rewrite IH; [rewrite <- app_assoc; reflexivity|exact N2|].
  intros kv Hin. rewrite existsb_app. cbn [existsb fst]. rewrite orb_false_r.
  rewrite (Dis kv) by (right; exact Hin). cbn [orb].
  destruct (nlist_eqb k (fst kv)) eqn:E; [|reflexivity]. exfalso.
  apply nlist_eqb_true' in E. subst k.
  assert (X : existsb (fun a : list N * json => nlist_eqb (fst a) (fst kv)) l = true).
  { apply existsb_exists. exists kv. split; [exact Hin|]. apply nlist_eqb_true'. reflexivity. }
  congruence.
Qed.

(* import then export gives the JSON value back: numbers keep kind and value, strings, keys, arrays and nesting
   are preserved (object members with unique keys, in the order given) *)
Theorem export_import_id j : canon j = true -> export_val (import_val j) = j.
Proof.
  induction j as [| b | n | z | b | s | l IH | l IH] using json_ind'; intros C; cbn [import_val]; try reflexivity.
  - destruct (n <=? i64_max) eqn:E; cbn [export_val export_scalar].
    + replace (Z.of_N n <? 0)%Z with false by (symmetry; apply Z.ltb_ge; lia). rewrite N2Z.id. reflexivity.
    + reflexivity.
  - cbn [canon] in C. apply andb_true_iff in C. destruct C as [C _]. cbn [export_val export_scalar]. rewrite C. reflexivity.
  - cbn [export_val]. f_equal. rewrite map_map. cbn [canon] in C.
    induction IH as [|x t Hx _ IHt]; [reflexivity|]. cbn [map forallb] in *. apply andb_true_iff in C. destruct C as [C1 C2].
    rewrite Hx by exact C1. rewrite IHt by exact C2. reflexivity.
  - cbn [canon] in C. apply andb_true_iff in C. destruct C as [ND C].
    rewrite (import_members import_val l []) by (auto; intros; reflexivity). cbn [app export_val]. f_equal. rewrite map_map. cbn [fst snd].
    clear ND. induction IH as [|[k x] t Hx _ IHt]; [reflexivity|]. cbn [map forallb fst snd] in *.
    apply andb_true_iff in C. destruct C as [C1 C2]. rewrite Hx by exact C1. rewrite IHt by exact C2. reflexivity.
Qed.
