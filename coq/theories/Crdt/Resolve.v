(* Crdt/Resolve.v — from an object id (ExId) to the object it names (C30).

   Mirrors [Automerge::exid_to_obj] (automerge.rs): [exid_to_opid] (Codec/ExId.v: the actor-index
   hint is trusted only when [actors[hint] == actor], otherwise the actor is searched), then
   [get_obj_meta]: [ObjId::is_root] is [counter == 0] (types.rs — whatever the actor index), else
   [OpSet::object_type] = a lookup in the object index [obj_info], which holds one entry per make
   op keyed by its internal id, else [NotAnObject].

   The op set of the model keeps ids as (counter, actor bytes); an internal id (counter, index) of
   a replica is read through that replica's actor table ([denote]).  An index outside the table
   names no op of the replica.  Both error classes (InvalidObjId: unknown actor or counter above
   u32::MAX; NotAnObject: no such make op) are [Err].  No proofs in this file. *)
From AM Require Import Base.Prelude Base.Order Codec.ExId Crdt.Types Crdt.Interp Crdt.Local.
Local Open Scope N_scope.

Definition resolve_obj (t : table) (ops : list op) (e : exid) : res (opid * objtype) :=
  let* o := exid_to_opid t e in
  if fst o =? 0 then Ok (root_id, OMap)
  else match denote t o with
       | Some id => match lookup_type ops id with
                    | Some ty => Ok (id, ty)
                    | None => Err
                    end
       | None => Err
       end.

(* the id a replica hands out for the object made by an op it holds ([id_to_exid]) *)
Definition exid_of (t : table) (id : opid) : res exid :=
  match find_actor t (snd id) with
  | Some i => id_to_exid t (fst id, N.of_nat i)
  | None => Panic
  end.
