(* Crdt/ResolveProofs.v — object ids stay valid and stable (C30). *)
From AM Require Import Base.Prelude Base.Order Codec.Bloom Codec.ExId Codec.ExIdProofs Crdt.Types Crdt.Interp Crdt.Local
  Crdt.Resolve Crdt.Txn.
Local Open Scope N_scope.

Lemma actor_in_dec (a : bytes) (t : table) : {In a t} + {~ In a t}.
Proof. apply in_dec. apply list_eq_dec. apply N.eq_dec. Qed.

(* whenever the id resolves at all, the internal id denotes (counter, actor) of the ExId *)
Lemma exid_to_opid_denote t c a h o :
  lenN t <= pow32 -> exid_to_opid t (EId c a h) = Ok o ->
  fst o = c /\ denote t o = Some (c, a) /\ c <= u32_max /\ In a t.
Proof.
  intros Hlen H.
  destruct (u32_max <? c) eqn:Ec.
  { cbn [exid_to_opid] in H. rewrite Ec in H. discriminate. }
  assert (Hc : c <= u32_max) by lia.
  destruct (actor_in_dec a t) as [Hin|Hn].
  - destruct (resolve_denotes t c a h Hc Hlen Hin) as (o' & R & D).
    rewrite R in H. inversion H; subst o'. repeat split; try assumption.
    unfold denote in D. destruct (get_actor_safe t (snd o)); inversion D; reflexivity.
  - rewrite (resolve_unknown_actor t c a h Hn) in H. discriminate.
Qed.

(* the canonical form: a function of (counter, actor), of whether the replica knows the actor,
   and of the replica's make ops — nothing else *)
Theorem resolve_obj_canonical t ops c a h :
  lenN t <= pow32 -> 0 < c ->
  resolve_obj t ops (EId c a h) =
    if u32_max <? c then Err
    else if actor_in_dec a t then
      match lookup_type ops (c, a) with Some ty => Ok ((c, a), ty) | None => Err end
    else Err.
Proof.
  intros Hlen Hc0. unfold resolve_obj.
  destruct (u32_max <? c) eqn:Ec.
  { cbn [exid_to_opid]. rewrite Ec. reflexivity. }
  destruct (actor_in_dec a t) as [Hin|Hn].
  - destruct (resolve_denotes t c a h ltac:(lia) Hlen Hin) as (o & R & D).
    rewrite R. cbn [bind].
    assert (fst o = c) as Hf.
    { unfold denote in D. destruct (get_actor_safe t (snd o)); inversion D; reflexivity. }
    rewrite Hf. assert ((c =? 0) = false) as -> by lia. rewrite D. reflexivity.
  - rewrite (resolve_unknown_actor t c a h Hn). reflexivity.
Qed.

(* ---- lookup in the object table ---- *)
Lemma lookup_type_in ops id ty : lookup_type ops id = Some ty -> In (id, ty) (objects ops).
Proof.
  unfold lookup_type. destruct (find _ (objects ops)) as [[i t']|] eqn:F; [|discriminate].
  intros H. inversion H; subst. apply find_some in F. destruct F as [Hin He].
  cbn [fst] in He. apply opid_eqb_spec in He. subst. exact Hin.
Qed.

Lemma lookup_type_none ops id : lookup_type ops id = None -> forall ty, ~ In (id, ty) (objects ops).
Proof.
  unfold lookup_type. destruct (find _ (objects ops)) as [[i t']|] eqn:F; [discriminate|].
  intros _ ty Hin. pose proof (find_none _ _ F _ Hin) as He. cbn [fst] in He.
  assert (opid_eqb id id = true) by (apply opid_eqb_spec; reflexivity). congruence.
Qed.

Lemma objects_made ops id ty :
  In (id, ty) (objects ops) ->
  (id, ty) = (root_id, OMap) \/ exists m, In m ops /\ op_id m = id /\ make_type m = Some ty.
Proof.
  unfold objects. intros [H|H]; [left; symmetry; exact H|right].
  apply in_flat_map in H. destruct H as [m [Hm Hx]].
  destruct (make_type m) as [t'|] eqn:Mt; [|destruct Hx].
  destruct Hx as [Hx|[]]. inversion Hx; subst. exists m. auto.
Qed.

Lemma find_objects_unique (ops : list op) (m : op) ty :
  NoDup (map op_id ops) -> In m ops -> make_type m = Some ty ->
  find (fun ot : opid * objtype => opid_eqb (fst ot) (op_id m))
       (flat_map (fun o => match make_type o with Some t => [(op_id o, t)] | None => [] end) ops)
  = Some (op_id m, ty).
Proof.
  induction ops as [|x r IH]; intros Hnd Hin Mt; [destruct Hin|].
  cbn [map] in Hnd. inversion Hnd as [|? ? Hnotin Hnd']; subst.
  cbn [flat_map]. destruct Hin as [->|Hin].
  - rewrite Mt. cbn [app find fst].
    assert (opid_eqb (op_id m) (op_id m) = true) as -> by (apply opid_eqb_spec; reflexivity).
    reflexivity.
  - assert (Hne : op_id x <> op_id m).
    { intros E. apply Hnotin. rewrite E. apply in_map. exact Hin. }
    destruct (make_type x) as [tx|].
    + cbn [app find fst].
      destruct (opid_eqb (op_id x) (op_id m)) eqn:E; [apply opid_eqb_spec in E; contradiction|].
      apply IH; assumption.
    + cbn [app]. apply IH; assumption.
Qed.

Lemma lookup_type_made ops m ty :
  NoDup (map op_id ops) -> In m ops -> make_type m = Some ty -> 0 < fst (op_id m) ->
  lookup_type ops (op_id m) = Some ty.
Proof.
  intros Hnd Hin Mt Hc. unfold lookup_type, objects. cbn [find fst].
  destruct (opid_eqb root_id (op_id m)) eqn:E.
  { apply opid_eqb_spec in E. rewrite <- E in Hc. cbn in Hc. lia. }
  rewrite (find_objects_unique ops m ty Hnd Hin Mt). reflexivity.
Qed.

(* ---- C30 ---- *)

(* an id whose object the replica holds resolves to that object, whatever hint it carries *)
Theorem resolve_present t ops m ty h :
  lenN t <= pow32 -> NoDup (map op_id ops) -> In m ops -> make_type m = Some ty ->
  0 < fst (op_id m) <= u32_max -> In (snd (op_id m)) t ->
  resolve_obj t ops (EId (fst (op_id m)) (snd (op_id m)) h) = Ok (op_id m, ty).
Proof.
  intros Hlen Hnd Hin Mt [Hc0 Hc] Ha.
  rewrite (resolve_obj_canonical t ops _ _ h Hlen Hc0).
  assert ((u32_max <? fst (op_id m)) = false) as -> by lia.
  destruct (actor_in_dec (snd (op_id m)) t) as [_|Hn]; [|contradiction].
  rewrite <- surjective_pairing. rewrite (lookup_type_made ops m ty Hnd Hin Mt Hc0). reflexivity.
Qed.

(* growing the actor table (an actor that sorts before the id's actor shifts its index; the
   hint the id carries is then stale) does not change what the id resolves to *)
Theorem resolve_stable_under_actor_insert t ops c a h h' b :
  lenN t <= pow32 -> lenN (put_actor t b) <= pow32 -> 0 < c -> In a t ->
  resolve_obj (put_actor t b) ops (EId c a h') = resolve_obj t ops (EId c a h).
Proof.
  intros L1 L2 Hc Hin.
  assert (Hin' : In a (put_actor t b)).
  { clear -Hin. induction t as [|x r IH]; [destruct Hin|].
    cbn [put_actor]. destruct (bytes_cmp b x).
    - exact Hin.
    - right. exact Hin.
    - destruct Hin as [->|Hin]; [left; reflexivity|right; apply IH, Hin]. }
  rewrite !resolve_obj_canonical by assumption.
  destruct (u32_max <? c); [reflexivity|].
  destruct (actor_in_dec a (put_actor t b)); [|contradiction].
  destruct (actor_in_dec a t); [reflexivity|contradiction].
Qed.

(* more generally: any two tables that agree on whether they know the actor *)
Theorem resolve_table_irrelevant t1 t2 ops c a h1 h2 :
  lenN t1 <= pow32 -> lenN t2 <= pow32 -> 0 < c -> (In a t1 <-> In a t2) ->
  resolve_obj t1 ops (EId c a h1) = resolve_obj t2 ops (EId c a h2).
Proof.
  intros L1 L2 Hc Hiff. rewrite !resolve_obj_canonical by assumption.
  destruct (u32_max <? c); [reflexivity|].
  destruct (actor_in_dec a t1) as [H1|H1], (actor_in_dec a t2) as [H2|H2]; try reflexivity.
  - exfalso. apply H2, Hiff, H1.
  - exfalso. apply H1, Hiff, H2.
Qed.

(* every replica that holds the make op resolves the id — with any hint, under its own actor
   numbering — to that op's object *)
Theorem resolve_same_object_any_replica t1 t2 ops1 ops2 m ty h1 h2 :
  lenN t1 <= pow32 -> lenN t2 <= pow32 ->
  NoDup (map op_id ops1) -> NoDup (map op_id ops2) -> In m ops1 -> In m ops2 ->
  make_type m = Some ty -> 0 < fst (op_id m) <= u32_max ->
  In (snd (op_id m)) t1 -> In (snd (op_id m)) t2 ->
  resolve_obj t1 ops1 (EId (fst (op_id m)) (snd (op_id m)) h1) = Ok (op_id m, ty) /\
  resolve_obj t2 ops2 (EId (fst (op_id m)) (snd (op_id m)) h2) = Ok (op_id m, ty).
Proof.
  intros L1 L2 N1 N2 I1 I2 Mt Hc A1 A2.
  split; apply resolve_present; assumption.
Qed.

(* a replica that does not hold a make op with that id answers with an error *)
Theorem resolve_absent_is_error t ops c a h :
  lenN t <= pow32 -> 0 < c ->
  (forall m, In m ops -> op_id m = (c, a) -> make_type m = None) ->
  resolve_obj t ops (EId c a h) = Err.
Proof.
  intros Hlen Hc Habs. rewrite (resolve_obj_canonical t ops c a h Hlen Hc).
  destruct (u32_max <? c); [reflexivity|].
  destruct (actor_in_dec a t); [|reflexivity].
  destruct (lookup_type ops _) as [ty|] eqn:L; [|reflexivity].
  exfalso. apply lookup_type_in in L. apply objects_made in L.
  destruct L as [E|[m [Hm [Hid Mt]]]].
  - inversion E; subst. lia.
  - rewrite (Habs m Hm Hid) in Mt. discriminate.
Qed.

(* and an answer is never another object's: what comes back is the make op with exactly this
   (counter, actor) *)
Theorem resolve_ok_sound t ops c a h id ty :
  lenN t <= pow32 -> 0 < c -> resolve_obj t ops (EId c a h) = Ok (id, ty) ->
  id = (c, a) /\ In a t /\ exists m, In m ops /\ op_id m = (c, a) /\ make_type m = Some ty.
Proof.
  intros Hlen Hc H. rewrite (resolve_obj_canonical t ops c a h Hlen Hc) in H.
  destruct (u32_max <? c); [discriminate|].
  destruct (actor_in_dec a t) as [Hin|]; [|discriminate].
  destruct (lookup_type ops _) as [ty'|] eqn:L; [|discriminate].
  inversion H; subst. split; [reflexivity|]. split; [exact Hin|].
  apply lookup_type_in in L. apply objects_made in L.
  destruct L as [E|L]; [inversion E; subst; lia|exact L].
Qed.

(* resolution never panics on a table of representable size *)
Theorem resolve_no_panic t ops e : lenN t <= pow32 -> resolve_obj t ops e <> Panic.
Proof.
  intros Hlen. unfold resolve_obj.
  pose proof (exid_to_opid_no_panic t e Hlen) as Hn.
  destruct (exid_to_opid t e) as [o| |]; cbn [bind]; try congruence.
  destruct (fst o =? 0); [discriminate|].
  destruct (denote t o) as [id|]; [|discriminate].
  destruct (lookup_type ops id); discriminate.
Qed.

(* the quirk behind the [0 < c] side condition: [ObjId::is_root] only looks at the counter, so
   an (API-unreachable, but decodable) id with counter 0 and a known actor names the root *)
Theorem resolve_counter_zero_is_root t ops a h :
  lenN t <= pow32 -> In a t -> resolve_obj t ops (EId 0 a h) = Ok (root_id, OMap).
Proof.
  intros Hlen Hin. unfold resolve_obj.
  destruct (resolve_denotes t 0 a h ltac:(vm_compute; discriminate) Hlen Hin) as (o & R & D).
  rewrite R. cbn [bind].
  assert (fst o = 0) as ->.
  { unfold denote in D. destruct (get_actor_safe t (snd o)); inversion D; reflexivity. }
  reflexivity.
Qed.

(* the id handed out by one replica, resolved by another one that holds the object *)
Theorem exid_of_resolves tp tq ops m ty e :
  lenN tp <= pow32 -> lenN tq <= pow32 -> NoDup (map op_id ops) -> In m ops -> make_type m = Some ty ->
  0 < fst (op_id m) <= u32_max -> In (snd (op_id m)) tq ->
  exid_of tp (op_id m) = Ok e ->
  resolve_obj tq ops e = Ok (op_id m, ty).
Proof.
  intros Lp Lq Hnd Hin Mt Hc Aq He. unfold exid_of in He.
  destruct (find_actor tp (snd (op_id m))) as [i|] eqn:F; [|discriminate].
  unfold id_to_exid in He. cbn [fst snd] in He.
  assert ((fst (op_id m) =? 0) = false) as E0 by lia. rewrite E0 in He. cbn [andb] in He.
  rewrite get_actor_safe_nat, (find_actor_nth _ _ _ F) in He. inversion He; subst e.
  apply resolve_present; assumption.
Qed.
