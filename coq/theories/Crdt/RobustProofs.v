(* Crdt/RobustProofs.v — small argument-validation lemmas used by Props/C37.v and Props/C16.v
   (the models are Codec/ExId.v, Crdt/Cursor.v, Crdt/Interp.v; nothing is modelled here). *)
From AM Require Import Base.Prelude Base.Order Crdt.Types Crdt.Interp Crdt.Cursor Codec.ExId.
Local Open Scope N_scope.

(* OpId::new narrowing: a counter above u32::MAX is an error, whatever the actor table and hint
   (as of /repo 323bff928; it was an unwrap panic before) *)
Lemma exid_narrowing_err t c a h : u32_max < c -> exid_to_opid t (EId c a h) = Err.
Proof.
  intros H. cbn [exid_to_opid]. apply N.ltb_lt in H. rewrite H. reflexivity.
Qed.

Lemma cursor_narrowing_err t c a : u32_max < c -> cursor_to_opid t c a = Err.
Proof.
  intros H. unfold cursor_to_opid. apply N.ltb_lt in H. rewrite H. reflexivity.
Qed.

Section Resolve.
  Variable width : regobs -> N.

  (* get_cursor_position, MoveCursor::After: a value or InvalidCursor for EVERY op list and cursor
     (foreign, unknown, pointing at an increment or a deletion): no hypothesis on the document *)
  Lemma resolve_after_no_panic oops c : resolve width oops MoveAfter c <> Panic.
  Proof.
    unfold resolve. destruct (find_op oops c) as [o|]; [|discriminate].
    destruct (is_inc o || is_del o); [discriminate|].
    destruct (index_of width oops (elem_of o)); discriminate.
  Qed.

  (* MoveCursor::Before on an element that is still visible, or the first element: no walk *)
  Lemma resolve_before_direct_no_panic oops c o :
    find_op oops c = Some o -> elem_vis oops (elem_of o) = true ->
    resolve width oops MoveBefore c <> Panic.
  Proof.
    intros Hf Hv. unfold resolve. rewrite Hf.
    destruct (is_inc o || is_del o); [discriminate|].
    destruct (index_of width oops (elem_of o)); [|discriminate].
    rewrite Hv. cbn [orb]. discriminate.
  Qed.
End Resolve.

(* the observation lists the root and every object the op list declares, once each, in id order:
   for ANY op list (no well-formedness assumed) *)
Lemma observe_objects ops :
  map (fun o => (oo_id o, oo_type o)) (observe ops) = objects (isort op_cmp ops).
Proof.
  unfold observe, observe_sorted. rewrite map_map.
  induction (objects (isort op_cmp ops)) as [|[id t] l IH]; [reflexivity|].
  cbn [map fst snd]. rewrite IH. f_equal.
  unfold observe_obj. destruct (is_seq_type t); reflexivity.
Qed.
