(* Crdt/SeqProofs.v — the position-level reading of put / put_object / delete / increment at an index
   of a list or text: the visible sequence changes at exactly the position the index resolves to. *)
From AM Require Import Base.Prelude Base.Order Crdt.Types Crdt.Interp Crdt.InterpProofs Crdt.Local Crdt.LocalProofs.
Local Open Scope N_scope.

Lemma firstn_skipn_middle {A} (a c : list A) (m : list A) x :
  firstn (length a) (a ++ x :: c) ++ m ++ skipn (S (length a)) (a ++ x :: c) = a ++ m ++ c.
Proof.
  rewrite firstn_app, Nat.sub_diag, firstn_all. cbn [firstn]. rewrite app_nil_r.
  replace (a ++ x :: c) with ((a ++ [x]) ++ c) by (rewrite <- app_assoc; reflexivity).
  replace (S (length a)) with (length (a ++ [x])) by (rewrite app_length; cbn; lia).
  rewrite skipn_app, Nat.sub_diag, skipn_all. reflexivity.
Qed.

Theorem seq_update_obs e t obj ty i a t' oid :
  wf_tx t -> lookup_type (tx_all t) obj = Some ty -> is_seq_type ty = true ->
  local_list_op e t obj ty i a = EOk (t', oid) ->
  let ob := observe (tx_all t) in
  let ob' := observe (tx_all t') in
  exists el r s wd p,
    seek (elem_w e ty) (seq_elems (tx_all t) obj) i 0 0 = Some (el, r, s, wd, p) /\
    nth_error (obs_seq ob obj) p = Some r /\
    r = reg_at (tx_all t) obj (KSeq el) /\
    update_op t obj (KSeq el) r a = EOk (t', oid) /\
    obs_seq ob' obj =
      firstn p (obs_seq ob obj)
      ++ (match reg_at (tx_all t') obj (KSeq el) with [] => [] | r' => [r'] end)
      ++ skipn (S p) (obs_seq ob obj) /\
    (forall obj', obj' <> obj -> obj' <> next_id t -> obs_obj ob' obj' = obs_obj ob obj').
Proof.
  intros W L Sq H. cbv zeta.
  destruct (list_update_spec e t obj ty i a t' oid W H) as (el & r & s & wd & p & Sk & Hn & Er & Hu).
  exists el, r, s, wd, p. split; [exact Sk|].
  destruct (wf_tx_parts t W) as (Srt & _ & _).
  pose proof (update_ssorted _ _ _ _ _ _ _ W Hu) as S'.
  pose proof (lookup_type_below _ _ _ W L) as NEo.
  pose proof (update_lookup _ _ _ _ _ _ _ obj Hu NEo) as L'. rewrite L in L'.
  destruct (update_op_spec _ _ _ _ _ _ W Hu) as [Fr _].
  rewrite (observe_sorted_eq _ Srt), (observe_sorted_eq _ S').
  rewrite (obs_seq_spec _ _ ty L' Sq), (obs_seq_spec _ _ ty L Sq).
  split; [rewrite nth_error_map, Hn; reflexivity|].
  split; [exact Er|]. split; [rewrite Er; exact Hu|].
  split.
  - rewrite !seq_elems_gel. rewrite (fu_order _ _ _ _ Fr).
    set (ops := tx_all t) in *. set (ops' := tx_all t') in *.
    set (Lo := elem_order (obj_ops ops obj)) in *.
    rewrite seq_elems_gel in Hn. fold Lo in Hn.
    destruct (nth_flat_split _ Lo p el r (gel_shape ops obj) Hn) as (L1 & L2 & EL & Len & Ge).
    assert (NDL : NoDup Lo) by (apply elem_order_nodup, nodup_map_filter, ssorted_nodup, Srt).
    assert (N1 : ~ In el L1).
    { rewrite EL in NDL. apply NoDup_remove_2 in NDL. intros Hin. apply NDL, in_or_app. left. exact Hin. }
    assert (N2 : ~ In el L2).
    { rewrite EL in NDL. apply NoDup_remove_2 in NDL. intros Hin. apply NDL, in_or_app. right. exact Hin. }
    assert (Same : forall l, ~ In el l -> flat_map (gel ops' obj) l = flat_map (gel ops obj) l).
    { intros l Nin. apply flat_map_ext_in'. intros x Hx. unfold gel.
      rewrite (fu_keys _ _ _ _ Fr); [reflexivity|]. intros E. inversion E. subst x. contradiction. }
    rewrite EL, !flat_map_app. cbn [flat_map]. rewrite (Same L1 N1), (Same L2 N2), Ge. rewrite !map_app.
    cbn [map snd app].
    set (A := map snd (flat_map (gel ops obj) L1)). set (C := map snd (flat_map (gel ops obj) L2)).
    assert (LA : length A = p) by (unfold A; rewrite map_length; exact Len).
    rewrite <- LA. rewrite firstn_skipn_middle. f_equal.
    unfold gel. destruct (reg_at ops' obj (KSeq el)); reflexivity.
  - intros obj' NE NN. eapply frame_obs_obj; [exact Fr|exact NE|].
    eapply update_lookup; [exact Hu|exact NN].
Qed.

(* delete at a list index: the element disappears, everything else keeps its place *)
Theorem list_delete_spec e t obj i t' :
  wf_tx t -> lookup_type (tx_all t) obj = Some OList ->
  step e t (CDelete obj (PSeq i)) = EOk t' ->
  let ob := observe (tx_all t) in
  let ob' := observe (tx_all t') in
  obs_seq ob' obj = firstn (N.to_nat i) (obs_seq ob obj) ++ skipn (S (N.to_nat i)) (obs_seq ob obj)
  /\ (N.to_nat i < length (obs_seq ob obj))%nat.
Proof.
  intros W L H. cbv zeta. unfold step, with_obj in H. rewrite L in H.
  apply drop_id_ok in H. destruct H as [oid H]. cbn [local_op] in H.
  destruct (seq_update_obs e t obj OList i ADel t' oid W L eq_refl H) as (el & r & s & wd & p & Sk & Hn & Er & Hu & Hs & _).
  assert (P : p = N.to_nat i).
  { pose proof (seek_unit _ _ _ _ _ _ _ _ _ _ (fun _ => eq_refl) (N.le_0_l _) Sk) as P. lia. }
  subst p. split.
  - rewrite Hs. destruct (update_op_spec _ _ _ _ _ _ W ltac:(rewrite <- Er; exact Hu)) as [_ R].
    rewrite R. rewrite <- Er.
    assert (Ne : r <> []).
    { pose proof Sk as Sk'. apply seek_nth in Sk'. destruct Sk' as (k & _ & Hk). apply nth_error_In in Hk.
      apply seq_elems_reg in Hk. tauto. }
    unfold resolve_action. destruct (winner r) as [[iw w]|] eqn:Wn.
    + rewrite kept_all. reflexivity.
    + apply winner_none in Wn. contradiction.
  - apply nth_error_Some. congruence.
Qed.

(* increment at a list index: that element's counters are incremented, its other values superseded *)
Theorem list_increment_spec e t obj i z t' :
  wf_tx t -> lookup_type (tx_all t) obj = Some OList ->
  step e t (CInc obj (PSeq i) z) = EOk t' ->
  let ob := observe (tx_all t) in
  let ob' := observe (tx_all t') in
  exists r, nth_error (obs_seq ob obj) (N.to_nat i) = Some r /\ existsb is_vc r = true /\
    obs_seq ob' obj = firstn (N.to_nat i) (obs_seq ob obj) ++ [inc_reg z r] ++ skipn (S (N.to_nat i)) (obs_seq ob obj).
Proof.
  intros W L H. cbv zeta. unfold step, with_obj in H. rewrite L in H.
  apply drop_id_ok in H. destruct H as [oid H]. cbn [local_op] in H.
  destruct (seq_update_obs e t obj OList i (AInc z) t' oid W L eq_refl H) as (el & r & s & wd & p & Sk & Hn & Er & Hu & Hs & _).
  assert (P : p = N.to_nat i).
  { pose proof (seek_unit _ _ _ _ _ _ _ _ _ _ (fun _ => eq_refl) (N.le_0_l _) Sk) as P. lia. }
  subst p. exists r. split; [exact Hn|].
  assert (Rs : resolve_action r (AInc z) = Some (AInc z, r)).
  { unfold resolve_action. destruct (winner r) as [[iw w]|]; reflexivity. }
  assert (Hc : existsb is_vc r = true).
  { pose proof Hu as Hu'. apply update_op_inv in Hu'. rewrite Rs in Hu'.
    destruct Hu' as [(Q & _)|(a' & r' & Q & Hc & _)]; [discriminate|]. inversion Q; subst a' r'.
    cbn [is_inc_action andb] in Hc. destruct (existsb is_vc r); [reflexivity|discriminate]. }
  split; [exact Hc|].
  rewrite Hs. destruct (update_op_spec _ _ _ _ _ _ W ltac:(rewrite <- Er; exact Hu)) as [_ R].
  rewrite R, <- Er, Rs.
  (* a register with a counter stays non-empty *)
  destruct (inc_reg z r) as [|x l] eqn:E; [|reflexivity].
  exfalso. apply existsb_exists in Hc. destruct Hc as ([ci cw] & Hin & Hv).
  unfold is_vc in Hv. cbn in Hv. destruct cw as [ | c | ]; try discriminate.
  assert (In (ci, VC (c + z)%Z) (inc_reg z r)).
  { unfold inc_reg. apply in_flat_map. exists (ci, VC c). split; [exact Hin|]. left. reflexivity. }
  rewrite E in H0. destruct H0.
Qed.

(* put at a list index *)
Theorem list_put_spec e t obj i v t' :
  wf_tx t -> lookup_type (tx_all t) obj = Some OList ->
  step e t (CPut obj (PSeq i) v) = EOk t' ->
  let ob := observe (tx_all t) in
  let ob' := observe (tx_all t') in
  exists r, nth_error (obs_seq ob obj) (N.to_nat i) = Some r /\
    obs_seq ob' obj = firstn (N.to_nat i) (obs_seq ob obj)
      ++ [match winner r with
          | Some (j, w) => if same_value w v then [(j, w)] else [(next_id t, scalar_vobs v)]
          | None => [(next_id t, scalar_vobs v)]
          end]
      ++ skipn (S (N.to_nat i)) (obs_seq ob obj).
Proof.
  intros W L H. cbv zeta. unfold step, with_obj in H. rewrite L in H.
  apply drop_id_ok in H. destruct H as [oid H]. cbn [local_op] in H.
  destruct (seq_update_obs e t obj OList i (APut v) t' oid W L eq_refl H) as (el & r & s & wd & p & Sk & Hn & Er & Hu & Hs & _).
  assert (P : p = N.to_nat i).
  { pose proof (seek_unit _ _ _ _ _ _ _ _ _ _ (fun _ => eq_refl) (N.le_0_l _) Sk) as P. lia. }
  subst p. exists r. split; [exact Hn|].
  rewrite Hs. destruct (update_op_spec _ _ _ _ _ _ W ltac:(rewrite <- Er; exact Hu)) as [_ R].
  rewrite R, <- Er. clear R.
  destruct (wf_tx_parts t W) as (Srt & _ & _).
  pose proof (reg_ids_nodup (tx_all t) obj (KSeq el) (ssorted_nodup _ Srt)) as ND. rewrite <- Er in ND.
  unfold resolve_action. destruct (winner r) as [[j w]|] eqn:Wn.
  - destruct (same_value w v).
    + destruct (length r =? 1)%nat eqn:Len.
      * apply Nat.eqb_eq in Len. pose proof (winner_split _ _ Wn) as Sp.
        destruct r as [|x [|y r']]; cbn in Len; try discriminate. cbn in Sp. rewrite Sp. reflexivity.
      * rewrite (kept_last r (j, w) ND Wn). reflexivity.
    + rewrite kept_all. reflexivity.
  - rewrite (winner_none _ Wn). reflexivity.
Qed.
