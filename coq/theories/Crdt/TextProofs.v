(* Crdt/TextProofs.v — text indexes are measured in the document's encoding (C24), over the model
   of Crdt/Local.v: widths are additive, the length of a text is the width of its string, the element
   an index resolves to is the one whose character span covers that index, an insert lands on an
   element boundary. *)
From AM Require Import Base.Prelude Base.Order Crdt.Types Crdt.Interp Crdt.Local Crdt.LocalProofs.
Local Open Scope N_scope.

Lemma str_width_app e a b : str_width e (a ++ b) = str_width e a + str_width e b.
Proof. induction a as [|c a IH]; cbn [app str_width]; [reflexivity|]. rewrite IH. lia. Qed.

Lemma cp_width_bounds e c : 1 <= cp_width e c <= 4.
Proof.
  unfold cp_width. destruct e; [lia| |].
  - destruct (c <? 128); [lia|]. destruct (c <? 2048); [lia|]. destruct (c <? 65536); lia.
  - destruct (c <? 65536); lia.
Qed.

(* the three encodings, by their definition on scalar values (surrogates cannot occur in a Rust char) *)
Lemma width_code_points s : str_width EncCP s = N.of_nat (length s).
Proof. induction s as [|c s IH]; [reflexivity|]. cbn [str_width length]. rewrite IH, Nat2N.inj_succ. cbn. lia. Qed.

(* the text of a sequence of visible elements and its length as the read API computes it *)
Definition text_str (els : list (opid * regobs)) : list N := flat_map (fun er => elem_text (snd er)) els.
Definition text_len (e : enc) (els : list (opid * regobs)) : N :=
  fold_right (fun er s => elem_w e OText (snd er) + s) 0 els.

Theorem text_len_eq_width e els : text_len e els = str_width e (text_str els).
Proof.
  induction els as [|[el r] t IH]; [reflexivity|].
  cbn [text_len text_str fold_right flat_map snd]. rewrite str_width_app. fold (text_len e t). fold (text_str t).
  rewrite IH. reflexivity.
Qed.

(* [text_of] of the observed object is the concatenation of the element strings *)
Lemma text_of_seq ops obj id :
  text_of (mkO id OText (EL (map snd (seq_elems ops obj)))) = text_str (seq_elems ops obj).
Proof.
  unfold text_of, text_str. cbn [oo_entries]. induction (seq_elems ops obj) as [|x l IH]; [reflexivity|].
  cbn [map flat_map]. rewrite IH. reflexivity.
Qed.

Lemma text_len_app e a b : text_len e (a ++ b) = text_len e a + text_len e b.
Proof. rewrite !text_len_eq_width. unfold text_str. rewrite flat_map_app. apply str_width_app. Qed.

(* the element an index resolves to: the one whose span [s, s + wd) — measured in the encoding, s = width
   of the text before it — contains the index *)
Lemma seek_span e els idx acc p0 el r s wd p :
  acc <= idx ->
  seek (elem_w e OText) els idx acc p0 = Some (el, r, s, wd, p) ->
  exists k, p = (p0 + k)%nat /\ nth_error els k = Some (el, r) /\
            s = acc + text_len e (firstn k els) /\ wd = str_width e (elem_text r) /\ s <= idx < s + wd.
Proof.
  revert acc p0. induction els as [|[e' r'] t IH]; intros acc p0 Le H; cbn [seek] in H; [discriminate|].
  destruct (idx <? acc + elem_w e OText r') eqn:E.
  - apply N.ltb_lt in E. inversion H; subst. exists O. unfold elem_w in E. cbn [nth_error firstn text_len fold_right].
    repeat split; try lia.
  - apply N.ltb_ge in E. destruct (IH _ _ E H) as (k & -> & Hk & Hs & Hw & Hr).
    exists (S k). cbn [nth_error firstn]. repeat split; try lia; try assumption.
    change (text_len e ((e', r') :: firstn k t)) with (elem_w e OText r' + text_len e (firstn k t)). lia.
Qed.

Theorem seek_in_encoding e els idx el r s wd p :
  seek (elem_w e OText) els idx 0 0 = Some (el, r, s, wd, p) ->
  nth_error els p = Some (el, r) /\
  s = str_width e (text_str (firstn p els)) /\ wd = str_width e (elem_text r) /\ s <= idx < s + wd.
Proof.
  intros H. destruct (seek_span e els idx 0 0 el r s wd p (N.le_0_l _) H) as (k & -> & Hk & Hs & Hw & Hr).
  cbn [plus]. rewrite <- text_len_eq_width. repeat split; try assumption; lia.
Qed.

(* an index is resolvable exactly when it is below the length of the text *)
Theorem seek_defined_iff e els idx :
  seek (elem_w e OText) els idx 0 0 = None <-> str_width e (text_str els) <= idx.
Proof.
  rewrite <- text_len_eq_width. rewrite (seek_none_iff (elem_w e OText) els idx 0 0 (N.le_0_l _)).
  unfold text_len. lia.
Qed.

(* an insert lands on an element boundary at or after the requested index: the index it reports is the
   width of the text before the new element; it is rejected exactly when the index exceeds the length *)
Theorem insert_index_in_encoding e ops obj idx ref idx' j :
  query_insert e OText ops obj idx = Some (ref, idx', j) ->
  idx' = str_width e (text_str (firstn j (seq_elems ops obj))) /\ idx <= idx' /\
  (j <= length (seq_elems ops obj))%nat.
Proof.
  unfold query_insert. destruct (idx =? 0) eqn:I0.
  - apply N.eqb_eq in I0. intros H. inversion H; subst. cbn. repeat split; lia.
  - apply N.eqb_neq in I0.
    destruct (seek (elem_w e OText) (seq_elems ops obj) (idx - 1) 0 0) as [[[[[el r] s] wd] p]|] eqn:Sk; [|discriminate].
    intros H. injection H as <- <- <-.
    destruct (seek_in_encoding _ _ _ _ _ _ _ _ Sk) as (Hn & Hs & Hw & Hr).
    assert (Lt : (p < length (seq_elems ops obj))%nat) by (apply nth_error_Some; congruence).
    split; [|split; [lia|lia]].
    rewrite <- text_len_eq_width.
    assert (E : firstn (S p) (seq_elems ops obj) = firstn p (seq_elems ops obj) ++ [(el, r)]).
    { clear -Hn. revert p Hn. induction (seq_elems ops obj) as [|x l IH]; intros p Hn; [destruct p; discriminate|].
      destruct p as [|p]; cbn in *; [inversion Hn; reflexivity|]. rewrite (IH p Hn). reflexivity. }
    rewrite E, text_len_app, text_len_eq_width, <- Hs. cbn. lia.
Qed.

Theorem insert_rejected_iff e ops obj idx :
  query_insert e OText ops obj idx = None <-> str_width e (text_str (seq_elems ops obj)) < idx.
Proof.
  unfold query_insert. destruct (idx =? 0) eqn:I0.
  - apply N.eqb_eq in I0. split; [discriminate|lia].
  - apply N.eqb_neq in I0.
    destruct (seek (elem_w e OText) (seq_elems ops obj) (idx - 1) 0 0) as [[[[[el r] s] wd] p]|] eqn:Sk.
    + split; [discriminate|]. intros H. exfalso.
      assert (N : seek (elem_w e OText) (seq_elems ops obj) (idx - 1) 0 0 = None) by (apply seek_defined_iff; lia).
      congruence.
    + apply seek_defined_iff in Sk. split; [intros _; lia|reflexivity].
Qed.
