(* Crdt/Txn.v — transactions as a whole: open, edit, roll back or commit; isolation (C28, C29).

   Mirrors
   - [Automerge::transaction] / [transaction_at] / [transaction_args] (automerge.rs): opening a
     transaction puts the writing actor into the actor table ([get_or_create_actor_index]; for
     an isolated transaction every concurrency level [isolate_actor] tries, through
     [get_isolated_actor_index] -> [put_actor]), prunes the queue
     ([queue.remove_actor_branch_from(actor, seq)]) and fixes actor / seq / start_op / deps / scope;
   - [Automerge::{put_actor_ref, insert_actor, remove_actor, remove_unused_actors}] and
     [ChangeGraph::unused_actors]: the actor table is sorted and duplicate free (binary search +
     insert); an actor without an applied change is unused;
   - [Clock::isolate] / [Clock::covers] (clock.rs): the scope of an isolated transaction is the
     clock at the isolation heads with the writing actor's entry raised to u32::MAX;
   - [TransactionInner::{rollback, commit, commit_impl}] (transaction/inner.rs): rollback undoes
     the pending ops (last first), removes the actor when the transaction would have been its
     first change and then every unused actor; a commit without ops does the same clean-up;
   - [AutoCommit::{isolate, integrate, commit_with}] (autocommit.rs): [isolate] / [integrate]
     only set / clear the isolation heads, a successful isolated commit moves them to the new
     change.

   The editing calls themselves are Crdt/Local.v ([apply_call]) run on the ops the scope admits.

   Second half: the undo log of the op set ([OpSet::{add_succ_with_undo, undo_succ, reset_top}],
   op_set2/op_set.rs, as of 9da869ded: a named counter is exposed as top op only when it is visible)
   over the index columns it touches.  Every local op of a scoped transaction, the deletions of
   [inner_splice] included (32c572db3), runs [reset_top] on its register afterwards and again when
   it is undone.  No proofs in this file. *)
From AM Require Import Base.Prelude Base.Order Crdt.Types Crdt.Interp Crdt.Doc Crdt.Local Crdt.Commit.
Local Open Scope N_scope.

(* ================================================================== *)
(* actor table                                                          *)

(* [put_actor_ref]: binary search, insert at the reported position when absent *)
Fixpoint put_actor (t : list actor) (a : actor) : list actor :=
  match t with
  | [] => [a]
  | x :: r => match bytes_cmp a x with
              | Lt => a :: t
              | Eq => t
              | Gt => x :: put_actor r a
              end
  end.

(* [remove_actor(index of a)] *)
Fixpoint remove_actor (t : list actor) (a : actor) : list actor :=
  match t with
  | [] => []
  | x :: r => if same_actor x a then r else x :: remove_actor r a
  end.

Definition used (appl : list change) (a : actor) : bool := negb (seq_for_actor appl a =? 0).

(* [remove_unused_actors]: [while let Some(idx) = change_graph.unused_actors().last() { remove_actor(idx) }] *)
Definition remove_unused (appl : list change) (t : list actor) : list actor := filter (used appl) t.

(* the actors [isolate_actor] puts into the table: every level it tries, the chosen one last *)
Fixpoint tried_levels (fuel : nat) (appl : list change) (hs : list N) (a : actor) (i : N) : list actor :=
  match fuel with
  | O => []
  | S f =>
    let ai := level_actor a i in
    let n := seq_for_actor appl ai in
    if (n =? 0) || (seq_clock_at appl hs ai =? n) then [ai]
    else ai :: tried_levels f appl hs a (i + 1)
  end.

(* ================================================================== *)
(* documents and open transactions                                      *)

Record tdoc := mkT { t_m : mdoc; t_table : list actor; t_actor : actor }.

Definition t_applied (d : tdoc) : list change := m_applied (t_m d).

(* [Clock::covers] after [Clock::isolate(ai)] *)
Definition iso_covered (k : clock) (ai : actor) (id : opid) : bool :=
  same_actor (snd id) ai || covered k id.

Definition at_clock (appl : list change) (hs : list N) : clock := clock_of (ancestors appl hs).

(* the ops a transaction sees of the document: everything, or what its scope covers *)
Definition scope_ops (appl : list change) (iso : option (list N)) (ai : actor) : list op :=
  match iso with
  | None => all_ops appl
  | Some hs => filter (fun o => iso_covered (at_clock appl hs) ai (op_id o)) (all_ops appl)
  end.

Record otx := mkOT {
  ot_meta : cmeta;                 (* actor, seq, start_op, deps of the change it would create *)
  ot_iso : option (list N);
  ot_tx : tx;                      (* Local.v state: scoped document ops + pending ops *)
  ot_doc : tdoc }.                 (* the document while the transaction is open *)

Definition txn_open (d : tdoc) (iso : option (list N)) : res otx :=
  let m := t_m d in
  let appl := m_applied m in
  let* meta := commit_meta appl (m_get_heads m) (t_actor d) iso in
  let tried := match iso with
               | None => [t_actor d]
               | Some hs => tried_levels (S (length appl)) appl hs (t_actor d) 0
               end in
  let table := fold_left put_actor tried (t_table d) in
  let q' := remove_actor_branch_from (queue (m_doc m)) (cm_actor meta) (cm_seq meta) in
  Ok (mkOT meta iso
           (mkTx (isort op_cmp (scope_ops appl iso (cm_actor meta))) [] (cm_actor meta) (cm_start meta))
           (mkT (mkM (mkDoc appl q') (m_heads m)) table (t_actor d))).

(* one editing call (Local.v); a failed call leaves the transaction as it was *)
Definition txn_call (e : enc) (o : otx) (c : call) : eres (otx * status) :=
  match apply_call e (ot_tx o) c with
  | EOk (t', s) => EOk (mkOT (ot_meta o) (ot_iso o) t' (ot_doc o), s)
  | EErr x => EErr x
  | EPanic => EPanic
  end.

Fixpoint txn_calls (e : enc) (o : otx) (cs : list call) : eres otx :=
  match cs with
  | [] => EOk o
  | c :: rest => match txn_call e o c with
                 | EOk (o', _) => txn_calls e o' rest
                 | EErr x => EErr x
                 | EPanic => EPanic
                 end
  end.

(* what a read inside the open transaction shows: the whole op set (document ops and pending
   ops) through the scope *)
Definition txn_view (o : otx) : obs :=
  let appl := t_applied (ot_doc o) in
  let all := all_ops appl ++ tx_pending (ot_tx o) in
  match ot_iso o with
  | None => observe all
  | Some hs => observe (filter (fun x => iso_covered (at_clock appl hs) (cm_actor (ot_meta o)) (op_id x)) all)
  end.

(* [TransactionInner::rollback]: the pending ops leave the op set; [if seq == 1 { remove_actor }];
   [remove_unused_actors] *)
Definition tx_rollback (t : tx) : tx := mkTx (tx_base t) [] (tx_actor t) (tx_start t).

Definition cleanup_table (appl : list change) (meta : cmeta) (t : list actor) : list actor :=
  remove_unused appl (if cm_seq meta =? 1 then remove_actor t (cm_actor meta) else t).

Definition txn_rollback (o : otx) : tdoc :=
  let d := ot_doc o in
  mkT (t_m d) (cleanup_table (t_applied d) (ot_meta o) (t_table d)) (t_actor d).

(* [TransactionInner::commit]: without ops the clean-up of a rollback, with ops [commit_impl] *)
Definition txn_commit (o : otx) (hash : N) : tdoc * option change :=
  match tx_pending (ot_tx o) with
  | [] => (txn_rollback o, None)
  | ops =>
    let d := ot_doc o in
    let meta := ot_meta o in
    let c := mkChange hash (cm_actor meta) (cm_seq meta) (cm_start meta) (cm_deps meta) ops in
    let appl' := t_applied d ++ [c] in
    (mkT (mkM (mkDoc appl' (queue (m_doc (t_m d)))) (update_heads (m_heads (t_m d)) c))
         (remove_unused appl' (t_table d)) (t_actor d),
     Some c)
  end.

(* the table invariant between transactions: strictly sorted, exactly the actors with changes *)
Fixpoint sorted_actors (t : list actor) : bool :=
  match t with
  | [] => true
  | x :: r => match r with
              | [] => true
              | y :: _ => ltb bytes_cmp x y && sorted_actors r
              end
  end.

Definition table_ok (d : tdoc) : Prop :=
  sorted_actors (t_table d) = true /\
  forall a, In a (t_table d) <-> used (t_applied d) a = true.

(* no queued change claims the sequence number the next local change will take *)
Definition queue_quiet (d : tdoc) (iso : option (list N)) : Prop :=
  forall m, commit_meta (t_applied d) (m_get_heads (t_m d)) (t_actor d) iso = Ok m ->
    remove_actor_branch_from (queue (m_doc (t_m d))) (cm_actor m) (cm_seq m) = queue (m_doc (t_m d)).

(* ---- AutoCommit: the isolation heads are the only state [isolate] / [integrate] touch ---- *)
Record adoc := mkA { a_doc : tdoc; a_iso : option (list N) }.

Definition a_isolate (d : adoc) (hs : list N) : adoc := mkA (a_doc d) (Some hs).
Definition a_integrate (d : adoc) : adoc := mkA (a_doc d) None.

(* one auto-committed transaction: open at the isolation heads, run the calls, commit; an
   isolated commit that created a change moves the isolation heads to it *)
Definition a_transact (e : enc) (d : adoc) (cs : list call) (hash : N) : eres (adoc * option change) :=
  match txn_open (a_doc d) (a_iso d) with
  | Ok o =>
    match txn_calls e o cs with
    | EOk o' =>
      let (d', oc) := txn_commit o' hash in
      EOk (mkA d' (match a_iso d, oc with
                   | Some _, Some c => Some [ch_hash c]
                   | i, _ => i
                   end), oc)
    | EErr x => EErr x
    | EPanic => EPanic
    end
  | _ => EPanic
  end.

(* what the document shows outside a transaction: everything when integrated, the state at
   the isolation heads when isolated *)
Definition a_view (d : adoc) : obs :=
  match a_iso d with
  | None => observe (all_ops (t_applied (a_doc d)))
  | Some hs => observe (filter (fun o => covered (at_clock (t_applied (a_doc d)) hs) (op_id o))
                               (all_ops (t_applied (a_doc d))))
  end.

(* ================================================================== *)
(* the undo log of the op set (op_set2/op_set.rs)                       *)

(* The index columns [add_succ_with_undo] writes, one entry per op row ([succ_count], [visible],
   [text], [top]) and one per successor ([succ_actor]/[succ_ctr] as one id, [inc]). *)
Record cols := mkCols {
  c_cnt : list N;
  c_vis : list bool;
  c_text : list (option N);
  c_top : list bool;
  c_sub : list (opid * option Z) }.

(* [SuccInsert]; [si_width] is not a field of the Rust struct: it is what
   [self.get(pos).map(|op| op.width(Text, encoding))] answers for the row (a function of the op
   stored there, which these columns do not hold) *)
Record sins := mkSI { si_id : opid; si_pos : nat; si_inc : option Z; si_len : N; si_sub : nat; si_width : option N }.
(* [SuccUndo]: the insert and what it overwrote ([None] = column not written) *)
Record sundo := mkSU { su_ins : sins; su_vis : option bool; su_text : option (option N); su_top : option bool }.

(* [col.splice(pos, 1, [v])]: a position past the end is a panic *)
Fixpoint set_at {A} (p : nat) (v : A) (l : list A) : res (list A) :=
  match l, p with
  | [], _ => Panic
  | _ :: t, O => Ok (v :: t)
  | x :: t, S q => let* t' := set_at q v t in Ok (x :: t')
  end.
(* [col.splice(pos, 0, [v])] *)
Fixpoint ins_at {A} (p : nat) (v : A) (l : list A) : res (list A) :=
  match p, l with
  | O, _ => Ok (v :: l)
  | S _, [] => Panic
  | S q, x :: t => let* t' := ins_at q v t in Ok (x :: t')
  end.
(* [col.splice(pos, 1, [])] *)
Fixpoint del_at {A} (p : nat) (l : list A) : res (list A) :=
  match l, p with
  | [], _ => Panic
  | _ :: t, O => Ok t
  | x :: t, S q => let* t' := del_at q t in Ok (x :: t')
  end.

(* loop state of [add_succ_with_undo]: columns, undo log (in push order), succ_inc, last_pos,
   expose, delete *)
Record astate := mkAS {
  as_cols : cols; as_undo : list sundo; as_inc : N; as_last : option nat; as_expose : bool; as_delete : bool }.

Definition add_one (s : astate) (i : sins) : res astate :=
  let c := as_cols s in
  let succ_inc := match as_last s with
                  | Some p => if Nat.eqb p (si_pos i) then as_inc s + 1 else 1
                  | None => 1
                  end in
  let* cnt := set_at (si_pos i) (si_len i + succ_inc) (c_cnt c) in
  let* sub := ins_at (si_sub i) (si_id i, si_inc i) (c_sub c) in
  match si_inc i with
  | None =>
    let u := mkSU i (nth_error (c_vis c) (si_pos i)) (nth_error (c_text c) (si_pos i)) (nth_error (c_top c) (si_pos i)) in
    let* vis := set_at (si_pos i) false (c_vis c) in
    let* text := set_at (si_pos i) None (c_text c) in
    let* top := set_at (si_pos i) false (c_top c) in
    Ok (mkAS (mkCols cnt vis text top sub) (as_undo s ++ [u]) succ_inc (Some (si_pos i)) (as_expose s) true)
  | Some _ =>
    if as_delete s && negb (as_expose s) then
      if negb (option_eqb Bool.eqb (nth_error (c_vis c) (si_pos i)) (Some true)) then
        (* (repair 9da869ded) a counter the scope shows but the document has superseded is not a
           top op: nothing but the successor entry changes, [expose] stays as it is *)
        Ok (mkAS (mkCols cnt (c_vis c) (c_text c) (c_top c) sub) (as_undo s ++ [mkSU i None None None])
                 succ_inc (Some (si_pos i)) (as_expose s) (as_delete s))
      else
      (* the first surviving counter below the ops deleted so far becomes the top op and carries
         the element's width in the text index *)
      let u := mkSU i None (nth_error (c_text c) (si_pos i)) (nth_error (c_top c) (si_pos i)) in
      let* top := set_at (si_pos i) true (c_top c) in
      let* text := set_at (si_pos i) (si_width i) (c_text c) in
      Ok (mkAS (mkCols cnt (c_vis c) text top sub) (as_undo s ++ [u]) succ_inc (Some (si_pos i)) true (as_delete s))
    else
      Ok (mkAS (mkCols cnt (c_vis c) (c_text c) (c_top c) sub) (as_undo s ++ [mkSU i None None None])
               succ_inc (Some (si_pos i)) true (as_delete s))
  end.

Fixpoint add_loop (s : astate) (l : list sins) : res astate :=
  match l with
  | [] => Ok s
  | i :: t => let* s' := add_one s i in add_loop s' t
  end.

(* [for i in op_pos.iter().rev()] *)
Definition add_succ_with_undo (c : cols) (ins : list sins) : res (cols * list sundo) :=
  let* s := add_loop (mkAS c [] 0 None false false) (rev ins) in
  Ok (as_cols s, as_undo s).

Definition undo_one (c : cols) (u : sundo) : res cols :=
  let i := su_ins u in
  let* cnt := set_at (si_pos i) (si_len i) (c_cnt c) in
  let* sub := del_at (si_sub i) (c_sub c) in
  let* vis := match su_vis u with Some v => set_at (si_pos i) v (c_vis c) | None => Ok (c_vis c) end in
  let* text := match su_text u with Some v => set_at (si_pos i) v (c_text c) | None => Ok (c_text c) end in
  let* top := match su_top u with Some v => set_at (si_pos i) v (c_top c) | None => Ok (c_top c) end in
  Ok (mkCols cnt vis text top sub).

Fixpoint undo_loop (c : cols) (l : list sundo) : res cols :=
  match l with
  | [] => Ok c
  | u :: t => let* c' := undo_one c u in undo_loop c' t
  end.

(* [for undo in op_pos.iter().rev()] *)
Definition undo_succ (c : cols) (us : list sundo) : res cols := undo_loop c (rev us).

(* well-formed inserts (what [Op::add_succ] produces for the ops a seek found): row and
   successor positions inside the columns, [len] = the row's current successor count *)
Definition wf_ins (c : cols) (i : sins) : Prop :=
  (si_pos i < length (c_cnt c))%nat /\ (si_pos i < length (c_vis c))%nat /\
  (si_pos i < length (c_text c))%nat /\ (si_pos i < length (c_top c))%nat /\
  (si_sub i <= length (c_sub c))%nat /\ nth_error (c_cnt c) (si_pos i) = Some (si_len i).

(* ---- reset_top: recompute the top flags of one register from its visible flags ---- *)
(* loop state: conflicts (reversed), expose, last_t *)
Fixpoint reset_scan (vt : list (bool * bool)) (i : nat) (conf : list nat) (expose last_t : option nat)
  : res (list nat * option nat) :=
  match vt with
  | [] => Ok (conf, expose)
  | (v, t) :: rest =>
    if t then
      if v then reset_scan rest (S i) (match last_t with Some n => n :: conf | None => conf end) None (Some i)
      else Panic                                              (* assert!(v) *)
    else if v then
      reset_scan rest (S i) (match last_t with Some n => n :: conf | None => conf end) (Some i) None
    else reset_scan rest (S i) conf expose last_t
  end.

Fixpoint set_all (ps : list nat) (v : bool) (l : list bool) : res (list bool) :=
  match ps with
  | [] => Ok l
  | p :: t => let* l' := set_at p v l in set_all t v l'
  end.

(* [reset_top(start .. start + len)] on the [visible] / [top] columns (the text-width column it
   also rewrites follows the top flag and is not modelled) *)
Definition reset_top (vis top : list bool) (start len : nat) : res (list bool) :=
  let vt := combine (firstn len (skipn start vis)) (firstn len (skipn start top)) in
  let* (conf, expose) := reset_scan vt 0 [] None None in
  let* top1 := set_all (map (fun n => (start + n)%nat) (rev conf)) false top in
  match expose with
  | Some n => set_at (start + n)%nat true top1
  | None => Ok top1
  end.

(* the canonical top flags of a register: the last visible op, nothing else *)
Fixpoint last_vis (vis : list bool) : option nat :=
  match vis with
  | [] => None
  | v :: t => match last_vis t with
              | Some n => Some (S n)
              | None => if v then Some O else None
              end
  end.
Definition canon_top (vis : list bool) : list bool :=
  match last_vis vis with
  | Some n => map (fun i => Nat.eqb i n) (seq 0 (length vis))
  | None => map (fun _ => false) vis
  end.

(* the invariant [validate_top_index] asserts row by row and [reset_top] relies on: a top op is visible *)
Definition top_vis (c : cols) : Prop :=
  forall p, nth_error (c_top c) p = Some true -> nth_error (c_vis c) p = Some true.
