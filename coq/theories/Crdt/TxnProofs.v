(* Crdt/TxnProofs.v — rollback restores the document (C28), isolated transactions act on the
   chosen heads (C29), the undo log of the op set undoes what it logged (C28, mechanism). *)
From AM Require Import Base.Prelude Base.Order Crdt.Types Crdt.Interp Crdt.Doc Crdt.Local Crdt.Commit
  Crdt.InterpProofs Crdt.ClockProofs Crdt.QueueProofs Crdt.CommitProofs Crdt.LocalProofs Crdt.Txn Exec.HistExec.
From Coq Require Import Sorting.Sorted.
Local Open Scope N_scope.

(* ================================================================== *)
(* editing calls only append pending ops                                *)

Definition Ext (t t' : tx) : Prop :=
  tx_base t' = tx_base t /\ tx_actor t' = tx_actor t /\ tx_start t' = tx_start t /\
  exists extra, tx_pending t' = tx_pending t ++ extra /\
                forall o, In o extra -> snd (op_id o) = tx_actor t.

Lemma Ext_refl t : Ext t t.
Proof. repeat split. exists []. rewrite app_nil_r. split; [reflexivity|intros o []]. Qed.

Lemma Ext_trans a b c : Ext a b -> Ext b c -> Ext a c.
Proof.
  intros (B1 & A1 & S1 & x1 & P1 & O1) (B2 & A2 & S2 & x2 & P2 & O2).
  repeat split; try congruence. exists (x1 ++ x2). split.
  - rewrite P2, P1, app_assoc. reflexivity.
  - intros o Ho. apply in_app_or in Ho. destruct Ho as [Ho|Ho]; [apply O1, Ho|rewrite <- A1; apply O2, Ho].
Qed.

Lemma Ext_push t o : snd (op_id o) = tx_actor t -> Ext t (push t o).
Proof.
  intros H. unfold push. repeat split; cbn. exists [o]. split; [reflexivity|].
  intros o' [<-|[]]. exact H.
Qed.

Lemma next_id_actor t : snd (next_id t) = tx_actor t.
Proof. reflexivity. Qed.

Lemma Ext_update_op t obj k r a t' oid : update_op t obj k r a = EOk (t', oid) -> Ext t t'.
Proof.
  unfold update_op. destruct (resolve_action r a) as [[a' r']|].
  - destruct (is_inc_action a' && negb (existsb is_vc r')); [discriminate|].
    intros H. inversion H; subst. apply Ext_push. reflexivity.
  - intros H. inversion H; subst. apply Ext_refl.
Qed.

Lemma Ext_local_op e t obj ty p a t' oid : local_op e t obj ty p a = EOk (t', oid) -> Ext t t'.
Proof.
  destruct p as [k|i]; cbn [local_op].
  - unfold local_map_op. apply Ext_update_op.
  - unfold local_list_op. destruct (negb (is_seq_type ty)); [discriminate|].
    destruct (seek _ _ _ _ _) as [[[[[el r] ?] ?] ?]|]; [|discriminate]. apply Ext_update_op.
Qed.

Lemma Ext_drop_id_local e t obj ty p a t' : drop_id (local_op e t obj ty p a) = EOk t' -> Ext t t'.
Proof.
  intros H. apply drop_id_ok in H. destruct H as [y H]. eapply Ext_local_op. exact H.
Qed.

Lemma Ext_do_insert e t obj ty i a t' : drop_id (do_insert e t obj ty i a) = EOk t' -> Ext t t'.
Proof.
  intros H. apply drop_id_ok in H. destruct H as [y H]. unfold do_insert in H.
  destruct (query_insert e ty (tx_all t) obj i) as [[[rf ?] ?]|]; [|discriminate].
  inversion H; subst. apply Ext_push. reflexivity.
Qed.

Lemma Ext_insert_chain acts : forall t obj rf, Ext t (insert_chain t obj rf acts).
Proof.
  induction acts as [|a rest IH]; intros t obj rf; cbn [insert_chain]; [apply Ext_refl|].
  eapply Ext_trans; [apply (Ext_push t (mkOp (next_id t) obj (KSeq rf) true a [])); reflexivity|apply IH].
Qed.

Lemma Ext_del_loop fuel : forall e t obj ty di deleted del t',
  del_loop fuel e t obj ty di deleted del = EOk t' -> Ext t t'.
Proof.
  induction fuel as [|f IH]; intros e t obj ty di deleted del t' H; cbn [del_loop] in H; [discriminate|].
  destruct (deleted <? del); [|inversion H; subst; apply Ext_refl].
  destruct (seek _ _ _ _ _) as [[[[[el r] s] w] ?]|]; [|inversion H; subst; apply Ext_refl].
  destruct (s <? di).
  - eapply IH. exact H.
  - eapply Ext_trans; [apply (Ext_push t (mkOp (next_id t) obj (KSeq el) false ADel (map fst r))); reflexivity|eapply IH; exact H].
Qed.

Lemma Ext_inner_splice e t obj ty index del acts t' :
  inner_splice e t obj ty index del acts = EOk t' -> Ext t t'.
Proof.
  unfold inner_splice.
  destruct (if (del <? 0)%Z then _ else _) as [[index' del']|]; [|discriminate].
  destruct acts as [|a rest].
  - apply Ext_del_loop.
  - destruct (query_insert e ty (tx_all t) obj index') as [[[rf idx] ?]|]; [|discriminate].
    intros H. eapply Ext_trans; [apply Ext_insert_chain|eapply Ext_del_loop; exact H].
Qed.

Lemma Ext_step e t c t' : step e t c = EOk t' -> Ext t t'.
Proof.
  destruct c as [obj p v|obj p nt|obj i v|obj i nt|obj p|obj p z|obj i del vs|obj i del s];
    cbn [step]; unfold with_obj; destruct (lookup_type (tx_all t) obj) as [oty|]; try discriminate.
  - destruct p, oty; try discriminate; apply Ext_drop_id_local.
  - destruct p, oty; try discriminate; apply Ext_drop_id_local.
  - destruct (is_seq_type oty); [apply Ext_do_insert|discriminate].
  - destruct (is_seq_type oty); [apply Ext_do_insert|discriminate].
  - destruct p, oty; try discriminate; try apply Ext_drop_id_local.
    destruct (seq_width e OText (seq_elems (tx_all t) obj) <=? i); [discriminate|apply Ext_inner_splice].
  - apply Ext_drop_id_local.
  - destruct oty; try discriminate; [apply Ext_inner_splice|].
    destruct (splice_text_of vs); [apply Ext_inner_splice|discriminate].
  - destruct oty; try discriminate. apply Ext_inner_splice.
Qed.

Lemma Ext_apply_call e t c t' s : apply_call e t c = EOk (t', s) -> Ext t t'.
Proof.
  unfold apply_call. destruct (step e t c) as [t1|x|] eqn:E; intros H; inversion H; subst.
  - eapply Ext_step. exact E.
  - apply Ext_refl.
Qed.

(* a run of calls keeps everything of the open transaction but the pending ops *)
Lemma txn_calls_inv e cs : forall o o', txn_calls e o cs = EOk o' ->
  ot_meta o' = ot_meta o /\ ot_iso o' = ot_iso o /\ ot_doc o' = ot_doc o /\ Ext (ot_tx o) (ot_tx o').
Proof.
  induction cs as [|c rest IH]; intros o o' H; cbn [txn_calls] in H.
  - inversion H; subst. split; [reflexivity|split; [reflexivity|split; [reflexivity|apply Ext_refl]]].
  - unfold txn_call in H. destruct (apply_call e (ot_tx o) c) as [[t1 s]|x|] eqn:E; try discriminate.
    apply IH in H. cbn [ot_meta ot_iso ot_doc ot_tx] in H. destruct H as (M & I & D & X).
    split; [exact M|split; [exact I|split; [exact D|]]].
    eapply Ext_trans; [eapply Ext_apply_call; exact E|exact X].
Qed.

(* sorting a list that is already sorted by key leaves it alone *)
Lemma kisort_id {A K} (key : A -> K) (cmpK : K -> K -> comparison) (l : list A) :
  ksorted key cmpK l -> isort (kcmp key cmpK) l = l.
Proof.
  induction 1 as [|x t Ht IH Hall]; [reflexivity|]. cbn [isort]. rewrite IH.
  destruct t as [|y t']; [reflexivity|]. cbn [insert_sorted].
  inversion Hall as [|? ? Hxy _]; subst. unfold kle, le in Hxy. unfold leb, kcmp.
  destruct (cmpK (key x) (key y)); try reflexivity. exfalso. apply Hxy. reflexivity.
Qed.

Lemma observe_isort ops : observe (isort op_cmp ops) = observe ops.
Proof.
  unfold observe. f_equal. apply (kisort_id op_id opid_cmp).
  apply kisort_sorted, opid_cmp_total.
Qed.

(* ================================================================== *)
(* the actor table                                                      *)

Definition SortedT (t : list actor) : Prop := StronglySorted (fun x y => bytes_cmp x y = Lt) t.

Lemma sorted_actors_spec t : sorted_actors t = true -> SortedT t.
Proof.
  induction t as [|x r IH]; intros H; [constructor|].
  destruct r as [|y r'].
  - constructor; constructor.
  - cbn [sorted_actors] in H. apply andb_true_iff in H. destruct H as [Hxy Hr].
    specialize (IH Hr). constructor; [exact IH|].
    unfold ltb in Hxy. destruct (bytes_cmp x y) eqn:E; try discriminate.
    inversion IH as [|? ? _ Hall]; subst. constructor; [exact E|].
    eapply Forall_impl; [|exact Hall]. intros z Hz. cbv beta in Hz.
    eapply (cmp_trans bytes_cmp_total); eassumption.
Qed.

Lemma In_put_actor t a x : In x (put_actor t a) <-> x = a \/ In x t.
Proof.
  induction t as [|y r IH]; cbn [put_actor].
  - cbn. intuition.
  - destruct (bytes_cmp a y) eqn:E.
    + apply (cmp_eq bytes_cmp_total) in E. subst y. cbn. intuition.
    + cbn. intuition.
    + cbn [In]. rewrite IH. intuition.
Qed.

Lemma put_actor_sorted t a : SortedT t -> SortedT (put_actor t a).
Proof.
  induction t as [|y r IH]; intros H; cbn [put_actor].
  - constructor; constructor.
  - inversion H as [|? ? Hr Hall]; subst. destruct (bytes_cmp a y) eqn:E.
    + exact H.
    + constructor; [exact H|]. constructor; [exact E|].
      eapply Forall_impl; [|exact Hall]. intros z Hz. cbv beta in Hz.
      eapply (cmp_trans bytes_cmp_total); eassumption.
    + constructor; [apply IH, Hr|].
      apply Forall_forall. intros z Hz. apply In_put_actor in Hz. destruct Hz as [->|Hz].
      * apply (cmp_gt_lt _ bytes_cmp_total). exact E.
      * rewrite Forall_forall in Hall. apply Hall, Hz.
Qed.

Lemma put_actor_present t a : SortedT t -> In a t -> put_actor t a = t.
Proof.
  induction t as [|y r IH]; intros H Hin; [destruct Hin|].
  inversion H as [|? ? Hr Hall]; subst. cbn [put_actor]. destruct (bytes_cmp a y) eqn:E.
  - reflexivity.
  - exfalso. destruct Hin as [->|Hin].
    + rewrite (cmp_refl _ bytes_cmp_total) in E. discriminate.
    + rewrite Forall_forall in Hall. specialize (Hall a Hin).
      pose proof (cmp_antisym bytes_cmp_total a y) as A. rewrite Hall, E in A. discriminate.
  - f_equal. apply IH; [exact Hr|]. destruct Hin as [->|Hin]; [|exact Hin].
    rewrite (cmp_refl _ bytes_cmp_total) in E. discriminate.
Qed.

Lemma filter_put_unused f t a : f a = false -> filter f (put_actor t a) = filter f t.
Proof.
  intros Hf. induction t as [|y r IH]; cbn [put_actor].
  - cbn. rewrite Hf. reflexivity.
  - destruct (bytes_cmp a y); [reflexivity| |].
    + cbn [filter]. rewrite Hf. reflexivity.
    + cbn [filter]. rewrite IH. reflexivity.
Qed.

Lemma filter_remove_unused f t a : f a = false -> filter f (remove_actor t a) = filter f t.
Proof.
  intros Hf. induction t as [|y r IH]; [reflexivity|]. cbn [remove_actor].
  destruct (same_actor y a) eqn:E.
  - apply same_actor_spec in E. subst y. cbn [filter]. rewrite Hf. reflexivity.
  - cbn [filter]. rewrite IH. reflexivity.
Qed.

(* putting any actors into a table that already holds every used actor, then dropping the unused
   ones, gives the table back *)
Lemma fold_put_filter appl tried : forall t,
  SortedT t -> (forall a, used appl a = true -> In a t) ->
  filter (used appl) (fold_left put_actor tried t) = filter (used appl) t.
Proof.
  induction tried as [|a rest IH]; intros t Hs Hall; [reflexivity|]. cbn [fold_left].
  destruct (used appl a) eqn:U.
  - rewrite (put_actor_present t a Hs (Hall a U)). apply IH; assumption.
  - rewrite IH.
    + apply filter_put_unused, U.
    + apply put_actor_sorted, Hs.
    + intros b Hb. apply In_put_actor. right. apply Hall, Hb.
Qed.

Lemma table_ok_filter d : table_ok d -> filter (used (t_applied d)) (t_table d) = t_table d.
Proof. intros [_ H]. apply filter_all_true. intros a Ha. apply H, Ha. Qed.

(* ================================================================== *)
(* C28: rollback                                                        *)

Lemma txn_open_inv d iso o : txn_open d iso = Ok o ->
  exists meta tried,
    commit_meta (t_applied d) (m_get_heads (t_m d)) (t_actor d) iso = Ok meta /\
    o = mkOT meta iso
          (mkTx (isort op_cmp (scope_ops (t_applied d) iso (cm_actor meta))) [] (cm_actor meta) (cm_start meta))
          (mkT (mkM (mkDoc (t_applied d)
                           (remove_actor_branch_from (queue (m_doc (t_m d))) (cm_actor meta) (cm_seq meta)))
                    (m_heads (t_m d)))
               (fold_left put_actor tried (t_table d)) (t_actor d)).
Proof.
  unfold txn_open, t_applied. destruct (commit_meta _ _ _ _) as [meta| |]; cbn [bind]; try discriminate.
  intros H. inversion H; subst. eexists. eexists. split; reflexivity.
Qed.

Lemma cleanup_after_open d meta iso tried :
  table_ok d -> commit_meta (t_applied d) (m_get_heads (t_m d)) (t_actor d) iso = Ok meta ->
  cleanup_table (t_applied d) meta (fold_left put_actor tried (t_table d)) = t_table d.
Proof.
  intros Hok Hm. pose proof Hok as [Hs Hall]. apply sorted_actors_spec in Hs.
  unfold cleanup_table, remove_unused.
  assert (E : filter (used (t_applied d)) (fold_left put_actor tried (t_table d)) = t_table d).
  { rewrite fold_put_filter; [apply table_ok_filter, Hok|exact Hs|intros a Ha; apply Hall, Ha]. }
  destruct (cm_seq meta =? 1) eqn:S1; [|exact E].
  rewrite filter_remove_unused; [exact E|].
  pose proof (commit_seq_next _ _ _ _ _ Hm) as Hn. unfold used.
  apply N.eqb_eq in S1. assert (seq_for_actor (t_applied d) (cm_actor meta) = 0) as -> by lia. reflexivity.
Qed.

(* Everything the model keeps of a document is back where it was, except the queue: opening the
   transaction dropped the queued changes that claim the sequence number the transaction would
   have used (with their queued dependents), and rollback does not put them back. *)
Theorem rollback_restores d iso o e cs o' :
  table_ok d -> txn_open d iso = Ok o -> txn_calls e o cs = EOk o' ->
  let d' := txn_rollback o' in
  t_applied d' = t_applied d /\ m_heads (t_m d') = m_heads (t_m d) /\
  t_actor d' = t_actor d /\ t_table d' = t_table d /\
  queue (m_doc (t_m d')) =
    remove_actor_branch_from (queue (m_doc (t_m d))) (cm_actor (ot_meta o)) (cm_seq (ot_meta o)) /\
  (* the op set: the pending ops are gone, the ops it held are what it holds *)
  tx_all (tx_rollback (ot_tx o')) = tx_base (ot_tx o) /\
  observe (tx_all (tx_rollback (ot_tx o'))) = observe (scope_ops (t_applied d) iso (cm_actor (ot_meta o))).
Proof.
  intros Hok Ho Hc d'. destruct (txn_open_inv d iso o Ho) as (meta & tried & Hm & ->).
  destruct (txn_calls_inv e cs _ _ Hc) as (M & I & D & (B & _)).
  cbn [ot_meta ot_iso ot_doc ot_tx] in *. subst d'. unfold txn_rollback. rewrite M, D.
  cbn [t_m t_table t_actor t_applied m_applied m_doc applied queue m_heads].
  unfold t_applied at 1. cbn [t_m m_applied m_doc applied].
  split; [reflexivity|]. split; [reflexivity|]. split; [reflexivity|].
  split; [apply (cleanup_after_open d meta iso tried Hok Hm)|]. split; [reflexivity|].
  unfold tx_rollback, tx_all. cbn [tx_base tx_pending]. rewrite app_nil_r, B. cbn [tx_base].
  split; [reflexivity|]. apply observe_isort.
Qed.

(* With no queued change in the way the rolled-back document IS the document the transaction
   started from: the same value of the model, hence indistinguishable by anything defined on it. *)
Theorem rollback_state_equal d iso o e cs o' :
  table_ok d -> queue_quiet d iso -> txn_open d iso = Ok o -> txn_calls e o cs = EOk o' ->
  txn_rollback o' = d.
Proof.
  intros Hok Hq Ho Hc.
  pose proof (rollback_restores d iso o e cs o' Hok Ho Hc) as R. cbv zeta in R.
  destruct R as (Ra & Rh & Rc & Rt & Rq & _).
  destruct (txn_open_inv d iso o Ho) as (meta & tried & Hm & Eo).
  rewrite Eo in Rq. cbn [ot_meta] in Rq. rewrite (Hq meta Hm) in Rq.
  destruct (txn_rollback o') as [[[a' q'] h'] tb' ac']. destruct d as [[[a q] h] tb ac].
  unfold t_applied in Ra. cbn in Ra, Rh, Rc, Rt, Rq. subst. reflexivity.
Qed.

(* "subsequent edits produce the changes the untouched document would produce": the next
   transaction opens with the same actor, seq, start_op, deps, scope and op set; the same calls
   then generate the same ops and the same change (the functions are applied to equal arguments) *)
Theorem rollback_next_change_same d iso o e cs o' iso2 e2 cs2 hash :
  table_ok d -> queue_quiet d iso -> txn_open d iso = Ok o -> txn_calls e o cs = EOk o' ->
  txn_open (txn_rollback o') iso2 = txn_open d iso2 /\
  forall o2 o2',
    txn_open (txn_rollback o') iso2 = Ok o2 -> txn_calls e2 o2 cs2 = EOk o2' ->
    exists u2 u2', txn_open d iso2 = Ok u2 /\ txn_calls e2 u2 cs2 = EOk u2' /\
                   txn_commit o2' hash = txn_commit u2' hash.
Proof.
  intros Hok Hq Ho Hc. rewrite (rollback_state_equal d iso o e cs o' Hok Hq Ho Hc).
  split; [reflexivity|]. intros o2 o2' H1 H2. exists o2, o2'. auto.
Qed.

(* without [queue_quiet] the statement is false: a queued change of the same actor that claims
   the next sequence number (it waits for a dependency) is dropped when the transaction opens
   and is still gone after the rollback *)
Theorem rollback_queue_refuted :
  exists d o, table_ok d /\ txn_open d None = Ok o /\ txn_rollback o <> d /\
              queue (m_doc (t_m d)) <> [] /\ queue (m_doc (t_m (txn_rollback o))) = [].
Proof.
  pose (a1 := mkChange 11 [1] 1 1 [] [dummy_op]).
  pose (a2 := mkChange 12 [1] 2 2 [11; 99] [dummy_op]).
  exists (mkT (mkM (mkDoc [a1] [a2]) [11]) [[1]] [1]).
  eexists. split; [|split; [vm_compute; reflexivity|]].
  - split; [reflexivity|]. intros a. unfold used, seq_for_actor, t_applied, m_applied.
    cbn [t_m m_doc applied t_table filter]. change (ch_actor a1) with [1].
    destruct (same_actor [1] a) eqn:E.
    + apply same_actor_spec in E. subst a. split; [intros _; reflexivity|intros _; left; reflexivity].
    + split; [intros [<-|[]]; vm_compute in E; discriminate|intros H; vm_compute in H; discriminate H].
  - split; [intros H; vm_compute in H; discriminate H|]. split; [discriminate|vm_compute; reflexivity].
Qed.

(* ================================================================== *)
(* C29: isolation                                                       *)

(* every change of the actor an isolated transaction writes as is an ancestor of the heads *)
Theorem isolated_actor_covered appl heads a hs m :
  Built appl -> AChain appl -> commit_meta appl heads a (Some hs) = Ok m ->
  forall c, In c appl -> ch_actor c = cm_actor m -> In c (ancestors appl hs).
Proof.
  intros Hb [Hidx Hch] Hm c Hc Ha.
  destruct (commit_deps_isolated appl heads a hs m Hm) as (_ & _ & j & _ & Hcov & _).
  pose proof (seq_for_actor_in appl c Hc) as H1. rewrite Ha in H1.
  destruct Hcov as [H0|Hcov]; [lia|].
  destruct (has_hash (ancestors appl hs) (ch_hash c)) eqn:Hh.
  - apply has_hash_spec in Hh. destruct Hh as [c' [Hc' E]].
    assert (c' = c) as <-; [|exact Hc'].
    apply (Built_hash_inj appl Hb); [eapply ancestors_incl; exact Hc'|exact Hc|exact E].
  - exfalso.
    assert (Hn : ~ Anc appl hs c).
    { intros HA. apply (Built_anc_iff appl hs c Hb) in HA.
      assert (has_hash (ancestors appl hs) (ch_hash c) = true) by (apply has_hash_spec; exists c; auto).
      congruence. }
    apply (seq_clock_covers appl hs c Hb Hch Hc) in Hn. apply N.ltb_lt in Hn.
    rewrite Ha, Hcov in Hn.
    pose proof (SeqIdx_le appl (cm_actor m) c (Hidx _) Hc Ha). lia.
Qed.

Lemma in_all_ops o cs : In o (all_ops cs) <-> exists c, In c cs /\ In o (ch_ops c).
Proof. unfold all_ops. apply in_flat_map. Qed.

(* what the scope of an isolated transaction admits of the op set (document ops and the ops the
   transaction has made so far): the ops of the ancestors of the heads, and its own *)
Theorem isolated_scope_eq appl hs ai pending :
  WFhist appl ->
  (forall c, In c appl -> ch_actor c = ai -> In c (ancestors appl hs)) ->
  (forall o, In o pending -> snd (op_id o) = ai) ->
  filter (fun o => iso_covered (at_clock appl hs) ai (op_id o)) (all_ops appl ++ pending)
  = all_ops (ancestors appl hs) ++ pending.
Proof.
  intros W Hcov Hp. rewrite filter_app. f_equal.
  - rewrite <- (filter_covered_eq appl hs W). apply filter_ext_in. intros o Ho.
    apply in_all_ops in Ho. destruct Ho as [c [Hc Ho]].
    unfold iso_covered, at_clock. destruct (same_actor (snd (op_id o)) ai) eqn:E; [|reflexivity].
    apply same_actor_spec in E. cbn [orb]. symmetry.
    apply (covered_iff_ancestor appl hs W c o Hc Ho). apply Hcov; [exact Hc|].
    destruct (In_nth_error _ _ Ho) as [i Hi]. rewrite (wf_opids appl W c Hc i o Hi) in E. exact E.
  - apply filter_all_true. intros o Ho. unfold iso_covered.
    rewrite (Hp o Ho). assert (same_actor ai ai = true) as -> by (apply same_actor_spec; reflexivity).
    reflexivity.
Qed.

(* C29, reads: inside a transaction opened at [hs] (transaction_at / an isolated AutoCommit),
   after any editing calls, a read shows the document as of [hs] — the ops of the ancestors of
   [hs], which is what [obs_at] / fork_at(hs) show (C07) — extended with the transaction's own
   ops; and that is the op set the editing calls themselves work on *)
Theorem isolated_reads d hs o e cs o' :
  WFhist (t_applied d) -> Built (t_applied d) -> AChain (t_applied d) ->
  txn_open d (Some hs) = Ok o -> txn_calls e o cs = EOk o' ->
  let appl := t_applied d in
  let pending := tx_pending (ot_tx o') in
  txn_view o' = observe (all_ops (ancestors appl hs) ++ pending) /\
  observe (tx_all (ot_tx o)) = obs_at appl hs /\
  (NoDup (map op_id (all_ops (ancestors appl hs) ++ pending)) -> observe (tx_all (ot_tx o')) = txn_view o').
Proof.
  intros W Hb Hch Ho Hc appl pending.
  destruct (txn_open_inv d (Some hs) o Ho) as (meta & tried & Hm & Eo).
  destruct (txn_calls_inv e cs _ _ Hc) as (M & I & D & (B & A & _ & extra & P & Hx)).
  assert (Hcov : forall c, In c appl -> ch_actor c = cm_actor meta -> In c (ancestors appl hs)).
  { eapply isolated_actor_covered; eassumption. }
  assert (Hpend : forall x, In x pending -> snd (op_id x) = cm_actor meta).
  { subst pending. rewrite P, Eo. cbn [ot_tx tx_pending app]. intros x Hin. rewrite (Hx x Hin), Eo. reflexivity. }
  assert (V : txn_view o' = observe (all_ops (ancestors appl hs) ++ pending)).
  { unfold txn_view. rewrite I, D, M, Eo. cbn [ot_iso ot_doc ot_meta].
    repeat match goal with |- context [t_applied (mkT ?a ?b ?c)] => change (t_applied (mkT a b c)) with appl end.
    fold pending. rewrite (isolated_scope_eq appl hs (cm_actor meta) pending W Hcov Hpend). reflexivity. }
  assert (S0 : scope_ops appl (Some hs) (cm_actor meta) = all_ops (ancestors appl hs)).
  { pose proof (isolated_scope_eq appl hs (cm_actor meta) [] W Hcov ltac:(intros x []) ) as E.
    rewrite !app_nil_r in E. exact E. }
  split; [exact V|]. split.
  - rewrite Eo. cbn [ot_tx]. unfold tx_all. cbn [tx_base tx_pending]. rewrite app_nil_r.
    rewrite observe_isort. fold appl. rewrite S0. symmetry. apply obs_at_eq_restrict, W.
  - intros Hnd. rewrite V. unfold tx_all. rewrite B. rewrite Eo. cbn [ot_tx tx_base]. fold appl. rewrite S0.
    fold pending. symmetry. apply observe_perm; [exact Hnd|].
    apply Permutation_app_tail. exact (kisort_perm op_id opid_cmp _).
Qed.

(* C29, dependencies: the change an isolated transaction creates depends on exactly the
   isolation heads; AutoCommit then isolates at that change, so the next isolated change depends
   on exactly it *)
Theorem isolated_deps d hs o :
  txn_open d (Some hs) = Ok o ->
  cm_deps (ot_meta o) = sortN (filter (has_hash (t_applied d)) hs) /\
  (incl hs (hashes (t_applied d)) -> forall h, In h (cm_deps (ot_meta o)) <-> In h hs) /\
  forall o' hash c d', tx_pending (ot_tx o') <> [] -> ot_meta o' = ot_meta o ->
    txn_commit o' hash = (d', Some c) -> ch_deps c = cm_deps (ot_meta o) /\ ch_hash c = hash.
Proof.
  intros Ho. destruct (txn_open_inv d (Some hs) o Ho) as (meta & tried & Hm & Eo).
  destruct (commit_deps_isolated _ _ _ _ _ Hm) as (Hd & Hi & _).
  rewrite Eo. cbn [ot_meta]. split; [exact Hd|]. split; [exact Hi|].
  intros o' hash c d' Hne HM Hc. unfold txn_commit in Hc. rewrite HM in Hc.
  destruct (tx_pending (ot_tx o')) as [|x r]; [contradiction|].
  inversion Hc; subst. cbn [ch_deps ch_hash ot_meta]. split; reflexivity.
Qed.

Theorem isolated_deps_next appl heads a h m :
  has_hash appl h = true -> commit_meta appl heads a (Some [h]) = Ok m -> cm_deps m = [h].
Proof.
  intros Hh Hm. destruct (commit_deps_isolated _ _ _ _ _ Hm) as (Hd & _).
  rewrite Hd. cbn [filter]. rewrite Hh. reflexivity.
Qed.

(* the isolation heads after an auto-committed isolated transaction that created a change *)
Theorem isolated_moves_to_change e d cs hash d' c hs :
  a_iso d = Some hs -> a_transact e d cs hash = EOk (d', Some c) -> a_iso d' = Some [ch_hash c].
Proof.
  intros Hi H. unfold a_transact in H. rewrite Hi in H.
  destruct (txn_open (a_doc d) (Some hs)) as [o| |]; try discriminate.
  destruct (txn_calls e o cs) as [o'| |]; try discriminate.
  destruct (txn_commit o' hash) as [d2 oc]. inversion H; subst. reflexivity.
Qed.

(* ---- integrate ---- *)

(* delivering one change whose dependencies are applied, to a document with an empty queue *)
Lemma receive_ready_one appl c :
  ready appl c = true -> has_hash appl (ch_hash c) = false ->
  seq_for_actor appl (ch_actor c) < ch_seq c ->
  receive (mkDoc appl []) [c] = Ok (mkDoc (appl ++ [c]) []).
Proof.
  intros Hr Hf Hs. unfold receive. cbn [applied queue filter has_hash existsb orb negb].
  change (existsb (fun c0 => ch_hash c0 =? ch_hash c) appl) with (has_hash appl (ch_hash c)).
  rewrite Hf. cbn [negb orb batch_push applied queue].
  assert ((ch_seq c <=? seq_for_actor appl (ch_actor c)) = false) as -> by lia.
  cbn [has_actor_seq existsb has_hash app bind length release filter].
  rewrite Hr. cbn [negb filter app]. reflexivity.
Qed.

Fixpoint chain_ready (appl : list change) (cs : list change) : Prop :=
  match cs with
  | [] => True
  | c :: r => ready appl c = true /\ has_hash appl (ch_hash c) = false /\
              seq_for_actor appl (ch_actor c) < ch_seq c /\ chain_ready (appl ++ [c]) r
  end.

Fixpoint deliver_each (d : doc) (cs : list change) : res doc :=
  match cs with
  | [] => Ok d
  | c :: r => let* d' := receive d [c] in deliver_each d' r
  end.

Lemma deliver_chain cs : forall appl, chain_ready appl cs ->
  deliver_each (mkDoc appl []) cs = Ok (mkDoc (appl ++ cs) []).
Proof.
  induction cs as [|c r IH]; intros appl H; cbn [deliver_each].
  - rewrite app_nil_r. reflexivity.
  - destruct H as (Hr & Hf & Hs & Hrest). rewrite (receive_ready_one appl c Hr Hf Hs). cbn [bind].
    rewrite (IH _ Hrest), <- app_assoc. reflexivity.
Qed.

(* C29, integrate: isolation is not part of the document — [integrate] leaves the applied changes
   alone and lifts the restriction of the read clock, so the document then shows the reading of
   everything applied.  Any replica [e] that holds the same changes except the isolated ones
   [cs] and receives them (they are deliverable in creation order: each depends on the isolation
   heads or on its predecessor) ends with the same set of changes, hence the same heads and the
   same observation. *)
Theorem integrate_eq_merge (d : adoc) (appl_e cs : list change) :
  let applied_d := t_applied (a_doc d) in
  ops_unique applied_d -> Permutation applied_d (appl_e ++ cs) -> chain_ready appl_e cs ->
  a_doc (a_integrate d) = a_doc d /\ a_iso (a_integrate d) = None /\
  a_view (a_integrate d) = observe (all_ops applied_d) /\
  exists e', deliver_each (mkDoc appl_e []) cs = Ok e' /\
             a_view (a_integrate d) = observe (all_ops (applied e')) /\
             heads_of applied_d = heads_of (applied e').
Proof.
  intros applied_d U P C. split; [reflexivity|]. split; [reflexivity|]. split; [reflexivity|].
  exists (mkDoc (appl_e ++ cs) []). split; [apply deliver_chain, C|]. cbn [applied].
  destruct (same_changes_same_state applied_d (appl_e ++ cs) U P) as [Hh Ho].
  split; [exact Ho|exact Hh].
Qed.

(* the changes an isolated AutoCommit creates are appended to what the document has applied *)
Theorem isolated_commit_appends e d cs hash d' c :
  a_transact e d cs hash = EOk (d', Some c) ->
  t_applied (a_doc d') = t_applied (a_doc d) ++ [c].
Proof.
  intros H. unfold a_transact in H.
  destruct (txn_open (a_doc d) (a_iso d)) as [o| |] eqn:Ho; try discriminate.
  destruct (txn_calls e o cs) as [o'| |] eqn:Hc; try discriminate.
  destruct (txn_commit o' hash) as [d2 oc] eqn:Hk. inversion H; subst. cbn [a_doc].
  destruct (txn_open_inv _ _ _ Ho) as (meta & tried & Hm & Eo).
  destruct (txn_calls_inv e cs _ _ Hc) as (M & I & D & _).
  unfold txn_commit in Hk. destruct (tx_pending (ot_tx o')) as [|x r]; [inversion Hk|].
  inversion Hk; subst. rewrite D. cbn [ot_doc]. unfold t_applied. cbn [t_m m_applied m_doc applied]. reflexivity.
Qed.

(* ---- decidable side conditions (used by the non-vacuity examples) ---- *)
Definition table_ok_b (d : tdoc) : bool :=
  sorted_actors (t_table d) && forallb (used (t_applied d)) (t_table d)
  && forallb (fun c => memb nlist_eqb (ch_actor c) (t_table d)) (t_applied d).

Lemma table_ok_b_sound d : table_ok_b d = true -> table_ok d.
Proof.
  unfold table_ok_b. intros H. apply andb_true_iff in H. destruct H as [H H3].
  apply andb_true_iff in H. destruct H as [H1 H2]. split; [exact H1|].
  intros a. split.
  - intros Ha. rewrite forallb_forall in H2. apply H2, Ha.
  - intros Hu. unfold used, seq_for_actor in Hu.
    destruct (filter (fun c => same_actor (ch_actor c) a) (t_applied d)) as [|c r] eqn:F.
    + cbn in Hu. discriminate.
    + assert (Hc : In c (filter (fun c => same_actor (ch_actor c) a) (t_applied d))) by (rewrite F; left; reflexivity).
      apply filter_In in Hc. destruct Hc as [Hc Hs]. apply same_actor_spec in Hs.
      rewrite forallb_forall in H3. specialize (H3 c Hc). rewrite Hs in H3.
      apply (memb_In nlist_eqb nlist_eqb_true) in H3. exact H3.
Qed.

Lemma WFhist_Built a : NoDup (hashes a) -> Topo a -> Built a.
Proof.
  induction a as [|c a IH] using rev_ind; intros Hnd Ht; [constructor|].
  unfold hashes in Hnd. rewrite map_app in Hnd. cbn [map] in Hnd.
  apply NoDup_remove in Hnd. rewrite app_nil_r in Hnd. destruct Hnd as [Hnd Hnotin].
  constructor.
  - apply IH; [exact Hnd|eapply Topo_snoc; exact Ht].
  - apply ready_spec. intros h Hh.
    pose proof (Ht (length a) c) as T. rewrite nth_error_app2 in T by lia.
    rewrite Nat.sub_diag in T. specialize (T eq_refl h Hh).
    rewrite firstn_app, Nat.sub_diag, firstn_all in T. cbn [firstn] in T. rewrite app_nil_r in T. exact T.
  - exact Hnotin.
Qed.
