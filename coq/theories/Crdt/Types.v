(* Crdt/Types.v — values, operations and changes of the document model.
   Mirrors rust/automerge/src/{types.rs,legacy/mod.rs}: an op id is
   (counter, actor bytes) ordered by counter then actor bytes (the actor table
   is kept sorted, so actor-index order is byte order); a change hash is the
   big-endian number of its 32 bytes (numeric order = byte order). *)
From AM Require Import Base.Prelude Base.Order.

Definition actor := list N.
Definition root_id : opid := (0%N, []).
Definition head_id : opid := (0%N, []).

Inductive scalar :=
| SNull | SBool (b : bool) | SInt (z : Z) | SUint (n : N) | SF64 (bits : N)
| SStr (s : list N)                 (* code points *)
| SBytes (b : list N) | SCounter (z : Z) | STimestamp (z : Z)
| SUnknown (t : N) (b : list N).

Inductive objtype := OMap | OList | OText | OTable.

Inductive action :=
| APut (v : scalar) | AMake (t : objtype) | ADel | AInc (z : Z)
| AMarkBegin (expand : bool) (name : list N) (v : scalar) | AMarkEnd (expand : bool).

Inductive key := KMap (s : list N) | KSeq (e : opid).

Record op := mkOp {
  op_id : opid; op_obj : opid; op_key : key; op_insert : bool;
  op_action : action; op_pred : list opid }.

Record change := mkChange {
  ch_hash : N; ch_actor : actor; ch_seq : N; ch_start : N;
  ch_deps : list N; ch_ops : list op }.

Definition nlist_eqb : list N -> list N -> bool := list_eqb N.eqb.

Definition scalar_eqb (a b : scalar) : bool :=
  match a, b with
  | SNull, SNull => true
  | SBool x, SBool y => Bool.eqb x y
  | SInt x, SInt y => Z.eqb x y
  | SUint x, SUint y => N.eqb x y
  | SF64 x, SF64 y => N.eqb x y
  | SStr x, SStr y => nlist_eqb x y
  | SBytes x, SBytes y => nlist_eqb x y
  | SCounter x, SCounter y => Z.eqb x y
  | STimestamp x, STimestamp y => Z.eqb x y
  | SUnknown t x, SUnknown u y => N.eqb t u && nlist_eqb x y
  | _, _ => false
  end.

Definition objtype_eqb (a b : objtype) : bool :=
  match a, b with
  | OMap, OMap | OList, OList | OText, OText | OTable, OTable => true
  | _, _ => false
  end.

Definition key_eqb (a b : key) : bool :=
  match a, b with
  | KMap x, KMap y => nlist_eqb x y
  | KSeq x, KSeq y => opid_eqb x y
  | _, _ => false
  end.

Definition is_seq_type (t : objtype) : bool :=
  match t with OList | OText => true | _ => false end.

Definition op_cmp (a b : op) : comparison := opid_cmp (op_id a) (op_id b).

Definition is_inc (o : op) : bool := match op_action o with AInc _ => true | _ => false end.
Definition is_del (o : op) : bool := match op_action o with ADel => true | _ => false end.
Definition is_mark (o : op) : bool :=
  match op_action o with AMarkBegin _ _ _ | AMarkEnd _ => true | _ => false end.
Definition is_counter (o : op) : bool :=
  match op_action o with APut (SCounter _) => true | _ => false end.
Definition inc_value (o : op) : Z := match op_action o with AInc z => z | _ => 0%Z end.
Definition make_type (o : op) : option objtype :=
  match op_action o with AMake t => Some t | _ => None end.

(* the register an op belongs to: its map key, or the list element it creates / updates *)
Definition slot (o : op) : key :=
  match op_key o with
  | KMap s => KMap s
  | KSeq e => KSeq (if op_insert o then op_id o else e)
  end.

Definition all_ops (cs : list change) : list op := flat_map ch_ops cs.
