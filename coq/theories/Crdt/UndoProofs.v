(* Crdt/UndoProofs.v — the undo log of the op set undoes what it logged (C28, mechanism layer):
   [undo_succ] applied to the log [add_succ_with_undo] returns restores the succ_count, successor,
   visible, text-width and top columns exactly. *)
From AM Require Import Base.Prelude Base.Order Crdt.Types Crdt.Txn.
Local Open Scope N_scope.

(* ---- column primitives ---- *)
Lemma set_at_ok {A} (l : list A) : forall p v, (p < length l)%nat -> exists l', set_at p v l = Ok l' /\ length l' = length l.
Proof.
  induction l as [|x t IH]; intros p v H; cbn [length] in H; [lia|].
  destruct p as [|q]; cbn [set_at].
  - eexists. split; reflexivity.
  - destruct (IH q v ltac:(lia)) as [t' [E L]]. rewrite E. cbn [bind]. eexists. split; [reflexivity|cbn; lia].
Qed.

Lemma set_at_undo {A} (l : list A) : forall p v old l',
  nth_error l p = Some old -> set_at p v l = Ok l' -> set_at p old l' = Ok l.
Proof.
  induction l as [|x t IH]; intros p v old l' Hn H; [destruct p; discriminate|].
  destruct p as [|q]; cbn [set_at nth_error] in *.
  - inversion Hn; inversion H; subst. reflexivity.
  - destruct (set_at q v t) as [t'| |] eqn:E; cbn [bind] in H; try discriminate.
    inversion H; subst. cbn [set_at]. rewrite (IH q v old t' Hn E). reflexivity.
Qed.

Lemma set_at_nth_other {A} (l : list A) : forall p v l' q,
  set_at p v l = Ok l' -> p <> q -> nth_error l' q = nth_error l q.
Proof.
  induction l as [|x t IH]; intros p v l' q H Hne; [destruct p; discriminate|].
  destruct p as [|p']; cbn [set_at] in H.
  - inversion H; subst. destruct q; [contradiction|reflexivity].
  - destruct (set_at p' v t) as [t'| |] eqn:E; cbn [bind] in H; try discriminate.
    inversion H; subst. destruct q; [reflexivity|]. cbn [nth_error]. eapply IH; [exact E|lia].
Qed.

Lemma ins_at_ok {A} (l : list A) : forall p v, (p <= length l)%nat -> exists l', ins_at p v l = Ok l' /\ length l' = S (length l).
Proof.
  induction l as [|x t IH]; intros p v H; cbn [length] in H.
  - assert (p = O) by lia. subst. cbn. eexists. split; reflexivity.
  - destruct p as [|q]; cbn [ins_at].
    + eexists. split; reflexivity.
    + destruct (IH q v ltac:(lia)) as [t' [E L]]. rewrite E. cbn [bind]. eexists. split; [reflexivity|cbn; lia].
Qed.

Lemma ins_del_at {A} (l : list A) : forall p v l', ins_at p v l = Ok l' -> del_at p l' = Ok l.
Proof.
  induction l as [|x t IH]; intros p v l' H.
  - destruct p; cbn [ins_at] in H; [|discriminate]. inversion H; subst. reflexivity.
  - destruct p as [|q]; cbn [ins_at] in H.
    + inversion H; subst. reflexivity.
    + destruct (ins_at q v t) as [t'| |] eqn:E; cbn [bind] in H; try discriminate.
      inversion H; subst. cbn [del_at]. rewrite (IH q v t' E). reflexivity.
Qed.

(* ---- one step and its inverse ---- *)
Definition cols_len (c c' : cols) : Prop :=
  length (c_cnt c') = length (c_cnt c) /\ length (c_vis c') = length (c_vis c) /\
  length (c_text c') = length (c_text c) /\ length (c_top c') = length (c_top c) /\
  (length (c_sub c) <= length (c_sub c'))%nat.

Lemma nth_error_some_lt {A} (l : list A) p : (p < length l)%nat -> exists x, nth_error l p = Some x.
Proof. intros H. destruct (nth_error l p) eqn:E; [eauto|]. apply nth_error_None in E. lia. Qed.

Lemma add_one_inverse s i :
  wf_ins (as_cols s) i ->
  exists s' u,
    add_one s i = Ok s' /\ as_undo s' = as_undo s ++ [u] /\
    undo_one (as_cols s') u = Ok (as_cols s) /\ cols_len (as_cols s) (as_cols s') /\
    (forall q, q <> si_pos i -> nth_error (c_cnt (as_cols s')) q = nth_error (c_cnt (as_cols s)) q).
Proof.
  intros (Hc & Hv & Ht & Hp & Hs & Hlen).
  destruct s as [[cnt vis text top sub] undo inc last expose delete]. cbn [as_cols c_cnt c_vis c_text c_top c_sub] in *.
  unfold add_one. cbn [as_cols as_undo as_inc as_last as_expose as_delete c_cnt c_vis c_text c_top c_sub].
  set (sinc := match last with Some p => if Nat.eqb p (si_pos i) then inc + 1 else 1 | None => 1 end).
  destruct (set_at_ok cnt (si_pos i) (si_len i + sinc) Hc) as [cnt' [Ec Lc]].
  destruct (ins_at_ok sub (si_sub i) (si_id i, si_inc i) Hs) as [sub' [Es Ls]].
  rewrite Ec, Es. cbn [bind].
  pose proof (set_at_undo cnt (si_pos i) _ (si_len i) cnt' Hlen Ec) as Uc.
  pose proof (ins_del_at sub (si_sub i) _ sub' Es) as Us.
  pose proof (fun q (Hq : q <> si_pos i) => set_at_nth_other cnt (si_pos i) _ cnt' q Ec (not_eq_sym Hq)) as Oc.
  destruct (si_inc i) as [z|] eqn:Ei.
  - destruct (delete && negb expose) eqn:Ed; [destruct (negb (option_eqb Bool.eqb (nth_error vis (si_pos i)) (Some true))) eqn:Evis|].
    + eexists. eexists. split; [reflexivity|]. cbn [as_undo as_cols]. split; [reflexivity|].
      split; [|split; [repeat split; cbn; lia|exact Oc]].
      unfold undo_one. cbn [su_ins su_vis su_text su_top c_cnt c_vis c_text c_top c_sub].
      rewrite Uc, Us. reflexivity.
    + destruct (nth_error_some_lt top (si_pos i) Hp) as [t0 Et0].
      destruct (nth_error_some_lt text (si_pos i) Ht) as [x0 Ex0].
      destruct (set_at_ok top (si_pos i) true Hp) as [top' [Et Lt]].
      destruct (set_at_ok text (si_pos i) (si_width i) Ht) as [text' [Ex Lx]].
      rewrite Et, Ex. cbn [bind]. eexists. eexists. split; [reflexivity|]. cbn [as_undo as_cols]. split; [reflexivity|].
      split; [|split; [repeat split; cbn; lia|exact Oc]].
      unfold undo_one. cbn [su_ins su_vis su_text su_top c_cnt c_vis c_text c_top c_sub].
      rewrite Uc, Us. cbn [bind]. rewrite Et0, Ex0.
      rewrite (set_at_undo text _ _ x0 text' Ex0 Ex), (set_at_undo top _ _ t0 top' Et0 Et). reflexivity.
    + eexists. eexists. split; [reflexivity|]. cbn [as_undo as_cols]. split; [reflexivity|].
      split; [|split; [repeat split; cbn; lia|exact Oc]].
      unfold undo_one. cbn [su_ins su_vis su_text su_top c_cnt c_vis c_text c_top c_sub].
      rewrite Uc, Us. reflexivity.
  - destruct (nth_error_some_lt vis (si_pos i) Hv) as [v0 Ev0].
    destruct (nth_error_some_lt text (si_pos i) Ht) as [x0 Ex0].
    destruct (nth_error_some_lt top (si_pos i) Hp) as [t0 Et0].
    destruct (set_at_ok vis (si_pos i) false Hv) as [vis' [Ev Lv]].
    destruct (set_at_ok text (si_pos i) None Ht) as [text' [Ex Lx]].
    destruct (set_at_ok top (si_pos i) false Hp) as [top' [Et Lt]].
    rewrite Ev, Ex, Et. cbn [bind]. eexists. eexists. split; [reflexivity|]. cbn [as_undo as_cols]. split; [reflexivity|].
    split; [|split; [repeat split; cbn; lia|exact Oc]].
    unfold undo_one. cbn [su_ins su_vis su_text su_top c_cnt c_vis c_text c_top c_sub].
    rewrite Uc, Us. cbn [bind]. rewrite Ev0, Ex0, Et0.
    rewrite (set_at_undo vis _ _ v0 vis' Ev0 Ev), (set_at_undo text _ _ x0 text' Ex0 Ex), (set_at_undo top _ _ t0 top' Et0 Et).
    reflexivity.
Qed.

Lemma wf_ins_preserved c c' i j :
  wf_ins c j -> cols_len c c' -> si_pos j <> si_pos i ->
  (forall q, q <> si_pos i -> nth_error (c_cnt c') q = nth_error (c_cnt c) q) -> wf_ins c' j.
Proof.
  intros (Hc & Hv & Ht & Hp & Hs & Hlen) (L1 & L2 & L3 & L4 & L5) Hne Hoth.
  unfold wf_ins. rewrite L1, L2, L3, L4. repeat split; try assumption; [lia|].
  rewrite (Hoth _ Hne). exact Hlen.
Qed.

Lemma undo_loop_app c l1 l2 : undo_loop c (l1 ++ l2) = (let* c' := undo_loop c l1 in undo_loop c' l2).
Proof.
  revert c. induction l1 as [|u t IH]; intros c; cbn [undo_loop app]; [reflexivity|].
  destruct (undo_one c u) as [c1| |]; cbn [bind]; [apply IH|reflexivity|reflexivity].
Qed.

Lemma add_loop_inverse L : forall s,
  NoDup (map si_pos L) -> (forall j, In j L -> wf_ins (as_cols s) j) ->
  exists s' us,
    add_loop s L = Ok s' /\ as_undo s' = as_undo s ++ us /\ length us = length L /\
    undo_loop (as_cols s') (rev us) = Ok (as_cols s).
Proof.
  induction L as [|i t IH]; intros s Hnd Hwf.
  - exists s, []. cbn. rewrite app_nil_r. auto.
  - cbn [map] in Hnd. inversion Hnd as [|? ? Hnotin Hnd']; subst.
    destruct (add_one_inverse s i (Hwf i (or_introl eq_refl))) as (s1 & u & E1 & U1 & I1 & L1 & O1).
    assert (Hwf1 : forall j, In j t -> wf_ins (as_cols s1) j).
    { intros j Hj. eapply wf_ins_preserved; [apply Hwf; right; exact Hj|exact L1| |exact O1].
      intros E. apply Hnotin. rewrite <- E. apply in_map. exact Hj. }
    destruct (IH s1 Hnd' Hwf1) as (s' & us & E2 & U2 & Len & I2).
    exists s', (u :: us). cbn [add_loop]. rewrite E1. cbn [bind]. split; [exact E2|].
    split; [rewrite U2, U1, <- app_assoc; reflexivity|]. split; [cbn; lia|].
    cbn [rev]. rewrite undo_loop_app, I2. cbn [bind undo_loop]. rewrite I1. reflexivity.
Qed.

(* C28, mechanism: for the inserts a local op produces (distinct op rows — the ops of one
   register found by the seek —, positions inside the columns, [len] = the row's successor count)
   add_succ_with_undo succeeds, logs one entry per insert, and undo_succ on that log gives back
   exactly the columns: successor counts, successor ids and increments, visible flags, text widths
   and top flags. *)
Theorem undo_succ_restores (c : cols) (ins : list sins) :
  NoDup (map si_pos ins) -> (forall i, In i ins -> wf_ins c i) ->
  exists c' us, add_succ_with_undo c ins = Ok (c', us) /\ length us = length ins /\
                undo_succ c' us = Ok c.
Proof.
  intros Hnd Hwf. unfold add_succ_with_undo, undo_succ.
  destruct (add_loop_inverse (rev ins) (mkAS c [] 0 None false false)) as (s' & us & E & U & Len & I).
  - rewrite map_rev. apply NoDup_rev. exact Hnd.
  - intros j Hj. apply Hwf. apply in_rev. exact Hj.
  - rewrite E. cbn [bind]. exists (as_cols s'), (as_undo s'). split; [reflexivity|].
    cbn [as_undo app] in U. rewrite U. split; [rewrite Len, rev_length; reflexivity|exact I].
Qed.

(* what the log holds is what it will write back: the flags of a superseded op as they were *)
Example undo_succ_example :
  let c := mkCols [0; 1; 0] [true; true; true] [Some 1; Some 1; Some 1] [false; false; true] [((9, [1]), Some 2%Z)] in
  (* an increment (id (12,[2])) naming a counter (row 1, stays visible) and a non-counter (row 2) *)
  let ins := [mkSI (12, [2]) 1 (Some 3%Z) 1 1 (Some 1); mkSI (12, [2]) 2 None 0 1 (Some 1)] in
  exists c' us, add_succ_with_undo c ins = Ok (c', us) /\
    c_vis c' = [true; true; false] /\ c_top c' = [false; true; false] /\ c_cnt c' = [0; 2; 1] /\
    undo_succ c' us = Ok c.
Proof. cbv zeta. eexists. eexists. split; [vm_compute; reflexivity|]. repeat split. Qed.

(* ---- a top op is visible: preserved ---- *)
Lemma set_at_nth_same {A} (l : list A) : forall p v l', set_at p v l = Ok l' -> nth_error l' p = Some v.
Proof.
  induction l as [|x t IH]; intros p v l' H; [destruct p; discriminate|].
  destruct p as [|q]; cbn [set_at] in H.
  - inversion H; subst. reflexivity.
  - destruct (set_at q v t) as [t'| |] eqn:E; cbn [bind] in H; try discriminate.
    inversion H; subst. cbn [nth_error]. eapply IH. exact E.
Qed.

Lemma add_one_top_vis s i s' : add_one s i = Ok s' -> top_vis (as_cols s) -> top_vis (as_cols s').
Proof.
  destruct s as [[cnt vis text top sub] undo inc last expose delete]. unfold add_one, top_vis.
  cbn [as_cols as_undo as_inc as_last as_expose as_delete c_cnt c_vis c_text c_top c_sub].
  destruct (set_at (si_pos i) _ cnt) as [cnt'| |]; cbn [bind]; try discriminate.
  destruct (ins_at (si_sub i) _ sub) as [sub'| |]; cbn [bind]; try discriminate.
  destruct (si_inc i) as [z|].
  - destruct (delete && negb expose).
    + destruct (negb (option_eqb Bool.eqb (nth_error vis (si_pos i)) (Some true))) eqn:Evis.
      * intros H Inv. inversion H; subst. exact Inv.
      * destruct (set_at (si_pos i) true top) as [top'| |] eqn:Et; cbn [bind]; try discriminate.
        destruct (set_at (si_pos i) (si_width i) text) as [text'| |]; cbn [bind]; try discriminate.
        intros H Inv. inversion H; subst. cbn [as_cols c_top c_vis]. intros p Hp.
        destruct (Nat.eq_dec (si_pos i) p) as [<-|Hne].
        -- apply negb_false_iff in Evis. destruct (nth_error vis (si_pos i)) as [[|]|]; cbn in Evis; try discriminate. reflexivity.
        -- rewrite (set_at_nth_other top _ _ top' p Et Hne) in Hp. apply Inv, Hp.
    + intros H Inv. inversion H; subst. exact Inv.
  - destruct (set_at (si_pos i) false vis) as [vis'| |] eqn:Ev; cbn [bind]; try discriminate.
    destruct (set_at (si_pos i) None text) as [text'| |]; cbn [bind]; try discriminate.
    destruct (set_at (si_pos i) false top) as [top'| |] eqn:Et; cbn [bind]; try discriminate.
    intros H Inv. inversion H; subst. cbn [as_cols c_top c_vis]. intros p Hp.
    destruct (Nat.eq_dec (si_pos i) p) as [<-|Hne].
    + rewrite (set_at_nth_same top _ _ top' Et) in Hp. discriminate.
    + rewrite (set_at_nth_other top _ _ top' p Et Hne) in Hp.
      rewrite (set_at_nth_other vis _ _ vis' p Ev Hne). apply Inv, Hp.
Qed.

Lemma add_loop_top_vis L : forall s s', add_loop s L = Ok s' -> top_vis (as_cols s) -> top_vis (as_cols s').
Proof.
  induction L as [|i t IH]; intros s s' H Inv; cbn [add_loop] in H.
  - inversion H; subst. exact Inv.
  - destruct (add_one s i) as [s1| |] eqn:E; cbn [bind] in H; try discriminate.
    eapply IH; [exact H|eapply add_one_top_vis; eassumption].
Qed.

(* As of the repair 9da869ded, for ANY inserts (a scoped transaction may name ops the document
   has superseded since), adding successors never leaves a top flag on an op that is not visible -
   the state in which reset_top's assertion fired before the repair. *)
Theorem add_succ_keeps_top_visible (c : cols) (ins : list sins) c' us :
  top_vis c -> add_succ_with_undo c ins = Ok (c', us) -> top_vis c'.
Proof.
  intros Inv H. unfold add_succ_with_undo in H.
  destruct (add_loop _ (rev ins)) as [s'| |] eqn:E; cbn [bind] in H; try discriminate.
  inversion H; subst. eapply add_loop_top_vis; [exact E|exact Inv].
Qed.

(* the columns of the repaired defect: a counter (row 0) and a concurrent null (row 1), both
   deleted in the document, named by an increment of a scoped transaction: no top flag is set,
   reset_top goes through and undo restores the columns *)
Example scoped_increment_fixed :
  let c := mkCols [1; 1] [false; false] [None; None] [false; false] [((8, [1]), None); ((12, [1]), None)] in
  let ins := [mkSI (20, [3]) 0 (Some 3%Z) 1 1 (Some 1); mkSI (20, [3]) 1 None 1 2 (Some 1)] in
  top_vis c /\
  exists c' us, add_succ_with_undo c ins = Ok (c', us) /\ c_top c' = [false; false] /\
                reset_top (c_vis c') (c_top c') 0 2 = Ok [false; false] /\ undo_succ c' us = Ok c.
Proof.
  cbv zeta. split.
  - intros p Hp. destruct p as [|[|p]]; cbn in Hp; try discriminate. destruct p; discriminate.
  - eexists. eexists. split; [vm_compute; reflexivity|]. repeat split.
Qed.
