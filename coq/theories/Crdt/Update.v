(* Crdt/Update.v — reconciliation calls (C27): update_text's hook arithmetic and the list / map
   reconciliation of update_object.

   (1) rust/automerge/src/text_diff.rs [myers_diff, TxHook]: update_text(obj, new) reads the current text,
   cuts old and new into grapheme clusters and lets the Myers search (text_diff/myers.rs, NOT modelled:
   any edit script is admitted here) call the hook
       equal(old_index, _, len)            idx += width(old[old_index .. old_index+len])
       delete(old_index, old_len, _)       splice_text(idx, width(old[old_index .. +old_len]), "")
       insert(_, new_index, new_len)       splice_text(idx, 0, concat new[new_index .. +new_len]); idx += width(inserted)
       replace(old_index, old_len, new_index, new_len)
                                           splice_text(idx, width(deleted), inserted);            idx += width(inserted)
   with ONE running index [idx] in the units of the document's text encoding (TextEncoding::width:
   code points, UTF-8 or UTF-16 code units; a grapheme's width is the sum of its characters' widths).
   Slicing old / new out of range panics in Rust: Panic here.
   [splice_str] is splice_text on a text whose elements are single characters, at character boundaries
   (Crdt/Local.v models the same call op by op; its index resolution is C24's subject).

   (2) rust/automerge/src/transaction/inner.rs [update_list, update_map] as they are AFTER fix d4866c089:
   one level of the recursion; the value-level update of one entry (update_value: recursive call, or
   replacement by put / put_object / insert) is the Section variable [upd].
   No proofs here (Crdt/UpdateProofs.v). *)
From AM Require Import Base.Prelude Base.Order Crdt.Types Crdt.Interp Crdt.Local.
Local Open Scope N_scope.

(* ---------------- (1) the hook ---------------- *)
Definition grapheme := list N.                       (* code points *)

Inductive hook :=
| HEqual (oi ni len : nat)
| HDelete (oi olen ni : nat)
| HInsert (oi ni nlen : nat)
| HReplace (oi olen ni nlen : nat).

Definition slice {A} (l : list A) (i n : nat) : list A := firstn n (skipn i l).
Definition in_range {A} (l : list A) (i n : nat) : bool := (i + n <=? length l)%nat.
Definition gwidth (e : enc) (gs : list grapheme) : N := str_width e (concat gs).

(* the characters covering the first n units (a character that straddles the limit is taken whole) *)
Fixpoint take_w (e : enc) (n : N) (s : list N) : list N * list N :=
  match s with
  | [] => ([], [])
  | c :: t => if n =? 0 then ([], s)
              else let ab := take_w e (n - cp_width e c) t in (c :: fst ab, snd ab)
  end.

Definition splice_str (e : enc) (text : list N) (idx del : N) (ins : list N) : list N :=
  let pr := take_w e idx text in
  let dr := take_w e del (snd pr) in
  fst pr ++ ins ++ snd dr.

Definition hstate := (N * list N)%type.              (* TxHook.idx, the text object's content *)

Definition hook_step (e : enc) (old new : list grapheme) (st : hstate) (h : hook) : res hstate :=
  let idx := fst st in
  let text := snd st in
  match h with
  | HEqual oi _ len =>
    if in_range old oi len then Ok (idx + gwidth e (slice old oi len), text) else Panic
  | HDelete oi olen _ =>
    if in_range old oi olen then Ok (idx, splice_str e text idx (gwidth e (slice old oi olen)) []) else Panic
  | HInsert _ ni nlen =>
    if in_range new ni nlen
    then let s := concat (slice new ni nlen) in Ok (idx + str_width e s, splice_str e text idx 0 s)
    else Panic
  | HReplace oi olen ni nlen =>
    if in_range new ni nlen && in_range old oi olen
    then let s := concat (slice new ni nlen) in
         Ok (idx + str_width e s, splice_str e text idx (gwidth e (slice old oi olen)) s)
    else Panic
  end.

Fixpoint run_hooks (e : enc) (old new : list grapheme) (st : hstate) (s : list hook) : res hstate :=
  match s with
  | [] => Ok st
  | h :: r => match hook_step e old new st h with
              | Ok st' => run_hooks e old new st' r
              | Err => Err
              | Panic => Panic
              end
  end.

(* update_text: idx starts at 0, the text is the old text *)
Definition apply_script (e : enc) (old new : list grapheme) (s : list hook) : res (list N) :=
  match run_hooks e old new (0, concat old) s with
  | Ok st => Ok (snd st)
  | Err => Err
  | Panic => Panic
  end.

(* the script tiles old and new, in order *)
Definition glist_eqb : list grapheme -> list grapheme -> bool := list_eqb nlist_eqb.

Fixpoint wf_from (old new : list grapheme) (oi ni : nat) (s : list hook) : bool :=
  match s with
  | [] => (oi =? length old)%nat && (ni =? length new)%nat
  | HEqual o n len :: r =>
    (o =? oi)%nat && (n =? ni)%nat && in_range old oi len && in_range new ni len
    && glist_eqb (slice old oi len) (slice new ni len) && wf_from old new (oi + len) (ni + len) r
  | HDelete o ol n :: r =>
    (o =? oi)%nat && in_range old oi ol && wf_from old new (oi + ol) ni r
  | HInsert o n nl :: r =>
    (n =? ni)%nat && in_range new ni nl && wf_from old new oi (ni + nl) r
  | HReplace o ol n nl :: r =>
    (o =? oi)%nat && (n =? ni)%nat && in_range old oi ol && in_range new ni nl
    && wf_from old new (oi + ol) (ni + nl) r
  end.
Definition wf_script (old new : list grapheme) (s : list hook) : bool := wf_from old new 0 0 s.

(* ---------------- (2) update_list / update_map, one level ---------------- *)
Section Reconcile.
  Variable V : Type.                                  (* hydrate values *)
  (* update_value(parent, key, new, old): what the entry holds afterwards *)
  Variable upd : option V -> V -> V.

  (* the list calls, with their index checks *)
  Fixpoint set_nth (l : list V) (i : nat) (v : V) : res (list V) :=
    match l, i with
    | [], _ => Err                                    (* InvalidIndex *)
    | _ :: t, O => Ok (v :: t)
    | x :: t, S i' => match set_nth t i' v with Ok t' => Ok (x :: t') | Err => Err | Panic => Panic end
    end.
  Fixpoint insert_nth (l : list V) (i : nat) (v : V) : res (list V) :=
    match i, l with
    | O, _ => Ok (v :: l)
    | S _, [] => Err
    | S i', x :: t => match insert_nth t i' v with Ok t' => Ok (x :: t') | Err => Err | Panic => Panic end
    end.
  Fixpoint delete_nth (l : list V) (i : nat) : res (list V) :=
    match l, i with
    | [], _ => Err
    | _ :: t, O => Ok t
    | x :: t, S i' => match delete_nth t i' with Ok t' => Ok (x :: t') | Err => Err | Panic => Panic end
    end.

  (* the zip loop: [olds] is the snapshot taken before the loop (list_range collected into a Vec) *)
  Fixpoint ul_ins (cur : list V) (index : nat) (news : list V) : res (list V) :=
    match news with
    | [] => Ok cur
    | n :: ns => match insert_nth cur index (upd None n) with
                 | Ok cur' => ul_ins cur' (S index) ns
                 | Err => Err | Panic => Panic
                 end
    end.
  Fixpoint ul_loop (cur : list V) (index : nat) (olds news : list V) (to_delete : nat) : res (list V * nat) :=
    match olds with
    | [] => match ul_ins cur index news with Ok c => Ok (c, to_delete) | Err => Err | Panic => Panic end
    | o :: os =>
      match news with
      | n :: ns => match set_nth cur index (upd (Some o) n) with
                   | Ok cur' => ul_loop cur' (S index) os ns to_delete
                   | Err => Err | Panic => Panic
                   end
      | [] => ul_loop cur (S index) os [] (S to_delete)
      end
    end.

  (* for i in (keep .. keep + to_delete).rev() { delete(i) } *)
  Fixpoint del_desc (cur : list V) (keep n : nat) : res (list V) :=
    match n with
    | O => Ok cur
    | S n' => match delete_nth cur (keep + n') with
              | Ok cur' => del_desc cur' keep n'
              | Err => Err | Panic => Panic
              end
    end.

  Definition update_list (old new : list V) : res (list V) :=
    match ul_loop old 0 old new 0 with
    | Ok (cur, td) => del_desc cur (length new) td
    | Err => Err | Panic => Panic
    end.

  (* maps: association lists without duplicate keys; a put replaces or appends, delete removes *)
  Definition mkey := list N.
  Fixpoint mlookup (m : list (mkey * V)) (k : mkey) : option V :=
    match m with [] => None | (k', v) :: t => if nlist_eqb k' k then Some v else mlookup t k end.
  Fixpoint mput (m : list (mkey * V)) (k : mkey) (v : V) : list (mkey * V) :=
    match m with
    | [] => [(k, v)]
    | (k', v') :: t => if nlist_eqb k' k then (k, v) :: t else (k', v') :: mput t k v
    end.
  Fixpoint mdel (m : list (mkey * V)) (k : mkey) : list (mkey * V) :=
    match m with
    | [] => []
    | (k', v') :: t => if nlist_eqb k' k then mdel t k else (k', v') :: mdel t k
    end.
  Definition mhas (m : list (mkey * V)) (k : mkey) : bool := match mlookup m k with Some _ => true | None => false end.

  (* first loop: over the current entries (map_range snapshot): update the kept keys, collect the others *)
  Fixpoint um_present (cur : list (mkey * V)) (snap : list (mkey * V)) (new : list (mkey * V)) (delenda : list mkey)
    : list (mkey * V) * list mkey :=
    match snap with
    | [] => (cur, delenda)
    | (k, v) :: t => match mlookup new k with
                     | Some nv => um_present (mput cur k (upd (Some v) nv)) t new delenda
                     | None => um_present cur t new (k :: delenda)
                     end
    end.

  Definition update_map (old new : list (mkey * V)) : list (mkey * V) :=
    let '(cur, delenda) := um_present old old new [] in
    let additions := isort bytes_cmp (map fst (filter (fun kv => negb (mhas old (fst kv))) new)) in
    let cur := fold_left (fun c k => match mlookup new k with Some nv => mput c k (upd None nv) | None => c end) additions cur in
    fold_left mdel (isort bytes_cmp delenda) cur.
End Reconcile.

(* update_list as it was BEFORE fix d4866c089: the surplus was deleted at indexes to_delete-1 .. 0
   (kept for the refutation C27_update_list_head_deletion_refuted) *)
Definition update_list_before_fix (V : Type) (upd : option V -> V -> V) (old new : list V) : res (list V) :=
  match ul_loop V upd old 0 old new 0 with
  | Ok (cur, td) => del_desc V cur 0 td
  | Err => Err | Panic => Panic
  end.
