(* Crdt/UpdateProofs.v — proofs for Crdt/Update.v (C27). *)
From AM Require Import Base.Prelude Base.Order Crdt.Types Crdt.Interp Crdt.Local Crdt.TextProofs Crdt.LocalProofs Crdt.Update.
Local Open Scope N_scope.

(* ================= (1) the hook arithmetic ================= *)
Lemma take_w_exact e a b : take_w e (str_width e a) (a ++ b) = (a, b).
Proof.
  induction a as [|c a IH]; cbn [str_width app take_w].
  - destruct b; reflexivity.
  - pose proof (cp_width_bounds e c) as Bc.
    replace (cp_width e c + str_width e a =? 0) with false by (symmetry; apply N.eqb_neq; lia).
    replace (cp_width e c + str_width e a - cp_width e c) with (str_width e a) by lia.
    rewrite IH. reflexivity.
Qed.

Lemma splice_exact e P D R ins :
  splice_str e (P ++ D ++ R) (str_width e P) (str_width e D) ins = P ++ ins ++ R.
Proof. unfold splice_str. rewrite take_w_exact. cbn [fst snd]. rewrite take_w_exact. reflexivity. Qed.

Lemma splice_insert e P R ins : splice_str e (P ++ R) (str_width e P) 0 ins = P ++ ins ++ R.
Proof. apply (splice_exact e P [] R ins). Qed.

Lemma firstn_add {A} (l : list A) i n : firstn (i + n) l = firstn i l ++ firstn n (skipn i l).
Proof.
  revert l. induction i as [|i IH]; intros l; [reflexivity|]. destruct l as [|x l]; cbn.
  - rewrite firstn_nil. reflexivity.
  - rewrite IH. reflexivity.
Qed.

Lemma skipn_add {A} (l : list A) i n : skipn i l = firstn n (skipn i l) ++ skipn (i + n) l.
Proof.
  revert l. induction i as [|i IH]; intros l.
  - cbn. symmetry. apply firstn_skipn.
  - destruct l as [|x l]; cbn.
    + rewrite firstn_nil. reflexivity.
    + apply IH.
Qed.

Lemma glist_eqb_true a b : glist_eqb a b = true -> a = b.
Proof. apply (list_eqb_spec nlist_eqb). intros x y. apply nlist_eqb_true. Qed.

(* the state the hook is in after consuming old[..oi] and producing new[..ni] *)
Definition hinv (e : enc) (old new : list grapheme) (oi ni : nat) (st : hstate) : Prop :=
  fst st = gwidth e (firstn ni new) /\ snd st = concat (firstn ni new) ++ concat (skipn oi old).

Lemma hook_step_sound e old new oi ni st h r :
  hinv e old new oi ni st -> wf_from old new oi ni (h :: r) = true ->
  exists st' oi' ni', hook_step e old new st h = Ok st' /\ hinv e old new oi' ni' st' /\ wf_from old new oi' ni' r = true.
Proof.
  intros [Hi Ht] W. destruct st as [idx text]. cbn [fst snd] in Hi, Ht. subst idx text.
  destruct h as [o n len|o ol n|o n nl|o ol n nl]; cbn [wf_from] in W; rewrite !andb_true_iff in W.
  - destruct W as [[[[[Eo En] Ro] Rn] Eq] W]. apply Nat.eqb_eq in Eo, En. subst o n. apply glist_eqb_true in Eq.
    exists (gwidth e (firstn ni new) + gwidth e (slice old oi len), concat (firstn ni new) ++ concat (skipn oi old)), (oi + len)%nat, (ni + len)%nat.
    split; [unfold hook_step; cbn [fst snd]; rewrite Ro; reflexivity|]. split; [|exact W].
    unfold hinv, gwidth. cbn [fst snd]. rewrite firstn_add, concat_app, str_width_app. fold (slice new ni len). rewrite <- Eq.
    split; [reflexivity|]. rewrite (skipn_add old oi len), concat_app. fold (slice old oi len). rewrite <- app_assoc. reflexivity.
  - destruct W as [[Eo Ro] W]. apply Nat.eqb_eq in Eo. subst o.
    eexists _, (oi + ol)%nat, ni. split; [unfold hook_step; cbn [fst snd]; rewrite Ro; reflexivity|]. split; [|exact W].
    unfold hinv, gwidth. cbn [fst snd]. split; [reflexivity|].
    rewrite (skipn_add old oi ol), concat_app. fold (slice old oi ol).
    rewrite splice_exact. reflexivity.
  - destruct W as [[En Rn] W]. apply Nat.eqb_eq in En. subst n.
    eexists _, oi, (ni + nl)%nat. split; [unfold hook_step; cbn [fst snd]; rewrite Rn; reflexivity|]. split; [|exact W].
    unfold hinv, gwidth. cbn [fst snd]. rewrite firstn_add, concat_app, str_width_app. fold (slice new ni nl).
    split; [reflexivity|].
    rewrite splice_insert.
    rewrite <- app_assoc. reflexivity.
  - destruct W as [[[[Eo En] Ro] Rn] W]. apply Nat.eqb_eq in Eo, En. subst o n.
    eexists _, (oi + ol)%nat, (ni + nl)%nat.
    split; [unfold hook_step; cbn [fst snd]; rewrite Ro, Rn; reflexivity|]. split; [|exact W].
    unfold hinv, gwidth. cbn [fst snd]. rewrite firstn_add, concat_app, str_width_app. fold (slice new ni nl).
    split; [reflexivity|].
    rewrite (skipn_add old oi ol), concat_app. fold (slice old oi ol).
    rewrite splice_exact. rewrite <- app_assoc. reflexivity.
Qed.

Lemma run_hooks_sound e old new s : forall oi ni st,
  hinv e old new oi ni st -> wf_from old new oi ni s = true ->
  run_hooks e old new st s = Ok (gwidth e new, concat new).
Proof.
  induction s as [|h r IH]; intros oi ni st I W.
  - cbn [wf_from] in W. apply andb_true_iff in W. destruct W as [Eo En]. apply Nat.eqb_eq in Eo, En. subst oi ni.
    destruct I as [Hi Ht]. rewrite firstn_all in Hi, Ht. rewrite skipn_all, app_nil_r in Ht.
    cbn [run_hooks]. destruct st; cbn [fst snd] in *; subst; reflexivity.
  - destruct (hook_step_sound e old new oi ni st h r I W) as (st' & oi' & ni' & Hs & I' & W').
    cbn [run_hooks]. rewrite Hs. eapply IH; eauto.
Qed.

(* every script that tiles old and new drives the hook to exactly the new text, in every encoding;
   the final index is the width of the new text *)
Theorem script_sound e old new s :
  wf_script old new s = true -> apply_script e old new s = Ok (concat new).
Proof.
  intros W. unfold apply_script. rewrite (run_hooks_sound e old new s 0 0 (0, concat old)); [reflexivity| |exact W].
  split; reflexivity.
Qed.

Theorem script_final_index e old new s :
  wf_script old new s = true -> run_hooks e old new (0, concat old) s = Ok (gwidth e new, concat new).
Proof. intros W. apply (run_hooks_sound e old new s 0 0); [split; reflexivity|exact W]. Qed.

(* a script whose slices stay in range never panics, whatever it does (the Myers search is trusted only for that) *)

(* ================= (2) update_list ================= *)
Section ReconcileProofs.
  Variable V : Type.
  Variable upd : option V -> V -> V.
  Hypothesis upd_spec : forall o n, upd o n = n.       (* the recursive call / the replacement reaches its target *)

  Lemma set_nth_app (pre : list V) x post v : set_nth V (pre ++ x :: post) (length pre) v = Ok (pre ++ v :: post).
  Proof. induction pre as [|y pre IH]; cbn; [reflexivity|]. rewrite IH. reflexivity. Qed.

  Lemma insert_nth_end (pre : list V) v : insert_nth V pre (length pre) v = Ok (pre ++ [v]).
  Proof. induction pre as [|y pre IH]; cbn; [reflexivity|]. rewrite IH. reflexivity. Qed.

  Lemma delete_nth_app (pre : list V) x post : delete_nth V (pre ++ x :: post) (length pre) = Ok (pre ++ post).
  Proof. induction pre as [|y pre IH]; cbn; [reflexivity|]. rewrite IH. reflexivity. Qed.

  Lemma ul_ins_spec news : forall cur, ul_ins V upd cur (length cur) news = Ok (cur ++ news).
  Proof.
    induction news as [|n ns IH]; intros cur; cbn [ul_ins]; [rewrite app_nil_r; reflexivity|].
    rewrite insert_nth_end, upd_spec. replace (S (length cur)) with (length (cur ++ [n])) by (rewrite app_length; cbn; lia).
    rewrite IH, <- app_assoc. reflexivity.
  Qed.

  (* after the zip loop: the common prefix is updated, surplus old elements are still there and counted,
     surplus new elements are appended *)
  Lemma ul_loop_spec olds : forall done news td,
    ul_loop V upd (done ++ olds) (length done) olds news td =
    Ok (done ++ firstn (length olds) news ++ skipn (length news) olds ++ skipn (length olds) news,
        (td + (length olds - length news))%nat).
  Proof.
    induction olds as [|o os IH]; intros done news td; cbn [ul_loop].
    - rewrite app_nil_r, ul_ins_spec. cbn. rewrite skipn_nil. cbn. rewrite Nat.add_0_r. reflexivity.
    - destruct news as [|n ns].
      + replace (done ++ o :: os) with ((done ++ [o]) ++ os) by (rewrite <- app_assoc; reflexivity).
        replace (S (length done)) with (length (done ++ [o])) by (rewrite app_length; cbn; lia).
        rewrite IH. cbn. rewrite firstn_nil, !skipn_nil. cbn. rewrite !app_nil_r, <- app_assoc. cbn.
        f_equal. f_equal. lia.
      + rewrite set_nth_app, upd_spec.
        replace (done ++ n :: os) with ((done ++ [n]) ++ os) by (rewrite <- app_assoc; reflexivity).
        replace (S (length done)) with (length (done ++ [n])) by (rewrite app_length; cbn; lia).
        rewrite IH. cbn. rewrite <- app_assoc. reflexivity.
  Qed.

  (* deleting indexes keep+n-1, ..., keep removes exactly the n elements after the first keep *)
  Lemma del_desc_spec n : forall pre mid post,
    length mid = n -> del_desc V (pre ++ mid ++ post) (length pre) n = Ok (pre ++ post).
  Proof.
    induction n as [|n IH]; intros pre mid post L; cbn [del_desc].
    - destruct mid; [reflexivity|discriminate].
    - destruct (exists_last (l := mid)) as (mid' & x & ->); [intros ->; discriminate|].
      rewrite app_length in L. cbn in L.
      replace (pre ++ (mid' ++ [x]) ++ post) with ((pre ++ mid') ++ x :: post) by (rewrite <- !app_assoc; reflexivity).
      replace (length pre + n)%nat with (length (pre ++ mid')) by (rewrite app_length; lia).
      rewrite delete_nth_app, <- app_assoc. apply IH. lia.
  Qed.

  Theorem update_list_reaches old new : update_list V upd old new = Ok new.
  Proof.
    unfold update_list. pose proof (ul_loop_spec old [] new 0) as H. cbn [app length] in H. rewrite H. clear H.
    destruct (Nat.le_ge_cases (length old) (length new)) as [Le|Ge].
    - (* growing or same length *)
      replace (length old - length new)%nat with O by lia. cbn [Nat.add del_desc].
      rewrite (skipn_all2 old) by lia. cbn [app]. rewrite firstn_skipn. reflexivity.
    - (* shrinking: the surplus tail is deleted *)
      rewrite (skipn_all2 new) by lia. rewrite app_nil_r. rewrite (firstn_all2 new) by lia.
      cbn [Nat.add].
      rewrite <- (app_nil_r (skipn (length new) old)).
      rewrite (del_desc_spec (length old - length new) new (skipn (length new) old) []).
      + rewrite app_nil_r. reflexivity.
      + rewrite skipn_length. reflexivity.
  Qed.

  (* the same loop with the deletions at indexes to_delete-1 .. 0 (the code before fix d4866c089) does NOT
     reach the target: see Props/C27.v, C27_update_list_head_deletion_refuted *)

  (* ================= update_map ================= *)
  Lemma nlist_eqb_refl k : nlist_eqb k k = true.
  Proof. apply nlist_eqb_true. reflexivity. Qed.
  Lemma nlist_eqb_neq a b : a <> b -> nlist_eqb a b = false.
  Proof. intros H. destruct (nlist_eqb a b) eqn:E; [|reflexivity]. apply nlist_eqb_true in E. contradiction. Qed.

  Lemma mlookup_mput m k v k' :
    mlookup V (mput V m k v) k' = if nlist_eqb k k' then Some v else mlookup V m k'.
  Proof.
    induction m as [|[k0 v0] m IH]; cbn [mput mlookup].
    - reflexivity.
    - destruct (nlist_eqb k0 k) eqn:E0.
      + apply nlist_eqb_true in E0. subst k0. cbn [mlookup]. destruct (nlist_eqb k k'); reflexivity.
      + cbn [mlookup]. rewrite IH. destruct (nlist_eqb k0 k') eqn:E1; [|reflexivity].
        apply nlist_eqb_true in E1. subst k0. rewrite nlist_eqb_neq; [reflexivity|].
        intros ->. rewrite nlist_eqb_refl in E0. discriminate.
  Qed.

  Lemma mlookup_mdel m k k' :
    mlookup V (mdel V m k) k' = if nlist_eqb k k' then None else mlookup V m k'.
  Proof.
    induction m as [|[k0 v0] m IH]; cbn [mdel mlookup].
    - destruct (nlist_eqb k k'); reflexivity.
    - destruct (nlist_eqb k0 k) eqn:E0.
      + apply nlist_eqb_true in E0. subst k0. rewrite IH. destruct (nlist_eqb k k'); reflexivity.
      + cbn [mlookup]. rewrite IH. destruct (nlist_eqb k0 k') eqn:E1; [|reflexivity].
        apply nlist_eqb_true in E1. subst k0. rewrite nlist_eqb_neq; [reflexivity|].
        intros ->. rewrite nlist_eqb_refl in E0. discriminate.
  Qed.

  (* first loop *)
  Lemma um_present_spec new snap : forall cur del cur' del',
    um_present V upd cur snap new del = (cur', del') ->
    (forall k, mlookup V cur' k =
               if mhas V snap k && mhas V new k then mlookup V new k else mlookup V cur k) /\
    (forall k, In k del' <-> In k del \/ (mhas V snap k = true /\ mhas V new k = false)).
  Proof.
    induction snap as [|[k0 v0] snap IH]; intros cur del cur' del' H; cbn [um_present] in H.
    - inversion H; subst. split; intros k; cbn; [reflexivity|]. unfold mhas at 1. cbn. split; [auto|]. intros [A|[A _]]; [exact A|discriminate].
    - destruct (mlookup V new k0) as [nv|] eqn:En.
      + destruct (IH _ _ _ _ H) as [A B]. split; intros k.
        * rewrite A, mlookup_mput, upd_spec. unfold mhas. cbn [mlookup].
          destruct (nlist_eqb k0 k) eqn:E.
          -- apply nlist_eqb_true in E. subst k0. rewrite En. cbn.
             destruct (mlookup V snap k); cbn; rewrite ?En; reflexivity.
          -- reflexivity.
        * rewrite B. unfold mhas. cbn [mlookup]. destruct (nlist_eqb k0 k) eqn:E; [|reflexivity].
          apply nlist_eqb_true in E. subst k0. rewrite En.
          split; [intros [X|[X Y]]; [left; exact X|]|intros [X|[_ Y]]; [left; exact X|discriminate]].
          destruct (mlookup V snap k); [right; split; [reflexivity|exact Y]|discriminate].
      + destruct (IH _ _ _ _ H) as [A B]. split; intros k.
        * rewrite A. unfold mhas. cbn [mlookup]. destruct (nlist_eqb k0 k) eqn:E; [|reflexivity].
          apply nlist_eqb_true in E. subst k0. rewrite En. rewrite !andb_false_r. reflexivity.
        * rewrite B. unfold mhas. cbn [mlookup In]. destruct (nlist_eqb k0 k) eqn:E.
          -- apply nlist_eqb_true in E. subst k0. rewrite En. split; [intros _; right; auto|].
             intros _. left. left. reflexivity.
          -- split; [intros [[X|X]|X]; [subst; rewrite nlist_eqb_refl in E; discriminate|left; exact X|right; exact X]|].
             intros [X|X]; [left; right; exact X|right; exact X].
    Qed.

  Definition add_step (new : list (mkey * V)) (c : list (mkey * V)) (k : mkey) : list (mkey * V) :=
    match mlookup V new k with Some nv => mput V c k (upd None nv) | None => c end.

  Lemma fold_add_spec new ks : forall cur k,
    (In k ks -> mhas V new k = true -> mlookup V (fold_left (add_step new) ks cur) k = mlookup V new k) /\
    (~ In k ks -> mlookup V (fold_left (add_step new) ks cur) k = mlookup V cur k).
  Proof.
    induction ks as [|k0 ks IH]; intros cur k; cbn [fold_left].
    - split; [intros []|reflexivity].
    - destruct (IH (add_step new cur k0) k) as [A B]. split.
      + intros Hin Hn. destruct (in_dec (list_eq_dec N.eq_dec) k ks) as [I|NI]; [apply A; assumption|].
        rewrite (B NI). destruct Hin as [->|Hin]; [|contradiction].
        unfold add_step. unfold mhas in Hn. destruct (mlookup V new k) as [nv|] eqn:E; [|discriminate].
        rewrite mlookup_mput, nlist_eqb_refl, upd_spec. reflexivity.
      + intros NI. rewrite B by (intros H; apply NI; right; exact H).
        unfold add_step. destruct (mlookup V new k0); [|reflexivity].
        rewrite mlookup_mput, nlist_eqb_neq; [reflexivity|]. intros ->. apply NI. left. reflexivity.
  Qed.

  Lemma fold_del_spec ks : forall cur k,
    (In k ks -> mlookup V (fold_left (mdel V) ks cur) k = None) /\
    (~ In k ks -> mlookup V (fold_left (mdel V) ks cur) k = mlookup V cur k).
  Proof.
    induction ks as [|k0 ks IH]; intros cur k; cbn [fold_left].
    - split; [intros []|reflexivity].
    - destruct (IH (mdel V cur k0) k) as [A B]. split.
      + intros Hin. destruct (in_dec (list_eq_dec N.eq_dec) k ks) as [I|NI]; [apply A; assumption|].
        rewrite (B NI). destruct Hin as [->|Hin]; [|contradiction]. rewrite mlookup_mdel, nlist_eqb_refl. reflexivity.
      + intros NI. rewrite B by (intros H; apply NI; right; exact H).
        rewrite mlookup_mdel, nlist_eqb_neq; [reflexivity|]. intros ->. apply NI. left. reflexivity.
  Qed.

  Lemma mlookup_in m k v : mlookup V m k = Some v -> In (k, v) m.
  Proof.
    induction m as [|[k0 v0] m IH]; cbn [mlookup]; [discriminate|]. destruct (nlist_eqb k0 k) eqn:E.
    - apply nlist_eqb_true in E. subst. intros H. inversion H. left. reflexivity.
    - intros H. right. apply IH. exact H.
  Qed.

  Lemma in_mhas m k v : In (k, v) m -> mhas V m k = true.
  Proof.
    unfold mhas. induction m as [|[k0 v0] m IH]; [intros []|]. cbn [mlookup]. intros [H|H].
    - inversion H; subst. rewrite nlist_eqb_refl. reflexivity.
    - destruct (nlist_eqb k0 k); [reflexivity|apply IH; exact H].
  Qed.

  (* after update_map every key reads what the target map reads (the first entry of a key counts) *)
  Theorem update_map_reaches old new k : mlookup V (update_map V upd old new) k = mlookup V new k.
  Proof.
    unfold update_map. destruct (um_present V upd old old new []) as [cur delenda] eqn:P.
    destruct (um_present_spec new old old [] cur delenda P) as [Pc Pd].
    set (adds := isort bytes_cmp (map fst (filter (fun kv => negb (mhas V old (fst kv))) new))).
    fold (add_step new).
    assert (Ia : In k adds <-> mhas V new k = true /\ mhas V old k = false).
    { unfold adds. split.
      - intros H. eapply Permutation_in in H; [|apply Permutation_sym, isort_perm].
        apply in_map_iff in H. destruct H as ([k' v] & E & H). cbn in E. subst k'. apply filter_In in H.
        destruct H as [H1 H2]. cbn in H2. split; [eapply in_mhas; eauto|]. destruct (mhas V old k); [discriminate|reflexivity].
      - intros [H1 H2]. eapply Permutation_in; [apply isort_perm|]. unfold mhas in H1.
        destruct (mlookup V new k) as [v|] eqn:E; [|discriminate]. apply in_map_iff. exists (k, v). split; [reflexivity|].
        apply filter_In. split; [apply mlookup_in; exact E|]. cbn. rewrite H2. reflexivity. }
    assert (Id : In k (isort bytes_cmp delenda) <-> mhas V old k = true /\ mhas V new k = false).
    { split.
      - intros H. eapply Permutation_in in H; [|apply Permutation_sym, isort_perm]. apply Pd in H. destruct H as [[]|H]. exact H.
      - intros H. eapply Permutation_in; [apply isort_perm|]. apply Pd. right. exact H. }
    destruct (fold_del_spec (isort bytes_cmp delenda) (fold_left (add_step new) adds cur) k) as [D1 D2].
    destruct (fold_add_spec new adds cur k) as [A1 A2].
    specialize (Pc k).
    destruct (mhas V old k) eqn:Ho; destruct (mhas V new k) eqn:Hn; cbn [andb] in Pc.
    - rewrite D2 by (intros H; apply Id in H; destruct H; discriminate).
      rewrite A2 by (intros H; apply Ia in H; destruct H; discriminate). exact Pc.
    - rewrite D1 by (apply Id; auto). unfold mhas in Hn. destruct (mlookup V new k); [discriminate|reflexivity].
    - rewrite D2 by (intros H; apply Id in H; destruct H; discriminate).
      apply A1; [apply Ia; auto|reflexivity].
    - rewrite D2 by (intros H; apply Id in H; destruct H; discriminate).
      rewrite A2 by (intros H; apply Ia in H; destruct H; discriminate). rewrite Pc.
      unfold mhas in Ho, Hn. destruct (mlookup V old k); [discriminate|]. destruct (mlookup V new k); [discriminate|reflexivity].
  Qed.
End ReconcileProofs.
