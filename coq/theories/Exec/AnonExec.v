(* Exec/AnonExec.v — correspondence checkers for anonymization (family "anon", C31).
   The harness hands over the ORIGINAL changes u1 and the changes u2 the implementation's anonymize
   produced (each list in the implementation's get_changes order), and head sets h1 / h2 (h2 = h1
   through the change bijection).  The model interprets both histories itself and compares the shapes:
   the implementation's reads are not involved in chk_same_shape.  chk_measures ties the model's
   reading of one history to the implementation's length_at (number of keys / list length / text width
   in the document's encoding) for every object alive at those heads. *)
From AM Require Import Base.Prelude Base.Order Crdt.Types Crdt.Interp Crdt.Doc Crdt.Local Crdt.Anon Exec.HistExec.
Local Open Scope N_scope.

Definition shape_at (u : list change) (hs : list N) : shape_t := shape (obs_at u hs).

Definition chk_same_shape (u1 u2 : list change) (h1 h2 : list N) : bool :=
  wf_ids_b (all_ops u1) && wf_ids_b (all_ops u2) && shape_eqb (shape_at u1 h1) (shape_at u2 h2).

(* what length_at answers: keys of a map, elements of a list, width of a text *)
Definition obj_measure (e : enc) (o : oobs) : N :=
  match oo_entries o with EM l => N.of_nat (length l) | EL _ => obj_width e o end.

Definition chk_measures (e : enc) (u : list change) (hs : list N) (ms : list N) : bool :=
  list_eqb N.eqb (map (obj_measure e) (obs_at u hs)) ms.

(* diagnosis helper: index of the first object whose shape differs *)
Fixpoint first_diff (a b : shape_t) (n : N) : option N :=
  match a, b with
  | [], [] => None
  | x :: a', y :: b' => if oshape_eqb x y then first_diff a' b' (n + 1) else Some n
  | _, _ => Some n
  end.
