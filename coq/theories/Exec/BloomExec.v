(* Exec/BloomExec.v — correspondence checkers evaluated by the harness-written
   case files: each takes an input and what the implementation did with it and
   answers whether the model does the same. *)
From AM Require Import Base.Prelude Base.Leb128 Gen.Consts Codec.Bloom.
Local Open Scope N_scope.

(* result codes shared with the harness *)
Definition code_bool (r : res bool) : N :=
  match r with Ok false => 0 | Ok true => 1 | Err => 2 | Panic => 3 end.

Definition nlist_eqb : list N -> list N -> bool := list_eqb N.eqb.

(* build a filter from hashes; compare wire bytes and query answers *)
Definition chk_bloom_build (hs : list bytes) (wire : bytes) (qs : list bytes) (ans : list N) : bool :=
  match from_hashes hs with
  | Ok f => bytes_eqb (to_bytes f) wire && nlist_eqb (map (fun q => code_bool (contains f q)) qs) ans
  | _ => false
  end.

(* decode arbitrary bytes: st = 0 (Ok: fields = entries, bpe, probes, then bits), 2 (Err), 3 (panic) *)
Definition chk_bloom_parse (bs : bytes) (st : N) (fields : list N) (qs : list bytes) (ans : list N) : bool :=
  match parse bs with
  | Ok (f, _) =>
      (st =? 0) && nlist_eqb (f_entries f :: f_bpe f :: f_probes f :: f_bits f) fields
      && nlist_eqb (map (fun q => code_bool (contains f q)) qs) ans
  | Err => st =? 2
  | Panic => st =? 3
  end.

Definition chk_uleb (bs : bytes) (st : N) (v : N) (consumed : N) : bool :=
  match uleb_dec bs with
  | Ok (n, rest) => (st =? 0) && (n =? v) && (N.of_nat (length bs - length rest) =? consumed)
  | Err => st =? 2
  | Panic => st =? 3
  end.
