(* Exec/ChgExec.v — correspondence checkers for the change-chunk body model (family chg).
   Each takes the chunk data of a change as the implementation wrote / received it and what the
   implementation reported about it, and answers whether the model agrees. *)
From AM Require Import Base.Prelude Base.Leb128 Base.Sleb128 Gen.Consts Store.Chunk Store.ChangeChunk.
Local Open Scope N_scope.

Definition blist_eqb : list bytes -> list bytes -> bool := list_eqb bytes_eqb.

Definition fields_eqb (c : change_body) (deps : list bytes) (actor : bytes) (seq start : N) (time : Z)
    (msg : bytes) (others : list bytes) (extra : bytes) : bool :=
  blist_eqb (cb_deps c) deps && bytes_eqb (cb_actor c) actor && (cb_seq c =? seq)
  && (cb_start_op c =? start) && (cb_time c =? time)%Z && bytes_eqb (cb_message c) msg
  && blist_eqb (cb_others c) others && bytes_eqb (cb_extra c) extra.

(* a change the implementation produced or accepted: the model parses its chunk data to exactly the
   implementation's fields, the parsed body is well-formed and re-encodes to the same bytes *)
Definition chk_chg_body (data : bytes) (deps : list bytes) (actor : bytes) (seq start : N) (time : Z)
    (msg : bytes) (others : list bytes) (extra : bytes) : bool :=
  match parse_body data with
  | Ok c => fields_eqb c deps actor seq start time msg others extra
            && bytes_eqb (encode_body c) data && wf_change_bodyb c
  | _ => false
  end.

(* a change written by the implementation itself: additionally its column specifications are among
   those the writer is known to emit, in that order (a new or reordered op column shows up here) *)
Definition chk_chg_written (data : bytes) (deps : list bytes) (actor : bytes) (seq start : N) (time : Z)
    (msg : bytes) (others : list bytes) (extra : bytes) : bool :=
  chk_chg_body data deps actor seq start time msg others extra
  && match parse_body data with
     | Ok c => writer_specs_ok (map fst (cb_cols c))
     | _ => false
     end.

(* mutated chunk data.  st = what Change::from_bytes did:
     0 accepted (fields follow), 2 rejected by the container parser (recognised as such),
     4 rejected, layer not recognised (may be the op columns, which the model does not read),
     3 panicked.
   The model's verdict on the container: Ok -> the implementation accepts with the same fields, or
   rejects at another layer; Err -> the implementation rejects (at any layer). *)
Definition chk_chg_mut (data : bytes) (st : N) (deps : list bytes) (actor : bytes) (seq start : N)
    (time : Z) (msg : bytes) (others : list bytes) (extra : bytes) : bool :=
  match parse_body data with
  | Ok c =>
      if st =? 0 then fields_eqb c deps actor seq start time msg others extra
                      && bytes_eqb (encode_body c) data
      else st =? 4
  | Err => (st =? 2) || (st =? 4)
  | Panic => st =? 3
  end.

(* the column-spec layout on its own: the specs of a change the implementation produced *)
Definition chk_chg_layout (data : bytes) : bool :=
  match parse_body data with
  | Ok c => layout_ok (map fst (cb_cols c)) && normal_sorted (map fst (cb_cols c))
  | _ => false
  end.
