(* Exec/ChgExec.v — correspondence checkers for the change-chunk body model (family chg).
   Each takes the chunk data of a change as the implementation wrote / received it and what the
   implementation reported about it, and answers whether the model agrees. *)
From AM Require Import Base.Prelude Base.Leb128 Base.Sleb128 Gen.Consts Store.Chunk Store.ChangeChunk.
Local Open Scope N_scope.

Definition blist_eqb : list bytes -> list bytes -> bool := list_eqb bytes_eqb.

Definition fields_eqb (c : change_body) (deps : list bytes) (actor : bytes) (seq start : N) (time : Z)
    (msg : bytes) (others : list bytes) (extra : bytes) : bool :=
  blist_eqb (cb_deps c) deps && bytes_eqb (cb_actor c) actor && (cb_seq c =? seq)
  && (cb_start_op c =? start) && (cb_time c =? time)%Z && bytes_eqb (cb_message c) msg
  && blist_eqb (cb_others c) others && bytes_eqb (cb_extra c) extra.

(* a change the implementation produced or accepted: the model parses its chunk data to exactly the
   implementation's fields, the parsed body is well-formed and re-encodes to the same bytes *)
Definition chk_chg_body (data : bytes) (deps : list bytes) (actor : bytes) (seq start : N) (time : Z)
    (msg : bytes) (others : list bytes) (extra : bytes) : bool :=
  match parse_body data with
  | Ok c => fields_eqb c deps actor seq start time msg others extra
            && bytes_eqb (encode_body c) data && wf_change_bodyb c
  | _ => false
  end.

(* a change written by the implementation itself: additionally its column specifications are among
   those the writer is known to emit, in that order (a new or reordered op column shows up here) *)
Definition chk_chg_written (data : bytes) (deps : list bytes) (actor : bytes) (seq start : N) (time : Z)
    (msg : bytes) (others : list bytes) (extra : bytes) : bool :=
  chk_chg_body data deps actor seq start time msg others extra
  && match parse_body data with
     | Ok c => writer_specs_ok (map fst (cb_cols c))
     | _ => false
     end.

(* mutated chunk data.  st = what Change::from_bytes did:
     0 accepted (fields follow), 2 rejected by the container parser (recognised as such),
     4 rejected, layer not recognised (may be the op columns, which the model does not read),
     3 panicked.
   The model's verdict on the container: Ok -> the implementation accepts with the same fields, or
   rejects at another layer; Err -> the implementation rejects (at any layer). *)
Definition chk_chg_mut (data : bytes) (st : N) (deps : list bytes) (actor : bytes) (seq start : N)
    (time : Z) (msg : bytes) (others : list bytes) (extra : bytes) : bool :=
  match parse_body data with
  | Ok c =>
      if st =? 0 then fields_eqb c deps actor seq start time msg others extra
                      && bytes_eqb (encode_body c) data
      else st =? 4
  | Err => (st =? 2) || (st =? 4)
  | Panic => st =? 3
  end.

(* the column-spec layout on its own: the specs of a change the implementation produced *)
Definition chk_chg_layout (data : bytes) : bool :=
  match parse_body data with
  | Ok c => layout_ok (map fst (cb_cols c)) && normal_sorted (map fst (cb_cols c))
  | _ => false
  end.

(* ================================================================ the op columns (Store/ChangeOps.v) *)
From AM Require Import Codec.ColEnc Store.ChangeOps.

(* an operation as [Change::decode] reports it ([ExpandedChange::from(&Change)], legacy::Op): actors are actor
   ids (bytes), the action is [legacy::OpType::from_parts (action, value, expand, mark_name)] *)
Definition bopid := (N * bytes)%type.
Inductive bkey := BK_Prop (s : bytes) | BK_Head | BK_Elem (e : bopid).
Inductive bobj := BO_Root | BO_Id (e : bopid).
Inductive lact :=
| LA_Make (action : N)                      (* 0 map, 2 list, 4 text, 6 table *)
| LA_Put (v : sval)
| LA_Del
| LA_Inc (z : Z)
| LA_MarkBegin (name : bytes) (v : sval) (expand : bool)
| LA_MarkEnd (expand : bool).
Record lop := mkLop { lo_obj : bobj; lo_key : bkey; lo_insert : bool; lo_act : lact; lo_pred : list bopid }.

(* [actors.get(&idx).unwrap()] *)
Definition actor_of (tbl : list bytes) (o : opid) : res bopid :=
  match nth_error tbl (N.to_nat (snd o)) with Some a => Ok (fst o, a) | None => Panic end.

Fixpoint actors_of (tbl : list bytes) (l : list opid) : res (list bopid) :=
  match l with
  | [] => Ok []
  | o :: t => let* b := actor_of tbl o in let* bt := actors_of tbl t in Ok (b :: bt)
  end.

(* [legacy::OpType::from_parts]; the action was validated by the reader *)
Definition legacy_act (o : chop) : res lact :=
  let a := co_action o in
  if (a =? 0) || (a =? 2) || (a =? 4) || (a =? 6) then Ok (LA_Make a)
  else if a =? 1 then Ok (LA_Put (co_val o))
  else if a =? 3 then Ok LA_Del
  else if a =? 5 then
    match co_val o with
    | SV_Int z => Ok (LA_Inc z)
    | SV_Uint n => Ok (LA_Inc (if n <? pow63 then Z.of_N n else (Z.of_N n - Z.of_N pow64)%Z))   (* i as i64 *)
    | _ => Panic
    end
  else if a =? 7 then
    match co_mark o with
    | Some name => Ok (LA_MarkBegin name (co_val o) (co_expand o))
    | None => Ok (LA_MarkEnd (co_expand o))
    end
  else Panic.

Definition to_legacy (tbl : list bytes) (o : chop) : res lop :=
  let* act := legacy_act o in
  let* key := match co_key o with
              | K_Prop s => Ok (BK_Prop s)
              | K_Elem e => if is_zero_id e then Ok BK_Head else let* b := actor_of tbl e in Ok (BK_Elem b)
              end in
  let* obj := if is_root_id (co_obj o) then Ok BO_Root else let* b := actor_of tbl (co_obj o) in Ok (BO_Id b) in
  let* pred := actors_of tbl (co_pred o) in
  Ok (mkLop obj key (co_insert o) act pred).

Fixpoint to_legacy_all (tbl : list bytes) (ops : list chop) : res (list lop) :=
  match ops with
  | [] => Ok []
  | o :: t =>
    match to_legacy tbl o, to_legacy_all tbl t with
    | Ok l, Ok lt => Ok (l :: lt)
    | Panic, _ | _, Panic => Panic
    | _, _ => Err
    end
  end.

Definition sval_eqb (a b : sval) : bool :=
  match a, b with
  | SV_Null, SV_Null => true
  | SV_Bool x, SV_Bool y => Bool.eqb x y
  | SV_Uint x, SV_Uint y => x =? y
  | SV_Int x, SV_Int y | SV_Counter x, SV_Counter y | SV_Timestamp x, SV_Timestamp y => (x =? y)%Z
  | SV_F64 x, SV_F64 y | SV_Str x, SV_Str y | SV_Bytes x, SV_Bytes y => bytes_eqb x y
  | SV_Unknown c x, SV_Unknown d y => (c =? d) && bytes_eqb x y
  | _, _ => false
  end.
Definition bopid_eqb (a b : bopid) : bool := (fst a =? fst b) && bytes_eqb (snd a) (snd b).
Definition bkey_eqb (a b : bkey) : bool :=
  match a, b with
  | BK_Prop x, BK_Prop y => bytes_eqb x y
  | BK_Head, BK_Head => true
  | BK_Elem x, BK_Elem y => bopid_eqb x y
  | _, _ => false
  end.
Definition bobj_eqb (a b : bobj) : bool :=
  match a, b with BO_Root, BO_Root => true | BO_Id x, BO_Id y => bopid_eqb x y | _, _ => false end.
Definition lact_eqb (a b : lact) : bool :=
  match a, b with
  | LA_Make x, LA_Make y => x =? y
  | LA_Put x, LA_Put y => sval_eqb x y
  | LA_Del, LA_Del => true
  | LA_Inc x, LA_Inc y => (x =? y)%Z
  | LA_MarkBegin n x e, LA_MarkBegin m y f => bytes_eqb n m && sval_eqb x y && Bool.eqb e f
  | LA_MarkEnd e, LA_MarkEnd f => Bool.eqb e f
  | _, _ => false
  end.

(* [remove_one x l]: l without one occurrence of x *)
Fixpoint remove_one (x : bopid) (l : list bopid) : option (list bopid) :=
  match l with
  | [] => None
  | y :: t => if bopid_eqb x y then Some t
              else match remove_one x t with Some t' => Some (y :: t') | None => None end
  end.
Fixpoint perm_eqb (a b : list bopid) : bool :=
  match a with
  | [] => match b with [] => true | _ => false end
  | x :: t => match remove_one x b with Some b' => perm_eqb t b' | None => false end
  end.

(* [exact]: the predecessors in the stored order; otherwise as a multiset ([decode] sorts them) *)
Definition lop_eqb (exact : bool) (a b : lop) : bool :=
  bobj_eqb (lo_obj a) (lo_obj b) && bkey_eqb (lo_key a) (lo_key b) && Bool.eqb (lo_insert a) (lo_insert b)
  && lact_eqb (lo_act a) (lo_act b)
  && (if exact then list_eqb bopid_eqb (lo_pred a) (lo_pred b) else perm_eqb (lo_pred a) (lo_pred b)).

Definition cols_eqb (a b : list (N * bytes)) : bool :=
  list_eqb (fun x y : N * bytes => (fst x =? fst y) && bytes_eqb (snd x) (snd y)) a b.

(* a change the implementation WROTE: the model decodes its op columns to exactly the operations [Change::decode]
   reports (predecessors in the stored order), the decoded ops are well-formed, and [encode_ops] of them is the
   column list of the chunk, byte for byte *)
Definition chk_chg_ops (data : bytes) (lops : list lop) : bool :=
  match parse_change_full data with
  | Ok (c, ops) =>
      match to_legacy_all (cb_actor c :: cb_others c) ops with
      | Ok l => list_eqb (lop_eqb true) l lops
      | _ => false
      end
      && cols_eqb (encode_ops ops) (split_cols (cb_cols c) (cb_data c))
      && wf_chopsb ops
  | _ => false
  end.

(* mutated chunk data.  st = what the implementation did:
     0 [Change::from_bytes] accepted and [decode] gave [lops];  1 accepted, [decode] panicked;
     2 / 4 rejected (container / elsewhere);  3 [from_bytes] panicked *)
Definition chk_chg_ops_mut (data : bytes) (st : N) (lops : list lop) : bool :=
  match parse_change_full data with
  | Ok (c, ops) =>
      match to_legacy_all (cb_actor c :: cb_others c) ops with
      | Ok l => (st =? 0) && list_eqb (lop_eqb false) l lops
      | Panic => st =? 1
      | Err => false
      end
  | Err => (st =? 2) || (st =? 4)
  | Panic => st =? 3
  end.
