(* Exec/CursorExec.v — correspondence checkers for cursors (C26): the same
   cursor, resolved by the implementation and by the model over the operations of
   the document (at the current state or at historical heads). *)
From AM Require Import Base.Prelude Base.Order Crdt.Types Crdt.Interp Crdt.Doc Crdt.Cursor.
Local Open Scope N_scope.

(* text encodings as the harness numbers them: 0 list, 1 code points, 2 UTF-8, 3 UTF-16 *)
Definition width_of (enc : N) : regobs -> N :=
  if enc =? 0 then width_list else if enc =? 1 then width_cp
  else if enc =? 2 then width_utf8 else width_utf16.

(* operations visible to a read at heads [hs] ([] = the current state) *)
Definition ops_at (u : list change) (hs : list N) : list op :=
  match hs with
  | [] => all_ops u
  | _ => let k := clock_of (ancestors u hs) in filter (fun o => covered k (op_id o)) (all_ops u)
  end.

Definition obj_ops (ops : list op) (obj : opid) : list op :=
  filter (fun o => opid_eqb (op_obj o) obj) (isort op_cmp ops).

Definition mode_of (m : N) : move_mode := if m =? 0 then MoveAfter else MoveBefore.

(* st: 0 = Ok v, 2 = InvalidCursor; [oops] = [obj_ops (ops_at u hs) obj], computed once per view by the case file *)
Definition chk_resolve (oops : list op) (enc m : N) (c : opid) (st v : N) : bool :=
  match resolve (width_of enc) oops (mode_of m) c with
  | Ok i => (st =? 0) && (i =? v)
  | Err => st =? 2
  | Panic => false
  end.

(* get_cursor(Index i) names op [c] (st 0), or fails with InvalidIndex (st 2) *)
Definition chk_cursor_at (oops : list op) (enc i : N) (st : N) (c : opid) : bool :=
  match cursor_at (width_of enc) oops i with
  | Some id => (st =? 0) && opid_eqb id c
  | None => st =? 2
  end.

Definition diag_resolve (oops : list op) (enc m : N) (c : opid) : res N :=
  resolve (width_of enc) oops (mode_of m) c.
