(* Exec/DocExec.v — correspondence checkers for the document chunk body (Store/DocChunk.v) and its
   change-metadata columns (Store/DocCols.v).  [infl]: the (deflated, inflated) pairs of the
   compressed columns of this document, supplied by the harness: the model's DEFLATE parameter. *)
From AM Require Import Base.Prelude Base.Leb128 Gen.Consts Store.Chunk Store.ChangeChunk Store.DocChunk Hexane.Rle Store.DocCols.
Local Open Scope N_scope.

Fixpoint lookup_infl (infl : list (bytes * bytes)) (a : bytes) : option bytes :=
  match infl with
  | [] => None
  | (k, v) :: t => if bytes_eqb k a then Some v else lookup_infl t a
  end.

Definition bytes_list_eqb : list bytes -> list bytes -> bool := list_eqb bytes_eqb.
Definition nl_eqb : list N -> list N -> bool := list_eqb N.eqb.

Definition meta_eqb (a b : chmeta) : bool :=
  (m_actor a =? m_actor b) && (m_seq a =? m_seq b) && (m_max_op a =? m_max_op b)
  && Z.eqb (m_time a) (m_time b) && option_eqb bytes_eqb (m_message a) (m_message b)
  && nl_eqb (m_deps a) (m_deps b) && bytes_eqb (m_extra a) (m_extra b).

Definition cols_eqb (a b : list (N * bytes)) : bool :=
  list_eqb (fun x y => (fst x =? fst y) && bytes_eqb (snd x) (snd y)) a b.

Definition doc_metas (d : doc_body) : res (list chmeta) :=
  decode_change_cols (lenof (d_actors d)) (known_cols (d_ccols d) (d_cdata d)).

(* a document saved by the implementation: the model parses [data] to exactly the implementation's
   actor table, heads (as stored), head indexes and per-change metadata in stored order; the model's
   column writer reproduces the change columns; [exact] (uncompressed save): [write_doc] of the
   parsed value reproduces [data] byte for byte and the value is well-formed *)
Definition chk_doc (infl : list (bytes * bytes)) (exact : bool) (data : bytes)
  (actors heads : list bytes) (hidx : list N) (metas : list chmeta) : bool :=
  match parse_doc (lookup_infl infl) data with
  | Ok d =>
    bytes_list_eqb (d_actors d) actors && bytes_list_eqb (d_heads d) heads && nl_eqb (d_hidx d) hidx
    && match doc_metas d with
       | Ok ms => list_eqb meta_eqb ms metas
                  && cols_eqb (encode_change_cols ms) (known_cols (d_ccols d) (d_cdata d))
                  && wf_metasb (lenof actors) ms
       | _ => false
       end
    && (if exact then bytes_eqb (write_doc d) data && wf_docb d else true)
  | _ => false
  end.

(* Declared item counts of the streamed change columns (run based: nothing is expanded).  A mutant
   that declares more than 2^16 items in one of them is outside this checker: the implementation
   allocates that many items and the model would expand them (resource bounds are C17's subject). *)
Definition stream_total {V} (dec : bytes -> option (V * bytes)) (b : bytes) : N :=
  total (fst (stream_of V dec false b)).
Definition huge_counts (cols : list (N * bytes)) : bool :=
  existsb (fun s => 65536 <? stream_total i64_dec (col s cols)) [SPEC_SEQ; SPEC_MAX_OP; SPEC_DEPS_VAL]
  || existsb (fun s => 65536 <? stream_total u64_dec (col s cols)) [SPEC_ACTOR; SPEC_DEPS_COUNT].

(* a mutated document chunk body (checksum recomputed by the harness) given to [Automerge::load]:
   [kind] 0 = loaded (then [actors heads metas] are what the loaded document reports), 1 = error,
   2 = panic.  Only the public loader can be observed, and it runs more checks than the two
   modelled layers (op columns, hashes against heads), so:
     the model's body parser rejects        -> the loader must return an error;
     the model's column decoder rejects or panics -> the loader must not succeed;
     the model accepts                      -> if the loader succeeds it reports the model's fields. *)
Definition chk_doc_mut (infl : list (bytes * bytes)) (data : bytes) (kind : N)
  (actors heads : list bytes) (metas : list chmeta) : bool :=
  match parse_doc (lookup_infl infl) data with
  | Ok d =>
    if huge_counts (known_cols (d_ccols d) (d_cdata d)) then true else
    match doc_metas d with
    | Ok ms =>
      if kind =? 0 then
        (* the loaded document's actor table is derived from its changes and may lack unused actors:
           compare the actor BYTES of every change *)
        bytes_list_eqb (d_heads d) heads && list_eqb meta_eqb ms (map (fun m => mkMeta (m_actor (fst m)) (m_seq (snd m)) (m_max_op (snd m)) (m_time (snd m)) (m_message (snd m)) (m_deps (snd m)) (m_extra (snd m))) (combine ms metas))
        && Nat.eqb (length ms) (length metas)
        && bytes_list_eqb (map (fun m => nth (N.to_nat (m_actor m)) (d_actors d) []) ms)
                          (map (fun m => nth (N.to_nat (m_actor m)) actors []) metas)
      else true
    | _ => negb (kind =? 0)
    end
  | Err => kind =? 1
  | Panic => false
  end.

(* classification of a mutant by the model (for the distribution in the evidence):
   0 accepted, 1 body rejected, 2 columns rejected, 3 columns panic *)
Definition doc_class (infl : list (bytes * bytes)) (data : bytes) : N :=
  match parse_doc (lookup_infl infl) data with
  | Ok d => match doc_metas d with Ok _ => 0 | Err => 2 | Panic => 3 end
  | _ => 1
  end.

(* ---------------------------------------------------------------- as a chunk body of Store/Chunk.v *)
(* the document chunk body parser plugged into [Chunk.parse_chunk]: [parse_doc], then the change
   metadata columns, then [recon] = the reconstruction of the changes from the op columns and that
   metadata (OpSet::load + ChangeCollector: NOT modelled, a parameter); other chunk types are [other] *)
Definition doc_chunk_body {C : Type} (inflate : bytes -> option bytes)
  (recon : doc_body -> list chmeta -> option (list C)) (other : N -> bytes -> option (list C))
  (ty : N) (data : bytes) : option (list C) :=
  if ty =? CHUNK_DOCUMENT then
    match parse_doc inflate data with
    | Ok d => match doc_metas d with Ok ms => recon d ms | _ => None end
    | _ => None
    end
  else other ty data.
