(* Exec/EditExec.v — correspondence checker for local edits (family "edit", C03 / C24).
   One case = one transaction of the implementation: the changes the document held when the
   transaction began, the actor, the editing calls with what the implementation answered after
   each (status class, pending_ops(), full observation inside the open transaction), and the ops
   of the committed change.  The model replays the calls with Crdt/Local.v and must produce the
   same statuses, the same number of pending ops, the same observations and, op for op, the same
   change (id, obj, key, insert, action, pred). *)
From AM Require Import Base.Prelude Base.Order Crdt.Types Crdt.Interp Crdt.Local.
Local Open Scope N_scope.

Definition status_code (s : status) : N :=
  match s with
  | None => 0
  | Some EInvalidObj => 1
  | Some EInvalidOp => 2
  | Some EInvalidIndex => 3
  | Some EMissingCounter => 4
  | Some EInvalidValue => 5
  end.

(* The index-based read API cannot address a zero-width element of a text (an element whose winning
   value is the empty string): the implementation's observation is taken by walking indexes, so such
   elements are dropped from the model's text objects before comparing. *)
Definition norm_obj (e : enc) (o : oobs) : oobs :=
  match oo_type o, oo_entries o with
  | OText, EL l => mkO (oo_id o) OText (EL (filter (fun r => negb (str_width e (elem_text r) =? 0)) l))
  | _, _ => o
  end.
Definition observe_n (e : enc) (ops : list op) : obs := map (norm_obj e) (observe ops).

(* call, status code, pending_ops() after the call, observation after the call *)
Definition call_exp := (call * N * N * option obs)%type.

Fixpoint chk_calls (e : enc) (t : tx) (cs : list call_exp) : option tx :=
  match cs with
  | [] => Some t
  | (c, st, np, ob) :: rest =>
    match apply_call e t c with
    | EOk (t', s) =>
      if (status_code s =? st) && (N.of_nat (length (tx_pending t')) =? np)
         && match ob with None => true | Some o => obs_eqb (observe_n e (tx_all t')) o end
      then chk_calls e t' rest else None
    | _ => None
    end
  end.

Definition action_eqb (a b : action) : bool :=
  match a, b with
  | APut x, APut y => scalar_eqb x y
  | AMake x, AMake y => objtype_eqb x y
  | ADel, ADel => true
  | AInc x, AInc y => Z.eqb x y
  | AMarkBegin e1 n1 v1, AMarkBegin e2 n2 v2 => Bool.eqb e1 e2 && nlist_eqb n1 n2 && scalar_eqb v1 v2
  | AMarkEnd x, AMarkEnd y => Bool.eqb x y
  | _, _ => false
  end.

(* predecessors are a set: compared sorted *)
Definition op_eqb (a b : op) : bool :=
  opid_eqb (op_id a) (op_id b) && opid_eqb (op_obj a) (op_obj b) && key_eqb (op_key a) (op_key b)
  && Bool.eqb (op_insert a) (op_insert b) && action_eqb (op_action a) (op_action b)
  && list_eqb opid_eqb (isort opid_cmp (op_pred a)) (isort opid_cmp (op_pred b)).

Definition chk_edit (e : enc) (changes : list change) (a : actor) (cs : list call_exp)
                    (committed : list op) (after : obs) : bool :=
  let t0 := begin_tx (all_ops changes) a in
  wf_tx_b t0 &&
  match chk_calls e t0 cs with
  | Some t => list_eqb op_eqb (tx_pending t) committed
              && obs_eqb (observe_n e (all_ops changes ++ tx_pending t)) after
  | None => false
  end.

(* diagnosis (not used by the check): [call index; component] of the first disagreement:
   1 status, 2 pending count, 3 observation, 4 model panic; [1000;k] = committed op k differs,
   [2000] = observation after commit, [3000] = history not well-formed *)
Fixpoint diag_calls (e : enc) (t : tx) (cs : list call_exp) (n : N) : list N + tx :=
  match cs with
  | [] => inr t
  | (c, st, np, ob) :: rest =>
    match apply_call e t c with
    | EOk (t', s) =>
      if negb (status_code s =? st) then inl [n; 1; status_code s]
      else if negb (N.of_nat (length (tx_pending t')) =? np) then inl [n; 2; N.of_nat (length (tx_pending t'))]
      else if negb (match ob with None => true | Some o => obs_eqb (observe_n e (tx_all t')) o end) then inl [n; 3]
      else diag_calls e t' rest (n + 1)
    | _ => inl [n; 4]
    end
  end.

Fixpoint first_diff (a b : list op) (n : N) : list N :=
  match a, b with
  | [], [] => []
  | x :: a', y :: b' => if op_eqb x y then first_diff a' b' (n + 1) else [1000; n]
  | _, _ => [1000; n; 9999]
  end.

Definition diag_edit (e : enc) (changes : list change) (a : actor) (cs : list call_exp)
                     (committed : list op) (after : obs) : list N * list op :=
  let t0 := begin_tx (all_ops changes) a in
  if negb (wf_tx_b t0) then ([3000], []) else
  match diag_calls e t0 cs 0 with
  | inl d => (d, [])
  | inr t => match first_diff (tx_pending t) committed 0 with
             | [] => if obs_eqb (observe_n e (all_ops changes ++ tx_pending t)) after then ([], []) else ([2000], [])
             | d => (d, tx_pending t)
             end
  end.
